(* Correspondence evaluator for area Idle (C12): the monitor P of Spec.v on
   the implementation's trace (violation) and the model of Model.v run on
   the same schedule (mismatch). *)
From VF Require Import Common.Verdict Idle.Model Idle.Spec.

Definition output_eqb (a b : output) : bool :=
  match a, b with
  | ONone, ONone | OBlocked, OBlocked | OCleaning, OCleaning | OAcquired, OAcquired
  | OAcqFailed, OAcqFailed | OCancelled, OCancelled | OPanic, OPanic | OStuck, OStuck => true
  | OReleased r1, OReleased r2 => rcls_eqb r1 r2
  | _, _ => false
  end.

(* One IdleInvoker case: the schedule that was executed on the real
   IdleInvoker (one event per critical section) and what the harness saw
   the released goroutine do. *)
Record icase := mkICase {
  ic_evs : list event;
  ic_outs : list output }.

Fixpoint iviol_from (i : nat) (m : mstate) (evs : list event) (outs : list output) : verdict :=
  match evs, outs with
  | e :: evs', o :: outs' =>
    let '(m', k) := mon_step m e o in
    if String.eqb k "" then iviol_from (S i) m' evs' outs' else VViolation i k
  | [], [] => VOk
  | _, _ => VMismatch i "malformed case"
  end.

Fixpoint imism_from (i : nat) (s : state) (evs : list event) (outs : list output) : verdict :=
  match evs, outs with
  | e :: evs', o :: outs' =>
    let '(s', y) := step s e in
    if output_eqb o y then imism_from (S i) s' evs' outs' else VMismatch i "output"
  | _, _ => VOk
  end.

Definition check_icase (c : icase) : verdict :=
  vcombine (iviol_from 0 minit (ic_evs c) (ic_outs c))
           (imism_from 0 init (ic_evs c) (ic_outs c)).

(* ---- directory creators ------------------------------------------------ *)

Definition dout_eqb (a b : dout) : bool :=
  match a, b with
  | DSkip, DSkip => true
  | DGot x, DGot y => String.eqb x y
  | DErr x, DErr y => N.eqb x y
  | DClosed x, DClosed y => N.eqb x y
  | DWrote x, DWrote y => Bool.eqb x y
  | DRet, DRet | DLeaked, DLeaked => true
  | _, _ => false
  end.

Fixpoint strs_eqb (a b : list string) : bool :=
  match a, b with
  | [], [] => true
  | x :: a', y :: b' => String.eqb x y && strs_eqb a' b'
  | _, _ => false
  end.

Fixpoint listing_eqb (a b : listing) : bool :=
  match a, b with
  | [], [] => true
  | (x, fx) :: a', (y, fy) :: b' => String.eqb x y && strs_eqb fx fy && listing_eqb a' b'
  | _, _ => false
  end.

(* One creators case: the operations run on the real
   Shared(Clean(Root(in-memory directory))) stack and, per operation, the
   result, the number of Cleaner invocations and the root listing after. *)
Record dcase := mkDCase {
  dc_ops : list dop;
  dc_obs : list dobs }.

Fixpoint dviol_from (i : nat) (m : dmstate) (ops : list dop) (obs : list dobs) : verdict :=
  match ops, obs with
  | o :: ops', ob :: obs' =>
    let '(m', k) := dmon_step m o ob in
    if String.eqb k "" then dviol_from (S i) m' ops' obs' else VViolation i k
  | [], [] => VOk
  | _, _ => VMismatch i "malformed case"
  end.

Fixpoint dmism_from (i : nat) (s : dstate) (ops : list dop) (obs : list dobs) : verdict :=
  match ops, obs with
  | o :: ops', ob :: obs' =>
    let '(s', out, c) := dstep s o in
    if negb (dout_eqb (ob_out ob) out) then VMismatch i "result"
    else if negb (Nat.eqb (ob_cleans ob) c) then VMismatch i "cleaner-runs"
    else if negb (listing_eqb (ob_listing ob) (d_root s')) then VMismatch i "listing"
    else dmism_from (S i) s' ops' obs'
  | _, _ => VOk
  end.

Definition check_dcase (c : dcase) : verdict :=
  vcombine (dviol_from 0 dminit (dc_ops c) (dc_obs c))
           (dmism_from 0 dinit (dc_ops c) (dc_obs c)).

(* The action hashes the harness uses (named here so that case files do not
   spell out 64-character literals in every operation). *)
Definition hash0 : string := "aaaaaaaaaaaaaaaa000000000000000000000000000000000000000000000000".
Definition hash1 : string := "aaaaaaaaaaaaaaaa111111111111111111111111111111111111111111111111".
Definition hash2 : string := "0123456789012345222222222222222222222222222222222222222222222222".
Definition hash3 : string := "bbbbbbbbbbbbbbbbbbbbbbbbbbbbbbbbbbbbbbbbbbbbbbbbbbbbbbbbbbbbbbbb".

Inductive case :=
| CIdle (c : icase)
| CDirs (c : dcase).

Definition check_case (c : case) : verdict :=
  match c with
  | CIdle c => check_icase c
  | CDirs c => check_dcase c
  end.
