(* C12, IdleInvoker part: the property as a monitor over observable traces.

   A trace is a list of (event, output).  On the implementation the output
   is what the harness saw the real goroutine do after it was released for
   that one step (parked in the instrumented Cleaner, parked waiting,
   returned nil / an error class, panicked).  [mon_step] is the per-step
   predicate P: it keeps the *specification state* (how many users hold the
   invoker, which thread is inside the Cleaner, result of the last Cleaner
   run, who holds) computed from the outputs alone and returns "" or the
   kind of violation.  Proofs.v shows (a) every trace the monitor accepts
   has the C12 properties, (b) every trace of the model is accepted;
   Corr.v evaluates the same [mon_step] on implementation traces. *)
From Coq Require Export String.
From VF Require Export Idle.Model.
Open Scope string_scope.

Inductive ckind := CAcq | CRel (base_ok : bool).

Record mstate := mkM {
  users : nat;                       (* successful Acquires minus Releases begun *)
  cleaner : option (nat * ckind);    (* thread inside the Cleaner, and why *)
  last_clean : option bool;          (* result of the last completed Cleaner run *)
  holders : list nat;                (* one entry per acquisition held, by thread *)
  unbal : bool;                      (* some thread released what it did not hold *)
  waiting : nat -> bool }.           (* threads sleeping in Acquire *)

Definition minit : mstate := mkM 0 None None [] false (fun _ => false).

Definition set_waiting (f : nat -> bool) (t : nat) (b : bool) : nat -> bool :=
  fun x => if Nat.eqb x t then b else f x.

Definition is_cleaner (m : mstate) (t : nat) : bool :=
  match cleaner m with Some (t', _) => Nat.eqb t' t | None => false end.

Definition busy (m : mstate) (t : nat) : bool := waiting m t || is_cleaner m t.

Definition rcls_eqb (a b : rcls) : bool :=
  match a, b with
  | ROk, ROk | RBaseErr, RBaseErr | RCleanErr, RCleanErr => true
  | _, _ => false
  end.

Fixpoint remove_one (t : nat) (l : list nat) : list nat :=
  match l with
  | [] => []
  | x :: tl => if Nat.eqb x t then tl else x :: remove_one t tl
  end.

Definition holds (m : mstate) (t : nat) : bool := existsb (Nat.eqb t) (holders m).

(* The thread is at the head of Acquire's wait loop with the lock held. *)
Definition mon_acquire (m : mstate) (t : nat) (o : output) : mstate * string :=
  match o with
  | OBlocked =>
    match cleaner m with
    | Some _ => (mkM (users m) (cleaner m) (last_clean m) (holders m) (unbal m)
                     (set_waiting (waiting m) t true), "")
    | None => (m, "blocked-without-cleaner")
    end
  | OCleaning =>
    match cleaner m with
    | Some _ => (m, "clean-overlap")
    | None =>
      if Nat.eqb (users m) 0
      then (mkM (users m) (Some (t, CAcq)) (last_clean m) (holders m) (unbal m)
                (set_waiting (waiting m) t false), "")
      else (m, "clean-while-in-use")
    end
  | OAcquired =>
    match cleaner m with
    | Some _ => (m, "acquired-during-clean")
    | None =>
      if Nat.eqb (users m) 0
      then (m, "acquired-without-clean")
      else (mkM (S (users m)) None (last_clean m) (t :: holders m) (unbal m)
                (set_waiting (waiting m) t false), "")
    end
  | OStuck => (m, "thread-stuck")
  | _ => (m, "bad-output-acquire")
  end.

Definition mon_clean_done (m : mstate) (t : nat) (ok : bool) (k : ckind) (o : output)
    : mstate * string :=
  match k with
  | CAcq =>
    if ok then
      match o with
      | OAcquired => (mkM (S (users m)) None (Some true) (t :: holders m) (unbal m) (waiting m), "")
      | OStuck => (m, "thread-stuck")
      | _ => (m, "acquire-refused-after-good-clean")
      end
    else
      match o with
      | OAcqFailed => (mkM (users m) None (Some false) (holders m) (unbal m) (waiting m), "")
      | OAcquired => (m, "start-after-failed-clean")
      | OStuck => (m, "thread-stuck")
      | _ => (m, "bad-output-cleandone")
      end
  | CRel b =>
    match o with
    | OReleased r =>
      if rcls_eqb r (release_result b ok)
      then (mkM (users m) None (Some ok) (holders m) (unbal m) (waiting m), "")
      else (m, "wrong-release-result")
    | OStuck => (m, "thread-stuck")
    | _ => (m, "bad-output-cleandone")
    end
  end.

Definition mon_release (m : mstate) (t : nat) (b : bool) (o : output) : mstate * string :=
  let ub := unbal m || negb (holds m t) in
  let hs := remove_one t (holders m) in
  match o with
  | OPanic =>
    if Nat.eqb (users m) 0
    then (mkM (users m) (cleaner m) (last_clean m) hs ub (waiting m), "")
    else (m, "panic-with-users")
  | OReleased r =>
    if Nat.leb 2 (users m) then
      if rcls_eqb r (release_result b true)
      then (mkM (pred (users m)) (cleaner m) (last_clean m) hs ub (waiting m), "")
      else (m, "wrong-release-result")
    else (m, "no-clean-at-last-release")
  | OCleaning =>
    match cleaner m with
    | Some _ => (m, "clean-overlap")
    | None =>
      if Nat.eqb (users m) 1
      then (mkM 0 (Some (t, CRel b)) (last_clean m) hs ub (waiting m), "")
      else if Nat.eqb (users m) 0 then (m, "clean-at-release-without-users")
      else (m, "clean-while-in-use")
    end
  | OStuck => (m, "thread-stuck")
  | _ => (m, "bad-output-release")
  end.

Definition is_none (o : output) : bool := match o with ONone => true | _ => false end.

Definition mon_step (m : mstate) (e : event) (o : output) : mstate * string :=
  if is_none o then (m, "") else
  match e with
  | AcqStart t => if busy m t then (m, "bad-trace") else mon_acquire m t o
  | Wake t => if waiting m t then mon_acquire m t o else (m, "bad-trace")
  | CancelWait t =>
    if waiting m t then
      match o with
      | OCancelled => (mkM (users m) (cleaner m) (last_clean m) (holders m) (unbal m)
                           (set_waiting (waiting m) t false), "")
      | OStuck => (m, "thread-stuck")
      | _ => (m, "bad-output-cancel")
      end
    else (m, "bad-trace")
  | CleanDone t ok =>
    match cleaner m with
    | Some (t', k) => if Nat.eqb t' t then mon_clean_done m t ok k o else (m, "bad-trace")
    | None => (m, "bad-trace")
    end
  | RelStart t b => if busy m t then (m, "bad-trace") else mon_release m t b o
  end.

Fixpoint mon_run (m : mstate) (tr : list (event * output)) : mstate * string :=
  match tr with
  | [] => (m, "")
  | (e, o) :: tl =>
    let '(m', k) := mon_step m e o in
    if String.eqb k "" then mon_run m' tl else (m', k)
  end.

Definition trace_ok (tr : list (event * output)) : bool :=
  String.eqb (snd (mon_run minit tr)) "".

Definition mon_final (tr : list (event * output)) : mstate := fst (mon_run minit tr).

(* ---- What acceptance means: properties of the specification state ------- *)

(* clean_exclusive / use_implies_cleaned, as an invariant of accepted traces. *)
Definition Minv (m : mstate) : Prop :=
  (cleaner m <> None -> users m = 0) /\
  (0 < users m -> last_clean m = Some true /\ cleaner m = None) /\
  (unbal m = false -> users m = length (holders m)).

(* clean_at_transitions: the step calls the Cleaner exactly when it is an
   Acquire that finds nobody using the invoker and no cleaner in flight
   (0 -> 1), or a Release of the last user (1 -> 0). *)
Definition starts_transition (m : mstate) (e : event) : Prop :=
  match e with
  | AcqStart _ | Wake _ => users m = 0 /\ cleaner m = None
  | RelStart _ _ => users m = 1
  | _ => False
  end.

(* A predicate holding at every step of an accepted run. *)
Fixpoint all_steps (Q : mstate -> event -> output -> mstate -> Prop) (m : mstate)
    (tr : list (event * output)) : Prop :=
  match tr with
  | [] => True
  | (e, o) :: tl => let m' := fst (mon_step m e o) in Q m e o m' /\ all_steps Q m' tl
  end.

(* Per-thread balance of a trace: no Release by a thread that holds nothing. *)
Definition balanced (tr : list (event * output)) : Prop := unbal (mon_final tr) = false.

Definition no_panic_in (tr : list (event * output)) : Prop :=
  forall e o, In (e, o) tr -> o <> OPanic.
