(* C12, IdleInvoker part: the property as a monitor over observable traces.

   A trace is a list of (event, output).  On the implementation the output
   is what the harness saw the real goroutine do after it was released for
   that one step (parked in the instrumented Cleaner, parked waiting,
   returned nil / an error class, panicked).  [mon_step] is the per-step
   predicate P: it keeps the *specification state* (how many users hold the
   invoker, which thread is inside the Cleaner, result of the last Cleaner
   run, who holds) computed from the outputs alone and returns "" or the
   kind of violation.  Proofs.v shows (a) every trace the monitor accepts
   has the C12 properties, (b) every trace of the model is accepted;
   Corr.v evaluates the same [mon_step] on implementation traces. *)
From Coq Require Export String.
From VF Require Export Idle.Model.
Open Scope string_scope.

Inductive ckind := CAcq | CRel (base_ok : bool).

Record mstate := mkM {
  users : nat;                       (* successful Acquires minus Releases begun *)
  cleaner : option (nat * ckind);    (* thread inside the Cleaner, and why *)
  last_clean : option bool;          (* result of the last completed Cleaner run *)
  holders : list nat;                (* one entry per acquisition held, by thread *)
  unbal : bool;                      (* some thread released what it did not hold *)
  waiting : nat -> bool }.           (* threads sleeping in Acquire *)

Definition minit : mstate := mkM 0 None None [] false (fun _ => false).

Definition set_waiting (f : nat -> bool) (t : nat) (b : bool) : nat -> bool :=
  fun x => if Nat.eqb x t then b else f x.

Definition is_cleaner (m : mstate) (t : nat) : bool :=
  match cleaner m with Some (t', _) => Nat.eqb t' t | None => false end.

Definition busy (m : mstate) (t : nat) : bool := waiting m t || is_cleaner m t.

Definition rcls_eqb (a b : rcls) : bool :=
  match a, b with
  | ROk, ROk | RBaseErr, RBaseErr | RCleanErr, RCleanErr => true
  | _, _ => false
  end.

Fixpoint remove_one (t : nat) (l : list nat) : list nat :=
  match l with
  | [] => []
  | x :: tl => if Nat.eqb x t then tl else x :: remove_one t tl
  end.

Definition holds (m : mstate) (t : nat) : bool := existsb (Nat.eqb t) (holders m).

(* The thread is at the head of Acquire's wait loop with the lock held. *)
Definition mon_acquire (m : mstate) (t : nat) (o : output) : mstate * string :=
  match o with
  | OBlocked =>
    match cleaner m with
    | Some _ => (mkM (users m) (cleaner m) (last_clean m) (holders m) (unbal m)
                     (set_waiting (waiting m) t true), "")
    | None => (m, "blocked-without-cleaner")
    end
  | OCleaning =>
    match cleaner m with
    | Some _ => (m, "clean-overlap")
    | None =>
      if Nat.eqb (users m) 0
      then (mkM (users m) (Some (t, CAcq)) (last_clean m) (holders m) (unbal m)
                (set_waiting (waiting m) t false), "")
      else (m, "clean-while-in-use")
    end
  | OAcquired =>
    match cleaner m with
    | Some _ => (m, "acquired-during-clean")
    | None =>
      if Nat.eqb (users m) 0
      then (m, "acquired-without-clean")
      else (mkM (S (users m)) None (last_clean m) (t :: holders m) (unbal m)
                (set_waiting (waiting m) t false), "")
    end
  | OStuck => (m, "thread-stuck")
  | OPanic => (m, "panic-in-acquire")
  | _ => (m, "bad-output-acquire")
  end.

Definition mon_clean_done (m : mstate) (t : nat) (ok : bool) (k : ckind) (o : output)
    : mstate * string :=
  match k with
  | CAcq =>
    if ok then
      match o with
      | OAcquired => (mkM (S (users m)) None (Some true) (t :: holders m) (unbal m) (waiting m), "")
      | OStuck => (m, "thread-stuck")
      | _ => (m, "acquire-refused-after-good-clean")
      end
    else
      match o with
      | OAcqFailed => (mkM (users m) None (Some false) (holders m) (unbal m) (waiting m), "")
      | OAcquired => (m, "start-after-failed-clean")
      | OStuck => (m, "thread-stuck")
      | OPanic => (m, "panic-after-clean")
      | _ => (m, "bad-output-cleandone")
      end
  | CRel b =>
    match o with
    | OReleased r =>
      if rcls_eqb r (release_result b ok)
      then (mkM (users m) None (Some ok) (holders m) (unbal m) (waiting m), "")
      else (m, "wrong-release-result")
    | OStuck => (m, "thread-stuck")
    | OPanic => (m, "panic-after-clean")
    | _ => (m, "bad-output-cleandone")
    end
  end.

Definition mon_release (m : mstate) (t : nat) (b : bool) (o : output) : mstate * string :=
  let ub := unbal m || negb (holds m t) in
  let hs := remove_one t (holders m) in
  match o with
  | OPanic =>
    if Nat.eqb (users m) 0
    then (mkM (users m) (cleaner m) (last_clean m) hs ub (waiting m), "")
    else (m, "panic-with-users")
  | OReleased r =>
    if Nat.leb 2 (users m) then
      if rcls_eqb r (release_result b true)
      then (mkM (pred (users m)) (cleaner m) (last_clean m) hs ub (waiting m), "")
      else (m, "wrong-release-result")
    else (m, "no-clean-at-last-release")
  | OCleaning =>
    match cleaner m with
    | Some _ => (m, "clean-overlap")
    | None =>
      if Nat.eqb (users m) 1
      then (mkM 0 (Some (t, CRel b)) (last_clean m) hs ub (waiting m), "")
      else if Nat.eqb (users m) 0 then (m, "clean-at-release-without-users")
      else (m, "clean-while-in-use")
    end
  | OStuck => (m, "thread-stuck")
  | _ => (m, "bad-output-release")
  end.

Definition is_none (o : output) : bool := match o with ONone => true | _ => false end.

Definition mon_step (m : mstate) (e : event) (o : output) : mstate * string :=
  if is_none o then (m, "") else
  match e with
  | AcqStart t => if busy m t then (m, "bad-trace") else mon_acquire m t o
  | Wake t => if waiting m t then mon_acquire m t o else (m, "bad-trace")
  | CancelWait t =>
    if waiting m t then
      match o with
      | OCancelled => (mkM (users m) (cleaner m) (last_clean m) (holders m) (unbal m)
                           (set_waiting (waiting m) t false), "")
      | OStuck => (m, "thread-stuck")
      | _ => (m, "bad-output-cancel")
      end
    else (m, "bad-trace")
  | CleanDone t ok =>
    match cleaner m with
    | Some (t', k) => if Nat.eqb t' t then mon_clean_done m t ok k o else (m, "bad-trace")
    | None => (m, "bad-trace")
    end
  | RelStart t b => if busy m t then (m, "bad-trace") else mon_release m t b o
  end.

Fixpoint mon_run (m : mstate) (tr : list (event * output)) : mstate * string :=
  match tr with
  | [] => (m, "")
  | (e, o) :: tl =>
    let '(m', k) := mon_step m e o in
    if String.eqb k "" then mon_run m' tl else (m', k)
  end.

Definition trace_ok (tr : list (event * output)) : bool :=
  String.eqb (snd (mon_run minit tr)) "".

Definition mon_final (tr : list (event * output)) : mstate := fst (mon_run minit tr).

(* ---- What acceptance means: properties of the specification state ------- *)

(* clean_exclusive / use_implies_cleaned, as an invariant of accepted traces. *)
Definition Minv (m : mstate) : Prop :=
  (cleaner m <> None -> users m = 0) /\
  (0 < users m -> last_clean m = Some true /\ cleaner m = None) /\
  (unbal m = false -> users m = List.length (holders m)).

(* clean_at_transitions: the step calls the Cleaner exactly when it is an
   Acquire that finds nobody using the invoker and no cleaner in flight
   (0 -> 1), or a Release of the last user (1 -> 0). *)
Definition starts_transition (m : mstate) (e : event) : Prop :=
  match e with
  | AcqStart _ | Wake _ => users m = 0 /\ cleaner m = None
  | RelStart _ _ => users m = 1
  | _ => False
  end.

(* A predicate holding at every step of an accepted run. *)
Fixpoint all_steps (Q : mstate -> event -> output -> mstate -> Prop) (m : mstate)
    (tr : list (event * output)) : Prop :=
  match tr with
  | [] => True
  | (e, o) :: tl => let m' := fst (mon_step m e o) in Q m e o m' /\ all_steps Q m' tl
  end.

(* Per-thread balance of a trace: no Release by a thread that holds nothing. *)
Definition balanced (tr : list (event * output)) : Prop := unbal (mon_final tr) = false.

Definition no_panic_in (tr : list (event * output)) : Prop :=
  forall e o, In (e, o) tr -> o <> OPanic.

(* ========================================================================== *)
(* Directory creators: the monitor over (operation, observation) traces.

   Observation of one operation on the real stack: its result (name handed
   out / gRPC code), how many times the instrumented Cleaner ran inside it,
   and the listing of the root build directory afterwards (names with the
   entries inside each).  The monitor keeps which handles are open (with
   the directory name each was given), the counter names handed out so far
   and the previous listing. *)

Record dmstate := mkDM {
  dm_open : list (nat * string);
  dm_issued : list string;
  dm_listing : listing }.

Definition dminit : dmstate := mkDM [] [] [].

Definition mem (n : string) (l : list string) : bool := existsb (String.eqb n) l.

Definition name_open (op : list (nat * string)) (n : string) : bool :=
  existsb (fun e => String.eqb (snd e) n) op.

Definition empty_dir_in (n : string) (l : listing) : bool :=
  existsb (fun e => String.eqb (fst e) n && match snd e with [] => true | _ => false end) l.

Definition subset_names (post pre : listing) : bool :=
  forallb (fun e => has (fst e) pre) post.

Definition all_open_exist (op : list (nat * string)) (l : listing) : bool :=
  forallb (fun e => has (snd e) l) op.

Definition is_nil {A} (l : list A) : bool := match l with [] => true | _ => false end.

Definition is_nil_opt {A} (o : option A) : bool := match o with None => true | Some _ => false end.

Definition close_code (users : nat) (f : cfail) : N :=
  if cf_child f then 10%N
  else if cf_removeall f then 13%N
  else if Nat.eqb users 1 && cf_clean f then 15%N else 0%N.

Definition dmon_step (m : dmstate) (o : dop) (ob : dobs) : dmstate * string :=
  let users := List.length (dm_open m) in
  let post := ob_listing ob in
  match o, ob_out ob with
  | _, DSkip => (m, "")
  | DGet k dig f, DGot n =>
    match slot_name (dm_open m) k with
    | Some _ => (m, "get-on-open-handle")
    | None =>
      if Nat.eqb users 0 && gf_clean f then (m, "start-after-failed-clean")
      else if negb (Nat.eqb (ob_cleans ob) (if Nat.eqb users 0 then 1 else 0))
      then (m, "clean-count-get")
      else if name_open (dm_open m) n then (m, "build-dir-shared")
      else if negb (empty_dir_in n post) then (m, "build-dir-not-empty")
      else if Nat.eqb users 0 && negb (Nat.eqb (List.length post) 1) then (m, "stale-after-clean")
      else if is_nil_opt dig && mem n (dm_issued m) then (m, "counter-name-reused")
      else if negb (all_open_exist (dm_open m) post) then (m, "open-dir-vanished")
      else (mkDM ((k, n) :: dm_open m)
                 (if is_nil_opt dig then n :: dm_issued m else dm_issued m) post, "")
    end
  | DGet k dig f, DErr code =>
    match slot_name (dm_open m) k with
    | Some _ => (m, "bad-trace")
    | None =>
      if negb (Nat.eqb (ob_cleans ob)
                 (if Nat.eqb users 0 then (if gf_clean f then 1 else 2) else 0))
      then (m, "clean-count-failed-get")
      else if negb (gf_enter f && gf_remove f) && negb (subset_names post (dm_listing m))
      then (m, "dir-leaked-on-failed-get")
      else if Nat.eqb users 0 && negb (gf_clean f) && negb (gf_clean2 f) && negb (is_nil post)
      then (m, "idle-root-not-empty")
      else if negb (all_open_exist (dm_open m) post) then (m, "open-dir-vanished")
      else (mkDM (dm_open m) (dm_issued m) post, "")
    end
  | DClose k f, DClosed code =>
    match slot_name (dm_open m) k with
    | None => (m, "close-on-closed-directory")
    | Some n =>
      let op' := drop_slot (dm_open m) k in
      if negb (N.eqb code (close_code users f)) then (m, "wrong-close-result")
      else if negb (Nat.eqb (ob_cleans ob) (if Nat.eqb users 1 then 1 else 0))
      then (m, "clean-count-close")
      else if negb (cf_removeall f) && has n post then (m, "dir-not-removed")
      else if Nat.eqb users 1 && negb (cf_clean f) && negb (is_nil post)
      then (m, "idle-root-not-empty")
      else if negb (all_open_exist op' post) then (m, "open-dir-vanished")
      else (mkDM op' (dm_issued m) post, "")
    end
  | DWrite k file, DWrote _ =>
    if negb (all_open_exist (dm_open m) post) then (m, "open-dir-vanished")
    else (mkDM (dm_open m) (dm_issued m) post, "")
  | DReturn k, DRet =>
    match slot_name (dm_open m) k with
    | Some _ => (m, "bad-trace")
    | None => (m, "")
    end
  | DReturn k, DLeaked => (m, "executor-returned-without-close")
  | _, _ => (m, "bad-output-dirs")
  end.

Fixpoint dmon_run (m : dmstate) (tr : list (dop * dobs)) : dmstate * string :=
  match tr with
  | [] => (m, "")
  | (o, ob) :: tl =>
    let '(m', k) := dmon_step m o ob in
    if String.eqb k "" then dmon_run m' tl else (m', k)
  end.

Definition dtrace_ok (tr : list (dop * dobs)) : bool :=
  String.eqb (snd (dmon_run dminit tr)) "".

(* Counter names handed out along a trace. *)
Fixpoint counter_names (tr : list (dop * dobs)) : list string :=
  match tr with
  | [] => []
  | (DGet _ None _, mkObs (DGot n) _ _) :: tl => n :: counter_names tl
  | _ :: tl => counter_names tl
  end.
