(* Executable model of pkg/cleaner/idle_invoker.go (IdleInvoker) at the
   granularity "one event = one critical section of i.lock" (DESIGN §2).

   Go state              model
   --------              -----
   i.useCount            useCount
   i.wakeup (chan/nil)   wakeup : option nat  (Some g = channel number g is
                          open, i.e. a cleaner call is in flight)
   channels ever made    gen  (channel g is closed iff g < gen and
                          wakeup <> Some g)
   goroutines inside     pcs : thread id -> program counter
   Acquire/Release

   A thread that is not inside a call is PIdle.  Acquire that finds
   i.wakeup != nil captures that channel and sleeps in the select (PWait g);
   a thread that called clean() released the lock around i.f(ctx) and is
   PAcqClean / PRelClean.  The cleaner's result is an oracle carried by
   the CleanDone event; cancellation of a sleeping Acquire is CancelWait.

   The callers modelled on top (cleanRunner.Run/CheckReadiness,
   cleanBuildDirectory.Close) call Release exactly once after their base
   call and prefer the base call's error: RelStart carries base_ok and the
   release result class reproduces that precedence.  A direct caller of
   IdleInvoker.Release is the case base_ok = true. *)
From Coq Require Export List Bool Arith.
Export ListNotations.

Inductive pc :=
| PIdle
| PWait (g : nat)
| PAcqClean
| PRelClean (base_ok : bool).

Record state := mkState {
  useCount : nat;
  wakeup : option nat;
  gen : nat;
  pcs : nat -> pc }.

Definition init : state := mkState 0 None 0 (fun _ => PIdle).

Inductive event :=
| AcqStart (t : nat)                  (* Acquire called: Lock ... first Unlock *)
| Wake (t : nat)                      (* sleeper's channel was closed: re-Lock, loop *)
| CancelWait (t : nat)                (* sleeper's ctx.Done() wins the select *)
| CleanDone (t : nat) (ok : bool)     (* i.f returned: Lock, close(wakeup), ... Unlock *)
| RelStart (t : nat) (base_ok : bool) (* Release called: Lock ... first Unlock *).

Inductive rcls := ROk | RBaseErr | RCleanErr.

Inductive output :=
| ONone                 (* event not enabled for that thread: nothing happens *)
| OBlocked              (* Acquire sleeps until the in-flight cleaner ends *)
| OCleaning             (* the Cleaner was called; the thread is inside it *)
| OAcquired             (* Acquire returned nil *)
| OAcqFailed            (* Acquire returned the Cleaner's error *)
| OCancelled            (* Acquire returned the context's error *)
| OReleased (r : rcls)  (* Release (or its wrapper) returned *)
| OPanic                (* one of the two panics of idle_invoker.go *)
| OStuck.               (* harness only: the call neither parked nor returned *)

Definition upd (f : nat -> pc) (t : nat) (p : pc) : nat -> pc :=
  fun x => if Nat.eqb x t then p else f x.

Definition set_pc (s : state) (t : nat) (p : pc) : state :=
  mkState (useCount s) (wakeup s) (gen s) (upd (pcs s) t p).

(* Channel g has been closed. *)
Definition closed (s : state) (g : nat) : bool :=
  Nat.ltb g (gen s) && match wakeup s with Some h => negb (Nat.eqb g h) | None => true end.

(* Acquire with the lock held, at the head of "for i.wakeup != nil". *)
Definition acquire_locked (s : state) (t : nat) : state * output :=
  match wakeup s with
  | Some g => (set_pc s t (PWait g), OBlocked)
  | None =>
    if Nat.eqb (useCount s) 0
    then (* clean(): i.wakeup is nil, so no panic; make channel, unlock, call f *)
      (mkState (useCount s) (Some (gen s)) (S (gen s)) (upd (pcs s) t PAcqClean), OCleaning)
    else (mkState (S (useCount s)) None (gen s) (upd (pcs s) t PIdle), OAcquired)
  end.

Definition release_result (base_ok clean_ok : bool) : rcls :=
  if negb base_ok then RBaseErr else if clean_ok then ROk else RCleanErr.

Definition step (s : state) (e : event) : state * output :=
  match e with
  | AcqStart t =>
    match pcs s t with
    | PIdle => acquire_locked s t
    | _ => (s, ONone)
    end
  | Wake t =>
    match pcs s t with
    | PWait g => if closed s g then acquire_locked s t else (s, ONone)
    | _ => (s, ONone)
    end
  | CancelWait t =>
    match pcs s t with
    | PWait _ => (set_pc s t PIdle, OCancelled)
    | _ => (s, ONone)
    end
  | CleanDone t ok =>
    match pcs s t with
    | PAcqClean =>
      (* close(wakeup); i.wakeup = nil; then Acquire's tail *)
      if ok
      then (mkState (S (useCount s)) None (gen s) (upd (pcs s) t PIdle), OAcquired)
      else (mkState (useCount s) None (gen s) (upd (pcs s) t PIdle), OAcqFailed)
    | PRelClean b =>
      (mkState (useCount s) None (gen s) (upd (pcs s) t PIdle), OReleased (release_result b ok))
    | _ => (s, ONone)
    end
  | RelStart t b =>
    match pcs s t with
    | PIdle =>
      if Nat.eqb (useCount s) 0
      then (s, OPanic)                       (* "zero use count"; deferred Unlock runs *)
      else
        let u := pred (useCount s) in
        if Nat.ltb 0 u
        then (mkState u (wakeup s) (gen s) (pcs s), OReleased (release_result b true))
        else match wakeup s with
             | Some _ =>                      (* "Cleaning is already in progress" *)
               (mkState u (wakeup s) (gen s) (pcs s), OPanic)
             | None =>
               (mkState u (Some (gen s)) (S (gen s)) (upd (pcs s) t (PRelClean b)), OCleaning)
             end
    | _ => (s, ONone)
    end
  end.

Fixpoint run (s : state) (evs : list event) : state :=
  match evs with
  | [] => s
  | e :: tl => run (fst (step s e)) tl
  end.

Fixpoint trace (s : state) (evs : list event) : list (event * output) :=
  match evs with
  | [] => []
  | e :: tl => let '(s', o) := step s e in (e, o) :: trace s' tl
  end.

Definition is_clean (p : pc) : bool :=
  match p with PAcqClean | PRelClean _ => true | _ => false end.
