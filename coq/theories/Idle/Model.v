(* Executable model of pkg/cleaner/idle_invoker.go (IdleInvoker) at the
   granularity "one event = one critical section of i.lock" (DESIGN §2).

   Go state              model
   --------              -----
   i.useCount            useCount
   i.wakeup (chan/nil)   wakeup : option nat  (Some g = channel number g is
                          open, i.e. a cleaner call is in flight)
   channels ever made    gen  (channel g is closed iff g < gen and
                          wakeup <> Some g)
   goroutines inside     pcs : thread id -> program counter
   Acquire/Release

   A thread that is not inside a call is PIdle.  Acquire that finds
   i.wakeup != nil captures that channel and sleeps in the select (PWait g);
   a thread that called clean() released the lock around i.f(ctx) and is
   PAcqClean / PRelClean.  The cleaner's result is an oracle carried by
   the CleanDone event; cancellation of a sleeping Acquire is CancelWait.

   The callers modelled on top (cleanRunner.Run/CheckReadiness,
   cleanBuildDirectory.Close) call Release exactly once after their base
   call and prefer the base call's error: RelStart carries base_ok and the
   release result class reproduces that precedence.  A direct caller of
   IdleInvoker.Release is the case base_ok = true. *)
From Coq Require Export List Bool Arith.
Export ListNotations.

Inductive pc :=
| PIdle
| PWait (g : nat)
| PAcqClean
| PRelClean (base_ok : bool).

Record state := mkState {
  useCount : nat;
  wakeup : option nat;
  gen : nat;
  pcs : nat -> pc }.

Definition init : state := mkState 0 None 0 (fun _ => PIdle).

Inductive event :=
| AcqStart (t : nat)                  (* Acquire called: Lock ... first Unlock *)
| Wake (t : nat)                      (* sleeper's channel was closed: re-Lock, loop *)
| CancelWait (t : nat)                (* sleeper's ctx.Done() wins the select *)
| CleanDone (t : nat) (ok : bool)     (* i.f returned: Lock, close(wakeup), ... Unlock *)
| RelStart (t : nat) (base_ok : bool) (* Release called: Lock ... first Unlock *).

Inductive rcls := ROk | RBaseErr | RCleanErr.

Inductive output :=
| ONone                 (* event not enabled for that thread: nothing happens *)
| OBlocked              (* Acquire sleeps until the in-flight cleaner ends *)
| OCleaning             (* the Cleaner was called; the thread is inside it *)
| OAcquired             (* Acquire returned nil *)
| OAcqFailed            (* Acquire returned the Cleaner's error *)
| OCancelled            (* Acquire returned the context's error *)
| OReleased (r : rcls)  (* Release (or its wrapper) returned *)
| OPanic                (* one of the two panics of idle_invoker.go *)
| OStuck.               (* harness only: the call neither parked nor returned *)

Definition upd (f : nat -> pc) (t : nat) (p : pc) : nat -> pc :=
  fun x => if Nat.eqb x t then p else f x.

Definition set_pc (s : state) (t : nat) (p : pc) : state :=
  mkState (useCount s) (wakeup s) (gen s) (upd (pcs s) t p).

(* Channel g has been closed. *)
Definition closed (s : state) (g : nat) : bool :=
  Nat.ltb g (gen s) && match wakeup s with Some h => negb (Nat.eqb g h) | None => true end.

(* Acquire with the lock held, at the head of "for i.wakeup != nil". *)
Definition acquire_locked (s : state) (t : nat) : state * output :=
  match wakeup s with
  | Some g => (set_pc s t (PWait g), OBlocked)
  | None =>
    if Nat.eqb (useCount s) 0
    then (* clean(): i.wakeup is nil, so no panic; make channel, unlock, call f *)
      (mkState (useCount s) (Some (gen s)) (S (gen s)) (upd (pcs s) t PAcqClean), OCleaning)
    else (mkState (S (useCount s)) None (gen s) (upd (pcs s) t PIdle), OAcquired)
  end.

Definition release_result (base_ok clean_ok : bool) : rcls :=
  if negb base_ok then RBaseErr else if clean_ok then ROk else RCleanErr.

Definition step (s : state) (e : event) : state * output :=
  match e with
  | AcqStart t =>
    match pcs s t with
    | PIdle => acquire_locked s t
    | _ => (s, ONone)
    end
  | Wake t =>
    match pcs s t with
    | PWait g => if closed s g then acquire_locked s t else (s, ONone)
    | _ => (s, ONone)
    end
  | CancelWait t =>
    match pcs s t with
    | PWait _ => (set_pc s t PIdle, OCancelled)
    | _ => (s, ONone)
    end
  | CleanDone t ok =>
    match pcs s t with
    | PAcqClean =>
      (* close(wakeup); i.wakeup = nil; then Acquire's tail *)
      if ok
      then (mkState (S (useCount s)) None (gen s) (upd (pcs s) t PIdle), OAcquired)
      else (mkState (useCount s) None (gen s) (upd (pcs s) t PIdle), OAcqFailed)
    | PRelClean b =>
      (mkState (useCount s) None (gen s) (upd (pcs s) t PIdle), OReleased (release_result b ok))
    | _ => (s, ONone)
    end
  | RelStart t b =>
    match pcs s t with
    | PIdle =>
      if Nat.eqb (useCount s) 0
      then (s, OPanic)                       (* "zero use count"; deferred Unlock runs *)
      else
        let u := pred (useCount s) in
        if Nat.ltb 0 u
        then (mkState u (wakeup s) (gen s) (pcs s), OReleased (release_result b true))
        else match wakeup s with
             | Some _ =>                      (* "Cleaning is already in progress" *)
               (mkState u (wakeup s) (gen s) (pcs s), OPanic)
             | None =>
               (mkState u (Some (gen s)) (S (gen s)) (upd (pcs s) t (PRelClean b)), OCleaning)
             end
    | _ => (s, ONone)
    end
  end.

Fixpoint run (s : state) (evs : list event) : state :=
  match evs with
  | [] => s
  | e :: tl => run (fst (step s e)) tl
  end.

Fixpoint trace (s : state) (evs : list event) : list (event * output) :=
  match evs with
  | [] => []
  | e :: tl => let '(s', o) := step s e in (e, o) :: trace s' tl
  end.

Definition is_clean (p : pc) : bool :=
  match p with PAcqClean | PRelClean _ => true | _ => false end.

(* ========================================================================== *)
(* Directory creators: NewSharedBuildDirectoryCreator(NewCleanBuildDirectory-
   Creator(NewRootBuildDirectoryCreator(root), idleInvoker), counter), the
   stack wired in cmd/bb_worker/main.go, as a sequential machine with a
   failure script.  Each operation carries the failure flags of the calls
   it makes on the base directory / the Cleaner, in call order.

   root        children of the root build directory in creation order, each
               with the names created inside it
   users       IdleInvoker.useCount (no concurrency here: the Cleaner runs
               to completion inside the operation)
   counter     nextParallelActionID
   slots       directories handed out and not yet closed: handle -> name

   The Cleaner is a directory cleaner: success empties the root, failure
   leaves it unchanged. *)
From Coq Require Export String NArith DecimalString.


Record gfail := mkGF {
  gf_clean : bool;    (* Cleaner in Acquire (only consulted when it runs) *)
  gf_mkdir : bool;    (* parentDirectory.Mkdir *)
  gf_enter : bool;    (* parentDirectory.EnterBuildDirectory *)
  gf_remove : bool;   (* parentDirectory.Remove after a failed enter *)
  gf_clean2 : bool }. (* Cleaner in the Release of parentDirectory.Close() *)

Record cfail := mkCF {
  cf_child : bool;      (* child BuildDirectory.Close *)
  cf_removeall : bool;  (* parentDirectory.RemoveAll *)
  cf_clean : bool }.    (* Cleaner in Release *)

Inductive dop :=
| DGet (slot : nat) (dig : option string) (f : gfail)
| DClose (slot : nat) (f : cfail)
| DWrite (slot : nat) (file : string)
| DReturn (slot : nat).  (* the executor that got the directory returned *)

Definition listing := list (string * list string).

Record dstate := mkD {
  d_root : listing;
  d_users : nat;
  d_counter : N;
  d_slots : list (nat * string) }.

Definition dinit : dstate := mkD [] 0 0%N [].

Inductive dout :=
| DSkip                 (* slot busy / not open: nothing happens *)
| DGot (name : string)  (* GetBuildDirectory succeeded; name of the subdirectory *)
| DErr (code : N)       (* GetBuildDirectory failed with this gRPC code *)
| DClosed (code : N)    (* Close returned (0 = nil) *)
| DWrote (ok : bool)
| DRet                  (* executor returned, its directory was closed *)
| DLeaked.              (* harness only: executor returned without Close *)

Definition has (n : string) (r : listing) : bool :=
  existsb (fun e => String.eqb (fst e) n) r.

Definition rm (n : string) (r : listing) : listing :=
  filter (fun e => negb (String.eqb (fst e) n)) r.

Fixpoint slot_name (sl : list (nat * string)) (k : nat) : option string :=
  match sl with
  | [] => None
  | (k', n) :: tl => if Nat.eqb k' k then Some n else slot_name tl k
  end.

Definition drop_slot (sl : list (nat * string)) (k : nat) : list (nat * string) :=
  filter (fun e => negb (Nat.eqb (fst e) k)) sl.

(* strconv.FormatUint(n, 10) *)
Definition dec (n : N) : string := NilEmpty.string_of_uint (N.to_uint n).

Definition dir_name (counter : N) (dig : option string) : string * N :=
  match dig with
  | None => let c := (counter + 1)%N in (dec c, c)
  | Some h => (substring 0 16 h, counter)
  end.

(* IdleInvoker.Release with [users] holders before it: the Cleaner runs iff
   this was the last one. Returns the root afterwards and the number of
   Cleaner runs. *)
Definition rel_clean (r : listing) (users : nat) (fail : bool) : listing * nat :=
  if Nat.eqb users 1 then ((if fail then r else []), 1) else (r, 0).

Fixpoint add_file (n file : string) (r : listing) : listing * bool :=
  match r with
  | [] => ([], false)
  | (n', fs) :: tl =>
    if String.eqb n' n then
      if existsb (String.eqb file) fs then (r, false) else ((n', fs ++ [file]) :: tl, true)
    else let '(tl', ok) := add_file n file tl in ((n', fs) :: tl', ok)
  end.

(* One operation: new state, result, number of Cleaner invocations. *)
Definition dstep (s : dstate) (o : dop) : dstate * dout * nat :=
  match o with
  | DGet k dig f =>
    match slot_name (d_slots s) k with
    | Some _ => (s, DSkip, 0)
    | None =>
      (* cleanBuildDirectoryCreator: Acquire *)
      let '(root1, ok1, c1) :=
        if Nat.eqb (d_users s) 0
        then (if gf_clean f then (d_root s, false, 1) else ([], true, 1))
        else (d_root s, true, 0) in
      if negb ok1 then (s, DErr 15, c1) else
      let users1 := S (d_users s) in
      let '(n, cnt) := dir_name (d_counter s) dig in
      if gf_mkdir f || has n root1 then
        let '(root2, c2) := rel_clean root1 users1 (gf_clean2 f) in
        (mkD root2 (d_users s) cnt (d_slots s), DErr 13, c1 + c2)
      else
        let root2 := root1 ++ [(n, [])] in
        if gf_enter f then
          let root3 := if gf_remove f then root2 else rm n root2 in
          let '(root4, c2) := rel_clean root3 users1 (gf_clean2 f) in
          (mkD root4 (d_users s) cnt (d_slots s), DErr 13, c1 + c2)
        else (mkD root2 users1 cnt ((k, n) :: d_slots s), DGot n, c1)
    end
  | DClose k f =>
    match slot_name (d_slots s) k with
    | None => (s, DSkip, 0)
    | Some n =>
      let root1 := if cf_removeall f then d_root s else rm n (d_root s) in
      let '(root2, c) := rel_clean root1 (d_users s) (cf_clean f) in
      let code := if cf_child f then 10%N
                  else if cf_removeall f then 13%N
                  else if Nat.eqb (d_users s) 1 && cf_clean f then 15%N else 0%N in
      (mkD root2 (pred (d_users s)) (d_counter s) (drop_slot (d_slots s) k), DClosed code, c)
    end
  | DWrite k file =>
    match slot_name (d_slots s) k with
    | None => (s, DSkip, 0)
    | Some n =>
      let '(r', ok) := add_file n file (d_root s) in
      (mkD r' (d_users s) (d_counter s) (d_slots s), DWrote ok, 0)
    end
  | DReturn k =>
    (* LocalBuildExecutor.Execute/CheckReadiness return only after their
       deferred Close; with the handle still open the event is not enabled *)
    match slot_name (d_slots s) k with
    | Some _ => (s, DSkip, 0)
    | None => (s, DRet, 0)
    end
  end.

Fixpoint drun (s : dstate) (ops : list dop) : dstate :=
  match ops with
  | [] => s
  | o :: tl => drun (fst (fst (dstep s o))) tl
  end.

(* What is observable of one step: result, Cleaner runs, listing afterwards. *)
Record dobs := mkObs { ob_out : dout; ob_cleans : nat; ob_listing : listing }.

Fixpoint dtrace (s : dstate) (ops : list dop) : list (dop * dobs) :=
  match ops with
  | [] => []
  | o :: tl => let '(s', out, c) := dstep s o in (o, mkObs out c (d_root s')) :: dtrace s' tl
  end.
