(* C12 — the property theorems, and nothing else. *)
From VF Require Import Idle.Model Idle.Spec Idle.Proofs Idle.ProofsDirs.

(* ---- IdleInvoker: for every interleaving of critical sections ------------ *)

(* The monitor P that Corr.v evaluates on implementation traces accepts
   every trace of the model. *)
Theorem idle_model_trace_ok : forall evs, trace_ok (trace init evs) = true.
Proof. exact model_trace_ok. Qed.
Print Assumptions idle_model_trace_ok.

(* Whatever trace P accepts (model or implementation): a cleaner in flight
   means nobody uses the invoker; a positive use count means the last
   completed Cleaner run succeeded and no cleaner is in flight; for
   balanced callers the use count is the number of acquisitions held. *)
Theorem accepted_trace_invariant : forall tr, trace_ok tr = true -> Minv (mon_final tr).
Proof. exact accepted_inv. Qed.
Print Assumptions accepted_trace_invariant.

(* clean_exclusive: a thread inside the Cleaner implies useCount = 0, the
   wakeup channel is set, and it is the only thread inside the Cleaner. *)
Theorem clean_exclusive : forall evs t,
  let s := run init evs in
  is_clean (pcs s t) = true ->
  useCount s = 0 /\ wakeup s <> None /\
  forall t', is_clean (pcs s t') = true -> t' = t.
Proof. exact clean_exclusive_model. Qed.
Print Assumptions clean_exclusive.

Theorem wakeup_iff_cleaner : forall evs,
  let s := run init evs in
  wakeup s <> None <-> exists t, is_clean (pcs s t) = true.
Proof. exact wakeup_iff_cleaner_model. Qed.
Print Assumptions wakeup_iff_cleaner.

(* use_implies_cleaned: while the use count is positive, the last Cleaner
   run that completed succeeded, and none is running (hence none ran
   since: a later run would have completed or be in flight). *)
Theorem use_implies_cleaned : forall evs,
  let s := run init evs in
  let m := mon_final (trace init evs) in
  0 < useCount s ->
  last_clean m = Some true /\ wakeup s = None /\ forall t, is_clean (pcs s t) = false.
Proof. exact use_implies_cleaned_model. Qed.
Print Assumptions use_implies_cleaned.

(* clean_at_transitions: at every step, the Cleaner is invoked iff the step
   is an Acquire finding zero users and no cleaner in flight (0 -> 1) or a
   Release by the last user (1 -> 0). *)
Theorem clean_at_transitions : forall evs,
  all_steps Q_transitions minit (trace init evs).
Proof. exact clean_at_transitions_model. Qed.
Print Assumptions clean_at_transitions.

(* no_start_after_failed_clean: a failed Cleaner run never yields a
   successful Acquire and leaves the number of users unchanged. *)
Theorem no_start_after_failed_clean : forall evs,
  all_steps Q_failed_clean minit (trace init evs).
Proof. exact no_start_after_failed_clean_model. Qed.
Print Assumptions no_start_after_failed_clean.

(* no_panic: the only reachable panic is Release with nobody holding
   ("Cleaning is already in progress" is unreachable for all callers) ... *)
Theorem panic_only_without_users : forall evs,
  all_steps Q_panic minit (trace init evs).
Proof. exact panic_only_without_users_model. Qed.
Print Assumptions panic_only_without_users.

(* ... and callers that only release what they hold never see one. *)
Theorem no_panic : forall evs,
  balanced (trace init evs) -> no_panic_in (trace init evs).
Proof. exact no_panic_model. Qed.
Print Assumptions no_panic.

(* Wake-ups are not lost: a sleeper is either wakeable now (its captured
   channel is closed) or sleeps on the channel of a Cleaner call that is in
   flight; a wakeable sleeper's Wake step and an in-flight cleaner's
   CleanDone step are enabled, and CleanDone closes the channel.  (That
   the Go runtime eventually runs them is an assumption.) *)
Theorem sleeper_wakeable : forall evs t g,
  let s := run init evs in
  pcs s t = PWait g ->
  closed s g = true \/ (wakeup s = Some g /\ exists c, is_clean (pcs s c) = true).
Proof. exact sleeper_wakeable_model. Qed.
Print Assumptions sleeper_wakeable.

Theorem wake_enabled : forall s t g,
  pcs s t = PWait g -> closed s g = true -> snd (step s (Wake t)) <> ONone.
Proof. exact wake_enabled_model. Qed.
Print Assumptions wake_enabled.

Theorem clean_done_enabled : forall s t ok,
  is_clean (pcs s t) = true ->
  snd (step s (CleanDone t ok)) <> ONone /\ wakeup (fst (step s (CleanDone t ok))) = None.
Proof. exact clean_done_enabled_model. Qed.
Print Assumptions clean_done_enabled.

(* Non-vacuity: a reachable state with a cleaner in flight and two sleepers,
   one reachable with two users; a balanced history; an unbalanced one that
   panics. *)
Example reach_cleaning :
  let s := run init [AcqStart 0; AcqStart 1; AcqStart 2] in
  (is_clean (pcs s 0), pcs s 1, pcs s 2) = (true, PWait 0, PWait 0).
Proof. vm_compute. reflexivity. Qed.

Example reach_two_users :
  useCount (run init [AcqStart 0; AcqStart 1; CleanDone 0 true; Wake 1]) = 2.
Proof. vm_compute. reflexivity. Qed.

Example stale_waiter_cleans_again :
  map snd (trace init [AcqStart 0; AcqStart 1; CleanDone 0 true; RelStart 0 true;
                       CleanDone 0 false; Wake 1; CleanDone 1 true])
  = [OCleaning; OBlocked; OAcquired; OCleaning; OReleased RCleanErr; OCleaning; OAcquired].
Proof. vm_compute. reflexivity. Qed.

Example balanced_history :
  balanced (trace init [AcqStart 0; CleanDone 0 true; AcqStart 1; RelStart 0 true; RelStart 1 true]).
Proof. vm_compute. reflexivity. Qed.

Example unbalanced_panics :
  map snd (trace init [RelStart 0 true]) = [OPanic].
Proof. vm_compute. reflexivity. Qed.

(* ---- Directory creators Shared(Clean(Root)): for every operation sequence
        and every failure script -------------------------------------------- *)

(* The monitor evaluated on the real creator stack accepts every trace of
   the model: a directory handed out is new, empty and not shared with an
   open one; open directories are never removed by somebody else; Cleaner
   runs happen exactly at the idle/busy transitions; no Get succeeds after
   a failed clean; a closed directory is gone unless RemoveAll failed;
   a failed Get leaves nothing behind unless Remove failed; the root is
   empty after the last user left and the Cleaner succeeded. *)
Theorem dirs_model_trace_ok : forall ops, dtrace_ok (dtrace dinit ops) = true.
Proof. exact ProofsDirs.dirs_model_trace_ok. Qed.
Print Assumptions dirs_model_trace_ok.

Theorem dir_removed_on_every_path : forall s k f n,
  slot_name (d_slots s) k = Some n -> cf_removeall f = false ->
  has n (d_root (fst (fst (dstep s (DClose k f))))) = false.
Proof. exact close_removes_model. Qed.
Print Assumptions dir_removed_on_every_path.

Theorem last_close_empties_root : forall s k f n,
  slot_name (d_slots s) k = Some n -> d_users s = 1 -> cf_clean f = false ->
  d_root (fst (fst (dstep s (DClose k f)))) = [].
Proof. exact close_last_empties_model. Qed.
Print Assumptions last_close_empties_root.

Theorem failed_get_leaves_nothing : forall s k dig f s' code c,
  dstep s (DGet k dig f) = (s', DErr code, c) ->
  gf_enter f && gf_remove f = false ->
  forall x, has x (d_root s') = true -> has x (d_root s) = true.
Proof. exact failed_get_leaves_nothing_model. Qed.
Print Assumptions failed_get_leaves_nothing.

(* names_unique: counter-based names never repeat (strconv.FormatUint is
   injective and the counter only grows).  Collision of a counter name with
   a 16-hex-digit digest name needs a counter >= 10^15 and is answered by
   Mkdir failing (no sharing) -- see docs/areas/Idle.md. *)
Theorem names_unique : forall ops, NoDup (counter_names (dtrace dinit ops)).
Proof. exact names_unique_model. Qed.
Print Assumptions names_unique.

(* released_once: the use count equals the number of open directories at
   all times (every successful Get is released exactly once, by its Close;
   every failed Get releases what it acquired), handles and names of open
   directories are distinct and each open directory exists. *)
Theorem released_once : forall ops,
  let s := drun dinit ops in
  d_users s = List.length (d_slots s) /\
  NoDup (map fst (d_slots s)) /\ NoDup (map snd (d_slots s)) /\
  forall e, In e (d_slots s) -> has (snd e) (d_root s) = true.
Proof. exact released_once_model. Qed.
Print Assumptions released_once.

(* A name that is in use is refused.  While the invoker is in use, a request
   whose directory name exists in the root -- held by a live action (two
   overlapping actions with the same action digest / the same 16-character
   prefix) or left behind by a failed RemoveAll -- fails with the Mkdir error
   (Internal = 13): nothing is created, removed, acquired or handed out. *)
Theorem existing_name_refused : forall s k dig f,
  slot_name (d_slots s) k = None -> 0 < d_users s ->
  has (fst (dir_name (d_counter s) dig)) (d_root s) = true ->
  dstep s (DGet k dig f) =
    (mkD (d_root s) (d_users s) (snd (dir_name (d_counter s) dig)) (d_slots s), DErr 13, 0).
Proof. exact existing_name_refused_model. Qed.
Print Assumptions existing_name_refused.

Theorem name_in_use_refused : forall ops k dig f,
  let s := drun dinit ops in
  slot_name (d_slots s) k = None ->
  name_open (d_slots s) (fst (dir_name (d_counter s) dig)) = true ->
  dstep s (DGet k dig f) =
    (mkD (d_root s) (d_users s) (snd (dir_name (d_counter s) dig)) (d_slots s), DErr 13, 0).
Proof. exact name_in_use_refused_model. Qed.
Print Assumptions name_in_use_refused.

(* Whatever is handed out is held by no other live action, is empty at
   that moment, and no open directory was touched by handing it out. *)
Theorem handed_out_fresh : forall ops k dig f s' n c,
  let s := drun dinit ops in
  dstep s (DGet k dig f) = (s', DGot n, c) ->
  name_open (d_slots s) n = false /\ empty_dir_in n (d_root s') = true /\
  all_open_exist (d_slots s) (d_root s') = true /\ d_slots s' = (k, n) :: d_slots s.
Proof. exact handed_out_fresh_model. Qed.
Print Assumptions handed_out_fresh.

(* An action's Close removes only its own directory. *)
Theorem close_keeps_others : forall ops k f,
  let s := drun dinit ops in
  let s' := fst (fst (dstep s (DClose k f))) in
  forall e, In e (d_slots s') -> has (snd e) (d_root s') = true.
Proof. exact close_keeps_others_model. Qed.
Print Assumptions close_keeps_others.

Example colliding_digest_refused :
  let f0 := mkGF false false false false false in
  map (fun x => ob_out (snd x))
      (dtrace dinit [DGet 0 (Some "aaaaaaaaaaaaaaaa0000") f0; DGet 1 (Some "aaaaaaaaaaaaaaaa1111") f0;
                     DClose 0 (mkCF false false false); DGet 1 (Some "aaaaaaaaaaaaaaaa1111") f0])
  = [DGot "aaaaaaaaaaaaaaaa"; DErr 13; DClosed 0; DGot "aaaaaaaaaaaaaaaa"].
Proof. vm_compute. reflexivity. Qed.

Example dirs_reach :
  let f0 := mkGF false false false false false in
  let s := drun dinit [DGet 0 None f0; DGet 1 (Some "aaaaaaaaaaaaaaaabbbb") f0; DWrite 0 "x";
                       DClose 0 (mkCF false true false)] in
  (d_root s, d_users s, d_counter s) = ([("1", ["x"]); ("aaaaaaaaaaaaaaaa", [])], 1, 1%N).
Proof. vm_compute. reflexivity. Qed.

Example dirs_failed_get_cleans_twice :
  snd (dstep dinit (DGet 0 None (mkGF false true false false false))) = 2.
Proof. vm_compute. reflexivity. Qed.
