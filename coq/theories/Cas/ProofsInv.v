(* C17 proofs, part 2: the heap invariant.  Every directory object that was
   created from a digest and never locally modified has, once fetched,
   exactly the children the Directory message of that digest validates to,
   in sorted order, each child directory object born from the child's
   digest and each leaf of the kind the message says. *)
From VF Require Import Cas.Model Cas.Spec Cas.ProofsLeaf.
From Coq Require Import Lia.
Open Scope string_scope.
Open Scope nat_scope.
Open Scope list_scope.

(* ---- extension of states --------------------------------------------------- *)

Definition dirs_ext (ds ds' : list dirobj) : Prop :=
  forall i o, nth_error ds i = Some o ->
    exists o', nth_error ds' i = Some o' /\ (forall d, d_born o = Some d -> d_born o' = Some d).

Definition ext (s s' : state) : Prop :=
  dirs_ext (st_dirs s) (st_dirs s') /\ leaves_ext (st_leaves s) (st_leaves s').

Lemma dirs_ext_refl : forall ds, dirs_ext ds ds.
Proof. intros ds i o H. eauto. Qed.

Lemma dirs_ext_trans : forall a b c, dirs_ext a b -> dirs_ext b c -> dirs_ext a c.
Proof.
  intros a b c H1 H2 i o H. destruct (H1 _ _ H) as [o1 [Hb Hk]].
  destruct (H2 _ _ Hb) as [o2 [Hc Hk']]. exists o2. split; auto.
Qed.

Lemma dirs_ext_app : forall ds r, dirs_ext ds (ds ++ r).
Proof. intros ds r i o H. exists o. split; auto. apply nth_error_app_l; auto. Qed.

Lemma dirs_ext_set : forall ds i x o0,
  nth_error ds i = Some o0 -> (forall d, d_born o0 = Some d -> d_born x = Some d) ->
  dirs_ext ds (set_nth ds i x).
Proof.
  intros ds i x o0 H0 Hb j o H. destruct (Nat.eq_dec i j) as [->|Hne].
  - exists x. split.
    + apply nth_set_nth_eq. apply nth_error_Some. congruence.
    + intros d Hd. apply Hb. congruence.
  - exists o. split; auto. rewrite nth_set_nth_neq; auto.
Qed.

Lemma ext_refl : forall s, ext s s.
Proof. intros; split; [apply dirs_ext_refl|apply leaves_ext_refl]. Qed.

Lemma ext_trans : forall a b c, ext a b -> ext b c -> ext a c.
Proof.
  intros a b c [H1 H2] [H3 H4]. split; [eapply dirs_ext_trans|eapply leaves_ext_trans]; eauto.
Qed.

Lemma ext_len_dirs : forall s s', ext s s' -> List.length (st_dirs s) <= List.length (st_dirs s').
Proof.
  intros s s' [H _]. destruct (st_dirs s) as [|o0 t] eqn:E; simpl; [lia|].
  destruct (Nat.le_gt_cases (List.length (o0 :: t)) (List.length (st_dirs s'))) as [Hle|Hgt]; auto.
  exfalso. set (n := List.length (st_dirs s')) in *.
  assert (Hn : n < List.length (o0 :: t)) by lia.
  apply nth_error_Some in Hn. destruct (nth_error (o0 :: t) n) as [o|] eqn:En; [|congruence].
  destruct (H n o En) as [o' [H' _]].
  assert (n < List.length (st_dirs s')) by (apply nth_error_Some; congruence). unfold n in *. lia.
Qed.

Lemma leaves_ext_len : forall a b, leaves_ext a b -> List.length a <= List.length b.
Proof.
  intros a b H. destruct (Nat.le_gt_cases (List.length a) (List.length b)) as [Hle|Hgt]; auto.
  exfalso. assert (Hn : List.length b < List.length a) by lia.
  apply nth_error_Some in Hn. destruct (nth_error a (List.length b)) as [o|] eqn:En; [|congruence].
  destruct (H _ _ En) as [o' [H' _]].
  assert (List.length b < List.length b) by (apply nth_error_Some; congruence). lia.
Qed.

(* ---- the invariant ------------------------------------------------------------ *)

Section WithCas.
Variable c : cas.

Definition child_ok (s : state) (lvs : list leafkind) (ic : ichild) (ch : child) : Prop :=
  match ic, ch with
  | ICDir d', CDir j => exists oj, nth_error (st_dirs s) j = Some oj /\ d_born oj = Some d'
  | ICLeaf k, CLeaf l =>
    exists lf lk, nth_error (st_leaves s) l = Some lf /\ nth_error lvs k = Some lk /\ l_kind lf = lk
  | _, _ => False
  end.

Definition entries_ok (s : state) (lvs : list leafkind)
    (chs : list (string * ichild)) (es : list (string * child)) : Prop :=
  Forall2 (fun a b => fst a = fst b /\ child_ok s lvs (snd a) (snd b)) chs es.

Definition dir_ok (s : state) (o : dirobj) : Prop :=
  (forall d, d_lazy o = LCas d -> d_born o = Some d) /\
  (d_lazy o = LEmpty -> d_born o = None) /\
  (d_pristine o = true ->
     match d_lazy o with
     | LCas _ => True
     | LEmpty => d_entries o = []
     | LNone =>
       match d_born o with
       | Some d => exists chs lvs, expect c d = Some (chs, lvs) /\ entries_ok s lvs chs (d_entries o)
       | None => d_entries o = []
       end
     end).

Definition Inv (s : state) : Prop :=
  forall i o, nth_error (st_dirs s) i = Some o -> dir_ok s o.

Lemma child_ok_mono : forall s s' lvs ic ch, ext s s' -> child_ok s lvs ic ch -> child_ok s' lvs ic ch.
Proof.
  intros s s' lvs ic ch [Hd Hl] H. destruct ic as [d'|k], ch as [j|l]; simpl in *; auto.
  - destruct H as [oj [Hj Hb]]. destruct (Hd _ _ Hj) as [oj' [Hj' Hb']]. exists oj'. split; auto.
  - destruct H as [lf [lk [H1 [H2 H3]]]]. destruct (Hl _ _ H1) as [lf' [H1' Hk]].
    exists lf', lk. repeat split; auto. congruence.
Qed.

Lemma entries_ok_mono : forall s s' lvs chs es, ext s s' -> entries_ok s lvs chs es -> entries_ok s' lvs chs es.
Proof.
  intros s s' lvs chs es He H. induction H as [|a b chs es [Hn Hc] _ IH]; constructor; auto.
  split; auto. eapply child_ok_mono; eauto.
Qed.

Lemma dir_ok_mono : forall s s' o, ext s s' -> dir_ok s o -> dir_ok s' o.
Proof.
  intros s s' o He [HA [HB HC]]. split; auto. split; auto.
  intros Hp. specialize (HC Hp). destruct (d_lazy o); auto.
  destruct (d_born o); auto. destruct HC as [chs [lvs [H1 H2]]].
  exists chs, lvs. split; auto. eapply entries_ok_mono; eauto.
Qed.

(* Every directory object of [s'] is an unchanged object of [s] or is fine
   by itself. *)
Lemma Inv_update : forall s s', ext s s' -> Inv s ->
  (forall i o', nth_error (st_dirs s') i = Some o' ->
     nth_error (st_dirs s) i = Some o' \/ dir_ok s' o') -> Inv s'.
Proof.
  intros s s' He HI H i o' Hn. destruct (H _ _ Hn) as [Hold|Hok]; auto.
  eapply dir_ok_mono; eauto.
Qed.

Lemma Inv_init : Inv init.
Proof.
  intros [|[|i]] o H; simpl in H; inversion H; subst.
  split; simpl; [discriminate|]. split; auto.
Qed.

(* ---- primitive transformers ----------------------------------------------------- *)

Lemma nth_set_nth_cases : forall A (l : list A) i j x y,
  nth_error (set_nth l i x) j = Some y -> (i = j /\ y = x) \/ (i <> j /\ nth_error l j = Some y).
Proof.
  intros A l i j x y H. destruct (Nat.eq_dec i j) as [->|Hne].
  - left. split; auto.
    assert (j < List.length l).
    { rewrite <- (set_nth_length _ l j x). apply nth_error_Some. congruence. }
    rewrite nth_set_nth_eq in H; auto. congruence.
  - right. rewrite nth_set_nth_neq in H; auto.
Qed.

Lemma ext_modify : forall s i f, ext s (modify s i f).
Proof.
  intros s i f. unfold modify. destruct (nth_error (st_dirs s) i) as [o|] eqn:E; [|apply ext_refl].
  split; simpl; [|apply leaves_ext_refl]. eapply dirs_ext_set; eauto.
Qed.

Lemma Inv_modify : forall s i f, Inv s -> Inv (modify s i f).
Proof.
  intros s i f HI. apply (Inv_update s); auto; [apply ext_modify|].
  intros j o' Hn. unfold modify in Hn. destruct (nth_error (st_dirs s) i) as [o|] eqn:E; auto.
  simpl in Hn. apply nth_set_nth_cases in Hn. destruct Hn as [[-> ->]|[_ Hn]]; auto.
  right. destruct (HI _ _ E) as [HA [HB _]]. split; simpl; auto. split; auto. discriminate.
Qed.

Lemma ext_mark_deleted : forall s i, ext s (mark_deleted s i).
Proof.
  intros s i. unfold mark_deleted. destruct (nth_error (st_dirs s) i) as [o|] eqn:E; [|apply ext_refl].
  split; simpl; [|apply leaves_ext_refl]. eapply dirs_ext_set; eauto.
Qed.

Lemma Inv_mark_deleted : forall s i, Inv s -> Inv (mark_deleted s i).
Proof.
  intros s i HI. apply (Inv_update s); auto; [apply ext_mark_deleted|].
  intros j o' Hn. unfold mark_deleted in Hn. destruct (nth_error (st_dirs s) i) as [o|] eqn:E; auto.
  simpl in Hn. apply nth_set_nth_cases in Hn. destruct Hn as [[-> ->]|[_ Hn]]; auto.
  right. pose proof (HI _ _ E) as Hok. eapply dir_ok_mono in Hok; [|apply (ext_mark_deleted s j)].
  unfold mark_deleted in Hok. rewrite E in Hok.
  destruct Hok as [HA [HB HC]]. split; [|split]; simpl; auto.
  unfold mark_deleted. rewrite E. exact HC.
Qed.

Lemma ext_add_link : forall s l dz, ext s (add_link s l dz).
Proof.
  intros. split; [|apply sext_add_link]. unfold add_link.
  destruct (nth_error (st_leaves s) l); apply dirs_ext_refl.
Qed.

Lemma Inv_add_link : forall s l dz, Inv s -> Inv (add_link s l dz).
Proof.
  intros s l dz HI. apply (Inv_update s); auto; [apply ext_add_link|].
  intros j o' Hn. left. unfold add_link in Hn. destruct (nth_error (st_leaves s) l); auto.
Qed.

Lemma ext_add_leaves : forall s ks n, ext s (mkState (st_dirs s) (add_leaves (st_leaves s) ks n)).
Proof. intros. split; simpl; [apply dirs_ext_refl|apply leaves_ext_app]. Qed.

Lemma Inv_add_leaves : forall s ks n, Inv s -> Inv (mkState (st_dirs s) (add_leaves (st_leaves s) ks n)).
Proof.
  intros s ks n HI. apply (Inv_update s); [apply ext_add_leaves|exact HI|intros; left; auto].
Qed.

Lemma ext_add_dir : forall s o, ext s (mkState (st_dirs s ++ [o]) (st_leaves s)).
Proof. intros. split; simpl; [apply dirs_ext_app|apply leaves_ext_refl]. Qed.

Lemma nth_app_one : forall A (l : list A) x j y,
  nth_error (l ++ [x]) j = Some y -> nth_error l j = Some y \/ (j = List.length l /\ y = x).
Proof.
  intros A l x j y H. destruct (Nat.lt_ge_cases j (List.length l)) as [Hlt|Hge].
  - left. rewrite nth_error_app1 in H; auto.
  - right. rewrite nth_error_app2 in H; auto.
    destruct (j - List.length l) as [|k] eqn:E; simpl in H.
    + split; [lia|congruence].
    + destruct k; discriminate.
Qed.

Lemma Inv_add_cas_dir : forall s d, Inv s -> Inv (mkState (st_dirs s ++ [new_cas_dir d]) (st_leaves s)).
Proof.
  intros s d HI. apply (Inv_update s); auto; [apply ext_add_dir|].
  intros j o' Hn. simpl in Hn. apply nth_app_one in Hn. destruct Hn as [Hn|[_ ->]]; auto.
  right. split; simpl; [intros d0 H; congruence|]. split; auto. discriminate.
Qed.

Lemma Inv_add_local_dir : forall s, Inv s -> Inv (mkState (st_dirs s ++ [new_local_dir]) (st_leaves s)).
Proof.
  intros s HI. apply (Inv_update s); auto; [apply ext_add_dir|].
  intros j o' Hn. simpl in Hn. apply nth_app_one in Hn. destruct Hn as [Hn|[_ ->]]; auto.
  right. split; simpl; [discriminate|]. split; auto.
Qed.

Lemma Inv_add_local_leaf : forall s lf, Inv s -> Inv (mkState (st_dirs s) (st_leaves s ++ [lf])).
Proof.
  intros s lf HI. apply (Inv_update s); [|exact HI|intros; left; auto].
  split; simpl; [apply dirs_ext_refl|apply leaves_ext_app].
Qed.

(* ---- validation: leaf indices are in range --------------------------------------- *)

Definition idx_ok (n : nat) (acc : list (string * ichild)) : Prop :=
  forall nm k, In (nm, ICLeaf k) acc -> k < n.

Lemma val_dirs_idx : forall ds acc r n, val_dirs ds acc = Some r -> idx_ok n acc -> idx_ok n r.
Proof.
  induction ds as [|e ds IH]; intros acc r n H Hacc; simpl in H.
  - inversion H; subst; auto.
  - destruct (negb (valid_name (dn_name e))); [discriminate|].
    destruct (mem_name (dn_name e) acc); [discriminate|].
    destruct (valid_pdigest (dn_digest e)) as [d|]; [|discriminate].
    eapply IH; eauto. intros nm k [Hin|Hin]; [inversion Hin|eauto].
Qed.

Lemma val_files_idx : forall fs acc lvs r lvs',
  val_files fs acc lvs = (Some r, lvs') -> idx_ok (List.length lvs) acc -> idx_ok (List.length lvs') r.
Proof.
  induction fs as [|e fs IH]; intros acc lvs r lvs' H Hacc; simpl in H.
  - inversion H; subst; auto.
  - destruct (negb (valid_name (fn_name e))); [inversion H|].
    destruct (mem_name (fn_name e) acc); [inversion H|].
    destruct (valid_pdigest (fn_digest e)) as [d|]; [|inversion H].
    eapply IH; eauto. rewrite app_length; simpl.
    intros nm k [Hin|Hin]; [inversion Hin; lia|]. specialize (Hacc _ _ Hin). lia.
Qed.

Lemma val_syms_idx : forall ss acc lvs r lvs',
  val_syms ss acc lvs = (Some r, lvs') -> idx_ok (List.length lvs) acc -> idx_ok (List.length lvs') r.
Proof.
  induction ss as [|e ss IH]; intros acc lvs r lvs' H Hacc; simpl in H.
  - inversion H; subst; auto.
  - destruct (negb (valid_name (sn_name e))); [inversion H|].
    destruct (mem_name (sn_name e) acc); [inversion H|].
    eapply IH; eauto. rewrite app_length; simpl.
    intros nm k [Hin|Hin]; [inversion Hin; lia|]. specialize (Hacc _ _ Hin). lia.
Qed.

Lemma validate_idx : forall m ch lvs, validate m = (Some ch, lvs) -> idx_ok (List.length lvs) ch.
Proof.
  intros m ch lvs H. unfold validate in H.
  destruct (val_dirs (m_dirs m) []) as [acc|] eqn:E1; [|inversion H].
  destruct (val_files (m_files m) acc []) as [[acc'|] lvs1] eqn:E2; [|inversion H].
  eapply val_syms_idx; eauto. eapply val_files_idx; eauto.
  eapply val_dirs_idx; eauto. intros nm k [].
Qed.

Lemma insert_sorted_in : forall A (x y : string * A) l, In y (insert_sorted x l) -> y = x \/ In y l.
Proof.
  induction l as [|z l IH]; simpl; intros H.
  - destruct H as [->|[]]; auto.
  - destruct (String.leb (fst x) (fst z)).
    + destruct H as [->|H]; auto.
    + destruct H as [->|H]; auto. destruct (IH H); auto.
Qed.

Lemma sort_children_in : forall A (l : list (string * A)) y, In y (sort_children l) -> In y l.
Proof.
  induction l as [|x l IH]; simpl; intros y H; auto.
  apply insert_sorted_in in H. destruct H as [->|H]; auto.
Qed.

Lemma Forall2_imp : forall A B (P Q : A -> B -> Prop) l l',
  (forall a b, P a b -> Q a b) -> Forall2 P l l' -> Forall2 Q l l'.
Proof. intros A B P Q l l' H HF. induction HF; constructor; auto. Qed.

Lemma Forall2_imp_in : forall A B (P Q : A -> B -> Prop) l l',
  (forall a b, In a l -> P a b -> Q a b) -> Forall2 P l l' -> Forall2 Q l l'.
Proof.
  intros A B P Q l l' H HF. induction HF; constructor.
  - apply H; simpl; auto.
  - apply IHHF. intros a b Hin. apply H. simpl; auto.
Qed.

(* ---- attach_children -------------------------------------------------------------- *)

Lemma attach_children_spec : forall chs ds base ds' es,
  attach_children ds base chs = (ds', es) ->
  (exists news, ds' = ds ++ news /\ forall o, In o news -> exists d, o = new_cas_dir d) /\
  Forall2 (fun a b => fst a = fst b /\
             match snd a, snd b with
             | ICDir d, CDir j => nth_error ds' j = Some (new_cas_dir d) /\ List.length ds <= j
             | ICLeaf k, CLeaf l => l = base + k
             | _, _ => False
             end) chs es.
Proof.
  induction chs as [|[n ic] chs IH]; intros ds base ds' es H; simpl in H.
  - inversion H; subst. split; [exists []; rewrite app_nil_r; split; auto; intros o []|constructor].
  - destruct ic as [d|k].
    + destruct (attach_children (ds ++ [new_cas_dir d]) base chs) as [ds1 es1] eqn:E.
      inversion H; subst. destruct (IH _ _ _ _ E) as [[news [Hds Hnews]] HF].
      split.
      * exists (new_cas_dir d :: news). rewrite Hds, <- app_assoc. split; auto.
        intros o [<-|Hin]; eauto.
      * constructor.
        -- simpl. split; auto. split; [|lia]. rewrite Hds, <- app_assoc.
           rewrite nth_error_app2; [|lia]. rewrite Nat.sub_diag. reflexivity.
        -- eapply Forall2_imp; [|exact HF]. intros a b [Hn Hm]. split; auto.
           destruct (snd a), (snd b); auto. destruct Hm as [Hm Hl]. split; auto.
           rewrite app_length in Hl; simpl in Hl. lia.
    + destruct (attach_children ds base chs) as [ds1 es1] eqn:E.
      inversion H; subst. destruct (IH _ _ _ _ E) as [Hnews HF].
      split; auto. constructor; auto. simpl. auto.
Qed.

Lemma new_dirs_ok : forall s' news, (forall o, In o news -> exists d, o = new_cas_dir d) ->
  forall o, In o news -> dir_ok s' o.
Proof.
  intros s' news H o Hin. destruct (H _ Hin) as [d ->].
  split; simpl; [intros d0 E; congruence|]. split; auto. discriminate.
Qed.

(* The state after the sorted children [chs] of a successful fetch were
   attached to directory [i], whose new object is [oi]; the leaves of that
   fetch sit at [base]. *)
Lemma attached_entries_gen : forall ds leaves i oi chs lvs base ds' es,
  attach_children ds base chs = (ds', es) ->
  i < List.length ds ->
  (forall k lk, nth_error lvs k = Some lk ->
     exists lf, nth_error leaves (base + k) = Some lf /\ l_kind lf = lk) ->
  idx_ok (List.length lvs) chs ->
  entries_ok (mkState (set_nth ds' i oi) leaves) lvs chs es.
Proof.
  intros ds leaves i oi chs lvs base ds' es Ha Hi Hl Hidx.
  destruct (attach_children_spec _ _ _ _ _ Ha) as [_ HF].
  unfold entries_ok. eapply Forall2_imp_in; [|exact HF].
  intros [n ic] [n' ch] Hin [Hn Hm]; simpl in *. split; auto.
  destruct ic as [d|k], ch as [j|l0]; simpl; auto.
  - destruct Hm as [Hm Hlen]. exists (new_cas_dir d). split; auto.
    rewrite nth_set_nth_neq; auto. lia.
  - subst l0. assert (Hk : k < List.length lvs) by (eapply Hidx; eauto).
    destruct (nth_error lvs k) as [lk|] eqn:Ek; [|apply nth_error_None in Ek; lia].
    destruct (Hl _ _ Ek) as [lf [H1 H2]]. exists lf, lk. repeat split; auto.
Qed.

Lemma added_leaves_at : forall ls lvs n k lk, nth_error lvs k = Some lk ->
  exists lf, nth_error (add_leaves ls lvs n) (List.length ls + k) = Some lf /\ l_kind lf = lk.
Proof.
  intros ls lvs n k lk Ek. exists (mkLeaf lk n). split; auto.
  unfold add_leaves. rewrite nth_error_app2; [|lia].
  replace (List.length ls + k - List.length ls) with k by lia.
  rewrite nth_error_map, Ek. reflexivity.
Qed.

Lemma attached_entries_ok : forall s i oi chs lvs ds' es nlink,
  attach_children (st_dirs s) (List.length (st_leaves s)) chs = (ds', es) ->
  i < List.length (st_dirs s) ->
  idx_ok (List.length lvs) chs ->
  entries_ok (mkState (set_nth ds' i oi) (add_leaves (st_leaves s) lvs nlink)) lvs chs es.
Proof.
  intros. eapply attached_entries_gen; eauto. intros. apply added_leaves_at; auto.
Qed.

(* ---- force -------------------------------------------------------------------------- *)

Lemma expect_of_fetch : forall d m ch lvs,
  cas_get c d = Some m -> validate m = (Some ch, lvs) -> expect c d = Some (sort_children ch, lvs).
Proof. intros d m ch lvs H1 H2. unfold expect. rewrite H1, H2. reflexivity. Qed.

Lemma sorted_idx_ok : forall m ch lvs, validate m = (Some ch, lvs) -> idx_ok (List.length lvs) (sort_children ch).
Proof.
  intros m ch lvs H nm k Hin. apply sort_children_in in Hin. eapply validate_idx; eauto.
Qed.

Lemma force_ext : forall s i fs s1 lg r fs1, force c s i fs = (s1, lg, r, fs1) -> ext s s1.
Proof.
  intros s i fs s1 lg r fs1 H. unfold force in H.
  destruct (nth_error (st_dirs s) i) as [o|] eqn:E; [|inversion H; subst; apply ext_refl].
  destruct (d_lazy o) eqn:El.
  - inversion H; subst; apply ext_refl.
  - inversion H; subst. split; simpl; [|apply leaves_ext_refl].
    apply (dirs_ext_set _ _ _ o); [exact E|simpl; auto].
  - destruct (fetch c d fs) as [[[r0 lvs] lg0] fs0]. destruct r0.
    + inversion H; subst. apply ext_add_leaves.
    + destruct (attach_children (st_dirs s) (List.length (st_leaves s)) (sort_children children)) as [ds' es] eqn:Ea.
      inversion H; subst. destruct (attach_children_spec _ _ _ _ _ Ea) as [[news [Hds _]] _].
      split; simpl; [|apply leaves_ext_app]. subst ds'.
      eapply dirs_ext_trans; [apply dirs_ext_app|].
      apply (dirs_ext_set _ _ _ o); [apply nth_error_app_l; exact E|simpl; auto].
Qed.

Lemma fetch_ok_inv : forall d fs ch lvs lg fs',
  fetch c d fs = (FetOk ch, lvs, lg, fs') ->
  exists m, cas_get c d = Some m /\ validate m = (Some ch, lvs) /\ lg = (d, FOk).
Proof.
  intros d fs ch lvs lg fs' H. unfold fetch in H.
  assert (G : match cas_get c d with
              | None => (FetErr 5, [], (d, FMissing), tl fs)
              | Some m => match validate m with
                          | (None, lvs) => (FetErr 3, lvs, (d, FOk), tl fs)
                          | (Some ch, lvs) => (FetOk ch, lvs, (d, FOk), tl fs)
                          end
              end = (FetOk ch, lvs, lg, fs') ->
              exists m, cas_get c d = Some m /\ validate m = (Some ch, lvs) /\ lg = (d, FOk)).
  { intros G. destruct (cas_get c d) as [m|]; [|inversion G].
    destruct (validate m) as [[ch0|] lvs0] eqn:Ev; inversion G; subst. eauto. }
  destruct fs as [|[|] fs0]; auto. inversion H.
Qed.

Lemma Inv_force : forall s i fs s1 lg r fs1, Inv s -> force c s i fs = (s1, lg, r, fs1) -> Inv s1.
Proof.
  intros s i fs s1 lg r fs1 HI H. pose proof (force_ext _ _ _ _ _ _ _ H) as He.
  unfold force in H.
  destruct (nth_error (st_dirs s) i) as [o|] eqn:E; [|inversion H; subst; auto].
  destruct (d_lazy o) eqn:El.
  - inversion H; subst; auto.
  - inversion H; subst. apply (Inv_update s); auto.
    intros j o' Hn. simpl in Hn. apply nth_set_nth_cases in Hn. destruct Hn as [[-> ->]|[_ Hn]]; auto.
    right. destruct (HI _ _ E) as [HA [HB HC]]. split; simpl; [discriminate|]. split; [discriminate|].
    intros Hp. rewrite (HB El). reflexivity.
  - destruct (fetch c d fs) as [[[r0 lvs] lg0] fs0] eqn:Ef. destruct r0 as [code|ch].
    + inversion H; subst. apply Inv_add_leaves; auto.
    + destruct (attach_children (st_dirs s) (List.length (st_leaves s)) (sort_children ch)) as [ds' es] eqn:Ea.
      inversion H; subst. clear H.
      destruct (fetch_ok_inv _ _ _ _ _ _ Ef) as [m [Hm [Hv _]]].
      destruct (attach_children_spec _ _ _ _ _ Ea) as [[news [Hds Hnews]] _].
      assert (Hi : i < List.length (st_dirs s)) by (apply nth_error_Some; congruence).
      apply (Inv_update s); auto.
      intros j o' Hn. simpl in Hn. apply nth_set_nth_cases in Hn. destruct Hn as [[-> ->]|[Hne Hn]].
      * right. destruct (HI _ _ E) as [HA [HB HC]]. split; simpl; [discriminate|]. split; [discriminate|].
        intros Hp. rewrite (HA _ El).
        exists (sort_children ch), lvs. split; [eapply expect_of_fetch; eauto|].
        eapply attached_entries_ok; eauto. eapply sorted_idx_ok; eauto.
      * subst ds'. destruct (Nat.lt_ge_cases j (List.length (st_dirs s))) as [Hlt|Hge].
        -- left. rewrite nth_error_app1 in Hn; auto.
        -- right. rewrite nth_error_app2 in Hn; auto. apply nth_error_In in Hn.
           eapply new_dirs_ok; eauto.
Qed.

(* What a call of [force] leaves behind. *)
Lemma force_others : forall s i fs s1 lg r fs1 j oj,
  force c s i fs = (s1, lg, r, fs1) -> j <> i -> nth_error (st_dirs s) j = Some oj ->
  nth_error (st_dirs s1) j = Some oj.
Proof.
  intros s i fs s1 lg r fs1 j oj H Hne Hj. unfold force in H.
  destruct (nth_error (st_dirs s) i) as [o|] eqn:E; [|inversion H; subst; auto].
  destruct (d_lazy o) eqn:El.
  - inversion H; subst; auto.
  - inversion H; subst. simpl. rewrite nth_set_nth_neq; auto.
  - destruct (fetch c d fs) as [[[r0 lvs] lg0] fs0] eqn:Ef. destruct r0 as [code|ch].
    + inversion H; subst. auto.
    + destruct (attach_children (st_dirs s) (List.length (st_leaves s)) (sort_children ch)) as [ds' es] eqn:Ea.
      inversion H; subst. simpl. rewrite nth_set_nth_neq; auto.
      destruct (attach_children_spec _ _ _ _ _ Ea) as [[news [-> _]] _]. apply nth_error_app_l; auto.
Qed.

(* Success: the directory is no longer lazy; its ghost fields and deleted
   flag are as before. *)
Lemma force_ok_self : forall s i fs s1 lg fs1 o,
  force c s i fs = (s1, lg, None, fs1) -> nth_error (st_dirs s) i = Some o ->
  exists o1, nth_error (st_dirs s1) i = Some o1 /\ d_lazy o1 = LNone /\
             d_born o1 = d_born o /\ d_pristine o1 = d_pristine o /\ d_deleted o1 = d_deleted o /\
             (d_lazy o = LNone -> s1 = s /\ lg = []) /\
             (d_lazy o = LEmpty -> lg = []) /\
             (forall d, d_lazy o = LCas d -> lg = [(d, FOk)] /\ expect c d <> None).
Proof.
  intros s i fs s1 lg fs1 o H E. unfold force in H. rewrite E in H.
  assert (Hi : i < List.length (st_dirs s)) by (apply nth_error_Some; congruence).
  destruct (d_lazy o) eqn:El.
  - inversion H; subst. exists o. repeat split; auto; discriminate.
  - inversion H; subst. eexists. split; [simpl; apply nth_set_nth_eq; auto|]. simpl.
    repeat split; auto; discriminate.
  - destruct (fetch c d fs) as [[[r0 lvs] lg0] fs0] eqn:Ef. destruct r0 as [code|ch]; [inversion H|].
    destruct (attach_children (st_dirs s) (List.length (st_leaves s)) (sort_children ch)) as [ds' es] eqn:Ea.
    inversion H; subst. destruct (fetch_ok_inv _ _ _ _ _ _ Ef) as [m [Hm [Hv ->]]].
    destruct (attach_children_spec _ _ _ _ _ Ea) as [[news [-> _]] _].
    eexists. split; [simpl; apply nth_set_nth_eq; rewrite app_length; lia|]. simpl.
    repeat split; auto; try discriminate.
    + inversion H0; subst. reflexivity.
    + inversion H0; subst. erewrite expect_of_fetch; eauto. discriminate.
Qed.

(* Failure: only a lazy CAS directory can fail; no directory object changes;
   the leaves made before the error are appended with link count 0. *)
Lemma fetch_err_inv : forall d fs code lvs lg fs',
  fetch c d fs = (FetErr code, lvs, lg, fs') ->
  exists fr, lg = (d, fr) /\
    ((fr = FInjected /\ lvs = [] /\ exists fs0, fs = true :: fs0 /\ fs' = fs0) \/
     (fr = FMissing /\ lvs = [] /\ cas_get c d = None) \/
     (fr = FOk /\ malformed_leaves c d = Some lvs)) /\
    (fr = FOk -> expect c d = None) /\ (fr = FMissing -> expect c d = None).
Proof.
  intros d fs code lvs lg fs' H. unfold fetch in H.
  assert (G : match cas_get c d with
              | None => (FetErr 5, [], (d, FMissing), tl fs)
              | Some m => match validate m with
                          | (None, lvs) => (FetErr 3, lvs, (d, FOk), tl fs)
                          | (Some ch, lvs) => (FetOk ch, lvs, (d, FOk), tl fs)
                          end
              end = (FetErr code, lvs, lg, fs') ->
              exists fr, lg = (d, fr) /\
                ((fr = FInjected /\ lvs = [] /\ exists fs0, fs = true :: fs0 /\ fs' = fs0) \/
                 (fr = FMissing /\ lvs = [] /\ cas_get c d = None) \/
                 (fr = FOk /\ malformed_leaves c d = Some lvs)) /\
                (fr = FOk -> expect c d = None) /\ (fr = FMissing -> expect c d = None)).
  { intros G. unfold expect, malformed_leaves. destruct (cas_get c d) as [m|].
    - destruct (validate m) as [[ch0|] lvs0] eqn:Ev; inversion G; subst.
      exists FOk. split; [reflexivity|]. split; [right; right; auto|]. split; auto.
    - inversion G; subst. exists FMissing. split; [reflexivity|]. split; [right; left; auto|]. split; auto. }
  destruct fs as [|[|] fs0]; auto. inversion H; subst.
  exists FInjected. split; [reflexivity|]. split; [left; eauto|]. split; discriminate.
Qed.

Lemma force_err : forall s i fs s1 lg code fs1,
  force c s i fs = (s1, lg, Some code, fs1) ->
  exists o d fr lvs, nth_error (st_dirs s) i = Some o /\ d_lazy o = LCas d /\
    fetch c d fs = (FetErr code, lvs, (d, fr), fs1) /\ lg = [(d, fr)] /\
    s1 = mkState (st_dirs s) (add_leaves (st_leaves s) lvs 0).
Proof.
  intros s i fs s1 lg code fs1 H. unfold force in H.
  destruct (nth_error (st_dirs s) i) as [o|] eqn:E; [|inversion H].
  destruct (d_lazy o) eqn:El; try solve [inversion H].
  destruct (fetch c d fs) as [[[r0 lvs] lg0] fs0] eqn:Ef. destruct r0 as [code0|ch].
  - inversion H; subst. destruct (fetch_err_inv _ _ _ _ _ _ Ef) as [fr [-> _]].
    exists o, d, fr, lvs. repeat split; auto.
  - destruct (attach_children (st_dirs s) (List.length (st_leaves s)) (sort_children ch)); inversion H.
Qed.

End WithCas.
