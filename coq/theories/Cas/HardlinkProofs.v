(* hardlinkingFileFetcher: for an injective cache key, every request sequence,
   every cache size and every pattern of failing downloads / lost cache files,
   a successful GetFile(d, exec) leaves d's contents with exec's mode at the
   requested name, the cache directory only ever holds the file each name
   stands for, and the second of two concurrent calls for one key does not
   download again when the first one's download succeeded. *)
From Coq Require Import Lia.
From VF Require Import Cas.Cache Cas.CacheProofs Cas.Hardlink.
Open Scope list_scope.

Section Proofs.
Variable K : Type.
Variable K_eqb : K -> K -> bool.
Variable keyf : N -> bool -> K.
Hypothesis K_eqb_spec : forall a b, K_eqb a b = true <-> a = b.
Hypothesis keyf_inj : forall d e d' e', keyf d e = keyf d' e' -> d = d' /\ e = e'.

Notation hstate := (hstate K).
Notation kfind := (kfind K K_eqb).
Notation kremove := (kremove K K_eqb).
Notation try_link := (try_link K K_eqb).
Notation hget := (hget K K_eqb keyf).
Notation hstep := (hstep K K_eqb keyf).
Notation htrace := (htrace K K_eqb keyf).
Notation p_hstep := (p_hstep K K_eqb keyf).
Notation p_cache := (p_cache K K_eqb keyf).

(* ---- association lists ----------------------------------------------------------- *)

Lemma kfind_In {A} k (l : list (K * A)) v : kfind k l = Some v -> In (k, v) l.
Proof.
  induction l as [|[k' v'] r IH]; [discriminate|]. cbn.
  destruct (K_eqb k' k) eqn:E; [apply K_eqb_spec in E; intros [= ->]; subst; now left|].
  intros H. right. now apply IH.
Qed.

Lemma kremove_incl {A} k (l : list (K * A)) x : In x (kremove k l) -> In x l.
Proof.
  induction l as [|[k' v'] r IH]; [intros []|]. cbn. destruct (K_eqb k' k).
  - intros H. now right.
  - intros [H|H]; [now left|right; now apply IH].
Qed.

Lemma kfind_app {A} k (l l' : list (K * A)) :
  kfind k (l ++ l') = match kfind k l with Some v => Some v | None => kfind k l' end.
Proof.
  induction l as [|[k' v'] r IH]; [reflexivity|]. cbn. destruct (K_eqb k' k); [reflexivity|exact IH].
Qed.

Lemma K_eqb_refl k : K_eqb k k = true.
Proof. now apply K_eqb_spec. Qed.

Lemma nfind_app {A} n (l l' : list (N * A)) :
  nfind n (l ++ l') = match nfind n l with Some v => Some v | None => nfind n l' end.
Proof.
  induction l as [|[n' v'] r IH]; [reflexivity|]. cbn. destruct (N.eqb n' n); [reflexivity|exact IH].
Qed.

Lemma nfind_snoc_new {A} n (l : list (N * A)) v : nfind n l = None -> nfind n (l ++ [(n, v)]) = Some v.
Proof. intros H. rewrite nfind_app, H. cbn. now rewrite N.eqb_refl. Qed.

Lemma nfind_snoc_keep {A} n m (l : list (N * A)) v f :
  nfind n l = Some f -> nfind n (l ++ [(m, v)]) = Some f.
Proof. intros H. now rewrite nfind_app, H. Qed.

(* ---- the invariant: a cache file is the file its name stands for ------------------- *)

Definition disk_ok (disk : list (K * hfile)) : Prop :=
  forall k f, In (k, f) disk -> k = keyf (fst f) (snd f).

Lemma disk_ok_kremove k disk : disk_ok disk -> disk_ok (kremove k disk).
Proof. intros H k' f Hin. apply H. eapply kremove_incl; eauto. Qed.

Lemma disk_ok_link d e disk : disk_ok disk -> disk_ok (link_into_cache K K_eqb (keyf d e) (d, e) disk).
Proof.
  intros H. unfold link_into_cache. destruct (kfind (keyf d e) disk); [exact H|].
  intros k f Hin. apply in_app_iff in Hin as [Hin|[[= <- <-]|[]]]; [now apply H|reflexivity].
Qed.

Lemma make_space_disk fuel maxf maxs sz : forall lru disk,
  disk_ok disk -> disk_ok (snd (make_space K K_eqb fuel maxf maxs sz lru disk)).
Proof.
  induction fuel as [|fuel IH]; intros lru disk H; [exact H|]. cbn [make_space].
  destruct lru as [|[k z] r]; [exact H|].
  destruct ((maxf <=? List.length ((k, z) :: r)) || (maxs <? ltotal K ((k, z) :: r) + sz)%Z); [|exact H].
  apply IH. now apply disk_ok_kremove.
Qed.

Lemma disk_ok_found d e disk f : disk_ok disk -> kfind (keyf d e) disk = Some f -> f = (d, e).
Proof.
  intros H Hf. apply kfind_In in Hf. apply H in Hf. apply keyf_inj in Hf as [H1 H2].
  destruct f as [a b]. cbn in *. now subst.
Qed.

Lemma disk_ok_p_cache disk : disk_ok disk -> p_cache disk = ""%string.
Proof.
  intros H. unfold Hardlink.p_cache.
  match goal with |- (if ?b then _ else _) = _ => assert (b = true) as -> end; [|reflexivity].
  apply forallb_forall. intros [k f] Hin. cbn. apply K_eqb_spec. now apply H.
Qed.

(* ---- tryLinkFromCache ------------------------------------------------------------------ *)

Lemma try_link_spec k name (s s1 : hstate) r :
  try_link k name s = (s1, r) ->
  hs_disk s1 = hs_disk s /\
  (forall n f, nfind n (hs_dest s) = Some f -> nfind n (hs_dest s1) = Some f) /\
  (kfind k (hs_lru s) <> None -> kfind k (hs_lru s1) <> None) /\
  match r with
  | Linked => exists f, kfind k (hs_disk s) = Some f /\ nfind name (hs_dest s) = None /\
                        hs_dest s1 = hs_dest s ++ [(name, f)]
  | LinkFailed => hs_dest s1 = hs_dest s
  | NotExist => hs_dest s1 = hs_dest s /\ (kfind k (hs_lru s) = None \/ kfind k (hs_disk s) = None) /\
                (kfind k (hs_lru s) = None -> s1 = s)
  end.
Proof.
  unfold try_link. destruct (kfind k (hs_lru s)) as [z|] eqn:El.
  2:{ intros [= <- <-]. repeat split; auto. }
  assert (kfind k (touch K K_eqb k (hs_lru s)) <> None) as Ht.
  { unfold touch. rewrite El, kfind_app. destruct (kfind k (kremove k (hs_lru s))); [discriminate|].
    cbn. rewrite K_eqb_refl. discriminate. }
  destruct (kfind k (hs_disk s)) as [f|] eqn:Ed.
  - destruct (nfind name (hs_dest s)) eqn:En; intros [= <- <-]; cbn.
    + repeat split; auto.
    + split; [reflexivity|]. split; [intros n f0 H; now apply nfind_snoc_keep|]. split; [auto|].
      exists f. repeat split; auto.
  - intros [= <- <-]. cbn. repeat split; auto. intros H. discriminate.
Qed.

(* ---- GetFile ------------------------------------------------------------------------------- *)

Lemma hget_spec c d e name ok (s s' : hstate) g :
  hget c d e name ok s = (s', g) -> disk_ok (hs_disk s) ->
  disk_ok (hs_disk s') /\
  (g_st g = ST_OK -> g_dest g = Some (d, e)) /\
  (forall n f, nfind n (hs_dest s) = Some f -> nfind n (hs_dest s') = Some f) /\
  g_dest g = nfind name (hs_dest s') /\
  (g_st g = ST_OK -> g_base g = 1 ->
     kfind (keyf d e) (hs_lru s') <> None /\ kfind (keyf d e) (hs_disk s') <> None) /\
  (kfind (keyf d e) (hs_lru s) <> None -> kfind (keyf d e) (hs_disk s) <> None -> g_base g = 0).
Proof.
  unfold hget. intros H Hok.
  destruct (try_link (keyf d e) name s) as [s1 r] eqn:E1.
  destruct (try_link_spec _ _ _ _ _ E1) as (D1 & M1 & L1 & R1).
  (* a successful link, from state sa reached from s *)
  assert (forall (sa sb : hstate), hs_disk sa = hs_disk s ->
            (exists f, kfind (keyf d e) (hs_disk sa) = Some f /\ nfind name (hs_dest sa) = None /\
                       hs_dest sb = hs_dest sa ++ [(name, f)]) ->
            nfind name (hs_dest sb) = Some (d, e)) as Hlinked.
  { intros sa sb Hd (f & Hf & Hn & Hdest). rewrite Hd in Hf. rewrite (disk_ok_found d e _ f Hok Hf) in Hdest.
    rewrite Hdest. now apply nfind_snoc_new. }
  destruct r.
  - (* linked at once *)
    injection H as <- <-. cbn [g_st g_dest g_base]. rewrite D1.
    split; [exact Hok|]. split; [intros _; apply (Hlinked s s1 eq_refl R1)|]. split; [exact M1|]. split; [reflexivity|].
    split; [intros _ [=]|reflexivity].
  - (* not in the cache (or lost from the disk) *)
    destruct R1 as (Hd1 & Hmiss & Hsame).
    destruct (try_link (keyf d e) name s1) as [s2 r2] eqn:E2.
    destruct (try_link_spec _ _ _ _ _ E2) as (D2 & M2 & L2 & R2).
    assert (hs_disk s2 = hs_disk s) as D12 by congruence.
    assert (forall n f, nfind n (hs_dest s) = Some f -> nfind n (hs_dest s2) = Some f) as M12 by auto.
    destruct r2.
    + injection H as <- <-. cbn [g_st g_dest g_base]. rewrite D12.
      split; [exact Hok|]. split; [intros _; apply (Hlinked s1 s2); [exact D1|exact R2]|]. split; [exact M12|].
      split; [reflexivity|]. split; [intros _ [=]|reflexivity].
    + destruct R2 as (Hd2 & Hmiss2 & _).
      assert (Hb0 : kfind (keyf d e) (hs_lru s) <> None -> kfind (keyf d e) (hs_disk s) <> None -> False).
      { intros A B. destruct Hmiss as [X|X]; contradiction. }
      destruct (nfind name (hs_dest s2)) eqn:En.
      { injection H as <- <-. cbn [g_st g_dest g_base]. rewrite D12.
        split; [exact Hok|]. split; [discriminate|]. split; [exact M12|]. split; [reflexivity|].
        split; [discriminate|]. intros A B. destruct (Hb0 A B). }
      destruct ok; cbn [negb] in H.
      2:{ injection H as <- <-. cbn [g_st g_dest g_base]. rewrite D12.
          split; [exact Hok|]. split; [discriminate|]. split; [exact M12|]. split; [reflexivity|].
          split; [discriminate|]. intros A B. destruct (Hb0 A B). }
      assert (forall n f, nfind n (hs_dest s) = Some f ->
                nfind n (hs_dest s2 ++ [(name, (d, e))]) = Some f) as Mnew.
      { intros n f Hn. apply nfind_snoc_keep. now apply M12. }
      destruct (kfind (keyf d e) (hs_lru s2)) as [z|] eqn:El2.
      * injection H as <- <-. cbn [g_st g_dest g_base hs_disk hs_dest hs_lru].
        split; [apply disk_ok_link; rewrite D12; exact Hok|].
        split; [intros _; now apply nfind_snoc_new|]. split; [exact Mnew|]. split; [reflexivity|].
        split.
        -- intros _ _. split; [rewrite El2; discriminate|].
           unfold link_into_cache. destruct (kfind (keyf d e) (hs_disk s2)) eqn:Ek; [rewrite Ek; discriminate|].
           rewrite kfind_app, Ek. cbn. rewrite K_eqb_refl. discriminate.
        -- intros A B. destruct (Hb0 A B).
      * destruct (make_space K K_eqb (List.length (hs_lru s2)) (hc_maxfiles c) (hc_maxsize c) (size_of c d)
                    (hs_lru s2) (hs_disk s2)) as [lru disk] eqn:Ems.
        injection H as <- <-. cbn [g_st g_dest g_base hs_disk hs_dest hs_lru].
        assert (disk_ok disk) as Hdisk.
        { pose proof (make_space_disk (List.length (hs_lru s2)) (hc_maxfiles c) (hc_maxsize c) (size_of c d)
                        (hs_lru s2) (hs_disk s2)) as X. rewrite Ems in X. apply X. rewrite D12. exact Hok. }
        split; [now apply disk_ok_link|].
        split; [intros _; now apply nfind_snoc_new|]. split; [exact Mnew|]. split; [reflexivity|].
        split.
        -- intros _ _. split.
           ++ rewrite kfind_app. destruct (kfind (keyf d e) lru); [discriminate|]. cbn. rewrite K_eqb_refl. discriminate.
           ++ unfold link_into_cache. destruct (kfind (keyf d e) disk) eqn:Ek; [rewrite Ek; discriminate|].
              rewrite kfind_app, Ek. cbn. rewrite K_eqb_refl. discriminate.
        -- intros A B. destruct (Hb0 A B).
    + injection H as <- <-. cbn [g_st g_dest g_base]. rewrite D12.
      split; [exact Hok|]. split; [discriminate|]. split; [exact M12|]. split; [reflexivity|].
      split; [discriminate|reflexivity].
  - (* the destination exists *)
    injection H as <- <-. cbn [g_st g_dest g_base]. rewrite D1.
    split; [exact Hok|]. split; [discriminate|]. split; [exact M1|]. split; [reflexivity|].
    split; [discriminate|reflexivity].
Qed.

Lemma hfile_eqb_refl f : hfile_eqb f f = true.
Proof. unfold hfile_eqb. now rewrite N.eqb_refl, Bool.eqb_reflx. Qed.

Lemma p_get_ok d e g : (g_st g = ST_OK -> g_dest g = Some (d, e)) -> p_get d e g = ""%string.
Proof.
  intros H. unfold p_get. destruct (N.eqb (g_st g) ST_OK) eqn:E; [|reflexivity].
  apply N.eqb_eq in E. rewrite (H E), hfile_eqb_refl. reflexivity.
Qed.

Lemma orelse_nil a b : a = ""%string -> b = ""%string -> orelse a b = ""%string.
Proof. intros -> ->. reflexivity. Qed.

(* ---- one step, all histories ----------------------------------------------------------------- *)

Lemma hstep_ok c (s s' : hstate) o x :
  hstep c s o = (s', x) -> disk_ok (hs_disk s) -> disk_ok (hs_disk s') /\ p_hstep o x = ""%string.
Proof.
  intros H Hok. destruct o as [d e name ok | d e n1 n2 ok1 ok2 | d e | name]; cbn [Hardlink.hstep] in H.
  - destruct (hget c d e name ok s) as [s1 g] eqn:Eg. injection H as <- <-.
    destruct (hget_spec _ _ _ _ _ _ _ _ Eg Hok) as (D & P & _).
    split; [exact D|]. cbn [Hardlink.p_hstep]. apply orelse_nil; [now apply p_get_ok|now apply disk_ok_p_cache].
  - destruct (hget c d e n1 ok1 s) as [s1 g1] eqn:Eg1. destruct (hget c d e n2 ok2 s1) as [s2 g2] eqn:Eg2.
    injection H as <- <-.
    destruct (hget_spec _ _ _ _ _ _ _ _ Eg1 Hok) as (D1 & P1 & _ & Q1 & A1 & _).
    destruct (hget_spec _ _ _ _ _ _ _ _ Eg2 D1) as (D2 & P2 & M2 & _ & _ & B2).
    split; [exact D2|]. cbn [Hardlink.p_hstep g_st g_base g_dest].
    apply orelse_nil; [|apply orelse_nil; [|apply orelse_nil]].
    + apply p_get_ok. cbn [g_st g_dest]. intros E. apply M2. rewrite <- Q1. now apply P1.
    + now apply p_get_ok.
    + destruct (N.eqb (g_st g1) ST_OK) eqn:E1; [|reflexivity].
      destruct (Nat.eqb (g_base g1) 1) eqn:E2; [|reflexivity]. cbn [andb].
      apply N.eqb_eq in E1. apply Nat.eqb_eq in E2. destruct (A1 E1 E2) as [X Y].
      rewrite (B2 X Y). reflexivity.
    + now apply disk_ok_p_cache.
  - injection H as <- <-. cbn [hs_disk]. assert (disk_ok (kremove (keyf d e) (hs_disk s))) as D by now apply disk_ok_kremove.
    split; [exact D|]. cbn [Hardlink.p_hstep]. now apply disk_ok_p_cache.
  - injection H as <- <-. cbn [hs_disk]. split; [exact Hok|]. cbn [Hardlink.p_hstep]. now apply disk_ok_p_cache.
Qed.

Lemma htrace_all_ok c : forall ops (s : hstate), disk_ok (hs_disk s) ->
  Forall (fun ox => p_hstep (fst ox) (snd ox) = ""%string) (htrace c s ops).
Proof.
  induction ops as [|o r IH]; intros s Hok; [constructor|]. cbn [Hardlink.htrace].
  destruct (hstep c s o) as [s' x] eqn:E. destruct (hstep_ok _ _ _ _ _ E Hok) as [D P].
  constructor; [exact P|now apply IH].
Qed.

Lemma hinit_ok : disk_ok (hs_disk (@hinit K)).
Proof. intros k f []. Qed.

Lemma htrace_ok_l c ops : htrace_ok K K_eqb keyf (htrace c hinit ops) = true.
Proof.
  unfold htrace_ok. apply forallb_forall. intros ox Hin.
  pose proof (htrace_all_ok c ops hinit hinit_ok) as F. rewrite Forall_forall in F.
  rewrite (F ox Hin). reflexivity.
Qed.

Lemma p_get_inv d e g : p_get d e g = ""%string -> g_st g = ST_OK -> g_dest g = Some (d, e).
Proof.
  unfold p_get. intros H E. rewrite E in H. cbn in H.
  destruct (g_dest g) as [f|]; [|discriminate].
  destruct (hfile_eqb f (d, e)) eqn:Ef; [|discriminate].
  unfold hfile_eqb in Ef. apply andb_true_iff in Ef as [A B]. apply N.eqb_eq in A. apply Bool.eqb_prop in B.
  destruct f as [a b]. cbn in *. now subst.
Qed.

Lemma orelse_inv a b : orelse a b = ""%string -> a = ""%string /\ b = ""%string.
Proof. unfold orelse. destruct (String.eqb a "") eqn:E; [apply String.eqb_eq in E; auto|intros ->; discriminate]. Qed.

Lemma hardlink_returns_requested_l c ops d e name ok g ls :
  In (HGet d e name ok, HOGet g ls) (htrace c hinit ops) ->
  g_st g = ST_OK -> g_dest g = Some (d, e).
Proof.
  intros Hin. pose proof (htrace_all_ok c ops hinit hinit_ok) as F. rewrite Forall_forall in F.
  specialize (F _ Hin). cbn [fst snd Hardlink.p_hstep] in F. apply orelse_inv in F as [F _]. now apply p_get_inv.
Qed.

Lemma hardlink_pair_returns_requested_l c ops d e n1 n2 ok1 ok2 g1 g2 ls :
  In (HPair d e n1 n2 ok1 ok2, HOPair g1 g2 ls) (htrace c hinit ops) ->
  (g_st g1 = ST_OK -> g_dest g1 = Some (d, e)) /\ (g_st g2 = ST_OK -> g_dest g2 = Some (d, e)) /\
  (g_st g1 = ST_OK -> g_base g1 = 1 -> g_base g2 = 0).
Proof.
  intros Hin. pose proof (htrace_all_ok c ops hinit hinit_ok) as F. rewrite Forall_forall in F.
  specialize (F _ Hin). cbn [fst snd Hardlink.p_hstep] in F.
  apply orelse_inv in F as [F1 F]. apply orelse_inv in F as [F2 F]. apply orelse_inv in F as [F3 _].
  split; [now apply p_get_inv|]. split; [now apply p_get_inv|].
  intros E1 E2. rewrite E1, E2 in F3. cbn in F3. destruct (g_base g2); [reflexivity|discriminate].
Qed.

Lemma cache_never_poisoned_l c ops o x :
  In (o, x) (htrace c hinit ops) ->
  forall ls, (match x with HOGet _ l | HOPair _ _ l | HONone l => l end) = ls ->
  forall k f, In (k, f) ls -> k = keyf (fst f) (snd f).
Proof.
  intros Hin ls Hls k f Hkf. pose proof (htrace_all_ok c ops hinit hinit_ok) as F. rewrite Forall_forall in F.
  specialize (F _ Hin). cbn [fst snd] in F.
  assert (p_cache ls = ""%string) as Hp.
  { destruct o, x; cbn [Hardlink.p_hstep] in F; try discriminate; subst ls.
    - now apply orelse_inv in F as [_ F].
    - apply orelse_inv in F as [_ F]. apply orelse_inv in F as [_ F]. now apply orelse_inv in F as [_ F].
    - exact F.
    - exact F. }
  unfold Hardlink.p_cache in Hp.
  match type of Hp with (if ?b then _ else _) = _ => destruct b eqn:E end; [|discriminate].
  rewrite forallb_forall in E. specialize (E _ Hkf). cbn in E. now apply K_eqb_spec.
Qed.

End Proofs.

(* ---- the code's key, and a key that is not injective ------------------------------------------ *)

Lemma pkey_eqb_spec : forall a b, pkey_eqb a b = true <-> a = b.
Proof.
  intros [a1 a2] [b1 b2]. unfold pkey_eqb. cbn. rewrite andb_true_iff, N.eqb_eq. split.
  - intros [-> H]. apply Bool.eqb_prop in H. now subst.
  - intros [= -> ->]. split; [reflexivity|apply Bool.eqb_reflx].
Qed.

Lemma pkeyf_inj : forall d e d' e', pkeyf d e = pkeyf d' e' -> d = d' /\ e = e'.
Proof. intros d e d' e' [= -> ->]. split; reflexivity. Qed.

Lemma htrace_ok_pkey_l : forall c ops,
  htrace_ok pkey pkey_eqb pkeyf (htrace pkey pkey_eqb pkeyf c hinit ops) = true.
Proof. exact (htrace_ok_l pkey pkey_eqb pkeyf pkey_eqb_spec pkeyf_inj). Qed.

(* the code's cache file name *)
Lemma htrace_ok_code_key_l : forall (getkey : N -> string),
  (forall d d', getkey d = getkey d' -> d = d') ->
  forall c ops,
  let keyf := fun d e => hl_key (getkey d) e in
  htrace_ok string String.eqb keyf (htrace string String.eqb keyf c hinit ops) = true.
Proof.
  intros getkey inj c ops keyf. apply htrace_ok_l.
  - apply String.eqb_eq.
  - intros d e d' e' H. unfold keyf in H. apply hl_key_inj in H as [A B]. split; [now apply inj|exact B].
Qed.
