(* C17 — the property theorems, and nothing else.  Model: Cas/Model.v (heap of
   lazily fetched directory objects and leaves over a fixed CAS), Cas/Cache.v
   (cachingDirectoryFetcher); predicates: Cas/Spec.v. *)
From VF Require Import Cas.Model Cas.Spec Cas.Cache Cas.ProofsLeaf.
Open Scope string_scope.
Open Scope nat_scope.
Open Scope list_scope.

(* ---- cas_leaf_immutable ----------------------------------------------------- *)

(* Every attempt to change a CAS backed file (open for writing or with
   truncation, set the size, write, allocate) returns an error status,
   leaves the whole state as it was, and the file still shows the size,
   executable bit and bytes its digest names.  The CAS itself (Directory
   messages and blobs) is a parameter of [step]: no operation of the model
   can alter it. *)
Theorem cas_leaf_immutable : forall c b s o l lf d x,
  nth_error (st_leaves s) l = Some lf -> l_kind lf = KCas d x -> leaf_mutation o l = true ->
  fst (step c b s o) = s /\
  o_status (snd (step c b s o)) <> SOK /\
  o_obs (snd (step c b s o)) = Some (ObsFile (snd d) x (cas_read b d)).
Proof. exact mutation_refused. Qed.
Print Assumptions cas_leaf_immutable.

(* The same through the directory: VirtualOpenChild on a CAS backed file. *)
Theorem cas_leaf_open_child_refused : forall k rd wr trunc d x,
  k = KCas d x -> wr || trunc = true -> open_self k rd wr trunc = SAccess.
Proof. exact open_child_refused. Qed.
Print Assumptions cas_leaf_open_child_refused.

(* Over whole histories: whatever is done to the tree (exploration, local
   modifications, mutation attempts, storage errors), a leaf shows the same
   file afterwards. *)
Theorem cas_leaf_contents_stable : forall c b ops s l lf,
  nth_error (st_leaves s) l = Some lf ->
  observe b (run c b s ops) l = observe b s l.
Proof. exact contents_stable. Qed.
Print Assumptions cas_leaf_contents_stable.

Example cas_leaf_immutable_nonvacuous :
  let c := [(("00000000000000000000000000000001", 1%Z), mkMsg [mkF "f" (Some ("00000000000000000000000000000002", 3%Z)) true] [] [])] in
  let b := [(("00000000000000000000000000000002", 3%Z), "abc")] in
  let s := run c b init [OMerge 0 ("00000000000000000000000000000001", 1%Z) []] in
  map (fun o => (o_status (snd (step c b s o)), o_obs (snd (step c b s o))))
      [OOpenSelf 0 true true false; OSetAttr 0 ASize; OWrite 0; OAllocate 0; OOpenSelf 0 true false false]
  = [(SAccess, Some (ObsFile 3 true (Some "abc"))); (SAccess, Some (ObsFile 3 true (Some "abc")));
     (SPanic, Some (ObsFile 3 true (Some "abc"))); (SWrongType, Some (ObsFile 3 true (Some "abc")));
     (SOK, Some (ObsFile 3 true (Some "abc")))].
Proof. vm_compute. reflexivity. Qed.
