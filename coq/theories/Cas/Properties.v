(* C17 — the property theorems, and nothing else.

   Model: Cas/Model.v — a heap of directory objects (lazy with a digest /
   lazy empty / fetched, entries in attach order) and leaf objects (CAS
   backed file / symlink / local file) in allocation order, over a fixed
   CAS [c] (digest -> REv2 Directory) and blob store [b]; [step] = one call
   of the implementation (VirtualLookup, LookupChild, VirtualReadDir,
   ReadDir, VirtualOpenChild, VirtualMkdir, VirtualRemove, Remove,
   VirtualRename, VirtualLink, CreateChildren with a CAS fetcher,
   MergeDirectoryContents, and the leaf calls) with the storage-error
   script of that call.  [run c b init ops] over all [ops] = all
   exploration orders interleaved with local modifications and all error
   scripts.  [d_born]/[d_pristine] are ghost fields: the digest a directory
   object was created from (or merged with while empty and untouched) and
   "no local modification so far".  Cas/Cache.v: cachingDirectoryFetcher.
   Predicates: Cas/Spec.v ([p_step] is what Corr.v evaluates on the code). *)
From VF Require Import Cas.Model Cas.Spec Cas.Cache Cas.ProofsLeaf Cas.ProofsInv Cas.ProofsStep
  Cas.ProofsFaithful Cas.ProofsTrace Cas.CacheProofs Cas.ProofsTop Cas.Hardlink Cas.HardlinkProofs
  Cas.ProofsIdent.
Open Scope string_scope.
Open Scope nat_scope.
Open Scope list_scope.

(* ---- root_faithful ------------------------------------------------------------ *)

(* After any history: a directory object created from digest [d] whose
   subtree (to depth k) was never locally modified shows, if explored to
   the end, exactly the tree [d] denotes to that depth — whatever was or
   was not explored so far, in whatever order, with whatever storage
   errors in between.  Both sides are None together when something below
   is missing, malformed or deeper than k. *)
Theorem root_faithful : forall c b ops k i o d,
  nth_error (st_dirs (run c b init ops)) i = Some o -> d_born o = Some d ->
  deep_pristine k (run c b init ops) i ->
  reveal k c (run c b init ops) i = denote_f k c d.
Proof. exact root_faithful_l. Qed.
Print Assumptions root_faithful.

(* With the fuel of [denote] (number of stored Directory messages): if the
   digest denotes a tree, that tree is what is visible. *)
Theorem root_faithful_denote : forall c b ops i o d t,
  nth_error (st_dirs (run c b init ops)) i = Some o -> d_born o = Some d ->
  deep_pristine (S (List.length c)) (run c b init ops) i ->
  denote c d = Some t ->
  reveal (S (List.length c)) c (run c b init ops) i = Some t.
Proof. exact root_faithful_denote_l. Qed.
Print Assumptions root_faithful_denote.

(* One level, nothing assumed about what is below: the entries of a fetched,
   never modified directory object are the validated children of its
   Directory message in sorted order — same names; a directory child is an
   object born from the child's digest; a leaf child is an object of the
   kind (CAS file with that digest and executable bit / symlink with that
   target) the message says. *)
Theorem root_faithful_one_level : forall c b ops i o d,
  nth_error (st_dirs (run c b init ops)) i = Some o ->
  d_pristine o = true -> d_born o = Some d -> d_lazy o = LNone ->
  exists chs lvs, expect c d = Some (chs, lvs) /\
    entries_ok (run c b init ops) lvs chs (d_entries o).
Proof. exact root_faithful_level_l. Qed.
Print Assumptions root_faithful_one_level.

(* The invariant behind it, for all histories. *)
Theorem inv_all_histories : forall c b ops, Inv c (run c b init ops).
Proof. exact Inv_all. Qed.
Print Assumptions inv_all_histories.

(* Exploring is idempotent: looking up in / listing a fetched directory
   changes nothing and fetches nothing; a directory forced once is not
   fetched again. *)
Theorem explore_idempotent : forall c b s i o,
  nth_error (st_dirs s) i = Some o -> d_lazy o = LNone ->
  forall n virt fs,
    fst (step c b s (OLookup i n virt fs)) = s /\ o_fetches (snd (step c b s (OLookup i n virt fs))) = [] /\
    fst (step c b s (OReadDir i virt fs)) = s /\ o_fetches (snd (step c b s (OReadDir i virt fs))) = [].
Proof. exact explore_fetched. Qed.
Print Assumptions explore_idempotent.

Theorem force_idempotent : forall c s i fs s1 lg fs1 fs',
  force c s i fs = (s1, lg, None, fs1) -> i < List.length (st_dirs s) ->
  force c s1 i fs' = (s1, [], None, fs').
Proof. exact force_twice. Qed.
Print Assumptions force_idempotent.

(* The fuel of denote only matters until it suffices. *)
Theorem denote_fuel_monotone : forall c k d t, denote_f k c d = Some t -> denote_f (S k) c d = Some t.
Proof. exact denote_f_mono. Qed.
Print Assumptions denote_fuel_monotone.

(* ---- malformed_is_error -------------------------------------------------------- *)

(* Forcing a directory whose Directory message is missing or malformed
   (invalid name, duplicate name, bad digest) fails whatever the error
   script says: no directory object changes — the directory stays lazy and
   never shows a different tree — and every leaf created before the error
   was detected is left with link count 0 (unlinked). *)
Theorem malformed_is_error : forall c s i o d fs,
  nth_error (st_dirs s) i = Some o -> d_lazy o = LCas d -> expect c d = None ->
  exists lvs lg code fs1,
    force c s i fs = (mkState (st_dirs s) (add_leaves (st_leaves s) lvs 0), lg, Some code, fs1).
Proof. exact force_malformed. Qed.
Print Assumptions malformed_is_error.

(* ... and the operation that forced it returns an error status. *)
Theorem malformed_is_error_status : forall c b s i o d n virt fs,
  nth_error (st_dirs s) i = Some o -> d_lazy o = LCas d -> expect c d = None ->
  (exists code, o_status (snd (step c b s (OLookup i n virt fs))) = err_status virt code) /\
  (exists code, o_status (snd (step c b s (OReadDir i virt fs))) = err_status virt code) /\
  st_dirs (fst (step c b s (OLookup i n virt fs))) = st_dirs s /\
  st_dirs (fst (step c b s (OReadDir i virt fs))) = st_dirs s.
Proof. exact explore_malformed. Qed.
Print Assumptions malformed_is_error_status.

(* ---- fetch_error_not_sticky ------------------------------------------------------ *)

(* What the code does after a failed fetch (getContents leaves
   initialContentsFetcher in place): nothing is remembered.  No directory
   object changes; after a storage error or a missing Directory the state
   is literally the one before the call; the next access calls
   GetDirectory for the same digest again. *)
Theorem fetch_error_not_sticky : forall c s i fs s1 lg code fs1,
  force c s i fs = (s1, lg, Some code, fs1) ->
  st_dirs s1 = st_dirs s /\
  exists o d fr, nth_error (st_dirs s1) i = Some o /\ d_lazy o = LCas d /\ lg = [(d, fr)] /\
    (fr <> FOk -> s1 = s) /\
    forall fs', exists fr', snd (fst (fst (force c s1 i fs'))) = [(d, fr')].
Proof. exact force_error_retried. Qed.
Print Assumptions fetch_error_not_sticky.

(* ---- cas_leaf_immutable ----------------------------------------------------------- *)

(* Every attempt to change a CAS backed file (open for writing or with
   truncation, set the size, write, allocate) returns an error status,
   leaves the whole state as it was, and the file still shows the size,
   executable bit and bytes its digest names.  The CAS itself (Directory
   messages and blobs) is a parameter of [step]: no operation of the model
   can alter it. *)
Theorem cas_leaf_immutable : forall c b s o l lf d x,
  nth_error (st_leaves s) l = Some lf -> l_kind lf = KCas d x -> leaf_mutation o l = true ->
  fst (step c b s o) = s /\
  o_status (snd (step c b s o)) <> SOK /\
  o_obs (snd (step c b s o)) = Some (ObsFile (snd d) x (cas_read b d)).
Proof. exact mutation_refused. Qed.
Print Assumptions cas_leaf_immutable.

(* The same through the directory: VirtualOpenChild on a CAS backed file. *)
Theorem cas_leaf_open_child_refused : forall k rd wr trunc d x,
  k = KCas d x -> wr || trunc = true -> open_self k rd wr trunc = SAccess.
Proof. exact open_child_refused. Qed.
Print Assumptions cas_leaf_open_child_refused.

(* Over whole histories: whatever is done to the tree (exploration, local
   modifications, mutation attempts, storage errors), a leaf shows the same
   file afterwards. *)
Theorem cas_leaf_contents_stable : forall c b ops s l lf,
  nth_error (st_leaves s) l = Some lf ->
  observe b (run c b s ops) l = observe b s l.
Proof. exact contents_stable. Qed.
Print Assumptions cas_leaf_contents_stable.

(* ---- P holds on the model --------------------------------------------------------- *)

(* The predicate Corr.v evaluates on implementation traces (CAS unchanged;
   leaves of a malformed fetch unlinked; lookups and listings of unmodified
   directories equal the validated Directory of their digest, errors only
   with a cause; malformed never presented as a tree; CAS files refuse
   mutation and keep their contents) holds on every trace of the model. *)
Theorem monitor_holds_on_model : forall c b ops, trace_ok c b (trace c b init ops) = true.
Proof. exact trace_ok_all. Qed.
Print Assumptions monitor_holds_on_model.

(* ---- the identity given to the stateless handle allocator ------------------------------ *)

(* stateless_handle_allocating_cas_file_factory.go creates every CAS backed
   file through StatelessHandleAllocator.New(&casFileID{digest, executable});
   the handle allocators make the inode number / file handle from the bytes
   casFileID.WriteTo writes and the NFSv4 one hands out the leaf it already
   has for them.  [file_identity key executable] are these bytes
   (ByteSliceID = uvarint length prefix + key, then one byte for the bit);
   they determine the key and the bit, for all keys. *)
Theorem handle_identity_injective : forall k1 x1 k2 x2,
  file_identity k1 x1 = file_identity k2 x2 -> k1 = k2 /\ x1 = x2.
Proof. exact file_identity_inj_l. Qed.
Print Assumptions handle_identity_injective.

(* ByteSliceID is a prefix code ("no ambiguity exists if allocators are
   nested"): whatever follows, the slice can be read back. *)
Theorem handle_identity_prefix_free : forall k1 k2 r1 r2,
  byte_slice_id k1 ++ r1 = byte_slice_id k2 ++ r2 -> k1 = k2 /\ r1 = r2.
Proof. exact byte_slice_id_prefix. Qed.
Print Assumptions handle_identity_prefix_free.

(* Digest.GetKey(KeyWithInstance), "<function>-<hash>-<size>-<instance>",
   separates the digests NewDigestFromProto accepts ... *)
Theorem digest_key_injective : forall fn inst d1 d2, valid_digest d1 -> valid_digest d2 ->
  digest_key fn inst d1 = digest_key fn inst d2 -> d1 = d2.
Proof. exact digest_key_inj_l. Qed.
Print Assumptions digest_key_injective.

(* ... and after any history every CAS backed file has such a digest. *)
Theorem cas_leaves_have_valid_digests : forall c b ops l lf d x,
  nth_error (st_leaves (run c b init ops)) l = Some lf -> l_kind lf = KCas d x -> valid_digest d.
Proof. exact cas_leaves_valid_l. Qed.
Print Assumptions cas_leaves_have_valid_digests.

(* Tokens ([model_idents]: index of a leaf's identity among the distinct
   identities, what Corr.v compares with the allocator of the harness):
   every CAS backed file has one, and after any history two of them are
   equal exactly when digest and executable bit are. *)
Theorem handle_identity_total : forall fn inst s l lf d x,
  nth_error (st_leaves s) l = Some lf -> l_kind lf = KCas d x ->
  exists t, aget l (fst (model_idents fn inst s)) = Some t.
Proof. exact model_token_total_l. Qed.
Print Assumptions handle_identity_total.

Theorem handle_identity_separates_files : forall fn inst c b ops l1 l2 lf1 lf2 d1 x1 d2 x2 t1 t2,
  let sf := run c b init ops in
  nth_error (st_leaves sf) l1 = Some lf1 -> l_kind lf1 = KCas d1 x1 ->
  nth_error (st_leaves sf) l2 = Some lf2 -> l_kind lf2 = KCas d2 x2 ->
  aget l1 (fst (model_idents fn inst sf)) = Some t1 ->
  aget l2 (fst (model_idents fn inst sf)) = Some t2 ->
  (t1 = t2 <-> d1 = d2 /\ x1 = x2).
Proof. exact model_tokens_separate_l. Qed.
Print Assumptions handle_identity_separates_files.

(* The predicate Corr.v evaluates on the implementation's trace and the
   tokens its handle allocator recorded ([p_ident] after every [p_step]: no
   two known CAS backed files of different digest or executable bit share a
   token, C17:handle-identity-shared-by-different-files; equal files have
   equal tokens, C17:handle-identity-not-stateless) holds on every trace of
   the model with the model's tokens. *)
Theorem handle_identity_monitor_holds_on_model : forall fn inst c b ops,
  ident_trace_ok c b (fst (model_idents fn inst (run c b init ops))) (trace c b init ops) = true.
Proof. exact ident_trace_ok_all. Qed.
Print Assumptions handle_identity_monitor_holds_on_model.

(* Non-vacuity: one blob under both executable bits and once more.  The
   three leaves get tokens 0, 1, 0; the monitor learns all three from the
   listing; an identity that forgets the bit, or one that is not stateless,
   is rejected. *)
Definition idx_blob : digest := ("0000000000000000000000000000f000", 6%Z).
Definition idx_root : digest := ("0000000000000000000000000000d000", 10%Z).
Definition idx_cas : cas :=
  [(idx_root, mkMsg [mkF "tool" (Some idx_blob) true; mkF "tool.txt" (Some idx_blob) false;
                    mkF "copy" (Some idx_blob) true] [] [])].
Definition idx_ops : list op := [OMerge 0 idx_root []; OReadDir 0 true []].

Example handle_identity_bytes :
  file_identity (digest_key "3" "inst" idx_blob) true
  = (41 :: bytes_of "3-0000000000000000000000000000f000-6-inst" ++ [1])%N.
Proof. vm_compute. reflexivity. Qed.

Example handle_identity_nonvacuous :
  model_idents "3" "inst" (run idx_cas [] init idx_ops)
  = ([(0, 0%N); (1, 1%N); (2, 0%N)],
     [file_identity (digest_key "3" "inst" idx_blob) true;
      file_identity (digest_key "3" "inst" idx_blob) false]) /\
  ident_trace_ok idx_cas [] [(0, 0%N); (1, 1%N); (2, 0%N)] (trace idx_cas [] init idx_ops) = true /\
  ident_trace_ok idx_cas [] [(0, 0%N); (1, 0%N); (2, 0%N)] (trace idx_cas [] init idx_ops) = false /\
  ident_trace_ok idx_cas [] [(0, 0%N); (1, 1%N); (2, 2%N)] (trace idx_cas [] init idx_ops) = false /\
  (let known := [(2, KCas idx_blob true); (1, KCas idx_blob false); (0, KCas idx_blob true)] in
   ident_new [(0, 0%N); (1, 0%N); (2, 0%N)] known known = "C17:handle-identity-shared-by-different-files" /\
   ident_new [(0, 0%N); (1, 1%N); (2, 2%N)] known known = "C17:handle-identity-not-stateless").
Proof. vm_compute. repeat split; reflexivity. Qed.

(* ---- cache_key_separation ------------------------------------------------------------ *)

(* Keys of cachingDirectoryFetcher: equal keys imply equal IsTreeRoot flag,
   hash and size, and with KeyWithInstance equal digests (instance name
   included). *)
Theorem cache_key_separation : forall fmt d r d' r',
  key_of fmt d r = key_of fmt d' r' ->
  r = r' /\ snd (fst d) = snd (fst d') /\ snd d = snd d' /\ (fmt = true -> d = d').
Proof. exact key_separation. Qed.
Print Assumptions cache_key_separation.

Theorem cache_key_tree_root_separate : forall fmt d d', key_of fmt d true <> key_of fmt d' false.
Proof. exact key_root_differs. Qed.
Print Assumptions cache_key_tree_root_separate.

Theorem cache_key_instances_separate : forall i i' h z r,
  i <> i' -> key_of true (i, h, z) r <> key_of true (i', h, z) r.
Proof. exact key_instance_differs. Qed.
Print Assumptions cache_key_instances_separate.

(* A cached directory equals the stored one: for every request sequence,
   capacity and base store that is content addressed as far as the key
   format can tell, every answer is the base fetcher's answer for that
   very request, and every cached object is what the base stores for a
   request with that key. *)
Theorem cache_returns_stored : forall st fmt maxc maxs ops,
  store_respects st fmt ->
  Forall (fun ox => cache_p_step st fmt (fst ox) (snd ox) = "")
         (snd (crun st fmt maxc maxs [] ops)).
Proof. exact cache_returns_stored_l. Qed.
Print Assumptions cache_returns_stored.

Theorem cache_entries_stored : forall st fmt maxc maxs ops e,
  In e (fst (crun st fmt maxc maxs [] ops)) ->
  exists o0, op_key fmt o0 = fst e /\ option_map fst (base_answer st o0) = Some (fst (snd e)).
Proof. exact cache_entries_stored_l. Qed.
Print Assumptions cache_entries_stored.

(* With KeyWithInstance the hypothesis holds of every store. *)
Theorem cache_with_instance_unconditional : forall st, store_respects st true.
Proof. exact store_respects_with_instance. Qed.
Print Assumptions cache_with_instance_unconditional.

(* hardlinkingFileFetcher: the cache file name determines digest key and
   executable bit. *)
Theorem hardlink_key_separation : forall h x h' x', hl_key h x = hl_key h' x' -> h = h' /\ x = x'.
Proof. exact hl_key_inj. Qed.
Print Assumptions hardlink_key_separation.

(* ---- hardlinkingFileFetcher (Cas/Hardlink.v) ------------------------------------------------

   [htrace K K_eqb keyf c hinit ops]: the calls [ops] (GetFile with the outcome
   of the download should one be needed; two concurrent GetFile calls for one
   key; a cache file disappearing; a build directory entry removed) on one
   fetcher with configuration [c] (blob sizes, maxFiles, maxSize), cache key
   [keyf blob executable].  The hypotheses: the key is injective in (blob,
   executable bit) -- for the code's key that is hardlink_key_separation plus
   distinct blobs having distinct GetKey strings. *)

(* A successful GetFile(d, exec) leaves a file with d's contents and exec's
   mode at the requested name: all request sequences, all cache sizes, all
   download failures, evictions, re-fetches and lost cache files. *)
Theorem hardlink_returns_requested : forall K (K_eqb : K -> K -> bool) (keyf : N -> bool -> K),
  (forall a b, K_eqb a b = true <-> a = b) ->
  (forall d e d' e', keyf d e = keyf d' e' -> d = d' /\ e = e') ->
  forall c ops d e name ok g ls,
  In (HGet d e name ok, HOGet g ls) (htrace K K_eqb keyf c hinit ops) ->
  g_st g = ST_OK -> g_dest g = Some (d, e).
Proof. exact hardlink_returns_requested_l. Qed.
Print Assumptions hardlink_returns_requested.

(* Two concurrent calls for one key: each successful one has the requested
   file, and the second does not download again when the first one's
   download succeeded (the downloads map / wait channel). *)
Theorem hardlink_pair_returns_requested : forall K (K_eqb : K -> K -> bool) (keyf : N -> bool -> K),
  (forall a b, K_eqb a b = true <-> a = b) ->
  (forall d e d' e', keyf d e = keyf d' e' -> d = d' /\ e = e') ->
  forall c ops d e n1 n2 ok1 ok2 g1 g2 ls,
  In (HPair d e n1 n2 ok1 ok2, HOPair g1 g2 ls) (htrace K K_eqb keyf c hinit ops) ->
  (g_st g1 = ST_OK -> g_dest g1 = Some (d, e)) /\ (g_st g2 = ST_OK -> g_dest g2 = Some (d, e)) /\
  (g_st g1 = ST_OK -> g_base g1 = 1 -> g_base g2 = 0).
Proof. exact hardlink_pair_returns_requested_l. Qed.
Print Assumptions hardlink_pair_returns_requested.

(* The cache directory only ever holds, under each name, the file the name
   stands for. *)
Theorem hardlink_cache_never_poisoned : forall K (K_eqb : K -> K -> bool) (keyf : N -> bool -> K),
  (forall a b, K_eqb a b = true <-> a = b) ->
  (forall d e d' e', keyf d e = keyf d' e' -> d = d' /\ e = e') ->
  forall c ops o x, In (o, x) (htrace K K_eqb keyf c hinit ops) ->
  forall ls, (match x with HOGet _ l | HOPair _ _ l | HONone l => l end) = ls ->
  forall k f, In (k, f) ls -> k = keyf (fst f) (snd f).
Proof. exact cache_never_poisoned_l. Qed.
Print Assumptions hardlink_cache_never_poisoned.

(* The monitor Hardlink.check_hcase evaluates on the implementation (p_hstep,
   with the key the harness parses back from the cache file names) holds of
   every model trace. *)
Theorem hardlink_monitor_holds_on_model : forall c ops,
  htrace_ok pkey pkey_eqb pkeyf (htrace pkey pkey_eqb pkeyf c hinit ops) = true.
Proof. exact htrace_ok_pkey_l. Qed.
Print Assumptions hardlink_monitor_holds_on_model.

(* ... and with the code's key: cache file name = hl_key (GetKey string) bit. *)
Theorem hardlink_monitor_holds_code_key : forall (getkey : N -> string),
  (forall d d', getkey d = getkey d' -> d = d') ->
  forall c ops,
  let keyf := fun d e => hl_key (getkey d) e in
  htrace_ok string String.eqb keyf (htrace string String.eqb keyf c hinit ops) = true.
Proof. exact htrace_ok_code_key_l. Qed.
Print Assumptions hardlink_monitor_holds_code_key.

(* ---- non-vacuity ---------------------------------------------------------------------- *)

Definition ex_d1 : digest := ("00000000000000000000000000000001", 1%Z).
Definition ex_d2 : digest := ("00000000000000000000000000000002", 2%Z).
Definition ex_d3 : digest := ("00000000000000000000000000000003", 3%Z).
Definition ex_f : digest := ("000000000000000000000000000000f0", 3%Z).
Definition ex_cas : cas :=
  [(ex_d1, mkMsg [mkF "f" (Some ex_f) true] [mkD "sub" (Some ex_d2); mkD "bad" (Some ex_d3)] [mkS "l" "../t"]);
   (ex_d2, mkMsg [mkF "g" (Some ex_f) false] [] []);
   (ex_d3, mkMsg [mkF "a" (Some ex_f) false; mkF "a" (Some ex_f) false] [] [])].
Definition ex_blobs : blobs := [(ex_f, "abc")].
Definition ex_ops : list op :=
  [OAttach 0 "root" ex_d1 []; OLookup 1 "sub" true [true]; OLookup 1 "sub" true [];
   OReadDir 3 true []; OMkdir 0 "out" []].

(* A partially explored input root (a storage error in between, a local
   directory created next to it): the object born from ex_d2 shows the
   tree of ex_d2, and is deeply unmodified. *)
Example root_faithful_nonvacuous :
  let s := run ex_cas ex_blobs init ex_ops in
  reveal 2 ex_cas s 3 = Some (TDir [("g", TFile ex_f false)]) /\
  denote ex_cas ex_d2 = Some (TDir [("g", TFile ex_f false)]) /\
  option_map d_born (nth_error (st_dirs s) 3) = Some (Some ex_d2) /\
  deep_pristine 2 s 3.
Proof.
  vm_compute. repeat split; auto.
  intros _ n j [H|[]]. discriminate H.
Qed.

(* A duplicate name is an error; the leaf made before it was detected is
   unlinked; a retry fails the same way. *)
Example malformed_nonvacuous :
  let s := run ex_cas ex_blobs init ex_ops in
  expect ex_cas ex_d3 = None /\
  (let x := snd (step ex_cas ex_blobs s (OReadDir 2 true [])) in
   (o_status x, o_links x, o_ndirs x)) = (SIO, [(3, 0%Z)], 5) /\
  denote ex_cas ex_d1 = None.
Proof. vm_compute. auto. Qed.

Example cas_leaf_immutable_nonvacuous :
  let s := run ex_cas ex_blobs init ex_ops in
  map (fun o => (o_status (snd (step ex_cas ex_blobs s o)), o_obs (snd (step ex_cas ex_blobs s o))))
      [OOpenSelf 0 true true false; OSetAttr 0 ASize; OWrite 0; OAllocate 0; OOpenSelf 0 true false false]
  = [(SAccess, Some (ObsFile 3 true (Some "abc"))); (SAccess, Some (ObsFile 3 true (Some "abc")));
     (SPanic, Some (ObsFile 3 true (Some "abc"))); (SWrongType, Some (ObsFile 3 true (Some "abc")));
     (SOK, Some (ObsFile 3 true (Some "abc")))].
Proof. vm_compute. reflexivity. Qed.

(* The cache: a Tree whose digest equals a Directory's digest gets its own
   entry; a hit returns the stored object. *)
Example cache_nonvacuous :
  let st := mkStore [(("i", "aa", 5%Z), 1)] [(("i", "aa", 5%Z), (2, 9%Z))] in
  snd (crun st false 4 100%Z [] [CGetDir ("i", "aa", 5%Z); CGetRoot ("i", "aa", 5%Z);
                                 CGetDir ("j", "aa", 5%Z); CGetRoot ("i", "aa", 5%Z)])
  = [(CGetDir ("i", "aa", 5%Z), (Some 1, true)); (CGetRoot ("i", "aa", 5%Z), (Some 2, true));
     (CGetDir ("j", "aa", 5%Z), (Some 1, false)); (CGetRoot ("i", "aa", 5%Z), (Some 2, false))].
Proof. vm_compute. reflexivity. Qed.

(* hardlinkingFileFetcher, non-vacuity: maxFiles = 1; b.txt of blob 1 evicts
   blob 0; the executable variant of blob 0 is a different cache file; the
   re-fetch of blob 0 downloads again; a lost cache file is repaired. *)
Example hardlink_nonvacuous :
  map snd (htrace pkey pkey_eqb pkeyf (mkCfg [3; 4]%Z 1 100%Z) hinit
    [HGet 0 false 0 true; HGet 0 false 1 true; HGet 0 true 2 true; HGet 1 false 3 true;
     HGet 0 true 4 true; HLose 0 true; HGet 0 true 5 true]%N)
  = [HOGet (mkGO 0 1 (Some (0, false))) [((0, false), (0, false))];
     HOGet (mkGO 0 0 (Some (0, false))) [((0, false), (0, false))];
     HOGet (mkGO 0 1 (Some (0, true))) [((0, true), (0, true))];
     HOGet (mkGO 0 1 (Some (1, false))) [((1, false), (1, false))];
     HOGet (mkGO 0 1 (Some (0, true))) [((0, true), (0, true))];
     HONone [];
     HOGet (mkGO 0 1 (Some (0, true))) [((0, true), (0, true))]]%N.
Proof. vm_compute. reflexivity. Qed.

(* The executable bit has to be part of the key: with a key that forgets it,
   the model hands out the non-executable file for an executable request and
   the monitor reports it. *)
Example hardlink_needs_exec_in_key :
  let keyf := fun (d : N) (_ : bool) => d in
  map (fun ox => p_hstep N N.eqb keyf (fst ox) (snd ox))
      (htrace N N.eqb keyf (mkCfg [3]%Z 4 100%Z) hinit [HGet 0 false 0 true; HGet 0 true 1 true]%N)
  = [""; "C17:hl-wrong-file"].
Proof. vm_compute. reflexivity. Qed.
