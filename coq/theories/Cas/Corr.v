(* Correspondence evaluator for C17: the model against the implementation,
   and the property predicate P (Spec.p_step, the predicate proved of the
   model in Proofs) on the implementation's own trace.  A second kind of
   case covers cachingDirectoryFetcher (Cache.v). *)
From Coq Require Import NArith Ascii.
From VF Require Import Common.Verdict Cas.Model Cas.Spec Cas.Cache.
Open Scope string_scope.
Open Scope list_scope.

(* Compact notation of the case files for the hashes the generator uses: the
   32 lower-case hexadecimal digits of a number. *)
Definition hexdigit (n : N) : ascii :=
  ascii_of_N (if (n <? 10)%N then 48 + n else 87 + n)%N.

Fixpoint hex_n (k : nat) (n : N) (acc : string) : string :=
  match k with
  | O => acc
  | S k' => hex_n k' (N.div n 16) (String (hexdigit (N.modulo n 16)) acc)
  end.

Definition H32 (n : N) : string := hex_n 32 n "".
Definition DG (n : N) (sz : Z) : digest := (H32 n, sz).

Example H32_example : H32 53253 = "0000000000000000000000000000d005".
Proof. vm_compute. reflexivity. Qed.

(* What the harness's stateless handle allocator was given: the digest
   function enum and instance name the digest keys are made with, (leaf,
   token) for every leaf created through it, and the distinct identity
   byte strings, indexed by token. *)
Record idinfo := mkIds {
  id_fn : string; id_inst : string;
  id_idents : list (nat * N); id_tab : list (list N) }.

Inductive case :=
| mkCase (c : cas) (b : blobs) (ops : list op) (outs : list out) (ids : idinfo)
| mkCacheCase (st : cstore) (fmt : bool) (maxc : nat) (maxs : Z) (ops : list cop) (outs : list cout).

(* P: [p_step], then [p_ident] on what this step taught the monitor (the
   step index of an identity violation is the step at which the second leaf
   of the offending pair became known). *)
Fixpoint viol_from (c : cas) (b : blobs) (idents : list (nat * N)) (i : nat) (g : mon)
    (ops : list op) (outs : list out) : verdict :=
  match ops, outs with
  | o :: ops', x :: outs' =>
    let '(k, g') := p_step c b g o x in
    if String.eqb k "" then
      let k' := p_ident idents g g' in
      if String.eqb k' "" then viol_from c b idents (S i) g' ops' outs' else VViolation i k'
    else VViolation i k
  | [], [] => VOk
  | _, _ => VMismatch i "malformed case"
  end.

Fixpoint idents_eqb (a b : list (nat * N)) : bool :=
  match a, b with
  | [], [] => true
  | (l, t) :: a', (m, u) :: b' => Nat.eqb l m && N.eqb t u && idents_eqb a' b'
  | _, _ => false
  end.

(* The bytes the model says casFileID.WriteTo writes for each leaf, and the
   tokens, against what the allocator of the harness received. *)
Definition ident_mism (ids : idinfo) (i : nat) (s : state) : verdict :=
  let '(mi, mt) := model_idents (id_fn ids) (id_inst ids) s in
  if negb (list_eqb bytes_eqb mt (id_tab ids)) then VMismatch (pred i) "handle-identity-bytes"
  else if negb (idents_eqb mi (id_idents ids)) then VMismatch (pred i) "handle-identity-tokens"
  else VOk.

Fixpoint mism_from (c : cas) (b : blobs) (ids : idinfo) (i : nat) (s : state) (ops : list op) (outs : list out) : verdict :=
  match ops, outs with
  | o :: ops', x :: outs' =>
    let '(s', y) := step c b s o in
    let d := out_diff x y in
    if String.eqb d "" then mism_from c b ids (S i) s' ops' outs' else VMismatch i d
  | [], [] => ident_mism ids i s
  | _, _ => VOk
  end.

Fixpoint cviol_from (st : cstore) (fmt : bool) (i : nat) (ops : list cop) (outs : list cout) : verdict :=
  match ops, outs with
  | o :: ops', x :: outs' =>
    let k := cache_p_step st fmt o x in
    if String.eqb k "" then cviol_from st fmt (S i) ops' outs' else VViolation i k
  | [], [] => VOk
  | _, _ => VMismatch i "malformed case"
  end.

Fixpoint cmism_from (st : cstore) (fmt : bool) (maxc : nat) (maxs : Z) (i : nat) (s : cache)
    (ops : list cop) (outs : list cout) : verdict :=
  match ops, outs with
  | o :: ops', x :: outs' =>
    let '(s', y) := cstep st fmt maxc maxs s o in
    if cout_eqb x y then cmism_from st fmt maxc maxs (S i) s' ops' outs' else VMismatch i "cache-output"
  | _, _ => VOk
  end.

Definition check_case (k : case) : verdict :=
  match k with
  | mkCase c b ops outs ids =>
    vcombine (viol_from c b (id_idents ids) 0 mon_init ops outs) (mism_from c b ids 0 init ops outs)
  | mkCacheCase st fmt maxc maxs ops outs =>
    vcombine (cviol_from st fmt 0 ops outs) (cmism_from st fmt maxc maxs 0 [] ops outs)
  end.
