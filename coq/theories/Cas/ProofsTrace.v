(* C17 proofs, part 6c: the model satisfies P (Spec.p_step) on every history:
   trace_ok_all. *)
From VF Require Import Cas.Model Cas.Spec Cas.ProofsLeaf Cas.ProofsInv Cas.ProofsStep
  Cas.ProofsFaithful Cas.ProofsMon Cas.ProofsLeak.
From Coq Require Import Lia.
Open Scope string_scope.
Open Scope nat_scope.
Open Scope list_scope.

(* ---- small facts --------------------------------------------------------------- *)

Lemma digest_eqb_refl : forall d, digest_eqb d d = true.
Proof. intros [h z]. unfold digest_eqb. simpl. rewrite String.eqb_refl, Z.eqb_refl. reflexivity. Qed.

Lemma ldesc_eqb_refl : forall k, ldesc_eqb k k = true.
Proof.
  intros [d x|t|]; simpl; auto.
  - rewrite digest_eqb_refl. destruct x; reflexivity.
  - apply String.eqb_refl.
Qed.

Lemma opt_str_eqb_refl : forall o, opt_eqb String.eqb o o = true.
Proof. intros [x|]; simpl; auto. apply String.eqb_refl. Qed.

Lemma find_entry_Forall2 : forall A B (R : A -> B -> Prop) n (l : list (string * A)) (l' : list (string * B)),
  Forall2 (fun a b => fst a = fst b /\ R (snd a) (snd b)) l l' ->
  match find_entry n l, find_entry n l' with
  | None, None => True
  | Some x, Some y => R x y
  | _, _ => False
  end.
Proof.
  intros A B R n l l' H. induction H as [|[m x] [m' y] l l' [Hn HR] _ IH]; simpl; auto.
  simpl in Hn. subst m'. destruct (String.eqb m n); auto.
Qed.

(* sortedness: createChildren attaches in sorted order, so listing a never
   modified directory by name (ReadDir sorts) gives the attach order *)
Fixpoint sorted {A} (l : list (string * A)) : Prop :=
  match l with
  | [] => True
  | x :: r => match r with [] => True | y :: _ => String.leb (fst x) (fst y) = true end /\ sorted r
  end.

Lemma insert_sorted_sorted : forall A (x : string * A) l, sorted l -> sorted (insert_sorted x l).
Proof.
  induction l as [|y r IH]; intros Hs; simpl; auto.
  destruct (String.leb (fst x) (fst y)) eqn:E.
  - simpl. split; auto.
  - destruct Hs as [Hy Hr]. specialize (IH Hr).
    assert (Hyx : String.leb (fst y) (fst x) = true).
    { destruct (String.leb_total (fst x) (fst y)); congruence. }
    destruct r as [|z r']; simpl in *; auto.
    destruct (String.leb (fst x) (fst z)); simpl in *; split; auto.
Qed.

Lemma sort_children_sorted : forall A (l : list (string * A)), sorted (sort_children l).
Proof. induction l; simpl; auto. apply insert_sorted_sorted; auto. Qed.

Lemma sorted_sort_id : forall A (l : list (string * A)), sorted l -> sort_children l = l.
Proof.
  induction l as [|x r IH]; intros Hs; simpl; auto.
  destruct Hs as [Hx Hr]. rewrite (IH Hr). destruct r as [|y r']; simpl; auto. rewrite Hx. reflexivity.
Qed.

Lemma sorted_names : forall A B (l : list (string * A)) (l' : list (string * B)),
  Forall2 (fun a b => fst a = fst b) l l' -> sorted l -> sorted l'.
Proof.
  intros A B l l' H. induction H as [|a b l l' Hab HF IH]; intros Hs; simpl; auto.
  destruct Hs as [Ha Hr]. split; auto.
  destruct HF as [|a2 b2 l2 l2' Hab2 _]; auto. congruence.
Qed.

Section WithCas.
Variable c : cas.
Variable b : blobs.

(* ---- learning from a matched child ------------------------------------------------- *)

Lemma child_match : forall s lvs ic ch, child_ok s lvs ic ch -> match_child lvs ic (desc s ch) = true.
Proof.
  intros s lvs ic ch H. destruct ic as [d|k], ch as [j|l]; simpl in *; try contradiction; auto.
  destruct H as [lf [lk [H1 [H2 H3]]]]. rewrite H1, H2. simpl. subst lk. apply ldesc_eqb_refl.
Qed.

Lemma child_match_info : forall s lvs ic ch, child_ok s lvs ic ch -> match_info lvs ic (info s ch) = true.
Proof.
  intros s lvs ic ch H. destruct ic as [d|k], ch as [j|l]; simpl in *; try contradiction; auto.
  destruct H as [lf [lk [H1 [H2 H3]]]]. rewrite H1, H2. subst lk.
  destruct (l_kind lf) as [d x|t|]; simpl; auto. destruct x; reflexivity.
Qed.

Lemma mon_ok_learn : forall g s lvs ic ch,
  mon_ok g s -> child_ok s lvs ic ch -> mon_ok (learn lvs g ic (desc s ch)) s.
Proof.
  intros g s lvs ic ch HM H. destruct ic as [d|k], ch as [j|l]; simpl in *; try contradiction.
  - destruct H as [oj [Hj Hb]]. eapply mon_ok_learn_dir; eauto.
    intros Hnone. simpl. split; auto. destruct HM as [_ [_ M3]]. eapply M3; eauto.
  - destruct H as [lf [lk [H1 [H2 H3]]]]. rewrite H1, H2. simpl.
    eapply mon_ok_learn_leaf; eauto.
Qed.

Lemma entries_match_learn : forall s lvs chs es g,
  entries_ok s lvs chs es -> mon_ok g s ->
  match_entries (match_child lvs) chs (map (fun e => (fst e, desc s (snd e))) es) = true /\
  mon_ok (learn_entries lvs g chs (map (fun e => (fst e, desc s (snd e))) es)) s.
Proof.
  intros s lvs chs es g H. revert g. induction H as [|[n ic] [n' ch] chs es [Hn Hc] _ IH]; intros g HM.
  - simpl; auto.
  - cbn [map match_entries learn_entries fst snd] in *. subst n'.
    rewrite String.eqb_refl, (child_match _ _ _ _ Hc). cbn [andb].
    apply IH. apply mon_ok_learn; auto.
Qed.

Lemma entries_match_info : forall s lvs chs es,
  entries_ok s lvs chs es ->
  match_entries (match_info lvs) chs (map (fun e => (fst e, info s (snd e))) es) = true.
Proof.
  intros s lvs chs es H. induction H as [|[n ic] [n' ch] chs es [Hn Hc] _ IH].
  - simpl; auto.
  - cbn [map match_entries fst snd] in *. subst n'.
    rewrite String.eqb_refl, (child_match_info _ _ _ _ Hc). cbn [andb]. auto.
Qed.

Lemma entries_ok_names : forall s lvs chs es (f : child -> cdesc),
  entries_ok s lvs chs es -> Forall2 (fun a b => fst a = fst b) chs (map (fun e => (fst e, f (snd e))) es).
Proof.
  intros s lvs chs es f H. induction H as [|a b' chs es [Hn _] _ IH]; simpl; constructor; auto.
Qed.

Lemma expect_sorted : forall d chs lvs, expect c d = Some (chs, lvs) -> sorted chs.
Proof.
  intros d chs lvs H. unfold expect in H. destruct (cas_get c d) as [m|]; [|discriminate].
  destruct (validate m) as [[ch|] l]; inversion H; subst. apply sort_children_sorted.
Qed.

(* ---- forcing under the monitor ------------------------------------------------------ *)

Lemma mon_ok_force : forall g s i fs s1 lg r fs1,
  mon_ok g s -> force c s i fs = (s1, lg, r, fs1) -> mon_ok g s1.
Proof. intros. eapply mon_ok_keep; eauto. eapply step_rel_force; eauto. Qed.

(* A failed fetch of a directory the monitor knows as an unmodified copy of
   [d] is a fetch of [d] that is justified. *)
Lemma explore_err_justified : forall g s i fs s1 lg code fs1 d st ch es,
  Inv c s -> mon_ok g s -> force c s i fs = (s1, lg, Some code, fs1) ->
  aget i (mon_dirs g) = Some (GCas d) ->
  error_justified c (mk_out s s1 st ch es lg) = true.
Proof.
  intros g s i fs s1 lg code fs1 d st ch es HI [M1 _] H Hg.
  destruct (force_err c _ _ _ _ _ _ _ H) as [o [d0 [fr [lvs [E [El [Hf [-> _]]]]]]]].
  destruct (M1 _ _ Hg) as [o' [E' [Hb _]]]. rewrite E in E'. inversion E'; subst o'.
  destruct (HI _ _ E) as [HA _]. rewrite (HA _ El) in Hb. inversion Hb; subst d0.
  unfold error_justified. simpl. rewrite orb_false_r.
  destruct (fetch_err_inv c _ _ _ _ _ _ Hf) as [fr0 [Heq [_ [Hok _]]]]. inversion Heq; subst fr0.
  destruct fr; auto. rewrite (Hok eq_refl). reflexivity.
Qed.

Lemma empty_never_fails : forall g s i fs s1 lg code fs1,
  mon_ok g s -> force c s i fs = (s1, lg, Some code, fs1) -> aget i (mon_dirs g) <> Some GEmpty.
Proof.
  intros g s i fs s1 lg code fs1 [M1 _] H Hg.
  destruct (force_err c _ _ _ _ _ _ _ H) as [o [d0 [fr [lvs [E [El _]]]]]].
  destruct (M1 _ _ Hg) as [o' [E' [_ [_ Hl]]]]. rewrite E in E'. inversion E'; subst o'.
  apply (Hl d0). auto.
Qed.

(* After a successful force of a directory known as a copy of [d]. *)
Lemma forced_cas_entries : forall g s i fs s1 lg fs1 d,
  Inv c s -> mon_ok g s -> force c s i fs = (s1, lg, None, fs1) ->
  aget i (mon_dirs g) = Some (GCas d) ->
  exists chs lvs, expect c d = Some (chs, lvs) /\ entries_ok s1 lvs chs (entries_of s1 i).
Proof.
  intros g s i fs s1 lg fs1 d HI HM H Hg.
  pose proof (Inv_force c _ _ _ _ _ _ _ HI H) as HI1.
  destruct HM as [M1 _]. destruct (M1 _ _ Hg) as [o [E [Hb Hp]]].
  destruct (force_ok_self c _ _ _ _ _ _ _ H E) as [o1 [E1 [El1 [Hb1 [Hp1 _]]]]].
  unfold entries_of. rewrite E1.
  eapply (pristine_entries_exact c s1 HI1 i o1 d); eauto; congruence.
Qed.

Lemma forced_empty_entries : forall g s i fs s1 lg fs1,
  Inv c s -> mon_ok g s -> force c s i fs = (s1, lg, None, fs1) ->
  aget i (mon_dirs g) = Some GEmpty -> entries_of s1 i = [].
Proof.
  intros g s i fs s1 lg fs1 HI HM H Hg.
  pose proof (Inv_force c _ _ _ _ _ _ _ HI H) as HI1.
  destruct HM as [M1 _]. destruct (M1 _ _ Hg) as [o [E [Hb [Hp _]]]].
  destruct (force_ok_self c _ _ _ _ _ _ _ H E) as [o1 [E1 [El1 [Hb1 [Hp1 _]]]]].
  unfold entries_of. rewrite E1. destruct (HI1 _ _ E1) as [_ [_ HC]].
  rewrite Hp1, Hp in HC. specialize (HC eq_refl). rewrite El1, Hb1, Hb in HC. exact HC.
Qed.

Lemma valid_dir_lt : forall s i, valid_dir s i = true -> i < List.length (st_dirs s).
Proof. intros s i H. apply Nat.ltb_lt. exact H. Qed.

Lemma invalid_unknown : forall g s i, mon_ok g s -> valid_dir s i = false -> aget i (mon_dirs g) = None.
Proof.
  intros g s i HM Hv. destruct (aget i (mon_dirs g)) as [x|] eqn:E; auto.
  pose proof (mon_dirs_valid _ _ _ _ HM E) as Hlt. apply Nat.ltb_lt in Hlt.
  unfold valid_dir in Hv. congruence.
Qed.

(* ---- per operation ---------------------------------------------------------------------- *)

Definition op_ok (g : mon) (s : state) (o : op) : Prop :=
  fst (p_op c b g o (snd (step c b s o))) = "" /\
  mon_ok (snd (p_op c b g o (snd (step c b s o)))) (fst (step c b s o)).

Lemma lookup_ok : forall g s i n virt fs, Inv c s -> mon_ok g s -> op_ok g s (OLookup i n virt fs).
Proof.
  intros g s i n virt fs HI HM. unfold op_ok. cbn [step].
  destruct (valid_dir s i) eqn:Hv; cbn [negb].
  2:{ unfold skip. cbn [fst snd p_op]. rewrite (invalid_unknown _ _ _ HM Hv). split; auto. }
  destruct (force c s i fs) as [[[s1 lg] r] fs1] eqn:Ef.
  pose proof (mon_ok_force _ _ _ _ _ _ _ _ HM Ef) as HM1.
  destruct r as [code|].
  - cbn [fst snd p_op].
    destruct (aget i (mon_dirs g)) as [[d| |]|] eqn:Eg; try (split; [reflexivity|exact HM1]).
    + unfold p_explore. cbn [o_status mk_out].
      rewrite (explore_err_justified _ _ _ _ _ _ _ _ d _ _ _ HI HM Ef Eg).
      destruct virt; cbn [err_status]; split; auto.
    + exfalso. exact (empty_never_fails _ _ _ _ _ _ _ _ HM Ef Eg).
  - destruct (find_entry n (entries_of s1 i)) as [ch|] eqn:Efind; cbn [fst snd p_op];
    destruct (aget i (mon_dirs g)) as [[d| |]|] eqn:Eg; try (split; [reflexivity|exact HM1]).
    + destruct (forced_cas_entries _ _ _ _ _ _ _ d HI HM Ef Eg) as [chs [lvs [Hex Hes]]].
      unfold p_explore. cbn [o_status o_child mk_out]. rewrite Hex.
      pose proof (find_entry_Forall2 _ _ (child_ok s1 lvs) n chs (entries_of s1 i) Hes) as Hf.
      rewrite Efind in Hf. destruct (find_entry n chs) as [ic|]; [|contradiction].
      rewrite (child_match _ _ _ _ Hf). split; auto. apply mon_ok_learn; auto.
    + rewrite (forced_empty_entries _ _ _ _ _ _ _ HI HM Ef Eg) in Efind. discriminate.
    + destruct (forced_cas_entries _ _ _ _ _ _ _ d HI HM Ef Eg) as [chs [lvs [Hex Hes]]].
      unfold p_explore. cbn [o_status o_child mk_out]. rewrite Hex.
      pose proof (find_entry_Forall2 _ _ (child_ok s1 lvs) n chs (entries_of s1 i) Hes) as Hf.
      rewrite Efind in Hf. destruct (find_entry n chs) as [ic|]; [contradiction|]. split; auto.
Qed.

Lemma readdir_ok : forall g s i virt fs, Inv c s -> mon_ok g s -> op_ok g s (OReadDir i virt fs).
Proof.
  intros g s i virt fs HI HM. unfold op_ok. cbn [step].
  destruct (valid_dir s i) eqn:Hv; cbn [negb].
  2:{ unfold skip. cbn [fst snd p_op]. rewrite (invalid_unknown _ _ _ HM Hv). split; auto. }
  destruct (force c s i fs) as [[[s1 lg] r] fs1] eqn:Ef.
  pose proof (mon_ok_force _ _ _ _ _ _ _ _ HM Ef) as HM1.
  destruct r as [code|]; cbn [fst snd p_op].
  - destruct (aget i (mon_dirs g)) as [[d| |]|] eqn:Eg; try (split; [reflexivity|exact HM1]).
    + unfold p_explore. cbn [o_status mk_out].
      rewrite (explore_err_justified _ _ _ _ _ _ _ _ d _ _ _ HI HM Ef Eg).
      destruct virt; cbn [err_status]; split; auto.
    + exfalso. exact (empty_never_fails _ _ _ _ _ _ _ _ HM Ef Eg).
  - destruct (aget i (mon_dirs g)) as [[d| |]|] eqn:Eg; try (split; [reflexivity|exact HM1]).
    + destruct (forced_cas_entries _ _ _ _ _ _ _ d HI HM Ef Eg) as [chs [lvs [Hex Hes]]].
      unfold p_explore. cbn [o_status o_entries mk_out is_ok negb]. rewrite Hex.
      destruct virt.
      * destruct (entries_match_learn _ _ _ _ g Hes HM1) as [Hm Hl]. rewrite Hm. split; auto.
      * rewrite sorted_sort_id.
        -- rewrite (entries_match_info _ _ _ _ Hes). split; auto.
        -- eapply sorted_names; [eapply entries_ok_names; eauto|]. eapply expect_sorted; eauto.
    + rewrite (forced_empty_entries _ _ _ _ _ _ _ HI HM Ef Eg). cbn [o_status o_entries mk_out].
      destruct virt; simpl; split; auto.
Qed.


(* ---- local modifications -------------------------------------------------------------- *)

Lemma modify_other : forall s i f j, j <> i ->
  nth_error (st_dirs (modify s i f)) j = nth_error (st_dirs s) j.
Proof.
  intros s i f j Hne. unfold modify. destruct (nth_error (st_dirs s) i); auto.
  simpl. apply nth_set_nth_neq. auto.
Qed.

Lemma new_dir_lookup : forall s1 i f o, i < List.length (st_dirs s1) ->
  nth_error (st_dirs (modify (mkState (st_dirs s1 ++ [o]) (st_leaves s1)) i f)) (List.length (st_dirs s1)) = Some o.
Proof.
  intros s1 i f o Hi. rewrite modify_other; [|lia]. simpl.
  rewrite nth_error_app2; [|lia]. rewrite Nat.sub_diag. reflexivity.
Qed.

Lemma force_dirs_len : forall s i fs s1 lg r fs1, force c s i fs = (s1, lg, r, fs1) ->
  List.length (st_dirs s) <= List.length (st_dirs s1).
Proof. intros. apply ext_len_dirs. eapply force_ext; eauto. Qed.

Ltac notok HM1 := cbn [fst snd p_op is_ok o_status o_child mk_out andb]; split; [reflexivity|exact HM1].

Lemma mkdir_ok : forall g s i n fs, Inv c s -> mon_ok g s -> op_ok g s (OMkdir i n fs).
Proof.
  intros g s i n fs HI HM. unfold op_ok. cbn [step].
  destruct (valid_dir s i) eqn:Hv; cbn [negb]; [|unfold skip; notok HM].
  destruct (force c s i fs) as [[[s1 lg] r] fs1] eqn:Ef.
  pose proof (mon_ok_force _ _ _ _ _ _ _ _ HM Ef) as HM1.
  pose proof (force_dirs_len _ _ _ _ _ _ _ Ef) as Hlen. pose proof (valid_dir_lt _ _ Hv) as Hi.
  destruct r as [code|]; [notok HM1|].
  destruct (deleted_of s1 i); [notok HM1|].
  destruct (mem_name n (entries_of s1 i)); [notok HM1|].
  cbn [fst snd p_op is_ok o_status o_child mk_out]. split; [reflexivity|].
  eapply mon_ok_learn_dir.
  - eapply (mon_ok_mod1 g s); eauto.
    eapply step_rel_trans; [eapply step_rel_force; eauto|].
    eapply step_rel_trans; [apply (step_rel_add_dir _ _ new_local_dir); reflexivity|apply step_rel_modify].
  - apply new_dir_lookup. lia.
  - intros _. simpl. repeat split; auto. discriminate.
Qed.

Lemma attach_ok : forall g s i n d fs, Inv c s -> mon_ok g s -> op_ok g s (OAttach i n d fs).
Proof.
  intros g s i n d fs HI HM. unfold op_ok. cbn [step].
  destruct (valid_dir s i) eqn:Hv; cbn [negb]; [|unfold skip; notok HM].
  destruct (force c s i fs) as [[[s1 lg] r] fs1] eqn:Ef.
  pose proof (mon_ok_force _ _ _ _ _ _ _ _ HM Ef) as HM1.
  pose proof (force_dirs_len _ _ _ _ _ _ _ Ef) as Hlen. pose proof (valid_dir_lt _ _ Hv) as Hi.
  destruct r as [code|]; [notok HM1|].
  destruct (deleted_of s1 i); [notok HM1|].
  destruct (mem_name n (entries_of s1 i)); [notok HM1|].
  cbn [fst snd p_op is_ok o_status o_child mk_out]. split; [reflexivity|].
  eapply mon_ok_learn_dir.
  - eapply (mon_ok_mod1 g s); eauto.
    eapply step_rel_trans; [eapply step_rel_force; eauto|].
    eapply step_rel_trans; [apply (step_rel_add_dir _ _ (new_cas_dir d)); reflexivity|apply step_rel_modify].
  - apply new_dir_lookup. lia.
  - intros _. simpl. split; auto.
Qed.

Lemma link_ok : forall g s i n l fs, Inv c s -> mon_ok g s -> op_ok g s (OLink i n l fs).
Proof.
  intros g s i n l fs HI HM. unfold op_ok. cbn [step].
  destruct (valid_dir s i && valid_leaf s l) eqn:Hv; cbn [negb]; [|unfold skip; notok HM].
  apply andb_prop in Hv. destruct Hv as [Hv _].
  destruct (force c s i fs) as [[[s1 lg] r] fs1] eqn:Ef.
  pose proof (mon_ok_force _ _ _ _ _ _ _ _ HM Ef) as HM1. pose proof (valid_dir_lt _ _ Hv) as Hi.
  destruct r as [code|]; [notok HM1|].
  destruct (deleted_of s1 i); [notok HM1|].
  destruct (mem_name n (entries_of s1 i)); [notok HM1|].
  cbn [fst snd p_op is_ok o_status o_child mk_out]. split; [reflexivity|].
  eapply (mon_ok_mod1 g s); eauto.
  eapply step_rel_trans; [eapply step_rel_force; eauto|].
  eapply step_rel_trans; [apply step_rel_add_link|apply step_rel_modify].
Qed.

Lemma remove_ok : forall g s i n rmdir rmleaf virt fs, Inv c s -> mon_ok g s ->
  op_ok g s (ORemove i n rmdir rmleaf virt fs).
Proof.
  intros g s i n rmdir rmleaf virt fs HI HM. unfold op_ok. cbn [step].
  destruct (valid_dir s i) eqn:Hv; cbn [negb]; [|unfold skip; notok HM].
  destruct (force c s i fs) as [[[s1 lg] r] fs1] eqn:Ef.
  pose proof (mon_ok_force _ _ _ _ _ _ _ _ HM Ef) as HM1. pose proof (valid_dir_lt _ _ Hv) as Hi.
  destruct r as [code|]; [destruct virt; notok HM1|].
  destruct (find_entry n (entries_of s1 i)) as [[j|l]|]; [| |notok HM1].
  - destruct (negb rmdir); [notok HM1|].
    destruct (force c s1 j fs1) as [[[s2 lg2] r2] fs2] eqn:Ef2.
    pose proof (mon_ok_force _ _ _ _ _ _ _ _ HM1 Ef2) as HM2.
    destruct r2 as [code|]; [destruct virt; notok HM2|].
    destruct (entries_of s2 j); [|notok HM2].
    cbn [fst snd p_op is_ok o_status o_child mk_out]. split; [reflexivity|].
    eapply (mon_ok_mod1 g s); eauto.
    eapply step_rel_trans; [eapply step_rel_force; eauto|].
    eapply step_rel_trans; [eapply step_rel_force; eauto|].
    eapply step_rel_trans; [apply step_rel_mark_deleted|apply step_rel_modify].
  - destruct (negb rmleaf); [notok HM1|].
    cbn [fst snd p_op is_ok o_status o_child mk_out]. split; [reflexivity|].
    eapply (mon_ok_mod1 g s); eauto.
    eapply step_rel_trans; [eapply step_rel_force; eauto|].
    eapply step_rel_trans; [apply step_rel_add_link|apply step_rel_modify].
Qed.

Definition either (i j : nat) : nat -> Prop := fun x => x = i \/ x = j.

Lemma step_rel_modify_l : forall s i j f, step_rel (either i j) s (modify s i f).
Proof. intros. eapply step_rel_weaken; [|apply step_rel_modify]. intros x <-. left; auto. Qed.

Lemma step_rel_modify_r : forall s i j f, step_rel (either i j) s (modify s j f).
Proof. intros. eapply step_rel_weaken; [|apply step_rel_modify]. intros x <-. right; auto. Qed.

Lemma rename_ok : forall g s i n j n2 fs, Inv c s -> mon_ok g s -> op_ok g s (ORename i n j n2 fs).
Proof.
  intros g s i n j n2 fs HI HM. unfold op_ok. cbn [step].
  destruct (valid_dir s i && valid_dir s j) eqn:Hv; cbn [negb]; [|unfold skip; notok HM].
  apply andb_prop in Hv. destruct Hv as [Hvi Hvj].
  pose proof (valid_dir_lt _ _ Hvi) as Hi. pose proof (valid_dir_lt _ _ Hvj) as Hj.
  destruct (force c s i fs) as [[[s1 lg] r] fs1] eqn:Ef.
  pose proof (mon_ok_force _ _ _ _ _ _ _ _ HM Ef) as HM1.
  destruct r as [code|]; [notok HM1|].
  destruct (force c s1 j fs1) as [[[s2 lg2] r2] fs2] eqn:Ef2.
  pose proof (mon_ok_force _ _ _ _ _ _ _ _ HM1 Ef2) as HM2.
  destruct r2 as [code|]; [notok HM2|].
  assert (HR2 : step_rel (either i j) s s2).
  { eapply step_rel_trans; eapply step_rel_force; eauto. }
  destruct (find_entry n2 (entries_of s2 j)) as [newch|].
  - destruct (find_entry n (entries_of s2 i)) as [oldch|]; [|notok HM2].
    destruct newch as [nd|nl], oldch as [od|ol]; try (notok HM2).
    + destruct (nd =? od).
      * cbn [fst snd p_op is_ok o_status o_child mk_out]. split; [reflexivity|].
        eapply (mon_ok_mod2 g s); eauto.
      * destruct (force c s2 nd fs2) as [[[s3 lg3] r3] fs3] eqn:Ef3.
        pose proof (mon_ok_force _ _ _ _ _ _ _ _ HM2 Ef3) as HM3.
        destruct r3 as [code|]; [notok HM3|].
        destruct (entries_of s3 nd); [|notok HM3].
        cbn [fst snd p_op is_ok o_status o_child mk_out]. split; [reflexivity|].
        eapply (mon_ok_mod2 g s); eauto.
        eapply step_rel_trans; [exact HR2|].
        eapply step_rel_trans; [eapply step_rel_force; eauto|].
        eapply step_rel_trans; [apply step_rel_modify_l|].
        eapply step_rel_trans; [apply step_rel_modify_r|].
        eapply step_rel_trans; [apply step_rel_mark_deleted|apply step_rel_modify_r].
    + destruct (nl =? ol).
      * cbn [fst snd p_op is_ok o_status o_child mk_out]. split; [reflexivity|].
        eapply (mon_ok_mod2 g s); eauto.
      * cbn [fst snd p_op is_ok o_status o_child mk_out]. split; [reflexivity|].
        eapply (mon_ok_mod2 g s); eauto.
        eapply step_rel_trans; [exact HR2|].
        eapply step_rel_trans; [apply step_rel_modify_l|].
        eapply step_rel_trans; [apply step_rel_modify_r|].
        eapply step_rel_trans; [apply step_rel_add_link|apply step_rel_modify_r].
  - destruct (deleted_of s2 j); [notok HM2|].
    destruct (find_entry n (entries_of s2 i)); [|notok HM2].
    cbn [fst snd p_op is_ok o_status o_child mk_out]. split; [reflexivity|].
    eapply (mon_ok_mod2 g s); eauto.
    eapply step_rel_trans; [exact HR2|].
    eapply step_rel_trans; [apply step_rel_modify_l|apply step_rel_modify_r].
Qed.


(* ---- VirtualOpenChild ---------------------------------------------------------------------- *)

Lemma open_ok : forall g s i n rd wr trunc existing create fs, Inv c s -> mon_ok g s ->
  op_ok g s (OOpen i n rd wr trunc existing create fs).
Proof.
  intros g s i n rd wr trunc existing create fs HI HM. unfold op_ok. cbn [step].
  destruct (valid_dir s i) eqn:Hv; cbn [negb]; [|unfold skip; notok HM].
  destruct (force c s i fs) as [[[s1 lg] r] fs1] eqn:Ef.
  pose proof (mon_ok_force _ _ _ _ _ _ _ _ HM Ef) as HM1. pose proof (valid_dir_lt _ _ Hv) as Hi.
  assert (HR1 : step_rel (eq i) s s1) by (eapply step_rel_force; eauto).
  destruct r as [code|]; [notok HM1|].
  destruct (find_entry n (entries_of s1 i)) as [ch|].
  - destruct (negb existing); [notok HM1|]. destruct ch as [j|l]; [notok HM1|].
    destruct (nth_error (st_leaves s1) l) as [lf|] eqn:El; [|notok HM1].
    cbn [fst snd p_op o_status o_child mk_out desc]. rewrite El.
    assert (HMg : mon_ok (if is_ok (open_self (l_kind lf) rd wr trunc) && create
                          then set_dir_origin g i GMod else g) s1).
    { destruct (is_ok (open_self (l_kind lf) rd wr trunc) && create); auto.
      eapply (mon_ok_mod1 g s); eauto. }
    destruct (aget l (mon_leaves g)) as [[d0 x0|t0|]|] eqn:Eg; try (split; [reflexivity|exact HMg]).
    destruct HM1 as [_ [M2 _]]. destruct (M2 _ _ Eg) as [lf' [El' Hk]].
    rewrite El in El'. inversion El'; subst lf'. rewrite Hk in *. cbn [open_self] in *.
    destruct (wr || trunc); cbn [is_ok andb] in *; split; auto.
  - destruct (deleted_of s1 i || negb create) eqn:Hc; [notok HM1|].
    apply orb_false_elim in Hc. destruct Hc as [_ Hc]. apply negb_false_iff in Hc. subst create.
    cbn [fst snd p_op is_ok o_status o_child mk_out andb].
    assert (HMg : mon_ok (set_dir_origin g i GMod)
              (modify {| st_dirs := st_dirs s1; st_leaves := st_leaves s1 ++ [{| l_kind := KLocal; l_nlink := 1 |}] |}
                 i (fun es => es ++ [(n, CLeaf (List.length (st_leaves s1)))]))).
    { eapply (mon_ok_mod1 g s); eauto.
      eapply step_rel_trans; [exact HR1|].
      eapply step_rel_trans; [apply step_rel_add_leaf|apply step_rel_modify]. }
    destruct (aget (List.length (st_leaves s1)) (mon_leaves g)) as [[d0 x0|t0|]|] eqn:Eg; try (split; [reflexivity|exact HMg]).
    exfalso. destruct HM1 as [_ [M2 _]]. destruct (M2 _ _ Eg) as [lf' [El' _]].
    assert (List.length (st_leaves s1) < List.length (st_leaves s1)) by (apply nth_error_Some; congruence). lia.
Qed.

(* ---- MergeDirectoryContents ------------------------------------------------------------------ *)

Lemma create_children_self : forall s i ch base merged o,
  nth_error (st_dirs s) i = Some o ->
  exists es, nth_error (st_dirs (create_children s i ch base merged)) i =
    Some (mkDir (d_lazy o) (d_entries o ++ es) (d_deleted o)
                (match merged with Some d => Some d | None => d_born o end)
                (match merged with Some _ => true | None => false end)).
Proof.
  intros s i ch base merged o E. unfold create_children. rewrite E.
  destruct (attach_children (st_dirs s) base (sort_children ch)) as [ds' es] eqn:Ea.
  destruct (attach_children_spec _ _ _ _ _ Ea) as [[news [-> _]] _].
  exists es. simpl. apply nth_set_nth_eq. rewrite app_length.
  assert (i < List.length (st_dirs s)) by (apply nth_error_Some; congruence). lia.
Qed.

Lemma merge_ok : forall g s i d fs, Inv c s -> mon_ok g s -> op_ok g s (OMerge i d fs).
Proof.
  intros g s i d fs HI HM. unfold op_ok. cbn [step].
  destruct (valid_dir s i) eqn:Hv; cbn [negb]; [|unfold skip; notok HM].
  pose proof (valid_dir_lt _ _ Hv) as Hi.
  destruct (fetch c d fs) as [[[r0 lvs] lg0] fs0] eqn:Ef0. destruct r0 as [code|ch].
  - cbn [fst snd p_op is_ok o_status o_child mk_out andb]. split; [reflexivity|].
    eapply mon_ok_keep; eauto. apply step_rel_add_leaves.
  - set (s1 := {| st_dirs := st_dirs s; st_leaves := add_leaves (st_leaves s) lvs 1 |}).
    assert (HR1 : step_rel (eq i) s s1) by apply step_rel_add_leaves.
    assert (HI1 : Inv c s1) by (apply Inv_add_leaves; auto).
    assert (HM1 : mon_ok g s1) by (eapply mon_ok_keep; eauto; apply step_rel_add_leaves).
    destruct (force c s1 i fs0) as [[[s2 lg2] r2] fs2] eqn:Ef.
    pose proof (mon_ok_force _ _ _ _ _ _ _ _ HM1 Ef) as HM2.
    destruct r2 as [code|]; [notok HM2|].
    destruct (deleted_of s2 i); [notok HM2|].
    destruct (existsb _ ch); [notok HM2|].
    cbn [fst snd p_op is_ok o_status o_child mk_out].
    destruct (fetch_ok_inv c _ _ _ _ _ _ Ef0) as [m0 [Hm0 [Hv0 _]]].
    rewrite (expect_of_fetch c _ _ _ _ Hm0 Hv0).
    assert (HR3 : forall m, step_rel (eq i) s (create_children s2 i ch (List.length (st_leaves s)) m)).
    { intros m. eapply step_rel_trans; [exact HR1|].
      eapply step_rel_trans; [eapply step_rel_force; eauto|apply step_rel_create_children]. }
    destruct (aget i (mon_dirs g)) as [[d0| |]|] eqn:Eg;
      try (split; [reflexivity|eapply (mon_ok_mod1 g s); eauto]).
    split; [reflexivity|].
    (* the monitor knew [i] as a never modified empty local directory *)
    destruct HM1 as [M1 M23]. destruct (M1 _ _ Eg) as [o1 [E1 [Hb1 [Hp1 Hl1]]]].
    destruct (force_ok_self c _ _ _ _ _ _ _ Ef E1) as [o2 [E2 [El2 [Hb2 [Hp2 _]]]]].
    assert (Hes : d_entries o2 = []).
    { pose proof (forced_empty_entries g s1 i fs0 s2 lg2 fs2 HI1 (conj M1 M23) Ef Eg) as H.
      unfold entries_of in H. rewrite E2 in H. exact H. }
    rewrite E2, Hp2, Hp1, Hb2, Hb1, Hes. cbn [andb fst snd].
    apply (mon_ok_after (eq i) g _ s _ HM (HR3 (Some d))); [| |intros l k H; left; auto].
    + intros j x H. cbn [aget mon_dirs set_dir_origin] in H. destruct (i =? j) eqn:E.
      * apply Nat.eqb_eq in E. subst j. inversion H; subst x. right.
        destruct (create_children_self s2 i ch (List.length (st_leaves s)) (Some d) o2 E2) as [es Hn].
        eexists. split; [exact Hn|]. simpl. auto.
      * left. apply Nat.eqb_neq in E. split; auto.
    + intros j H. cbn [aget mon_dirs set_dir_origin] in H. destruct (i =? j) eqn:E; [discriminate|].
      apply Nat.eqb_neq in E. split; auto.
Qed.

(* ---- leaves ------------------------------------------------------------------------------------ *)

Lemma leaf_unknown : forall g s l, mon_ok g s -> nth_error (st_leaves s) l = None -> aget l (mon_leaves g) = None.
Proof.
  intros g s l [_ [M2 _]] H. destruct (aget l (mon_leaves g)) as [k|] eqn:E; auto.
  destruct (M2 _ _ E) as [lf [Hl _]]. congruence.
Qed.

Lemma leaf_p_ok : forall g s l lf mutation st, mon_ok g s -> nth_error (st_leaves s) l = Some lf ->
  (forall d x, l_kind lf = KCas d x -> mutation && is_ok st = false) ->
  p_leaf b g l mutation (leaf_out b s l st) = "".
Proof.
  intros g s l lf mutation st [_ [M2 _]] Hl Hmut. unfold p_leaf.
  destruct (aget l (mon_leaves g)) as [[d x|t|]|] eqn:E; auto.
  - destruct (M2 _ _ E) as [lf' [Hl' Hk]]. rewrite Hl in Hl'. inversion Hl'; subst lf'.
    cbn [o_status o_obs leaf_out]. rewrite (Hmut _ _ Hk).
    rewrite (observe_kind b s l lf Hl), Hk. cbn [obs_of_kind].
    rewrite Z.eqb_refl, Bool.eqb_reflx, opt_str_eqb_refl. reflexivity.
  - destruct (M2 _ _ E) as [lf' [Hl' Hk]]. rewrite Hl in Hl'. inversion Hl'; subst lf'.
    cbn [o_obs leaf_out]. rewrite (observe_kind b s l lf Hl), Hk. cbn [obs_of_kind].
    rewrite String.eqb_refl. reflexivity.
Qed.

Lemma leaf_skip_ok : forall g s l mutation, mon_ok g s -> nth_error (st_leaves s) l = None ->
  p_leaf b g l mutation (snd (skip s)) = "".
Proof. intros. unfold p_leaf. rewrite (leaf_unknown _ _ _ H H0). reflexivity. Qed.

Lemma leafops_ok : forall g s o, mon_ok g s ->
  match o with
  | OOpenSelf _ _ _ _ | OSetAttr _ _ | OWrite _ | OAllocate _ | ORead _ => op_ok g s o
  | _ => True
  end.
Proof.
  intros g s o HM. destruct o; auto; unfold op_ok; cbn [step];
    destruct (nth_error (st_leaves s) l) as [lf|] eqn:El; cbn [fst snd p_op];
    try (split; [apply leaf_skip_ok; auto|exact HM]);
    (split; [|exact HM]); eapply leaf_p_ok; eauto; intros d x Hk; rewrite Hk; cbn [open_self];
    try reflexivity; try (destruct (wr || trunc); reflexivity); try (destruct a; reflexivity).
Qed.

(* ---- all operations, all histories ---------------------------------------------------------------- *)

Lemma p_op_ok : forall g s o, Inv c s -> mon_ok g s -> op_ok g s o.
Proof.
  intros g s o HI HM. destruct o.
  - apply merge_ok; auto.
  - apply attach_ok; auto.
  - apply lookup_ok; auto.
  - apply readdir_ok; auto.
  - apply open_ok; auto.
  - apply mkdir_ok; auto.
  - apply remove_ok; auto.
  - apply rename_ok; auto.
  - apply link_ok; auto.
  - apply (leafops_ok g s (OOpenSelf l rd wr trunc) HM).
  - apply (leafops_ok g s (OSetAttr l a) HM).
  - apply (leafops_ok g s (OWrite l) HM).
  - apply (leafops_ok g s (OAllocate l) HM).
  - apply (leafops_ok g s (ORead l) HM).
Qed.

Lemma p_step_ok : forall g s o, Inv c s -> mon_ok g s ->
  fst (p_step c b g o (snd (step c b s o))) = "" /\
  mon_ok (snd (p_step c b g o (snd (step c b s o)))) (fst (step c b s o)).
Proof.
  intros g s o HI HM. unfold p_step.
  rewrite cas_ok_step, leak_ok_step. cbn [negb]. apply p_op_ok; auto.
Qed.

Lemma trace_ok_from_all : forall ops g s, Inv c s -> mon_ok g s ->
  trace_ok_from c b g (trace c b s ops) = true.
Proof.
  induction ops as [|o r IH]; intros g s HI HM; simpl; auto.
  destruct (step c b s o) as [s' x] eqn:Es. simpl.
  pose proof (p_step_ok g s o HI HM) as [Hk HM'].
  pose proof (Inv_step c b s o HI) as HI'.
  rewrite Es in *. simpl in *.
  destruct (p_step c b g o x) as [k g'] eqn:Ep. simpl in *. subst k. simpl.
  apply IH; auto.
Qed.

Lemma trace_ok_all : forall ops, trace_ok c b (trace c b init ops) = true.
Proof. intros. apply trace_ok_from_all; [apply Inv_init|apply mon_ok_init]. Qed.

End WithCas.
