(* C17 proofs, part 4: root_faithful (what an unmodified directory shows is
   the denotation of its digest), idempotent exploration, malformed
   Directories are errors, fetch errors are retried. *)
From VF Require Import Cas.Model Cas.Spec Cas.ProofsLeaf Cas.ProofsInv Cas.ProofsStep.
From Coq Require Import Lia.
Open Scope string_scope.
Open Scope nat_scope.
Open Scope list_scope.

Section WithCas.
Variable c : cas.
Variable b : blobs.

(* A directory object and everything below it, to depth k, was never
   locally modified. *)
Fixpoint deep_pristine (k : nat) (s : state) (i : nat) : Prop :=
  match k with
  | O => True
  | S k' =>
    match nth_error (st_dirs s) i with
    | None => False
    | Some o =>
      d_pristine o = true /\
      (d_lazy o = LNone -> forall n j, In (n, CDir j) (d_entries o) -> deep_pristine k' s j)
    end
  end.

Lemma map_opt_Forall2 : forall A B C (f : A -> option C) (g : B -> option C) l l',
  Forall2 (fun a b => f a = g b) l l' -> map_opt f l = map_opt g l'.
Proof.
  intros A B C f g l l' H. induction H as [|a b' l l' Hab _ IH]; simpl; auto.
  rewrite Hab, IH. reflexivity.
Qed.

Lemma Forall2_imp_in2 : forall A B (P Q : A -> B -> Prop) l l',
  (forall a b, In b l' -> P a b -> Q a b) -> Forall2 P l l' -> Forall2 Q l l'.
Proof.
  intros A B P Q l l' H HF. induction HF; constructor.
  - apply H; simpl; auto.
  - apply IHHF. intros a b0 Hin. apply H. simpl; auto.
Qed.

Lemma reveal_denote : forall k s, Inv c s -> forall i o d,
  nth_error (st_dirs s) i = Some o -> d_born o = Some d -> deep_pristine k s i ->
  reveal k c s i = denote_f k c d.
Proof.
  induction k as [|k IH]; intros s HI i o d E Hb Hdp; [reflexivity|].
  simpl in Hdp. rewrite E in Hdp. destruct Hdp as [Hp Hdeep].
  destruct (HI _ _ E) as [HA [HB HC]]. specialize (HC Hp).
  cbn [reveal]. rewrite E. destruct (d_lazy o) eqn:El.
  - (* fetched *)
    rewrite Hb in HC. destruct HC as [chs [lvs [Hex Hes]]].
    cbn [denote_f]. unfold expect in Hex.
    destruct (cas_get c d) as [m|]; [|discriminate].
    destruct (validate m) as [[ch|] lvs0]; [|discriminate]. inversion Hex; subst chs lvs0. clear Hex.
    f_equal. symmetry. apply map_opt_Forall2.
    specialize (Hdeep eq_refl).
    eapply Forall2_imp_in2; [|exact Hes].
    intros [n ic] [n' chd] Hin [Hn Hc]. simpl in *. subst n'.
    destruct ic as [d'|kk], chd as [j|l]; simpl in Hc; try contradiction.
    + destruct Hc as [oj [Ej Hbj]]. f_equal. symmetry.
      eapply IH; eauto.
    + destruct Hc as [lf [lk [H1 [H2 H3]]]]. rewrite H1, H2. subst lk. reflexivity.
  - rewrite (HB eq_refl) in Hb. discriminate.
  - rewrite (HA _ eq_refl) in Hb. inversion Hb; subst. reflexivity.
Qed.

(* One level, without any assumption on what is below: the entries of a
   never modified, fetched directory are exactly the validated children
   of its Directory message, in sorted order. *)
Lemma pristine_entries_exact : forall s, Inv c s -> forall i o d,
  nth_error (st_dirs s) i = Some o -> d_pristine o = true -> d_born o = Some d -> d_lazy o = LNone ->
  exists chs lvs, expect c d = Some (chs, lvs) /\ entries_ok s lvs chs (d_entries o).
Proof.
  intros s HI i o d E Hp Hb El. destruct (HI _ _ E) as [_ [_ HC]]. specialize (HC Hp).
  rewrite El, Hb in HC. exact HC.
Qed.

(* ---- exploration is idempotent ------------------------------------------------- *)

Lemma force_fetched : forall s i o fs,
  nth_error (st_dirs s) i = Some o -> d_lazy o = LNone -> force c s i fs = (s, [], None, fs).
Proof. intros s i o fs E El. unfold force. rewrite E, El. reflexivity. Qed.

Lemma force_twice : forall s i fs s1 lg fs1 fs',
  force c s i fs = (s1, lg, None, fs1) -> i < List.length (st_dirs s) ->
  force c s1 i fs' = (s1, [], None, fs').
Proof.
  intros s i fs s1 lg fs1 fs' H Hi.
  destruct (nth_error (st_dirs s) i) as [o|] eqn:E; [|apply nth_error_None in E; lia].
  destruct (force_ok_self c _ _ _ _ _ _ _ H E) as [o1 [E1 [El1 _]]].
  eapply force_fetched; eauto.
Qed.

Lemma explore_fetched : forall s i o, nth_error (st_dirs s) i = Some o -> d_lazy o = LNone ->
  forall n virt fs,
    fst (step c b s (OLookup i n virt fs)) = s /\ o_fetches (snd (step c b s (OLookup i n virt fs))) = [] /\
    fst (step c b s (OReadDir i virt fs)) = s /\ o_fetches (snd (step c b s (OReadDir i virt fs))) = [].
Proof.
  intros s i o E El n virt fs.
  assert (Hv : valid_dir s i = true).
  { unfold valid_dir. apply Nat.ltb_lt. apply nth_error_Some. congruence. }
  simpl. rewrite Hv. simpl. rewrite (force_fetched _ _ _ fs E El).
  destruct (find_entry n (entries_of s i)); simpl; auto.
Qed.

(* ---- malformed or missing Directories ------------------------------------------ *)

Lemma fetch_log : forall d fs, exists fr, snd (fst (fetch c d fs)) = (d, fr).
Proof.
  intros d fs. unfold fetch.
  assert (G : exists fr, snd (fst match cas_get c d with
              | None => (FetErr 5, @nil leafkind, (d, FMissing), tl fs)
              | Some m => match validate m with
                          | (None, lvs) => (FetErr 3, lvs, (d, FOk), tl fs)
                          | (Some ch, lvs) => (FetOk ch, lvs, (d, FOk), tl fs)
                          end
              end) = (d, fr)).
  { destruct (cas_get c d) as [m|]; [|simpl; eauto]. destruct (validate m) as [[ch|] lvs]; simpl; eauto. }
  destruct fs as [|[|] fs0]; auto. simpl. eauto.
Qed.

Lemma fetch_malformed : forall d fs, expect c d = None ->
  exists code lvs fr fs', fetch c d fs = (FetErr code, lvs, (d, fr), fs').
Proof.
  intros d fs He. unfold fetch, expect in *.
  assert (G : exists code lvs fr fs', match cas_get c d with
              | None => (FetErr 5, @nil leafkind, (d, FMissing), tl fs)
              | Some m => match validate m with
                          | (None, lvs) => (FetErr 3, lvs, (d, FOk), tl fs)
                          | (Some ch, lvs) => (FetOk ch, lvs, (d, FOk), tl fs)
                          end
              end = (FetErr code, lvs, (d, fr), fs')).
  { destruct (cas_get c d) as [m|]; [|eauto 10].
    destruct (validate m) as [[ch|] lvs]; [discriminate|eauto 10]. }
  destruct fs as [|[|] fs0]; auto. eauto 10.
Qed.

(* Forcing a directory whose Directory message is missing or malformed
   always fails: no directory object changes (it stays lazy), and the
   leaves created before the error are appended with link count 0. *)
Lemma force_malformed : forall s i o d fs,
  nth_error (st_dirs s) i = Some o -> d_lazy o = LCas d -> expect c d = None ->
  exists lvs lg code fs1,
    force c s i fs = (mkState (st_dirs s) (add_leaves (st_leaves s) lvs 0), lg, Some code, fs1).
Proof.
  intros s i o d fs E El He. unfold force. rewrite E, El.
  destruct (fetch_malformed d fs He) as [code [lvs [fr [fs' Hf]]]]. rewrite Hf. eauto 10.
Qed.

Lemma explore_malformed : forall s i o d n virt fs,
  nth_error (st_dirs s) i = Some o -> d_lazy o = LCas d -> expect c d = None ->
  (exists code, o_status (snd (step c b s (OLookup i n virt fs))) = err_status virt code) /\
  (exists code, o_status (snd (step c b s (OReadDir i virt fs))) = err_status virt code) /\
  st_dirs (fst (step c b s (OLookup i n virt fs))) = st_dirs s /\
  st_dirs (fst (step c b s (OReadDir i virt fs))) = st_dirs s.
Proof.
  intros s i o d n virt fs E El He.
  assert (Hv : valid_dir s i = true).
  { unfold valid_dir. apply Nat.ltb_lt. apply nth_error_Some. congruence. }
  destruct (force_malformed s i o d fs E El He) as [lvs [lg [code [fs1 Hf]]]].
  simpl. rewrite Hv. simpl. rewrite Hf. simpl. repeat split; eauto.
Qed.

(* ---- fetch errors are not remembered -------------------------------------------- *)

Lemma add_no_leaves : forall s n, mkState (st_dirs s) (add_leaves (st_leaves s) [] n) = s.
Proof. intros [ds ls] n. unfold add_leaves. simpl. rewrite app_nil_r. reflexivity. Qed.

Lemma force_error_retried : forall s i fs s1 lg code fs1,
  force c s i fs = (s1, lg, Some code, fs1) ->
  st_dirs s1 = st_dirs s /\
  exists o d fr, nth_error (st_dirs s1) i = Some o /\ d_lazy o = LCas d /\ lg = [(d, fr)] /\
    (fr <> FOk -> s1 = s) /\
    forall fs', exists fr', snd (fst (fst (force c s1 i fs'))) = [(d, fr')].
Proof.
  intros s i fs s1 lg code fs1 H.
  destruct (force_err c _ _ _ _ _ _ _ H) as [o [d [fr [lvs [E [El [Hf [Hlg Hs1]]]]]]]].
  subst s1. split; [reflexivity|]. exists o, d, fr. simpl. repeat split; auto.
  - intros Hfr. destruct (fetch_err_inv c _ _ _ _ _ _ Hf) as [fr0 [Heq [Hcase _]]].
    inversion Heq; subst fr0.
    destruct Hcase as [[_ [-> _]]|[[_ [-> _]]|[Hok _]]]; try apply add_no_leaves. contradiction.
  - intros fs'. unfold force. simpl. rewrite E, El.
    destruct (fetch_log d fs') as [fr' Hl].
    destruct (fetch c d fs') as [[[r0 lvs0] lg0] fs0]. simpl in Hl. subst lg0.
    exists fr'. destruct r0; simpl; auto.
    destruct (attach_children _ _ _); reflexivity.
Qed.

(* ---- denote: fuel ------------------------------------------------------------------ *)

Lemma map_opt_ext_some : forall A B (f g : A -> option B) l r,
  (forall a y, In a l -> f a = Some y -> g a = Some y) -> map_opt f l = Some r -> map_opt g l = Some r.
Proof.
  induction l as [|a l IH]; intros r H Hm; simpl in *; auto.
  destruct (f a) as [y|] eqn:Ef; [|discriminate].
  destruct (map_opt f l) as [ys|] eqn:Em; [|discriminate].
  rewrite (H a y (or_introl eq_refl) Ef). rewrite (IH ys); auto.
Qed.

Lemma denote_f_mono : forall k d t, denote_f k c d = Some t -> denote_f (S k) c d = Some t.
Proof.
  induction k as [|k IH]; intros d t H; [discriminate|].
  cbn [denote_f] in *.
  destruct (cas_get c d) as [m|]; [|discriminate].
  destruct (validate m) as [[ch|] lvs]; [|discriminate].
  destruct (map_opt _ (sort_children ch)) as [r|] eqn:Em in H; [|discriminate].
  erewrite map_opt_ext_some; [exact H| |exact Em].
  intros [n ic] y _ Hy. simpl in *. destruct ic as [d'|kk]; auto.
  destruct (denote_f k c d') as [t'|] eqn:Ed; [|discriminate].
  rewrite (IH _ _ Ed). exact Hy.
Qed.

End WithCas.
