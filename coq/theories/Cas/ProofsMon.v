(* C17 proofs, part 6a: the relation between the monitor's memory (Spec.mon)
   and the model state, and how the primitive state transformers preserve
   it. *)
From VF Require Import Cas.Model Cas.Spec Cas.ProofsLeaf Cas.ProofsInv Cas.ProofsStep.
From Coq Require Import Lia.
Open Scope string_scope.
Open Scope nat_scope.
Open Scope list_scope.

Definition ghost_match (x : gorigin) (o : dirobj) : Prop :=
  match x with
  | GCas d => d_born o = Some d /\ d_pristine o = true
  | GEmpty => d_born o = None /\ d_pristine o = true /\ (forall d, d_lazy o <> LCas d)
  | GMod => True
  end.

Definition mon_ok (g : mon) (s : state) : Prop :=
  (forall i x, aget i (mon_dirs g) = Some x ->
     exists o, nth_error (st_dirs s) i = Some o /\ ghost_match x o) /\
  (forall l k, aget l (mon_leaves g) = Some k ->
     exists lf, nth_error (st_leaves s) l = Some lf /\ l_kind lf = k) /\
  (forall j o, nth_error (st_dirs s) j = Some o -> aget j (mon_dirs g) = None -> d_pristine o = true).

Lemma mon_ok_init : mon_ok mon_init init.
Proof.
  split; [|split].
  - intros i x H. simpl in H. destruct i; simpl in H; [|discriminate]. inversion H; subst.
    eexists. split; [reflexivity|]. simpl. repeat split; auto. discriminate.
  - intros l k H. discriminate.
  - intros [|[|j]] o H; simpl in *; inversion H; subst; auto.
Qed.

Definition same_ghost (o o' : dirobj) : Prop :=
  d_born o' = d_born o /\ d_pristine o' = d_pristine o /\ (forall d, d_lazy o' = LCas d -> d_lazy o = LCas d).

Lemma same_ghost_refl : forall o, same_ghost o o.
Proof. intros; repeat split; auto. Qed.

Lemma same_ghost_trans : forall a b c, same_ghost a b -> same_ghost b c -> same_ghost a c.
Proof.
  intros a b c [H1 [H2 H3]] [H4 [H5 H6]]. repeat split; try congruence. auto.
Qed.

Lemma ghost_match_same : forall x o o', same_ghost o o' -> ghost_match x o -> ghost_match x o'.
Proof.
  intros x o o' [H1 [H2 H3]] H. destruct x; simpl in *; auto.
  - destruct H. split; congruence.
  - destruct H as [Ha [Hb Hc]]. repeat split; try congruence. intros d Hd. apply (Hc d). auto.
Qed.

(* [X] = the directory objects whose entry list was locally modified. *)
Definition step_rel (X : nat -> Prop) (s s' : state) : Prop :=
  (forall j o, nth_error (st_dirs s) j = Some o ->
     exists o', nth_error (st_dirs s') j = Some o' /\ (X j \/ same_ghost o o')) /\
  (forall j o', nth_error (st_dirs s') j = Some o' -> nth_error (st_dirs s) j = None ->
     X j \/ d_pristine o' = true) /\
  leaves_ext (st_leaves s) (st_leaves s').

Lemma step_rel_refl : forall X s, step_rel X s s.
Proof.
  intros X s. split; [|split].
  - intros j o H. exists o. split; auto. right. apply same_ghost_refl.
  - intros j o' H1 H2. congruence.
  - apply leaves_ext_refl.
Qed.

Lemma step_rel_weaken : forall (X Y : nat -> Prop) s s', (forall j, X j -> Y j) -> step_rel X s s' -> step_rel Y s s'.
Proof.
  intros X Y s s' HXY [H1 [H2 H3]]. split; [|split]; auto.
  - intros j o H. destruct (H1 _ _ H) as [o' [Ho' [Hx|Hg]]]; eauto.
  - intros j o' Ha Hb. destruct (H2 _ _ Ha Hb); auto.
Qed.

Lemma step_rel_trans : forall X a b c, step_rel X a b -> step_rel X b c -> step_rel X a c.
Proof.
  intros X a b c [A1 [A2 A3]] [B1 [B2 B3]]. split; [|split].
  - intros j o H. destruct (A1 _ _ H) as [o1 [H1 Hc1]]. destruct (B1 _ _ H1) as [o2 [H2 Hc2]].
    exists o2. split; auto. destruct Hc1 as [|Hg1]; auto. destruct Hc2 as [|Hg2]; auto.
    right. eapply same_ghost_trans; eauto.
  - intros j o' Hc Ha. destruct (nth_error (st_dirs b) j) as [ob|] eqn:Eb.
    + destruct (B1 _ _ Eb) as [o2 [H2 Hc2]]. rewrite Hc in H2. inversion H2; subst o2.
      destruct Hc2 as [Hx|[_ [Hp _]]]; auto.
      destruct (A2 _ _ Eb Ha) as [Hx|Hpb]; auto. right. congruence.
    + eapply B2; eauto.
  - eapply leaves_ext_trans; eauto.
Qed.

Definition nobody : nat -> Prop := fun _ => False.

Lemma step_rel_dirs_same : forall X s s',
  st_dirs s' = st_dirs s -> leaves_ext (st_leaves s) (st_leaves s') -> step_rel X s s'.
Proof.
  intros X s s' Hd Hl. split; [|split]; auto.
  - intros j o H. exists o. rewrite Hd. split; auto. right. apply same_ghost_refl.
  - intros j o' H1 H2. rewrite Hd in H1. congruence.
Qed.

Lemma step_rel_set : forall X s i o x,
  nth_error (st_dirs s) i = Some o -> (X i \/ same_ghost o x) ->
  step_rel X s (set_dir s i x).
Proof.
  intros X s i o x E Hx. split; [|split]; simpl; [| |apply leaves_ext_refl].
  - intros j oj Hj. destruct (Nat.eq_dec i j) as [->|Hne].
    + exists x. split; [apply nth_set_nth_eq; apply nth_error_Some; congruence|].
      rewrite E in Hj. inversion Hj; subst. auto.
    + exists oj. rewrite nth_set_nth_neq; auto. split; auto. right. apply same_ghost_refl.
  - intros j o' H1 H2. exfalso.
    assert (j < List.length (st_dirs s)).
    { rewrite <- (set_nth_length _ (st_dirs s) i x). apply nth_error_Some. congruence. }
    apply nth_error_None in H2. lia.
Qed.

Lemma step_rel_modify : forall s i f, step_rel (eq i) s (modify s i f).
Proof.
  intros s i f. unfold modify. destruct (nth_error (st_dirs s) i) as [o|] eqn:E; [|apply step_rel_refl].
  eapply step_rel_set; eauto.
Qed.

Lemma step_rel_mark_deleted : forall X s i, step_rel X s (mark_deleted s i).
Proof.
  intros X s i. unfold mark_deleted. destruct (nth_error (st_dirs s) i) as [o|] eqn:E; [|apply step_rel_refl].
  eapply step_rel_set; eauto. right. repeat split; auto.
Qed.

Lemma step_rel_add_link : forall X s l dz, step_rel X s (add_link s l dz).
Proof.
  intros. apply step_rel_dirs_same; [|apply sext_add_link].
  unfold add_link. destruct (nth_error (st_leaves s) l); auto.
Qed.

Lemma step_rel_add_leaves : forall X s ks n, step_rel X s (mkState (st_dirs s) (add_leaves (st_leaves s) ks n)).
Proof. intros. apply step_rel_dirs_same; simpl; auto. apply leaves_ext_app. Qed.

Lemma step_rel_add_leaf : forall X s lf, step_rel X s (mkState (st_dirs s) (st_leaves s ++ [lf])).
Proof. intros. apply step_rel_dirs_same; simpl; auto. apply leaves_ext_app. Qed.

Lemma step_rel_app_dirs : forall X s news ls',
  (forall o, In o news -> d_pristine o = true) -> leaves_ext (st_leaves s) ls' ->
  step_rel X s (mkState (st_dirs s ++ news) ls').
Proof.
  intros X s news ls' Hn Hl. split; [|split]; simpl; auto.
  - intros j o H. exists o. split; [apply nth_error_app_l; auto|]. right. apply same_ghost_refl.
  - intros j o' H1 H2. right. apply nth_error_None in H2.
    rewrite nth_error_app2 in H1; auto. apply nth_error_In in H1. auto.
Qed.

Lemma step_rel_add_dir : forall X s o, d_pristine o = true -> step_rel X s (mkState (st_dirs s ++ [o]) (st_leaves s)).
Proof.
  intros. apply step_rel_app_dirs; [|apply leaves_ext_refl]. intros o' [<-|[]]; auto.
Qed.

Section WithCas.
Variable c : cas.

Lemma step_rel_force : forall X s i fs s1 lg r fs1, force c s i fs = (s1, lg, r, fs1) -> step_rel X s s1.
Proof.
  intros X s i fs s1 lg r fs1 H. unfold force in H.
  destruct (nth_error (st_dirs s) i) as [o|] eqn:E; [|inversion H; subst; apply step_rel_refl].
  destruct (d_lazy o) eqn:El.
  - inversion H; subst; apply step_rel_refl.
  - inversion H; subst. eapply step_rel_set; eauto. right. repeat split; auto. simpl. discriminate.
  - destruct (fetch c d fs) as [[[r0 lvs] lg0] fs0]. destruct r0.
    + inversion H; subst. apply step_rel_add_leaves.
    + destruct (attach_children (st_dirs s) (List.length (st_leaves s)) (sort_children children)) as [ds' es] eqn:Ea.
      inversion H; subst. destruct (attach_children_spec _ _ _ _ _ Ea) as [[news [-> Hnews]] _].
      eapply step_rel_trans.
      * apply (step_rel_app_dirs X s news (add_leaves (st_leaves s) lvs 1)); [|apply leaves_ext_app].
        intros o' Hin. destruct (Hnews _ Hin) as [d' ->]. reflexivity.
      * change (step_rel X {| st_dirs := st_dirs s ++ news; st_leaves := add_leaves (st_leaves s) lvs 1 |}
                 (set_dir {| st_dirs := st_dirs s ++ news; st_leaves := add_leaves (st_leaves s) lvs 1 |} i
                    {| d_lazy := LNone; d_entries := es; d_deleted := d_deleted o; d_born := d_born o; d_pristine := d_pristine o |})).
        eapply step_rel_set; [simpl; apply nth_error_app_l; eauto|].
        right. repeat split; auto. simpl. discriminate.
Qed.

Lemma step_rel_create_children : forall s i ch base merged,
  step_rel (eq i) s (create_children s i ch base merged).
Proof.
  intros s i ch base merged. unfold create_children.
  destruct (nth_error (st_dirs s) i) as [o|] eqn:E; [|apply step_rel_refl].
  destruct (attach_children (st_dirs s) base (sort_children ch)) as [ds' es] eqn:Ea.
  destruct (attach_children_spec _ _ _ _ _ Ea) as [[news [-> Hnews]] _].
  eapply step_rel_trans.
  - apply (step_rel_app_dirs (eq i) s news (st_leaves s)); [|apply leaves_ext_refl].
    intros o' Hin. destruct (Hnews _ Hin) as [d' ->]. reflexivity.
  - match goal with |- step_rel _ ?a {| st_dirs := set_nth _ _ ?x; st_leaves := _ |} =>
      change (step_rel (eq i) a (set_dir a i x)) end.
    eapply step_rel_set; [simpl; apply nth_error_app_l; eauto|]. left; auto.
Qed.

End WithCas.

(* ---- after a call ------------------------------------------------------------------ *)

Lemma mon_ok_after : forall X g g' s s',
  mon_ok g s -> step_rel X s s' ->
  (forall j x, aget j (mon_dirs g') = Some x ->
     (~ X j /\ aget j (mon_dirs g) = Some x) \/
     (exists o', nth_error (st_dirs s') j = Some o' /\ ghost_match x o')) ->
  (forall j, aget j (mon_dirs g') = None -> aget j (mon_dirs g) = None /\ ~ X j) ->
  (forall l k, aget l (mon_leaves g') = Some k ->
     aget l (mon_leaves g) = Some k \/
     (exists lf, nth_error (st_leaves s') l = Some lf /\ l_kind lf = k)) ->
  mon_ok g' s'.
Proof.
  intros X g g' s s' [M1 [M2 M3]] [R1 [R2 R3]] Hd Hn Hl. split; [|split].
  - intros j x Hj. destruct (Hd _ _ Hj) as [[HX Hg]|Hnew]; auto.
    destruct (M1 _ _ Hg) as [o [Ho Hm]]. destruct (R1 _ _ Ho) as [o' [Ho' [Hx|Hs]]]; [contradiction|].
    exists o'. split; auto. eapply ghost_match_same; eauto.
  - intros l k Hk. destruct (Hl _ _ Hk) as [Hold|Hnew]; auto.
    destruct (M2 _ _ Hold) as [lf [H1 H2]]. destruct (R3 _ _ H1) as [lf' [H1' H2']].
    exists lf'. split; auto. congruence.
  - intros j o' Hj Hnone. destruct (Hn _ Hnone) as [Hg HX].
    destruct (nth_error (st_dirs s) j) as [o|] eqn:Eo.
    + destruct (R1 _ _ Eo) as [o'' [Ho'' [Hx|[_ [Hp _]]]]]; [contradiction|].
      rewrite Hj in Ho''. inversion Ho''; subst o''. rewrite Hp. eapply M3; eauto.
    + destruct (R2 _ _ Hj Eo); [contradiction|auto].
Qed.

(* Nothing learnt, nothing modified. *)
Lemma mon_ok_keep : forall g s s', mon_ok g s -> step_rel nobody s s' -> mon_ok g s'.
Proof.
  intros g s s' HM HR. apply (mon_ok_after nobody g g s s' HM HR).
  - intros j x H. left. split; auto.
  - intros j H. split; auto.
  - intros l k H. left; auto.
Qed.

Lemma aget_set : forall g i x j,
  aget j (mon_dirs (set_dir_origin g i x)) = if i =? j then Some x else aget j (mon_dirs g).
Proof. intros. reflexivity. Qed.

Lemma mon_dirs_valid : forall g s i x, mon_ok g s -> aget i (mon_dirs g) = Some x -> i < List.length (st_dirs s).
Proof.
  intros g s i x [M1 _] H. destruct (M1 _ _ H) as [o [Ho _]]. apply nth_error_Some. congruence.
Qed.

(* The directories in [X] were modified; the monitor marks them. *)
Lemma mon_ok_mod1 : forall g s s' i,
  mon_ok g s -> step_rel (eq i) s s' -> i < List.length (st_dirs s) ->
  mon_ok (set_dir_origin g i GMod) s'.
Proof.
  intros g s s' i HM HR Hi. apply (mon_ok_after (eq i) g _ s s' HM HR); [| |intros l k H; left; auto].
  - intros j x H. rewrite aget_set in H. destruct (i =? j) eqn:E.
    + apply Nat.eqb_eq in E. subst j. inversion H; subst x. right.
      destruct HR as [R1 _]. destruct (nth_error (st_dirs s) i) as [o|] eqn:Eo; [|apply nth_error_None in Eo; lia].
      destruct (R1 _ _ Eo) as [o' [Ho' _]]. exists o'. split; simpl; auto.
    + left. apply Nat.eqb_neq in E. split; auto.
  - intros j H. rewrite aget_set in H. destruct (i =? j) eqn:E; [discriminate|].
    apply Nat.eqb_neq in E. split; auto.
Qed.

Lemma mon_ok_mod2 : forall g s s' i j,
  mon_ok g s -> step_rel (fun x => x = i \/ x = j) s s' ->
  i < List.length (st_dirs s) -> j < List.length (st_dirs s) ->
  mon_ok (set_dir_origin (set_dir_origin g i GMod) j GMod) s'.
Proof.
  intros g s s' i j HM HR Hi Hj.
  apply (mon_ok_after (fun x => x = i \/ x = j) g _ s s' HM HR); [| |intros l k H; left; auto].
  - intros k x H. rewrite !aget_set in H.
    assert (Hex : forall q, q < List.length (st_dirs s) -> exists o', nth_error (st_dirs s') q = Some o').
    { intros q Hq. destruct HR as [R1 _].
      destruct (nth_error (st_dirs s) q) as [o|] eqn:Eo; [|apply nth_error_None in Eo; lia].
      destruct (R1 _ _ Eo) as [o' [Ho' _]]. eauto. }
    destruct (j =? k) eqn:E1.
    + apply Nat.eqb_eq in E1. subst k. inversion H; subst x. right.
      destruct (Hex j Hj) as [o' Ho']. exists o'. split; simpl; auto.
    + destruct (i =? k) eqn:E2.
      * apply Nat.eqb_eq in E2. subst k. inversion H; subst x. right.
        destruct (Hex i Hi) as [o' Ho']. exists o'. split; simpl; auto.
      * left. apply Nat.eqb_neq in E1. apply Nat.eqb_neq in E2. split; auto. intros [?|?]; congruence.
  - intros k H. rewrite !aget_set in H.
    destruct (j =? k) eqn:E1; [discriminate|]. destruct (i =? k) eqn:E2; [discriminate|].
    apply Nat.eqb_neq in E1. apply Nat.eqb_neq in E2. split; auto. intros [?|?]; congruence.
Qed.

(* A directory object seen for the first time. *)
Lemma mon_ok_learn_dir : forall g s j x o,
  mon_ok g s -> nth_error (st_dirs s) j = Some o ->
  (aget j (mon_dirs g) = None -> ghost_match x o) -> mon_ok (learn_dir g j x) s.
Proof.
  intros g s j x o HM Ho Hx. unfold learn_dir. destruct (aget j (mon_dirs g)) eqn:E; auto.
  apply (mon_ok_after nobody g _ s s HM (step_rel_refl nobody s)); [| |intros l k H; left; auto].
  - intros k y H. rewrite aget_set in H. destruct (j =? k) eqn:Ejk.
    + apply Nat.eqb_eq in Ejk. subst k. inversion H; subst y. right. eauto.
    + left. split; auto.
  - intros k H. rewrite aget_set in H. destruct (j =? k) eqn:Ejk; [discriminate|]. split; auto.
Qed.

Lemma mon_ok_learn_leaf : forall g s l k lf,
  mon_ok g s -> nth_error (st_leaves s) l = Some lf -> l_kind lf = k -> mon_ok (learn_leaf g l k) s.
Proof.
  intros g s l k lf HM Hl Hk. unfold learn_leaf. destruct (aget l (mon_leaves g)) eqn:E; auto.
  apply (mon_ok_after nobody g _ s s HM (step_rel_refl nobody s)).
  - intros j x H. left. split; auto.
  - intros j H. split; auto.
  - intros l' k' H. simpl in H. destruct (l =? l') eqn:El.
    + apply Nat.eqb_eq in El. subst l'. inversion H; subst k'. right. eauto.
    + left. auto.
Qed.
