(* C17 as decidable predicates.  [p_step] is the per-step predicate P: it is
   (a) proved of the model for every CAS, history and error script
   (Proofs: trace_ok_all) and (b) evaluated on implementation traces by
   Corr.v.  It sees only the fixed CAS (Directory messages and blobs), the
   operation and what the operation returned; its own memory [mon] records
   which directory objects are known to be an unmodified copy of which
   digest, and which leaves are known to be CAS backed. *)
From VF Require Export Cas.Model.
Open Scope string_scope.
Open Scope nat_scope.
Open Scope list_scope.

(* ---- Equality on observables ------------------------------------------------ *)

Definition status_eqb (a b : status) : bool :=
  match a, b with
  | SOK, SOK | SNoEnt, SNoEnt | SIO, SIO | SAccess, SAccess | SPerm, SPerm
  | SExist, SExist | SIsDir, SIsDir | SNotDir, SNotDir | SNotEmpty, SNotEmpty
  | SWrongType, SWrongType | SInval, SInval | SSymlink, SSymlink | SPanic, SPanic
  | SSkip, SSkip | SOther, SOther => true
  | SCode x, SCode y => x =? y
  | _, _ => false
  end.

Definition ldesc_eqb (a b : ldesc) : bool :=
  match a, b with
  | LFile d x, LFile e y => digest_eqb d e && Bool.eqb x y
  | LSym t, LSym u => String.eqb t u
  | LLocal, LLocal => true
  | _, _ => false
  end.

Definition cdesc_eqb (a b : cdesc) : bool :=
  match a, b with
  | DDir i, DDir j => i =? j
  | DLeaf l k, DLeaf m q => (l =? m) && ldesc_eqb k q
  | DInfoDir, DInfoDir => true
  | DInfoLeaf k x, DInfoLeaf q y => (k =? q) && Bool.eqb x y
  | _, _ => false
  end.

Definition fres_eqb (a b : fres) : bool :=
  match a, b with
  | FOk, FOk | FInjected, FInjected | FMissing, FMissing => true
  | _, _ => false
  end.

Definition opt_eqb {A} (eqb : A -> A -> bool) (a b : option A) : bool :=
  match a, b with
  | None, None => true
  | Some x, Some y => eqb x y
  | _, _ => false
  end.

Fixpoint list_eqb {A} (eqb : A -> A -> bool) (a b : list A) : bool :=
  match a, b with
  | [], [] => true
  | x :: a', y :: b' => eqb x y && list_eqb eqb a' b'
  | _, _ => false
  end.

Definition lobs_eqb (a b : lobs) : bool :=
  match a, b with
  | ObsFile s x d, ObsFile t y e => Z.eqb s t && Bool.eqb x y && opt_eqb String.eqb d e
  | ObsSym t, ObsSym u => String.eqb t u
  | ObsLocal, ObsLocal => true
  | _, _ => false
  end.

(* First observable on which two outputs differ ("" = none). *)
Definition out_diff (a b : out) : string :=
  if negb (status_eqb (o_status a) (o_status b)) then "status"
  else if negb (opt_eqb cdesc_eqb (o_child a) (o_child b)) then "child"
  else if negb (list_eqb (fun x y => String.eqb (fst x) (fst y) && cdesc_eqb (snd x) (snd y))
                         (o_entries a) (o_entries b)) then "entries"
  else if negb (list_eqb (fun x y => digest_eqb (fst x) (fst y) && fres_eqb (snd x) (snd y))
                         (o_fetches a) (o_fetches b)) then "fetches"
  else if negb (o_ndirs a =? o_ndirs b) then "directory-count"
  else if negb (o_nleaves a =? o_nleaves b) then "leaf-count"
  else if negb (list_eqb (fun x y => (fst x =? fst y) && Z.eqb (snd x) (snd y))
                         (o_links a) (o_links b)) then "link-counts"
  else if negb (opt_eqb lobs_eqb (o_obs a) (o_obs b)) then "leaf-observation"
  else if negb (Bool.eqb (o_cas_ok a) (o_cas_ok b)) then "cas-unchanged"
  else "".

(* ---- What a digest names, one level ----------------------------------------- *)

(* The children of the Directory [d] in attach order and the leaves its
   FetchContents creates; None when the message is missing or malformed. *)
Definition expect (c : cas) (d : digest) : option (list (string * ichild) * list leafkind) :=
  match cas_get c d with
  | None => None
  | Some m => match validate m with
              | (Some ch, lvs) => Some (sort_children ch, lvs)
              | (None, _) => None
              end
  end.

(* The leaves a FetchContents of [d] creates before it fails validation. *)
Definition malformed_leaves (c : cas) (d : digest) : option (list leafkind) :=
  match cas_get c d with
  | None => None
  | Some m => match validate m with
              | (None, lvs) => Some lvs
              | (Some _, _) => None
              end
  end.

(* What reading a CAS backed file of digest [d] returns. *)
Definition cas_read (b : blobs) (d : digest) : option string :=
  if (snd d =? 0)%Z then Some ""
  else match blob_get b d with
       | Some v => if (Z.to_nat (snd d) <=? String.length v)
                   then Some (substring 0 (Z.to_nat (snd d)) v) else None
       | None => None
       end.

(* ---- The monitor's memory ---------------------------------------------------- *)

Inductive gorigin :=
| GCas (d : digest)    (* created from [d], never locally modified *)
| GEmpty               (* created empty, never locally modified *)
| GMod.                (* locally modified at some point *)

Record mon := mkMon { mon_dirs : list (nat * gorigin); mon_leaves : list (nat * leafkind) }.

Definition mon_init : mon := mkMon [(0, GEmpty)] [].

Fixpoint aget {A} (k : nat) (l : list (nat * A)) : option A :=
  match l with
  | [] => None
  | (k', v) :: r => if k' =? k then Some v else aget k r
  end.

Definition set_dir_origin (g : mon) (i : nat) (o : gorigin) : mon :=
  mkMon ((i, o) :: mon_dirs g) (mon_leaves g).

(* A directory or leaf seen for the first time. *)
Definition learn_dir (g : mon) (j : nat) (o : gorigin) : mon :=
  match aget j (mon_dirs g) with
  | None => set_dir_origin g j o
  | Some _ => g
  end.

Definition learn_leaf (g : mon) (l : nat) (k : leafkind) : mon :=
  match aget l (mon_leaves g) with
  | None => mkMon (mon_dirs g) ((l, k) :: mon_leaves g)
  | Some _ => g
  end.

Definition match_child (lvs : list leafkind) (ic : ichild) (cd : cdesc) : bool :=
  match ic, cd with
  | ICDir _, DDir _ => true
  | ICLeaf k, DLeaf _ ld =>
    match nth_error lvs k with
    | Some lk => ldesc_eqb (ldesc_of lk) ld
    | None => false
    end
  | _, _ => false
  end.

Definition match_info (lvs : list leafkind) (ic : ichild) (cd : cdesc) : bool :=
  match ic, cd with
  | ICDir _, DInfoDir => true
  | ICLeaf k, DInfoLeaf kind x =>
    match nth_error lvs k with
    | Some (KCas _ x') => (kind =? 0) && Bool.eqb x x'
    | Some (KSym _) => (kind =? 1)
    | Some KLocal => (kind =? 0) && negb x     (* never produced by a fetch *)
    | None => false
    end
  | _, _ => false
  end.

Definition learn (lvs : list leafkind) (g : mon) (ic : ichild) (cd : cdesc) : mon :=
  match ic, cd with
  | ICDir d', DDir j => learn_dir g j (GCas d')
  | ICLeaf k, DLeaf l _ =>
    match nth_error lvs k with
    | Some lk => learn_leaf g l lk
    | None => g
    end
  | _, _ => g
  end.

(* Entry list of a listing against the expected children. *)
Fixpoint match_entries (f : ichild -> cdesc -> bool) (chs : list (string * ichild))
    (es : list (string * cdesc)) : bool :=
  match chs, es with
  | [], [] => true
  | (n, ic) :: chs', (m, cd) :: es' => String.eqb n m && f ic cd && match_entries f chs' es'
  | _, _ => false
  end.

Fixpoint learn_entries (lvs : list leafkind) (g : mon) (chs : list (string * ichild))
    (es : list (string * cdesc)) : mon :=
  match chs, es with
  | (_, ic) :: chs', (_, cd) :: es' => learn_entries lvs (learn lvs g ic cd) chs' es'
  | _, _ => g
  end.

(* ---- P ----------------------------------------------------------------------- *)

Definition is_fetch_error (s : status) : bool :=
  match s with SIO | SCode _ => true | _ => false end.

(* Some GetDirectory of this call failed, or returned a missing / malformed
   Directory. *)
Definition error_justified (c : cas) (x : out) : bool :=
  existsb (fun e => match snd e with
                    | FOk => match expect c (fst e) with None => true | Some _ => false end
                    | _ => true
                    end) (o_fetches x).

(* "leaves created before the error was detected are unlinked": when the
   call failed and its last fetch returned a malformed Directory, the
   leaves that fetch created (the newest ones) all have link count 0. *)
Definition unlinked_tail (n nleaves : nat) (links : list (nat * Z)) : bool :=
  forallb (fun id => match aget id links with Some 0%Z => true | _ => false end)
          (seq (nleaves - n) n).

Definition leak_ok (c : cas) (x : out) : bool :=
  if is_fetch_error (o_status x) then
    match last (map Some (o_fetches x)) None with
    | Some (d, FOk) =>
      match malformed_leaves c d with
      | Some lvs => (List.length lvs <=? o_nleaves x) && unlinked_tail (List.length lvs) (o_nleaves x) (o_links x)
      | None => true
      end
    | _ => true
    end
  else true.

(* Exploring a directory known to be an unmodified copy of [d]. *)
Definition p_explore (c : cas) (g : mon) (d : digest) (x : out)
    (check : list (string * ichild) -> list leafkind -> string * mon) : string * mon :=
  match o_status x with
  | SOK | SNoEnt =>
    match expect c d with
    | None => ("C17:malformed-not-error", g)
    | Some (chs, lvs) => check chs lvs
    end
  | SIO | SCode _ => if error_justified c x then ("", g) else ("C17:spurious-error", g)
  | _ => ("C17:unexpected-status", g)
  end.

Definition is_ok (s : status) : bool := match s with SOK => true | _ => false end.

(* Mutation attempts on a leaf known to be CAS backed. *)
Definition p_leaf (b : blobs) (g : mon) (l : nat) (mutation : bool) (x : out) : string :=
  match aget l (mon_leaves g) with
  | Some (KCas d ex) =>
    if mutation && is_ok (o_status x) then "C17:cas-file-mutable"
    else match o_obs x with
         | Some (ObsFile sz ex' data) =>
           if Z.eqb sz (snd d) && Bool.eqb ex ex' && opt_eqb String.eqb data (cas_read b d)
           then "" else "C17:cas-file-changed"
         | _ => "C17:cas-file-changed"
         end
  | Some (KSym t) =>
    match o_obs x with
    | Some (ObsSym t') => if String.eqb t t' then "" else "C17:symlink-changed"
    | _ => "C17:symlink-changed"
    end
  | _ => ""
  end.

Definition p_op (c : cas) (b : blobs) (g : mon) (o : op) (x : out) : string * mon :=
  match o with
  | OLookup i n virt fs =>
    match aget i (mon_dirs g) with
    | Some (GCas d) =>
      p_explore c g d x (fun chs lvs =>
        match find_entry n chs, o_status x, o_child x with
        | None, SNoEnt, None => ("", g)
        | Some ic, SOK, Some cd =>
          if match_child lvs ic cd then ("", learn lvs g ic cd) else ("C17:lookup-differs", g)
        | _, _, _ => ("C17:lookup-differs", g)
        end)
    | Some GEmpty => if status_eqb (o_status x) SNoEnt then ("", g) else ("C17:phantom-entry", g)
    | _ => ("", g)
    end
  | OReadDir i virt fs =>
    match aget i (mon_dirs g) with
    | Some (GCas d) =>
      p_explore c g d x (fun chs lvs =>
        if negb (is_ok (o_status x)) then ("C17:readdir-differs", g)
        else if virt then
          if match_entries (match_child lvs) chs (o_entries x)
          then ("", learn_entries lvs g chs (o_entries x)) else ("C17:readdir-differs", g)
        else
          if match_entries (match_info lvs) chs (o_entries x) then ("", g) else ("C17:readdir-differs", g))
    | Some GEmpty =>
      match o_status x, o_entries x with
      | SOK, [] => ("", g)
      | _, _ => ("C17:phantom-entry", g)
      end
    | _ => ("", g)
    end
  | OMerge i d fs =>
    (* MergeDirectoryContents fetches [d] itself: success means [d] was
       accepted as a tree *)
    if is_ok (o_status x) then
      match expect c d with
      | None => ("C17:malformed-not-error", g)
      | Some _ =>
        match aget i (mon_dirs g) with
        | Some GEmpty => ("", set_dir_origin g i (GCas d))
        | _ => ("", set_dir_origin g i GMod)
        end
      end
    else ("", g)
  | OAttach i n d fs =>
    if is_ok (o_status x) then
      match o_child x with
      | Some (DDir j) => ("", learn_dir (set_dir_origin g i GMod) j (GCas d))
      | _ => ("", set_dir_origin g i GMod)
      end
    else ("", g)
  | OMkdir i n fs =>
    if is_ok (o_status x) then
      match o_child x with
      | Some (DDir j) => ("", learn_dir (set_dir_origin g i GMod) j GEmpty)
      | _ => ("", set_dir_origin g i GMod)
      end
    else ("", g)
  | OOpen i n rd wr trunc existing create fs =>
    let g' := if is_ok (o_status x) && create then set_dir_origin g i GMod else g in
    match o_child x with
    | Some (DLeaf l _) =>
      match aget l (mon_leaves g) with
      | Some (KCas _ _) =>
        if (wr || trunc) && is_ok (o_status x) then ("C17:cas-file-mutable", g) else ("", g')
      | _ => ("", g')
      end
    | _ => ("", g')
    end
  | ORemove i n rmdir rmleaf virt fs =>
    if is_ok (o_status x) then ("", set_dir_origin g i GMod) else ("", g)
  | ORename i n j n2 fs =>
    if is_ok (o_status x) then ("", set_dir_origin (set_dir_origin g i GMod) j GMod) else ("", g)
  | OLink i n l fs =>
    if is_ok (o_status x) then ("", set_dir_origin g i GMod) else ("", g)
  | OOpenSelf l rd wr trunc => (p_leaf b g l (wr || trunc) x, g)
  | OSetAttr l a => (p_leaf b g l (match a with ASize => true | _ => false end) x, g)
  | OWrite l => (p_leaf b g l true x, g)
  | OAllocate l => (p_leaf b g l true x, g)
  | ORead l => (p_leaf b g l false x, g)
  end.

Definition p_step (c : cas) (b : blobs) (g : mon) (o : op) (x : out) : string * mon :=
  if negb (o_cas_ok x) then ("C17:cas-modified", g)
  else if negb (leak_ok c x) then ("C17:leaf-not-unlinked", g)
  else p_op c b g o x.

Fixpoint trace_ok_from (c : cas) (b : blobs) (g : mon) (tr : list (op * out)) : bool :=
  match tr with
  | [] => true
  | (o, x) :: r =>
    let '(k, g') := p_step c b g o x in
    String.eqb k "" && trace_ok_from c b g' r
  end.

Definition trace_ok (c : cas) (b : blobs) (tr : list (op * out)) : bool :=
  trace_ok_from c b mon_init tr.

(* ---- The identity given to the stateless handle allocator -------------------- *)

(* What NewDigestFromProto accepts: lower-case hexadecimal hash, size >= 0. *)
Definition valid_digest (d : digest) : Prop :=
  all_chars is_lower_hex (fst d) = true /\ (0 <= snd d)%Z.

(* [idents]: for every leaf created through StatelessHandleAllocator.New, a
   token that is equal for two leaves exactly when the allocator was given
   the same bytes (for the NFSv4 allocator: the leaves are one file, the
   first one created is what every name shows).  C17 needs: two CAS backed
   files the monitor knows (their digest and executable bit were checked
   against the Directory messages when they were learnt) share a token only
   when they are the same file -- otherwise which executable bit a name
   shows depends on what was explored first.  The converse is what the
   decorator exists for: the same (digest, executable bit) always gets the
   same token. *)
Definition ident_pair (idents : list (nat * N)) (lvs : list (nat * leafkind)) (l1 l2 : nat) : string :=
  match aget l1 lvs, aget l2 lvs with
  | Some (KCas d1 x1), Some (KCas d2 x2) =>
    match aget l1 idents, aget l2 idents with
    | Some t, Some u =>
      let same := digest_eqb d1 d2 && Bool.eqb x1 x2 in
      if N.eqb t u
      then if same then "" else "C17:handle-identity-shared-by-different-files"
      else if same then "C17:handle-identity-not-stateless" else ""
    | _, _ => ""
    end
  | _, _ => ""
  end.

(* leaf [l] against every leaf of [all] *)
Fixpoint ident_one (idents : list (nat * N)) (lvs : list (nat * leafkind)) (l : nat)
    (all : list (nat * leafkind)) : string :=
  match all with
  | [] => ""
  | e :: r =>
    let k := ident_pair idents lvs l (fst e) in
    if String.eqb k "" then ident_one idents lvs l r else k
  end.

Fixpoint ident_new (idents : list (nat * N)) (lvs : list (nat * leafkind))
    (new : list (nat * leafkind)) : string :=
  match new with
  | [] => ""
  | e :: r =>
    let k := ident_one idents lvs (fst e) lvs in
    if String.eqb k "" then ident_new idents lvs r else k
  end.

(* After a step that took the monitor's memory from [g] to [g']: the leaves
   learnt by this step against all known leaves. *)
Definition p_ident (idents : list (nat * N)) (g g' : mon) : string :=
  ident_new idents (mon_leaves g')
    (firstn (List.length (mon_leaves g') - List.length (mon_leaves g)) (mon_leaves g')).

Fixpoint ident_ok_from (c : cas) (b : blobs) (idents : list (nat * N)) (g : mon)
    (tr : list (op * out)) : bool :=
  match tr with
  | [] => true
  | (o, x) :: r =>
    let g' := snd (p_step c b g o x) in
    String.eqb (p_ident idents g g') "" && ident_ok_from c b idents g' r
  end.

Definition ident_trace_ok (c : cas) (b : blobs) (idents : list (nat * N)) (tr : list (op * out)) : bool :=
  ident_ok_from c b idents mon_init tr.
