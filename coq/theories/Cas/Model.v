(* C17 — executable model of the lazily populated, CAS backed input root.

   Transcribed from
     pkg/filesystem/virtual/cas_initial_contents_fetcher.go  (fetchContentsUnwrapped)
     pkg/filesystem/virtual/blob_access_cas_file_factory.go  (CAS backed files)
     pkg/filesystem/virtual/base_symlink_factory.go, placeholder_file.go
     pkg/filesystem/virtual/in_memory_prepopulated_directory.go (getContents and
        the operations that call it)
     pkg/builder/virtual_build_directory.go (MergeDirectoryContents)
     pkg/filesystem/virtual/stateless_handle_allocating_cas_file_factory.go
        (casFileID.WriteTo), handle_allocator.go (ByteSliceID.WriteTo),
        encoding/binary.PutUvarint, bb-storage Digest.GetKey(KeyWithInstance)
     bb-storage pkg/filesystem/path.NewComponent, pkg/digest.Function.NewDigest

   The file system is a heap of directory objects and leaf objects, both
   numbered in creation order (the order in which the code asks the handle
   allocator for a handle).  A directory object is either still lazy (its
   initialContentsFetcher is set) or has an entry list in attach order.
   [d_born]/[d_pristine] are ghost fields (never read by [step] except to
   maintain them): the digest a directory object was created from, and
   whether its entry list was never changed by a local modification. *)
From Coq Require Export List String Ascii Bool ZArith Arith.
From Coq Require Import DecimalString.
Export ListNotations.
Open Scope string_scope.
Open Scope nat_scope.
Open Scope list_scope.

(* ---- Digests and REv2 Directory messages --------------------------------- *)

(* A validated digest of the instance / digest function of the input root:
   (lower-case hex hash, size).  The harness uses MD5: 32 hex characters. *)
Definition digest := (string * Z)%type.
Definition hash_len : nat := 32.

Definition digest_eqb (a b : digest) : bool :=
  String.eqb (fst a) (fst b) && Z.eqb (snd a) (snd b).

(* A Digest field of a protobuf message: absent, or any (hash, size). *)
Definition pdigest := option (string * Z).

Record fnode := mkF { fn_name : string; fn_digest : pdigest; fn_exec : bool }.
Record dnode := mkD { dn_name : string; dn_digest : pdigest }.
Record snode := mkS { sn_name : string; sn_target : string }.
Record dirmsg := mkMsg { m_files : list fnode; m_dirs : list dnode; m_syms : list snode }.

(* The Content Addressable Storage as the fake DirectoryFetcher sees it:
   first match wins.  Blobs: file contents by digest. *)
Definition cas := list (digest * dirmsg).
Definition blobs := list (digest * string).

Fixpoint cas_get (c : cas) (d : digest) : option dirmsg :=
  match c with
  | [] => None
  | (k, m) :: r => if digest_eqb k d then Some m else cas_get r d
  end.

Fixpoint blob_get (b : blobs) (d : digest) : option string :=
  match b with
  | [] => None
  | (k, v) :: r => if digest_eqb k d then Some v else blob_get r d
  end.

(* ---- path.NewComponent ---------------------------------------------------- *)

Fixpoint has_bad_char (s : string) : bool :=
  match s with
  | EmptyString => false
  | String c r => Ascii.eqb c "/" || Ascii.eqb c "000" || has_bad_char r
  end.

Definition valid_name (s : string) : bool :=
  negb (String.eqb s "" || String.eqb s "." || String.eqb s ".." || has_bad_char s).

(* ---- digest.Function.NewDigestFromProto ----------------------------------- *)

Definition is_lower_hex (c : ascii) : bool :=
  let n := nat_of_ascii c in
  ((48 <=? n) && (n <=? 57)) || ((97 <=? n) && (n <=? 102)).

Fixpoint all_chars (p : ascii -> bool) (s : string) : bool :=
  match s with
  | EmptyString => true
  | String c r => p c && all_chars p r
  end.

Definition valid_pdigest (p : pdigest) : option digest :=
  match p with
  | None => None
  | Some (h, sz) =>
    if (String.length h =? hash_len) && all_chars is_lower_hex h && (0 <=? sz)%Z
    then Some (h, sz) else None
  end.

(* ---- fetchContentsUnwrapped ------------------------------------------------ *)

Inductive leafkind :=
| KCas (d : digest) (x : bool)     (* blobAccessCASFile, executable or not *)
| KSym (t : string)                (* symlink of the base symlink factory *)
| KLocal.                          (* file made by the (fake) file allocator *)

(* A child as FetchContents returns it: a fetcher for a child digest, or the
   k-th leaf created by this call. *)
Inductive ichild := ICDir (d : digest) | ICLeaf (k : nat).

Fixpoint mem_name {A} (n : string) (l : list (string * A)) : bool :=
  match l with
  | [] => false
  | (m, _) :: r => String.eqb m n || mem_name n r
  end.

(* Each loop returns None at the first offending entry.  [acc] is the map
   of children so far, [lvs] the leaves created so far (in creation order). *)
Fixpoint val_dirs (ds : list dnode) (acc : list (string * ichild)) : option (list (string * ichild)) :=
  match ds with
  | [] => Some acc
  | e :: r =>
    if negb (valid_name (dn_name e)) then None
    else if mem_name (dn_name e) acc then None
    else match valid_pdigest (dn_digest e) with
         | None => None
         | Some d => val_dirs r ((dn_name e, ICDir d) :: acc)
         end
  end.

Fixpoint val_files (fs : list fnode) (acc : list (string * ichild)) (lvs : list leafkind)
    : option (list (string * ichild)) * list leafkind :=
  match fs with
  | [] => (Some acc, lvs)
  | e :: r =>
    if negb (valid_name (fn_name e)) then (None, lvs)
    else if mem_name (fn_name e) acc then (None, lvs)
    else match valid_pdigest (fn_digest e) with
         | None => (None, lvs)
         | Some d => val_files r ((fn_name e, ICLeaf (List.length lvs)) :: acc) (lvs ++ [KCas d (fn_exec e)])
         end
  end.

Fixpoint val_syms (ss : list snode) (acc : list (string * ichild)) (lvs : list leafkind)
    : option (list (string * ichild)) * list leafkind :=
  match ss with
  | [] => (Some acc, lvs)
  | e :: r =>
    if negb (valid_name (sn_name e)) then (None, lvs)
    else if mem_name (sn_name e) acc then (None, lvs)
    else val_syms r ((sn_name e, ICLeaf (List.length lvs)) :: acc) (lvs ++ [KSym (sn_target e)])
  end.

(* Result: the children (None = InvalidArgument) and every leaf that was
   created before the function returned. *)
Definition validate (m : dirmsg) : option (list (string * ichild)) * list leafkind :=
  match val_dirs (m_dirs m) [] with
  | None => (None, [])
  | Some acc =>
    match val_files (m_files m) acc [] with
    | (None, lvs) => (None, lvs)
    | (Some acc', lvs) => val_syms (m_syms m) acc' lvs
    end
  end.

(* createChildren: names are sorted (sort.Sort on path.ComponentsList,
   byte-wise) before they are attached. *)
Fixpoint insert_sorted {A} (x : string * A) (l : list (string * A)) : list (string * A) :=
  match l with
  | [] => [x]
  | y :: r => if String.leb (fst x) (fst y) then x :: l else y :: insert_sorted x r
  end.

Fixpoint sort_children {A} (l : list (string * A)) : list (string * A) :=
  match l with
  | [] => []
  | x :: r => insert_sorted x (sort_children r)
  end.

(* ---- The heap --------------------------------------------------------------- *)

Inductive lazy := LNone | LEmpty | LCas (d : digest).
Inductive child := CDir (i : nat) | CLeaf (l : nat).

Record dirobj := mkDir {
  d_lazy : lazy;                         (* initialContentsFetcher *)
  d_entries : list (string * child);     (* entriesList, in attach order *)
  d_deleted : bool;                      (* contents.isDeleted *)
  d_born : option digest;                (* ghost *)
  d_pristine : bool }.                   (* ghost *)

Record leafobj := mkLeaf { l_kind : leafkind; l_nlink : Z }.

Record state := mkState { st_dirs : list dirobj; st_leaves : list leafobj }.

(* NewInMemoryPrepopulatedDirectory: one directory with the empty fetcher. *)
Definition init : state := mkState [mkDir LEmpty [] false None true] [].

Fixpoint set_nth {A} (l : list A) (i : nat) (x : A) : list A :=
  match l, i with
  | [], _ => []
  | _ :: t, O => x :: t
  | h :: t, S j => h :: set_nth t j x
  end.

Definition set_dir (s : state) (i : nat) (d : dirobj) : state :=
  mkState (set_nth (st_dirs s) i d) (st_leaves s).

Definition set_leaf (s : state) (l : nat) (x : leafobj) : state :=
  mkState (st_dirs s) (set_nth (st_leaves s) l x).

Definition new_cas_dir (d : digest) : dirobj := mkDir (LCas d) [] false (Some d) true.
Definition new_local_dir : dirobj := mkDir LEmpty [] false None true.

Fixpoint find_entry {A} (n : string) (l : list (string * A)) : option A :=
  match l with
  | [] => None
  | (m, c) :: r => if String.eqb m n then Some c else find_entry n r
  end.

Fixpoint remove_entry {A} (n : string) (l : list (string * A)) : list (string * A) :=
  match l with
  | [] => []
  | (m, c) :: r => if String.eqb m n then r else (m, c) :: remove_entry n r
  end.

(* attachNewDirectory / attach for the sorted children of one FetchContents:
   directory objects are created in that order. *)
Fixpoint attach_children (ds : list dirobj) (base : nat) (chs : list (string * ichild))
    : list dirobj * list (string * child) :=
  match chs with
  | [] => (ds, [])
  | (n, ICDir d) :: r =>
    let '(ds', es) := attach_children (ds ++ [new_cas_dir d]) base r in
    (ds', (n, CDir (List.length ds)) :: es)
  | (n, ICLeaf k) :: r =>
    let '(ds', es) := attach_children ds base r in
    (ds', (n, CLeaf (base + k)) :: es)
  end.

(* ---- Fetching --------------------------------------------------------------- *)

Inductive fres := FOk | FInjected | FMissing.
Inductive fetched := FetErr (code : nat) | FetOk (children : list (string * ichild)).

(* gRPC codes: 3 InvalidArgument, 5 NotFound, 14 Unavailable. *)
(* One FetchContents of a casInitialContentsFetcher for digest [d].  [fs] is
   the storage-error script: the head says whether the next GetDirectory
   fails. *)
Definition fetch (c : cas) (d : digest) (fs : list bool)
    : fetched * list leafkind * (digest * fres) * list bool :=
  match fs with
  | true :: fs' => (FetErr 14, [], (d, FInjected), fs')
  | _ =>
    match cas_get c d with
    | None => (FetErr 5, [], (d, FMissing), tl fs)
    | Some m =>
      match validate m with
      | (None, lvs) => (FetErr 3, lvs, (d, FOk), tl fs)
      | (Some ch, lvs) => (FetOk ch, lvs, (d, FOk), tl fs)
      end
    end
  end.

Definition add_leaves (ls : list leafobj) (ks : list leafkind) (n : Z) : list leafobj :=
  ls ++ map (fun k => mkLeaf k n) ks.

(* getContents of directory [i]: state, fetch log, error code, rest of script. *)
Definition force (c : cas) (s : state) (i : nat) (fs : list bool)
    : state * list (digest * fres) * option nat * list bool :=
  match nth_error (st_dirs s) i with
  | None => (s, [], None, fs)
  | Some o =>
    match d_lazy o with
    | LNone => (s, [], None, fs)
    | LEmpty => (set_dir s i (mkDir LNone [] (d_deleted o) (d_born o) (d_pristine o)), [], None, fs)
    | LCas d =>
      match fetch c d fs with
      | (FetErr code, lvs, lg, fs') =>
        (* leavesToUnlink: every leaf made before the error is unlinked *)
        (mkState (st_dirs s) (add_leaves (st_leaves s) lvs 0), [lg], Some code, fs')
      | (FetOk ch, lvs, lg, fs') =>
        let '(ds', es) := attach_children (st_dirs s) (List.length (st_leaves s)) (sort_children ch) in
        (mkState (set_nth ds' i (mkDir LNone es (d_deleted o) (d_born o) (d_pristine o)))
                 (add_leaves (st_leaves s) lvs 1), [lg], None, fs')
      end
    end
  end.

(* ---- Operations and outputs -------------------------------------------------- *)

Inductive status :=
| SOK | SNoEnt | SIO | SAccess | SPerm | SExist | SIsDir | SNotDir | SNotEmpty
| SWrongType | SInval | SSymlink | SPanic | SCode (c : nat) | SSkip | SOther.

Inductive attr := ASize | APerm | AOwner.

Inductive op :=
(* directory operations; [fs] = storage-error script for the fetches of this call *)
| OMerge (i : nat) (d : digest) (fs : list bool)                 (* MergeDirectoryContents *)
| OAttach (i : nat) (n : string) (d : digest) (fs : list bool)   (* CreateChildren {n: CAS fetcher}, no overwrite *)
| OLookup (i : nat) (n : string) (virt : bool) (fs : list bool)  (* VirtualLookup / LookupChild *)
| OReadDir (i : nat) (virt : bool) (fs : list bool)              (* VirtualReadDir / ReadDir *)
| OOpen (i : nat) (n : string) (rd wr trunc existing create : bool) (fs : list bool) (* VirtualOpenChild *)
| OMkdir (i : nat) (n : string) (fs : list bool)                 (* VirtualMkdir *)
| ORemove (i : nat) (n : string) (rmdir rmleaf virt : bool) (fs : list bool) (* VirtualRemove / Remove *)
| ORename (i : nat) (n : string) (j : nat) (n2 : string) (fs : list bool) (* VirtualRename *)
| OLink (i : nat) (n : string) (l : nat) (fs : list bool)        (* VirtualLink *)
(* leaf operations *)
| OOpenSelf (l : nat) (rd wr trunc : bool)                       (* VirtualOpenSelf *)
| OSetAttr (l : nat) (a : attr)                                  (* VirtualSetAttributes *)
| OWrite (l : nat)                                               (* VirtualWrite *)
| OAllocate (l : nat)                                            (* VirtualAllocate *)
| ORead (l : nat).                                               (* observe only *)

Inductive ldesc := LFile (d : digest) (x : bool) | LSym (t : string) | LLocal.
Inductive cdesc :=
| DDir (i : nat)
| DLeaf (l : nat) (k : ldesc)
| DInfoDir                               (* filesystem.FileInfo of ReadDir() *)
| DInfoLeaf (kind : nat) (x : bool).     (* 0 regular, 1 symlink *)

(* What a leaf looks like from outside. *)
Inductive lobs :=
| ObsFile (size : Z) (x : bool) (data : option string)   (* None: read failed *)
| ObsSym (t : string)
| ObsLocal.

Record out := mkOut {
  o_status : status;
  o_child : option cdesc;
  o_entries : list (string * cdesc);
  o_fetches : list (digest * fres);        (* GetDirectory calls of this operation *)
  o_ndirs : nat;                           (* directory objects after the call *)
  o_nleaves : nat;                         (* leaf objects after the call *)
  o_links : list (nat * Z);                (* leaves created or whose link count changed *)
  o_obs : option lobs;                     (* leaf operations: the leaf afterwards *)
  o_cas_ok : bool }.                       (* the fake CAS saw no Put and is unchanged *)

Definition ldesc_of (k : leafkind) : ldesc :=
  match k with KCas d x => LFile d x | KSym t => LSym t | KLocal => LLocal end.

Definition desc (s : state) (ch : child) : cdesc :=
  match ch with
  | CDir j => DDir j
  | CLeaf l => match nth_error (st_leaves s) l with
               | Some lf => DLeaf l (ldesc_of (l_kind lf))
               | None => DLeaf l LLocal
               end
  end.

Definition info (s : state) (ch : child) : cdesc :=
  match ch with
  | CDir _ => DInfoDir
  | CLeaf l => match nth_error (st_leaves s) l with
               | Some lf => match l_kind lf with
                            | KCas _ x => DInfoLeaf 0 x
                            | KSym _ => DInfoLeaf 1 true
                            | KLocal => DInfoLeaf 0 false
                            end
               | None => DInfoLeaf 0 false
               end
  end.

Fixpoint links_diff (old new : list leafobj) (i : nat) : list (nat * Z) :=
  match old, new with
  | o :: old', n :: new' =>
    if Z.eqb (l_nlink o) (l_nlink n) then links_diff old' new' (S i)
    else (i, l_nlink n) :: links_diff old' new' (S i)
  | [], n :: new' => (i, l_nlink n) :: links_diff [] new' (S i)
  | _, [] => []
  end.

Definition mk_out (s0 s1 : state) (st : status) (ch : option cdesc) (es : list (string * cdesc))
    (lg : list (digest * fres)) : out :=
  mkOut st ch es lg (List.length (st_dirs s1)) (List.length (st_leaves s1))
        (links_diff (st_leaves s0) (st_leaves s1) 0) None true.

Definition err_status (virt : bool) (code : nat) : status := if virt then SIO else SCode code.

Definition entries_of (s : state) (i : nat) : list (string * child) :=
  match nth_error (st_dirs s) i with Some o => d_entries o | None => [] end.

Definition deleted_of (s : state) (i : nat) : bool :=
  match nth_error (st_dirs s) i with Some o => d_deleted o | None => false end.

(* Change the entry list of directory [i] by a local modification. *)
Definition modify (s : state) (i : nat) (f : list (string * child) -> list (string * child)) : state :=
  match nth_error (st_dirs s) i with
  | Some o => set_dir s i (mkDir (d_lazy o) (f (d_entries o)) (d_deleted o) (d_born o) false)
  | None => s
  end.

Definition mark_deleted (s : state) (i : nat) : state :=
  match nth_error (st_dirs s) i with
  | Some o => set_dir s i (mkDir (d_lazy o) (d_entries o) true (d_born o) (d_pristine o))
  | None => s
  end.

Definition add_link (s : state) (l : nat) (dz : Z) : state :=
  match nth_error (st_leaves s) l with
  | Some x => set_leaf s l (mkLeaf (l_kind x) (l_nlink x + dz))
  | None => s
  end.

Definition valid_dir (s : state) (i : nat) : bool := i <? List.length (st_dirs s).
Definition valid_leaf (s : state) (l : nat) : bool := l <? List.length (st_leaves s).

(* VirtualOpenSelf of a leaf. *)
Definition open_self (k : leafkind) (rd wr trunc : bool) : status :=
  match k with
  | KCas _ _ => if wr || trunc then SAccess else SOK
  | KSym _ => SSymlink
  | KLocal => SOK
  end.

Definition observe (b : blobs) (s : state) (l : nat) : option lobs :=
  match nth_error (st_leaves s) l with
  | None => None
  | Some lf =>
    Some match l_kind lf with
         | KCas d x =>
           ObsFile (snd d) x
             (if (snd d =? 0)%Z then Some ""
              else match blob_get b d with
                   | Some v => if (Z.to_nat (snd d) <=? String.length v)
                               then Some (substring 0 (Z.to_nat (snd d)) v) else None
                   | None => None
                   end)
         | KSym t => ObsSym t
         | KLocal => ObsLocal
         end
  end.

Definition leaf_out (b : blobs) (s : state) (l : nat) (st : status) : out :=
  mkOut st None [] [] (List.length (st_dirs s)) (List.length (st_leaves s)) [] (observe b s l) true.

Definition skip (s : state) : state * out := (s, mk_out s s SSkip None [] []).

(* createChildren of the (unsorted) result of one FetchContents into
   directory [i] whose contents are initialised. *)
Definition create_children (s : state) (i : nat) (ch : list (string * ichild)) (base : nat)
    (merged : option digest) : state :=
  match nth_error (st_dirs s) i with
  | None => s
  | Some o =>
    let '(ds', es) := attach_children (st_dirs s) base (sort_children ch) in
    mkState (set_nth ds' i (mkDir (d_lazy o) (d_entries o ++ es) (d_deleted o)
                                  (match merged with Some d => Some d | None => d_born o end)
                                  (match merged with Some _ => true | None => false end)))
            (st_leaves s)
  end.

Definition step (c : cas) (b : blobs) (s : state) (o : op) : state * out :=
  match o with
  | OMerge i d fs =>
    if negb (valid_dir s i) then skip s else
    (* FetchContents of a new fetcher for [d] ... *)
    match fetch c d fs with
    | (FetErr code, lvs, lg, _) =>
      let s1 := mkState (st_dirs s) (add_leaves (st_leaves s) lvs 0) in
      (s1, mk_out s s1 (SCode code) None [] [lg])
    | (FetOk ch, lvs, lg, fs1) =>
      let base := List.length (st_leaves s) in
      let s1 := mkState (st_dirs s) (add_leaves (st_leaves s) lvs 1) in
      (* ... then CreateChildren(children, false) on [i] *)
      match force c s1 i fs1 with
      | (s2, lg2, Some code, _) => (s2, mk_out s s2 (SCode code) None [] (lg :: lg2))
      | (s2, lg2, None, _) =>
        if deleted_of s2 i then (s2, mk_out s s2 SNoEnt None [] (lg :: lg2))
        else if existsb (fun e => mem_name (fst e) (entries_of s2 i)) ch
        then (s2, mk_out s s2 SExist None [] (lg :: lg2))
        else
          let empty_local :=
            match nth_error (st_dirs s2) i with
            | Some o => d_pristine o && match d_born o with None => true | Some _ => false end
                        && match d_entries o with [] => true | _ => false end
            | None => false
            end in
          (* ghost: a never modified empty local directory becomes the tree of [d] *)
          let s3 := create_children s2 i ch base (if empty_local then Some d else None) in
          (s3, mk_out s s3 SOK None [] (lg :: lg2))
      end
    end

  | OAttach i n d fs =>
    if negb (valid_dir s i) then skip s else
    match force c s i fs with
    | (s1, lg, Some code, _) => (s1, mk_out s s1 (SCode code) None [] lg)
    | (s1, lg, None, _) =>
      if deleted_of s1 i then (s1, mk_out s s1 SNoEnt None [] lg)
      else if mem_name n (entries_of s1 i) then (s1, mk_out s s1 SExist None [] lg)
      else
        let j := List.length (st_dirs s1) in
        let s2 := mkState (st_dirs s1 ++ [new_cas_dir d]) (st_leaves s1) in
        let s3 := modify s2 i (fun es => es ++ [(n, CDir j)]) in
        (s3, mk_out s s3 SOK (Some (DDir j)) [] lg)
    end

  | OLookup i n virt fs =>
    if negb (valid_dir s i) then skip s else
    match force c s i fs with
    | (s1, lg, Some code, _) => (s1, mk_out s s1 (err_status virt code) None [] lg)
    | (s1, lg, None, _) =>
      match find_entry n (entries_of s1 i) with
      | None => (s1, mk_out s s1 SNoEnt None [] lg)
      | Some ch => (s1, mk_out s s1 SOK (Some (desc s1 ch)) [] lg)
      end
    end

  | OReadDir i virt fs =>
    if negb (valid_dir s i) then skip s else
    match force c s i fs with
    | (s1, lg, Some code, _) => (s1, mk_out s s1 (err_status virt code) None [] lg)
    | (s1, lg, None, _) =>
      let es := entries_of s1 i in
      (s1, mk_out s s1 SOK None
             (if virt then map (fun e => (fst e, desc s1 (snd e))) es
              else sort_children (map (fun e => (fst e, info s1 (snd e))) es)) lg)
    end

  | OOpen i n rd wr trunc existing create fs =>
    if negb (valid_dir s i) then skip s else
    match force c s i fs with
    | (s1, lg, Some code, _) => (s1, mk_out s s1 SIO None [] lg)
    | (s1, lg, None, _) =>
      match find_entry n (entries_of s1 i) with
      | Some ch =>
        if negb existing then (s1, mk_out s s1 SExist None [] lg)
        else match ch with
             | CDir _ => (s1, mk_out s s1 SIsDir None [] lg)
             | CLeaf l =>
               match nth_error (st_leaves s1) l with
               | Some lf => (s1, mk_out s s1 (open_self (l_kind lf) rd wr trunc) (Some (desc s1 ch)) [] lg)
               | None => (s1, mk_out s s1 SOther None [] lg)
               end
             end
      | None =>
        if deleted_of s1 i || negb create then (s1, mk_out s s1 SNoEnt None [] lg)
        else
          let l := List.length (st_leaves s1) in
          let s2 := mkState (st_dirs s1) (st_leaves s1 ++ [mkLeaf KLocal 1]) in
          let s3 := modify s2 i (fun es => es ++ [(n, CLeaf l)]) in
          (s3, mk_out s s3 SOK (Some (DLeaf l LLocal)) [] lg)
      end
    end

  | OMkdir i n fs =>
    if negb (valid_dir s i) then skip s else
    match force c s i fs with
    | (s1, lg, Some code, _) => (s1, mk_out s s1 SIO None [] lg)
    | (s1, lg, None, _) =>
      if deleted_of s1 i then (s1, mk_out s s1 SNoEnt None [] lg)
      else if mem_name n (entries_of s1 i) then (s1, mk_out s s1 SExist None [] lg)
      else
        let j := List.length (st_dirs s1) in
        let s2 := mkState (st_dirs s1 ++ [new_local_dir]) (st_leaves s1) in
        let s3 := modify s2 i (fun es => es ++ [(n, CDir j)]) in
        (s3, mk_out s s3 SOK (Some (DDir j)) [] lg)
    end

  | ORemove i n rmdir rmleaf virt fs =>
    if negb (valid_dir s i) then skip s else
    match force c s i fs with
    | (s1, lg, Some code, _) => (s1, mk_out s s1 (err_status virt code) None [] lg)
    | (s1, lg, None, fs1) =>
      match find_entry n (entries_of s1 i) with
      | None => (s1, mk_out s s1 SNoEnt None [] lg)
      | Some (CDir j) =>
        if negb rmdir then (s1, mk_out s s1 SPerm None [] lg)
        else match force c s1 j fs1 with
             | (s2, lg2, Some code, _) => (s2, mk_out s s2 (err_status virt code) None [] (lg ++ lg2))
             | (s2, lg2, None, _) =>
               match entries_of s2 j with
               | _ :: _ => (s2, mk_out s s2 SNotEmpty None [] (lg ++ lg2))
               | [] =>
                 let s3 := modify (mark_deleted s2 j) i (remove_entry n) in
                 (s3, mk_out s s3 SOK None [] (lg ++ lg2))
               end
             end
      | Some (CLeaf l) =>
        if negb rmleaf then (s1, mk_out s s1 SNotDir None [] lg)
        else
          let s2 := modify (add_link s1 l (-1)) i (remove_entry n) in
          (s2, mk_out s s2 SOK None [] lg)
      end
    end

  | ORename i n j n2 fs =>
    if negb (valid_dir s i && valid_dir s j) then skip s else
    match force c s i fs with
    | (s1, lg, Some code, _) => (s1, mk_out s s1 SIO None [] lg)
    | (s1, lg, None, fs1) =>
      match force c s1 j fs1 with
      | (s2, lg2, Some code, _) => (s2, mk_out s s2 SIO None [] (lg ++ lg2))
      | (s2, lg2, None, fs2) =>
        let lg12 := lg ++ lg2 in
        match find_entry n2 (entries_of s2 j) with
        | Some newch =>
          match find_entry n (entries_of s2 i) with
          | None => (s2, mk_out s s2 SNoEnt None [] lg12)
          | Some oldch =>
            match newch, oldch with
            | CDir nd, CLeaf _ => (s2, mk_out s s2 SIsDir None [] lg12)
            | CDir nd, CDir od =>
              if nd =? od then (s2, mk_out s s2 SOK None [] lg12)
              else match force c s2 nd fs2 with
                   | (s3, lg3, Some code, _) => (s3, mk_out s s3 SIO None [] (lg12 ++ lg3))
                   | (s3, lg3, None, _) =>
                     match entries_of s3 nd with
                     | _ :: _ => (s3, mk_out s s3 SNotEmpty None [] (lg12 ++ lg3))
                     | [] =>
                       let s4 := modify s3 i (remove_entry n) in
                       let s5 := modify s4 j (remove_entry n2) in
                       let s6 := mark_deleted s5 nd in
                       let s7 := modify s6 j (fun es => es ++ [(n2, oldch)]) in
                       (s7, mk_out s s7 SOK None [] (lg12 ++ lg3))
                     end
                   end
            | CLeaf _, CDir _ => (s2, mk_out s s2 SNotDir None [] lg12)
            | CLeaf nl, CLeaf ol =>
              if nl =? ol then (s2, mk_out s s2 SOK None [] lg12)
              else
                let s4 := modify s2 i (remove_entry n) in
                let s5 := modify s4 j (remove_entry n2) in
                let s6 := add_link s5 nl (-1) in
                let s7 := modify s6 j (fun es => es ++ [(n2, oldch)]) in
                (s7, mk_out s s7 SOK None [] lg12)
            end
          end
        | None =>
          if deleted_of s2 j then (s2, mk_out s s2 SNoEnt None [] lg12)
          else match find_entry n (entries_of s2 i) with
               | None => (s2, mk_out s s2 SNoEnt None [] lg12)
               | Some oldch =>
                 let s4 := modify s2 i (remove_entry n) in
                 let s5 := modify s4 j (fun es => es ++ [(n2, oldch)]) in
                 (s5, mk_out s s5 SOK None [] lg12)
               end
        end
      end
    end

  | OLink i n l fs =>
    if negb (valid_dir s i && valid_leaf s l) then skip s else
    match force c s i fs with
    | (s1, lg, Some code, _) => (s1, mk_out s s1 SIO None [] lg)
    | (s1, lg, None, _) =>
      if deleted_of s1 i then (s1, mk_out s s1 SNoEnt None [] lg)
      else if mem_name n (entries_of s1 i) then (s1, mk_out s s1 SExist None [] lg)
      else
        let s2 := modify (add_link s1 l 1) i (fun es => es ++ [(n, CLeaf l)]) in
        (s2, mk_out s s2 SOK (Some (desc s2 (CLeaf l))) [] lg)
    end

  | OOpenSelf l rd wr trunc =>
    match nth_error (st_leaves s) l with
    | None => skip s
    | Some lf => (s, leaf_out b s l (open_self (l_kind lf) rd wr trunc))
    end

  | OSetAttr l a =>
    match nth_error (st_leaves s) l with
    | None => skip s
    | Some lf =>
      (s, leaf_out b s l
            match l_kind lf, a with
            | KCas _ _, ASize => SAccess
            | KCas _ _, AOwner => SPerm
            | KCas _ _, APerm => SOK      (* chmod is accepted and has no effect *)
            | KSym _, ASize => SInval
            | KSym _, AOwner => SPerm
            | KSym _, APerm => SOK
            | KLocal, _ => SOK
            end)
    end

  | OWrite l =>
    match nth_error (st_leaves s) l with
    | None => skip s
    | Some lf =>
      (s, leaf_out b s l match l_kind lf with KCas _ _ => SPanic | KSym _ => SPanic | KLocal => SOK end)
    end

  | OAllocate l =>
    match nth_error (st_leaves s) l with
    | None => skip s
    | Some lf =>
      (s, leaf_out b s l match l_kind lf with KCas _ _ => SWrongType | KSym _ => SWrongType | KLocal => SOK end)
    end

  | ORead l =>
    match nth_error (st_leaves s) l with
    | None => skip s
    | Some lf => (s, leaf_out b s l SOK)
    end
  end.

Fixpoint run (c : cas) (b : blobs) (s : state) (ops : list op) : state :=
  match ops with
  | [] => s
  | o :: r => run c b (fst (step c b s o)) r
  end.

Fixpoint trace (c : cas) (b : blobs) (s : state) (ops : list op) : list (op * out) :=
  match ops with
  | [] => []
  | o :: r => let '(s', x) := step c b s o in (o, x) :: trace c b s' r
  end.

(* ---- Denotation: the tree a digest names ---------------------------------- *)

Inductive tree :=
| TDir (es : list (string * tree))     (* sorted by name *)
| TFile (d : digest) (x : bool)
| TSym (t : string).

Fixpoint map_opt {A B} (f : A -> option B) (l : list A) : option (list B) :=
  match l with
  | [] => Some []
  | x :: r => match f x, map_opt f r with
              | Some y, Some ys => Some (y :: ys)
              | _, _ => None
              end
  end.

Definition leaf_tree (k : leafkind) : option tree :=
  match k with
  | KCas d x => Some (TFile d x)
  | KSym t => Some (TSym t)
  | KLocal => None
  end.

(* [denote_f k c d]: the tree of [d], None when a Directory below it is
   missing or malformed, or the nesting exceeds [k]. *)
Fixpoint denote_f (k : nat) (c : cas) (d : digest) : option tree :=
  match k with
  | O => None
  | S k' =>
    match cas_get c d with
    | None => None
    | Some m =>
      match validate m with
      | (None, _) => None
      | (Some ch, lvs) =>
        option_map TDir
          (map_opt (fun e : string * ichild =>
                      match snd e with
                      | ICDir d' => option_map (fun t => (fst e, t)) (denote_f k' c d')
                      | ICLeaf n => match nth_error lvs n with
                                    | Some lk => option_map (fun t => (fst e, t)) (leaf_tree lk)
                                    | None => None
                                    end
                      end) (sort_children ch))
      end
    end
  end.

(* Fuel = number of Directory messages: enough for every acyclic map. *)
Definition denote (c : cas) (d : digest) : option tree := denote_f (S (List.length c)) c d.

(* [reveal k c s i]: what a complete exploration of directory object [i]
   (without storage errors) would show, to nesting depth [k]. *)
Fixpoint reveal (k : nat) (c : cas) (s : state) (i : nat) : option tree :=
  match k with
  | O => None
  | S k' =>
    match nth_error (st_dirs s) i with
    | None => None
    | Some o =>
      match d_lazy o with
      | LCas d => denote_f k c d
      | LEmpty => Some (TDir [])
      | LNone =>
        option_map TDir
          (map_opt (fun e : string * child =>
                      match snd e with
                      | CDir j => option_map (fun t => (fst e, t)) (reveal k' c s j)
                      | CLeaf l => match nth_error (st_leaves s) l with
                                   | Some lf => option_map (fun t => (fst e, t)) (leaf_tree (l_kind lf))
                                   | None => None
                                   end
                      end) (d_entries o))
      end
    end
  end.

(* ---- The identity handed to the stateless handle allocator ------------------ *)

(* stateless_handle_allocating_cas_file_factory.go: every CAS backed file is
   created through StatelessHandleAllocator.New(&casFileID{blobDigest,
   isExecutable}); handle allocators derive the inode number / file handle
   from the bytes casFileID.WriteTo writes, and the NFSv4 one returns the
   leaf it already has for these bytes.  Bytes are numbers here.

   binary.PutUvarint into a [binary.MaxVarintLen64]byte buffer: seven bits
   per byte, least significant group first, bit 7 set on every byte but the
   last; ten bytes hold every uint64 (the fuel). *)
Fixpoint uvarint_f (fuel : nat) (x : N) : list N :=
  match fuel with
  | O => [x]
  | S f => if (x <? 128)%N then [x]
           else ((x mod 128) + 128)%N :: uvarint_f f (x / 128)%N
  end.

Definition uvarint (x : N) : list N := uvarint_f 9 x.

Fixpoint bytes_of (s : string) : list N :=
  match s with
  | EmptyString => []
  | String c r => N_of_ascii c :: bytes_of r
  end.

(* ByteSliceID.WriteTo: the length of the slice as a uvarint, then the slice. *)
Definition byte_slice_id (data : string) : list N :=
  uvarint (N.of_nat (String.length data)) ++ bytes_of data.

(* casFileID.WriteTo: ByteSliceID(blobDigest.GetKey(KeyWithInstance)), then
   one byte for isExecutable. *)
Definition file_identity (key : string) (executable : bool) : list N :=
  byte_slice_id key ++ [if executable then 1%N else 0%N].

(* strconv / fmt "%d" of a size that passed NewDigest (never negative). *)
Definition dec (z : Z) : string := NilEmpty.string_of_uint (N.to_uint (Z.to_N z)).

(* Digest.GetKey(KeyWithInstance) = the digest's value string:
   "<digest function enum>-<hash>-<size>-<instance name>". *)
Definition digest_key (fn inst : string) (d : digest) : string :=
  fn ++ "-" ++ fst d ++ "-" ++ dec (snd d) ++ "-" ++ inst.

Definition leaf_identity (fn inst : string) (k : leafkind) : option (list N) :=
  match k with
  | KCas d x => Some (file_identity (digest_key fn inst d) x)
  | _ => None
  end.

(* The leaves that were created through the stateless allocator, with what
   it was given, in creation order. *)
Fixpoint leaf_ids (fn inst : string) (i : nat) (ls : list leafobj) : list (nat * list N) :=
  match ls with
  | [] => []
  | lf :: r =>
    match leaf_identity fn inst (l_kind lf) with
    | Some id => (i, id) :: leaf_ids fn inst (S i) r
    | None => leaf_ids fn inst (S i) r
    end
  end.

Fixpoint bytes_eqb (a b : list N) : bool :=
  match a, b with
  | [], [] => true
  | x :: a', y :: b' => N.eqb x y && bytes_eqb a' b'
  | _, _ => false
  end.

Fixpoint index_of (x : list N) (tab : list (list N)) : nat :=
  match tab with
  | [] => O
  | y :: r => if bytes_eqb y x then O else S (index_of x r)
  end.

Definition add_new (tab : list (list N)) (x : list N) : list (list N) :=
  if existsb (bytes_eqb x) tab then tab else tab ++ [x].

(* The distinct identities in order of first appearance; a leaf's token is
   the index of its identity (for the NFSv4 allocator: the inode number
   the identity hashes to; equal token = one file for the kernel). *)
Definition id_table (ids : list (nat * list N)) : list (list N) :=
  fold_left add_new (map snd ids) [].

Definition model_idents (fn inst : string) (s : state) : list (nat * N) * list (list N) :=
  let ids := leaf_ids fn inst 0 (st_leaves s) in
  let tab := id_table ids in
  (map (fun p => (fst p, N.of_nat (index_of (snd p) tab))) ids, tab).
