(* C17 proofs, part 1: leaves.  No operation ever changes the kind of a leaf
   object; every mutation attempt on a CAS backed file is refused and
   changes nothing; what a CAS backed file shows is a function of its
   digest, its executable bit and the blob store. *)
From VF Require Import Cas.Model Cas.Spec.
From Coq Require Import Lia.
Open Scope string_scope.
Open Scope nat_scope.
Open Scope list_scope.

(* ---- lists ------------------------------------------------------------------ *)

Lemma set_nth_length : forall A (l : list A) i x, List.length (set_nth l i x) = List.length l.
Proof. induction l as [|h t IH]; intros [|i] x; simpl; auto. Qed.

Lemma nth_set_nth_eq : forall A (l : list A) i x, i < List.length l -> nth_error (set_nth l i x) i = Some x.
Proof.
  induction l as [|h t IH]; intros [|i] x Hi; simpl in *; try lia; auto.
  apply IH. lia.
Qed.

Lemma nth_set_nth_neq : forall A (l : list A) i j x, i <> j -> nth_error (set_nth l i x) j = nth_error l j.
Proof.
  induction l as [|h t IH]; intros [|i] [|j] x Hij; simpl; auto; try congruence.
Qed.

Lemma nth_error_app_l : forall A (l r : list A) i x, nth_error l i = Some x -> nth_error (l ++ r) i = Some x.
Proof.
  intros A l r i x H. rewrite nth_error_app1; auto. apply nth_error_Some. congruence.
Qed.

(* ---- "the leaves of s' extend those of s, kinds unchanged" ----------------- *)

Definition leaves_ext (ls ls' : list leafobj) : Prop :=
  forall l lf, nth_error ls l = Some lf ->
    exists lf', nth_error ls' l = Some lf' /\ l_kind lf' = l_kind lf.

Lemma leaves_ext_refl : forall ls, leaves_ext ls ls.
Proof. intros ls l lf H. eauto. Qed.

Lemma leaves_ext_trans : forall a b c, leaves_ext a b -> leaves_ext b c -> leaves_ext a c.
Proof.
  intros a b c H1 H2 l lf H. destruct (H1 _ _ H) as [lf' [Hb Hk]].
  destruct (H2 _ _ Hb) as [lf'' [Hc Hk']]. exists lf''. split; auto. congruence.
Qed.

Lemma leaves_ext_app : forall ls r, leaves_ext ls (ls ++ r).
Proof. intros ls r l lf H. exists lf. split; auto. apply nth_error_app_l; auto. Qed.

Lemma leaves_ext_set : forall ls l x lf0,
  nth_error ls l = Some lf0 -> l_kind x = l_kind lf0 -> leaves_ext ls (set_nth ls l x).
Proof.
  intros ls l x lf0 H0 Hk l' lf H. destruct (Nat.eq_dec l l') as [->|Hne].
  - exists x. split.
    + apply nth_set_nth_eq. apply nth_error_Some. congruence.
    + congruence.
  - exists lf. split; auto. rewrite nth_set_nth_neq; auto.
Qed.

Definition sext (s s' : state) : Prop := leaves_ext (st_leaves s) (st_leaves s').

Lemma sext_refl : forall s, sext s s.
Proof. intros; apply leaves_ext_refl. Qed.

Lemma sext_trans : forall a b c, sext a b -> sext b c -> sext a c.
Proof. unfold sext; intros; eapply leaves_ext_trans; eauto. Qed.

Lemma sext_same_leaves : forall s s', st_leaves s' = st_leaves s -> sext s s'.
Proof. unfold sext; intros s s' ->. apply leaves_ext_refl. Qed.

Lemma sext_modify : forall s i f, sext s (modify s i f).
Proof.
  intros. apply sext_same_leaves. unfold modify. destruct (nth_error (st_dirs s) i); auto.
Qed.

Lemma sext_mark_deleted : forall s i, sext s (mark_deleted s i).
Proof.
  intros. apply sext_same_leaves. unfold mark_deleted. destruct (nth_error (st_dirs s) i); auto.
Qed.

Lemma sext_add_link : forall s l dz, sext s (add_link s l dz).
Proof.
  intros. unfold add_link, sext. destruct (nth_error (st_leaves s) l) eqn:E.
  - simpl. eapply leaves_ext_set; eauto.
  - apply leaves_ext_refl.
Qed.

Lemma sext_create_children : forall s i ch base m, sext s (create_children s i ch base m).
Proof.
  intros. apply sext_same_leaves. unfold create_children.
  destruct (nth_error (st_dirs s) i); auto.
  destruct (attach_children (st_dirs s) base (sort_children ch)); auto.
Qed.

Lemma sext_force : forall c s i fs s1 lg r fs1,
  force c s i fs = (s1, lg, r, fs1) -> sext s s1.
Proof.
  intros c s i fs s1 lg r fs1 H. unfold force in H.
  destruct (nth_error (st_dirs s) i) as [o|]; [|inversion H; subst; apply sext_refl].
  destruct (d_lazy o).
  - inversion H; subst; apply sext_refl.
  - inversion H; subst. apply sext_same_leaves; auto.
  - destruct (fetch c d fs) as [[[r0 lvs] lg0] fs0]. destruct r0.
    + inversion H; subst. unfold sext; simpl. apply leaves_ext_app.
    + destruct (attach_children (st_dirs s) (List.length (st_leaves s)) (sort_children children)).
      inversion H; subst. unfold sext; simpl. apply leaves_ext_app.
Qed.

(* Every operation extends the leaves. *)
Lemma sext_step : forall c b s o, sext s (fst (step c b s o)).
Proof.
  intros c b s o.
  assert (Hskip : sext s (fst (skip s))) by apply sext_refl.
  destruct o; simpl.
  - (* OMerge *)
    destruct (negb (valid_dir s i)); auto.
    destruct (fetch c d fs) as [[[r0 lvs] lg0] fs0]. destruct r0; simpl.
    + unfold sext; simpl. apply leaves_ext_app.
    + set (s1 := {| st_dirs := st_dirs s; st_leaves := add_leaves (st_leaves s) lvs 1 |}).
      assert (H1 : sext s s1) by (unfold sext; simpl; apply leaves_ext_app).
      destruct (force c s1 i fs0) as [[[s2 lg2] r2] fs2] eqn:Ef.
      pose proof (sext_force _ _ _ _ _ _ _ _ Ef) as H2.
      destruct r2; simpl; [eapply sext_trans; eauto|].
      destruct (deleted_of s2 i); simpl; [eapply sext_trans; eauto|].
      destruct (existsb _ children); simpl; [eapply sext_trans; eauto|].
      eapply sext_trans; [eapply sext_trans; eauto|]. apply sext_create_children.
  - (* OAttach *)
    destruct (negb (valid_dir s i)); auto.
    destruct (force c s i fs) as [[[s1 lg] r] fs1] eqn:Ef.
    pose proof (sext_force _ _ _ _ _ _ _ _ Ef) as H1.
    destruct r; simpl; auto.
    destruct (deleted_of s1 i); simpl; auto.
    destruct (mem_name n (entries_of s1 i)); simpl; auto.
    eapply sext_trans; eauto. eapply sext_trans; [|apply sext_modify]. apply sext_same_leaves; auto.
  - (* OLookup *)
    destruct (negb (valid_dir s i)); auto.
    destruct (force c s i fs) as [[[s1 lg] r] fs1] eqn:Ef.
    pose proof (sext_force _ _ _ _ _ _ _ _ Ef) as H1.
    destruct r; simpl; auto.
    destruct (find_entry n (entries_of s1 i)); simpl; auto.
  - (* OReadDir *)
    destruct (negb (valid_dir s i)); auto.
    destruct (force c s i fs) as [[[s1 lg] r] fs1] eqn:Ef.
    pose proof (sext_force _ _ _ _ _ _ _ _ Ef) as H1.
    destruct r; simpl; auto.
  - (* OOpen *)
    destruct (negb (valid_dir s i)); auto.
    destruct (force c s i fs) as [[[s1 lg] r] fs1] eqn:Ef.
    pose proof (sext_force _ _ _ _ _ _ _ _ Ef) as H1.
    destruct r; simpl; auto.
    destruct (find_entry n (entries_of s1 i)) as [ch|]; simpl.
    + destruct (negb existing); simpl; auto. destruct ch; simpl; auto.
      destruct (nth_error (st_leaves s1) l); simpl; auto.
    + destruct (deleted_of s1 i || negb create); simpl; auto.
      eapply sext_trans; eauto. eapply sext_trans; [|apply sext_modify].
      unfold sext; simpl. apply leaves_ext_app.
  - (* OMkdir *)
    destruct (negb (valid_dir s i)); auto.
    destruct (force c s i fs) as [[[s1 lg] r] fs1] eqn:Ef.
    pose proof (sext_force _ _ _ _ _ _ _ _ Ef) as H1.
    destruct r; simpl; auto.
    destruct (deleted_of s1 i); simpl; auto.
    destruct (mem_name n (entries_of s1 i)); simpl; auto.
    eapply sext_trans; eauto. eapply sext_trans; [|apply sext_modify]. apply sext_same_leaves; auto.
  - (* ORemove *)
    destruct (negb (valid_dir s i)); auto.
    destruct (force c s i fs) as [[[s1 lg] r] fs1] eqn:Ef.
    pose proof (sext_force _ _ _ _ _ _ _ _ Ef) as H1.
    destruct r; simpl; auto.
    destruct (find_entry n (entries_of s1 i)) as [[j|l]|]; simpl; auto.
    + destruct (negb rmdir); simpl; auto.
      destruct (force c s1 j fs1) as [[[s2 lg2] r2] fs2] eqn:Ef2.
      pose proof (sext_force _ _ _ _ _ _ _ _ Ef2) as H2.
      destruct r2; simpl; [eapply sext_trans; eauto|].
      destruct (entries_of s2 j); simpl; [|eapply sext_trans; eauto].
      eapply sext_trans; [eapply sext_trans; eauto|].
      eapply sext_trans; [apply sext_mark_deleted|apply sext_modify].
    + destruct (negb rmleaf); simpl; auto.
      eapply sext_trans; eauto. eapply sext_trans; [apply sext_add_link|apply sext_modify].
  - (* ORename *)
    destruct (negb (valid_dir s i && valid_dir s j)); auto.
    destruct (force c s i fs) as [[[s1 lg] r] fs1] eqn:Ef.
    pose proof (sext_force _ _ _ _ _ _ _ _ Ef) as H1.
    destruct r; simpl; auto.
    destruct (force c s1 j fs1) as [[[s2 lg2] r2] fs2] eqn:Ef2.
    pose proof (sext_force _ _ _ _ _ _ _ _ Ef2) as H2.
    assert (H12 : sext s s2) by (eapply sext_trans; eauto).
    destruct r2; simpl; auto.
    destruct (find_entry n2 (entries_of s2 j)) as [newch|]; simpl.
    + destruct (find_entry n (entries_of s2 i)) as [oldch|]; simpl; auto.
      destruct newch as [nd|nl], oldch as [od|ol]; simpl; auto.
      * destruct (nd =? od); simpl; auto.
        destruct (force c s2 nd fs2) as [[[s3 lg3] r3] fs3] eqn:Ef3.
        pose proof (sext_force _ _ _ _ _ _ _ _ Ef3) as H3.
        assert (H13 : sext s s3) by (eapply sext_trans; eauto).
        destruct r3; simpl; auto.
        destruct (entries_of s3 nd); simpl; auto.
        eapply sext_trans; [exact H13|].
        eapply sext_trans; [apply sext_modify|].
        eapply sext_trans; [apply sext_modify|].
        eapply sext_trans; [apply sext_mark_deleted|apply sext_modify].
      * destruct (nl =? ol); simpl; auto.
        eapply sext_trans; [exact H12|].
        eapply sext_trans; [apply sext_modify|].
        eapply sext_trans; [apply sext_modify|].
        eapply sext_trans; [apply sext_add_link|apply sext_modify].
    + destruct (deleted_of s2 j); simpl; auto.
      destruct (find_entry n (entries_of s2 i)); simpl; auto.
      eapply sext_trans; [exact H12|].
      eapply sext_trans; [apply sext_modify|apply sext_modify].
  - (* OLink *)
    destruct (negb (valid_dir s i && valid_leaf s l)); auto.
    destruct (force c s i fs) as [[[s1 lg] r] fs1] eqn:Ef.
    pose proof (sext_force _ _ _ _ _ _ _ _ Ef) as H1.
    destruct r; simpl; auto.
    destruct (deleted_of s1 i); simpl; auto.
    destruct (mem_name n (entries_of s1 i)); simpl; auto.
    eapply sext_trans; eauto. eapply sext_trans; [apply sext_add_link|apply sext_modify].
  - destruct (nth_error (st_leaves s) l); simpl; auto; apply sext_refl.
  - destruct (nth_error (st_leaves s) l); simpl; auto; apply sext_refl.
  - destruct (nth_error (st_leaves s) l); simpl; auto; apply sext_refl.
  - destruct (nth_error (st_leaves s) l); simpl; auto; apply sext_refl.
  - destruct (nth_error (st_leaves s) l); simpl; auto; apply sext_refl.
Qed.

Lemma sext_run : forall c b ops s, sext s (run c b s ops).
Proof.
  intros c b ops. induction ops as [|o r IH]; intros s; simpl.
  - apply sext_refl.
  - eapply sext_trans; [apply sext_step|apply IH].
Qed.

(* ---- what a leaf shows depends on its kind only ------------------------------ *)

Definition obs_of_kind (b : blobs) (k : leafkind) : lobs :=
  match k with
  | KCas d x => ObsFile (snd d) x (cas_read b d)
  | KSym t => ObsSym t
  | KLocal => ObsLocal
  end.

Lemma observe_kind : forall b s l lf,
  nth_error (st_leaves s) l = Some lf -> observe b s l = Some (obs_of_kind b (l_kind lf)).
Proof.
  intros b s l lf H. unfold observe. rewrite H. destruct (l_kind lf); reflexivity.
Qed.

(* The leaf a history started with shows the same file after any history:
   same size, executable bit and bytes. *)
Lemma contents_stable : forall c b ops s l lf,
  nth_error (st_leaves s) l = Some lf ->
  observe b (run c b s ops) l = observe b s l.
Proof.
  intros c b ops s l lf H.
  destruct (sext_run c b ops s l lf H) as [lf' [H' Hk]].
  rewrite (observe_kind _ _ _ _ H), (observe_kind _ _ _ _ H'). congruence.
Qed.

(* ---- mutation attempts ---------------------------------------------------------- *)

(* The calls by which a file's bytes or size could be changed. *)
Definition leaf_mutation (o : op) (l : nat) : bool :=
  match o with
  | OOpenSelf l' rd wr trunc => (l' =? l) && (wr || trunc)
  | OSetAttr l' ASize => l' =? l
  | OWrite l' => l' =? l
  | OAllocate l' => l' =? l
  | _ => false
  end.

Lemma mutation_refused : forall c b s o l lf d x,
  nth_error (st_leaves s) l = Some lf -> l_kind lf = KCas d x -> leaf_mutation o l = true ->
  fst (step c b s o) = s /\
  o_status (snd (step c b s o)) <> SOK /\
  o_obs (snd (step c b s o)) = Some (ObsFile (snd d) x (cas_read b d)).
Proof.
  intros c b s o l lf d x Hl Hk Hm.
  pose proof (observe_kind b s l lf Hl) as Hobs. rewrite Hk in Hobs. simpl in Hobs.
  destruct o; simpl in Hm; try discriminate.
  - apply andb_prop in Hm. destruct Hm as [He Hw]. apply Nat.eqb_eq in He. subst l0.
    simpl. rewrite Hl. simpl. rewrite Hk. simpl. rewrite Hw. repeat split; auto. discriminate.
  - destruct a; try discriminate. apply Nat.eqb_eq in Hm. subst l0.
    simpl. rewrite Hl. simpl. rewrite Hk. repeat split; auto. discriminate.
  - apply Nat.eqb_eq in Hm. subst l0.
    simpl. rewrite Hl. simpl. rewrite Hk. repeat split; auto. discriminate.
  - apply Nat.eqb_eq in Hm. subst l0.
    simpl. rewrite Hl. simpl. rewrite Hk. repeat split; auto. discriminate.
Qed.

(* Opening a CAS backed file through its directory for writing or with
   truncation is refused as well. *)
Lemma open_child_refused : forall k rd wr trunc d x,
  k = KCas d x -> wr || trunc = true -> open_self k rd wr trunc = SAccess.
Proof. intros k rd wr trunc d x -> H. simpl. rewrite H. reflexivity. Qed.

(* No leaf operation changes the state at all. *)
Lemma leaf_ops_pure : forall c b s o,
  match o with
  | OOpenSelf _ _ _ _ | OSetAttr _ _ | OWrite _ | OAllocate _ | ORead _ => fst (step c b s o) = s
  | _ => True
  end.
Proof.
  intros c b s o. destruct o; auto; simpl; destruct (nth_error (st_leaves s) l); reflexivity.
Qed.
