(* C17 proofs, part 7: the identity casFileID hands to the stateless handle
   allocator (Model.file_identity) determines the digest key and the
   executable bit, for all inputs; hence on every model trace two CAS backed
   files share an identity token exactly when they are the same file
   (Spec.ident_trace_ok, the predicate Corr.v evaluates on the code). *)
From VF Require Import Cas.Model Cas.Spec Cas.ProofsLeaf Cas.ProofsInv Cas.ProofsStep
  Cas.ProofsMon Cas.ProofsTrace.
From Coq Require Import Lia NArith Nnat DecimalString DecimalN.
Open Scope string_scope.
Open Scope nat_scope.
Open Scope list_scope.

(* ---- binary.PutUvarint is a prefix code ----------------------------------------- *)

Lemma divmod128 : forall a b : N,
  (a / 128 = b / 128)%N -> (a mod 128 = b mod 128)%N -> a = b.
Proof.
  intros a b Hd Hm.
  rewrite (N.div_mod' a 128), (N.div_mod' b 128). rewrite Hd, Hm. reflexivity.
Qed.

Lemma uvarint_f_prefix : forall f a b r1 r2,
  uvarint_f f a ++ r1 = uvarint_f f b ++ r2 -> a = b /\ r1 = r2.
Proof.
  induction f as [|f IH]; intros a b r1 r2 H; simpl in H.
  - injection H as H1 H2. auto.
  - destruct (a <? 128)%N eqn:Ea, (b <? 128)%N eqn:Eb; simpl in H.
    + injection H as H1 H2. auto.
    + injection H as H1 H2. apply N.ltb_lt in Ea.
      exfalso. rewrite H1 in Ea. revert Ea. generalize (b mod 128)%N. intros; lia.
    + injection H as H1 H2. apply N.ltb_lt in Eb.
      exfalso. rewrite <- H1 in Eb. revert Eb. generalize (a mod 128)%N. intros; lia.
    + injection H as H1 H2. destruct (IH _ _ _ _ H2) as [Hd Hr]. split; auto.
      apply divmod128; auto. lia.
Qed.

Lemma uvarint_prefix : forall a b r1 r2, uvarint a ++ r1 = uvarint b ++ r2 -> a = b /\ r1 = r2.
Proof. intros. eapply uvarint_f_prefix; eauto. Qed.

(* Up to 2^63 - 1 the fuel is not exhausted: the last byte is below 128. *)

(* ---- bytes ----------------------------------------------------------------------- *)

Lemma N_of_ascii_inj : forall a b, N_of_ascii a = N_of_ascii b -> a = b.
Proof. intros a b H. rewrite <- (ascii_N_embedding a), <- (ascii_N_embedding b), H. reflexivity. Qed.

Lemma bytes_of_inj : forall s t, bytes_of s = bytes_of t -> s = t.
Proof.
  induction s as [|c s IH]; destruct t as [|d t]; simpl; intros H; try discriminate; auto.
  injection H as H1 H2. f_equal; auto. apply N_of_ascii_inj; auto.
Qed.

Lemma byte_slice_id_prefix : forall k1 k2 r1 r2,
  byte_slice_id k1 ++ r1 = byte_slice_id k2 ++ r2 -> k1 = k2 /\ r1 = r2.
Proof.
  intros k1 k2 r1 r2 H. unfold byte_slice_id in H. rewrite <- !app_assoc in H.
  apply uvarint_prefix in H as [Hl H]. apply Nat2N.inj in Hl.
  assert (Hlen : List.length (bytes_of k1) = List.length (bytes_of k2)).
  { clear H. revert k2 Hl. induction k1; destruct k2; simpl; intros; try discriminate; auto. }
  assert (Hb : bytes_of k1 = bytes_of k2 /\ r1 = r2).
  { revert Hlen H. generalize (bytes_of k1) (bytes_of k2). intros l.
    induction l as [|x l IHl]; intros [|y l0]; simpl; intros Hlen H; try discriminate; auto.
    injection H as H1 H2. injection Hlen as Hlen. destruct (IHl _ Hlen H2). subst. auto. }
  destruct Hb as [Hb Hr]. split; auto. apply bytes_of_inj; auto.
Qed.

(* casFileID.WriteTo determines the key and the executable bit. *)
Lemma file_identity_inj_l : forall k1 x1 k2 x2,
  file_identity k1 x1 = file_identity k2 x2 -> k1 = k2 /\ x1 = x2.
Proof.
  intros k1 x1 k2 x2 H. unfold file_identity in H.
  apply byte_slice_id_prefix in H as [Hk Hx]. split; auto.
  destruct x1, x2; auto; discriminate.
Qed.

(* ---- Digest.GetKey(KeyWithInstance) ---------------------------------------------- *)

Definition not_dash (c : ascii) : bool := negb (Ascii.eqb c "-").

Lemma split_dash : forall s1 s2 r1 r2,
  all_chars not_dash s1 = true -> all_chars not_dash s2 = true ->
  (s1 ++ String "-" r1 = s2 ++ String "-" r2)%string -> s1 = s2 /\ r1 = r2.
Proof.
  induction s1 as [|c s1 IH]; destruct s2 as [|d s2]; simpl; intros r1 r2 H1 H2 H.
  - injection H as H. auto.
  - injection H as Hc Hr. subst d. simpl in H2. discriminate.
  - injection H as Hc Hr. subst c. simpl in H1. discriminate.
  - injection H as Hc Hr. apply andb_prop in H1 as [_ H1]. apply andb_prop in H2 as [_ H2].
    destruct (IH _ _ _ H1 H2 Hr). subst. auto.
Qed.

Lemma all_chars_weaken : forall (p q : ascii -> bool) s,
  (forall c, p c = true -> q c = true) -> all_chars p s = true -> all_chars q s = true.
Proof.
  intros p q s Hpq. induction s as [|c s IH]; simpl; auto.
  intros H. apply andb_prop in H as [H1 H2]. rewrite (Hpq _ H1), (IH H2). reflexivity.
Qed.

Lemma hex_not_dash : forall c, is_lower_hex c = true -> not_dash c = true.
Proof.
  intros c H. unfold not_dash. destruct (Ascii.eqb_spec c "-") as [->|]; auto;
    try (vm_compute in H; discriminate).
Qed.

Lemma dec_uint_not_dash : forall d, all_chars not_dash (NilEmpty.string_of_uint d) = true.
Proof. induction d; simpl; auto. Qed.

Lemma string_of_uint_inj : forall d e, NilEmpty.string_of_uint d = NilEmpty.string_of_uint e -> d = e.
Proof.
  intros d e H. pose proof (NilEmpty.usu d) as Hd. rewrite H, NilEmpty.usu in Hd. congruence.
Qed.

Lemma dec_inj : forall z1 z2, (0 <= z1)%Z -> (0 <= z2)%Z -> dec z1 = dec z2 -> z1 = z2.
Proof.
  intros z1 z2 H1 H2 H. unfold dec in H. apply string_of_uint_inj in H.
  apply Unsigned.to_uint_inj in H. apply Z2N.inj; auto.
Qed.

Lemma append_cancel_l : forall p s t : string, (p ++ s = p ++ t)%string -> s = t.
Proof. induction p; simpl; intros s t H; auto. injection H as H. auto. Qed.

Lemma digest_key_inj_l : forall fn inst d1 d2, valid_digest d1 -> valid_digest d2 ->
  digest_key fn inst d1 = digest_key fn inst d2 -> d1 = d2.
Proof.
  intros fn inst [h1 z1] [h2 z2] [Hh1 Hz1] [Hh2 Hz2] H. unfold digest_key in H. simpl in *.
  apply append_cancel_l in H. injection H as H.
  apply split_dash in H as [Hh H];
    try (eapply all_chars_weaken; [apply hex_not_dash|]; assumption).
  apply split_dash in H as [Hd _]; try apply dec_uint_not_dash.
  apply dec_inj in Hd; auto. subst. reflexivity.
Qed.

Lemma valid_pdigest_valid : forall p d, valid_pdigest p = Some d -> valid_digest d.
Proof.
  intros [[h z]|] d H; simpl in H; [|discriminate].
  destruct ((String.length h =? hash_len) && all_chars is_lower_hex h && (0 <=? z)%Z) eqn:E; [|discriminate].
  injection H as <-. apply andb_prop in E as [E Ez]. apply andb_prop in E as [_ Eh].
  split; simpl; auto. apply Z.leb_le; auto.
Qed.

(* ---- Every CAS backed leaf of the heap has a digest that passed validation -------- *)

Definition kind_valid (k : leafkind) : Prop :=
  match k with KCas d _ => valid_digest d | _ => True end.

Definition leaves_valid (ls : list leafobj) : Prop := Forall (fun lf => kind_valid (l_kind lf)) ls.

Lemma val_files_valid : forall fs acc lvs r lvs',
  Forall kind_valid lvs -> val_files fs acc lvs = (r, lvs') -> Forall kind_valid lvs'.
Proof.
  induction fs as [|e fs IH]; simpl; intros acc lvs r lvs' Hv H.
  - injection H as _ <-. auto.
  - destruct (negb (valid_name (fn_name e))); [injection H as _ <-; auto|].
    destruct (mem_name (fn_name e) acc); [injection H as _ <-; auto|].
    destruct (valid_pdigest (fn_digest e)) as [d|] eqn:Ed; [|injection H as _ <-; auto].
    eapply IH; [|exact H]. apply Forall_app. split; auto. constructor; auto.
    simpl. eapply valid_pdigest_valid; eauto.
Qed.

Lemma val_syms_valid : forall ss acc lvs r lvs',
  Forall kind_valid lvs -> val_syms ss acc lvs = (r, lvs') -> Forall kind_valid lvs'.
Proof.
  induction ss as [|e ss IH]; simpl; intros acc lvs r lvs' Hv H.
  - injection H as _ <-. auto.
  - destruct (negb (valid_name (sn_name e))); [injection H as _ <-; auto|].
    destruct (mem_name (sn_name e) acc); [injection H as _ <-; auto|].
    eapply IH; [|exact H]. apply Forall_app. split; auto. constructor; simpl; auto.
Qed.

Lemma validate_valid : forall m r lvs, validate m = (r, lvs) -> Forall kind_valid lvs.
Proof.
  intros m r lvs H. unfold validate in H.
  destruct (val_dirs (m_dirs m) []) as [acc|]; [|injection H as _ <-; constructor].
  destruct (val_files (m_files m) acc []) as [[acc'|] lvs1] eqn:Ef.
  - eapply val_syms_valid; [|exact H]. eapply val_files_valid; [|exact Ef]. constructor.
  - injection H as _ <-. eapply val_files_valid; [|exact Ef]. constructor.
Qed.

Lemma fetch_valid : forall c d fs r lvs lg fs',
  fetch c d fs = (r, lvs, lg, fs') -> Forall kind_valid lvs.
Proof.
  intros c d fs r lvs lg fs' H. unfold fetch in H.
  assert (G : match cas_get c d with
              | None => (FetErr 5, [], (d, FMissing), tl fs)
              | Some m => match validate m with
                          | (None, lvs) => (FetErr 3, lvs, (d, FOk), tl fs)
                          | (Some ch, lvs) => (FetOk ch, lvs, (d, FOk), tl fs)
                          end
              end = (r, lvs, lg, fs') -> Forall kind_valid lvs).
  { clear H. intros H. destruct (cas_get c d) as [m|]; [|inversion H; constructor].
    destruct (validate m) as [[ch|] lvs0] eqn:Ev; inversion H; subst; eapply validate_valid; eauto. }
  destruct fs as [|[|] fs0]; auto. inversion H; constructor.
Qed.

Lemma add_leaves_valid : forall ls ks n,
  leaves_valid ls -> Forall kind_valid ks -> leaves_valid (add_leaves ls ks n).
Proof.
  intros ls ks n H1 H2. unfold add_leaves, leaves_valid. apply Forall_app. split; auto.
  induction H2; simpl; constructor; auto.
Qed.

Lemma set_nth_valid : forall ls l x,
  leaves_valid ls -> kind_valid (l_kind x) -> leaves_valid (set_nth ls l x).
Proof.
  unfold leaves_valid. induction ls as [|y ls IH]; intros [|l] x H Hx; simpl; auto;
    inversion H; subst; constructor; auto.
Qed.

Definition vext (s s' : state) : Prop := leaves_valid (st_leaves s) -> leaves_valid (st_leaves s').

Lemma vext_refl : forall s, vext s s.
Proof. unfold vext; auto. Qed.

Lemma vext_trans : forall a b c, vext a b -> vext b c -> vext a c.
Proof. unfold vext; auto. Qed.

Lemma vext_same_leaves : forall s s', st_leaves s' = st_leaves s -> vext s s'.
Proof. unfold vext; intros s s' ->; auto. Qed.

Lemma vext_modify : forall s i f, vext s (modify s i f).
Proof. intros. apply vext_same_leaves. unfold modify. destruct (nth_error (st_dirs s) i); auto. Qed.

Lemma vext_mark_deleted : forall s i, vext s (mark_deleted s i).
Proof. intros. apply vext_same_leaves. unfold mark_deleted. destruct (nth_error (st_dirs s) i); auto. Qed.

Lemma vext_add_link : forall s l dz, vext s (add_link s l dz).
Proof.
  intros s l dz H. unfold add_link. destruct (nth_error (st_leaves s) l) as [x|] eqn:E; auto.
  simpl. apply set_nth_valid; auto. simpl.
  unfold leaves_valid in H. rewrite Forall_forall in H. apply H. eapply nth_error_In; eauto.
Qed.

Lemma vext_create_children : forall s i ch base m, vext s (create_children s i ch base m).
Proof.
  intros. apply vext_same_leaves. unfold create_children.
  destruct (nth_error (st_dirs s) i); auto.
  destruct (attach_children (st_dirs s) base (sort_children ch)); auto.
Qed.

Lemma vext_add_leaves : forall s ds ks n, Forall kind_valid ks ->
  vext s (mkState ds (add_leaves (st_leaves s) ks n)).
Proof. intros s ds ks n Hk H. simpl. apply add_leaves_valid; auto. Qed.

Lemma vext_add_local : forall s ds n, vext s (mkState ds (st_leaves s ++ [mkLeaf KLocal n])).
Proof.
  intros s ds n H. simpl. unfold leaves_valid. apply Forall_app. split; auto.
  constructor; simpl; auto.
Qed.

Lemma vext_force : forall c s i fs s1 lg r fs1,
  force c s i fs = (s1, lg, r, fs1) -> vext s s1.
Proof.
  intros c s i fs s1 lg r fs1 H. unfold force in H.
  destruct (nth_error (st_dirs s) i) as [o|]; [|inversion H; subst; apply vext_refl].
  destruct (d_lazy o).
  - inversion H; subst; apply vext_refl.
  - inversion H; subst. apply vext_same_leaves; auto.
  - destruct (fetch c d fs) as [[[r0 lvs] lg0] fs0] eqn:Ef. apply fetch_valid in Ef. destruct r0.
    + inversion H; subst. apply vext_add_leaves; auto.
    + destruct (attach_children (st_dirs s) (List.length (st_leaves s)) (sort_children children)).
      inversion H; subst. apply vext_add_leaves; auto.
Qed.

Lemma vext_step : forall c b s o, vext s (fst (step c b s o)).
Proof.
  intros c b s o.
  assert (Hskip : vext s (fst (skip s))) by apply vext_refl.
  destruct o; simpl.
  - (* OMerge *)
    destruct (negb (valid_dir s i)); auto.
    destruct (fetch c d fs) as [[[r0 lvs] lg0] fs0] eqn:Ef0. apply fetch_valid in Ef0.
    destruct r0; simpl.
    + apply vext_add_leaves; auto.
    + set (s1 := {| st_dirs := st_dirs s; st_leaves := add_leaves (st_leaves s) lvs 1 |}).
      assert (H1 : vext s s1) by (apply vext_add_leaves; auto).
      destruct (force c s1 i fs0) as [[[s2 lg2] r2] fs2] eqn:Ef.
      pose proof (vext_force _ _ _ _ _ _ _ _ Ef) as H2.
      destruct r2; simpl; [eapply vext_trans; eauto|].
      destruct (deleted_of s2 i); simpl; [eapply vext_trans; eauto|].
      destruct (existsb _ children); simpl; [eapply vext_trans; eauto|].
      eapply vext_trans; [eapply vext_trans; eauto|]. apply vext_create_children.
  - (* OAttach *)
    destruct (negb (valid_dir s i)); auto.
    destruct (force c s i fs) as [[[s1 lg] r] fs1] eqn:Ef.
    pose proof (vext_force _ _ _ _ _ _ _ _ Ef) as H1.
    destruct r; simpl; auto.
    destruct (deleted_of s1 i); simpl; auto.
    destruct (mem_name n (entries_of s1 i)); simpl; auto.
    eapply vext_trans; eauto. eapply vext_trans; [|apply vext_modify]. apply vext_same_leaves; auto.
  - (* OLookup *)
    destruct (negb (valid_dir s i)); auto.
    destruct (force c s i fs) as [[[s1 lg] r] fs1] eqn:Ef.
    pose proof (vext_force _ _ _ _ _ _ _ _ Ef) as H1.
    destruct r; simpl; auto.
    destruct (find_entry n (entries_of s1 i)); simpl; auto.
  - (* OReadDir *)
    destruct (negb (valid_dir s i)); auto.
    destruct (force c s i fs) as [[[s1 lg] r] fs1] eqn:Ef.
    pose proof (vext_force _ _ _ _ _ _ _ _ Ef) as H1.
    destruct r; simpl; auto.
  - (* OOpen *)
    destruct (negb (valid_dir s i)); auto.
    destruct (force c s i fs) as [[[s1 lg] r] fs1] eqn:Ef.
    pose proof (vext_force _ _ _ _ _ _ _ _ Ef) as H1.
    destruct r; simpl; auto.
    destruct (find_entry n (entries_of s1 i)) as [ch|]; simpl.
    + destruct (negb existing); simpl; auto. destruct ch; simpl; auto.
      destruct (nth_error (st_leaves s1) l); simpl; auto.
    + destruct (deleted_of s1 i || negb create); simpl; auto.
      eapply vext_trans; eauto. eapply vext_trans; [|apply vext_modify].
      apply vext_add_local.
  - (* OMkdir *)
    destruct (negb (valid_dir s i)); auto.
    destruct (force c s i fs) as [[[s1 lg] r] fs1] eqn:Ef.
    pose proof (vext_force _ _ _ _ _ _ _ _ Ef) as H1.
    destruct r; simpl; auto.
    destruct (deleted_of s1 i); simpl; auto.
    destruct (mem_name n (entries_of s1 i)); simpl; auto.
    eapply vext_trans; eauto. eapply vext_trans; [|apply vext_modify]. apply vext_same_leaves; auto.
  - (* ORemove *)
    destruct (negb (valid_dir s i)); auto.
    destruct (force c s i fs) as [[[s1 lg] r] fs1] eqn:Ef.
    pose proof (vext_force _ _ _ _ _ _ _ _ Ef) as H1.
    destruct r; simpl; auto.
    destruct (find_entry n (entries_of s1 i)) as [[j|l]|]; simpl; auto.
    + destruct (negb rmdir); simpl; auto.
      destruct (force c s1 j fs1) as [[[s2 lg2] r2] fs2] eqn:Ef2.
      pose proof (vext_force _ _ _ _ _ _ _ _ Ef2) as H2.
      destruct r2; simpl; [eapply vext_trans; eauto|].
      destruct (entries_of s2 j); simpl; [|eapply vext_trans; eauto].
      eapply vext_trans; [eapply vext_trans; eauto|].
      eapply vext_trans; [apply vext_mark_deleted|apply vext_modify].
    + destruct (negb rmleaf); simpl; auto.
      eapply vext_trans; eauto. eapply vext_trans; [apply vext_add_link|apply vext_modify].
  - (* ORename *)
    destruct (negb (valid_dir s i && valid_dir s j)); auto.
    destruct (force c s i fs) as [[[s1 lg] r] fs1] eqn:Ef.
    pose proof (vext_force _ _ _ _ _ _ _ _ Ef) as H1.
    destruct r; simpl; auto.
    destruct (force c s1 j fs1) as [[[s2 lg2] r2] fs2] eqn:Ef2.
    pose proof (vext_force _ _ _ _ _ _ _ _ Ef2) as H2.
    assert (H12 : vext s s2) by (eapply vext_trans; eauto).
    destruct r2; simpl; auto.
    destruct (find_entry n2 (entries_of s2 j)) as [newch|]; simpl.
    + destruct (find_entry n (entries_of s2 i)) as [oldch|]; simpl; auto.
      destruct newch as [nd|nl], oldch as [od|ol]; simpl; auto.
      * destruct (nd =? od); simpl; auto.
        destruct (force c s2 nd fs2) as [[[s3 lg3] r3] fs3] eqn:Ef3.
        pose proof (vext_force _ _ _ _ _ _ _ _ Ef3) as H3.
        assert (H13 : vext s s3) by (eapply vext_trans; eauto).
        destruct r3; simpl; auto.
        destruct (entries_of s3 nd); simpl; auto.
        eapply vext_trans; [exact H13|].
        eapply vext_trans; [apply vext_modify|].
        eapply vext_trans; [apply vext_modify|].
        eapply vext_trans; [apply vext_mark_deleted|apply vext_modify].
      * destruct (nl =? ol); simpl; auto.
        eapply vext_trans; [exact H12|].
        eapply vext_trans; [apply vext_modify|].
        eapply vext_trans; [apply vext_modify|].
        eapply vext_trans; [apply vext_add_link|apply vext_modify].
    + destruct (deleted_of s2 j); simpl; auto.
      destruct (find_entry n (entries_of s2 i)); simpl; auto.
      eapply vext_trans; [exact H12|].
      eapply vext_trans; [apply vext_modify|apply vext_modify].
  - (* OLink *)
    destruct (negb (valid_dir s i && valid_leaf s l)); auto.
    destruct (force c s i fs) as [[[s1 lg] r] fs1] eqn:Ef.
    pose proof (vext_force _ _ _ _ _ _ _ _ Ef) as H1.
    destruct r; simpl; auto.
    destruct (deleted_of s1 i); simpl; auto.
    destruct (mem_name n (entries_of s1 i)); simpl; auto.
    eapply vext_trans; eauto. eapply vext_trans; [apply vext_add_link|apply vext_modify].
  - destruct (nth_error (st_leaves s) l); simpl; auto; apply vext_refl.
  - destruct (nth_error (st_leaves s) l); simpl; auto; apply vext_refl.
  - destruct (nth_error (st_leaves s) l); simpl; auto; apply vext_refl.
  - destruct (nth_error (st_leaves s) l); simpl; auto; apply vext_refl.
  - destruct (nth_error (st_leaves s) l); simpl; auto; apply vext_refl.
Qed.

Lemma leaves_valid_run : forall c b ops s,
  leaves_valid (st_leaves s) -> leaves_valid (st_leaves (run c b s ops)).
Proof.
  intros c b ops. induction ops as [|o r IH]; intros s H; simpl; auto.
  apply IH. apply vext_step; auto.
Qed.

Lemma leaves_valid_all : forall c b ops, leaves_valid (st_leaves (run c b init ops)).
Proof. intros. apply leaves_valid_run. constructor. Qed.

Lemma cas_leaves_valid_l : forall c b ops l lf d x,
  nth_error (st_leaves (run c b init ops)) l = Some lf -> l_kind lf = KCas d x -> valid_digest d.
Proof.
  intros c b ops l lf d x Hn Hk. pose proof (leaves_valid_all c b ops) as H.
  unfold leaves_valid in H. rewrite Forall_forall in H.
  specialize (H _ (nth_error_In _ _ Hn)). rewrite Hk in H. exact H.
Qed.

(* ---- Tokens: the index of an identity among the distinct ones ----------------------- *)

Lemma bytes_eqb_eq : forall a b, bytes_eqb a b = true <-> a = b.
Proof.
  induction a as [|x a IH]; destruct b as [|y b]; simpl; split; intros H; try discriminate; auto.
  - apply andb_prop in H as [H1 H2]. apply N.eqb_eq in H1. apply IH in H2. subst. reflexivity.
  - injection H as -> ->. rewrite N.eqb_refl. simpl. apply IH. reflexivity.
Qed.

Lemma index_of_nth : forall x tab, In x tab -> nth_error tab (index_of x tab) = Some x.
Proof.
  induction tab as [|y r IH]; simpl; intros H; [contradiction|].
  destruct (bytes_eqb y x) eqn:E.
  - apply bytes_eqb_eq in E. subst. reflexivity.
  - simpl. apply IH. destruct H as [H|H]; auto.
    subst. assert (bytes_eqb x x = true) by (apply bytes_eqb_eq; reflexivity). congruence.
Qed.

Lemma index_of_inj : forall x y tab, In x tab -> In y tab ->
  index_of x tab = index_of y tab -> x = y.
Proof.
  intros x y tab Hx Hy H. apply index_of_nth in Hx. apply index_of_nth in Hy.
  rewrite H in Hx. congruence.
Qed.

Lemma add_new_keeps : forall tab x y, In y tab -> In y (add_new tab x).
Proof.
  intros tab x y H. unfold add_new. destruct (existsb (bytes_eqb x) tab); auto.
  apply in_or_app. auto.
Qed.

Lemma add_new_has : forall tab x, In x (add_new tab x).
Proof.
  intros tab x. unfold add_new. destruct (existsb (bytes_eqb x) tab) eqn:E.
  - apply existsb_exists in E as [y [Hy E]]. apply bytes_eqb_eq in E. subst. auto.
  - apply in_or_app. right. simpl. auto.
Qed.

Lemma fold_add_new_in : forall l acc x, In x acc \/ In x l -> In x (fold_left add_new l acc).
Proof.
  induction l as [|y l IH]; simpl; intros acc x H.
  - destruct H; [auto|contradiction].
  - apply IH. destruct H as [H|[H|H]]; auto.
    + left. apply add_new_keeps; auto.
    + subst. left. apply add_new_has.
Qed.

Lemma id_table_in : forall ids l x, In (l, x) ids -> In x (id_table ids).
Proof.
  intros ids l x H. unfold id_table. apply fold_add_new_in. right.
  change x with (snd (l, x)). apply in_map. exact H.
Qed.

Lemma leaf_ids_in : forall fn inst ls i l id, In (l, id) (leaf_ids fn inst i ls) ->
  i <= l /\ exists lf, nth_error ls (l - i) = Some lf /\ leaf_identity fn inst (l_kind lf) = Some id.
Proof.
  induction ls as [|lf ls IH]; simpl; intros i l id H; [contradiction|].
  assert (Hrec : In (l, id) (leaf_ids fn inst (S i) ls) ->
    i <= l /\ exists lf0, nth_error (lf :: ls) (l - i) = Some lf0 /\
                          leaf_identity fn inst (l_kind lf0) = Some id).
  { intros Hr. destruct (IH _ _ _ Hr) as [Hle [lf0 [Hn Hi]]]. split; [lia|].
    exists lf0. split; auto. replace (l - i) with (S (l - S i)) by lia. exact Hn. }
  destruct (leaf_identity fn inst (l_kind lf)) as [id0|] eqn:E; auto.
  destruct H as [H|H]; auto.
  injection H as <- <-. split; auto. exists lf. rewrite Nat.sub_diag. auto.
Qed.

Lemma aget_map_snd : forall A B (f : A -> B) (L : list (nat * A)) l t,
  aget l (map (fun p => (fst p, f (snd p))) L) = Some t -> exists v, In (l, v) L /\ t = f v.
Proof.
  induction L as [|[k v] L IH]; simpl; intros l t H; [discriminate|].
  destruct (k =? l) eqn:E.
  - apply Nat.eqb_eq in E. subst. injection H as <-. exists v. auto.
  - destruct (IH _ _ H) as [v' [Hin Ht]]. exists v'. auto.
Qed.

(* A token of the model stands for the identity of that leaf. *)
Lemma model_token : forall fn inst s l t,
  aget l (fst (model_idents fn inst s)) = Some t ->
  exists lf id, nth_error (st_leaves s) l = Some lf /\
    leaf_identity fn inst (l_kind lf) = Some id /\
    In id (snd (model_idents fn inst s)) /\
    t = N.of_nat (index_of id (snd (model_idents fn inst s))).
Proof.
  intros fn inst s l t H. unfold model_idents in *. simpl in *.
  apply (aget_map_snd _ _ (fun id => N.of_nat (index_of id (id_table (leaf_ids fn inst 0 (st_leaves s))))))
    in H as [id [Hin Ht]].
  pose proof (id_table_in _ _ _ Hin) as Htab.
  apply leaf_ids_in in Hin as [_ [lf [Hn Hi]]]. rewrite Nat.sub_0_r in Hn.
  exists lf, id. auto.
Qed.

Lemma leaf_ids_aget : forall fn inst (f : list N -> N) ls i k lf id,
  nth_error ls k = Some lf -> leaf_identity fn inst (l_kind lf) = Some id ->
  aget (i + k) (map (fun p => (fst p, f (snd p))) (leaf_ids fn inst i ls)) = Some (f id).
Proof.
  induction ls as [|lf0 ls IH]; intros i [|k] lf id Hn Hi; simpl in Hn; try discriminate.
  - injection Hn as ->. simpl. rewrite Hi. simpl. rewrite Nat.add_0_r, Nat.eqb_refl. reflexivity.
  - cbn [leaf_ids]. replace (i + S k) with (S i + k) by lia.
    destruct (leaf_identity fn inst (l_kind lf0)); [|eapply IH; eauto].
    cbn [map aget fst snd]. destruct (i =? S i + k) eqn:E; [apply Nat.eqb_eq in E; lia|]. eapply IH; eauto.
Qed.

(* Every CAS backed leaf has a token. *)
Lemma model_token_total_l : forall fn inst s l lf d x,
  nth_error (st_leaves s) l = Some lf -> l_kind lf = KCas d x ->
  exists t, aget l (fst (model_idents fn inst s)) = Some t.
Proof.
  intros fn inst s l lf d x Hn Hk. unfold model_idents. simpl.
  pose proof (leaf_ids_aget fn inst
    (fun id => N.of_nat (index_of id (id_table (leaf_ids fn inst 0 (st_leaves s)))))
    (st_leaves s) 0 l lf (file_identity (digest_key fn inst d) x) Hn) as H.
  rewrite Hk in H. specialize (H eq_refl). simpl in H. eexists. exact H.
Qed.

Lemma digest_eqb_eq : forall d e, digest_eqb d e = true <-> d = e.
Proof.
  intros [h z] [h' z']. unfold digest_eqb. simpl. split; intros H.
  - apply andb_prop in H as [H1 H2]. apply String.eqb_eq in H1. apply Z.eqb_eq in H2. subst. reflexivity.
  - injection H as -> ->. rewrite String.eqb_refl, Z.eqb_refl. reflexivity.
Qed.

(* ---- The predicate on model traces --------------------------------------------------- *)

Section WithCas.
Variables (fn inst : string) (c : cas) (b : blobs).

(* [sf]: the final state of the history, whose leaves get the tokens. *)
Lemma ident_pair_model : forall g s sf l1 l2,
  mon_ok g s -> sext s sf -> leaves_valid (st_leaves sf) ->
  ident_pair (fst (model_idents fn inst sf)) (mon_leaves g) l1 l2 = "".
Proof.
  intros g s sf l1 l2 [_ [HL _]] Hext Hval. unfold ident_pair.
  destruct (aget l1 (mon_leaves g)) as [[d1 x1| |]|] eqn:E1; auto.
  destruct (aget l2 (mon_leaves g)) as [[d2 x2| |]|] eqn:E2; auto.
  destruct (aget l1 (fst (model_idents fn inst sf))) as [t|] eqn:T1; auto.
  destruct (aget l2 (fst (model_idents fn inst sf))) as [u|] eqn:T2; auto.
  destruct (HL _ _ E1) as [lf1 [Hn1 Hk1]]. destruct (Hext _ _ Hn1) as [lf1' [Hn1' Hk1']].
  destruct (HL _ _ E2) as [lf2 [Hn2 Hk2]]. destruct (Hext _ _ Hn2) as [lf2' [Hn2' Hk2']].
  destruct (model_token _ _ _ _ _ T1) as [m1 [id1 [Hm1 [Hi1 [Hin1 Ht]]]]].
  destruct (model_token _ _ _ _ _ T2) as [m2 [id2 [Hm2 [Hi2 [Hin2 Hu]]]]].
  rewrite Hn1' in Hm1. injection Hm1 as <-. rewrite Hn2' in Hm2. injection Hm2 as <-.
  rewrite Hk1', Hk1 in Hi1. rewrite Hk2', Hk2 in Hi2. simpl in Hi1, Hi2.
  injection Hi1 as Hi1. injection Hi2 as Hi2.
  unfold leaves_valid in Hval. rewrite Forall_forall in Hval.
  pose proof (Hval _ (nth_error_In _ _ Hn1')) as V1. rewrite Hk1', Hk1 in V1. simpl in V1.
  pose proof (Hval _ (nth_error_In _ _ Hn2')) as V2. rewrite Hk2', Hk2 in V2. simpl in V2.
  destruct (N.eqb t u) eqn:Etu.
  - apply N.eqb_eq in Etu. subst t u. apply Nat2N.inj in Etu.
    apply index_of_inj in Etu; auto. rewrite <- Hi1, <- Hi2 in Etu.
    apply file_identity_inj_l in Etu as [Hk Hx]. apply digest_key_inj_l in Hk; auto.
    subst. assert (Hd : digest_eqb d2 d2 = true) by (apply digest_eqb_eq; reflexivity).
    rewrite Hd, Bool.eqb_reflx. reflexivity.
  - destruct (digest_eqb d1 d2 && Bool.eqb x1 x2) eqn:Es; auto.
    apply andb_prop in Es as [Hd Hx]. apply digest_eqb_eq in Hd. apply Bool.eqb_prop in Hx.
    subst d2 x2. rewrite Hi1 in Hi2. subst id2. subst t u.
    rewrite N.eqb_refl in Etu. discriminate.
Qed.

(* The same without the monitor: after any history two CAS backed files have
   the same token exactly when they are the same file. *)
Lemma model_tokens_separate_l : forall ops l1 l2 lf1 lf2 d1 x1 d2 x2 t1 t2,
  let sf := run c b init ops in
  nth_error (st_leaves sf) l1 = Some lf1 -> l_kind lf1 = KCas d1 x1 ->
  nth_error (st_leaves sf) l2 = Some lf2 -> l_kind lf2 = KCas d2 x2 ->
  aget l1 (fst (model_idents fn inst sf)) = Some t1 ->
  aget l2 (fst (model_idents fn inst sf)) = Some t2 ->
  (t1 = t2 <-> d1 = d2 /\ x1 = x2).
Proof.
  intros ops l1 l2 lf1 lf2 d1 x1 d2 x2 t1 t2 sf Hn1 Hk1 Hn2 Hk2 T1 T2.
  destruct (model_token _ _ _ _ _ T1) as [m1 [id1 [Hm1 [Hi1 [Hin1 Ht]]]]].
  destruct (model_token _ _ _ _ _ T2) as [m2 [id2 [Hm2 [Hi2 [Hin2 Hu]]]]].
  fold sf in Hm1, Hm2. rewrite Hn1 in Hm1. injection Hm1 as <-. rewrite Hn2 in Hm2. injection Hm2 as <-.
  rewrite Hk1 in Hi1. rewrite Hk2 in Hi2. simpl in Hi1, Hi2.
  injection Hi1 as Hi1. injection Hi2 as Hi2.
  pose proof (cas_leaves_valid_l c b ops _ _ _ _ Hn1 Hk1) as V1.
  pose proof (cas_leaves_valid_l c b ops _ _ _ _ Hn2 Hk2) as V2.
  split.
  - intros E. subst t1 t2. apply Nat2N.inj in E. apply index_of_inj in E; auto.
    rewrite <- Hi1, <- Hi2 in E. apply file_identity_inj_l in E as [Hk Hx].
    apply digest_key_inj_l in Hk; auto.
  - intros [-> ->]. rewrite Hi1 in Hi2. subst. reflexivity.
Qed.

Lemma ident_one_ok : forall idents lvs l all,
  (forall l2, ident_pair idents lvs l l2 = "") -> ident_one idents lvs l all = "".
Proof. induction all as [|e r IH]; simpl; intros H; auto. rewrite H. simpl. auto. Qed.

Lemma ident_new_ok : forall idents lvs new,
  (forall l1 l2, ident_pair idents lvs l1 l2 = "") -> ident_new idents lvs new = "".
Proof.
  induction new as [|e r IH]; simpl; intros H; auto.
  rewrite ident_one_ok; auto.
Qed.

Lemma ident_ok_from_all : forall ops g s,
  Inv c s -> mon_ok g s -> leaves_valid (st_leaves s) ->
  ident_ok_from c b (fst (model_idents fn inst (run c b s ops))) g (trace c b s ops) = true.
Proof.
  induction ops as [|o r IH]; intros g s HI HM HV; simpl; auto.
  destruct (step c b s o) as [s' x] eqn:Es. simpl.
  pose proof (p_step_ok c b g s o HI HM) as [_ HM'].
  pose proof (Inv_step c b s o HI) as HI'.
  pose proof (vext_step c b s o HV) as HV'.
  rewrite Es in *. simpl in *.
  apply andb_true_intro. split.
  - apply String.eqb_eq. unfold p_ident. apply ident_new_ok. intros l1 l2.
    eapply ident_pair_model; eauto.
    + apply sext_run.
    + apply leaves_valid_run; auto.
  - apply IH; auto.
Qed.

Lemma ident_trace_ok_all : forall ops,
  ident_trace_ok c b (fst (model_idents fn inst (run c b init ops))) (trace c b init ops) = true.
Proof.
  intros. apply ident_ok_from_all; [apply Inv_init|apply mon_ok_init|constructor].
Qed.

End WithCas.
