(* C17 proofs, part 6b: the first two tests of P hold of every output of the
   model: the CAS is reported unchanged, and when a call fails because its
   last fetch returned a malformed Directory, the leaves that fetch created
   are reported with link count 0. *)
From VF Require Import Cas.Model Cas.Spec Cas.ProofsLeaf Cas.ProofsInv.
From Coq Require Import Lia.
Open Scope string_scope.
Open Scope nat_scope.
Open Scope list_scope.

Lemma aget_links_diff_new : forall new old i0 p lf,
  List.length old <= p -> nth_error new p = Some lf ->
  aget (i0 + p) (links_diff old new i0) = Some (l_nlink lf).
Proof.
  induction new as [|n new IH]; intros old i0 p lf Hp Hn.
  - destruct p; discriminate.
  - destruct old as [|o old].
    + destruct p as [|p]; cbn [links_diff aget nth_error] in *.
      * inversion Hn; subst. rewrite Nat.add_0_r, Nat.eqb_refl. reflexivity.
      * assert (E : (i0 =? i0 + S p) = false) by (apply Nat.eqb_neq; lia). rewrite E.
        replace (i0 + S p) with (S i0 + p) by lia. apply (IH [] (S i0) p lf); simpl; auto; lia.
    + destruct p as [|p]; [simpl in Hp; lia|]. cbn [links_diff nth_error] in *.
      assert (Hp' : List.length old <= p) by (simpl in Hp; lia).
      replace (i0 + S p) with (S i0 + p) by lia.
      destruct (Z.eqb (l_nlink o) (l_nlink n)).
      * apply IH; auto.
      * cbn [aget]. assert (E : (i0 =? S i0 + p) = false) by (apply Nat.eqb_neq; lia). rewrite E.
        apply IH; auto.
Qed.

Lemma unlinked_tail_ok : forall old pre lvs,
  List.length old <= List.length pre ->
  unlinked_tail (List.length lvs) (List.length (add_leaves pre lvs 0))
                (links_diff old (add_leaves pre lvs 0) 0) = true.
Proof.
  intros old pre lvs Hl. unfold unlinked_tail. apply forallb_forall. intros id Hin.
  apply in_seq in Hin. unfold add_leaves in *. rewrite app_length, map_length in *.
  assert (Hid : List.length pre <= id < List.length pre + List.length lvs) by lia.
  destruct (nth_error lvs (id - List.length pre)) as [lk|] eqn:Ek; [|apply nth_error_None in Ek; lia].
  rewrite (aget_links_diff_new _ old 0 id (mkLeaf lk 0)); simpl; auto; [lia|].
  rewrite nth_error_app2; [|lia]. rewrite nth_error_map, Ek. reflexivity.
Qed.

Section WithCas.
Variable c : cas.
Variable b : blobs.

Lemma last_app_one : forall A (l : list A) x d, last (l ++ [x]) d = x.
Proof.
  induction l as [|a l IH]; intros x d; simpl; auto.
  destruct (l ++ [x]) eqn:E; [destruct l; discriminate|]. rewrite <- E. apply IH.
Qed.

(* The call failed in a fetch of [d] that appended the leaves [lvs]. *)
Lemma leak_fail : forall s0 pre_dirs pre lgs d fr lvs code fs fs1 st ch es,
  fetch c d fs = (FetErr code, lvs, (d, fr), fs1) ->
  List.length (st_leaves s0) <= List.length pre ->
  leak_ok c (mk_out s0 (mkState pre_dirs (add_leaves pre lvs 0)) st ch es (lgs ++ [(d, fr)])) = true.
Proof.
  intros s0 pre_dirs pre lgs d fr lvs code fs fs1 st ch es Hf Hl.
  unfold leak_ok. destruct (is_fetch_error _); auto.
  cbn [o_fetches mk_out]. rewrite map_app. simpl. rewrite last_app_one.
  destruct fr; auto.
  destruct (fetch_err_inv c _ _ _ _ _ _ Hf) as [fr0 [Heq [Hcase _]]]. inversion Heq; subst fr0.
  destruct Hcase as [[Hx _]|[[Hx _]|[_ Hm]]]; try discriminate.
  rewrite Hm. cbn [o_nleaves o_links mk_out st_leaves].
  rewrite unlinked_tail_ok; auto. rewrite andb_true_r.
  apply Nat.leb_le. unfold add_leaves. rewrite app_length, map_length. lia.
Qed.

Lemma leak_fail_force : forall s0 s i fs s1 lg code fs1 lgs st ch es,
  force c s i fs = (s1, lg, Some code, fs1) ->
  List.length (st_leaves s0) <= List.length (st_leaves s) ->
  leak_ok c (mk_out s0 s1 st ch es (lgs ++ lg)) = true.
Proof.
  intros s0 s i fs s1 lg code fs1 lgs st ch es H Hl.
  destruct (force_err c _ _ _ _ _ _ _ H) as [o [d [fr [lvs [_ [_ [Hf [-> ->]]]]]]]].
  eapply leak_fail; eauto.
Qed.

Lemma leak_nofail : forall s0 s1 st ch es lg, is_fetch_error st = false ->
  leak_ok c (mk_out s0 s1 st ch es lg) = true.
Proof. intros. unfold leak_ok. simpl. rewrite H. reflexivity. Qed.

Lemma force_len : forall s i fs s1 lg r fs1, force c s i fs = (s1, lg, r, fs1) ->
  List.length (st_leaves s) <= List.length (st_leaves s1).
Proof. intros. apply leaves_ext_len. eapply sext_force; eauto. Qed.

Ltac nofail := apply leak_nofail; reflexivity.

Ltac forcing Ef Hlen :=
  match goal with
  | |- context [force c ?s ?i ?fs] =>
    destruct (force c s i fs) as [[[?s1 ?lg] ?r] ?fs1] eqn:Ef;
    pose proof (force_len _ _ _ _ _ _ _ Ef) as Hlen
  end.

Lemma leak_ok_step : forall s o, leak_ok c (snd (step c b s o)) = true.
Proof.
  intros s o. destruct o; simpl.
  - (* OMerge *)
    destruct (negb (valid_dir s i)); [nofail|].
    destruct (fetch c d fs) as [[[r0 lvs] lg0] fs0] eqn:Ef. destruct r0 as [code|ch]; simpl.
    + destruct (fetch_err_inv c _ _ _ _ _ _ Ef) as [fr [-> _]].
      apply (leak_fail s (st_dirs s) (st_leaves s) [] d fr lvs code fs fs0); auto.
    + set (s1 := {| st_dirs := st_dirs s; st_leaves := add_leaves (st_leaves s) lvs 1 |}).
      assert (Hl1 : List.length (st_leaves s) <= List.length (st_leaves s1)).
      { unfold s1, add_leaves; simpl. rewrite app_length. lia. }
      forcing Ef2 Hl2. destruct r; simpl.
      * apply (leak_fail_force s s1 i fs0 s0 lg n fs1 [lg0]); auto.
      * destruct (deleted_of s0 i); simpl; [nofail|].
        destruct (existsb _ ch); simpl; nofail.
  - (* OAttach *)
    destruct (negb (valid_dir s i)); [nofail|].
    forcing Ef Hl. destruct r; simpl.
    + apply (leak_fail_force s s i fs s1 lg n0 fs1 []); auto.
    + destruct (deleted_of s1 i); simpl; [nofail|].
      destruct (mem_name n (entries_of s1 i)); simpl; nofail.
  - (* OLookup *)
    destruct (negb (valid_dir s i)); [nofail|].
    forcing Ef Hl. destruct r; simpl.
    + apply (leak_fail_force s s i fs s1 lg n0 fs1 []); auto.
    + destruct (find_entry n (entries_of s1 i)); simpl; nofail.
  - (* OReadDir *)
    destruct (negb (valid_dir s i)); [nofail|].
    forcing Ef Hl. destruct r; simpl.
    + apply (leak_fail_force s s i fs s1 lg n fs1 []); auto.
    + nofail.
  - (* OOpen *)
    destruct (negb (valid_dir s i)); [nofail|].
    forcing Ef Hl. destruct r; simpl.
    + apply (leak_fail_force s s i fs s1 lg n0 fs1 []); auto.
    + destruct (find_entry n (entries_of s1 i)) as [ch|]; simpl.
      * destruct (negb existing); simpl; [nofail|]. destruct ch; simpl; [nofail|].
        destruct (nth_error (st_leaves s1) l) as [lf|]; simpl; [|nofail].
        apply leak_nofail. destruct (l_kind lf); simpl; auto. destruct (wr || trunc); auto.
      * destruct (deleted_of s1 i || negb create); simpl; nofail.
  - (* OMkdir *)
    destruct (negb (valid_dir s i)); [nofail|].
    forcing Ef Hl. destruct r; simpl.
    + apply (leak_fail_force s s i fs s1 lg n0 fs1 []); auto.
    + destruct (deleted_of s1 i); simpl; [nofail|].
      destruct (mem_name n (entries_of s1 i)); simpl; nofail.
  - (* ORemove *)
    destruct (negb (valid_dir s i)); [nofail|].
    forcing Ef Hl. destruct r; simpl.
    + apply (leak_fail_force s s i fs s1 lg n0 fs1 []); auto.
    + destruct (find_entry n (entries_of s1 i)) as [[j|l]|]; simpl; [| |nofail].
      * destruct (negb rmdir); simpl; [nofail|].
        forcing Ef2 Hl2. destruct r; simpl.
        -- apply (leak_fail_force s s1 j fs1 s0 lg0 n0 fs0 lg); auto; lia.
        -- destruct (entries_of s0 j); simpl; nofail.
      * destruct (negb rmleaf); simpl; nofail.
  - (* ORename *)
    destruct (negb (valid_dir s i && valid_dir s j)); [nofail|].
    forcing Ef Hl. destruct r; simpl.
    + apply (leak_fail_force s s i fs s1 lg n0 fs1 []); auto.
    + forcing Ef2 Hl2. destruct r; simpl.
      * apply (leak_fail_force s s1 j fs1 s0 lg0 n0 fs0 lg); auto; lia.
      * destruct (find_entry n2 (entries_of s0 j)) as [newch|]; simpl.
        -- destruct (find_entry n (entries_of s0 i)) as [oldch|]; simpl; [|nofail].
           destruct newch as [nd|nl], oldch as [od|ol]; simpl; try nofail.
           ++ destruct (nd =? od); simpl; [nofail|].
              forcing Ef3 Hl3. destruct r; simpl.
              ** apply (leak_fail_force s s0 nd fs0 s2 lg1 n0 fs2 (lg ++ lg0)); auto; lia.
              ** destruct (entries_of s2 nd); simpl; nofail.
           ++ destruct (nl =? ol); simpl; nofail.
        -- destruct (deleted_of s0 j); simpl; [nofail|].
           destruct (find_entry n (entries_of s0 i)); simpl; nofail.
  - (* OLink *)
    destruct (negb (valid_dir s i && valid_leaf s l)); [nofail|].
    forcing Ef Hl. destruct r; simpl.
    + apply (leak_fail_force s s i fs s1 lg n0 fs1 []); auto.
    + destruct (deleted_of s1 i); simpl; [nofail|].
      destruct (mem_name n (entries_of s1 i)); simpl; nofail.
  - destruct (nth_error (st_leaves s) l) as [lf|]; simpl; [|nofail].
    unfold leak_ok, leaf_out; simpl. destruct (l_kind lf); simpl; auto. destruct (wr || trunc); auto.
  - destruct (nth_error (st_leaves s) l) as [lf|]; simpl; [|nofail].
    unfold leak_ok, leaf_out; simpl. destruct (l_kind lf), a; simpl; auto.
  - destruct (nth_error (st_leaves s) l) as [lf|]; simpl; [|nofail].
    unfold leak_ok, leaf_out; simpl. destruct (l_kind lf); simpl; auto.
  - destruct (nth_error (st_leaves s) l) as [lf|]; simpl; [|nofail].
    unfold leak_ok, leaf_out; simpl. destruct (l_kind lf); simpl; auto.
  - destruct (nth_error (st_leaves s) l) as [lf|]; simpl; [|nofail].
    unfold leak_ok, leaf_out; simpl. auto.
Qed.

Lemma cas_ok_step : forall s o, o_cas_ok (snd (step c b s o)) = true.
Proof.
  intros s o. destruct o; simpl;
  repeat (match goal with
          | |- context [match ?x with _ => _ end] => destruct x; simpl
          end); reflexivity.
Qed.

End WithCas.
