(* C17 proofs, part 3: every operation preserves the heap invariant; the
   state-level statements of root_faithful, malformed_is_error,
   fetch_error_not_sticky and idempotent exploration. *)
From VF Require Import Cas.Model Cas.Spec Cas.ProofsLeaf Cas.ProofsInv.
From Coq Require Import Lia.
Open Scope string_scope.
Open Scope nat_scope.
Open Scope list_scope.

Section WithCas.
Variable c : cas.
Variable b : blobs.

Lemma ext_create_children : forall s i ch base merged o,
  nth_error (st_dirs s) i = Some o -> (forall d, merged = Some d -> d_born o = None) ->
  ext s (create_children s i ch base merged).
Proof.
  intros s i ch base merged o E Hb. unfold create_children. rewrite E.
  destruct (attach_children (st_dirs s) base (sort_children ch)) as [ds' es] eqn:Ea.
  destruct (attach_children_spec _ _ _ _ _ Ea) as [[news [-> _]] _].
  split; simpl; [|apply leaves_ext_refl].
  eapply dirs_ext_trans; [apply dirs_ext_app|].
  apply (dirs_ext_set _ _ _ o); [apply nth_error_app_l; exact E|].
  simpl. intros d0 Hd0. destruct merged as [d|]; auto. rewrite (Hb d eq_refl) in Hd0. discriminate.
Qed.

Lemma Inv_create_children : forall s i ch base merged o,
  Inv c s -> nth_error (st_dirs s) i = Some o -> d_lazy o = LNone ->
  (forall d, merged = Some d ->
     d_born o = None /\ d_entries o = [] /\
     exists m lvs, cas_get c d = Some m /\ validate m = (Some ch, lvs) /\
       forall k lk, nth_error lvs k = Some lk ->
         exists lf, nth_error (st_leaves s) (base + k) = Some lf /\ l_kind lf = lk) ->
  Inv c (create_children s i ch base merged).
Proof.
  intros s i ch base merged o HI E El Hm.
  assert (He : ext s (create_children s i ch base merged)).
  { eapply ext_create_children; eauto. intros d Hd. destruct (Hm d Hd); auto. }
  apply (Inv_update c s); auto.
  unfold create_children in *. rewrite E in *.
  destruct (attach_children (st_dirs s) base (sort_children ch)) as [ds' es] eqn:Ea.
  destruct (attach_children_spec _ _ _ _ _ Ea) as [[news [Hds Hnews]] _].
  assert (Hi : i < List.length (st_dirs s)) by (apply nth_error_Some; congruence).
  intros j o' Hn. simpl in Hn. apply nth_set_nth_cases in Hn. destruct Hn as [[-> ->]|[Hne Hn]].
  - right. split; simpl; [rewrite El; discriminate|]. split; [rewrite El; discriminate|].
    rewrite El. destruct merged as [d|]; [|discriminate]. intros _.
    destruct (Hm d eq_refl) as [Hb [Hes [m [lvs [Hg [Hv Hl]]]]]].
    exists (sort_children ch), lvs. split; [eapply expect_of_fetch; eauto|].
    rewrite Hes. simpl. eapply attached_entries_gen; eauto. eapply sorted_idx_ok; eauto.
  - subst ds'. destruct (Nat.lt_ge_cases j (List.length (st_dirs s))) as [Hlt|Hge].
    + left. rewrite nth_error_app1 in Hn; auto.
    + right. rewrite nth_error_app2 in Hn; auto. apply nth_error_In in Hn.
      eapply new_dirs_ok; eauto.
Qed.

Lemma modify_lookup : forall s i f o, nth_error (st_dirs s) i = Some o ->
  nth_error (st_dirs (modify s i f)) i = Some (mkDir (d_lazy o) (f (d_entries o)) (d_deleted o) (d_born o) false).
Proof.
  intros s i f o E. unfold modify. rewrite E. simpl. apply nth_set_nth_eq.
  apply nth_error_Some. congruence.
Qed.

Ltac forcing Ef HI H1 :=
  match goal with
  | |- context [force c ?s ?i ?fs] =>
    destruct (force c s i fs) as [[[?s1 ?lg] ?r] ?fs1] eqn:Ef;
    pose proof (Inv_force c _ _ _ _ _ _ _ HI Ef) as H1
  end.

Lemma Inv_step : forall s o, Inv c s -> Inv c (fst (step c b s o)).
Proof.
  intros s o HI. destruct o; simpl.
  - (* OMerge *)
    destruct (negb (valid_dir s i)); auto.
    destruct (fetch c d fs) as [[[r0 lvs] lg0] fs0] eqn:Ef. destruct r0 as [code|ch]; simpl.
    + apply Inv_add_leaves; auto.
    + set (s1 := {| st_dirs := st_dirs s; st_leaves := add_leaves (st_leaves s) lvs 1 |}).
      assert (HI1 : Inv c s1) by (apply Inv_add_leaves; auto).
      destruct (force c s1 i fs0) as [[[s2 lg2] r2] fs2] eqn:Ef2.
      pose proof (Inv_force c _ _ _ _ _ _ _ HI1 Ef2) as HI2.
      destruct r2; simpl; auto.
      destruct (deleted_of s2 i); simpl; auto.
      destruct (existsb _ ch); simpl; auto.
      destruct (nth_error (st_dirs s1) i) as [o1|] eqn:E1.
      * destruct (force_ok_self c _ _ _ _ _ _ _ Ef2 E1) as [o2 [E2 [El2 _]]].
        rewrite E2. eapply Inv_create_children; eauto.
        intros d0 Hd0.
        destruct (d_pristine o2 && match d_born o2 with Some _ => false | None => true end
                  && match d_entries o2 with [] => true | _ :: _ => false end) eqn:Hc; [|discriminate].
        inversion Hd0; subst d0. apply andb_prop in Hc. destruct Hc as [Hc Hes].
        apply andb_prop in Hc. destruct Hc as [_ Hb].
        split; [destruct (d_born o2); [discriminate|reflexivity]|].
        split; [destruct (d_entries o2); [reflexivity|discriminate]|].
        destruct (fetch_ok_inv c _ _ _ _ _ _ Ef) as [m [Hm [Hv _]]].
        exists m, lvs. repeat split; auto.
        intros k lk Hk.
        destruct (added_leaves_at (st_leaves s) lvs 1 k lk Hk) as [lf [H1 H2]].
        pose proof (force_ext c _ _ _ _ _ _ _ Ef2) as [_ Hle].
        destruct (Hle _ _ H1) as [lf' [H1' Hk']]. exists lf'. split; auto. congruence.
      * unfold create_children.
        assert (nth_error (st_dirs s2) i = None).
        { unfold force in Ef2. rewrite E1 in Ef2. inversion Ef2; subst. exact E1. }
        rewrite H. destruct (nth_error (st_dirs s2) i); auto.
  - (* OAttach *)
    destruct (negb (valid_dir s i)); auto.
    forcing Ef HI H1. destruct r; simpl; auto.
    destruct (deleted_of s1 i); simpl; auto.
    destruct (mem_name n (entries_of s1 i)); simpl; auto.
    apply Inv_modify. apply Inv_add_cas_dir; auto.
  - (* OLookup *)
    destruct (negb (valid_dir s i)); auto.
    forcing Ef HI H1. destruct r; simpl; auto.
    destruct (find_entry n (entries_of s1 i)); simpl; auto.
  - (* OReadDir *)
    destruct (negb (valid_dir s i)); auto.
    forcing Ef HI H1. destruct r; simpl; auto.
  - (* OOpen *)
    destruct (negb (valid_dir s i)); auto.
    forcing Ef HI H1. destruct r; simpl; auto.
    destruct (find_entry n (entries_of s1 i)) as [ch|]; simpl.
    + destruct (negb existing); simpl; auto. destruct ch; simpl; auto.
      destruct (nth_error (st_leaves s1) l); simpl; auto.
    + destruct (deleted_of s1 i || negb create); simpl; auto.
      apply Inv_modify. apply Inv_add_local_leaf; auto.
  - (* OMkdir *)
    destruct (negb (valid_dir s i)); auto.
    forcing Ef HI H1. destruct r; simpl; auto.
    destruct (deleted_of s1 i); simpl; auto.
    destruct (mem_name n (entries_of s1 i)); simpl; auto.
    apply Inv_modify. apply Inv_add_local_dir; auto.
  - (* ORemove *)
    destruct (negb (valid_dir s i)); auto.
    forcing Ef HI H1. destruct r; simpl; auto.
    destruct (find_entry n (entries_of s1 i)) as [[j|l]|]; simpl; auto.
    + destruct (negb rmdir); simpl; auto.
      forcing Ef2 H1 H2. destruct r; simpl; auto.
      destruct (entries_of s0 j); simpl; auto.
      apply Inv_modify. apply Inv_mark_deleted; auto.
    + destruct (negb rmleaf); simpl; auto.
      apply Inv_modify. apply Inv_add_link; auto.
  - (* ORename *)
    destruct (negb (valid_dir s i && valid_dir s j)); auto.
    forcing Ef HI H1. destruct r; simpl; auto.
    forcing Ef2 H1 H2. destruct r; simpl; auto.
    destruct (find_entry n2 (entries_of s0 j)) as [newch|]; simpl.
    + destruct (find_entry n (entries_of s0 i)) as [oldch|]; simpl; auto.
      destruct newch as [nd|nl], oldch as [od|ol]; simpl; auto.
      * destruct (nd =? od); simpl; auto.
        forcing Ef3 H2 H3. destruct r; simpl; auto.
        destruct (entries_of s2 nd); simpl; auto.
        apply Inv_modify. apply Inv_mark_deleted. apply Inv_modify. apply Inv_modify. auto.
      * destruct (nl =? ol); simpl; auto.
        apply Inv_modify. apply Inv_add_link. apply Inv_modify. apply Inv_modify. auto.
    + destruct (deleted_of s0 j); simpl; auto.
      destruct (find_entry n (entries_of s0 i)); simpl; auto.
      apply Inv_modify. apply Inv_modify. auto.
  - (* OLink *)
    destruct (negb (valid_dir s i && valid_leaf s l)); auto.
    forcing Ef HI H1. destruct r; simpl; auto.
    destruct (deleted_of s1 i); simpl; auto.
    destruct (mem_name n (entries_of s1 i)); simpl; auto.
    apply Inv_modify. apply Inv_add_link; auto.
  - destruct (nth_error (st_leaves s) l); simpl; auto.
  - destruct (nth_error (st_leaves s) l); simpl; auto.
  - destruct (nth_error (st_leaves s) l); simpl; auto.
  - destruct (nth_error (st_leaves s) l); simpl; auto.
  - destruct (nth_error (st_leaves s) l); simpl; auto.
Qed.

Lemma Inv_run : forall ops s, Inv c s -> Inv c (run c b s ops).
Proof.
  induction ops as [|o r IH]; intros s HI; simpl; auto. apply IH. apply Inv_step; auto.
Qed.

Lemma Inv_all : forall ops, Inv c (run c b init ops).
Proof. intros. apply Inv_run. apply Inv_init. Qed.

End WithCas.
