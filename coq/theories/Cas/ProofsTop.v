(* C17 proofs, part 7: the statements of Properties.v in their final form
   (over all histories from the initial state). *)
From VF Require Import Cas.Model Cas.Spec Cas.Cache Cas.ProofsLeaf Cas.ProofsInv Cas.ProofsStep
  Cas.ProofsFaithful Cas.ProofsTrace Cas.CacheProofs.
Open Scope string_scope.
Open Scope nat_scope.
Open Scope list_scope.

Lemma root_faithful_l : forall c b ops k i o d,
  nth_error (st_dirs (run c b init ops)) i = Some o -> d_born o = Some d ->
  deep_pristine k (run c b init ops) i ->
  reveal k c (run c b init ops) i = denote_f k c d.
Proof. intros. eapply reveal_denote; eauto. apply Inv_all. Qed.

Lemma root_faithful_denote_l : forall c b ops i o d t,
  nth_error (st_dirs (run c b init ops)) i = Some o -> d_born o = Some d ->
  deep_pristine (S (List.length c)) (run c b init ops) i ->
  denote c d = Some t ->
  reveal (S (List.length c)) c (run c b init ops) i = Some t.
Proof. intros. erewrite root_faithful_l; eauto. Qed.

Lemma root_faithful_level_l : forall c b ops i o d,
  nth_error (st_dirs (run c b init ops)) i = Some o ->
  d_pristine o = true -> d_born o = Some d -> d_lazy o = LNone ->
  exists chs lvs, expect c d = Some (chs, lvs) /\
    entries_ok (run c b init ops) lvs chs (d_entries o).
Proof. intros. eapply pristine_entries_exact; eauto. apply Inv_all. Qed.

Lemma cache_returns_stored_l : forall st fmt maxc maxs ops,
  store_respects st fmt ->
  Forall (fun ox => cache_p_step st fmt (fst ox) (snd ox) = "")
         (snd (crun st fmt maxc maxs [] ops)).
Proof. intros. apply crun_ok; auto. apply CInv_empty. Qed.

Lemma cache_entries_stored_l : forall st fmt maxc maxs ops e,
  In e (fst (crun st fmt maxc maxs [] ops)) ->
  exists o0, op_key fmt o0 = fst e /\ option_map fst (base_answer st o0) = Some (fst (snd e)).
Proof.
  intros st fmt maxc maxs ops.
  assert (G : forall ops s, CInv st fmt s -> CInv st fmt (fst (crun st fmt maxc maxs s ops))).
  { induction ops0 as [|o r IH]; intros s HI; simpl; auto.
    destruct (cstep st fmt maxc maxs s o) as [s' x] eqn:E.
    specialize (IH s'). destruct (crun st fmt maxc maxs s' r) as [s'' tr]. simpl in *.
    apply IH. replace s' with (fst (cstep st fmt maxc maxs s o)) by (rewrite E; auto).
    apply CInv_step; auto. }
  intros e Hin. exact (G ops [] (CInv_empty st fmt) e Hin).
Qed.
