(* C17, cache-key separation: executable model of pkg/cas/caching_directory_fetcher.go
   over an LRU eviction set (bb-storage pkg/eviction/lru_set.go), and of the
   key construction of pkg/cas/hardlinking_file_fetcher.go.

   A digest here carries its instance name: (instance, hash, size).  A cache
   key is Digest.GetKey(format) paired with IsTreeRoot; GetKey is modelled
   as the tuple of the fields it prints (KeyWithInstance keeps the instance
   name, KeyWithoutInstance drops it). *)
From Coq Require Export List String Bool ZArith Arith.
Export ListNotations.
Open Scope string_scope.
Open Scope nat_scope.
Open Scope list_scope.

Definition idigest := (string * string * Z)%type.       (* instance, hash, size *)
Definition ckey := (option string * string * Z * bool)%type.

(* fmt = true: digest.KeyWithInstance; false: digest.KeyWithoutInstance *)
Definition key_of (fmt : bool) (d : idigest) (root : bool) : ckey :=
  let '(i, h, z) := d in ((if fmt then Some i else None), h, z, root).

Definition ostr_eqb (a b : option string) : bool :=
  match a, b with
  | None, None => true
  | Some x, Some y => String.eqb x y
  | _, _ => false
  end.

Definition ckey_eqb (a b : ckey) : bool :=
  let '(i, h, z, r) := a in
  let '(i', h', z', r') := b in
  ostr_eqb i i' && String.eqb h h' && Z.eqb z z' && Bool.eqb r r'.

Definition idigest_eqb (a b : idigest) : bool :=
  let '(i, h, z) := a in
  let '(i', h', z') := b in
  String.eqb i i' && String.eqb h h' && Z.eqb z z'.

(* The base DirectoryFetcher: Directory objects by digest (named by a
   number), and the root Directory of Tree objects by the Tree's digest
   together with proto.Size of that root. *)
Record cstore := mkStore {
  cs_dirs : list (idigest * nat);
  cs_roots : list (idigest * (nat * Z)) }.

Fixpoint dget {A} (d : idigest) (l : list (idigest * A)) : option A :=
  match l with
  | [] => None
  | (k, v) :: r => if idigest_eqb k d then Some v else dget d r
  end.

Inductive cop :=
| CGetDir (d : idigest)                   (* GetDirectory *)
| CGetRoot (t : idigest)                  (* GetTreeRootDirectory *)
| CGetChild (t d : idigest).              (* GetTreeChildDirectory *)

(* result (None = error from the base), and whether the base was called *)
Definition cout := (option nat * bool)%type.

Definition cout_eqb (a b : cout) : bool :=
  match fst a, fst b with
  | None, None => true
  | Some x, Some y => x =? y
  | _, _ => false
  end && Bool.eqb (snd a) (snd b).

(* Cached objects in eviction order, least recently used first. *)
Definition cache := list (ckey * (nat * Z)).

Fixpoint cfind (k : ckey) (s : cache) : option (nat * Z) :=
  match s with
  | [] => None
  | (k', v) :: r => if ckey_eqb k' k then Some v else cfind k r
  end.

Fixpoint cremove (k : ckey) (s : cache) : cache :=
  match s with
  | [] => []
  | (k', v) :: r => if ckey_eqb k' k then r else (k', v) :: cremove k r
  end.

Definition ctotal (s : cache) : Z := fold_right (fun e a => (snd (snd e) + a)%Z) 0%Z s.

(* insert(): make space, oldest first. *)
Fixpoint make_space (fuel : nat) (maxc : nat) (maxs : Z) (sz : Z) (s : cache) : cache :=
  match fuel with
  | O => s
  | S f =>
    match s with
    | [] => s
    | _ :: r =>
      if (maxc <=? List.length s) || (maxs <? ctotal s + sz)%Z
      then make_space f maxc maxs sz r else s
    end
  end.

Definition cinsert (maxc : nat) (maxs : Z) (k : ckey) (id : nat) (sz : Z) (s : cache) : cache :=
  match cfind k s with
  | Some _ => s
  | None => make_space (List.length s) maxc maxs sz s ++ [(k, (id, sz))]
  end.

(* What the base fetcher answers, and the size the entry is cached with. *)
Definition base_answer (st : cstore) (o : cop) : option (nat * Z) :=
  match o with
  | CGetDir d => option_map (fun id => (id, snd d)) (dget d (cs_dirs st))
  | CGetRoot t => dget t (cs_roots st)
  | CGetChild t d => option_map (fun id => (id, snd d)) (dget d (cs_dirs st))
  end.

Definition op_key (fmt : bool) (o : cop) : ckey :=
  match o with
  | CGetDir d => key_of fmt d false
  | CGetRoot t => key_of fmt t true
  | CGetChild t d => key_of fmt d false
  end.

Definition cstep (st : cstore) (fmt : bool) (maxc : nat) (maxs : Z) (s : cache) (o : cop)
    : cache * cout :=
  let k := op_key fmt o in
  match cfind k s with
  | Some (id, sz) => (cremove k s ++ [(k, (id, sz))], (Some id, false))   (* Touch *)
  | None =>
    match base_answer st o with
    | None => (s, (None, true))
    | Some (id, sz) => (cinsert maxc maxs k id sz s, (Some id, true))
    end
  end.

Fixpoint crun (st : cstore) (fmt : bool) (maxc : nat) (maxs : Z) (s : cache) (ops : list cop)
    : cache * list (cop * cout) :=
  match ops with
  | [] => (s, [])
  | o :: r =>
    let '(s', x) := cstep st fmt maxc maxs s o in
    let '(s'', tr) := crun st fmt maxc maxs s' r in
    (s'', (o, x) :: tr)
  end.

(* P for the cache: whatever is returned is what the base fetcher stores
   for that request. *)
Definition cache_p_step (st : cstore) (fmt : bool) (o : cop) (x : cout) : string :=
  match fst x, base_answer st o with
  | Some id, Some (id', _) => if id =? id' then "" else "C17:cache-wrong-directory"
  | None, None => ""
  | Some _, None => "C17:cache-wrong-directory"
  | None, Some _ => "C17:cache-lost-directory"
  end.

(* The base store is content addressed as far as the key format can tell:
   requests with the same key get the same answer. *)
Definition store_respects (st : cstore) (fmt : bool) : Prop :=
  forall o o', op_key fmt o = op_key fmt o' ->
    option_map fst (base_answer st o) = option_map fst (base_answer st o').

(* ---- hardlinking_file_fetcher.go: cache file name ------------------------- *)

(* key := digest.GetKey(KeyWithoutInstance) + ("+x" | "-x") *)
Definition hl_key (hash_size : string) (x : bool) : string :=
  (hash_size ++ (if x then "+x" else "-x"))%string.
