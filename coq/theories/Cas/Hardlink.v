(* C17, hardlinkingFileFetcher (pkg/cas/hardlinking_file_fetcher.go):
   executable model, property predicate and correspondence evaluator.

   GetFile(digest, directory, name, isExecutable) first tries to hard link the
   cache file named key = digest.GetKey(KeyWithoutInstance) + "+x"/"-x" to
   directory/name; on a miss it lets the base fetcher download to
   directory/name and links that file into the cache directory, after making
   space (eviction set = LRU: bb-storage eviction.NewLRUSet).

   Blobs are numbered; blob d stands for one (hash, size) -- the instance
   name is not part of the key (KeyWithoutInstance) and is therefore not part
   of the model.  A file is what can be observed of it: whose contents it has
   and its executable bit.  The cache key is a parameter [keyf] of the model:
   the theorems need it to be injective in (blob, executable bit); the code's
   key is [hl_key] of Cache.v (CacheProofs.hl_key_inj), and a key that forgets
   the executable bit is refuted (Properties.hardlink_needs_exec_in_key).

   The base fetcher is assumed correct: when it succeeds, directory/name is a
   new file with the blob's contents and the requested executable bit
   (blobAccessFileFetcher: CreateExcl, so an existing name is an error). *)
From Coq Require Export List String Bool ZArith Arith NArith.
Export ListNotations.
Open Scope list_scope.

Definition hfile := (N * bool)%type.      (* contents of blob ..., executable bit *)

Inductive hop :=
| HGet (d : N) (exec : bool) (name : N) (base_ok : bool)
    (* GetFile; base_ok = outcome of the download, should one be needed *)
| HPair (d : N) (exec : bool) (name1 name2 : N) (ok1 ok2 : bool)
    (* two concurrent GetFile calls for the same key: the second one starts
       while the first is inside the base fetcher (if it gets there) *)
| HLose (d : N) (exec : bool)           (* the cache file disappears from the cache directory *)
| HClear (name : N).                    (* the build directory entry is removed *)

(* status classes *)
Definition ST_OK : N := 0%N.
Definition ST_BASE : N := 1%N.            (* the base fetcher's error, returned unchanged *)
Definition ST_INTERNAL : N := 2%N.        (* codes.Internal: linking from / into the cache failed *)

Record gout := mkGO {
  g_st : N;                               (* status class *)
  g_base : nat;                           (* number of calls of the base fetcher *)
  g_dest : option hfile }.                (* what is at directory/name afterwards *)

Section WithKey.
Variable K : Type.
Variable K_eqb : K -> K -> bool.
Variable keyf : N -> bool -> K.

Inductive hout :=
| HOGet (g : gout) (ls : list (K * hfile))          (* ls: the cache directory afterwards *)
| HOPair (g1 g2 : gout) (ls : list (K * hfile))
| HONone (ls : list (K * hfile)).

Record hcfg := mkCfg { hc_sizes : list Z; hc_maxfiles : nat; hc_maxsize : Z }.
Definition size_of (c : hcfg) (d : N) : Z := nth (N.to_nat d) (hc_sizes c) 0%Z.

Record hstate := mkHS {
  hs_lru : list (K * Z);          (* filesSize + evictionSet: least recently used first *)
  hs_disk : list (K * hfile);     (* the cache directory *)
  hs_dest : list (N * hfile) }.   (* the build directory *)

Definition hinit := mkHS [] [] [].

Fixpoint kfind {A} (k : K) (l : list (K * A)) : option A :=
  match l with
  | [] => None
  | (k', v) :: r => if K_eqb k' k then Some v else kfind k r
  end.

Fixpoint kremove {A} (k : K) (l : list (K * A)) : list (K * A) :=
  match l with
  | [] => []
  | (k', v) :: r => if K_eqb k' k then r else (k', v) :: kremove k r
  end.

Fixpoint nfind {A} (n : N) (l : list (N * A)) : option A :=
  match l with
  | [] => None
  | (n', v) :: r => if N.eqb n' n then Some v else nfind n r
  end.

Fixpoint nremove {A} (n : N) (l : list (N * A)) : list (N * A) :=
  match l with
  | [] => []
  | (n', v) :: r => if N.eqb n' n then r else (n', v) :: nremove n r
  end.

Definition ltotal (l : list (K * Z)) : Z := fold_right (fun e a => (snd e + a)%Z) 0%Z l.

(* evictionSet.Touch *)
Definition touch (k : K) (l : list (K * Z)) : list (K * Z) :=
  match kfind k l with
  | Some z => kremove k l ++ [(k, z)]
  | None => l
  end.

Inductive link_result := Linked | NotExist | LinkFailed.

(* tryLinkFromCache *)
Definition try_link (k : K) (name : N) (s : hstate) : hstate * link_result :=
  match kfind k (hs_lru s) with
  | None => (s, NotExist)
  | Some _ =>
    let lru := touch k (hs_lru s) in
    match kfind k (hs_disk s) with
    | None => (mkHS lru (hs_disk s) (hs_dest s), NotExist)           (* ENOENT *)
    | Some f =>
      match nfind name (hs_dest s) with
      | Some _ => (mkHS lru (hs_disk s) (hs_dest s), LinkFailed)     (* EEXIST *)
      | None => (mkHS lru (hs_disk s) (hs_dest s ++ [(name, f)]), Linked)
      end
    end
  end.

(* makeSpace: evict least recently used files, from disk and from the books *)
Fixpoint make_space (fuel : nat) (maxf : nat) (maxs : Z) (sz : Z)
    (lru : list (K * Z)) (disk : list (K * hfile)) : list (K * Z) * list (K * hfile) :=
  match fuel with
  | O => (lru, disk)
  | S f =>
    match lru with
    | [] => (lru, disk)
    | (k, _) :: r =>
      if (maxf <=? List.length lru) || (maxs <? ltotal lru + sz)%Z
      then make_space f maxf maxs sz r (kremove k disk)
      else (lru, disk)
    end
  end.

(* directory.Link(name, cacheDirectory, key) with EEXIST ignored *)
Definition link_into_cache (k : K) (f : hfile) (disk : list (K * hfile)) : list (K * hfile) :=
  match kfind k disk with
  | Some _ => disk
  | None => disk ++ [(k, f)]
  end.

Definition result (st : N) (calls : nat) (name : N) (s : hstate) : hstate * gout :=
  (s, mkGO st calls (nfind name (hs_dest s))).

(* GetFile, single threaded *)
Definition hget (c : hcfg) (d : N) (exec : bool) (name : N) (base_ok : bool) (s : hstate)
    : hstate * gout :=
  let k := keyf d exec in
  let '(s1, r) := try_link k name s in
  match r with
  | Linked => result ST_OK 0 name s1
  | LinkFailed => result ST_INTERNAL 0 name s1
  | NotExist =>
    (* the second tryLinkFromCache, after the download slot was taken *)
    let '(s2, r2) := try_link k name s1 in
    match r2 with
    | Linked => result ST_OK 0 name s2
    | LinkFailed => result ST_INTERNAL 0 name s2
    | NotExist =>
      match nfind name (hs_dest s2) with
      | Some _ => result ST_BASE 1 name s2                 (* CreateExcl fails *)
      | None =>
        if negb base_ok then result ST_BASE 1 name s2
        else
          let f := (d, exec) in
          let dest := hs_dest s2 ++ [(name, f)] in
          match kfind k (hs_lru s2) with
          | None =>
            let sz := size_of c d in
            let '(lru, disk) := make_space (List.length (hs_lru s2)) (hc_maxfiles c) (hc_maxsize c) sz
                                           (hs_lru s2) (hs_disk s2) in
            result ST_OK 1 name (mkHS (lru ++ [(k, sz)]) (link_into_cache k f disk) dest)
          | Some _ =>
            (* in the books, but missing on disk: repaired *)
            result ST_OK 1 name (mkHS (hs_lru s2) (link_into_cache k f (hs_disk s2)) dest)
          end
      end
    end
  end.

Definition hstep (c : hcfg) (s : hstate) (o : hop) : hstate * hout :=
  match o with
  | HGet d exec name ok =>
    let '(s', g) := hget c d exec name ok s in (s', HOGet g (hs_disk s'))
  | HPair d exec n1 n2 ok1 ok2 =>
    (* The second call can only wait for the first one (same key): the two
       calls take effect one after the other. *)
    let '(s1, g1) := hget c d exec n1 ok1 s in
    let '(s2, g2) := hget c d exec n2 ok2 s1 in
    (* both names are looked at when both calls have returned *)
    (s2, HOPair (mkGO (g_st g1) (g_base g1) (nfind n1 (hs_dest s2))) g2 (hs_disk s2))
  | HLose d exec =>
    let s' := mkHS (hs_lru s) (kremove (keyf d exec) (hs_disk s)) (hs_dest s) in (s', HONone (hs_disk s'))
  | HClear name =>
    let s' := mkHS (hs_lru s) (hs_disk s) (nremove name (hs_dest s)) in (s', HONone (hs_disk s'))
  end.

Fixpoint htrace (c : hcfg) (s : hstate) (ops : list hop) : list (hop * hout) :=
  match ops with
  | [] => []
  | o :: r => let '(s', x) := hstep c s o in (o, x) :: htrace c s' r
  end.

(* ---- the property, on what can be observed of one call -------------------------- *)

Definition hfile_eqb (a b : hfile) : bool := N.eqb (fst a) (fst b) && Bool.eqb (snd a) (snd b).

(* a successful GetFile(d, exec) leaves d's contents with exec's mode at the name *)
Definition p_get (d : N) (exec : bool) (g : gout) : string :=
  if N.eqb (g_st g) ST_OK then
    match g_dest g with
    | Some f => if hfile_eqb f (d, exec) then ""%string else "C17:hl-wrong-file"%string
    | None => "C17:hl-no-file"%string
    end
  else ""%string.

(* every file of the cache directory is the file its name stands for *)
Definition p_cache (ls : list (K * hfile)) : string :=
  if forallb (fun e => K_eqb (fst e) (keyf (fst (snd e)) (snd (snd e)))) ls then ""%string
  else "C17:hl-cache-poisoned"%string.

Definition orelse (a b : string) : string := if String.eqb a "" then b else a.

Definition p_hstep (o : hop) (x : hout) : string :=
  match o, x with
  | HGet d exec _ _, HOGet g ls => orelse (p_get d exec g) (p_cache ls)
  | HPair d exec _ _ _ _, HOPair g1 g2 ls =>
    orelse (p_get d exec g1) (orelse (p_get d exec g2)
      (orelse (if N.eqb (g_st g1) ST_OK && Nat.eqb (g_base g1) 1 && negb (Nat.eqb (g_base g2) 0)
               then "C17:hl-duplicate-download"%string else ""%string)
              (p_cache ls)))
  | HLose _ _, HONone ls => p_cache ls
  | HClear _, HONone ls => p_cache ls
  | _, _ => "C17:hl-malformed-output"%string
  end.

Definition htrace_ok (tr : list (hop * hout)) : bool :=
  forallb (fun ox => String.eqb (p_hstep (fst ox) (snd ox)) "") tr.

End WithKey.

Arguments HOGet {K}. Arguments HOPair {K}. Arguments HONone {K}.
Arguments mkHS {K}. Arguments hs_lru {K}. Arguments hs_disk {K}. Arguments hs_dest {K}.
Arguments hinit {K}.

(* ---- correspondence: the key is the pair (blob, executable bit) as the harness
   parses it back from the cache file names ------------------------------------------ *)

From VF Require Import Common.Verdict.

Definition pkey := (N * bool)%type.
Definition pkey_eqb (a b : pkey) : bool := N.eqb (fst a) (fst b) && Bool.eqb (snd a) (snd b).
Definition pkeyf (d : N) (e : bool) : pkey := (d, e).

Record hcase := mkHCase {
  hk_sizes : list Z; hk_maxfiles : nat; hk_maxsize : Z;
  hk_ops : list hop; hk_outs : list (hout pkey) }.

Definition gout_eqb (a b : gout) : bool :=
  N.eqb (g_st a) (g_st b) && Nat.eqb (g_base a) (g_base b) &&
  match g_dest a, g_dest b with
  | Some x, Some y => hfile_eqb x y
  | None, None => true
  | _, _ => false
  end.

(* the cache directory as a set of (name, file) *)
Definition ls_incl (a b : list (pkey * hfile)) : bool :=
  forallb (fun e => existsb (fun e' => pkey_eqb (fst e) (fst e') && hfile_eqb (snd e) (snd e')) b) a.
Definition ls_eqb (a b : list (pkey * hfile)) : bool :=
  Nat.eqb (List.length a) (List.length b) && ls_incl a b && ls_incl b a.

Definition hout_diff (x y : hout pkey) : string :=
  match x, y with
  | HOGet g ls, HOGet g' ls' =>
    if negb (gout_eqb g g') then "hardlink-result"%string
    else if negb (ls_eqb ls ls') then "hardlink-cache-directory"%string else ""%string
  | HOPair g1 g2 ls, HOPair g1' g2' ls' =>
    if negb (gout_eqb g1 g1' && gout_eqb g2 g2') then "hardlink-pair-result"%string
    else if negb (ls_eqb ls ls') then "hardlink-cache-directory"%string else ""%string
  | HONone ls, HONone ls' => if negb (ls_eqb ls ls') then "hardlink-cache-directory"%string else ""%string
  | _, _ => "hardlink-output-shape"%string
  end.

Fixpoint hviol_from (i : nat) (ops : list hop) (outs : list (hout pkey)) : verdict :=
  match ops, outs with
  | o :: ops', x :: outs' =>
    let k := p_hstep pkey pkey_eqb pkeyf o x in
    if String.eqb k "" then hviol_from (S i) ops' outs' else VViolation i k
  | [], [] => VOk
  | _, _ => VMismatch i "malformed case"
  end.

Fixpoint hmism_from (c : hcfg) (i : nat) (s : hstate pkey) (ops : list hop) (outs : list (hout pkey)) : verdict :=
  match ops, outs with
  | o :: ops', x :: outs' =>
    let '(s', y) := hstep pkey pkey_eqb pkeyf c s o in
    let d := hout_diff x y in
    if String.eqb d "" then hmism_from c (S i) s' ops' outs' else VMismatch i d
  | _, _ => VOk
  end.

Definition check_hcase (k : hcase) : verdict :=
  vcombine (hviol_from 0 (hk_ops k) (hk_outs k))
           (hmism_from (mkCfg (hk_sizes k) (hk_maxfiles k) (hk_maxsize k)) 0 hinit (hk_ops k) (hk_outs k)).
