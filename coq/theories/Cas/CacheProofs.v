(* C17 proofs, part 5: cache-key separation of cachingDirectoryFetcher and of
   the hardlinking file fetcher's cache file names. *)
From VF Require Import Cas.Cache.
From Coq Require Import Lia.
Open Scope string_scope.
Open Scope nat_scope.
Open Scope list_scope.

Lemma ostr_eqb_eq : forall a b, ostr_eqb a b = true -> a = b.
Proof.
  intros [x|] [y|] H; simpl in H; try discriminate; auto.
  apply String.eqb_eq in H. congruence.
Qed.

Lemma ckey_eqb_eq : forall a b, ckey_eqb a b = true -> a = b.
Proof.
  intros [[[i h] z] r] [[[i' h'] z'] r'] H. simpl in H.
  apply andb_prop in H. destruct H as [H Hr]. apply andb_prop in H. destruct H as [H Hz].
  apply andb_prop in H. destruct H as [Hi Hh].
  apply ostr_eqb_eq in Hi. apply String.eqb_eq in Hh. apply Z.eqb_eq in Hz. apply Bool.eqb_prop in Hr.
  congruence.
Qed.

(* Keys: a Tree root and a Directory never share a key; equal keys mean
   equal hash and size; with KeyWithInstance equal keys mean equal digests
   (instance name included). *)
Lemma key_separation : forall fmt d r d' r',
  key_of fmt d r = key_of fmt d' r' ->
  r = r' /\ snd (fst d) = snd (fst d') /\ snd d = snd d' /\ (fmt = true -> d = d').
Proof.
  intros fmt [[i h] z] r [[i' h'] z'] r' H. unfold key_of in H. inversion H; subst.
  repeat split; auto. intros ->. congruence.
Qed.

Lemma key_root_differs : forall fmt d d', key_of fmt d true <> key_of fmt d' false.
Proof. intros fmt d d' H. apply key_separation in H. destruct H as [H _]. discriminate. Qed.

Lemma key_instance_differs : forall i i' h z r,
  i <> i' -> key_of true (i, h, z) r <> key_of true (i', h, z) r.
Proof. intros i i' h z r Hne H. inversion H. contradiction. Qed.

(* ---- the cache only ever holds what the base fetcher stores ------------------- *)

Section Sound.
Variable st : cstore.
Variable fmt : bool.
Variable maxc : nat.
Variable maxs : Z.

Definition centry_ok (e : ckey * (nat * Z)) : Prop :=
  exists o0, op_key fmt o0 = fst e /\ option_map fst (base_answer st o0) = Some (fst (snd e)).

Definition CInv (s : cache) : Prop := forall e, In e s -> centry_ok e.

Lemma cremove_in : forall k s e, In e (cremove k s) -> In e s.
Proof.
  induction s as [|[k' v] s IH]; simpl; intros e H; auto.
  destruct (ckey_eqb k' k); auto. destruct H as [->|H]; auto.
Qed.

Lemma cfind_in : forall k s v, cfind k s = Some v -> In (k, v) s.
Proof.
  induction s as [|[k' v'] s IH]; simpl; intros v H; [discriminate|].
  destruct (ckey_eqb k' k) eqn:E; auto.
  apply ckey_eqb_eq in E. inversion H; subst. auto.
Qed.

Lemma make_space_in : forall fuel sz s e, In e (make_space fuel maxc maxs sz s) -> In e s.
Proof.
  induction fuel as [|f IH]; intros sz s e H; simpl in H; auto.
  destruct s as [|x r]; auto.
  destruct ((maxc <=? List.length (x :: r)) || (maxs <? ctotal (x :: r) + sz)%Z); auto.
  right. eapply IH; eauto.
Qed.

Lemma CInv_step : forall s o, CInv s -> CInv (fst (cstep st fmt maxc maxs s o)).
Proof.
  intros s o HI. unfold cstep.
  destruct (cfind (op_key fmt o) s) as [[id sz]|] eqn:Ef; simpl.
  - intros e Hin. apply in_app_or in Hin. destruct Hin as [Hin|[<-|[]]].
    + apply HI. eapply cremove_in; eauto.
    + apply HI. apply cfind_in; auto.
  - destruct (base_answer st o) as [[id sz]|] eqn:Eb; simpl; auto.
    unfold cinsert. rewrite Ef. intros e Hin. apply in_app_or in Hin. destruct Hin as [Hin|[<-|[]]].
    + apply HI. eapply make_space_in; eauto.
    + exists o. simpl. rewrite Eb. auto.
Qed.

Hypothesis Hst : store_respects st fmt.

Lemma cstep_answer : forall s o, CInv s ->
  option_map fst (base_answer st o) = fst (snd (cstep st fmt maxc maxs s o)).
Proof.
  intros s o HI. unfold cstep.
  destruct (cfind (op_key fmt o) s) as [[id sz]|] eqn:Ef; simpl.
  - destruct (HI _ (cfind_in _ _ _ Ef)) as [o0 [Hk Hb]]. simpl in *.
    rewrite <- Hb. apply Hst. auto.
  - destruct (base_answer st o) as [[id sz]|]; reflexivity.
Qed.

Lemma cstep_p : forall s o, CInv s -> cache_p_step st fmt o (snd (cstep st fmt maxc maxs s o)) = "".
Proof.
  intros s o HI. unfold cache_p_step. rewrite <- (cstep_answer s o HI).
  destruct (base_answer st o) as [[id sz]|]; simpl; auto. rewrite Nat.eqb_refl. reflexivity.
Qed.

Lemma crun_ok : forall ops s, CInv s ->
  Forall (fun ox => cache_p_step st fmt (fst ox) (snd ox) = "") (snd (crun st fmt maxc maxs s ops)).
Proof.
  induction ops as [|o r IH]; intros s HI; simpl; [constructor|].
  destruct (cstep st fmt maxc maxs s o) as [s' x] eqn:E.
  destruct (crun st fmt maxc maxs s' r) as [s'' tr] eqn:E2. simpl.
  constructor.
  - simpl. replace x with (snd (cstep st fmt maxc maxs s o)) by (rewrite E; auto). apply cstep_p; auto.
  - replace tr with (snd (crun st fmt maxc maxs s' r)) by (rewrite E2; auto). apply IH.
    replace s' with (fst (cstep st fmt maxc maxs s o)) by (rewrite E; auto). apply CInv_step; auto.
Qed.

End Sound.

Lemma CInv_empty : forall st fmt, CInv st fmt [].
Proof. intros st fmt e []. Qed.

(* With KeyWithInstance every base store respects the keys as far as
   GetDirectory / GetTreeRootDirectory are concerned: the key determines
   the request up to the Tree a child is taken from. *)
Lemma store_respects_with_instance : forall st, store_respects st true.
Proof.
  intros st o o' H. destruct o as [d|t|t d], o' as [d'|t'|t' d']; simpl in *;
    apply key_separation in H; destruct H as [Hr [_ [_ Hd]]]; try discriminate;
    rewrite (Hd eq_refl); reflexivity.
Qed.

(* ---- hardlinking file fetcher ------------------------------------------------------ *)

Lemma append_length : forall a b : string, String.length (a ++ b)%string = String.length a + String.length b.
Proof. induction a as [|ch a IH]; intros b; simpl; auto. Qed.

Lemma append_inj_same_length : forall a a' b b' : string,
  String.length a = String.length a' -> (a ++ b = a' ++ b')%string -> a = a' /\ b = b'.
Proof.
  induction a as [|ch a IH]; intros [|ch' a'] b b' Hl H; simpl in *; try discriminate; auto.
  inversion H; subst. destruct (IH a' b b') as [-> ->]; auto.
Qed.

Lemma hl_key_inj : forall h x h' x', hl_key h x = hl_key h' x' -> h = h' /\ x = x'.
Proof.
  intros h x h' x' H. unfold hl_key in H.
  assert (Hl : String.length h = String.length h').
  { apply (f_equal String.length) in H. rewrite !append_length in H.
    destruct x, x'; simpl in H; lia. }
  destruct (append_inj_same_length _ _ _ _ Hl H) as [-> Hx]. split; auto.
  destruct x, x'; auto; discriminate.
Qed.
