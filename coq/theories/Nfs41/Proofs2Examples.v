(* Concrete histories for the C20 theorems of Properties2C20.v: the
   shared-lock-owner history (the hypothesis [never_shared] is needed) and
   an ordinary one (the hypotheses are satisfiable). *)
From Coq Require Import Lia.
From VF Require Export Nfs41.Proofs2Close.
Open Scope N_scope.

Ltac solve_valid :=
  repeat match goal with
  | |- Forall _ [] => apply Forall_nil
  | |- Forall _ (_ :: _) => apply Forall_cons
  | |- event_valid _ => cbn
  | |- op_valid _ => cbn
  | |- True => exact Logic.I
  | |- req_valid _ _ => unfold req_valid, u64max; repeat split; try lia; intros [? ?]; lia
  end.

(* ==== the hypothesis is needed, and satisfiable ===================================================== *)
Definition cfg3 := mkConfig 4000 2 6.
Definition open_lock (tid sq owner off : N) : list event :=
  [ ESeqBegin tid 3 0 sq true [OPutRootFH; OOpen owner 3 0 HowUnchecked (ClaimNull 1);
                               OLock 2 off 10 (LockerNew sid_current 1)];
    ESection tid FsOk; ESection tid (FsLeaf 1); ESection tid FsOk; ESection tid FsOk; ESection tid FsOk ].

(* One lock-owner (1) of one client locks file 1 through two open-owners
   (0 and 1), then the first open is closed. *)
Definition shared_events : list event :=
  [ ESolo 1 (SExchangeId 0 10); ESolo 2 (SCreateSession 1 3) ]
  ++ open_lock 3 1 0 0 ++ open_lock 4 2 1 20 ++
  [ ESeqBegin 5 3 0 3 true [OPutFH 1; OClose (mkSid 0 1 0)];
    ESection 5 FsOk; ESection 5 FsOk; ESection 5 FsOk ].

Lemma shared_refutes :
  Forall event_valid shared_events
  /\ never_shared_b (init cfg3 1000) shared_events = false
  /\ st_panic (reachable cfg3 1000 shared_events) = true.
Proof.
  split; [|split; vm_compute; reflexivity].
  unfold shared_events, open_lock. cbn [app]. solve_valid.
Qed.
