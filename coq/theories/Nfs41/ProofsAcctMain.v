(* C18, accounting: all events, and the theorems about whole histories. *)
From VF Require Export Nfs41.ProofsAcctState Nfs41.ProofsSide Nfs41.ProofsThreads.
Open Scope N_scope.

Lemma in_clients_find : forall st c, acct_inv st -> In c (st_clients st) -> find_client (c_id c) (st_clients st) = Some c.
Proof. intros st c [Cn _] Hin. rewrite find_client_k. apply kfind_in_nodup; assumption. Qed.

Lemma thread_client_bound : forall st t, acct_inv st -> side_inv st -> In t (st_threads st) -> t_client t <= st_rng st.
Proof.
  intros st t I [S1 _] Ht. destruct I as [_ [_ [_ [Tok _]]]]. destruct (Tok t Ht) as [c [Hc _]].
  rewrite find_client_k in Hc. apply kfind_some in Hc. destruct Hc as [Hin <-]. auto.
Qed.

(* ---- EXCHANGE_ID --------------------------------------------------------------------- *)
Lemma op_exchange_id_goal : forall o v st, acct_inv st -> side_inv st ->
  st_goal st (fst (fst (op_exchange_id o v st))) (snd (fst (op_exchange_id o v st))).
Proof.
  intros o v st I S. unfold op_exchange_id.
  pose proof (enter_goal st I) as G. pose proof (enter_side st S) as S1.
  destruct (enter st) as [st1 outs]. cbn [fst snd] in *.
  destruct (find _ _); cbn [fst snd]; [exact G|].
  rewrite <- (app_nil_r outs). eapply st_goal_trans; [exact G|].
  destruct G as [I1 _]. clear I S.
  set (cid := st_rng st1 + 1).
  set (c := mkClient cid o v false 0 (st_now st1) (st_rng st1 + 2) None [] [] 0).
  destruct I1 as [Cn [Tn [Cok [Tok Iok]]]]. destruct S1 as [A1 A2].
  assert (Hfresh : forall c2, In c2 (st_clients st1) -> c_id c2 <> cid).
  { intros c2 Hin E. specialize (A1 c2 Hin). subst cid. lia. }
  assert (Hnone : kfind c_id cid (st_clients st1) = None).
  { destruct (kfind c_id cid (st_clients st1)) eqn:E; [|reflexivity]. apply kfind_some in E. destruct E as [Hin E].
    exfalso. eapply Hfresh; eauto. }
  assert (Hnt : forall t, In t (st_threads st1) -> (t_client t =? cid) = false).
  { intros t Ht. apply N.eqb_neq. intros E. destruct (Tok t Ht) as [c2 [Hc2 _]].
    rewrite find_client_k in Hc2. apply kfind_some in Hc2. destruct Hc2 as [Hin E2]. eapply Hfresh; eauto. congruence. }
  assert (Hfind : forall id c2, find_client id (st_clients st1) = Some c2 -> find_client id (st_clients st1 ++ [c]) = Some c2).
  { intros id c2 H. rewrite find_client_k, kfind_app. rewrite <- find_client_k, H. reflexivity. }
  split.
  - unfold acct_inv. cbn [st_clients st_threads st_idle set_idle set_clients set_rng].
    split.
    { rewrite map_app. cbn. apply NoDup_snoc; [exact Cn|]. intros Hin. apply in_map_iff in Hin.
      destruct Hin as [c2 [E Hin]]. eapply Hfresh; eauto. }
    split; [exact Tn|]. split; [|split].
    + intros c2 Hin. apply in_app_or in Hin. destruct Hin as [Hin|[<-|[]]].
      * destruct (Cok c2 Hin) as [N1 [O1 H1]]. split; [exact N1|]. split; [|exact H1].
        intros o0 Ho. destruct (O1 o0 Ho) as [B [S1 S2]]. split; [exact B|]. split; [|exact S2]. exact S1.
      * split; [constructor|]. split; [intros o0 []|]. subst c. cbn [c_hold c_id].
        unfold countz. rewrite (sumz_ext _ (fun _ => 0%Z)); [rewrite sumz_zero; reflexivity|].
        intros t Ht. rewrite (Hnt t Ht). reflexivity.
    + intros t Ht. destruct (Tok t Ht) as [c2 [Hc2 Hp]]. exists c2. split; [apply Hfind; exact Hc2|exact Hp].
    + intros id Hin. apply in_app_or in Hin. destruct Hin as [Hin|[<-|[]]].
      * destruct (Iok id Hin) as [c2 [Hc2 Hh]]. exists c2. split; [apply Hfind; exact Hc2|exact Hh].
      * exists c. split; [|reflexivity]. rewrite find_client_k, kfind_app, Hnone. unfold kfind. cbn.
        rewrite N.eqb_refl. reflexivity.
  - intros h b. unfold holders. cbn [st_clients st_threads set_idle set_clients set_rng].
    rewrite sumz_app. cbn. lia.
Qed.

(* ---- CREATE_SESSION -------------------------------------------------------------------- *)
Lemma cs_finish_goal : forall cid sq st, acct_inv st -> st_goal st (fst (cs_finish cid sq st)) [].
Proof.
  intros cid sq st I. unfold cs_finish. cbn [fst].
  set (st3 := match find_client cid (st_clients st) with
              | Some c2 => set_clients st (upd_client (c_set_confirmed c2 true) (st_clients st))
              | None => st end).
  assert (G3 : st_goal st st3 []).
  { subst st3. destruct (find_client cid (st_clients st)) as [c2|] eqn:Ef; [|apply st_goal_same; exact I].
    assert (Hcid : c_id c2 = cid) by (rewrite find_client_k in Ef; apply kfind_some in Ef; tauto).
    eapply (client_fields_goal st _ c2 (c_set_confirmed c2 true)); try reflexivity; auto.
    cbn. rewrite Hcid. exact Ef. }
  set (st4 := set_sessions (set_rng st3 (st_rng st3 + 1))
                (mkSession (st_rng st3 + 1) cid (fresh_slots (cf_slots (st_cfg st3))) :: st_sessions st3)).
  assert (G4 : st_goal st3 st4 []) by (apply acct_ext; [reflexivity..|exact (proj1 G3)]).
  set (st5 := match find_client cid (st_clients st4) with
              | Some c2 => set_clients st4 (upd_client (c_set_cs c2 sq (Some (st_rng st3 + 1, sq))) (st_clients st4))
              | None => st4 end).
  assert (G5 : st_goal st4 st5 []).
  { subst st5. destruct (find_client cid (st_clients st4)) as [c2|] eqn:Ef; [|apply st_goal_same; exact (proj1 G4)].
    assert (Hcid : c_id c2 = cid) by (rewrite find_client_k in Ef; apply kfind_some in Ef; tauto).
    eapply (client_fields_goal st4 _ c2 (c_set_cs c2 sq (Some (st_rng st3 + 1, sq)))); try reflexivity; auto.
    - exact (proj1 G4).
    - cbn. rewrite Hcid. exact Ef. }
  pose proof (touch_goal st5 cid (proj1 G5)) as G6.
  pose proof (st_goal_trans _ _ _ _ _ (st_goal_trans _ _ _ _ _ (st_goal_trans _ _ _ _ _ G3 G4) G5) G6) as G.
  exact G.
Qed.

Lemma op_create_session_goal : forall cid sq st, acct_inv st ->
  st_goal st (fst (fst (op_create_session cid sq st))) (snd (fst (op_create_session cid sq st))).
Proof.
  intros cid sq st I. unfold op_create_session.
  pose proof (enter_goal st I) as G. destruct (enter st) as [st1 outs]. cbn [fst snd] in *.
  destruct (find_client cid (st_clients st1)) as [c|]; cbn [fst snd]; [|exact G].
  destruct (sq =? c_seq c); cbn [fst snd]; [exact G|].
  destruct (sq =? _); cbn [fst snd]; [|exact G].
  destruct (find _ _) as [x|] eqn:Ex.
  - destruct (0 <? c_hold x) eqn:Eh; cbn [fst snd].
    + rewrite <- (app_nil_r outs). eapply st_goal_trans; [exact G|apply touch_goal; exact (proj1 G)].
    + apply find_some in Ex. destruct Ex as [Hxin _].
      assert (Hh : c_hold x = 0) by (apply N.ltb_ge in Eh; lia).
      pose proof (empty_and_remove_goal st1 (c_id x) x (proj1 G) (in_clients_find st1 x (proj1 G) Hxin) Hh) as G2.
      destruct (empty_and_remove (c_id x) st1) as [st2 outs2]. cbn [fst snd] in G2.
      pose proof (cs_finish_goal cid sq st2 (proj1 G2)) as G3.
      destruct (cs_finish cid sq st2) as [st3 r]. cbn [fst snd] in *.
      rewrite <- (app_nil_r (outs ++ outs2)).
      exact (st_goal_trans _ _ _ _ _ (st_goal_trans _ _ _ _ _ G G2) G3).
  - pose proof (cs_finish_goal cid sq st1 (proj1 G)) as G3.
    destruct (cs_finish cid sq st1) as [st3 r]. cbn [fst snd] in *.
    rewrite <- (app_nil_r outs). exact (st_goal_trans _ _ _ _ _ G G3).
Qed.

(* ---- DESTROY_CLIENTID, DESTROY_SESSION, BIND_CONN_TO_SESSION ----------------------------- *)
Lemma op_destroy_clientid_goal : forall cid st, acct_inv st ->
  st_goal st (fst (fst (op_destroy_clientid cid st))) (snd (fst (op_destroy_clientid cid st))).
Proof.
  intros cid st I. unfold op_destroy_clientid.
  pose proof (enter_goal st I) as G. destruct (enter st) as [st1 outs]. cbn [fst snd] in *.
  destruct (find_client cid (st_clients st1)) as [c|] eqn:Ef; cbn [fst snd]; [|exact G].
  destruct (negb (c_hold c =? 0) || existsb of_live (c_oofs c) || existsb (fun s => ss_client s =? cid) (st_sessions st1)) eqn:Eb;
    cbn [fst snd]; [exact G|].
  apply Bool.orb_false_iff in Eb. destruct Eb as [Eb _]. apply Bool.orb_false_iff in Eb. destruct Eb as [Eh El].
  apply Bool.negb_false_iff, N.eqb_eq in Eh.
  assert (Hcin : In c (st_clients st1) /\ c_id c = cid) by (rewrite find_client_k in Ef; apply kfind_some in Ef; exact Ef).
  destruct Hcin as [Hcin Hcid].
  rewrite <- (app_nil_r outs). eapply st_goal_trans; [exact G|].
  destruct (client_remove_fields cid st1 c Ef) as [F1 [F2 F3]].
  assert (Hf : find_client (c_id c) (st_clients st1) = Some c) by (rewrite Hcid; exact Ef).
  assert (Hz : forall h b, cl_ind h b c = 0%Z).
  { intros h b. apply quiet_all_dead_ind.
    - exact (quiet_of_inv st1 c (proj1 G) Hcin Eh).
    - intros o Ho. destruct (of_live o) eqn:E; [|reflexivity].
      assert (existsb of_live (c_oofs c) = true) by (apply existsb_exists; eauto). congruence. }
  subst cid.
  exact (remove_client_goal st1 _ c (proj1 G) Hf Eh Hz F1 F2 F3).
Qed.

Lemma op_destroy_session_goal : forall i st, acct_inv st ->
  st_goal st (fst (fst (op_destroy_session i st))) (snd (fst (op_destroy_session i st))).
Proof.
  intros i st I. unfold op_destroy_session.
  pose proof (enter_goal st I) as G. destruct (enter st) as [st1 outs]. cbn [fst snd] in *.
  destruct (find_session _ _); cbn [fst snd]; [|exact G].
  rewrite <- (app_nil_r outs). eapply st_goal_trans; [exact G|]. apply acct_ext; [reflexivity..|exact (proj1 G)].
Qed.

Lemma op_bind_conn_goal : forall i d st, acct_inv st ->
  st_goal st (fst (fst (op_bind_conn i d st))) (snd (fst (op_bind_conn i d st))).
Proof.
  intros i d st I. unfold op_bind_conn. destruct (negb d); cbn [fst snd]; [apply st_goal_same; exact I|].
  pose proof (enter_goal st I) as G. destruct (enter st) as [st1 outs]. cbn [fst snd] in *.
  destruct (find_session _ _); exact G.
Qed.

Lemma balance_reply : forall h b tid r l, balance h b (l ++ [OReply tid r]) = balance h b l.
Proof. intros. rewrite balance_app. cbn. lia. Qed.

Lemma solo_step_goal : forall tid s st, acct_inv st -> side_inv st ->
  acct_inv (fst (solo_step tid s st))
  /\ forall h b, holders (fst (solo_step tid s st)) h b = (holders st h b + balance h b (snd (solo_step tid s st)))%Z.
Proof.
  intros tid s st I S. destruct s; cbn [solo_step].
  - pose proof (op_exchange_id_goal owner verifier st I S) as G.
    destruct (op_exchange_id _ _ _) as [[st1 outs] r]. cbn [fst snd] in *.
    split; [exact (proj1 G)|]. intros h b. rewrite balance_reply. apply G.
  - pose proof (op_create_session_goal clientid seq st I) as G.
    destruct (op_create_session _ _ _) as [[st1 outs] r]. cbn [fst snd] in *.
    split; [exact (proj1 G)|]. intros h b. rewrite balance_reply. apply G.
  - pose proof (op_destroy_session_goal id st I) as G.
    destruct (op_destroy_session _ _) as [[st1 outs] r]. cbn [fst snd] in *.
    split; [exact (proj1 G)|]. intros h b. rewrite balance_reply. apply G.
  - pose proof (op_destroy_clientid_goal id st I) as G.
    destruct (op_destroy_clientid _ _) as [[st1 outs] r]. cbn [fst snd] in *.
    split; [exact (proj1 G)|]. intros h b. rewrite balance_reply. apply G.
  - pose proof (op_bind_conn_goal id dir_valid st I) as G.
    destruct (op_bind_conn _ _ _) as [[st1 outs] r]. cbn [fst snd] in *.
    split; [exact (proj1 G)|]. intros h b. rewrite balance_reply. apply G.
  - cbn. split; [exact I|]. intros. lia.
  - cbn. split; [exact I|]. intros. lia.
  - cbn. split; [exact I|]. intros. lia.
  - cbn. split; [exact I|]. intros. lia.
Qed.

(* ---- a compound starts: hold + new compound ------------------------------------------- *)
Lemma thread_add_goal : forall st cid c t,
  acct_inv st -> find_client cid (st_clients st) = Some c ->
  t_client t = cid -> t_phase t = PhNone ->
  (forall t2, In t2 (st_threads st) -> t_id t2 <> t_id t) ->
  st_goal st (set_threads (hold cid st) (st_threads (hold cid st) ++ [t])) [].
Proof.
  intros st cid c t I Hf Hcl Hph Hfresh.
  assert (Hcin : In c (st_clients st) /\ c_id c = cid) by (rewrite find_client_k in Hf; apply kfind_some in Hf; exact Hf).
  destruct Hcin as [Hcin Hcid].
  destruct I as [Cn [Tn [Cok [Tok Iok]]]].
  set (c' := c_set_hold c (c_hold c + 1) (c_seen c)).
  assert (Hcl' : st_clients (hold cid st) = upd_client c' (st_clients st)).
  { unfold hold. rewrite Hf. destruct (c_hold c =? 0); reflexivity. }
  assert (Hth' : st_threads (hold cid st) = st_threads st).
  { unfold hold. rewrite Hf. destruct (c_hold c =? 0); reflexivity. }
  assert (Hidl' : forall id, In id (st_idle (hold cid st)) -> In id (st_idle st) /\ id <> cid).
  { intros id Hin. unfold hold in Hin. rewrite Hf in Hin. destruct (c_hold c =? 0) eqn:E.
    - cbn in Hin. unfold idle_remove in Hin. apply filter_In in Hin. destruct Hin as [Hin Hne].
      apply Bool.negb_true_iff, N.eqb_neq in Hne. auto.
    - cbn in Hin. split; [exact Hin|]. intros ->. destruct (Iok cid Hin) as [c2 [Hc2 Hh]].
      assert (c2 = c) by congruence. subst c2. apply N.eqb_neq in E. contradiction. }
  assert (Hfc' : kfind c_id (c_id c') (st_clients st) = Some c) by (subst c'; cbn; rewrite Hcid, <- find_client_k; exact Hf).
  assert (Hfind : forall id c2, find_client id (st_clients st) = Some c2 ->
            exists c3, find_client id (upd_client c' (st_clients st)) = Some c3 /\ c_oofs c3 = c_oofs c2
                       /\ (id <> cid -> c3 = c2)).
  { intros id c2 H2. rewrite find_client_k, upd_client_k.
    destruct (N.eq_dec id (c_id c')) as [->|Hne].
    - exists c'. split; [eapply kfind_kupd_same; exact Hfc'|].
      assert (c2 = c) by (subst c'; cbn in H2; rewrite Hcid in H2; congruence). subst c2.
      split; [reflexivity|]. intros Hn. exfalso. apply Hn. subst c'. cbn. exact Hcid.
    - exists c2. rewrite kfind_kupd_other by exact Hne. rewrite <- find_client_k. auto. }
  assert (Hopens : forall h b, t_opens h b t = false) by (intros; apply t_opens_none; exact Hph).
  assert (Hclones : forall ci other b, t_clones ci other b t = false).
  { intros. apply t_clones_none. rewrite Hph. exact Logic.I. }
  split.
  - unfold acct_inv. cbn [st_clients st_threads st_idle set_threads]. rewrite Hcl', Hth'.
    split; [rewrite upd_client_k, kupd_keys; exact Cn|].
    split.
    { rewrite map_app. cbn. apply NoDup_snoc; [exact Tn|]. intros Hin. apply in_map_iff in Hin.
      destruct Hin as [t2 [E Hin]]. eapply Hfresh; eauto. }
    split; [|split].
    + intros c2 Hc2. rewrite upd_client_k in Hc2. apply kupd_in in Hc2. destruct Hc2 as [->|[Hc2 Hne]].
      * destruct (Cok c Hcin) as [N1 [O1 H1]]. split; [exact N1|]. split.
        -- intros o Ho. destruct (O1 o Ho) as [B [S1 S2]]. split; [exact B|]. split; [|exact S2].
           intros b. unfold clones. cbn [st_threads set_threads]. rewrite ?Hth', countz_app.
           unfold countz at 2. cbn [sumz]. rewrite Hclones. cbn [b2z]. subst c'. cbn [c_id c_set_hold].
           specialize (S1 b). unfold clones in S1. lia.
        -- cbn [st_threads set_threads]. rewrite ?Hth', countz_app. unfold countz at 2. cbn [sumz].
           subst c'. cbn [c_hold c_id c_set_hold]. rewrite Hcl, <- Hcid, N.eqb_refl. cbn [b2z]. lia.
      * destruct (Cok c2 Hc2) as [N1 [O1 H1]]. split; [exact N1|]. split.
        -- intros o Ho. destruct (O1 o Ho) as [B [S1 S2]]. split; [exact B|]. split; [|exact S2].
           intros b. unfold clones. cbn [st_threads set_threads]. rewrite ?Hth', countz_app.
           unfold countz at 2. cbn [sumz]. rewrite Hclones. cbn [b2z]. specialize (S1 b). unfold clones in S1. lia.
        -- cbn [st_threads set_threads]. rewrite ?Hth', countz_app. unfold countz at 2. cbn [sumz].
           assert (E : t_client t =? c_id c2 = false).
           { apply N.eqb_neq. rewrite Hcl. intros E. apply Hne. subst c'. cbn. congruence. }
           rewrite E. cbn [b2z]. lia.
    + intros t2 Ht2. apply in_app_or in Ht2. destruct Ht2 as [Ht2|[<-|[]]].
      * destruct (Tok t2 Ht2) as [c2 [Hc2 Hp]]. destruct (Hfind _ _ Hc2) as [c3 [Hc3 [Ho3 _]]].
        exists c3. split; [cbn [st_clients set_threads]; rewrite Hcl'; exact Hc3|]. rewrite Ho3. exact Hp.
      * exists c'. split; [|rewrite Hph; exact Logic.I].
        cbn [st_clients set_threads]. rewrite Hcl', Hcl, find_client_k, upd_client_k.
        replace cid with (c_id c') by (subst c'; cbn; exact Hcid). eapply kfind_kupd_same. exact Hfc'.
    + intros id Hin. destruct (Hidl' id Hin) as [Hin0 Hne]. destruct (Iok id Hin0) as [c2 [Hc2 Hh]].
      destruct (Hfind _ _ Hc2) as [c3 [Hc3 [_ Heq]]]. exists c3. split; [exact Hc3|]. rewrite (Heq Hne). exact Hh.
  - intros h b. unfold holders. cbn [st_clients st_threads set_threads]. rewrite Hcl', Hth', upd_client_k, countz_app.
    rewrite (sumz_kupd c_id (cl_ind h b) c' _ c Cn Hfc').
    unfold countz at 2. cbn [sumz]. rewrite Hopens. unfold cl_ind. subst c'. cbn. lia.
Qed.

(* ---- a compound ends: release + the compound is gone ---------------------------------- *)
Lemma thread_del_goal : forall st t c,
  acct_inv st -> find_thread (t_id t) (st_threads st) = Some t ->
  find_client (t_client t) (st_clients st) = Some c -> t_phase t = PhNone ->
  forall st', st_clients st' = st_clients (release (t_client t) st) ->
              st_idle st' = st_idle (release (t_client t) st) ->
              st_threads st' = del_thread (t_id t) (st_threads st) ->
  st_goal st st' [].
Proof.
  intros st t c I Ht Hf Hph st' Hcl Hidl Hth.
  set (cid := t_client t) in *.
  assert (Hcin : In c (st_clients st) /\ c_id c = cid) by (rewrite find_client_k in Hf; apply kfind_some in Hf; exact Hf).
  destruct Hcin as [Hcin Hcid].
  assert (Htin : In t (st_threads st)) by (rewrite find_thread_k in Ht; apply kfind_some in Ht; tauto).
  destruct I as [Cn [Tn [Cok [Tok Iok]]]].
  destruct (Cok c Hcin) as [N1 [O1 H1]].
  assert (Hpos : 1 <= c_hold c).
  { assert (Z.le 1 (countz (fun t0 => t_client t0 =? c_id c) (st_threads st))).
    { eapply countz_pos_in; [exact Htin|]. fold cid. rewrite Hcid. apply N.eqb_refl. }
    lia. }
  set (c' := if c_hold c =? 1 then c_set_hold c 0 (st_now st) else c_set_hold c (N.pred (c_hold c)) (c_seen c)).
  assert (Hrel_cl : st_clients (release cid st) = upd_client c' (st_clients st)).
  { unfold release. rewrite Hf. subst c'. destruct (c_hold c =? 0) eqn:E0; [apply N.eqb_eq in E0; lia|].
    destruct (c_hold c =? 1); reflexivity. }
  assert (Hrel_idle : forall id, In id (st_idle (release cid st)) ->
            In id (st_idle st) \/ (id = cid /\ c_hold c = 1)).
  { intros id Hin. unfold release in Hin. rewrite Hf in Hin. destruct (c_hold c =? 0) eqn:E0; [apply N.eqb_eq in E0; lia|].
    destruct (c_hold c =? 1) eqn:E1; cbn in Hin.
    - apply in_app_or in Hin. destruct Hin as [Hin|[<-|[]]]; [left; exact Hin|right]. apply N.eqb_eq in E1. auto.
    - left. exact Hin. }
  assert (Hc'id : c_id c' = c_id c) by (subst c'; destruct (c_hold c =? 1); reflexivity).
  assert (Hc'oofs : c_oofs c' = c_oofs c) by (subst c'; destruct (c_hold c =? 1); reflexivity).
  assert (Hc'other : c_other c' = c_other c) by (subst c'; destruct (c_hold c =? 1); reflexivity).
  assert (Hc'hold : Z.of_N (c_hold c') = (Z.of_N (c_hold c) - 1)%Z).
  { subst c'. destruct (c_hold c =? 1) eqn:E1; cbn [c_hold c_set_hold]; [apply N.eqb_eq in E1|]; lia. }
  assert (Hfc' : kfind c_id (c_id c') (st_clients st) = Some c) by (rewrite Hc'id, Hcid, <- find_client_k; exact Hf).
  assert (Hfind : forall id c2, find_client id (st_clients st) = Some c2 ->
            exists c3, find_client id (upd_client c' (st_clients st)) = Some c3 /\ c_oofs c3 = c_oofs c2
                       /\ (id <> cid -> c3 = c2) /\ (id = cid -> c3 = c')).
  { intros id c2 H2. rewrite find_client_k, upd_client_k.
    destruct (N.eq_dec id (c_id c')) as [->|Hne].
    - exists c'. split; [eapply kfind_kupd_same; exact Hfc'|].
      assert (c2 = c) by (rewrite Hc'id, Hcid in H2; congruence). subst c2.
      split; [exact Hc'oofs|]. split; [|auto]. intros Hn. exfalso. apply Hn. rewrite Hc'id. exact Hcid.
    - exists c2. rewrite kfind_kupd_other by exact Hne. rewrite <- find_client_k.
      split; [exact H2|]. split; [reflexivity|]. split; [auto|]. intros ->. exfalso. apply Hne. rewrite Hc'id. auto. }
  assert (Hclones : forall ci other b, t_clones ci other b t = false).
  { intros. apply t_clones_none. rewrite Hph. exact Logic.I. }
  assert (Hcount : forall p, countz p (del_thread (t_id t) (st_threads st)) = (countz p (st_threads st) - b2z (p t))%Z).
  { intros p. unfold countz. rewrite del_thread_k.
    rewrite (sumz_kdel t_id (fun x => b2z (p x)) (t_id t) _ t Tn); [reflexivity|rewrite <- find_thread_k; exact Ht]. }
  split.
  - unfold acct_inv. rewrite Hcl, Hidl, Hth, Hrel_cl.
    split; [rewrite upd_client_k, kupd_keys; exact Cn|].
    split; [apply (kdel_nodup t_id); exact Tn|].
    split; [|split].
    + intros c2 Hc2. rewrite upd_client_k in Hc2. apply kupd_in in Hc2. destruct Hc2 as [->|[Hc2 Hne]].
      * split; [rewrite Hc'oofs; exact N1|]. split.
        -- intros o Ho. rewrite Hc'oofs in Ho. destruct (O1 o Ho) as [[B1 B2] [S1 S2]]. split.
           ++ split; [rewrite Hc'other; exact B1|]. intros lf Hlf. rewrite Hc'other. auto.
           ++ split; [|exact S2]. intros b. unfold clones. rewrite Hth, Hcount, Hclones, Hc'id. cbn [b2z].
              specialize (S1 b). unfold clones in S1. lia.
        -- rewrite Hth, Hcount, Hc'hold, Hc'id, H1. fold cid. rewrite Hcid, N.eqb_refl. cbn [b2z]. lia.
      * destruct (Cok c2 Hc2) as [N2 [O2 H2]]. split; [exact N2|]. split.
        -- intros o Ho. destruct (O2 o Ho) as [B [S1 S2]]. split; [exact B|]. split; [|exact S2].
           intros b. unfold clones. rewrite Hth, Hcount, Hclones. cbn [b2z]. specialize (S1 b). unfold clones in S1. lia.
        -- rewrite Hth, Hcount, H2.
           assert (E : t_client t =? c_id c2 = false).
           { apply N.eqb_neq. fold cid. intros E. apply Hne. rewrite Hc'id. congruence. }
           rewrite E. cbn [b2z]. lia.
    + intros t2 Ht2. rewrite ?Hth in Ht2. apply (kdel_in t_id) in Ht2. destruct Ht2 as [Ht2 _].
      destruct (Tok t2 Ht2) as [c2 [Hc2 Hp]]. destruct (Hfind _ _ Hc2) as [c3 [Hc3 [Ho3 _]]].
      exists c3. split; [rewrite Hcl, Hrel_cl; exact Hc3|]. rewrite Ho3. exact Hp.
    + intros id Hin. destruct (Hrel_idle id Hin) as [Hin0|[-> Hh1]].
      * destruct (Iok id Hin0) as [c2 [Hc2 Hh]]. destruct (Hfind _ _ Hc2) as [c3 [Hc3 [_ [Hne Heq]]]].
        exists c3. split; [exact Hc3|].
        destruct (N.eq_dec id cid) as [E|E].
        -- (* the client of the compound was not idle: it was held *)
           subst id. assert (c2 = c) by congruence. subst c2. lia.
        -- rewrite (Hne E). exact Hh.
      * destruct (Hfind _ _ Hf) as [c3 [Hc3 [_ [_ Heq]]]]. exists c3. split; [exact Hc3|].
        rewrite (Heq eq_refl). subst c'. rewrite Hh1. reflexivity.
  - intros h b. unfold holders. rewrite Hcl, Hth, Hrel_cl, upd_client_k, Hcount.
    rewrite (sumz_kupd c_id (cl_ind h b) c' _ c Cn Hfc').
    rewrite t_opens_none by exact Hph. unfold cl_ind. rewrite Hc'oofs. cbn. lia.
Qed.

(* ---- the first and last section of opSequence ------------------------------------------ *)
Lemma set_slot_acct : forall st ss i f, acct_inv st -> st_goal st (set_slot st ss i f) [].
Proof. intros. apply acct_ext; auto. Qed.

Lemma seq_begin_goal : forall tid sess sl sq cache ops st,
  acct_inv st -> side_inv st -> tid_used tid st = false ->
  acct_inv (fst (seq_begin tid sess sl sq cache ops st))
  /\ forall h b, holders (fst (seq_begin tid sess sl sq cache ops st)) h b
                 = (holders st h b + balance h b (snd (seq_begin tid sess sl sq cache ops st)))%Z.
Proof.
  intros tid sess sl sq cache ops st I S Hfresh. unfold seq_begin.
  pose proof (enter_goal st I) as G. pose proof (enter_side st S) as S1. pose proof (enter_frame st) as F.
  destruct (enter st) as [st1 outs]. cbn [fst snd] in *.
  assert (Gr : forall r, acct_inv st1 /\ forall h b, holders st1 h b = (holders st h b + balance h b (outs ++ [OReply tid r]))%Z).
  { intros r. split; [exact (proj1 G)|]. intros h b. rewrite balance_reply. apply G. }
  destruct (find_session sess (st_sessions st1)) as [ss|] eqn:Ess; cbn [fst snd]; [|apply Gr].
  destruct (nth_error (ss_slots ss) (N.to_nat sl)) as [s|]; cbn [fst snd]; [|apply Gr].
  destruct (sq =? sl_seq s); cbn [fst snd]; [apply Gr|].
  destruct (sq =? (sl_seq s + 1) mod u32); cbn [fst snd]; [|apply Gr].
  destruct (sl_busy s) as [orig|].
  - destruct (find_thread orig (st_threads st1)) as [t|] eqn:Et; cbn [fst snd].
    + (* a waiter is registered: only the list of waiters changes *)
      set (t' := mkThread (t_id t) (t_sess t) (t_slot t) (t_seq t) (t_cache t) (t_client t) (t_ops t)
                          (t_res t) (t_status t) (t_cfh t) (t_sfh t) (t_phase t) (t_waiters t ++ [tid])).
      assert (Hid : t_id t = orig) by (rewrite find_thread_k in Et; apply kfind_some in Et; tauto).
      assert (Ht' : find_thread (t_id t') (st_threads st1) = Some t) by (subst t'; cbn; rewrite Hid; exact Et).
      assert (Htin : In t (st_threads st1)) by (rewrite find_thread_k in Et; apply kfind_some in Et; tauto).
      assert (Hok : thread_ok (set_threads st1 (upd_thread t' (st_threads st1))) t').
      { destruct (proj1 G) as [_ [_ [_ [Tok _]]]]. destruct (Tok t Htin) as [c [Hc Hp]]. exists c. split; [exact Hc|exact Hp]. }
      split.
      * eapply (thread_only_inv st1 _ t t' (proj1 G) Ht'); try reflexivity; auto.
      * intros h b. rewrite (thread_only_holders st1 _ t t'); try reflexivity; auto; try exact (proj1 G).
        assert (E : t_opens h b t' = t_opens h b t) by reflexivity. rewrite E.
        destruct G as [_ G]. rewrite G. lia.
    + split; [|intros h b; cbn; apply G].
      destruct (acct_ext st1 (add_panic st1 true)) as [I2 _]; auto. exact (proj1 G).
  - destruct (cf_maxops (st_cfg st1) <? 1 + N.of_nat (length ops)); cbn [fst snd].
    + pose proof (set_slot_acct st1 ss sl (fun s0 => mkSlot (sl_seq s0) (seq_error ERR_SEQ_MISORDERED) (sl_busy s0)) (proj1 G)) as G2.
      split; [exact (proj1 G2)|]. intros h b. rewrite balance_reply. destruct G2 as [_ G2]. rewrite G2.
      destruct G as [_ G]. rewrite G. cbn. lia.
    + (* a new compound *)
      set (f := fun s0 => mkSlot (sl_seq s0) (seq_error ERR_SEQ_MISORDERED) (Some tid)).
      pose proof (set_slot_acct st1 ss sl f (proj1 G)) as G2.
      set (st2 := set_slot st1 ss sl f) in *.
      set (t := mkThread tid sess sl sq cache (ss_client ss) ops _ NFS4_OK fh_none fh_none PhNone []).
      assert (Hss : In ss (st_sessions st1)) by (rewrite find_session_k in Ess; apply kfind_some in Ess; tauto).
      destruct S1 as [_ A2]. destruct (proj1 (has_client_find _ _) (A2 ss Hss)) as [c Hc].
      assert (Hc2 : find_client (ss_client ss) (st_clients st2) = Some c) by exact Hc.
      assert (Hfr : forall t2, In t2 (st_threads st2) -> t_id t2 <> t_id t).
      { intros t2 Ht2. destruct F as [HT _]. change (st_threads st2) with (st_threads st1) in Ht2.
        rewrite HT in Ht2. cbn. exact (tid_used_false tid st Hfresh t2 Ht2). }
      pose proof (thread_add_goal st2 (ss_client ss) c t (proj1 G2) Hc2 eq_refl eq_refl Hfr) as G3.
      split; [exact (proj1 G3)|]. intros h b. destruct G3 as [_ G3]. rewrite G3.
      destruct G2 as [_ G2]. rewrite G2. destruct G as [_ G]. rewrite G. cbn. lia.
Qed.

Lemma seq_end_goal : forall t st,
  acct_inv st -> find_thread (t_id t) (st_threads st) = Some t -> t_ops t = [] ->
  acct_inv (fst (seq_end t st))
  /\ forall h b, holders (fst (seq_end t st)) h b = (holders st h b + balance h b (snd (seq_end t st)))%Z.
Proof.
  intros t st I Ht Hops. unfold seq_end.
  pose proof (enter_goal st I) as G. pose proof (enter_frame st) as F.
  destruct (enter st) as [st1 outs]. cbn [fst snd] in *.
  assert (Ht1 : find_thread (t_id t) (st_threads st1) = Some t) by (destruct F as [HT _]; rewrite HT; exact Ht).
  assert (Htin : In t (st_threads st1)) by (rewrite find_thread_k in Ht1; apply kfind_some in Ht1; tauto).
  destruct (proj1 G) as [_ [_ [_ [Tok _]]]]. destruct (Tok t Htin) as [c [Hc Hp]].
  assert (Hph : t_phase t = PhNone).
  { destruct (t_phase t); auto.
    - destruct Hp as [ow [a [d [how [cl [rest Hr]]]]]]. congruence.
    - destruct Hp as [Hn _]. congruence.
    - congruence.
    - destruct Hp as [Hn _]. congruence.
    - congruence. }
  set (st2 := release (t_client t) st1).
  match goal with |- acct_inv (set_threads ?s _) /\ _ => set (st3 := s) end.
  assert (E1 : st_clients st3 = st_clients st2) by (subst st3; destruct (find_session _ _); reflexivity).
  assert (E2 : st_idle st3 = st_idle st2) by (subst st3; destruct (find_session _ _); reflexivity).
  assert (E3 : st_threads st3 = st_threads st1).
  { subst st3. destruct (find_session _ _); cbn; subst st2; destruct (release_frame (t_client t) st1) as [HT _]; exact HT. }
  pose proof (thread_del_goal st1 t c (proj1 G) Ht1 Hc Hph
                (set_threads st3 (del_thread (t_id t) (st_threads st3))) E1 E2) as G2.
  assert (E4 : st_threads (set_threads st3 (del_thread (t_id t) (st_threads st3))) = del_thread (t_id t) (st_threads st1))
    by (cbn; rewrite E3; reflexivity).
  specialize (G2 E4).
  split; [exact (proj1 G2)|]. intros h b. destruct G2 as [_ G2]. rewrite G2. destruct G as [_ G]. rewrite G.
  rewrite !balance_app. cbn [balance out_bal].
  assert (Hw : forall l r, balance h b (map (fun w => OReply w r) l) = 0%Z).
  { intros l r. induction l; cbn; [reflexivity|]. rewrite IHl. reflexivity. }
  rewrite Hw. lia.
Qed.

(* ---- a section of a compound -------------------------------------------------------------- *)
Lemma section_goal : forall tid orc st, acct_inv st -> side_inv st ->
  acct_inv (fst (fst (section tid orc st)))
  /\ forall h b, holders (fst (fst (section tid orc st))) h b
                 = (holders st h b + balance h b (snd (fst (section tid orc st))))%Z.
Proof.
  intros tid orc st I S. unfold section.
  destruct (find_thread tid (st_threads st)) as [t|] eqn:Et; cbn [fst snd]; [|split; [exact I|intros; cbn; lia]].
  assert (Hid : t_id t = tid) by (rewrite find_thread_k in Et; apply kfind_some in Et; tauto).
  assert (Ht : find_thread (t_id t) (st_threads st) = Some t) by (rewrite Hid; exact Et).
  destruct (t_ops t) as [|o rest] eqn:Eops.
  - pose proof (seq_end_goal t st I Ht Eops) as G. destruct (seq_end t st) as [st1 outs]. exact G.
  - destruct (find_client (t_client t) (st_clients st)) as [c|] eqn:Ec; cbn [fst snd].
    + destruct (session_op o && match t_phase t with PhNone => true | _ => false end) eqn:Eso.
      * (* EXCHANGE_ID / CREATE_SESSION / DESTROY_* inside a compound *)
        apply Bool.andb_true_iff in Eso. destruct Eso as [Eso Eph].
        assert (Hph : t_phase t = PhNone) by (destruct (t_phase t); try discriminate; reflexivity).
        rewrite Hph.
        assert (Gen : forall st1 outs res, st_goal st st1 outs -> sess_frame st st1 ->
                  sec_goal st t rest (mkSec st1 (t_cfh t) (t_sfh t) (Done res) outs FsNone)).
        { intros st1 outs res G1 [HT _].
          set (r := mkSec st1 (t_cfh t) (t_sfh t) (Done res) outs FsNone).
          set (t' := next_thread t rest r).
          assert (Ht1 : find_thread (t_id t') (st_threads st1) = Some t)
            by (subst t'; rewrite next_thread_id, HT; exact Ht).
          assert (Htin : In t (st_threads st1)) by (rewrite find_thread_k in Ht1; apply kfind_some in Ht1; tauto).
          destruct (proj1 G1) as [_ [_ [_ [Tok1 _]]]]. destruct (Tok1 t Htin) as [c1 [Hc1 _]].
          assert (Hclt : t_client t' = t_client t) by (subst t'; apply next_thread_client).
          assert (Hcln : forall cid other b, t_clones cid other b t' = t_clones cid other b t).
          { intros cid other b. subst t'. rewrite (next_thread_done_clones _ _ _ _ _ _ res) by reflexivity.
            symmetry. apply t_clones_none. rewrite Hph. exact Logic.I. }
          assert (Hok' : thread_ok (next_state t rest r) t').
          { exists c1. split; [unfold next_state; cbn [st_clients set_threads sr_st r]; rewrite Hclt; exact Hc1|].
            subst t'. unfold next_thread. cbn [sr_step r t_phase]. exact Logic.I. }
          split.
          - exact (thread_only_inv st1 (next_state t rest r) t t' (proj1 G1) Ht1 Hclt eq_refl eq_refl eq_refl Hcln Hok').
          - intros h b. rewrite (thread_only_holders st1 (next_state t rest r) t t'); try assumption; try reflexivity; try exact (proj1 G1).
            subst t'. rewrite (next_thread_done_opens _ _ _ _ _ res) by reflexivity.
            rewrite t_opens_none by exact Hph. destruct G1 as [_ G1]. rewrite G1. cbn [sr_outs r b2z]. lia. }
        destruct o; try discriminate; cbn [op_section].
        -- pose proof (op_exchange_id_goal owner verifier st I S) as G1.
           pose proof (op_exchange_id_frame owner verifier st) as F1.
           destruct (op_exchange_id owner verifier st) as [[st1 outs] res]. apply Gen; assumption.
        -- pose proof (op_create_session_goal clientid seq st I) as G1.
           pose proof (op_create_session_frame clientid seq st) as F1.
           destruct (op_create_session clientid seq st) as [[st1 outs] res]. apply Gen; assumption.
        -- pose proof (op_destroy_session_goal id st I) as G1.
           pose proof (op_destroy_session_frame id st) as F1.
           destruct (op_destroy_session id st) as [[st1 outs] res]. apply Gen; assumption.
        -- pose proof (op_destroy_clientid_goal id st I) as G1.
           pose proof (op_destroy_clientid_frame id st) as F1.
           destruct (op_destroy_clientid id st) as [[st1 outs] res]. apply Gen; assumption.
      * assert (Hso : t_phase t = PhNone -> session_op o = false).
        { intros Hph. rewrite Hph in Eso. rewrite Bool.andb_true_r in Eso. exact Eso. }
        pose proof (op_section_goal st t c o rest orc (t_cfh t) (t_sfh t) I Ht Ec Eops Hso) as G.
        unfold sec_goal, next_state, next_thread in G. rewrite Eops in G. exact G.
    + destruct (acct_ext st (add_panic st true)) as [I2 H2]; auto.
Qed.

(* ---- the identifier invariants through opSequence ---------------------------------------- *)
Lemma set_slot_side : forall st ss i f, side_inv st -> In ss (st_sessions st) -> side_inv (set_slot st ss i f).
Proof.
  intros st ss i f [A1 A2] Hin. split; [exact A1|].
  intros ss' Hin'. apply set_slot_sessions in Hin'. unfold has_client. cbn [st_clients set_slot set_sessions].
  destruct Hin' as [->|[Hin' _]]; [cbn; exact (A2 ss Hin)|exact (A2 ss' Hin')].
Qed.

Lemma set_threads_side : forall st l, side_inv st -> side_inv (set_threads st l).
Proof. intros st l S. eapply side_inv_frame; [|exact S]. repeat split. Qed.

Lemma seq_begin_side : forall tid sess sl sq cache ops st, side_inv st ->
  side_inv (fst (seq_begin tid sess sl sq cache ops st)).
Proof.
  intros tid sess sl sq cache ops st S. unfold seq_begin.
  pose proof (enter_side st S) as S1. destruct (enter st) as [st1 outs]. cbn [fst] in S1.
  destruct (find_session sess (st_sessions st1)) as [ss|] eqn:Ess; cbn [fst]; [|exact S1].
  assert (Hss : In ss (st_sessions st1)) by (rewrite find_session_k in Ess; apply kfind_some in Ess; tauto).
  destruct (nth_error _ _); cbn [fst]; [|exact S1].
  destruct (sq =? sl_seq s); cbn [fst]; [exact S1|].
  destruct (sq =? _); cbn [fst]; [|exact S1].
  destruct (sl_busy s).
  - destruct (find_thread _ _); cbn [fst]; [apply set_threads_side; exact S1|].
    eapply side_inv_frame; [|exact S1]. repeat split.
  - destruct (_ <? _); cbn [fst]; [apply set_slot_side; assumption|].
    apply set_threads_side. eapply side_inv_frame; [apply hold_ids|]. apply set_slot_side; assumption.
Qed.

Lemma seq_end_side : forall t st, side_inv st -> side_inv (fst (seq_end t st)).
Proof.
  intros t st S. unfold seq_end.
  pose proof (enter_side st S) as S1. destruct (enter st) as [st1 outs]. cbn [fst] in *.
  apply set_threads_side.
  assert (S2 : side_inv (release (t_client t) st1)) by (eapply side_inv_frame; [apply release_ids|exact S1]).
  destruct (find_session _ _) as [ss|] eqn:Ess; [|exact S2].
  apply set_slot_side; [exact S2|]. rewrite find_session_k in Ess. apply kfind_some in Ess. tauto.
Qed.

Lemma section_side : forall tid orc st, side_inv st -> side_inv (fst (fst (section tid orc st))).
Proof.
  intros tid orc st S. unfold section.
  destruct (find_thread tid (st_threads st)) as [t|]; cbn [fst]; [|exact S].
  destruct (t_ops t) as [|o rest].
  - pose proof (seq_end_side t st S) as G. destruct (seq_end t st). exact G.
  - destruct (find_client _ _) as [c|]; cbn [fst]; [|eapply side_inv_frame; [|exact S]; repeat split].
    apply set_threads_side.
    destruct (t_phase t) eqn:Hph;
      try (eapply side_inv_frame; [apply op_section_ids; destruct o; try exact Logic.I; discriminate|exact S]).
    destruct o; try (eapply side_inv_frame; [apply op_section_ids; exact Logic.I|exact S]); cbn [op_section].
    + pose proof (op_exchange_id_side owner verifier st S) as G. destruct (op_exchange_id _ _ _) as [[st1 outs] r]. exact G.
    + pose proof (op_create_session_side clientid seq st S) as G. destruct (op_create_session _ _ _) as [[st1 outs] r]. exact G.
    + pose proof (op_destroy_session_side id st S) as G. destruct (op_destroy_session _ _) as [[st1 outs] r]. exact G.
    + pose proof (op_destroy_clientid_side id st S) as G. destruct (op_destroy_clientid _ _) as [[st1 outs] r]. exact G.
Qed.

(* ---- all events --------------------------------------------------------------------------- *)
Definition full_inv (st : state) : Prop := acct_inv st /\ side_inv st.

Lemma step_full : forall st e, full_inv st ->
  full_inv (fst (step st e))
  /\ forall h b, holders (fst (step st e)) h b = (holders st h b + balance h b (snd (step st e)))%Z.
Proof.
  intros st e [I S]. destruct e; cbn [step].
  - cbn [fst snd]. destruct (acct_ext st (set_clock st (st_clock st + d))) as [I2 H2]; auto.
    split; [split; [exact I2|eapply side_inv_frame; [|exact S]; repeat split]|exact H2].
  - destruct (solo_step_goal tid s st I S) as [I2 H2]. pose proof (solo_step_side tid s st S) as S2.
    destruct (solo_step tid s st) as [st1 outs]. cbn [fst snd] in *. split; [split; assumption|exact H2].
  - destruct (tid_used tid st) eqn:Eu.
    + cbn [fst snd]. split; [split; assumption|]. intros; cbn; lia.
    + destruct (seq_begin_goal tid sess slot seq cache ops st I S Eu) as [I2 H2].
      pose proof (seq_begin_side tid sess slot seq cache ops st S) as S2.
      destruct (seq_begin tid sess slot seq cache ops st) as [st1 outs]. cbn [fst snd] in *.
      split; [split; assumption|exact H2].
  - destruct (section_goal tid orc st I S) as [I2 H2]. pose proof (section_side tid orc st S) as S2.
    destruct (section tid orc st) as [[st1 outs] u]. cbn [fst snd] in *. split; [split; assumption|exact H2].
Qed.

Lemma init_full : forall cfg c0, full_inv (init cfg c0).
Proof.
  intros cfg c0. split.
  - split; [cbn; constructor|]. split; [cbn; constructor|]. split; [intros c []|].
    split; [intros t []|intros id []].
  - split; intros ? [].
Qed.

Lemma init_holders : forall cfg c0 h b, holders (init cfg c0) h b = 0%Z.
Proof. reflexivity. Qed.

Lemma run_full_from : forall evs st, full_inv st ->
  full_inv (fst (run st evs))
  /\ forall h b, holders (fst (run st evs)) h b = (holders st h b + balance h b (snd (run st evs)))%Z.
Proof.
  induction evs as [|e tl IH]; intros st F; cbn [run].
  - cbn. split; [exact F|]. intros; lia.
  - destruct (step_full st e F) as [F1 H1]. destruct (step st e) as [st1 o1]. cbn [fst snd] in *.
    destruct (IH st1 F1) as [F2 H2]. destruct (run st1 tl) as [st2 o2]. cbn [fst snd] in *.
    split; [exact F2|]. intros h b. rewrite H2, H1, balance_app. lia.
Qed.

(* The central statement: at any point of any history, for every leaf and
   access bit, opens minus closes seen by the leaf = number of holders. *)
Theorem balance_is_holders : forall cfg c0 evs h b,
  balance h b (snd (run (init cfg c0) evs)) = holders (fst (run (init cfg c0) evs)) h b.
Proof.
  intros cfg c0 evs h b. destruct (run_full_from evs (init cfg c0) (init_full cfg c0)) as [_ H].
  rewrite H, init_holders. lia.
Qed.

Theorem reachable_full_inv : forall cfg c0 evs, full_inv (fst (run (init cfg c0) evs)).
Proof. intros. exact (proj1 (run_full_from evs (init cfg c0) (init_full cfg c0))). Qed.
