(* Properties C18 / C19 / C20 (NFSv4.1) as decidable predicates over what
   can be observed of the server: replies, calls seen by the leaves, what
   requests in flight hold, and the state dump of the verif hook.

   [p_inv]   : predicates on one observation (state invariants);
   [p_step]  : predicates relating the observation before a step, the
               request, the replies and the observation after it;
   [p_case]  : both, folded over a history, with a small ledger of what a
               client knows (requests in flight, last reply per slot).
   A result is "" (holds) or the kind of violation, prefixed by the
   property.  Corr.v evaluates [p_case] on the implementation's
   observations; Proofs*.v prove the predicates of the model. *)
From Coq Require Export String.
From VF Require Export Nfs41.Dump.
From VF Require LockSet.Spec.
Local Open Scope string_scope.
Open Scope N_scope.

Module LSS := VF.LockSet.Spec.

Definition ok (s : string) : bool := String.eqb s "".
(* First failure wins. *)
Definition orelse (a b : string) : string := if ok a then b else a.
Infix ";;" := orelse (at level 61, right associativity).
Definition check (b : bool) (kind : string) : string := if b then "" else kind.
Fixpoint all_ok {A} (f : A -> string) (l : list A) : string :=
  match l with
  | [] => ""
  | x :: tl => f x ;; all_ok f tl
  end.

Definition countb {A} (f : A -> bool) (l : list A) : Z := Z.of_nat (length (filter f l)).

(* ---- access to an observation -------------------------------------------- *)
Definition bit_of (rd : bool) (m : mask) : bool := if rd then mr m else mw m.
Definition nbit (rd : bool) (n : N) : bool := if rd then N.odd n else N.odd (n / 2).

Definition all_oofs (d : dump) : list (d_client * d_oofs) :=
  flat_map (fun c => map (fun o => (c, o)) (dc_oofs c)) (d_clients d).
Definition all_lofs (d : dump) : list (d_client * d_oofs * d_lofs) :=
  flat_map (fun co => map (fun l => (co, l)) (do_lofs (snd co))) (all_oofs d).

Definition find_dclient (id : N) (d : dump) := find (fun c => dc_id c =? id) (d_clients d).
Definition find_dsession (id : N) (d : dump) := find (fun s => dss_id s =? id) (d_sessions d).
Definition find_dpfile (h : N) (d : dump) := find (fun p => dp_handle p =? h) (d_pool d).
Definition dpool_locks (h : N) (d : dump) : list d_lock :=
  match find_dpfile h d with Some p => dp_locks p | None => [] end.

Definition leaf_open (rd : bool) (h : N) (l : list leafcnt) : Z :=
  match find (fun x => lc_h x =? h) l with
  | Some x => if rd then (lc_or x - lc_cr x)%Z else (lc_ow x - lc_cw x)%Z
  | None => 0%Z
  end.
Definition leaf_opens (rd : bool) (h : N) (l : list leafcnt) : Z :=
  match find (fun x => lc_h x =? h) l with
  | Some x => if rd then lc_or x else lc_ow x
  | None => 0%Z
  end.

Definition fl_open (rd : bool) (h : N) (f : flight) : bool :=
  match f with FlOpen h' m => (h' =? h) && bit_of rd m | _ => false end.
Definition fl_reg (rd : bool) (h : N) (f : flight) : bool :=
  match f with FlReg h' m => (h' =? h) && bit_of rd m | _ => false end.
Definition fl_handle (f : flight) : N := match f with FlOpen h _ => h | FlReg h _ => h end.

Definition handles_of (s : hstep) : list N :=
  map lc_h (hs_leaves s) ++ map (fun co => do_handle (snd co)) (all_oofs (hs_dump s))
  ++ map fl_handle (hs_flight s) ++ map dp_handle (d_pool (hs_dump s)).

(* ---- C18: accounting invariants ------------------------------------------ *)
Definition cnt_of (rd : bool) (o : d_oofs) : Z := if rd then do_readers o else do_writers o.

(* The leaf is open for an access bit exactly as often as there are
   holders: open-owner files whose share count for the bit is positive
   (that covers lock-owner files and I/O in flight on them), leaves
   opened by requests in flight; a request doing I/O on an open-owner
   file that was closed meanwhile keeps it open once more. *)
Definition p_account_bit (s : hstep) (h : N) (rd : bool) : string :=
  let op := leaf_open rd h (hs_leaves s) in
  let live := countb (fun co => (do_handle (snd co) =? h) && (0 <? cnt_of rd (snd co))%Z)
                     (all_oofs (hs_dump s)) in
  let fo := countb (fl_open rd h) (hs_flight s) in
  let fr := countb (fl_reg rd h) (hs_flight s) in
  check (0 <=? op)%Z "C18:close-without-open"
  ;; check (live + fo <=? op)%Z "C18:closed-while-entitled"
  ;; check (op <=? live + fo + fr)%Z "C18:leaf-left-open".

Definition p_account (s : hstep) : string :=
  all_ok (fun h => p_account_bit s h true ;; p_account_bit s h false) (handles_of s).

(* shareCount of an open-owner file = its own share reservation + those
   of its lock-owner files + clones of I/O in flight. *)
Definition p_share_bit (s : hstep) (o : d_oofs) (rd : bool) : string :=
  let base := ((if nbit rd (do_share o) then 1 else 0)
               + countb (fun l => nbit rd (dl_share l)) (do_lofs o))%Z in
  let fr := countb (fl_reg rd (do_handle o)) (hs_flight s) in
  check ((base <=? cnt_of rd o) && (cnt_of rd o <=? base + fr))%Z "C18:share-count".

Definition p_share (s : hstep) : string :=
  all_ok (fun co => check (negb (do_share (snd co) =? 0) && (do_share (snd co) <=? 3)) "C18:share-access"
                    ;; p_share_bit s (snd co) true ;; p_share_bit s (snd co) false)
         (all_oofs (hs_dump s)).

(* Every opened file is in the pool, exactly as often as it is opened:
   its file handle stays resolvable while any open-owner file exists. *)
Definition p_pool (d : dump) : string :=
  all_ok (fun co => check (match find_dpfile (do_handle (snd co)) d with Some _ => true | None => false end)
                          "C18:pool-entry-missing") (all_oofs d)
  ;; all_ok (fun p => check (Z.eqb (dp_use p) (countb (fun co => do_handle (snd co) =? dp_handle p) (all_oofs d)))
                            "C18:pool-usecount") (d_pool d).

(* No client whose lease has lapsed survives an enter(); the idle list
   is the set of clients without requests in flight; sessions belong to
   clients. *)
Definition p_lease (lease : N) (d : dump) : string :=
  all_ok (fun c => check (negb (dc_hold c =? 0)%Z || (d_now d <=? dc_seen c + lease))
                         "C18:expired-client-retained"
                   ;; check (Bool.eqb (dc_hold c =? 0)%Z (existsb (N.eqb (dc_id c)) (d_idle d)))
                            "C18:idle-list") (d_clients d)
  ;; all_ok (fun id => check (match find_dclient id d with Some _ => true | None => false end)
                             "C18:idle-list") (d_idle d)
  ;; all_ok (fun ss => check (match find_dclient (dss_client ss) d with Some _ => true | None => false end)
                             "C18:orphan-session") (d_sessions d).

(* ---- C20: lock-owner identity and lock accounting ------------------------ *)
(* An injective encoding of (client, owner, tag) for the lock table
   predicates (Cantor pairing; injectivity: owner_code_injective in
   PropertiesC20.v). *)
Definition tri (n : N) : N := n * (n + 1) / 2.
Definition cpair (a b : N) : N := tri (a + b) + b.
Definition owner_code (cid key : N) (tag : Z) : N :=
  cpair (cpair cid key) (Z.to_N (tag + 1)).
Definition to_lslock (l : d_lock) : LS.lock :=
  LS.mkLock (dk_start l) (dk_end l) (owner_code (dk_client l) (dk_key l) (dk_tag l)) (dk_type l).

Definition p_owner (d : dump) : string :=
  (* one protocol-level lock-owner = one object: every reference is to
     the registered object *)
  all_ok (fun col => check (dl_tag (snd col) =? 0)%Z "C20:owner-not-registered") (all_lofs d)
  ;; all_ok (fun p => all_ok (fun l => check (dk_tag l =? 0)%Z "C20:owner-not-registered") (dp_locks p))
            (d_pool d)
  (* fileCount of a registered lock-owner = its lock-owner files *)
  ;; all_ok (fun c =>
       all_ok (fun kf => check ((0 <? snd kf)%Z &&
                                Z.eqb (snd kf) (countb (fun col => (dc_id (fst (fst col)) =? dc_id c)
                                                              && (dl_key (snd col) =? fst kf)) (all_lofs d))
                                && Z.eqb (countb (fun kf' => fst kf' =? fst kf) (dc_lowners c)) 1)
                               "C20:owner-filecount") (dc_lowners c)) (d_clients d)
  ;; all_ok (fun c => check (dc_nlofs c =? N.of_nat (length (flat_map do_lofs (dc_oofs c))))
                            "C20:lock-owner-file-maps") (d_clients d).

(* The trigger of the known finding "shared lock-owner": one lock-owner of
   one client holds lock state on one file through two (or more)
   open-owner files.  The lock-owner files then share one owner in the
   file's lock table while lockCount is kept per lock-owner file.
   [trig_of d]: the (client, lock-owner, file handle) triples for which
   this is the case in dump [d]. *)
Definition trig := (N * N * N)%type.
Definition trig_eqb (a b : trig) : bool :=
  (fst (fst a) =? fst (fst b)) && (snd (fst a) =? snd (fst b)) && (snd a =? snd b).
Definition trig_of (d : dump) : list trig :=
  flat_map (fun col1 =>
    let '(c1, o1, l1) := col1 in
    if existsb (fun col2 =>
         let '(c2, o2, l2) := col2 in
         (dc_id c1 =? dc_id c2) && negb (dl_other l1 =? dl_other l2) && (dl_key l1 =? dl_key l2)
         && (do_handle o1 =? do_handle o2)) (all_lofs d)
    then [(dc_id c1, dl_key l1, do_handle o1)] else []) (all_lofs d).
(* Has the trigger happened (so far in this history) for this lock-owner on this file? *)
Definition triggered (T : list trig) (cid key h : N) : bool := existsb (trig_eqb (cid, key, h)) T.
Definition shared_kind : string := "C20:shared-lock-owner".
(* A C20 symptom on a (lock-owner, file) for which the trigger has happened
   is reported under the one kind of the known finding; without the
   trigger it keeps its specific kind. *)
Definition scoped (hit : bool) (k : string) : string :=
  if ok k then "" else if hit && String.prefix "C20:" k then shared_kind else k.

Fixpoint sumZ (l : list Z) : Z := match l with [] => 0%Z | x :: tl => (x + sumZ tl)%Z end.

Definition p_locks (T : list trig) (d : dump) : string :=
  (* lockCount (summed over the lock-owner files of one lock-owner on one
     file) = entries held in the file's table *)
  all_ok (fun col =>
            let '(c, o, l) := col in
            check (Z.eqb (sumZ (map (fun col' => dl_count (snd col'))
                                    (filter (fun col' => let '(c', o', l') := col' in
                                                         (dc_id c' =? dc_id c) && (dl_key l' =? dl_key l)
                                                         && (dl_tag l' =? dl_tag l)%Z
                                                         && (do_handle o' =? do_handle o)) (all_lofs d))))
                         (countb (fun k => (dk_client k =? dc_id c) && (dk_key k =? dl_key l)
                                           && (dk_tag k =? dl_tag l)%Z)
                                 (dpool_locks (do_handle o) d)))
                  (scoped (triggered T (dc_id c) (dl_key l) (do_handle o)) "C20:lockcount-mismatch")
            ;; check (0 <=? dl_count l)%Z
                     (scoped (triggered T (dc_id c) (dl_key l) (do_handle o)) "C20:negative-lockcount"))
         (all_lofs d)
  (* every lock belongs to a lock-owner file of that file *)
  ;; all_ok (fun p =>
       all_ok (fun k => check (existsb (fun col => let '(c, o, l) := col in
                                          (do_handle o =? dp_handle p) && (dc_id c =? dk_client k)
                                          && (dl_key l =? dk_key k) && (dl_tag l =? dk_tag k)%Z)
                                       (all_lofs d))
                              (scoped (triggered T (dk_client k) (dk_key k) (dp_handle p)) "C20:orphan-lock"))
              (dp_locks p)
       ;; check (LSS.wf (map to_lslock (dp_locks p))) "C20:table-not-wf"
       ;; check (LSS.compatible (map to_lslock (dp_locks p))) "C20:exclusion") (d_pool d).

(* ---- C19: slots ---------------------------------------------------------- *)
(* [targets]: for every request known to wait for an original, the slot
   it was sent on. *)
Definition p_slots (d : dump) (targets : list (N * N)) : string :=
  all_ok (fun ss =>
    all_ok (fun isl =>
              let '(i, sl) := isl in
              check (Z.eqb (Z.of_N (ds_waiters sl)) (countb (fun t => (fst t =? dss_id ss) && (snd t =? i)) targets))
                    "C19:waiter-not-registered"
              ;; check (ds_busy sl || (ds_waiters sl =? 0)) "C19:waiter-without-original")
           (combine (map N.of_nat (seq 0 (length (dss_slots ss)))) (dss_slots ss)))
    (d_sessions d).

Definition p_inv (lease : N) (T : list trig) (s : hstep) : string :=
  p_account s ;; p_share s ;; p_pool (hs_dump s) ;; p_lease lease (hs_dump s)
  ;; p_owner (hs_dump s) ;; p_locks T (hs_dump s).

(* ---- the ledger ---------------------------------------------------------- *)
Record pthread := mkPT {
  pt_tid : N; pt_sess : N; pt_slot : N; pt_seq : N; pt_cache : bool; pt_ops : list op;
  pt_client : N;                   (* 0: unknown *)
  pt_orig : option N }.            (* Some t: waits for compound t *)
Record pslot := mkPS {
  ps_sess : N; ps_slot : N; ps_seq : N; ps_cache : bool; ps_reply : creply }.
Record pstate := mkP {
  p_threads : list pthread; p_slots_known : list pslot;
  p_cs_known : list (N * N * opres);   (* client, sequence, last CREATE_SESSION result *)
  p_trig : list trig }.  (* (client, lock-owner, file) triples for which the shared-lock-owner trigger happened *)

Definition empty_dump := mkDump 0 [] [] [] [].
Definition empty_obs :=
  mkHStep (HAdvance 0) [] [] [] [] [] [] [] empty_dump.

(* Could enter() at time [now] remove a client of the previous dump? *)
Definition expirable (lease now : N) (d : dump) : bool :=
  existsb (fun c => (dc_hold c =? 0)%Z && (dc_seen c + lease <? now)) (d_clients d).

Definition with_now (d : dump) (now : N) := mkDump now (d_clients d) (d_idle d) (d_sessions d) (d_pool d).
Definition dump_same (a b : dump) : bool :=
  list_eqb d_client_eqb (d_clients a) (d_clients b) && list_eqb N.eqb (d_idle a) (d_idle b)
  && list_eqb d_session_eqb (d_sessions a) (d_sessions b) && list_eqb d_pfile_eqb (d_pool a) (d_pool b).

Definition no_new_opens (pre post : hstep) : bool :=
  forallb (fun x => (leaf_opens true (lc_h x) (hs_leaves pre) =? lc_or x)%Z
                    && (leaf_opens false (lc_h x) (hs_leaves pre) =? lc_ow x)%Z) (hs_leaves post).

Definition reply_of (tid : N) (s : hstep) : option creply :=
  match find (fun x => fst x =? tid) (hs_replies s) with Some x => Some (snd x) | None => None end.

Definition executed (r : creply) : bool :=
  match cr_res r with RSequenceOk _ _ _ _ :: _ => true | _ => false end.

(* ---- C19: one SEQUENCE request against the slot it names ----------------- *)
Definition p_sequence (lease : N) (pst : pstate) (pre s : hstep)
    (tid sess sl sq : N) (cache : bool) (ops : list op) : string :=
  if expirable lease (d_now (hs_dump s)) (hs_dump pre) then "" else
  match find_dsession sess (hs_dump pre) with
  | None => ""
  | Some ss =>
    match nth_error (dss_slots ss) (N.to_nat sl) with
    | None => ""
    | Some slot =>
      let unchanged := dump_same (hs_dump pre) (hs_dump s) in
      if sq =? ds_seq slot then
        (* retransmission of the last completed request of the slot *)
        match find (fun p => (ps_sess p =? sess) && (ps_slot p =? sl) && (ps_seq p =? sq))
                   (p_slots_known pst) with
        | None => ""
        | Some p =>
          let expected :=
            replay_reply (cached_reply (ps_cache p) (cr_res (ps_reply p)) (cr_status (ps_reply p))) ops in
          match reply_of tid s with
          | None => "C19:replay-no-reply"
          | Some r =>
            check (negb (cr_status expected =? ERR_SEQ_FALSE_RETRY) || (cr_status r =? ERR_SEQ_FALSE_RETRY))
                  "C19:false-retry-undetected"
            ;; check (creply_eqb r expected) "C19:replay-reply-differs"
            ;; check (no_new_opens pre s) "C19:replay-reexecuted"
            ;; check unchanged "C19:replay-changed-state"
          end
        end
      else if sq =? (ds_seq slot + 1) mod u32 then
        if ds_busy slot then
          (* duplicate of a request in flight: it has to wait for it *)
          check (match reply_of tid s with None => true | Some _ => false end)
                "C19:inflight-duplicate-answered"
          ;; check (existsb (N.eqb tid) (hs_blocked s) || existsb (N.eqb tid) (hs_hung s))
                   "C19:inflight-duplicate-not-waiting"
          ;; check (no_new_opens pre s) "C19:inflight-duplicate-executed"
        else ""
      else
        match reply_of tid s with
        | None => "C19:misordered-no-reply"
        | Some r =>
          check (creply_eqb r (seq_error ERR_SEQ_MISORDERED)) "C19:misordered-accepted"
          ;; check (no_new_opens pre s) "C19:misordered-side-effect"
          ;; check unchanged "C19:misordered-changed-state"
        end
    end
  end.

(* Replies of this step against the ledger: a request that waited for an
   original completes in the same step with the same reply. *)
Definition p_delivery (pst : pstate) (s : hstep) : string :=
  all_ok (fun t =>
            match pt_orig t with
            | None => ""
            | Some o =>
              match reply_of o s with
              | None => check (negb (existsb (N.eqb (pt_tid t)) (hs_hung s))) "C19:inflight-duplicate-blocks"
              | Some r =>
                match reply_of (pt_tid t) s with
                | None => "C19:inflight-duplicate-blocks"
                | Some r' => check (creply_eqb r r') "C19:duplicate-reply-differs"
                end
              end
            end) (p_threads pst).

(* ---- C20 / C18: compounds of the form PUTFH h; X -------------------------- *)
Definition conflicts_with (q : LS.lock) (table : list LS.lock) : bool :=
  existsb (fun c => LSS.conflicts c q) table.

Definition denied_matches (r : opres) (q : LS.lock) (dl : list d_lock) : bool :=
  match r with
  | RDenied _ off len lt cid key =>
    existsb (fun k => LSS.conflicts (to_lslock k) q && (dk_start k =? off)
                      && (len =? (if dk_end k =? u64max then u64max else dk_end k - dk_start k))
                      && (dk_client k =? cid) && (dk_key k =? key)
                      && (lt =? match dk_type k with LS.Shared => 1 | _ => 2 end)) dl
  | _ => false
  end.

Definition is_denied (r : opres) := match r with RDenied _ _ _ _ _ _ => true | _ => false end.
Definition denied_names (r : opres) (cid key : N) : bool :=
  match r with RDenied _ _ _ _ c k => (c =? cid) && (k =? key) | _ => false end.

Definition regular (s : stateid) : bool :=
  negb (sid_special s) && negb (sid_eqb s sid_current).

(* State the client [c] holds according to the dump. *)
Definition find_doofs (c : d_client) (other : N) := find (fun o => do_other o =? other) (dc_oofs c).
Definition find_dlofs (c : d_client) (other : N) : option (d_oofs * d_lofs) :=
  match find (fun o => existsb (fun l => dl_other l =? other) (do_lofs o)) (dc_oofs c) with
  | Some o => match find (fun l => dl_other l =? other) (do_lofs o) with
              | Some l => Some (o, l) | None => None end
  | None => None
  end.
Definition seq_ok (given current : N) : bool := (given =? 0) || (given =? current).

Definition open_scope_ok (c : d_client) (h : N) (sd : stateid) : bool :=
  (s_hi sd =? 0) &&
  match find_doofs c (s_lo sd) with
  | Some o => (do_handle o =? h) && seq_ok (s_seq sd) (do_seq o)
  | None => false
  end.
Definition lock_scope_ok (c : d_client) (h : option N) (sd : stateid) : bool :=
  (s_hi sd =? 0) &&
  match find_dlofs c (s_lo sd) with
  | Some (o, l) => match h with Some h => do_handle o =? h | None => true end
                   && seq_ok (s_seq sd) (dl_seq l)
  | None => false
  end.

Definition res_ok (r : opres) : bool := res_status r =? NFS4_OK.

(* The owner key a LOCK request acts for. *)
Definition locker_key (c : d_client) (lk : locker) : option N :=
  match lk with
  | LockerNew _ key => Some key
  | LockerExisting sd => match find_dlofs c (s_lo sd) with Some (_, l) => Some (dl_key l) | None => None end
  end.

(* [x]: the operation, [r]: its result, [h]: the current file handle
   (PUTFH h succeeded), [c]: the client of the session before the step. *)
Definition p_op_raw (pre s : hstep) (c : d_client) (h : N) (x : op) (r : opres) : string :=
  let pre_locks := dpool_locks h (hs_dump pre) in
  let post_locks := dpool_locks h (hs_dump s) in
  let pre_t := map to_lslock pre_locks in
  let post_t := map to_lslock post_locks in
  let in_pool := match find_dpfile h (hs_dump pre) with Some _ => true | None => false end in
  match x with
  | OLockT lt off len key =>
    match LS.offset_length_to_start_end off len, lock_type lt with
    | Some (st, e), Some ty =>
      let q := LS.mkLock st e (owner_code (dc_id c) key 0) ty in
      check (negb (denied_names r (dc_id c) key)) "C20:own-lock-denied"
      ;; (if in_pool then
            check (negb (is_denied r) || denied_matches r q pre_locks) "C20:denied-without-conflict"
            ;; check (negb (res_ok r) || negb (conflicts_with q pre_t)) "C20:lockt-missed-conflict"
            ;; check (negb (conflicts_with q pre_t) || is_denied r) "C20:lockt-missed-conflict"
          else "")
    | _, _ => ""
    end
  | OLock lt off len lk =>
    match LS.offset_length_to_start_end off len, lock_type lt, locker_key c lk with
    | Some (st, e), Some ty, Some key =>
      let q := LS.mkLock st e (owner_code (dc_id c) key 0) ty in
      check (negb (denied_names r (dc_id c) key)) "C20:own-lock-denied"
      ;; check (negb (is_denied r) || denied_matches r q pre_locks) "C20:denied-without-conflict"
      ;; (if res_ok r then
            check (match lk with
                   | LockerNew sd _ => negb (regular sd) || open_scope_ok c h sd
                   | LockerExisting sd => negb (regular sd) || lock_scope_ok c (Some h) sd
                   end) "C18:stateid-out-of-scope"
            ;; check (negb (conflicts_with q pre_t)) "C20:granted-despite-conflict"
            ;; check (LSS.bytes_ok pre_t post_t q) "C20:lock-bytes"
          else "")
    | _, _, _ => check (negb (res_ok r)) "C20:lock-invalid-accepted"
    end
  | OLockU sd off len =>
    if res_ok r then
      check (negb (regular sd) || lock_scope_ok c (Some h) sd) "C18:stateid-out-of-scope"
      ;; match LS.offset_length_to_start_end off len, find_dlofs c (s_lo sd) with
         | Some (st, e), Some (_, l) =>
           check (LSS.bytes_ok pre_t post_t (LS.mkLock st e (owner_code (dc_id c) (dl_key l) 0) LS.Unlocked))
                 "C20:unlock-bytes"
         | _, _ => ""
         end
    else ""
  | OClose sd =>
    if res_ok r && regular sd then
      check (open_scope_ok c h sd) "C18:stateid-out-of-scope"
      ;; match find_doofs c (s_lo sd) with
         | Some o =>
           (* CLOSE releases exactly the locks of the lock-owners of this open *)
           let mine (k : d_lock) := (dk_client k =? dc_id c)
                                    && existsb (fun l => dl_key l =? dk_key k) (do_lofs o) in
           check (list_eqb d_lock_eqb (filter (fun k => negb (mine k)) pre_locks) post_locks)
                 "C20:close-released-wrong-locks"
         | None => ""
         end
    else ""
  | OOpenDowngrade sd _ _ =>
    check (negb (res_ok r && regular sd) || open_scope_ok c h sd) "C18:stateid-out-of-scope"
  | ORead sd | OWrite sd | OSetattr sd =>
    check (negb (res_ok r && regular sd) || open_scope_ok c h sd || lock_scope_ok c (Some h) sd)
          "C18:stateid-out-of-scope"
  | _ => ""
  end.

(* The (lock-owner, file) an operation acts on: has the shared-lock-owner
   trigger happened for it? *)
Definition op_triggered (T : list trig) (c : d_client) (h : N) (x : op) : bool :=
  match x with
  | OLockT _ _ _ key => triggered T (dc_id c) key h
  | OLock _ _ _ lk => match locker_key c lk with Some key => triggered T (dc_id c) key h | None => false end
  | OLockU sd _ _ => match find_dlofs c (s_lo sd) with
                     | Some (_, l) => triggered T (dc_id c) (dl_key l) h | None => false end
  | OClose sd => match find_doofs c (s_lo sd) with
                 | Some o => existsb (fun l => triggered T (dc_id c) (dl_key l) (do_handle o)) (do_lofs o)
                 | None => false end
  | _ => false
  end.

Definition p_op (T : list trig) (pre s : hstep) (c : d_client) (h : N) (x : op) (r : opres) : string :=
  scoped (op_triggered T c h x) (p_op_raw pre s c h x r).

Definition p_free_stateid (T : list trig) (c : d_client) (sd : stateid) (r : option opres) (panicked : bool) : string :=
  match find_dlofs c (s_lo sd) with
  | Some (o, l) =>
    if (s_hi sd =? 0) && seq_ok (s_seq sd) (dl_seq l) && (0 <? dl_count l)%Z then
      scoped (triggered T (dc_id c) (dl_key l) (do_handle o))
        (check (negb panicked) "C20:free-stateid-locks-held-panic"
         ;; match r with
            | Some r => check (res_status r =? ERR_LOCKS_HELD) "C20:free-stateid-locks-held"
            | None => ""
            end)
    else ""
  | None =>
    match r with
    | Some r => check (negb (res_ok r)) "C18:stateid-out-of-scope"
    | None => ""
    end
  end.

(* A new request that ran to completion within the step. *)
Definition p_compound (lease : N) (T : list trig) (pre s : hstep) (tid sess : N) (ops : list op) : string :=
  if expirable lease (d_now (hs_dump s)) (hs_dump pre) then "" else
  match find_dsession sess (hs_dump pre) with
  | None => ""
  | Some ss =>
    match find_dclient (dss_client ss) (hs_dump pre) with
    | None => ""
    | Some c =>
      let panicked := existsb (N.eqb tid) (hs_panics s) in
      let res := match reply_of tid s with Some r => cr_res r | None => [] end in
      match ops, res with
      | [OFreeStateid sd], _ => p_free_stateid T c sd (nth_error res 1) panicked
      | [OPutFH h; OFreeStateid sd], _ =>
        match nth_error res 1 with
        | Some r1 => if res_ok r1 then p_free_stateid T c sd (nth_error res 2) panicked else ""
        | None => if panicked then p_free_stateid T c sd None panicked else ""
        end
      | [OPutFH h; x], [RSequenceOk _ _ _ _; r1; r2] =>
        check (negb (match find_dpfile h (hs_dump pre) with Some _ => true | None => false end) || res_ok r1)
              "C18:open-file-unresolvable"
        ;; (if res_ok r1 then p_op T pre s c h x r2 else "")
      | OPutFH h :: _, RSequenceOk _ _ _ _ :: r1 :: _ =>
        check (negb (match find_dpfile h (hs_dump pre) with Some _ => true | None => false end) || res_ok r1)
              "C18:open-file-unresolvable"
      | _, _ => ""
      end
    end
  end.

(* ---- C18: state is only taken away for a reason --------------------------- *)
Definition mentions_client (ops : list op) (d : dump) (owner cid : N) : bool :=
  existsb (fun o => match o with
                    | OCreateSession c _ => match find_dclient c d with
                                            | Some x => dc_owner x =? owner | None => false end
                    | ODestroyClientid c => c =? cid
                    | _ => false
                    end) ops.

Definition step_ops (pst : pstate) (h : hop) : list op :=
  match h with
  | HSolo _ (SCreateSession c s) => [OCreateSession c s]
  | HSolo _ (SDestroyClientid c) => [ODestroyClientid c]
  | HSeq _ _ _ _ _ ops _ => ops
  | HResume t => match find (fun p => pt_tid p =? t) (p_threads pst) with
                 | Some p => pt_ops p | None => [] end
  | _ => []
  end.
Definition step_client (pst : pstate) (pre : hstep) (h : hop) : N :=
  match h with
  | HSeq _ sess _ _ _ _ _ => match find_dsession sess (hs_dump pre) with
                             | Some ss => dss_client ss | None => 0 end
  | HResume t => match find (fun p => pt_tid p =? t) (p_threads pst) with
                 | Some p => pt_client p | None => 0 end
  | _ => 0
  end.

Definition p_retained (lease : N) (pst : pstate) (pre s : hstep) : string :=
  let ops := step_ops pst (hs_op s) in
  let actor := step_client pst pre (hs_op s) in
  all_ok (fun c =>
    match find_dclient (dc_id c) (hs_dump s) with
    | None =>
      (* the client is gone: lease lapsed, replaced by a new incarnation, or destroyed *)
      check ((dc_hold c =? 0)%Z &&
             ((dc_seen c + lease <? d_now (hs_dump s))
              || mentions_client ops (hs_dump pre) (dc_owner c) (dc_id c)))
            "C18:client-removed-unjustified"
    | Some c' =>
      (* open state only goes away through a request of the client itself *)
      check ((dc_id c =? actor)
             || forallb (fun o => match find_doofs c' (do_other o) with Some _ => true | None => false end)
                        (dc_oofs c))
            "C18:open-state-lost"
    end) (d_clients (hs_dump pre)).

(* ---- C19: CREATE_SESSION is sequenced per client -------------------------- *)
Definition p_create_session (lease : N) (pst : pstate) (pre s : hstep) (tid cid sq : N) : string :=
  if expirable lease (d_now (hs_dump s)) (hs_dump pre) then "" else
  match find_dclient cid (hs_dump pre), reply_of tid s with
  | Some c, Some r =>
    let same_sessions := list_eqb d_session_eqb (d_sessions (hs_dump pre)) (d_sessions (hs_dump s)) in
    if sq =? dc_seq c then
      (* retransmission: the cached response, no new session *)
      check same_sessions "C19:create-session-replay-reexecuted"
      ;; match find (fun x => (fst (fst x) =? cid) && (snd (fst x) =? sq)) (p_cs_known pst) with
         | Some x => check (list_eqb opres_eqb (cr_res r) [snd x]) "C19:create-session-replay-differs"
         | None => ""
         end
    else if sq =? (dc_seq c + 1) mod u32 then
      (* a new CREATE_SESSION that succeeds is recorded: the sequence moves on and the session exists *)
      match cr_res r with
      | [RCreateSession sess sq'] =>
        check (sq' =? sq) "C19:create-session-reply-sequence"
        ;; check (match find_dclient cid (hs_dump s) with Some c' => dc_seq c' =? sq | None => false end)
                 "C19:create-session-sequence-not-recorded"
        ;; check (match find_dsession sess (hs_dump s) with Some ss => dss_client ss =? cid | None => false end)
                 "C19:create-session-without-session"
      | _ =>
        (* a new CREATE_SESSION that is refused leaves no trace: its sequence number is not consumed, so that the
           retransmission is executed instead of being answered with the cached reply of an earlier request *)
        check (match find_dclient cid (hs_dump s) with Some c' => dc_seq c' =? dc_seq c | None => true end)
              "C19:refused-create-session-consumed-sequence"
      end
    else
      check (creply_eqb r (mkReply ERR_SEQ_MISORDERED [RStatus OP_CREATE_SESSION ERR_SEQ_MISORDERED]))
            "C19:create-session-misordered-accepted"
      ;; check same_sessions "C19:create-session-misordered-side-effect"
  | _, _ => ""
  end.

(* ---- one step ------------------------------------------------------------ *)
(* The triggers known when a step is judged: those of earlier steps and
   those visible before / after this step. *)
Definition trig_now (pst : pstate) (pre s : hstep) : list trig :=
  p_trig pst ++ trig_of (hs_dump pre) ++ trig_of (hs_dump s).

(* A panic belongs to the known finding if the trigger has happened for a
   client this step works on (its own request, an idle client that enter()
   may expire, a client replaced or destroyed by the request), or if the
   request itself makes one lock-owner lock through a second open. *)
Definition panic_shared (pst : pstate) (pre s : hstep) : bool :=
  let T := trig_now pst pre s in
  let actor := step_client pst pre (hs_op s) in
  let ops := step_ops pst (hs_op s) in
  existsb (fun t =>
    let cid := fst (fst t) in
    (cid =? actor)
    || match find_dclient cid (hs_dump pre) with
       | Some c => (dc_hold c =? 0)%Z || mentions_client ops (hs_dump pre) (dc_owner c) cid
       | None => false
       end) T
  || match find_dclient actor (hs_dump pre) with
     | Some c =>
       existsb (fun o => match o with
                         | OLock _ _ _ (LockerNew _ key) =>
                           existsb (fun col => dl_key (snd col) =? key) (flat_map (fun o' => map (fun l => (o', l)) (do_lofs o')) (dc_oofs c))
                           || Z.ltb 1 (countb (fun o2 => match o2 with OLock _ _ _ (LockerNew _ k2) => k2 =? key | _ => false end) ops)
                         | _ => false
                         end) ops
     | None => false
     end.

Definition p_step (lease : N) (pst : pstate) (pre s : hstep) : string :=
  let T := trig_now pst pre s in
  check (match hs_panics s with
         | [] => true
         | _ => match hs_op s with
                | HSeq _ _ _ _ _ ops _ => existsb (fun o => match o with OFreeStateid _ => true | _ => false end) ops
                | _ => false
                end
         end) (if panic_shared pst pre s then shared_kind else "C18:panic")
  ;; match hs_op s with
     | HSeq tid sess sl sq cache ops _ =>
       p_sequence lease pst pre s tid sess sl sq cache ops
       ;; (match find_dsession sess (hs_dump pre) with
           | Some ss =>
             match nth_error (dss_slots ss) (N.to_nat sl) with
             | Some slot => if (sq =? (ds_seq slot + 1) mod u32) && negb (ds_busy slot)
                            then p_compound lease T pre s tid sess ops else ""
             | None => ""
             end
           | None => ""
           end)
     | HSolo tid (SCreateSession cid sq) => p_create_session lease pst pre s tid cid sq
     | _ => ""
     end
  ;; p_delivery pst s
  ;; check (match hs_hung s with [] => true | _ => false end) "C18:request-hangs"
  ;; p_retained lease pst pre s.

(* ---- ledger update ------------------------------------------------------- *)
Definition ledger_step (pst : pstate) (pre s : hstep) : pstate :=
  (* a new request *)
  let pst1 :=
    match hs_op s with
    | HSeq tid sess sl sq cache ops _ =>
      match find_dsession sess (hs_dump pre) with
      | Some ss =>
        match nth_error (dss_slots ss) (N.to_nat sl) with
        | Some slot =>
          if sq =? (ds_seq slot + 1) mod u32 then
            if ds_busy slot then
              let orig := find (fun p => (pt_sess p =? sess) && (pt_slot p =? sl) && (pt_seq p =? sq)
                                         && match pt_orig p with None => true | _ => false end)
                               (p_threads pst) in
              mkP (p_threads pst ++ [mkPT tid sess sl sq cache ops (dss_client ss)
                                          (match orig with Some o => Some (pt_tid o) | None => Some 0 end)])
                  (p_slots_known pst) (p_cs_known pst) (p_trig pst)
            else
              (* the slot moves on: what is cached for it is discarded *)
              mkP (p_threads pst ++ [mkPT tid sess sl sq cache ops (dss_client ss) None])
                  (filter (fun p => negb ((ps_sess p =? sess) && (ps_slot p =? sl))) (p_slots_known pst))
                  (p_cs_known pst) (p_trig pst)
          else pst
        | None => pst
        end
      | None => pst
      end
    | _ => pst
    end in
  (* completed requests *)
  let finished (t : pthread) := match reply_of (pt_tid t) s with Some _ => true | None => false end
                                || existsb (N.eqb (pt_tid t)) (hs_panics s) in
  let known :=
    fold_left (fun acc t =>
                 match pt_orig t, reply_of (pt_tid t) s with
                 | None, Some r =>
                   if executed r then
                     mkPS (pt_sess t) (pt_slot t) (pt_seq t) (pt_cache t) r
                     :: filter (fun p => negb ((ps_sess p =? pt_sess t) && (ps_slot p =? pt_slot t))) acc
                   else acc
                 | _, _ => acc
                 end) (p_threads pst1) (p_slots_known pst1) in
  let cs :=
    match hs_op s with
    | HSolo tid (SCreateSession cid sq) =>
      match reply_of tid s with
      | Some r =>
        match cr_res r with
        | [RCreateSession sess sq'] =>
          (cid, sq', RCreateSession sess sq') :: filter (fun x => negb (fst (fst x) =? cid)) (p_cs_known pst1)
        | _ => p_cs_known pst1
        end
      | None => p_cs_known pst1
      end
    | _ => p_cs_known pst1
    end in
  mkP (filter (fun t => negb (finished t)) (p_threads pst1)) known cs
      (p_trig pst ++ filter (fun t => negb (existsb (trig_eqb t) (p_trig pst)))
                            (trig_of (hs_dump pre) ++ trig_of (hs_dump s))).

Definition targets_of (pst : pstate) : list (N * N) :=
  map (fun t => (pt_sess t, pt_slot t))
      (filter (fun t => match pt_orig t with Some _ => true | None => false end) (p_threads pst)).

Fixpoint p_from (lease : N) (i : nat) (pst : pstate) (pre : hstep) (steps : list hstep)
    : option (nat * string) :=
  match steps with
  | [] => None
  | s :: tl =>
    let k1 := p_step lease pst pre s in
    let pst' := ledger_step pst pre s in
    let k := k1 ;; p_inv lease (p_trig pst') s ;; p_slots (hs_dump s) (targets_of pst') in
    if ok k then p_from lease (S i) pst' s tl else Some (i, k)
  end.

Definition p_case (cfg : config) (steps : list hstep) : option (nat * string) :=
  p_from (cf_lease cfg) 0 (mkP [] [] [] []) empty_obs steps.
