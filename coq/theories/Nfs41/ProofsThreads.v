(* Slots, compounds in flight and waiters (C19): a busy slot always has its
   compound in flight, so a duplicate that arrives meanwhile is registered
   with it (enabledness), and compound identifiers stay unique. *)
From VF Require Import Nfs41.ProofsBase Nfs41.ProofsSeq.
Open Scope N_scope.

(* ---- frame: what an operation may do to sessions and compounds ----------- *)
Definition fresh_session (ss : session) : Prop :=
  forall i s, nth_error (ss_slots ss) i = Some s -> sl_busy s = None.

(* Compounds in flight untouched; sessions only removed, or added with all
   slots free. *)
Definition sess_frame (st st' : state) : Prop :=
  st_threads st' = st_threads st /\
  forall ss, In ss (st_sessions st') -> In ss (st_sessions st) \/ fresh_session ss.

Lemma sess_frame_refl : forall st, sess_frame st st.
Proof. intros st. split; auto. Qed.

Lemma sess_frame_trans : forall a b c, sess_frame a b -> sess_frame b c -> sess_frame a c.
Proof.
  intros a b c [T1 S1] [T2 S2]. split; [congruence|].
  intros ss H. destruct (S2 ss H) as [H'|H']; auto.
Qed.

(* States that differ only in other components. *)
Lemma sess_frame_same : forall st st',
  st_threads st' = st_threads st -> st_sessions st' = st_sessions st -> sess_frame st st'.
Proof. intros st st' H1 H2. split; [exact H1|]. intros ss H. left. rewrite <- H2. exact H. Qed.

Lemma sess_frame_sub : forall st st',
  st_threads st' = st_threads st ->
  (forall ss, In ss (st_sessions st') -> In ss (st_sessions st)) -> sess_frame st st'.
Proof. intros st st' H1 H2. split; [exact H1|]. intros ss H. left. auto. Qed.

Ltac frame_same := apply sess_frame_same; reflexivity.

Lemma hold_frame : forall id st, sess_frame st (hold id st).
Proof.
  intros id st. unfold hold. destruct (find_client _ _); [|apply sess_frame_refl].
  destruct (c_hold c =? 0); frame_same.
Qed.

Lemma release_frame : forall id st, sess_frame st (release id st).
Proof.
  intros id st. unfold release. destruct (find_client _ _); [|apply sess_frame_refl].
  destruct (c_hold c =? 0); [frame_same|]. destruct (c_hold c =? 1); frame_same.
Qed.

Lemma client_remove_frame : forall id st, sess_frame st (client_remove id st).
Proof.
  intros id st. unfold client_remove. destruct (find_client _ _); [frame_same|apply sess_frame_refl].
Qed.

Lemma empty_and_remove_frame : forall id st, sess_frame st (fst (empty_and_remove id st)).
Proof.
  intros id st. unfold empty_and_remove. destruct (find_client _ _); [|apply sess_frame_refl].
  destruct (oofs_remove_all _ _ _) as [[[c1 pool1] outs] pn]. cbn [fst].
  eapply sess_frame_trans; [|apply client_remove_frame].
  apply sess_frame_sub; [reflexivity|].
  intros ss H. cbn in H. apply filter_In in H. tauto.
Qed.

Lemma expire_list_frame : forall ids st, sess_frame st (fst (expire_list ids st)).
Proof.
  induction ids as [|id tl IH]; intros st; cbn; [apply sess_frame_refl|].
  destruct (expired st id); [|apply sess_frame_refl].
  pose proof (empty_and_remove_frame id st) as H1.
  destruct (empty_and_remove id st) as [st1 o1]. cbn [fst] in H1.
  pose proof (IH st1) as H2. destruct (expire_list tl st1) as [st2 o2]. cbn [fst] in *.
  eapply sess_frame_trans; eauto.
Qed.

Lemma enter_frame : forall st, sess_frame st (fst (enter st)).
Proof.
  intros st. unfold enter.
  eapply sess_frame_trans; [|apply expire_list_frame].
  destruct (st_now st <? st_clock st); [frame_same|apply sess_frame_refl].
Qed.

Lemma enter_frame' : forall st st' outs, enter st = (st', outs) -> sess_frame st st'.
Proof. intros st st' outs H. pose proof (enter_frame st) as F. rewrite H in F. exact F. Qed.

Lemma fresh_slots_free : forall n i s, nth_error (fresh_slots n) i = Some s -> sl_busy s = None.
Proof.
  intros n i s H. unfold fresh_slots in H. apply nth_error_In in H.
  apply repeat_spec in H. subst s. reflexivity.
Qed.

Lemma op_exchange_id_frame : forall o v st, sess_frame st (fst (fst (op_exchange_id o v st))).
Proof.
  intros o v st. unfold op_exchange_id.
  pose proof (enter_frame st) as F. destruct (enter st) as [st1 outs]. cbn [fst] in F.
  destruct (find _ _); cbn [fst]; [exact F|].
  eapply sess_frame_trans; [exact F|]. frame_same.
Qed.

Lemma touch_frame : forall id st, sess_frame st (touch id st).
Proof.
  intros id st. unfold touch. destruct (find_client _ _); [|apply sess_frame_refl].
  destruct (c_hold c =? 0); [frame_same|apply sess_frame_refl].
Qed.

Lemma cs_finish_frame : forall cid sq st, sess_frame st (fst (cs_finish cid sq st)).
Proof.
  intros cid sq st. unfold cs_finish. cbn [fst].
  eapply sess_frame_trans; [|apply touch_frame].
  set (st3 := match find_client cid (st_clients st) with
              | Some c2 => set_clients st (upd_client (c_set_confirmed c2 true) (st_clients st))
              | None => st end).
  assert (F3 : sess_frame st st3) by (subst st3; destruct (find_client _ _); [frame_same|apply sess_frame_refl]).
  eapply sess_frame_trans; [exact F3|].
  match goal with |- sess_frame _ (match ?x with _ => _ end) => destruct x end.
  - split; [reflexivity|]. intros ss H. cbn in H. destruct H as [<-|H]; [|left; exact H].
    right. intros i s Hs. cbn in Hs. eapply fresh_slots_free; eauto.
  - split; [reflexivity|]. intros ss H. cbn in H. destruct H as [<-|H]; [|left; exact H].
    right. intros i s Hs. cbn in Hs. eapply fresh_slots_free; eauto.
Qed.

Lemma op_create_session_frame : forall c s st, sess_frame st (fst (fst (op_create_session c s st))).
Proof.
  intros c s st. unfold op_create_session.
  pose proof (enter_frame st) as F. destruct (enter st) as [st1 outs]. cbn [fst] in F.
  destruct (find_client _ _) as [cl|]; cbn [fst]; [|exact F].
  destruct (s =? c_seq cl); cbn [fst]; [exact F|].
  destruct (s =? _); cbn [fst]; [|exact F].
  destruct (find _ _) as [x|].
  - destruct (0 <? c_hold x); cbn [fst].
    + eapply sess_frame_trans; [exact F|apply touch_frame].
    + pose proof (empty_and_remove_frame (c_id x) st1) as Fe.
      destruct (empty_and_remove _ _) as [st2 outs2]. cbn [fst] in Fe.
      pose proof (cs_finish_frame c s st2) as Fc. destruct (cs_finish c s st2) as [st3 r]. cbn [fst] in *.
      eapply sess_frame_trans; [exact F|]. eapply sess_frame_trans; eauto.
  - pose proof (cs_finish_frame c s st1) as Fc.
    destruct (cs_finish _ _ _) as [st3 r]. cbn [fst] in *.
    eapply sess_frame_trans; eauto.
Qed.

Lemma op_destroy_clientid_frame : forall c st, sess_frame st (fst (fst (op_destroy_clientid c st))).
Proof.
  intros c st. unfold op_destroy_clientid.
  pose proof (enter_frame st) as F. destruct (enter st) as [st1 outs]. cbn [fst] in F.
  destruct (find_client _ _); cbn [fst]; [|exact F].
  destruct (_ || _); cbn [fst]; [exact F|].
  eapply sess_frame_trans; [exact F|apply client_remove_frame].
Qed.

Lemma op_destroy_session_frame : forall i st, sess_frame st (fst (fst (op_destroy_session i st))).
Proof.
  intros i st. unfold op_destroy_session.
  pose proof (enter_frame st) as F. destruct (enter st) as [st1 outs]. cbn [fst] in F.
  destruct (find_session _ _); cbn [fst]; [|exact F].
  eapply sess_frame_trans; [exact F|].
  apply sess_frame_sub; [reflexivity|]. intros ss H. cbn in H.
  unfold del_session in H. apply filter_In in H. tauto.
Qed.

Lemma op_bind_conn_frame : forall i d st, sess_frame st (fst (fst (op_bind_conn i d st))).
Proof.
  intros i d st. unfold op_bind_conn. destruct (negb d); cbn [fst]; [apply sess_frame_refl|].
  pose proof (enter_frame st) as F. destruct (enter st) as [st1 outs]. cbn [fst] in F.
  destruct (find_session _ _); cbn [fst]; exact F.
Qed.

Lemma solo_step_frame : forall tid s st, sess_frame st (fst (solo_step tid s st)).
Proof.
  intros tid s st. destruct s; cbn [solo_step]; try apply sess_frame_refl.
  - pose proof (op_exchange_id_frame owner verifier st) as F.
    destruct (op_exchange_id _ _ _) as [[st1 outs] r]. exact F.
  - pose proof (op_create_session_frame clientid seq st) as F.
    destruct (op_create_session _ _ _) as [[st1 outs] r]. exact F.
  - pose proof (op_destroy_session_frame id st) as F.
    destruct (op_destroy_session _ _) as [[st1 outs] r]. exact F.
  - pose proof (op_destroy_clientid_frame id st) as F.
    destruct (op_destroy_clientid _ _) as [[st1 outs] r]. exact F.
  - pose proof (op_bind_conn_frame id dir_valid st) as F.
    destruct (op_bind_conn _ _ _) as [[st1 outs] r]. exact F.
Qed.

(* Operations under cis.lock never touch sessions or compounds. *)
Ltac frame_leaves := repeat break_match; try frame_same; try apply sess_frame_refl.

Lemma io_begin_frame : forall opnum m s c st cfh sfh, sess_frame st (sr_st (io_begin opnum m s c st cfh sfh)).
Proof. intros. unfold io_begin, done. frame_leaves. Qed.

Lemma io_end_reg_frame : forall opnum other h m iost c st cfh sfh,
  sess_frame st (sr_st (io_end_reg opnum other h m iost c st cfh sfh)).
Proof. intros. unfold io_end_reg. frame_leaves. Qed.

Lemma op_lock_frame : forall lt off len lk c st cfh sfh, sess_frame st (sr_st (op_lock lt off len lk c st cfh sfh)).
Proof. intros. unfold op_lock, op_lock_run, done. frame_leaves. Qed.

Lemma op_lockt_frame : forall lt off len ow c st cfh sfh, sess_frame st (sr_st (op_lockt lt off len ow c st cfh sfh)).
Proof. intros. unfold op_lockt, done. frame_leaves. Qed.

Lemma op_locku_frame : forall s off len c st cfh sfh, sess_frame st (sr_st (op_locku s off len c st cfh sfh)).
Proof. intros. unfold op_locku, done. frame_leaves. Qed.

Lemma op_free_stateid_frame : forall s c st cfh sfh, sess_frame st (sr_st (op_free_stateid s c st cfh sfh)).
Proof. intros. unfold op_free_stateid, done. frame_leaves. Qed.

Lemma op_close_frame : forall s c st cfh sfh, sess_frame st (sr_st (op_close s c st cfh sfh)).
Proof. intros. unfold op_close, done. frame_leaves. Qed.

Lemma op_open_downgrade_frame : forall s a d c st cfh sfh, sess_frame st (sr_st (op_open_downgrade s a d c st cfh sfh)).
Proof. intros. unfold op_open_downgrade, done. frame_leaves. Qed.

Lemma op_open_begin_frame : forall a d how cl orc st cfh sfh, sess_frame st (sr_st (op_open_begin a d how cl orc st cfh sfh)).
Proof. intros. unfold op_open_begin, done. frame_leaves. Qed.

Lemma op_open_end_frame : forall ow cl h m c st cfh sfh, sess_frame st (sr_st (op_open_end ow cl h m c st cfh sfh)).
Proof. intros. unfold op_open_end. frame_leaves. Qed.

Lemma op_section_frame : forall o ph orc c st cfh sfh, sess_frame st (sr_st (op_section o ph orc c st cfh sfh)).
Proof.
  intros o ph orc c st cfh sfh. destruct ph.
  - (* PhNone *)
    destruct o; cbn [op_section];
      try (unfold done; frame_leaves; fail);
      try apply op_open_begin_frame; try apply op_open_downgrade_frame; try apply op_close_frame;
      try apply op_lock_frame; try apply op_lockt_frame; try apply op_locku_frame;
      try apply op_free_stateid_frame.
    + (* READ *) destruct (sid_special s); [unfold done; frame_leaves|apply io_begin_frame].
    + (* WRITE *) destruct (sid_special s); [unfold done; frame_leaves|apply io_begin_frame].
    + (* SETATTR *) destruct (sid_special s); [unfold done; frame_leaves|apply io_begin_frame].
    + pose proof (op_exchange_id_frame owner verifier st) as F.
      destruct (op_exchange_id _ _ _) as [[st1 outs] r]. exact F.
    + pose proof (op_create_session_frame clientid seq st) as F.
      destruct (op_create_session _ _ _) as [[st1 outs] r]. exact F.
    + pose proof (op_destroy_session_frame id st) as F.
      destruct (op_destroy_session _ _) as [[st1 outs] r]. exact F.
    + pose proof (op_destroy_clientid_frame id st) as F.
      destruct (op_destroy_clientid _ _) as [[st1 outs] r]. exact F.
  - cbn [op_section]. destruct o; try (unfold done; frame_same). apply op_open_end_frame.
  - cbn [op_section]. frame_same.
  - cbn [op_section]. frame_same.
  - cbn [op_section]. apply io_end_reg_frame.
  - cbn [op_section]. frame_same.
Qed.

(* ---- the invariant -------------------------------------------------------- *)
Definition busy_ok (st : state) : Prop :=
  forall ss i s orig,
    In ss (st_sessions st) -> nth_error (ss_slots ss) i = Some s -> sl_busy s = Some orig ->
    exists t, find_thread orig (st_threads st) = Some t
              /\ t_sess t = ss_id ss /\ t_slot t = N.of_nat i /\ t_seq t = (sl_seq s + 1) mod u32.

Definition tids_ok (st : state) : Prop := NoDup (map t_id (st_threads st)).

Definition seq_inv (st : state) : Prop := busy_ok st /\ tids_ok st.

Lemma busy_ok_frame : forall st st', sess_frame st st' -> busy_ok st -> busy_ok st'.
Proof.
  intros st st' [HT HS] B ss i s orig Hin Hn Hb.
  destruct (HS ss Hin) as [Hold|Hfresh].
  - rewrite HT. eapply B; eauto.
  - rewrite (Hfresh i s Hn) in Hb. discriminate.
Qed.

Lemma seq_inv_frame : forall st st', sess_frame st st' -> seq_inv st -> seq_inv st'.
Proof.
  intros st st' F [B T]. split; [eapply busy_ok_frame; eauto|].
  unfold tids_ok. destruct F as [HT _]. rewrite HT. exact T.
Qed.

(* upd_slot *)
Lemma upd_nth_aux : forall (f : slot -> slot) n l j s,
  nth_error (firstn n l ++ match nth_error l n with Some s => [f s] | None => [] end ++ skipn (S n) l) j = Some s ->
  (j = n /\ exists s0, nth_error l j = Some s0 /\ s = f s0)
  \/ (j <> n /\ nth_error l j = Some s).
Proof.
  intros f. induction n as [|n IH]; intros l j s H.
  - destruct l as [|x tl]; cbn in H.
    + destruct j; discriminate.
    + destruct j as [|k]; cbn in H.
      * left. split; [reflexivity|]. exists x. split; [reflexivity|congruence].
      * right. split; [discriminate|exact H].
  - destruct l as [|x tl]; cbn in H.
    + destruct j; discriminate.
    + destruct j as [|k]; cbn in H.
      * right. split; [discriminate|exact H].
      * destruct (IH tl k s H) as [[Hj [s0 [Hs0 Hs]]]|[Hj Hn]].
        -- left. split; [congruence|]. exists s0. split; [exact Hs0|exact Hs].
        -- right. split; [congruence|exact Hn].
Qed.

Lemma upd_slot_nth : forall i f l j s,
  nth_error (upd_slot i f l) j = Some s ->
  (j = N.to_nat i /\ exists s0, nth_error l j = Some s0 /\ s = f s0)
  \/ (j <> N.to_nat i /\ nth_error l j = Some s).
Proof. intros i f l j s H. unfold upd_slot in H. apply upd_nth_aux in H. exact H. Qed.

Lemma find_thread_app_fresh : forall orig l t,
  t_id t <> orig -> find_thread orig (l ++ [t]) = find_thread orig l.
Proof.
  intros orig l t Hne. rewrite (find_thread_k orig (l ++ [t])), (find_thread_k orig l), kfind_app.
  destruct (kfind t_id orig l); [reflexivity|].
  unfold kfind. cbn. apply N.eqb_neq in Hne. rewrite Hne. reflexivity.
Qed.

Lemma tid_used_false : forall tid st,
  tid_used tid st = false -> forall t, In t (st_threads st) -> t_id t <> tid.
Proof.
  intros tid st H t Hin Heq. unfold tid_used in H.
  assert (X : existsb (fun t0 => (t_id t0 =? tid) || existsb (N.eqb tid) (t_waiters t0)) (st_threads st) = true).
  { apply existsb_exists. exists t. split; [exact Hin|]. rewrite Heq, N.eqb_refl. reflexivity. }
  congruence.
Qed.

(* Updating a compound without changing what identifies it. *)
Lemma busy_ok_upd_thread : forall st t t',
  busy_ok st -> find_thread (t_id t') (st_threads st) = Some t ->
  t_sess t' = t_sess t -> t_slot t' = t_slot t -> t_seq t' = t_seq t ->
  busy_ok (set_threads st (upd_thread t' (st_threads st))).
Proof.
  intros st t t' B Hf H1 H2 H3 ss i s orig Hin Hn Hb. cbn in Hin.
  destruct (B ss i s orig Hin Hn Hb) as [t0 [Hf0 [Ha [Hb' Hc]]]].
  cbn [st_threads set_threads]. rewrite find_thread_k, upd_thread_k.
  destruct (N.eq_dec orig (t_id t')) as [->|Hne].
  - rewrite find_thread_k in Hf. rewrite (kfind_kupd_same t_id t' _ t Hf).
    exists t'. rewrite find_thread_k in Hf0. rewrite Hf in Hf0. inv Hf0.
    repeat split; congruence.
  - rewrite kfind_kupd_other by exact Hne. exists t0. rewrite <- find_thread_k. auto.
Qed.

Lemma tids_ok_upd_thread : forall st t', tids_ok st -> tids_ok (set_threads st (upd_thread t' (st_threads st))).
Proof. intros st t' T. unfold tids_ok. cbn. rewrite upd_thread_k, kupd_keys. exact T. Qed.

Lemma set_slot_sessions : forall st ss i f ss',
  In ss' (st_sessions (set_slot st ss i f)) ->
  ss' = mkSession (ss_id ss) (ss_client ss) (upd_slot i f (ss_slots ss))
  \/ (In ss' (st_sessions st) /\ ss_id ss' <> ss_id ss).
Proof.
  intros st ss i f ss' H. unfold set_slot in H. cbn in H. rewrite upd_session_k in H.
  apply kupd_in in H. cbn in H. exact H.
Qed.

(* ---- the first section of opSequence -------------------------------------- *)
Lemma seq_begin_inv : forall tid sess sl sq cache ops st,
  tid_used tid st = false -> seq_inv st ->
  seq_inv (fst (seq_begin tid sess sl sq cache ops st)).
Proof.
  intros tid sess sl sq cache ops st Hfresh I. unfold seq_begin.
  pose proof (enter_frame st) as F. destruct (enter st) as [st1 outs]. cbn [fst] in F.
  assert (I1 : seq_inv st1) by (eapply seq_inv_frame; eauto).
  assert (Hfresh1 : forall t, In t (st_threads st1) -> t_id t <> tid).
  { destruct F as [HT _]. rewrite HT. apply tid_used_false. exact Hfresh. }
  destruct (find_session sess (st_sessions st1)) as [ss|] eqn:Ess; cbn [fst]; [|exact I1].
  destruct (nth_error (ss_slots ss) (N.to_nat sl)) as [s|] eqn:Esl; cbn [fst]; [|exact I1].
  destruct (sq =? sl_seq s); cbn [fst]; [exact I1|].
  destruct (sq =? (sl_seq s + 1) mod u32) eqn:Esq; cbn [fst]; [|exact I1].
  apply N.eqb_eq in Esq.
  rewrite find_session_k in Ess. apply kfind_some in Ess. destruct Ess as [Hin Hid].
  destruct I1 as [B1 T1].
  destruct (sl_busy s) as [orig|] eqn:Eb.
  - (* duplicate of a compound in flight *)
    destruct (find_thread orig (st_threads st1)) as [t|] eqn:Et; cbn [fst].
    + assert (Hid' : orig = t_id t).
      { rewrite find_thread_k in Et. apply kfind_some in Et. symmetry. tauto. }
      subst orig. split.
      * eapply busy_ok_upd_thread; eauto.
      * apply tids_ok_upd_thread. exact T1.
    + split; [|exact T1]. intros ss' i s' orig' Hin' Hn Hb. cbn in Hin'. eapply B1; eauto.
  - destruct (cf_maxops (st_cfg st1) <? 1 + N.of_nat (length ops)); cbn [fst].
    + (* TOO_MANY_OPS: only the cached reply of the slot is dropped *)
      split; [|exact T1].
      intros ss' i s' orig' Hin' Hn Hb.
      apply set_slot_sessions in Hin'. destruct Hin' as [->|[Hin' _]].
      * cbn in Hn. apply upd_slot_nth in Hn. destruct Hn as [[Hj [s0 [Hs0 ->]]]|[Hj Hn]].
        -- cbn in Hb. cbn [ss_id]. destruct (B1 ss i s0 orig' Hin Hs0 Hb) as [t Ht]. exists t. exact Ht.
        -- cbn [ss_id]. eapply B1; eauto.
      * eapply B1; eauto.
    + (* a new compound *)
      set (t := mkThread tid sess sl sq cache (ss_client ss) ops _ NFS4_OK fh_none fh_none PhNone []).
      split.
      * intros ss' i s' orig' Hin' Hn Hb.
        cbn [st_threads set_threads]. cbn [st_sessions set_threads] in Hin'.
        assert (Hh : st_threads (hold (ss_client ss) (set_slot st1 ss sl (fun s0 => mkSlot (sl_seq s0) (seq_error ERR_SEQ_MISORDERED) (Some tid)))) = st_threads st1).
        { pose proof (hold_frame (ss_client ss) (set_slot st1 ss sl (fun s0 => mkSlot (sl_seq s0) (seq_error ERR_SEQ_MISORDERED) (Some tid)))) as [HT _]. rewrite HT. reflexivity. }
        assert (Hs : st_sessions (hold (ss_client ss) (set_slot st1 ss sl (fun s0 => mkSlot (sl_seq s0) (seq_error ERR_SEQ_MISORDERED) (Some tid)))) = st_sessions (set_slot st1 ss sl (fun s0 => mkSlot (sl_seq s0) (seq_error ERR_SEQ_MISORDERED) (Some tid)))).
        { unfold hold. destruct (find_client _ _); [|reflexivity]. destruct (c_hold c =? 0); reflexivity. }
        rewrite Hh. rewrite Hs in Hin'.
        apply set_slot_sessions in Hin'. destruct Hin' as [->|[Hin' _]].
        -- cbn in Hn. apply upd_slot_nth in Hn. destruct Hn as [[Hj [s0 [Hs0 ->]]]|[Hj Hn]].
           ++ cbn in Hb. injection Hb as Hb. subst orig'. exists t. split.
              ** rewrite find_thread_k, kfind_app.
                 destruct (kfind t_id tid (st_threads st1)) eqn:Ek.
                 --- apply kfind_some in Ek. destruct Ek as [Hi Hk]. exfalso. eapply Hfresh1; eauto.
                 --- unfold kfind. cbn. rewrite N.eqb_refl. reflexivity.
              ** subst t. cbn [t_sess t_slot t_seq ss_id sl_seq]. split; [symmetry; exact Hid|]. split.
                 --- rewrite Hj. rewrite N2Nat.id. reflexivity.
                 --- rewrite Hj in Hs0. rewrite Esl in Hs0. injection Hs0 as <-. exact Esq.
           ++ destruct (B1 ss i s' orig' Hin Hn Hb) as [t0 [Hf0 Hrest]].
              exists t0. split; [|exact Hrest].
              rewrite find_thread_app_fresh; [exact Hf0|].
              subst t. cbn. intros <-. rewrite find_thread_k in Hf0. apply kfind_some in Hf0.
              destruct Hf0 as [Hi Hk]. eapply Hfresh1; eauto.
        -- destruct (B1 ss' i s' orig' Hin' Hn Hb) as [t0 [Hf0 Hrest]].
           exists t0. split; [|exact Hrest].
           rewrite find_thread_app_fresh; [exact Hf0|].
           subst t. cbn. intros <-. rewrite find_thread_k in Hf0. apply kfind_some in Hf0.
           destruct Hf0 as [Hi Hk]. eapply Hfresh1; eauto.
      * unfold tids_ok. cbn [st_threads set_threads].
        assert (Hh : st_threads (hold (ss_client ss) (set_slot st1 ss sl (fun s0 => mkSlot (sl_seq s0) (seq_error ERR_SEQ_MISORDERED) (Some tid)))) = st_threads st1).
        { pose proof (hold_frame (ss_client ss) (set_slot st1 ss sl (fun s0 => mkSlot (sl_seq s0) (seq_error ERR_SEQ_MISORDERED) (Some tid)))) as [HT _]. rewrite HT. reflexivity. }
        rewrite Hh. rewrite map_app. cbn.
        apply NoDup_snoc; [exact T1|].
        intros Hin'. apply in_map_iff in Hin'. destruct Hin' as [t0 [Hk Hi]].
        eapply Hfresh1; eauto.
Qed.

(* ---- the last section of opSequence --------------------------------------- *)
Lemma seq_end_inv : forall t st,
  find_thread (t_id t) (st_threads st) = Some t -> seq_inv st -> seq_inv (fst (seq_end t st)).
Proof.
  intros t st Hft I. unfold seq_end.
  pose proof (enter_frame st) as F. destruct (enter st) as [st1 outs]. cbn [fst] in F.
  pose proof (release_frame (t_client t) st1) as F2.
  set (st2 := release (t_client t) st1) in *.
  assert (F12 : sess_frame st st2) by (eapply sess_frame_trans; eauto).
  assert (I2 : seq_inv st2) by (eapply seq_inv_frame; eauto).
  assert (Hft2 : find_thread (t_id t) (st_threads st2) = Some t).
  { destruct F12 as [HT _]. rewrite HT. exact Hft. }
  destruct I2 as [B2 T2].
  (* a compound other than [t] is found after [t] is gone *)
  assert (Hother : forall orig t0, find_thread orig (st_threads st2) = Some t0 ->
             (t_sess t0 <> t_sess t \/ t_slot t0 <> t_slot t) ->
             find_thread orig (del_thread (t_id t) (st_threads st2)) = Some t0).
  { intros orig t0 H0 Hd.
    change (kfind t_id orig (kdel t_id (t_id t) (st_threads st2)) = Some t0).
    rewrite kfind_kdel_other; [exact H0|].
    intros ->. rewrite Hft2 in H0. injection H0 as <-. destruct Hd; congruence. }
  destruct (find_session (t_sess t) (st_sessions st2)) as [ss|] eqn:Ess; cbn [fst].
  - rewrite find_session_k in Ess. apply kfind_some in Ess. destruct Ess as [Hin Hid].
    split.
    + intros ss' i s' orig' Hin' Hn Hb. cbn [st_sessions st_threads set_threads] in *.
      apply set_slot_sessions in Hin'. destruct Hin' as [->|[Hin' Hne]].
      * cbn in Hn. apply upd_slot_nth in Hn. destruct Hn as [[Hj [s0 [Hs0 ->]]]|[Hj Hn]].
        -- cbn in Hb. discriminate.
        -- destruct (B2 ss i s' orig' Hin Hn Hb) as [t0 [Hf0 [Ha [Hb' Hc]]]].
           exists t0. split; [|cbn [ss_id]; auto].
           apply Hother; [exact Hf0|]. right. rewrite Hb'. intros Heq. apply Hj.
           rewrite <- Heq. rewrite Nat2N.id. reflexivity.
      * destruct (B2 ss' i s' orig' Hin' Hn Hb) as [t0 [Hf0 [Ha [Hb' Hc]]]].
        exists t0. split; [|auto]. apply Hother; [exact Hf0|]. left. congruence.
    + unfold tids_ok. cbn [st_threads set_threads]. apply (kdel_nodup t_id). exact T2.
  - split.
    + intros ss' i s' orig' Hin' Hn Hb. cbn [st_sessions st_threads set_threads] in *.
      destruct (B2 ss' i s' orig' Hin' Hn Hb) as [t0 [Hf0 [Ha [Hb' Hc]]]].
      exists t0. split; [|auto]. apply Hother; [exact Hf0|]. left.
      rewrite find_session_k in Ess. rewrite Ha. eapply kfind_none; eauto.
    + unfold tids_ok. cbn [st_threads set_threads]. apply (kdel_nodup t_id). exact T2.
Qed.

Lemma section_inv : forall tid orc st, seq_inv st -> seq_inv (fst (fst (section tid orc st))).
Proof.
  intros tid orc st I. unfold section.
  destruct (find_thread tid (st_threads st)) as [t|] eqn:Et; cbn [fst]; [|exact I].
  assert (Hid : t_id t = tid).
  { rewrite find_thread_k in Et. apply kfind_some in Et. tauto. }
  destruct (t_ops t) as [|o rest] eqn:Eops.
  - pose proof (seq_end_inv t st) as H. rewrite Hid in H. specialize (H Et I).
    destruct (seq_end t st). exact H.
  - destruct (find_client (t_client t) (st_clients st)) as [c|]; cbn [fst].
    + pose proof (op_section_frame o (t_phase t) orc c st (t_cfh t) (t_sfh t)) as F.
      set (r := op_section o (t_phase t) orc c st (t_cfh t) (t_sfh t)) in *.
      assert (Ir : seq_inv (sr_st r)) by (eapply seq_inv_frame; eauto).
      destruct Ir as [Br Tr]. destruct F as [HT _].
      split.
      * eapply busy_ok_upd_thread with (t := t); eauto.
        -- rewrite HT. destruct (sr_step r); cbn [t_id]; rewrite Hid; exact Et.
        -- destruct (sr_step r); reflexivity.
        -- destruct (sr_step r); reflexivity.
        -- destruct (sr_step r); reflexivity.
      * apply tids_ok_upd_thread. exact Tr.
    + eapply seq_inv_frame; [|exact I]. frame_same.
Qed.

(* ---- all events ------------------------------------------------------------ *)
Lemma step_inv : forall st e, seq_inv st -> seq_inv (fst (step st e)).
Proof.
  intros st e I. destruct e; cbn [step].
  - eapply seq_inv_frame; [|exact I]. frame_same.
  - eapply seq_inv_frame; [apply solo_step_frame|exact I].
  - destruct (tid_used tid st) eqn:Eu; [exact I|]. apply seq_begin_inv; assumption.
  - pose proof (section_inv tid orc st I) as H. destruct (section tid orc st) as [[st1 outs] u]. exact H.
Qed.

Lemma init_inv : forall cfg c0, seq_inv (init cfg c0).
Proof.
  intros cfg c0. split.
  - intros ss i s orig Hin. destruct Hin.
  - constructor.
Qed.

Theorem run_inv : forall cfg c0 evs, seq_inv (fst (run (init cfg c0) evs)).
Proof.
  intros cfg c0 evs. generalize (init_inv cfg c0). generalize (init cfg c0).
  induction evs as [|e tl IH]; intros st I; cbn [run fst]; [exact I|].
  pose proof (step_inv st e I) as H. destruct (step st e) as [st1 o1]. cbn [fst] in H.
  specialize (IH st1 H). destruct (run st1 tl) as [st2 o2]. exact IH.
Qed.

(* Enabledness: in every reachable state, a request that names a busy
   slot with the sequence ID of the compound in flight is registered as
   a waiter of that compound (it is neither answered nor lost nor
   executed). *)
Theorem inflight_duplicate_registered : forall cfg c0 evs st tid sess sl sq cache ops st1 outs ss s orig,
  st = fst (run (init cfg c0) evs) ->
  enter st = (st1, outs) ->
  find_session sess (st_sessions st1) = Some ss ->
  nth_error (ss_slots ss) (N.to_nat sl) = Some s ->
  sl_busy s = Some orig -> sq = (sl_seq s + 1) mod u32 -> sq <> sl_seq s ->
  exists t, find_thread orig (st_threads st1) = Some t /\ t_seq t = sq /\ t_sess t = sess /\ t_slot t = sl
    /\ seq_begin tid sess sl sq cache ops st
       = (set_threads st1 (upd_thread
            (mkThread (t_id t) (t_sess t) (t_slot t) (t_seq t) (t_cache t) (t_client t) (t_ops t)
                      (t_res t) (t_status t) (t_cfh t) (t_sfh t) (t_phase t) (t_waiters t ++ [tid]))
            (st_threads st1)), outs).
Proof.
  intros cfg c0 evs st tid sess sl sq cache ops st1 outs ss s orig Hst Hent Hss Hsl Hb Hsq Hne.
  assert (I : seq_inv st) by (subst st; apply run_inv).
  assert (I1 : seq_inv st1) by (eapply seq_inv_frame; [eapply enter_frame'; eauto|exact I]).
  destruct I1 as [B1 _].
  pose proof Hss as Hss'. rewrite find_session_k in Hss'. apply kfind_some in Hss'. destruct Hss' as [Hin Hid].
  destruct (B1 ss _ s orig Hin Hsl Hb) as [t [Hf [Ha [Hb' Hc]]]].
  exists t. split; [exact Hf|]. split; [congruence|]. split; [congruence|].
  split; [rewrite Hb', N2Nat.id; reflexivity|].
  eapply seq_begin_duplicate_waits; eauto.
Qed.
