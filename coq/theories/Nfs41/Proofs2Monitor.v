(* Monitor link: predicates of Spec.v that Corr.v evaluates on the
   implementation's state dumps hold on the dump ([Dump.dump_of]) of every
   reachable state of the model.  Here: p_pool (C18:pool-entry-missing,
   C18:pool-usecount). *)
From VF Require Import Nfs41.Spec.
From VF Require Export Nfs41.Proofs2PoolThm.
Local Open Scope string_scope.
Open Scope N_scope.

(* ---- the combinators of Spec.v ------------------------------------------------------------------ *)
Lemma orelse_ok : forall a b, (a ;; b) = "" <-> a = "" /\ b = "".
Proof.
  intros a b. unfold orelse, ok. destruct (String.eqb a "") eqn:E.
  - apply String.eqb_eq in E. subst a. tauto.
  - apply String.eqb_neq in E. split; [intros H; contradiction|tauto].
Qed.

Lemma check_ok : forall b k, k <> "" -> (check b k = "" <-> b = true).
Proof.
  intros b k Hk. unfold check. destruct b.
  - split; reflexivity.
  - split; [intros H; contradiction|discriminate].
Qed.

Lemma all_ok_ok : forall {A} (f : A -> string) l, all_ok f l = "" <-> forall x, In x l -> f x = "".
Proof.
  intros A f l. induction l as [|x l IH]; cbn [all_ok]; [split; [intros _ y []|reflexivity]|].
  rewrite orelse_ok, IH. split.
  - intros [H1 H2] y [<-|Hy]; auto.
  - intros H. split; [apply H; left; reflexivity|intros y Hy; apply H; right; exact Hy].
Qed.

Lemma countb_countz : forall {A} (f : A -> bool) l, countb f l = countz f l.
Proof.
  intros A f l. unfold countb. induction l as [|x l IH]; [reflexivity|]. cbn [filter]. rewrite countz_cons.
  destruct (f x); cbn [length b2z]; lia.
Qed.

(* ---- sorting --------------------------------------------------------------------------------------- *)
Section Sorted.
  Context {A : Type} (key : A -> N).

  Lemma insert_in : forall x y l, In y (insert key x l) <-> y = x \/ In y l.
  Proof.
    intros x y l. induction l as [|z l IH]; cbn [insert]; [cbn; intuition congruence|].
    destruct (key x <=? key z); cbn [In]; [intuition congruence|]. rewrite IH. intuition congruence.
  Qed.

  Lemma sort_in : forall y l, In y (sort_by key l) <-> In y l.
  Proof.
    intros y l. unfold sort_by. induction l as [|x l IH]; cbn [fold_right]; [tauto|].
    rewrite insert_in, IH. cbn [In]. intuition congruence.
  Qed.

  Lemma insert_sumz : forall (f : A -> Z) x l, sumz f (insert key x l) = (f x + sumz f l)%Z.
  Proof.
    intros f x l. induction l as [|z l IH]; cbn [insert sumz]; [reflexivity|].
    destruct (key x <=? key z); cbn [sumz]; [reflexivity|]. rewrite IH. lia.
  Qed.

  Lemma sort_sumz : forall (f : A -> Z) l, sumz f (sort_by key l) = sumz f l.
  Proof.
    intros f l. unfold sort_by. induction l as [|x l IH]; cbn [fold_right sumz]; [reflexivity|].
    rewrite insert_sumz, IH. reflexivity.
  Qed.

  Lemma sort_countz : forall (p : A -> bool) l, countz p (sort_by key l) = countz p l.
  Proof. intros. unfold countz. apply sort_sumz. Qed.
End Sorted.

Lemma find_some_iff : forall {A} (p : A -> bool) l, (exists x, In x l /\ p x = true) <-> find p l <> None.
Proof.
  intros A p l. split.
  - intros [x [Hx Hp]] Hn. eapply find_none in Hn; eauto. congruence.
  - intros H. destruct (find p l) as [x|] eqn:E; [|contradiction]. apply find_some in E. eauto.
Qed.

Lemma countz_filter : forall {A} (p q : A -> bool) l, countz p (filter q l) = countz (fun x => q x && p x) l.
Proof.
  intros A p q l. induction l as [|x l IH]; [reflexivity|]. cbn [filter]. rewrite (countz_cons (fun x => q x && p x)).
  destruct (q x); cbn [andb]; [rewrite countz_cons, IH; reflexivity|rewrite IH; cbn [b2z]; lia].
Qed.

Lemma countz_flat_map : forall {A B} (g : A -> list B) (p : B -> bool) l,
  countz p (flat_map g l) = sumz (fun x => countz p (g x)) l.
Proof. intros. unfold countz. apply (sumz_flat_map g (fun y => b2z (p y)) l). Qed.

(* ---- the open-owner files of a dump --------------------------------------------------------------- *)
Lemma all_oofs_in : forall st co, In co (all_oofs (dump_of st)) ->
  exists c o, In c (st_clients st) /\ In o (c_oofs c) /\ of_live o = true
              /\ fst co = dump_client c /\ snd co = dump_oofs c o.
Proof.
  intros st co H. unfold all_oofs in H. apply in_flat_map in H. destruct H as [dc [Hdc Hco]].
  cbn [dump_of d_clients] in Hdc. apply sort_in in Hdc. apply in_map_iff in Hdc. destruct Hdc as [c [<- Hc]].
  apply in_map_iff in Hco. destruct Hco as [dof [<- Hd]]. cbn [dump_client dc_oofs] in Hd.
  apply sort_in in Hd. apply in_map_iff in Hd. destruct Hd as [o [<- Ho]]. unfold live_oofs in Ho.
  apply filter_In in Ho. destruct Ho as [Ho Hl]. exists c, o. cbn. auto.
Qed.

Lemma all_oofs_count : forall st h,
  countz (fun co => do_handle (snd co) =? h) (all_oofs (dump_of st)) = live_opens st h.
Proof.
  intros st h. unfold all_oofs, live_opens. rewrite countz_flat_map. cbn [dump_of d_clients].
  rewrite sort_sumz, sumz_map. apply sumz_ext. intros c _.
  rewrite countz_map. cbn [snd dump_client dc_oofs]. rewrite sort_countz, countz_map. unfold live_oofs.
  rewrite countz_filter. apply countz_ext. intros o _. reflexivity.
Qed.

Lemma find_dpfile_some : forall st h, find_dpfile h (dump_of st) <> None <-> find_pfile h (st_pool st) <> None.
Proof.
  intros st h. unfold find_dpfile, find_pfile. rewrite <- !find_some_iff. cbn [dump_of d_pool]. split.
  - intros [dp [Hdp E]]. apply sort_in in Hdp. apply in_map_iff in Hdp. destruct Hdp as [p [<- Hp]]. exists p. auto.
  - intros [p [Hp E]]. eexists. split; [apply sort_in; apply in_map; exact Hp|]. exact E.
Qed.

(* ---- p_pool ------------------------------------------------------------------------------------------ *)
Theorem p_pool_reachable : forall cfg c0 evs, p_pool (dump_of (reachable cfg c0 evs)) = "".
Proof.
  intros cfg c0 evs. set (st := reachable cfg c0 evs). unfold p_pool. apply orelse_ok. split; apply all_ok_ok.
  - intros co Hco. apply check_ok; [discriminate|].
    destruct (all_oofs_in st co Hco) as [c [o [Hc [Ho [Hl [_ E]]]]]]. rewrite E. cbn [dump_oofs do_handle].
    destruct (open_has_pool_entry cfg c0 evs c o Hc Ho Hl) as [p [Hp _]]. fold st in Hp.
    assert (Hn : find_dpfile (of_handle o) (dump_of st) <> None) by (apply find_dpfile_some; congruence).
    destruct (find_dpfile (of_handle o) (dump_of st)); [reflexivity|contradiction].
  - intros dp Hdp. apply check_ok; [discriminate|]. cbn [dump_of d_pool] in Hdp. apply sort_in in Hdp.
    apply in_map_iff in Hdp. destruct Hdp as [p [<- Hp]]. cbn [dp_use dp_handle].
    rewrite countb_countz, all_oofs_count. apply Z.eqb_eq.
    pose proof (pool_usecount_is_exact cfg c0 evs (pf_handle p)) as U. fold st in U. cbn zeta in U.
    pose proof (pool_handles_unique cfg c0 evs) as Hnd. fold st in Hnd.
    rewrite find_pfile_k, (kfind_in_nodup pf_handle _ p Hnd Hp) in U. exact (proj1 U).
Qed.

(* ---- p_locks and large lock-owner names --------------------------------------------------------------
   With the first encoding [Spec.owner_code] = (cid*1024+key)*1024+tag+1 the
   lock-owner 3072 of client 1 and the lock-owner 0 of client 4 got the same
   code, and p_locks reported C20:table-not-wf on the dump of this state (two
   clients holding overlapping shared locks; no panic, no sharing, table well
   formed) -- a false alarm of the monitor, found while attempting the
   monitor link and repaired by the owner of Spec.v (injective Cantor
   pairing, f7b078d).  Kept as a regression example. *)
Definition lock_shared (tid sess sq owner key : N) : list event :=
  [ ESeqBegin tid sess 0 sq true [OPutRootFH; OOpen owner 3 0 HowUnchecked (ClaimNull 1);
                                  OLock 1 0 10 (LockerNew sid_current key)];
    ESection tid FsOk; ESection tid (FsLeaf 1); ESection tid FsOk; ESection tid FsOk; ESection tid FsOk ].
Definition collide_events : list event :=
  [ ESolo 1 (SExchangeId 0 10); ESolo 2 (SCreateSession 1 3);
    ESolo 3 (SExchangeId 1 11); ESolo 4 (SCreateSession 4 6) ]
  ++ lock_shared 5 3 1 0 3072 ++ lock_shared 6 6 1 0 0.

Lemma p_locks_large_names :
  let st := reachable (mkConfig 4000 2 6) 1000 collide_events in
  st_panic st = false
  /\ map (fun p => map (fun k => (LS.lstart k, LS.lend k, LS.lowner k, LS.ltyp k)) (pf_locks p)) (st_pool st)
     = [[(0, 10, 2, LS.Shared); (0, 10, 1, LS.Shared)]]
  /\ p_locks [] (dump_of st) = "" /\ p_owner (dump_of st) = "".
Proof. vm_compute. repeat split; reflexivity. Qed.
