(* C18, opened-files pool: useCount of a pool entry = number of live
   open-owner files (of all clients) on that handle; the entry exists iff
   that number is positive.  Here: the invariant on views and its closure
   under the view transitions (and the closure of view well-formedness). *)
From VF Require Export Nfs41.Proofs2Abs.
Open Scope N_scope.

Definition lh (h : N) (o : voof) : bool := vo_live o && (vo_handle o =? h).
Definition v_live_on (h : N) (c : vcl) : Z := countz (lh h) (vc_oofs c).
Definition v_use (cls : list vcl) (h : N) : Z := sumz (v_live_on h) cls.
Definition puse (h : N) (pool : list pfile) : N :=
  match find_pfile h pool with Some p => pf_use p | None => 0 end.
Definition pmem (h : N) (pool : list pfile) : bool :=
  match find_pfile h pool with Some _ => true | None => false end.

Definition pool_ok (v : vstate) : Prop :=
  NoDup (map pf_handle (v_pool v))
  /\ forall h, Z.of_N (puse h (v_pool v)) = v_use (v_cls v) h
               /\ (pmem h (v_pool v) = true -> 0 < puse h (v_pool v)).

(* ---- the pool primitives ---------------------------------------------------- *)
Lemma find_pfile_set_locks : forall h' h lk pool,
  find_pfile h' (pool_set_locks h lk pool)
  = match find_pfile h' pool with
    | Some p => Some (if h' =? h then mkPfile (pf_handle p) (pf_use p) lk else p)
    | None => None
    end.
Proof.
  intros h' h lk pool. unfold pool_set_locks.
  destruct (find_pfile h pool) as [p|] eqn:Ef.
  - assert (Hp : pf_handle p = h) by (rewrite find_pfile_k in Ef; apply (kfind_key pf_handle) in Ef; exact Ef).
    rewrite find_pfile_k, upd_pfile_k.
    destruct (h' =? h) eqn:E.
    + apply N.eqb_eq in E. subst h'.
      replace h with (pf_handle (mkPfile h (pf_use p) lk)) at 1 by reflexivity.
      rewrite (kfind_kupd_same pf_handle (mkPfile h (pf_use p) lk) pool p) by (cbn; rewrite <- find_pfile_k; exact Ef).
      cbn [pf_handle]. rewrite Ef, Hp. reflexivity.
    + apply N.eqb_neq in E. rewrite (kfind_kupd_other pf_handle) by (cbn; exact E).
      rewrite <- find_pfile_k. destruct (find_pfile h' pool); reflexivity.
  - destruct (find_pfile h' pool) as [p'|] eqn:E'; [|reflexivity].
    destruct (h' =? h) eqn:E; [|reflexivity]. apply N.eqb_eq in E. subst h'. congruence.
Qed.

Lemma puse_set_locks : forall h' h lk pool, puse h' (pool_set_locks h lk pool) = puse h' pool.
Proof.
  intros. unfold puse. rewrite find_pfile_set_locks. destruct (find_pfile h' pool); [|reflexivity].
  destruct (h' =? h); reflexivity.
Qed.

Lemma pmem_set_locks : forall h' h lk pool, pmem h' (pool_set_locks h lk pool) = pmem h' pool.
Proof. intros. unfold pmem. rewrite find_pfile_set_locks. destruct (find_pfile h' pool); reflexivity. Qed.

Lemma handles_set_locks : forall h lk pool, map pf_handle (pool_set_locks h lk pool) = map pf_handle pool.
Proof.
  intros. unfold pool_set_locks. destruct (find_pfile h pool) as [p|] eqn:Ef; [|reflexivity].
  rewrite upd_pfile_k. apply (kupd_keys pf_handle).
Qed.

Lemma pool_locks_set_locks : forall h' h lk pool,
  pool_locks h' (pool_set_locks h lk pool)
  = if (h' =? h) && pmem h pool then lk else pool_locks h' pool.
Proof.
  intros. unfold pool_locks, pmem. rewrite find_pfile_set_locks.
  destruct (h' =? h) eqn:E.
  - apply N.eqb_eq in E. subst h'. destruct (find_pfile h pool); reflexivity.
  - destruct (find_pfile h' pool); reflexivity.
Qed.

Lemma puse_unlock_all : forall h' h ow pool, puse h' (unlock_all h ow pool) = puse h' pool.
Proof. intros. apply puse_set_locks. Qed.
Lemma pmem_unlock_all : forall h' h ow pool, pmem h' (unlock_all h ow pool) = pmem h' pool.
Proof. intros. apply pmem_set_locks. Qed.
Lemma handles_unlock_all : forall h ow pool, map pf_handle (unlock_all h ow pool) = map pf_handle pool.
Proof. intros. apply handles_set_locks. Qed.

Lemma find_pfile_open : forall h' h pool,
  find_pfile h' (pool_open h pool)
  = if h' =? h then Some (mkPfile h (puse h pool + 1) (pool_locks h pool))
    else find_pfile h' pool.
Proof.
  intros h' h pool. unfold pool_open, puse, pool_locks.
  destruct (find_pfile h pool) as [p|] eqn:Ef.
  - rewrite find_pfile_k, upd_pfile_k. destruct (h' =? h) eqn:E.
    + apply N.eqb_eq in E. subst h'.
      replace h with (pf_handle (mkPfile h (pf_use p + 1) (pf_locks p))) at 1 by reflexivity.
      rewrite (kfind_kupd_same pf_handle _ pool p) by (cbn; rewrite <- find_pfile_k; exact Ef). reflexivity.
    + apply N.eqb_neq in E. rewrite (kfind_kupd_other pf_handle) by (cbn; exact E). reflexivity.
  - rewrite find_pfile_k, (kfind_app pf_handle), <- find_pfile_k.
    destruct (h' =? h) eqn:E.
    + apply N.eqb_eq in E. subst h'. rewrite Ef. unfold kfind. cbn. rewrite N.eqb_refl. reflexivity.
    + destruct (find_pfile h' pool); [reflexivity|]. unfold kfind. cbn. rewrite N.eqb_sym, E. reflexivity.
Qed.

Lemma handles_open_nodup : forall h pool, NoDup (map pf_handle pool) -> NoDup (map pf_handle (pool_open h pool)).
Proof.
  intros h pool H. unfold pool_open. destruct (find_pfile h pool) as [p|] eqn:Ef.
  - rewrite upd_pfile_k. apply (kupd_nodup pf_handle). exact H.
  - rewrite map_app. cbn. apply NoDup_snoc; [exact H|].
    rewrite find_pfile_k in Ef. apply (kfind_none_notin pf_handle). exact Ef.
Qed.

Lemma find_pfile_close : forall h' h pool,
  find_pfile h' (fst (pool_close h pool))
  = if h' =? h then (if puse h pool <=? 1 then None
                     else Some (mkPfile h (N.pred (puse h pool)) (pool_locks h pool)))
    else find_pfile h' pool.
Proof.
  intros h' h pool. unfold pool_close, puse, pool_locks.
  destruct (find_pfile h pool) as [p|] eqn:Ef.
  - destruct (pf_use p <=? 1) eqn:E1; cbn [fst].
    + rewrite find_pfile_k, del_pfile_k. destruct (h' =? h) eqn:E.
      * apply N.eqb_eq in E. subst h'. apply (kfind_kdel_same pf_handle).
      * apply N.eqb_neq in E. rewrite (kfind_kdel_other pf_handle) by exact E. reflexivity.
    + rewrite find_pfile_k, upd_pfile_k. destruct (h' =? h) eqn:E.
      * apply N.eqb_eq in E. subst h'.
        replace h with (pf_handle (mkPfile h (N.pred (pf_use p)) (pf_locks p))) at 1 by reflexivity.
        rewrite (kfind_kupd_same pf_handle _ pool p) by (cbn; rewrite <- find_pfile_k; exact Ef). reflexivity.
      * apply N.eqb_neq in E. rewrite (kfind_kupd_other pf_handle) by (cbn; exact E). reflexivity.
  - cbn [fst]. destruct (h' =? h) eqn:E; [|reflexivity].
    apply N.eqb_eq in E. subst h'. rewrite Ef. reflexivity.
Qed.

Lemma handles_close_nodup : forall h pool, NoDup (map pf_handle pool) -> NoDup (map pf_handle (fst (pool_close h pool))).
Proof.
  intros h pool H. unfold pool_close. destruct (find_pfile h pool) as [p|]; [|exact H].
  destruct (pf_use p <=? 1); cbn [fst].
  - rewrite del_pfile_k. apply (kdel_nodup pf_handle). exact H.
  - rewrite upd_pfile_k. apply (kupd_nodup pf_handle). exact H.
Qed.

(* ---- the use count of the view ---------------------------------------------- *)
Lemma v_use_kupd : forall cls c c' h, NoDup (map vc_id cls) -> kfind vc_id (vc_id c') cls = Some c ->
  v_use (kupd vc_id c' cls) h = (v_use cls h - v_live_on h c + v_live_on h c')%Z.
Proof. intros. unfold v_use. apply (sumz_kupd vc_id); assumption. Qed.

Lemma v_live_on_kupd : forall h oofs o o', NoDup (map vo_other oofs) -> kfind vo_other (vo_other o') oofs = Some o ->
  countz (lh h) (kupd vo_other o' oofs) = (countz (lh h) oofs - b2z (lh h o) + b2z (lh h o'))%Z.
Proof. intros. apply (countz_kupd vo_other); assumption. Qed.

(* ---- view well-formedness is closed under the transitions ---------------------- *)
Lemma vwf_put : forall v c c' pool nextlo,
  vwf v -> kfind vc_id (vc_id c) (v_cls v) = Some c -> vc_id c' = vc_id c ->
  (NoDup (map vo_other (vc_oofs c'))
   /\ forall o, In o (vc_oofs c') -> NoDup (map vl_other (vo_lofs o)) /\ (vo_live o = false -> vo_lofs o = [])) ->
  vwf (vput v c' pool nextlo).
Proof.
  intros v c c' pool nextlo [W1 W2] Hf Hid Hc'. split.
  - cbn. apply (kupd_nodup vc_id). exact W1.
  - intros c2 Hc2. cbn in Hc2. apply (kupd_in vc_id) in Hc2. destruct Hc2 as [->|[Hc2 _]]; [exact Hc'|].
    apply W2. exact Hc2.
Qed.

Lemma vwf_client : forall v c, vwf v -> kfind vc_id (vc_id c) (v_cls v) = Some c ->
  NoDup (map vo_other (vc_oofs c))
  /\ forall o, In o (vc_oofs c) -> NoDup (map vl_other (vo_lofs o)) /\ (vo_live o = false -> vo_lofs o = []).
Proof. intros v c [_ W2] Hf. apply W2. eapply kfind_in; eauto. Qed.

Lemma vwf_oput : forall oofs o o',
  NoDup (map vo_other oofs) ->
  (forall x, In x oofs -> NoDup (map vl_other (vo_lofs x)) /\ (vo_live x = false -> vo_lofs x = [])) ->
  kfind vo_other (vo_other o) oofs = Some o -> vo_other o' = vo_other o ->
  NoDup (map vl_other (vo_lofs o')) -> (vo_live o' = false -> vo_lofs o' = []) ->
  NoDup (map vo_other (kupd vo_other o' oofs))
  /\ forall x, In x (kupd vo_other o' oofs) -> NoDup (map vl_other (vo_lofs x)) /\ (vo_live x = false -> vo_lofs x = []).
Proof.
  intros oofs o o' N1 N2 Hf Hid N3 N4. split; [apply (kupd_nodup vo_other); exact N1|].
  intros x Hx. apply (kupd_in vo_other) in Hx. destruct Hx as [->|[Hx _]]; [split; assumption|]. apply N2. exact Hx.
Qed.

Lemma vtr_vwf : forall Q a b, vwf a -> vtr Q a b -> vwf b.
Proof.
  intros Q a b W T. destruct T.
  - (* add *) destruct W as [W1 W2]. split.
    + cbn. rewrite map_app. cbn. apply NoDup_snoc; [exact W1|].
      intros Hin. apply in_map_iff in Hin. destruct Hin as [c [E Hc]]. exact (H c Hc E).
    + intros c Hc. cbn in Hc. apply in_app_or in Hc. destruct Hc as [Hc|[<-|[]]]; [apply W2; exact Hc|].
      cbn. split; [constructor|intros o []].
  - (* del *) destruct W as [W1 W2]. split.
    + cbn. apply (kdel_nodup vc_id). exact W1.
    + intros c2 Hc2. cbn in Hc2. apply (kdel_in vc_id) in Hc2. apply W2. tauto.
  - (* open *) destruct (vwf_client _ _ W H) as [N1 N2]. eapply vwf_put; eauto. cbn [vc_oofs]. split.
    + rewrite map_app. cbn. apply NoDup_snoc; [exact N1|].
      intros Hin. apply in_map_iff in Hin. destruct Hin as [o [E Ho]]. exact (H0 o Ho E).
    + intros o Ho. apply in_app_or in Ho. destruct Ho as [Ho|[<-|[]]]; [apply N2; exact Ho|].
      cbn. split; [constructor|discriminate].
  - (* rmlof *) destruct (vwf_client _ _ W H) as [N1 N2]. eapply vwf_put; eauto. cbn [vc_oofs].
    destruct (N2 o (kfind_in _ _ _ _ H0)) as [N3 _].
    eapply vwf_oput; eauto; cbn.
    + apply (kdel_nodup vl_other). exact N3.
    + discriminate.
  - (* close *) destruct (vwf_client _ _ W H) as [N1 N2]. eapply vwf_put; eauto. unfold cput. cbn [vc_oofs].
    eapply vwf_oput; eauto; cbn; try solve [constructor|reflexivity|auto].
  - (* set *) destruct (vwf_client _ _ W H) as [N1 N2]. eapply vwf_put; eauto. unfold cput. cbn [vc_oofs].
    destruct (N2 o (kfind_in _ _ _ _ H0)) as [N3 _].
    eapply vwf_oput; eauto; unfold oput; cbn.
    + apply (kupd_nodup vl_other). exact N3.
    + rewrite H1. discriminate.
Qed.

Lemma vlocknew_vwf : forall Q a b, vwf a -> vlocknew Q a b -> vwf b.
Proof.
  intros Q a b W T. destruct T.
  destruct (vwf_client _ _ W H) as [N1 N2]. eapply vwf_put; eauto. cbn [vc_oofs].
  destruct (N2 o (kfind_in _ _ _ _ H0)) as [N3 _].
  eapply vwf_oput; eauto; cbn.
  - rewrite map_app. cbn. apply NoDup_snoc; [exact N3|].
    intros Hin. apply in_map_iff in Hin. destruct Hin as [l [E Hl]]. exact (H2 l Hl E).
  - discriminate.
Qed.

Lemma vpath_vwf : forall Q a b, vpath Q a b -> vwf a -> vwf b.
Proof. intros Q. apply (vpath_inv Q vwf). intros a b W T. eapply vtr_vwf; eauto. Qed.

(* ---- the pool invariant is closed under the transitions -------------------------- *)
Lemma pool_ok_same_skeleton : forall v cls' pool' nextlo',
  pool_ok v ->
  (forall h, v_use cls' h = v_use (v_cls v) h) ->
  (forall h, puse h pool' = puse h (v_pool v)) -> (forall h, pmem h pool' = pmem h (v_pool v)) ->
  map pf_handle pool' = map pf_handle (v_pool v) ->
  pool_ok (mkV cls' pool' nextlo').
Proof.
  intros v cls' pool' nextlo' [P1 P2] Hu Hp Hm Hh. split; cbn [v_cls v_pool].
  - rewrite Hh. exact P1.
  - intros h. rewrite Hu, Hp, Hm. apply P2.
Qed.

Lemma live_on_put_same : forall h c o o',
  NoDup (map vo_other (vc_oofs c)) -> kfind vo_other (vo_other o) (vc_oofs c) = Some o ->
  vo_other o' = vo_other o -> vo_handle o' = vo_handle o -> vo_live o' = vo_live o ->
  forall lows, v_live_on h (mkVC (vc_id c) (kupd vo_other o' (vc_oofs c)) lows) = v_live_on h c.
Proof.
  intros h c o o' N1 Hf E1 E2 E3 lows. unfold v_live_on. cbn [vc_oofs].
  rewrite (v_live_on_kupd h (vc_oofs c) o o' N1) by (rewrite E1; exact Hf).
  unfold lh. rewrite E2, E3. lia.
Qed.

Lemma vtr_pool_ok : forall Q a b, vwf a -> pool_ok a -> vtr Q a b -> pool_ok b.
Proof.
  intros Q a b W P T. destruct T.
  - (* add *) eapply pool_ok_same_skeleton; eauto.
    intros h. unfold v_use. rewrite sumz_app. cbn. unfold v_live_on. cbn. unfold countz. cbn. lia.
  - (* del *) eapply pool_ok_same_skeleton; eauto.
    intros h. unfold v_use. rewrite (sumz_kdel vc_id (v_live_on h) (vc_id c) _ c (proj1 W) H).
    assert (Z0 : v_live_on h c = 0%Z).
    { unfold v_live_on. apply countz_false. intros o Ho. unfold lh. rewrite (H0 o Ho). reflexivity. }
    lia.
  - (* open *) destruct P as [P1 P2]. destruct (vwf_client _ _ W H) as [N1 _]. split; unfold vput; cbn [v_cls v_pool].
    + apply handles_open_nodup. exact P1.
    + intros h0. rewrite (v_use_kupd _ c _ h0 (proj1 W)) by (cbn; exact H).
      unfold puse, pmem. rewrite find_pfile_open. destruct (P2 h0) as [U1 U2].
      unfold v_live_on at 2. cbn [vc_oofs]. rewrite countz_app. unfold countz at 2. cbn [sumz]. unfold lh at 2. cbn [vo_live vo_handle andb].
      fold (v_live_on h0 c).
      destruct (h0 =? h) eqn:E.
      * apply N.eqb_eq in E. subst h0. rewrite N.eqb_refl. cbn [pf_use b2z]. split; [lia|intros _; lia].
      * rewrite N.eqb_sym, E. cbn [b2z]. fold (puse h0 (v_pool v)). fold (pmem h0 (v_pool v)). split; [lia|exact U2].
  - (* rmlof *) destruct (vwf_client _ _ W H) as [N1 _]. eapply pool_ok_same_skeleton; eauto.
    + intros h. rewrite (v_use_kupd _ c _ h (proj1 W)) by (cbn; exact H).
      rewrite (live_on_put_same h c o _ N1 H0) by (cbn; auto). lia.
    + intros h. destruct (unlock && _); [apply puse_unlock_all|reflexivity].
    + intros h. destruct (unlock && _); [apply pmem_unlock_all|reflexivity].
    + destruct (unlock && _); [apply handles_unlock_all|reflexivity].
  - (* close *) destruct P as [P1 P2]. destruct (vwf_client _ _ W H) as [N1 _]. split; unfold vput; cbn [v_cls v_pool].
    + apply handles_close_nodup. exact P1.
    + intros h0. rewrite (v_use_kupd _ c _ h0 (proj1 W)) by (cbn; exact H).
      unfold cput, v_live_on at 2. cbn [vc_oofs].
      rewrite (v_live_on_kupd h0 (vc_oofs c) o _ N1) by (cbn; exact H0).
      fold (v_live_on h0 c). unfold lh. cbn [vo_live vo_handle andb b2z]. rewrite H1. cbn [andb].
      unfold puse, pmem. rewrite find_pfile_close. destruct (P2 h0) as [U1 U2].
      destruct (h0 =? vo_handle o) eqn:E.
      * apply N.eqb_eq in E. subst h0. rewrite N.eqb_refl. cbn [b2z].
        (* the entry exists: the open-owner file being removed counts *)
        assert (Hpos : (1 <= v_use (v_cls v) (vo_handle o))%Z).
        { unfold v_use.
          assert (Hc : (v_live_on (vo_handle o) c <= sumz (v_live_on (vo_handle o)) (v_cls v))%Z).
          { apply (sumz_in_le (v_live_on (vo_handle o))); [intros y _; apply countz_nonneg|eapply kfind_in; eauto]. }
          assert (Ho : (1 <= v_live_on (vo_handle o) c)%Z).
          { unfold v_live_on. eapply countz_pos_in; [eapply kfind_in; eauto|]. unfold lh. rewrite H1, N.eqb_refl. reflexivity. }
          lia. }
        destruct (puse (vo_handle o) (v_pool v) <=? 1) eqn:E1.
        -- apply N.leb_le in E1. split; [lia|discriminate].
        -- apply N.leb_gt in E1. cbn [pf_use]. split; [lia|intros _; lia].
      * rewrite N.eqb_sym, E. cbn [b2z]. fold (puse h0 (v_pool v)). fold (pmem h0 (v_pool v)). split; [lia|exact U2].
  - (* set *) destruct (vwf_client _ _ W H) as [N1 _]. eapply pool_ok_same_skeleton; eauto.
    + intros h. rewrite (v_use_kupd _ c _ h (proj1 W)) by (cbn; exact H).
      unfold cput. rewrite (live_on_put_same h c o _ N1 H0) by (cbn; auto). lia.
    + intros h. apply puse_set_locks.
    + intros h. apply pmem_set_locks.
    + apply handles_set_locks.
Qed.

Lemma vlocknew_pool_ok : forall Q a b, vwf a -> pool_ok a -> vlocknew Q a b -> pool_ok b.
Proof.
  intros Q a b W P T. destruct T.
  destruct (vwf_client _ _ W H) as [N1 _]. eapply pool_ok_same_skeleton; eauto.
  - intros h. rewrite (v_use_kupd _ c _ h (proj1 W)) by (cbn; exact H).
    rewrite (live_on_put_same h c o _ N1 H0) by (cbn; auto). lia.
  - intros h. apply puse_set_locks.
  - intros h. apply pmem_set_locks.
  - apply handles_set_locks.
Qed.

Lemma vstep_pool_ok : forall Q a b, vwf a -> pool_ok a -> vstep Q a b -> pool_ok b /\ vwf b.
Proof.
  intros Q a b W P [m [Hp Hl]].
  assert (Hm : pool_ok m /\ vwf m).
  { clear Hl. induction Hp; [auto|]. apply IHHp; [eapply vtr_vwf; eauto|eapply vtr_pool_ok; eauto]. }
  destruct Hm as [Pm Wm]. destruct Hl as [<-|Hl]; [auto|].
  split; [eapply vlocknew_pool_ok; eauto|eapply vlocknew_vwf; eauto].
Qed.
