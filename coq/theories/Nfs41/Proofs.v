(* Proofs about the NFSv4.1 model: collected from the Proofs*.v files. *)
From VF Require Import Nfs41.Model Nfs41.Dump Nfs41.Spec.
Open Scope N_scope.

(* A history that reaches a non-trivial state: two clients, an open file
   with a lock, a request in flight with a duplicate waiting for it. *)
Definition cfg0 := mkConfig 2000 2 6.
Definition demo_events : list event :=
  [ ESolo 1 (SExchangeId 0 10); ESolo 2 (SCreateSession 1 3);
    ESeqBegin 3 3 0 1 true [OPutRootFH; OOpen 0 3 0 HowUnchecked (ClaimNull 1);
                            OLock 2 0 10 (LockerNew sid_current 1)];
    ESection 3 FsOk; ESection 3 (FsLeaf 1);
    ESeqBegin 4 3 0 1 true [OPutRootFH];
    ESection 3 FsOk; ESection 3 FsOk ].
