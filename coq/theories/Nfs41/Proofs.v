(* Proofs about the NFSv4.1 model: entry point collecting the Proofs*.v
   files, plus concrete reachable states used as non-vacuity examples. *)
From VF Require Export Nfs41.Model Nfs41.Dump Nfs41.Spec Nfs41.Corr.
From VF Require Export Nfs41.ProofsSeq Nfs41.ProofsThreads Nfs41.ProofsTheorems Nfs41.ProofsExpiry Nfs41.ProofsMonitor.
Open Scope N_scope.

(* A history that reaches a non-trivial state: a client with a session, an
   open file with a byte-range lock, a READ in flight on it (share
   reservation cloned), and a duplicate SEQUENCE waiting for the original. *)
Definition cfg0 := mkConfig 2000 2 6.
Definition demo_events : list event :=
  [ ESolo 1 (SExchangeId 0 10); ESolo 2 (SCreateSession 1 3);
    ESeqBegin 3 3 0 1 true [OPutRootFH; OOpen 0 3 0 HowUnchecked (ClaimNull 1);
                            OLock 2 0 10 (LockerNew sid_current 1); ORead sid_current];
    ESection 3 FsOk; ESection 3 (FsLeaf 1); ESection 3 FsOk; ESection 3 FsOk; ESection 3 FsOk;
    ESeqBegin 4 3 0 1 true [OPutRootFH] ].

(* ... and on to the end: the READ returns, the compound completes (both
   requests are answered), the client closes, its lease lapses. *)
Definition demo_events_end : list event :=
  demo_events ++
  [ ESection 3 FsOk; ESection 3 FsOk; ESection 3 FsOk;
    ESeqBegin 5 3 1 1 true [OPutFH 1; OClose (mkSid 0 1 0)];
    ESection 5 FsOk; ESection 5 FsOk; ESection 5 FsOk;
    EAdvance 5000; ESolo 6 (SBindConn 99 true) ].

(* The observation of a model state, as the harness would record it. *)
Definition obs_of (st : state) (outs : list out) : hstep :=
  mkHStep (HAdvance 0) [] [] [] (waiters_of st) [] (fst (apply_outs outs [] [])) (flight_of st) (dump_of st).
