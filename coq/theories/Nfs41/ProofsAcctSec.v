(* C18, accounting: the operations of a SEQUENCE compound, one by one. *)
From VF Require Export Nfs41.ProofsAcctOps Nfs41.ProofsAcctRemove.
Open Scope N_scope.

Section Ops.
  Variables (st : state) (t : thread) (c : client) (op0 : op) (rest : list op).
  Hypothesis I : acct_inv st.
  Hypothesis Ht : find_thread (t_id t) (st_threads st) = Some t.
  Hypothesis Hc : find_client (t_client t) (st_clients st) = Some c.
  Hypothesis Hops : t_ops t = op0 :: rest.

  Let Hcin : In c (st_clients st).
  Proof. rewrite find_client_k in Hc. apply kfind_some in Hc. tauto. Qed.
  Let Hcok : client_ok st c.
  Proof. destruct I as [_ [_ [Cok _]]]. apply Cok. exact Hcin. Qed.
  Let Htin : In t (st_threads st).
  Proof. rewrite find_thread_k in Ht. apply kfind_some in Ht. tauto. Qed.
  Let Htok : thread_ok st t.
  Proof. destruct I as [_ [_ [_ [Tok _]]]]. apply Tok. exact Htin. Qed.

  (* A section that only produces a result. *)
  Lemma done_goal : forall cfh sfh res,
    t_phase t = PhNone -> sec_goal st t rest (done st cfh sfh res).
  Proof.
    intros cfh sfh res Hph.
    eapply unchanged_goal with (c := c) (o := op0); eauto; try reflexivity; try exact Logic.I.
    all: try (intros cid other b; rewrite (next_thread_done_clones _ _ _ _ _ _ res) by reflexivity;
              symmetry; apply t_clones_none; rewrite Hph; exact Logic.I).
    all: try (intros h b; rewrite (next_thread_done_opens _ _ _ _ _ res) by reflexivity;
              rewrite t_opens_none by exact Hph; reflexivity).
  Qed.

  (* Same, when the file system was called (oracle consumed). *)
  Lemma done_fs_goal : forall cfh sfh res u,
    t_phase t = PhNone -> sec_goal st t rest (mkSec st cfh sfh (Done res) [] u).
  Proof.
    intros cfh sfh res u Hph.
    eapply unchanged_goal with (c := c) (o := op0); eauto; try reflexivity; try exact Logic.I.
    all: try (intros cid other b; rewrite (next_thread_done_clones _ _ _ _ _ _ res) by reflexivity;
              symmetry; apply t_clones_none; rewrite Hph; exact Logic.I).
    all: try (intros h b; rewrite (next_thread_done_opens _ _ _ _ _ res) by reflexivity;
              rewrite t_opens_none by exact Hph; reflexivity).
  Qed.

  (* Facts about an open-owner file of the client. *)
  Lemma oofs_facts : forall o, In o (c_oofs c) ->
    oofs_bounds c o /\ oofs_ok st (c_id c) o
    /\ find_oofs_any (of_other o) (c_oofs c) = Some o.
  Proof.
    intros o Hin. destruct Hcok as [N1 [O1 _]]. destruct (O1 o Hin) as [B S].
    split; [exact B|]. split; [exact S|]. apply in_find_oofs_any; assumption.
  Qed.

  Lemma phnone_no_clones : t_phase t = PhNone -> forall cid other b, t_clones cid other b t = false.
  Proof. intros Hph cid other b. apply t_clones_none. rewrite Hph. exact Logic.I. Qed.

  (* ---- OPEN_DOWNGRADE ------------------------------------------------------ *)
  Lemma op_open_downgrade_goal : forall s a d cfh sfh,
    t_phase t = PhNone -> sec_goal st t rest (op_open_downgrade s a d c st cfh sfh).
  Proof.
    intros s a d cfh sfh Hph. unfold op_open_downgrade.
    destruct (mask_of_N a) as [m|]; [|apply done_goal; exact Hph].
    destruct (get_oofs c cfh s true) as [[o|] stt] eqn:Eg; [|apply done_goal; exact Hph].
    destruct stt; [|apply done_goal; exact Hph].
    destruct (negb (m_empty (m_diff m (of_share o))) || negb (d =? 0)) eqn:Econd; [apply done_goal; exact Hph|].
    destruct Hcok as [N1 [O1 H1]].
    destruct (get_oofs_some _ _ _ _ _ _ N1 Eg) as [Hfo Hlive].
    assert (Hoin : In o (c_oofs c)) by (rewrite find_oofs_any_k in Hfo; apply kfind_some in Hfo; tauto).
    destruct (O1 o Hoin) as [[Hb1 Hb2] [S1 [S2 S3]]].
    apply Bool.orb_false_iff in Econd. destruct Econd as [Esub _].
    apply Bool.negb_false_iff in Esub.
    assert (Hsub : forall b, bit b m = true -> bit b (of_share o) = true).
    { intros b Hb. unfold m_empty, m_diff in Esub. cbn in Esub.
      destruct b; cbn [bit] in *; destruct (mr m), (mw m), (mr (of_share o)), (mw (of_share o)); cbn in *; congruence. }
    destruct (oofs_downgrade o (of_share o) m) as [[o1 outs] pn] eqn:Ed.
    assert (Hpos : forall b, bit b (m_diff (of_share o) m) = true -> 0 < cnt b o).
    { intros b Hb. specialize (S1 b). rewrite Hlive in S1.
      assert (bit b (of_share o) = true).
      { destruct b; cbn [bit m_diff mr mw] in *; apply Bool.andb_true_iff in Hb; tauto. }
      rewrite H in S1. cbn [andb b2z] in S1.
      pose proof (countz_nonneg (t_clones (c_id c) (of_other o) b) (st_threads st)).
      assert (0 <= lofs_bits b (of_lofs o))%Z by (apply sumz_nonneg; intros; apply b2z_01).
      unfold clones in S1. lia. }
    destruct (oofs_downgrade_spec _ _ _ _ _ _ Ed Hpos) as [-> [E1 [E2 [E3 [E4 [E5 [E6 [E7 [E8 E9]]]]]]]]].
    set (o2 := o_set o1 (incr_seq (of_seq o1)) m (of_readers o1) (of_writers o1) (of_lofs o1) (of_live o1)).
    set (c' := c_set_oofs c (upd_oofs o2 (c_oofs c))).
    set (res := RStateid OP_OPEN_DOWNGRADE (of_seq o2) (of_other o2)).
    match goal with |- sec_goal _ _ _ ?r0 => set (r := r0) end.
    assert (Hstep : sr_step r = Done res) by reflexivity.
    assert (G3 : c_other c <= c_other c') by (cbn; lia).
    assert (G4 : find_oofs_any (of_other o2) (c_oofs c) = Some o) by (subst o2; cbn [of_other o_set]; rewrite E1; exact Hfo).
    assert (G9 : of_handle o2 = of_handle o) by (subst o2; cbn; exact E4).
    assert (G10 : forall lf, In lf (of_lofs o2) -> lf_other lf <= c_other c')
      by (subst o2 c'; cbn [of_lofs o_set c_other c_set_oofs]; rewrite E6; exact Hb2).
    assert (G11 : forall other2 b, other2 <> of_other o2 ->
               t_clones (c_id c) other2 b (next_thread t rest r) = t_clones (c_id c) other2 b t).
    { intros other2 b _. rewrite (next_thread_done_clones _ _ _ _ _ _ res Hstep).
      symmetry. apply phnone_no_clones. exact Hph. }
    assert (G12 : forall b, Z.of_N (cnt b o2)
               = (b2z (of_live o2 && bit b (of_share o2)) + lofs_bits b (of_lofs o2)
                  + clones st (c_id c) (of_other o2) b
                  - b2z (t_clones (c_id c) (of_other o2) b t)
                  + b2z (t_clones (c_id c) (of_other o2) b (next_thread t rest r)))%Z).
    { intros b. rewrite (next_thread_done_clones _ _ _ _ _ _ res Hstep).
      rewrite phnone_no_clones by exact Hph.
      assert (Hcnt : cnt b o2 = cnt b o1) by (destruct b; reflexivity). rewrite Hcnt.
      subst o2. cbn [o_set of_live of_share of_lofs of_other].
      rewrite E8, E6, E7, E1, Hlive. specialize (S1 b). rewrite Hlive in S1. rewrite S1.
      pose proof (Hsub b) as Hs. cbn [andb b2z].
      destruct b; cbn [bit m_diff mr mw] in *;
        destruct (mr (of_share o)), (mw (of_share o)), (mr m), (mw m); cbn [andb negb b2z] in *;
        try lia; try (specialize (Hs eq_refl); discriminate). }
    assert (G13 : of_live o2 = false -> of_share o2 = m0 /\ of_lofs o2 = [])
      by (subst o2; cbn; rewrite E7, Hlive; discriminate).
    assert (G14 : NoDup (map lf_other (of_lofs o2))) by (subst o2; cbn [of_lofs o_set]; rewrite E6; exact S3).
    assert (G15 : forall h b, balance h b (sr_outs r)
               = (dind h b o o2 - b2z (t_opens h b t) + b2z (t_opens h b (next_thread t rest r)))%Z).
    { intros h b. subst r. cbn [sr_outs]. rewrite E9.
      rewrite (next_thread_done_opens _ _ _ _ _ res) by reflexivity.
      rewrite t_opens_none by exact Hph. unfold dind.
      assert (Hi : ind b o2 = ind b o1) by (subst o2; unfold ind; destruct b; reflexivity).
      rewrite Hi. cbn [b2z]. destruct (of_handle o =? h); lia. }
    exact (oofs_goal st t c c' o o2 op0 rest r I Ht Hc Hops eq_refl eq_refl G3 G4 eq_refl eq_refl eq_refl eq_refl
                     G9 G10 G11 G12 G13 G14 G15 Logic.I).
  Qed.
  (* Shorthands used by the operations below. *)
  Lemma S_of : forall o, In o (c_oofs c) ->
    forall b, Z.of_N (cnt b o) = (b2z (of_live o && bit b (of_share o)) + lofs_bits b (of_lofs o)
                                  + clones st (c_id c) (of_other o) b)%Z.
  Proof. intros o Hin. destruct (oofs_facts o Hin) as [_ [[S1 _] _]]. exact S1. Qed.

  Lemma clones_nonneg : forall cid other b, (0 <= clones st cid other b)%Z.
  Proof. intros. apply countz_nonneg. Qed.

  Lemma done_clones : forall r res cid other b,
    sr_step r = Done res -> t_clones cid other b (next_thread t rest r) = false.
  Proof. intros. eapply next_thread_done_clones; eauto. Qed.

  (* ---- CLOSE ------------------------------------------------------------------ *)
  Lemma op_close_goal : forall s cfh sfh,
    t_phase t = PhNone -> sec_goal st t rest (op_close s c st cfh sfh).
  Proof.
    intros s cfh sfh Hph. unfold op_close.
    destruct (get_oofs c cfh s true) as [[o|] stt] eqn:Eg; [|apply done_goal; exact Hph].
    destruct stt; [|apply done_goal; exact Hph].
    destruct Hcok as [N1 [O1 H1]].
    destruct (get_oofs_some _ _ _ _ _ _ N1 Eg) as [Hfo Hlive].
    assert (Hoin : In o (c_oofs c)) by (rewrite find_oofs_any_k in Hfo; apply kfind_some in Hfo; tauto).
    destruct (O1 o Hoin) as [[Hb1 Hb2] [S1 [S2 S3]]].
    destruct (oofs_remove o c (st_pool st)) as [[[c1 pool1] outs] pn] eqn:Er.
    assert (HS0 : forall b, Z.of_N (cnt b o) = (b2z (bit b (of_share o)) + lofs_bits b (of_lofs o)
                                              + clones st (c_id c) (of_other o) b)%Z).
    { intros b. rewrite (S1 b), Hlive. reflexivity. }
    destruct (oofs_remove_spec _ _ _ _ _ _ _ (fun b => clones st (c_id c) (of_other o) b) Er Hlive S3
                (fun b => clones_nonneg _ _ _) HS0)
      as [o3 [Q1 [Q2 [Q3 [Q4 [Q5 [Q6 [Q7 [Q8 [Q9 [Q10 Q11]]]]]]]]]]].
    set (res := RStatus OP_CLOSE NFS4_OK).
    match goal with |- sec_goal _ _ _ ?r0 => set (r := r0) end.
    assert (Hstep : sr_step r = Done res) by reflexivity.
    assert (G3 : c_other c <= c_other c1) by (rewrite Q4; lia).
    assert (G4 : find_oofs_any (of_other o3) (c_oofs c) = Some o) by (rewrite Q5; exact Hfo).
    assert (G10 : forall lf, In lf (of_lofs o3) -> lf_other lf <= c_other c1) by (rewrite Q9; intros lf []).
    assert (G11 : forall other2 b, other2 <> of_other o3 ->
               t_clones (c_id c) other2 b (next_thread t rest r) = t_clones (c_id c) other2 b t).
    { intros other2 b _. rewrite (done_clones r res) by exact Hstep. symmetry. apply phnone_no_clones. exact Hph. }
    assert (G12 : forall b, Z.of_N (cnt b o3)
               = (b2z (of_live o3 && bit b (of_share o3)) + lofs_bits b (of_lofs o3)
                  + clones st (c_id c) (of_other o3) b
                  - b2z (t_clones (c_id c) (of_other o3) b t)
                  + b2z (t_clones (c_id c) (of_other o3) b (next_thread t rest r)))%Z).
    { intros b. rewrite (done_clones r res) by exact Hstep. rewrite phnone_no_clones by exact Hph.
      rewrite Q10, Q7, Q9, Q5. cbn. lia. }
    assert (G13 : of_live o3 = false -> of_share o3 = m0 /\ of_lofs o3 = []) by (intros _; auto).
    assert (G14 : NoDup (map lf_other (of_lofs o3))) by (rewrite Q9; constructor).
    assert (G15 : forall h b, balance h b (sr_outs r)
               = (dind h b o o3 - b2z (t_opens h b t) + b2z (t_opens h b (next_thread t rest r)))%Z).
    { intros h b. subst r. cbn [sr_outs]. rewrite Q11.
      rewrite (next_thread_done_opens _ _ _ _ _ res) by reflexivity.
      rewrite t_opens_none by exact Hph. cbn [b2z]. lia. }
    exact (oofs_goal st t c c1 o o3 op0 rest r I Ht Hc Hops Q2 Q3 G3 G4 Q1 eq_refl eq_refl eq_refl
                     Q6 G10 G11 G12 G13 G14 G15 Logic.I).
  Qed.

  (* ---- FREE_STATEID ----------------------------------------------------------- *)
  Lemma lofs_member_bits : forall b lf l, In lf l -> (b2z (bit b (lf_share lf)) <= lofs_bits b l)%Z.
  Proof.
    intros b lf l Hin. unfold lofs_bits.
    apply (sumz_in_le (fun x => b2z (bit b (lf_share x)))); [|exact Hin]. intros. apply b2z_01.
  Qed.

  Lemma op_free_stateid_goal : forall s cfh sfh,
    t_phase t = PhNone -> sec_goal st t rest (op_free_stateid s c st cfh sfh).
  Proof.
    intros s cfh sfh Hph. unfold op_free_stateid.
    destruct (negb (s_hi s =? 0)); [apply done_goal; exact Hph|].
    destruct (find_lofs (s_lo s) (c_oofs c)) as [[o lf]|] eqn:Ef; [|apply done_goal; exact Hph].
    destruct (negb (compare_seq (s_seq s) (lf_seq lf) =? NFS4_OK)); [apply done_goal; exact Hph|].
    destruct (0 <? lf_count lf)%Z; [apply done_goal; exact Hph|].
    destruct (find_lofs_some _ _ _ _ Ef) as [Hoin [Hlive [Hlfin _]]].
    destruct (oofs_facts o Hoin) as [[Hb1 Hb2] [[S1 [S2 S3]] Hfo]].
    destruct (lofs_remove_all false [lf] o (c_lowners c) (st_pool st)) as [[[[o1 lows] pool1] outs] pn] eqn:Er.
    assert (Hpos : forall b, bit b (lf_share lf) = true -> 0 < cnt b o).
    { intros b Hb. specialize (S1 b). pose proof (lofs_member_bits b lf _ Hlfin) as Hm. rewrite Hb in Hm.
      cbn [b2z] in Hm. pose proof (clones_nonneg (c_id c) (of_other o) b).
      pose proof (b2z_01 (of_live o && bit b (of_share o))). lia. }
    destruct (lofs_remove_one_spec _ _ _ _ _ _ _ _ _ _ Er Hlfin S3 Hpos)
      as [[I1 [I2 [I3 [I4 [I5 I6]]]]] [Hl1 [Hc1 Hbal1]]].
    set (c' := c_set_lowners (c_set_oofs c (upd_oofs o1 (c_oofs c))) lows).
    set (res := RStatus OP_FREE_STATEID NFS4_OK).
    match goal with |- sec_goal _ _ _ ?r0 => set (r := r0) end.
    assert (Hstep : sr_step r = Done res) by reflexivity.
    assert (G3 : c_other c <= c_other c') by (cbn; lia).
    assert (G4 : find_oofs_any (of_other o1) (c_oofs c) = Some o) by (rewrite I1; exact Hfo).
    assert (G10 : forall x, In x (of_lofs o1) -> lf_other x <= c_other c').
    { intros x Hx. rewrite Hl1 in Hx. apply del_lofs_in in Hx. cbn. auto. }
    assert (G11 : forall other2 b, other2 <> of_other o1 ->
               t_clones (c_id c) other2 b (next_thread t rest r) = t_clones (c_id c) other2 b t).
    { intros other2 b _. rewrite (done_clones r res) by exact Hstep. symmetry. apply phnone_no_clones. exact Hph. }
    assert (G12 : forall b, Z.of_N (cnt b o1)
               = (b2z (of_live o1 && bit b (of_share o1)) + lofs_bits b (of_lofs o1)
                  + clones st (c_id c) (of_other o1) b
                  - b2z (t_clones (c_id c) (of_other o1) b t)
                  + b2z (t_clones (c_id c) (of_other o1) b (next_thread t rest r)))%Z).
    { intros b. rewrite (done_clones r res) by exact Hstep. rewrite phnone_no_clones by exact Hph.
      rewrite Hc1, Hl1, I6, I5, I1, (S1 b). rewrite lofs_bits_del by assumption. cbn [b2z]. lia. }
    assert (G13 : of_live o1 = false -> of_share o1 = m0 /\ of_lofs o1 = []) by (rewrite I6, Hlive; discriminate).
    assert (G14 : NoDup (map lf_other (of_lofs o1))) by (rewrite Hl1; apply del_lofs_nodup; exact S3).
    assert (G15 : forall h b, balance h b (sr_outs r)
               = (dind h b o o1 - b2z (t_opens h b t) + b2z (t_opens h b (next_thread t rest r)))%Z).
    { intros h b. subst r. cbn [sr_outs]. rewrite Hbal1.
      rewrite (next_thread_done_opens _ _ _ _ _ res) by reflexivity.
      rewrite t_opens_none by exact Hph. cbn [b2z]. lia. }
    exact (oofs_goal st t c c' o o1 op0 rest r I Ht Hc Hops eq_refl eq_refl G3 G4 eq_refl eq_refl eq_refl eq_refl
                     I4 G10 G11 G12 G13 G14 G15 Logic.I).
  Qed.

  (* ---- LOCK / LOCKU: a lock-owner file changes (not its share reservation) ---- *)
  Lemma nodup_other_eq : forall (l : list lofile) x y,
    NoDup (map lf_other l) -> In x l -> In y l -> lf_other x = lf_other y -> x = y.
  Proof.
    induction l as [|z l IH]; intros x y Hnd Hx Hy E; [contradiction|].
    cbn in Hnd. inversion Hnd as [|? ? Hni Hnd']; subst.
    destruct Hx as [->|Hx], Hy as [->|Hy]; auto.
    - exfalso. apply Hni. rewrite E. apply in_map. exact Hy.
    - exfalso. apply Hni. rewrite <- E. apply in_map. exact Hx.
  Qed.

  Lemma lofs_update_goal : forall r res o o2 lf lf1 c1,
    t_phase t = PhNone ->
    In o (c_oofs c) -> In lf (of_lofs o) ->
    st_clients (sr_st r) = upd_client c1 (st_clients st) ->
    c_oofs c1 = upd_oofs o2 (c_oofs c) ->
    of_lofs o2 = upd_lofs lf1 (of_lofs o) ->
    sr_step r = Done res ->
    lf_other lf1 = lf_other lf -> lf_share lf1 = lf_share lf ->
    of_other o2 = of_other o -> of_handle o2 = of_handle o -> of_share o2 = of_share o ->
    of_live o2 = of_live o -> of_readers o2 = of_readers o -> of_writers o2 = of_writers o ->
    c_id c1 = c_id c -> c_hold c1 = c_hold c -> c_other c1 = c_other c ->
    st_threads (sr_st r) = st_threads st -> st_idle (sr_st r) = st_idle st ->
    sr_outs r = [] ->
    sec_goal st t rest r.
  Proof.
    intros r res o o2 lf lf1 c1 Hph Hoin Hlfin R1 C4 E7 Hstep Elo Els E1 E2 E3 E4 E5 E6 C1 C2 C3 R2 R3 Houts.
    destruct (oofs_facts o Hoin) as [[Hb1 Hb2] [[S1 [S2 S3]] Hfo]].
    assert (Hcnt : forall b, cnt b o2 = cnt b o) by (intros []; cbn [cnt]; congruence).
    assert (G3 : c_other c <= c_other c1) by (rewrite C3; lia).
    assert (G4 : find_oofs_any (of_other o2) (c_oofs c) = Some o) by (rewrite E1; exact Hfo).
    assert (G10 : forall x, In x (of_lofs o2) -> lf_other x <= c_other c1).
    { intros x Hx. rewrite E7 in Hx. apply upd_lofs_in in Hx. rewrite C3.
      destruct Hx as [->|Hx]; [rewrite Elo|]; auto. }
    assert (G11 : forall other2 b, other2 <> of_other o2 ->
               t_clones (c_id c) other2 b (next_thread t rest r) = t_clones (c_id c) other2 b t).
    { intros other2 b _. rewrite (done_clones r res) by exact Hstep. symmetry. apply phnone_no_clones. exact Hph. }
    assert (Hbits : forall b, lofs_bits b (of_lofs o2) = lofs_bits b (of_lofs o)).
    { intros b. rewrite E7. apply lofs_bits_upd. intros x Hx Ex. rewrite Els.
      f_equal. eapply nodup_other_eq; eauto. congruence. }
    assert (G12 : forall b, Z.of_N (cnt b o2)
               = (b2z (of_live o2 && bit b (of_share o2)) + lofs_bits b (of_lofs o2)
                  + clones st (c_id c) (of_other o2) b
                  - b2z (t_clones (c_id c) (of_other o2) b t)
                  + b2z (t_clones (c_id c) (of_other o2) b (next_thread t rest r)))%Z).
    { intros b. rewrite (done_clones r res) by exact Hstep. rewrite phnone_no_clones by exact Hph.
      rewrite Hcnt, Hbits, E4, E3, E1, (S1 b). cbn [b2z]. lia. }
    assert (G13 : of_live o2 = false -> of_share o2 = m0 /\ of_lofs o2 = []).
    { intros Hd. rewrite E4 in Hd. destruct (S2 Hd) as [_ Hnil]. rewrite Hnil in Hlfin. contradiction. }
    assert (G14 : NoDup (map lf_other (of_lofs o2))) by (rewrite E7, upd_lofs_others; exact S3).
    assert (G15 : forall h b, balance h b (sr_outs r)
               = (dind h b o o2 - b2z (t_opens h b t) + b2z (t_opens h b (next_thread t rest r)))%Z).
    { intros h b. rewrite Houts. rewrite (next_thread_done_opens _ _ _ _ _ res) by exact Hstep.
      rewrite t_opens_none by exact Hph. unfold dind, ind. rewrite Hcnt. cbn.
      destruct (of_handle o =? h); lia. }
    exact (oofs_goal st t c c1 o o2 op0 rest r I Ht Hc Hops C1 C2 G3 G4 C4 R1 R2 R3
                     E2 G10 G11 G12 G13 G14 G15 ltac:(rewrite Hstep; exact Logic.I)).
  Qed.

  Lemma op_locku_goal : forall s off len cfh sfh,
    t_phase t = PhNone -> sec_goal st t rest (op_locku s off len c st cfh sfh).
  Proof.
    intros s off len cfh sfh Hph. unfold op_locku.
    destruct (get_lofs c cfh s) as [[[o lf]|] stt] eqn:Eg; [|apply done_goal; exact Hph].
    destruct stt; [|apply done_goal; exact Hph].
    destruct (LS.offset_length_to_start_end off len) as [[s0 e0]|]; [|apply done_goal; exact Hph].
    destruct (get_lofs_some _ _ _ _ _ _ Eg) as [Hoin [Hlive Hlfin]].
    eapply (lofs_update_goal _ _ o _ lf _ _ Hph Hoin Hlfin); reflexivity.
  Qed.

  (* LOCK creating a lock-owner file: the share reservation is cloned. *)
  Lemma lock_new_goal : forall r res o o2 lf1 c1 lows,
    t_phase t = PhNone ->
    In o (c_oofs c) -> of_live o = true ->
    st_clients (sr_st r) = upd_client c1 (st_clients st) ->
    c1 = c_set_other (c_set_lowners (c_set_oofs c (upd_oofs o2 (c_oofs c))) lows) (c_other c + 1) ->
    of_lofs o2 = of_lofs o ++ [lf1] ->
    sr_step r = Done res ->
    lf_other lf1 = c_other c + 1 -> lf_share lf1 = of_share o ->
    of_other o2 = of_other o -> of_handle o2 = of_handle o -> of_share o2 = of_share o ->
    of_live o2 = of_live o ->
    of_readers o2 = (if mr (of_share o) then of_readers o + 1 else of_readers o) ->
    of_writers o2 = (if mw (of_share o) then of_writers o + 1 else of_writers o) ->
    st_threads (sr_st r) = st_threads st -> st_idle (sr_st r) = st_idle st ->
    sr_outs r = [] ->
    sec_goal st t rest r.
  Proof.
    intros r res o o2 lf1 c1 lows Hph Hoin Hlive R1 C1 E7 Hstep Elo Els E1 E2 E3 E4 E5 E6 R2 R3 Houts.
    destruct (oofs_facts o Hoin) as [[Hb1 Hb2] [[S1 [S2 S3]] Hfo]].
    assert (Hcnt : forall b, Z.of_N (cnt b o2) = (Z.of_N (cnt b o) + b2z (bit b (of_share o)))%Z).
    { intros []; cbn [cnt bit]; [rewrite E5|rewrite E6].
      - destruct (mr (of_share o)); cbn [b2z]; lia.
      - destruct (mw (of_share o)); cbn [b2z]; lia. }
    assert (Hpos : forall b, bit b (of_share o) = true -> 0 < cnt b o).
    { intros b Hb. specialize (S1 b). rewrite Hlive, Hb in S1. cbn [andb b2z] in S1.
      pose proof (lofs_bits_nonneg b (of_lofs o)). pose proof (clones_nonneg (c_id c) (of_other o) b). lia. }
    assert (G3 : c_other c <= c_other c1) by (subst c1; cbn; lia).
    assert (G4 : find_oofs_any (of_other o2) (c_oofs c) = Some o) by (rewrite E1; exact Hfo).
    assert (G10 : forall x, In x (of_lofs o2) -> lf_other x <= c_other c1).
    { intros x Hx. rewrite E7 in Hx. subst c1. cbn [c_other c_set_other]. apply in_app_or in Hx.
      destruct Hx as [Hx|[<-|[]]]; [specialize (Hb2 x Hx)|]; lia. }
    assert (G11 : forall other2 b, other2 <> of_other o2 ->
               t_clones (c_id c) other2 b (next_thread t rest r) = t_clones (c_id c) other2 b t).
    { intros other2 b _. rewrite (done_clones r res) by exact Hstep. symmetry. apply phnone_no_clones. exact Hph. }
    assert (G12 : forall b, Z.of_N (cnt b o2)
               = (b2z (of_live o2 && bit b (of_share o2)) + lofs_bits b (of_lofs o2)
                  + clones st (c_id c) (of_other o2) b
                  - b2z (t_clones (c_id c) (of_other o2) b t)
                  + b2z (t_clones (c_id c) (of_other o2) b (next_thread t rest r)))%Z).
    { intros b. rewrite (done_clones r res) by exact Hstep. rewrite phnone_no_clones by exact Hph.
      rewrite Hcnt, E7, E4, E3, E1, (S1 b). unfold lofs_bits. rewrite sumz_app. cbn [sumz].
      rewrite Els. cbn [b2z]. lia. }
    assert (G13 : of_live o2 = false -> of_share o2 = m0 /\ of_lofs o2 = []) by (rewrite E4, Hlive; discriminate).
    assert (G14 : NoDup (map lf_other (of_lofs o2))).
    { rewrite E7, map_app. cbn. apply NoDup_snoc; [exact S3|]. rewrite Elo. intros Hin.
      apply in_map_iff in Hin. destruct Hin as [x [Ex Hx]]. specialize (Hb2 x Hx). lia. }
    assert (G15 : forall h b, balance h b (sr_outs r)
               = (dind h b o o2 - b2z (t_opens h b t) + b2z (t_opens h b (next_thread t rest r)))%Z).
    { intros h b. rewrite Houts. rewrite (next_thread_done_opens _ _ _ _ _ res) by exact Hstep.
      rewrite t_opens_none by exact Hph. unfold dind, ind.
      assert (Hi : (0 <? cnt b o2) = (0 <? cnt b o)).
      { specialize (Hcnt b). destruct (bit b (of_share o)) eqn:Eb.
        - specialize (Hpos b Eb). cbn [b2z] in Hcnt.
          assert (0 <? cnt b o2 = true) by (apply N.ltb_lt; lia).
          assert (0 <? cnt b o = true) by (apply N.ltb_lt; lia). congruence.
        - cbn [b2z] in Hcnt. assert (cnt b o2 = cnt b o) by lia. congruence. }
      rewrite Hi. cbn. destruct (of_handle o =? h); lia. }
    assert (C1' : c_id c1 = c_id c) by (subst c1; reflexivity).
    assert (C2' : c_hold c1 = c_hold c) by (subst c1; reflexivity).
    assert (C4' : c_oofs c1 = upd_oofs o2 (c_oofs c)) by (subst c1; reflexivity).
    exact (oofs_goal st t c c1 o o2 op0 rest r I Ht Hc Hops C1' C2' G3 G4 C4' R1 R2 R3
                     E2 G10 G11 G12 G13 G14 G15 ltac:(rewrite Hstep; exact Logic.I)).
  Qed.

  Lemma op_lock_run_goal : forall lt off len cfh sfh o lfo oid reg,
    t_phase t = PhNone -> In o (c_oofs c) -> of_live o = true ->
    (forall lf, lfo = Some lf -> In lf (of_lofs o)) ->
    sec_goal st t rest (op_lock_run lt off len c st cfh sfh o lfo oid reg).
  Proof.
    intros lt off len cfh sfh o lfo oid reg Hph Hoin Hlive Hlfo. unfold op_lock_run.
    destruct (LS.offset_length_to_start_end off len) as [[s0 e0]|]; [|apply done_goal; exact Hph].
    destruct (lock_type lt) as [ty|]; [|apply done_goal; exact Hph].
    destruct (LS.test _ _); [apply done_goal; exact Hph|].
    assert (Hupd : forall lf0 lf1, lf_other lf0 = c_other c + 1 -> lf_other lf1 = lf_other lf0 ->
               upd_lofs lf1 (of_lofs o ++ [lf0]) = of_lofs o ++ [lf1]).
    { intros lf0 lf1 E0 E1. unfold upd_lofs. rewrite map_app. cbn [map]. rewrite E1, N.eqb_refl. f_equal.
      destruct (oofs_facts o Hoin) as [[_ Hb2] _].
      rewrite <- (map_id (of_lofs o)) at 2. apply map_ext_in. intros a Ha.
      destruct (lf_other a =? lf_other lf0) eqn:E; [|reflexivity].
      apply N.eqb_eq in E. specialize (Hb2 a Ha). lia. }
    destruct reg as [x|]; destruct lfo as [lf|]; lazy beta iota zeta.
    - eapply (lofs_update_goal _ _ o _ lf _ _ Hph Hoin (Hlfo lf eq_refl)); reflexivity.
    - unfold sc_clone. lazy beta iota zeta.
      eapply (lock_new_goal _ _ o _ _ _ _ Hph Hoin Hlive);
        [reflexivity|reflexivity|cbn [of_lofs o_set]; apply Hupd; reflexivity|reflexivity..].
    - eapply (lofs_update_goal _ _ o _ lf _ _ Hph Hoin (Hlfo lf eq_refl)); reflexivity.
    - unfold sc_clone. lazy beta iota zeta.
      eapply (lock_new_goal _ _ o _ _ _ _ Hph Hoin Hlive);
        [reflexivity|reflexivity|cbn [of_lofs o_set]; apply Hupd; reflexivity|reflexivity..].
  Qed.

  Lemma op_lock_goal : forall lt off len lk cfh sfh,
    t_phase t = PhNone -> sec_goal st t rest (op_lock lt off len lk c st cfh sfh).
  Proof.
    intros lt off len lk cfh sfh Hph. unfold op_lock. destruct Hcok as [N1 _].
    destruct lk as [osid key|lsid].
    - destruct (get_oofs c cfh osid false) as [[o|] stt] eqn:Eg; [|apply done_goal; exact Hph].
      destruct stt; [|apply done_goal; exact Hph].
      destruct (get_oofs_some _ _ _ _ _ _ N1 Eg) as [Hfo Hlive].
      assert (Hoin : In o (c_oofs c)) by (rewrite find_oofs_any_k in Hfo; apply kfind_some in Hfo; tauto).
      destruct (find_lowner_key key (c_lowners c)) as [x|].
      + apply op_lock_run_goal; auto. intros lf Hf. apply find_some in Hf. tauto.
      + apply op_lock_run_goal; auto. intros lf Hf. discriminate.
    - destruct (get_lofs c cfh lsid) as [[[o lf]|] stt] eqn:Eg; [|apply done_goal; exact Hph].
      destruct stt; [|apply done_goal; exact Hph].
      destruct (get_lofs_some _ _ _ _ _ _ Eg) as [Hoin [Hlive Hlfin]].
      apply op_lock_run_goal; auto. intros lf0 Hf. injection Hf as <-. exact Hlfin.
  Qed.

  (* ---- READ / WRITE / SETATTR with a regular state ID --------------------------- *)
  Lemma mask_sub_bit : forall m sa b, m_empty (m_diff m sa) = true -> bit b m = true -> bit b sa = true.
  Proof.
    intros [r w] [r' w'] b H Hb. unfold m_empty, m_diff in H.
    destruct r, w, r', w', b; cbn in *; congruence.
  Qed.

  Lemma io_clone_goal : forall m o cfh sfh,
    t_phase t = PhNone -> In o (c_oofs c) -> m_empty m = false ->
    (forall b, bit b m = true -> 0 < cnt b o) ->
    sec_goal st t rest
      (let '(rd, wr, pn) := sc_clone (of_readers o) (of_writers o) m in
       let o' := o_set o (of_seq o) (of_share o) rd wr (of_lofs o) (of_live o) in
       mkSec (add_panic (with_client st (c_id c) (c_set_oofs c (upd_oofs o' (c_oofs c)))) pn)
             cfh sfh (Pending (PhIoReg (of_other o) (of_handle o) m)) [] FsNone).
  Proof.
    intros m o cfh sfh Hph Hoin Hm Hpos. unfold sc_clone. lazy beta iota zeta.
    destruct (oofs_facts o Hoin) as [[Hb1 Hb2] [[S1 [S2 S3]] Hfo]].
    set (o' := o_set o (of_seq o) (of_share o) (if mr m then of_readers o + 1 else of_readers o)
                     (if mw m then of_writers o + 1 else of_writers o) (of_lofs o) (of_live o)).
    set (c' := c_set_oofs c (upd_oofs o' (c_oofs c))).
    match goal with |- sec_goal _ _ _ ?r0 => set (r := r0) end.
    assert (Hcidt : c_id c = t_client t) by (rewrite find_client_k in Hc; apply kfind_some in Hc; tauto).
    assert (Hcnt : forall b, Z.of_N (cnt b o') = (Z.of_N (cnt b o) + b2z (bit b m))%Z).
    { intros []; subst o'; cbn [cnt bit o_set of_readers of_writers].
      - destruct (mr m); cbn [b2z]; lia.
      - destruct (mw m); cbn [b2z]; lia. }
    assert (Hnt : forall other2 b, t_clones (c_id c) other2 b (next_thread t rest r)
                                   = (of_other o =? other2) && bit b m).
    { intros other2 b. unfold t_clones, next_thread. subst r. cbn [sr_step t_client t_phase].
      rewrite Hcidt, N.eqb_refl. reflexivity. }
    assert (Hno : forall h b, t_opens h b (next_thread t rest r) = false) by reflexivity.
    assert (G3 : c_other c <= c_other c') by (cbn; lia).
    assert (G11 : forall other2 b, other2 <> of_other o' ->
               t_clones (c_id c) other2 b (next_thread t rest r) = t_clones (c_id c) other2 b t).
    { intros other2 b Hne. rewrite Hnt. rewrite phnone_no_clones by exact Hph.
      assert (E : of_other o =? other2 = false) by (apply N.eqb_neq; intros E; apply Hne; symmetry; exact E).
      rewrite E. reflexivity. }
    assert (G12 : forall b, Z.of_N (cnt b o')
               = (b2z (of_live o' && bit b (of_share o')) + lofs_bits b (of_lofs o')
                  + clones st (c_id c) (of_other o') b
                  - b2z (t_clones (c_id c) (of_other o') b t)
                  + b2z (t_clones (c_id c) (of_other o') b (next_thread t rest r)))%Z).
    { intros b. rewrite Hnt. rewrite phnone_no_clones by exact Hph. rewrite Hcnt.
      subst o'. cbn [of_live of_share of_lofs of_other o_set]. rewrite N.eqb_refl. cbn [andb b2z].
      rewrite (S1 b). lia. }
    assert (G15 : forall h b, balance h b (sr_outs r)
               = (dind h b o o' - b2z (t_opens h b t) + b2z (t_opens h b (next_thread t rest r)))%Z).
    { intros h b. rewrite Hno. rewrite t_opens_none by exact Hph. subst r. cbn [sr_outs balance b2z].
      unfold dind, ind. destruct (of_handle o =? h); [|reflexivity].
      specialize (Hcnt b). destruct (bit b m) eqn:Eb; cbn [b2z] in Hcnt.
      - specialize (Hpos b Eb).
        assert (H1 : 0 <? cnt b o' = true) by (apply N.ltb_lt; lia).
        assert (H2 : 0 <? cnt b o = true) by (apply N.ltb_lt; lia). rewrite H1, H2. reflexivity.
      - assert (H1 : cnt b o' = cnt b o) by lia. rewrite H1. lia. }
    exact (oofs_goal st t c c' o o' op0 rest r I Ht Hc Hops eq_refl eq_refl G3 Hfo eq_refl eq_refl eq_refl eq_refl
                     eq_refl Hb2 G11 G12 S2 S3 G15 (conj eq_refl (conj eq_refl Hm))).
  Qed.

  Lemma io_begin_goal : forall opnum m s cfh sfh,
    t_phase t = PhNone -> m_empty m = false ->
    sec_goal st t rest (io_begin opnum m s c st cfh sfh).
  Proof.
    intros opnum m s cfh sfh Hph Hm. unfold io_begin. destruct Hcok as [N1 _].
    destruct (get_oofs c cfh s false) as [[o|] stt] eqn:Eg.
    - destruct stt.
      + destruct (get_oofs_some _ _ _ _ _ _ N1 Eg) as [Hfo Hlive].
        assert (Hoin : In o (c_oofs c)) by (rewrite find_oofs_any_k in Hfo; apply kfind_some in Hfo; tauto).
        destruct (m_empty (m_diff m (of_share o))) eqn:Esub; [|apply done_goal; exact Hph].
        apply io_clone_goal; auto.
        intros b Hb. pose proof (S_of o Hoin b) as S1. rewrite Hlive, (mask_sub_bit _ _ _ Esub Hb) in S1.
        cbn [andb b2z] in S1. pose proof (lofs_bits_nonneg b (of_lofs o)).
        pose proof (clones_nonneg (c_id c) (of_other o) b). lia.
      + destruct (N.pos p =? ERR_BAD_STATEID); [|apply done_goal; exact Hph].
        destruct (get_lofs c cfh s) as [[[o2 lf]|] stt2] eqn:Eg2; [|apply done_goal; exact Hph].
        destruct stt2; [|apply done_goal; exact Hph].
        destruct (get_lofs_some _ _ _ _ _ _ Eg2) as [Hoin [Hlive Hlfin]].
        destruct (m_empty (m_diff m (lf_share lf))) eqn:Esub; [|apply done_goal; exact Hph].
        apply io_clone_goal; auto.
        intros b Hb. pose proof (S_of o2 Hoin b) as S1.
        pose proof (lofs_member_bits b lf _ Hlfin) as Hmb. rewrite (mask_sub_bit _ _ _ Esub Hb) in Hmb.
        cbn [b2z] in Hmb. pose proof (b2z_01 (of_live o2 && bit b (of_share o2))).
        pose proof (clones_nonneg (c_id c) (of_other o2) b). lia.
    - destruct (stt =? ERR_BAD_STATEID); [|apply done_goal; exact Hph].
      destruct (get_lofs c cfh s) as [[[o2 lf]|] stt2] eqn:Eg2; [|apply done_goal; exact Hph].
      destruct stt2; [|apply done_goal; exact Hph].
      destruct (get_lofs_some _ _ _ _ _ _ Eg2) as [Hoin [Hlive Hlfin]].
      destruct (m_empty (m_diff m (lf_share lf))) eqn:Esub; [|apply done_goal; exact Hph].
      apply io_clone_goal; auto.
      intros b Hb. pose proof (S_of o2 Hoin b) as S1.
      pose proof (lofs_member_bits b lf _ Hlfin) as Hmb. rewrite (mask_sub_bit _ _ _ Esub Hb) in Hmb.
      cbn [b2z] in Hmb. pose proof (b2z_01 (of_live o2 && bit b (of_share o2))).
      pose proof (clones_nonneg (c_id c) (of_other o2) b). lia.
  Qed.

  (* The I/O itself: nothing changes but the phase. *)
  Lemma io_mid_goal : forall other h m cfh sfh stt,
    t_phase t = PhIoReg other h m ->
    sec_goal st t rest (mkSec st cfh sfh (Pending (PhIoRegDone other h m stt)) [] FsCall).
  Proof.
    intros other h m cfh sfh stt Hph.
    eapply unchanged_goal with (c := c) (o := op0); eauto; try reflexivity; try exact Logic.I.
    all: try (intros cid other2 b; unfold t_clones, next_thread; cbn [sr_step t_client t_phase]; rewrite Hph;
              rewrite ?Bool.andb_false_r; reflexivity).
    all: try (intros h0 b; unfold t_opens, next_thread; cbn [sr_step t_phase sr_outs balance out_bal]; rewrite Hph;
              cbn [b2z]; lia).
  Qed.

  Lemma anon_mid_goal : forall h m cfh sfh stt,
    t_phase t = PhIoAnon h m ->
    sec_goal st t rest (mkSec st cfh sfh (Pending (PhIoAnonDone h m stt)) [] FsCall).
  Proof.
    intros h m cfh sfh stt Hph.
    eapply unchanged_goal with (c := c) (o := op0); eauto; try reflexivity; try exact Logic.I.
    all: try (intros cid other2 b; unfold t_clones, next_thread; cbn [sr_step t_client t_phase]; rewrite Hph;
              rewrite ?Bool.andb_false_r; reflexivity).
    all: try (intros h0 b; unfold t_opens, next_thread; cbn [sr_step t_phase sr_outs balance out_bal]; rewrite Hph;
              cbn [b2z]; lia).
  Qed.

  Lemma anon_begin_goal : forall h m cfh sfh,
    t_phase t = PhNone ->
    sec_goal st t rest (mkSec st cfh sfh (Pending (PhIoAnon h m)) [OLeafOpen h m] FsCall).
  Proof.
    intros h m cfh sfh Hph.
    eapply unchanged_goal with (c := c) (o := op0); eauto; try reflexivity; try exact Logic.I.
    all: try (intros cid other2 b; unfold t_clones, next_thread; cbn [sr_step t_client t_phase]; rewrite Hph;
              rewrite ?Bool.andb_false_r; reflexivity).
    all: try (intros h0 b; unfold t_opens, next_thread; cbn [sr_step t_phase sr_outs balance out_bal]; rewrite Hph;
              cbn [b2z]; lia).
  Qed.

  Lemma anon_end_goal : forall h m cfh sfh res,
    t_phase t = PhIoAnonDone h m (res_status res) \/ (exists stt, t_phase t = PhIoAnonDone h m stt) ->
    sec_goal st t rest (mkSec st cfh sfh (Done res) [OLeafClose h m] FsNone).
  Proof.
    intros h m cfh sfh res Hph0.
    assert (Hph : exists stt, t_phase t = PhIoAnonDone h m stt) by (destruct Hph0 as [H|H]; eauto).
    destruct Hph as [stt Hph].
    eapply unchanged_goal with (c := c) (o := op0); eauto; try reflexivity; try exact Logic.I.
    all: try (intros cid other2 b; unfold t_clones, next_thread; cbn [sr_step t_client t_phase]; rewrite Hph;
              rewrite ?Bool.andb_false_r; reflexivity).
    all: try (intros h0 b; unfold t_opens, next_thread; cbn [sr_step t_phase sr_outs balance out_bal]; rewrite Hph;
              cbn [b2z]; lia).
  Qed.

  (* The release of the clone. *)
  Lemma io_end_reg_goal : forall opnum other h m iost cfh sfh,
    t_phase t = PhIoRegDone other h m iost ->
    sec_goal st t rest (io_end_reg opnum other h m iost c st cfh sfh).
  Proof.
    intros opnum other h m iost cfh sfh Hph. unfold io_end_reg.
    destruct Htok as [c0 [Hc0 Hp0]]. rewrite Hc in Hc0. injection Hc0 as <-. rewrite Hph in Hp0.
    destruct Hp0 as [_ [Hm [o [Hfo Hh]]]]. rewrite Hfo.
    assert (Hoin : In o (c_oofs c) /\ of_other o = other).
    { rewrite find_oofs_any_k in Hfo. apply kfind_some in Hfo. exact Hfo. }
    destruct Hoin as [Hoin Hoo].
    destruct (oofs_facts o Hoin) as [[Hb1 Hb2] [[S1 [S2 S3]] Hfo']].
    assert (Hcidt : c_id c = t_client t) by (rewrite find_client_k in Hc; apply kfind_some in Hc; tauto).
    assert (Htc : forall b, t_clones (c_id c) (of_other o) b t = bit b m).
    { intros b. unfold t_clones. rewrite Hph, Hcidt, Hoo, !N.eqb_refl. reflexivity. }
    assert (Hpos : forall b, bit b (m_diff m m0) = true -> 0 < cnt b o).
    { intros b Hb. rewrite m_diff_m0 in Hb. specialize (S1 b).
      assert (1 <= clones st (c_id c) (of_other o) b)%Z.
      { unfold clones. eapply countz_pos_in; [exact Htin|]. rewrite Htc. exact Hb. }
      pose proof (b2z_01 (of_live o && bit b (of_share o))). pose proof (lofs_bits_nonneg b (of_lofs o)). lia. }
    destruct (oofs_downgrade o m m0) as [[o1 outs] pn] eqn:Ed.
    destruct (oofs_downgrade_spec _ _ _ _ _ _ Ed Hpos) as [_ [E1 [E2 [E3 [E4 [E5 [E6 [E7 [E8 E9]]]]]]]]].
    set (c' := c_set_oofs c (upd_oofs o1 (c_oofs c))).
    set (res := RStatus opnum iost).
    match goal with |- sec_goal _ _ _ ?r0 => set (r := r0) end.
    assert (Hstep : sr_step r = Done res) by reflexivity.
    assert (G3 : c_other c <= c_other c') by (cbn; lia).
    assert (G4 : find_oofs_any (of_other o1) (c_oofs c) = Some o) by (rewrite E1; exact Hfo').
    assert (G10 : forall x, In x (of_lofs o1) -> lf_other x <= c_other c') by (rewrite E6; exact Hb2).
    assert (G11 : forall other2 b, other2 <> of_other o1 ->
               t_clones (c_id c) other2 b (next_thread t rest r) = t_clones (c_id c) other2 b t).
    { intros other2 b Hne. rewrite (done_clones r res) by exact Hstep. unfold t_clones. rewrite Hph.
      rewrite E1, Hoo in Hne. assert (E : other =? other2 = false) by (apply N.eqb_neq; intros E; apply Hne; symmetry; exact E).
      rewrite E. rewrite Bool.andb_false_r. reflexivity. }
    assert (G12 : forall b, Z.of_N (cnt b o1)
               = (b2z (of_live o1 && bit b (of_share o1)) + lofs_bits b (of_lofs o1)
                  + clones st (c_id c) (of_other o1) b
                  - b2z (t_clones (c_id c) (of_other o1) b t)
                  + b2z (t_clones (c_id c) (of_other o1) b (next_thread t rest r)))%Z).
    { intros b. rewrite (done_clones r res) by exact Hstep. rewrite E1, Htc, E8, m_diff_m0, E7, E5, E6, (S1 b).
      cbn [b2z]. lia. }
    assert (G13 : of_live o1 = false -> of_share o1 = m0 /\ of_lofs o1 = []) by (rewrite E7, E5, E6; exact S2).
    assert (G14 : NoDup (map lf_other (of_lofs o1))) by (rewrite E6; exact S3).
    assert (G15 : forall h0 b, balance h0 b (sr_outs r)
               = (dind h0 b o o1 - b2z (t_opens h0 b t) + b2z (t_opens h0 b (next_thread t rest r)))%Z).
    { intros h0 b. subst r. cbn [sr_outs]. rewrite E9.
      rewrite (next_thread_done_opens _ _ _ _ _ res) by reflexivity.
      unfold t_opens. rewrite Hph. cbn [b2z]. unfold dind. destruct (of_handle o =? h0); lia. }
    exact (oofs_goal st t c c' o o1 op0 rest r I Ht Hc Hops eq_refl eq_refl G3 G4 eq_refl eq_refl eq_refl eq_refl
                     E4 G10 G11 G12 G13 G14 G15 Logic.I).
  Qed.

  (* ---- OPEN ----------------------------------------------------------------------- *)
  Lemma open_pending_goal : forall h m cfh sfh,
    t_phase t = PhNone -> (exists ow a d how cl, op0 = OOpen ow a d how cl) ->
    sec_goal st t rest (mkSec st cfh sfh (Pending (PhOpened h m)) [OLeafOpen h m] FsCall).
  Proof.
    intros h m cfh sfh Hph Hop.
    eapply unchanged_goal with (c := c) (o := op0); eauto; try reflexivity; try exact Logic.I.
    all: try (intros cid other2 b; unfold t_clones, next_thread; cbn [sr_step t_client t_phase]; rewrite Hph;
              rewrite ?Bool.andb_false_r; reflexivity).
    all: try (intros h0 b; unfold t_opens, next_thread; cbn [sr_step t_phase sr_outs balance out_bal]; rewrite Hph;
              cbn [b2z]; lia).
  Qed.

  Lemma op_open_begin_goal : forall a d how cl orc cfh sfh,
    t_phase t = PhNone -> (exists ow, op0 = OOpen ow a d how cl) ->
    sec_goal st t rest (op_open_begin a d how cl orc st cfh sfh).
  Proof.
    intros a d how cl orc cfh sfh Hph [ow Hop]. unfold op_open_begin.
    assert (Hex : exists ow a d how cl, op0 = OOpen ow a d how cl) by (repeat eexists; exact Hop).
    repeat break_match; try (apply done_goal; exact Hph); try (apply done_fs_goal; exact Hph);
      try (apply open_pending_goal; assumption).
  Qed.

  Lemma find_oofs_oh_some : forall owner h l o, find_oofs_oh owner h l = Some o ->
    In o l /\ of_live o = true /\ of_owner o = owner /\ of_handle o = h.
  Proof.
    intros owner h l o H. unfold find_oofs_oh in H. apply find_some in H. destruct H as [Hin Hp].
    apply Bool.andb_true_iff in Hp. destruct Hp as [Hp Hh]. apply Bool.andb_true_iff in Hp. destruct Hp as [Hl Ho].
    apply N.eqb_eq in Hh. apply N.eqb_eq in Ho. auto.
  Qed.

  (* OPEN on an open-owner file that exists: upgrade. *)
  Lemma open_upgrade_goal : forall o h m sfh,
    t_phase t = PhOpened h m -> In o (c_oofs c) -> of_live o = true -> of_handle o = h ->
    sec_goal st t rest
      (let '(sa, rd, wr, ov) := sc_upgrade (of_share o) (of_readers o) (of_writers o) m in
       let o1 := o_set o (incr_seq (of_seq o)) sa rd wr (of_lofs o) (of_live o) in
       mkSec (set_pool (with_client st (c_id c) (c_set_oofs c (upd_oofs o1 (c_oofs c)))) (st_pool st))
             (mkFh (NLeaf h) (of_seq o1) (of_other o1)) sfh
             (Done (RStateid OP_OPEN (of_seq o1) (of_other o1))) (close_out h ov) FsNone).
  Proof.
    intros o h m sfh Hph Hoin Hlive Hh. unfold sc_upgrade. lazy beta iota zeta.
    destruct (oofs_facts o Hoin) as [[Hb1 Hb2] [[S1 [S2 S3]] Hfo]].
    set (o1 := o_set o (incr_seq (of_seq o)) (m_or (of_share o) m)
                     (if mr m && negb (mr (of_share o)) then of_readers o + 1 else of_readers o)
                     (if mw m && negb (mw (of_share o)) then of_writers o + 1 else of_writers o)
                     (of_lofs o) (of_live o)).
    set (c' := c_set_oofs c (upd_oofs o1 (c_oofs c))).
    set (res := RStateid OP_OPEN (of_seq o1) (of_other o1)).
    match goal with |- sec_goal _ _ _ ?r0 => set (r := r0) end.
    assert (Hstep : sr_step r = Done res) by reflexivity.
    assert (Hcnt : forall b, Z.of_N (cnt b o1) = (Z.of_N (cnt b o) + b2z (bit b m && negb (bit b (of_share o))))%Z).
    { intros []; subst o1; cbn [cnt bit o_set of_readers of_writers].
      - destruct (mr m && negb (mr (of_share o))); cbn [b2z]; lia.
      - destruct (mw m && negb (mw (of_share o))); cbn [b2z]; lia. }
    assert (Hnc : forall cid other b, t_clones cid other b t = false).
    { intros. apply t_clones_none. rewrite Hph. exact Logic.I. }
    assert (G3 : c_other c <= c_other c') by (cbn; lia).
    assert (G11 : forall other2 b, other2 <> of_other o1 ->
               t_clones (c_id c) other2 b (next_thread t rest r) = t_clones (c_id c) other2 b t).
    { intros other2 b _. rewrite (done_clones r res) by exact Hstep. rewrite Hnc. reflexivity. }
    assert (G12 : forall b, Z.of_N (cnt b o1)
               = (b2z (of_live o1 && bit b (of_share o1)) + lofs_bits b (of_lofs o1)
                  + clones st (c_id c) (of_other o1) b
                  - b2z (t_clones (c_id c) (of_other o1) b t)
                  + b2z (t_clones (c_id c) (of_other o1) b (next_thread t rest r)))%Z).
    { intros b. rewrite (done_clones r res) by exact Hstep. rewrite Hnc, Hcnt.
      subst o1. cbn [of_live of_share of_lofs of_other o_set]. rewrite Hlive. specialize (S1 b). rewrite Hlive in S1.
      rewrite S1. cbn [andb].
      destruct b; cbn [bit m_or mr mw]; destruct (mr (of_share o)), (mw (of_share o)), (mr m), (mw m);
        cbn [andb orb negb b2z]; lia. }
    assert (G13 : of_live o1 = false -> of_share o1 = m0 /\ of_lofs o1 = []).
    { subst o1. cbn [of_live o_set]. rewrite Hlive. discriminate. }
    assert (G15 : forall h0 b, balance h0 b (sr_outs r)
               = (dind h0 b o o1 - b2z (t_opens h0 b t) + b2z (t_opens h0 b (next_thread t rest r)))%Z).
    { intros h0 b. subst r. cbn [sr_outs]. rewrite balance_close_out.
      rewrite (next_thread_done_opens _ _ _ _ _ res) by reflexivity.
      unfold t_opens. rewrite Hph. cbn [b2z]. unfold dind, ind. rewrite Hh.
      destruct (h =? h0); cbn [andb b2z Z.opp]; [|lia].
      specialize (Hcnt b). specialize (S1 b). rewrite Hlive in S1. cbn [andb] in S1.
      pose proof (lofs_bits_nonneg b (of_lofs o)) as Hl. pose proof (clones_nonneg (c_id c) (of_other o) b) as Hk.
      assert (Hov : bit b (mkMask (mr m && (0 <? of_readers o)) (mw m && (0 <? of_writers o)))
                    = bit b m && (0 <? cnt b o)) by (destruct b; reflexivity).
      rewrite Hov.
      destruct (bit b m) eqn:Em; cbn [andb] in *.
      - destruct (0 <? cnt b o) eqn:E0.
        + apply N.ltb_lt in E0. assert (H1 : 0 <? cnt b o1 = true) by (apply N.ltb_lt; destruct (negb (bit b (of_share o))); cbn [b2z] in Hcnt; lia).
          rewrite H1. cbn [b2z Z.opp]. lia.
        + apply N.ltb_ge in E0.
          assert (Hsh : bit b (of_share o) = false).
          { destruct (bit b (of_share o)); [cbn [b2z] in S1; lia|reflexivity]. }
          rewrite Hsh in Hcnt. cbn [negb b2z] in Hcnt.
          assert (H1 : 0 <? cnt b o1 = true) by (apply N.ltb_lt; lia). rewrite H1. cbn [b2z Z.opp]. lia.
      - cbn [b2z] in Hcnt. assert (H1 : cnt b o1 = cnt b o) by lia. rewrite H1. cbn [b2z Z.opp]. lia. }
    exact (oofs_goal st t c c' o o1 op0 rest r I Ht Hc Hops eq_refl eq_refl G3 Hfo eq_refl eq_refl eq_refl eq_refl
                     eq_refl Hb2 G11 G12 G13 S3 G15 Logic.I).
  Qed.

  (* OPEN creating the open-owner file. *)
  Lemma open_new_goal : forall owner h m sfh,
    t_phase t = PhOpened h m -> m_empty m = false \/ True ->
    let o := mkOof (c_other c + 1) 0 owner h m0 0 0 [] true in
    let c0 := c_set_other (c_set_oofs c (c_oofs c ++ [o])) (c_other c + 1) in
    sec_goal st t rest
      (let '(sa, rd, wr, ov) := sc_upgrade (of_share o) (of_readers o) (of_writers o) m in
       let o1 := o_set o (incr_seq (of_seq o)) sa rd wr (of_lofs o) (of_live o) in
       mkSec (set_pool (with_client st (c_id c) (c_set_oofs c0 (upd_oofs o1 (c_oofs c0)))) (pool_open h (st_pool st)))
             (mkFh (NLeaf h) (of_seq o1) (of_other o1)) sfh
             (Done (RStateid OP_OPEN (of_seq o1) (of_other o1))) (close_out h ov) FsNone).
  Proof.
    intros owner h m sfh Hph _ o c0. unfold sc_upgrade. lazy beta iota zeta.
    subst o c0. cbn [of_share of_readers of_writers of_lofs of_live of_seq mr mw m0 negb andb].
    change (0 <? 0) with false.
    set (o1 := o_set _ _ _ _ _ _ _).
    set (c' := c_set_oofs _ _).
    match goal with |- sec_goal _ _ _ ?r0 => set (r := r0) end.
    assert (Ho1 : o1 = mkOof (c_other c + 1) (incr_seq 0) owner h (m_or m0 m)
                             (if mr m && true then 0 + 1 else 0) (if mw m && true then 0 + 1 else 0) [] true) by reflexivity.
    assert (Hoofs : c_oofs c' = c_oofs c ++ [o1]).
    { subst c'. cbn [c_oofs c_set_oofs c_set_other]. unfold upd_oofs. rewrite map_app. cbn [map].
      rewrite Ho1. cbn [of_other]. rewrite N.eqb_refl. f_equal.
      destruct Hcok as [_ [O1 _]].
      rewrite <- (map_id (c_oofs c)) at 2. apply map_ext_in. intros a Ha.
      destruct (of_other a =? c_other c + 1) eqn:E; [|reflexivity].
      apply N.eqb_eq in E. destruct (O1 a Ha) as [[Hb _] _]. lia. }
    assert (Hnc : forall cid other b, t_clones cid other b t = false).
    { intros. apply t_clones_none. rewrite Hph. exact Logic.I. }
    set (res := RStateid OP_OPEN (of_seq o1) (of_other o1)).
    assert (Hstep : sr_step r = Done res) by reflexivity.
    assert (Hcnt : forall b, Z.of_N (cnt b o1) = b2z (bit b (of_share o1))).
    { rewrite Ho1. intros []; cbn [cnt bit of_readers of_writers of_share m_or m0 mr mw orb];
        rewrite Bool.andb_true_r; [destruct (mr m)|destruct (mw m)]; reflexivity. }
    eapply (add_goal st t c c' o1 op0 rest r I Ht Hc Hops); try reflexivity; try assumption.
    - intros cid other b. rewrite (done_clones r res) by exact Hstep. rewrite Hnc. reflexivity.
    - intros h0 b. subst r. cbn [sr_outs]. rewrite balance_close_out.
      rewrite (next_thread_done_opens _ _ _ _ _ res) by reflexivity.
      unfold t_opens. rewrite Hph. unfold hind, ind. rewrite Ho1 at 1. cbn [of_handle].
      destruct (h =? h0); cbn [andb b2z Z.opp]; [|lia].
      specialize (Hcnt b).
      assert (Hov : bit b (mkMask (mr m && false) (mw m && false)) = false) by (destruct b; cbn; apply Bool.andb_false_r).
      rewrite Hov. cbn [b2z Z.opp].
      assert (Hsh : bit b (of_share o1) = bit b m) by (rewrite Ho1; destruct b; reflexivity).
      rewrite Hsh in Hcnt. destruct (bit b m); cbn [b2z] in *.
      + assert (H1 : 0 <? cnt b o1 = true) by (apply N.ltb_lt; lia). rewrite H1. reflexivity.
      + assert (H1 : 0 <? cnt b o1 = false) by (apply N.ltb_ge; lia). rewrite H1. reflexivity.
    - exists res. exact Hstep.
  Qed.

  Lemma open_fail_close_goal : forall h m cfh sfh res,
    t_phase t = PhOpened h m ->
    sec_goal st t rest (mkSec st cfh sfh (Done res) (close_out h m) FsNone).
  Proof.
    intros h m cfh sfh res Hph.
    eapply unchanged_goal with (c := c) (o := op0); eauto; try reflexivity; try exact Logic.I.
    all: try (intros cid other2 b; unfold t_clones, next_thread; cbn [sr_step t_client t_phase]; rewrite Hph;
              rewrite ?Bool.andb_false_r; reflexivity).
    intros h0 b. cbn [sr_outs]. rewrite balance_close_out.
    unfold t_opens, next_thread. cbn [sr_step t_phase]. rewrite Hph. cbn [b2z]. lia.
  Qed.

  Lemma op_open_end_goal : forall owner cl h m cfh sfh,
    t_phase t = PhOpened h m -> sec_goal st t rest (op_open_end owner cl h m c st cfh sfh).
  Proof.
    intros owner cl h m cfh sfh Hph. unfold op_open_end.
    destruct cl.
    all: try (destruct (find_oofs_oh owner h (c_oofs c)) as [o|] eqn:Ef;
              [destruct (find_oofs_oh_some _ _ _ _ Ef) as [Hoin [Hlive [_ Hh]]];
               apply (open_upgrade_goal o h m sfh Hph Hoin Hlive Hh)
              |apply (open_new_goal owner h m sfh Hph (or_intror Logic.I))]).
    (* CLAIM_PREVIOUS *)
    destruct (find_oofs_oh owner h (c_oofs c)) as [o|] eqn:Ef.
    - destruct deleg_none.
      + destruct (find_oofs_oh_some _ _ _ _ Ef) as [Hoin [Hlive [_ Hh]]].
        apply (open_upgrade_goal o h m sfh Hph Hoin Hlive Hh).
      + apply open_fail_close_goal. exact Hph.
    - apply open_fail_close_goal. exact Hph.
  Qed.

End Ops.

(* ---- every operation that runs under cis.lock ---------------------------------------- *)
Definition session_op (o : op) : bool :=
  match o with
  | OExchangeId _ _ | OCreateSession _ _ | ODestroySession _ | ODestroyClientid _ => true
  | _ => false
  end.

Lemma op_section_goal : forall st t c op0 rest orc cfh sfh,
  acct_inv st ->
  find_thread (t_id t) (st_threads st) = Some t ->
  find_client (t_client t) (st_clients st) = Some c ->
  t_ops t = op0 :: rest ->
  (t_phase t = PhNone -> session_op op0 = false) ->
  sec_goal st t rest (op_section op0 (t_phase t) orc c st cfh sfh).
Proof.
  intros st t c op0 rest orc cfh sfh I Ht Hc Hops Hso.
  assert (Htok : thread_ok st t).
  { destruct I as [_ [_ [_ [Tok _]]]]. apply Tok. rewrite find_thread_k in Ht. apply kfind_some in Ht. tauto. }
  destruct (t_phase t) eqn:Hph.
  - (* no operation in progress *)
    specialize (Hso eq_refl).
    destruct op0; cbn [op_section]; try discriminate;
      try (apply (done_goal st t c _ rest I Ht Hc Hops); exact Hph).
    + (* PUTFH *) destruct (find_pfile _ _); [apply (done_goal st t c _ rest I Ht Hc Hops); exact Hph|].
      destruct orc; apply (done_fs_goal st t c _ rest I Ht Hc Hops); exact Hph.
    + (* LOOKUP *) destruct (negb (dir_status cfh =? NFS4_OK)); [apply (done_goal st t c _ rest I Ht Hc Hops); exact Hph|].
      destruct (_ =? 0); [apply (done_goal st t c _ rest I Ht Hc Hops); exact Hph|].
      destruct orc; apply (done_fs_goal st t c _ rest I Ht Hc Hops); exact Hph.
    + (* GETFH *) destruct (fh_set cfh); apply (done_goal st t c _ rest I Ht Hc Hops); exact Hph.
    + (* SAVEFH *) destruct (fh_set cfh); apply (done_goal st t c _ rest I Ht Hc Hops); exact Hph.
    + (* RESTOREFH *) destruct (fh_set sfh); apply (done_goal st t c _ rest I Ht Hc Hops); exact Hph.
    + (* REMOVE *) destruct (negb (dir_status cfh =? NFS4_OK)); [apply (done_goal st t c _ rest I Ht Hc Hops); exact Hph|].
      destruct (_ =? 0); [apply (done_goal st t c _ rest I Ht Hc Hops); exact Hph|].
      apply (done_fs_goal st t c _ rest I Ht Hc Hops); exact Hph.
    + (* OPEN *) apply (op_open_begin_goal st t c _ rest I Ht Hc Hops); [exact Hph|]. eexists. reflexivity.
    + apply (op_open_downgrade_goal st t c _ rest I Ht Hc Hops). exact Hph.
    + apply (op_close_goal st t c _ rest I Ht Hc Hops). exact Hph.
    + apply (op_lock_goal st t c _ rest I Ht Hc Hops). exact Hph.
    + (* LOCKT *) unfold op_lockt.
      destruct (negb (leaf_status cfh =? NFS4_OK)); [apply (done_goal st t c _ rest I Ht Hc Hops); exact Hph|].
      destruct (LS.offset_length_to_start_end _ _) as [[s0 e0]|]; [|apply (done_goal st t c _ rest I Ht Hc Hops); exact Hph].
      destruct (lock_type _); [|apply (done_goal st t c _ rest I Ht Hc Hops); exact Hph].
      destruct (LS.test _ _); apply (done_goal st t c _ rest I Ht Hc Hops); exact Hph.
    + apply (op_locku_goal st t c _ rest I Ht Hc Hops). exact Hph.
    + (* READ *) destruct (sid_special _).
      * destruct (negb (leaf_status cfh =? NFS4_OK)); [apply (done_goal st t c _ rest I Ht Hc Hops); exact Hph|].
        destruct orc; try (apply (anon_begin_goal st t c _ rest I Ht Hc Hops); exact Hph);
          apply (done_fs_goal st t c _ rest I Ht Hc Hops); exact Hph.
      * apply (io_begin_goal st t c _ rest I Ht Hc Hops); [exact Hph|reflexivity].
    + (* WRITE *) destruct (sid_special _).
      * destruct (negb (leaf_status cfh =? NFS4_OK)); [apply (done_goal st t c _ rest I Ht Hc Hops); exact Hph|].
        destruct orc; try (apply (anon_begin_goal st t c _ rest I Ht Hc Hops); exact Hph);
          apply (done_fs_goal st t c _ rest I Ht Hc Hops); exact Hph.
      * apply (io_begin_goal st t c _ rest I Ht Hc Hops); [exact Hph|reflexivity].
    + (* SETATTR *) destruct (sid_special _).
      * destruct (fh_set cfh); [apply (done_fs_goal st t c _ rest I Ht Hc Hops)|apply (done_goal st t c _ rest I Ht Hc Hops)]; exact Hph.
      * apply (io_begin_goal st t c _ rest I Ht Hc Hops); [exact Hph|reflexivity].
    + apply (op_free_stateid_goal st t c _ rest I Ht Hc Hops). exact Hph.
  - (* OPEN, second half *)
    destruct Htok as [c0 [_ Hp0]]. rewrite Hph in Hp0.
    destruct Hp0 as [ow [a [d [how [cl [rest0 Hops0]]]]]].
    rewrite Hops in Hops0. injection Hops0 as Hop0 _. subst op0.
    cbn [op_section]. apply (op_open_end_goal st t c _ rest I Ht Hc Hops). exact Hph.
  - cbn [op_section]. apply (io_mid_goal st t c _ rest I Ht Hc Hops). exact Hph.
  - cbn [op_section]. apply (anon_mid_goal st t c _ rest I Ht Hc Hops). exact Hph.
  - cbn [op_section]. apply (io_end_reg_goal st t c _ rest I Ht Hc Hops). exact Hph.
  - cbn [op_section]. apply (anon_end_goal st t c _ rest I Ht Hc Hops). right. eexists. exact Hph.
Qed.
