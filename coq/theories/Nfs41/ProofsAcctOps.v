(* C18, accounting: every section of a compound keeps the invariant and
   changes the holders of every leaf by the balance of its outputs. *)
From VF Require Export Nfs41.ProofsAcctUpd.
Open Scope N_scope.

(* ---- lookups --------------------------------------------------------------- *)
Lemma get_oofs_some : forall c cfh s w o st,
  NoDup (map of_other (c_oofs c)) -> get_oofs c cfh s w = (Some o, st) ->
  find_oofs_any (of_other o) (c_oofs c) = Some o /\ of_live o = true.
Proof.
  intros c cfh s w o st Hnd H. unfold get_oofs in H.
  repeat break_match_hyp H; try discriminate; inversion H; subst; clear H;
    match goal with
    | Hf : find_oofs ?k _ = Some ?x |- _ =>
      destruct (find_oofs_any_of_live _ _ _ Hnd Hf) as [H1 H2];
      assert (Hk : of_other x = k) by (rewrite find_oofs_any_k in H1; apply kfind_some in H1; tauto);
      rewrite Hk; auto
    end.
Qed.

Lemma find_lofs_some : forall other l o lf,
  find_lofs other l = Some (o, lf) ->
  In o l /\ of_live o = true /\ In lf (of_lofs o) /\ lf_other lf = other.
Proof.
  intros other l o lf H. unfold find_lofs in H.
  destruct (find _ l) as [o1|] eqn:E1; [|discriminate].
  destruct (find _ (of_lofs o1)) as [lf1|] eqn:E2; [|discriminate].
  inversion H; subst; clear H. apply find_some in E1. destruct E1 as [Hin Hp].
  apply Bool.andb_true_iff in Hp. destruct Hp as [Hl _].
  apply find_some in E2. destruct E2 as [Hin2 Hp2]. apply N.eqb_eq in Hp2. auto.
Qed.

Lemma get_lofs_some : forall c cfh s o lf st,
  get_lofs c cfh s = (Some (o, lf), st) ->
  In o (c_oofs c) /\ of_live o = true /\ In lf (of_lofs o).
Proof.
  intros c cfh s o lf st H. unfold get_lofs in H.
  repeat break_match_hyp H; try discriminate; inversion H; subst; clear H;
    match goal with
    | Hf : find_lofs _ _ = Some _ |- _ => apply find_lofs_some in Hf; tauto
    end.
Qed.

Lemma in_find_oofs_any : forall c o, NoDup (map of_other (c_oofs c)) -> In o (c_oofs c) ->
  find_oofs_any (of_other o) (c_oofs c) = Some o.
Proof. intros c o Hnd Hin. rewrite find_oofs_any_k. apply kfind_in_nodup; assumption. Qed.

(* ---- the compound after a section ------------------------------------------ *)
Definition next_thread (t : thread) (rest : list op) (r : secres) : thread :=
  match sr_step r with
  | Pending ph =>
    mkThread (t_id t) (t_sess t) (t_slot t) (t_seq t) (t_cache t) (t_client t) (t_ops t)
             (t_res t) (t_status t) (sr_cfh r) (sr_sfh r) ph (t_waiters t)
  | Done res =>
    mkThread (t_id t) (t_sess t) (t_slot t) (t_seq t) (t_cache t) (t_client t)
             (if res_status res =? NFS4_OK then rest else [])
             (t_res t ++ [res]) (res_status res) (sr_cfh r) (sr_sfh r) PhNone (t_waiters t)
  end.

Definition next_state (t : thread) (rest : list op) (r : secres) : state :=
  set_threads (sr_st r) (upd_thread (next_thread t rest r) (st_threads (sr_st r))).

(* What a section has to establish. *)
Definition sec_goal (st : state) (t : thread) (rest : list op) (r : secres) : Prop :=
  acct_inv (next_state t rest r)
  /\ forall h b, holders (next_state t rest r) h b = (holders st h b + balance h b (sr_outs r))%Z.

Lemma next_thread_id : forall t rest r, t_id (next_thread t rest r) = t_id t.
Proof. intros. unfold next_thread. destruct (sr_step r); reflexivity. Qed.
Lemma next_thread_client : forall t rest r, t_client (next_thread t rest r) = t_client t.
Proof. intros. unfold next_thread. destruct (sr_step r); reflexivity. Qed.

(* ---- sections that leave the state alone ----------------------------------- *)
Lemma unchanged_goal : forall st t c o rest r,
  acct_inv st ->
  find_thread (t_id t) (st_threads st) = Some t ->
  find_client (t_client t) (st_clients st) = Some c ->
  t_ops t = o :: rest ->
  st_clients (sr_st r) = st_clients st -> st_threads (sr_st r) = st_threads st ->
  st_idle (sr_st r) = st_idle st ->
  (forall cid other b, t_clones cid other b (next_thread t rest r) = t_clones cid other b t) ->
  (forall h b, balance h b (sr_outs r)
               = (b2z (t_opens h b (next_thread t rest r)) - b2z (t_opens h b t))%Z) ->
  (* the new phase is consistent with the pending operation *)
  match sr_step r with
  | Pending (PhOpened _ _) => exists ow a d how cl, o = OOpen ow a d how cl
  | Pending (PhIoReg other h m) | Pending (PhIoRegDone other h m _) =>
    t_phase t = PhIoReg other h m
  | _ => True
  end ->
  thread_ok st t ->
  sec_goal st t rest r.
Proof.
  intros st t c o rest r I Ht Hc Hops Hcl Hth Hid Hclone Hbal Hph Hok.
  set (t' := next_thread t rest r).
  assert (Ht' : find_thread (t_id t') (st_threads st) = Some t) by (subst t'; rewrite next_thread_id; exact Ht).
  assert (Hok' : thread_ok (next_state t rest r) t').
  { unfold thread_ok. exists c. split.
    - unfold next_state. cbn [st_clients set_threads]. rewrite Hcl. subst t'. rewrite next_thread_client. exact Hc.
    - subst t'. unfold next_thread. destruct (sr_step r) as [res|ph]; cbn [t_phase t_ops]; [exact Logic.I|].
      destruct ph; auto.
      + destruct Hph as [ow [a [d [how [cl ->]]]]]. rewrite Hops. repeat eexists.
      + destruct Hok as [c0 [Hc0 Hp0]]. rewrite Hph in Hp0. rewrite Hc in Hc0. injection Hc0 as <-.
        destruct Hp0 as [P1 [P2 P3]]. auto.
      + rewrite Hops. discriminate.
      + destruct Hok as [c0 [Hc0 Hp0]]. rewrite Hph in Hp0. rewrite Hc in Hc0. injection Hc0 as <-.
        destruct Hp0 as [P1 [P2 P3]]. auto.
      + rewrite Hops. discriminate. }
  assert (Hcl' : st_clients (next_state t rest r) = st_clients st)
    by (unfold next_state; cbn [st_clients set_threads]; exact Hcl).
  assert (Hth' : st_threads (next_state t rest r) = upd_thread t' (st_threads st))
    by (unfold next_state; cbn [st_threads set_threads]; rewrite Hth; reflexivity).
  assert (Hid' : st_idle (next_state t rest r) = st_idle st)
    by (unfold next_state; cbn [st_idle set_threads]; exact Hid).
  assert (Hclt : t_client t' = t_client t) by (subst t'; apply next_thread_client).
  split.
  - exact (thread_only_inv st (next_state t rest r) t t' I Ht' Hclt Hcl' Hth' Hid' Hclone Hok').
  - intros h b.
    rewrite (thread_only_holders st (next_state t rest r) t t'); try assumption.
    rewrite Hbal. subst t'. lia.
Qed.

(* ---- sections that change one open-owner file of the client ---------------- *)
Lemma oofs_goal : forall st t c c' o o' op rest r,
  acct_inv st ->
  find_thread (t_id t) (st_threads st) = Some t ->
  find_client (t_client t) (st_clients st) = Some c ->
  t_ops t = op :: rest ->
  c_id c' = c_id c -> c_hold c' = c_hold c -> c_other c <= c_other c' ->
  find_oofs_any (of_other o') (c_oofs c) = Some o ->
  c_oofs c' = upd_oofs o' (c_oofs c) ->
  st_clients (sr_st r) = upd_client c' (st_clients st) ->
  st_threads (sr_st r) = st_threads st ->
  st_idle (sr_st r) = st_idle st ->
  of_handle o' = of_handle o ->
  (forall lf, In lf (of_lofs o') -> lf_other lf <= c_other c') ->
  (forall other2 b, other2 <> of_other o' ->
     t_clones (c_id c) other2 b (next_thread t rest r) = t_clones (c_id c) other2 b t) ->
  (forall b, Z.of_N (cnt b o')
             = (b2z (of_live o' && bit b (of_share o')) + lofs_bits b (of_lofs o')
                + clones st (c_id c) (of_other o') b
                - b2z (t_clones (c_id c) (of_other o') b t)
                + b2z (t_clones (c_id c) (of_other o') b (next_thread t rest r)))%Z) ->
  (of_live o' = false -> of_share o' = m0 /\ of_lofs o' = []) ->
  NoDup (map lf_other (of_lofs o')) ->
  (forall h b, balance h b (sr_outs r)
               = (dind h b o o' - b2z (t_opens h b t) + b2z (t_opens h b (next_thread t rest r)))%Z) ->
  (* phase of the compound afterwards *)
  match sr_step r with
  | Done _ => True
  | Pending (PhIoReg other h m) => other = of_other o' /\ h = of_handle o' /\ m_empty m = false
  | Pending _ => False
  end ->
  sec_goal st t rest r.
Proof.
  intros st t c c' o o' op rest r I Ht Hc Hops Hcid Hchold Hcother Ho Hoofs Hcl Hth Hid Hh Hlb Hco HS Hdead Hnd Hbal Hph.
  set (t' := next_thread t rest r) in *.
  assert (Ht' : find_thread (t_id t') (st_threads st) = Some t) by (subst t'; rewrite next_thread_id; exact Ht).
  assert (Hclt : t_client t' = t_client t) by (subst t'; apply next_thread_client).
  assert (Hcl' : st_clients (next_state t rest r) = upd_client c' (st_clients st))
    by (unfold next_state; cbn [st_clients set_threads]; exact Hcl).
  assert (Hth' : st_threads (next_state t rest r) = upd_thread t' (st_threads st))
    by (unfold next_state; cbn [st_threads set_threads]; rewrite Hth; reflexivity).
  assert (Hid' : st_idle (next_state t rest r) = st_idle st)
    by (unfold next_state; cbn [st_idle set_threads]; exact Hid).
  assert (Hcidt : c_id c = t_client t) by (rewrite find_client_k in Hc; apply kfind_some in Hc; tauto).
  assert (Hok' : thread_ok (next_state t rest r) t').
  { exists c'. split.
    - rewrite Hcl', Hclt, find_client_k, upd_client_k, <- Hcidt, <- Hcid.
      eapply kfind_kupd_same. rewrite Hcid, Hcidt, <- find_client_k. exact Hc.
    - subst t'. unfold next_thread. destruct (sr_step r) as [res|ph]; cbn [t_phase t_ops]; [exact Logic.I|].
      destruct ph; try contradiction. destruct Hph as [-> [-> Hm]].
      split; [rewrite Hops; discriminate|]. split; [exact Hm|].
      exists o'. split; [|reflexivity]. rewrite Hoofs, find_oofs_any_k, upd_oofs_k.
      eapply kfind_kupd_same. rewrite <- find_oofs_any_k. exact Ho. }
  split.
  - eapply (oofs_upd_inv st (next_state t rest r) t t' c c' o o'); eassumption.
  - intros h b. rewrite (oofs_upd_holders st (next_state t rest r) t t' c c' o o'); try eassumption.
    rewrite Hbal. lia.
Qed.

(* A compound that is not doing I/O has cloned nothing. *)
Lemma t_clones_none : forall cid other b t,
  match t_phase t with PhIoReg _ _ _ | PhIoRegDone _ _ _ _ => False | _ => True end ->
  t_clones cid other b t = false.
Proof.
  intros cid other b t H. unfold t_clones. destruct (t_phase t); try contradiction;
    apply Bool.andb_false_r.
Qed.

Lemma next_thread_done_clones : forall cid other b t rest r res,
  sr_step r = Done res -> t_clones cid other b (next_thread t rest r) = false.
Proof.
  intros. apply t_clones_none. unfold next_thread. rewrite H. exact Logic.I.
Qed.

Lemma next_thread_done_opens : forall h b t rest r res,
  sr_step r = Done res -> t_opens h b (next_thread t rest r) = false.
Proof. intros. unfold t_opens, next_thread. rewrite H. reflexivity. Qed.

Lemma t_opens_none : forall h b t, t_phase t = PhNone -> t_opens h b t = false.
Proof. intros. unfold t_opens. rewrite H. reflexivity. Qed.

(* lofs_bits only depends on the share masks *)
Lemma lofs_bits_upd : forall b lf' l,
  (forall lf, In lf l -> lf_other lf = lf_other lf' -> lf_share lf = lf_share lf') ->
  lofs_bits b (upd_lofs lf' l) = lofs_bits b l.
Proof.
  intros b lf' l H. unfold lofs_bits, upd_lofs. induction l as [|x l IH]; [reflexivity|].
  cbn. rewrite IH by (intros lf Hin; apply H; right; exact Hin).
  destruct (lf_other x =? lf_other lf') eqn:E; [|reflexivity].
  apply N.eqb_eq in E. rewrite (H x (or_introl eq_refl) E). reflexivity.
Qed.

Lemma upd_lofs_others : forall lf' l, map lf_other (upd_lofs lf' l) = map lf_other l.
Proof.
  intros lf' l. unfold upd_lofs. induction l as [|x l IH]; [reflexivity|]. cbn. rewrite IH.
  destruct (lf_other x =? lf_other lf') eqn:E; [|reflexivity]. apply N.eqb_eq in E. rewrite E. reflexivity.
Qed.

Lemma upd_lofs_in : forall lf' l x, In x (upd_lofs lf' l) -> x = lf' \/ In x l.
Proof.
  intros lf' l x H. unfold upd_lofs in H. apply in_map_iff in H. destruct H as [y [Hy Hin]].
  destruct (lf_other y =? lf_other lf'); [left; auto|right; subst; exact Hin].
Qed.

(* ---- sections that add an open-owner file to the client --------------------- *)
Lemma add_goal : forall st t c c' o' op rest r,
  acct_inv st ->
  find_thread (t_id t) (st_threads st) = Some t ->
  find_client (t_client t) (st_clients st) = Some c ->
  t_ops t = op :: rest ->
  c_id c' = c_id c -> c_hold c' = c_hold c -> c_other c' = c_other c + 1 ->
  of_other o' = c_other c + 1 ->
  c_oofs c' = c_oofs c ++ [o'] ->
  st_clients (sr_st r) = upd_client c' (st_clients st) ->
  st_threads (sr_st r) = st_threads st ->
  st_idle (sr_st r) = st_idle st ->
  (forall cid other b, t_clones cid other b (next_thread t rest r) = t_clones cid other b t) ->
  of_live o' = true -> of_lofs o' = [] ->
  (forall b, Z.of_N (cnt b o') = b2z (bit b (of_share o'))) ->
  (forall h b, balance h b (sr_outs r)
               = (hind h b o' - b2z (t_opens h b t) + b2z (t_opens h b (next_thread t rest r)))%Z) ->
  (exists res, sr_step r = Done res) ->
  sec_goal st t rest r.
Proof.
  intros st t c c' o' op rest r I Ht Hc Hops Hcid Hchold Hcother Hoother Hoofs Hcl Hth Hid Hclone Hlive Hlofs HS Hbal [res Hstep].
  set (t' := next_thread t rest r) in *.
  assert (Ht' : find_thread (t_id t') (st_threads st) = Some t) by (subst t'; rewrite next_thread_id; exact Ht).
  assert (Hclt : t_client t' = t_client t) by (subst t'; apply next_thread_client).
  assert (Hcl' : st_clients (next_state t rest r) = upd_client c' (st_clients st))
    by (unfold next_state; cbn [st_clients set_threads]; exact Hcl).
  assert (Hth' : st_threads (next_state t rest r) = upd_thread t' (st_threads st))
    by (unfold next_state; cbn [st_threads set_threads]; rewrite Hth; reflexivity).
  assert (Hid' : st_idle (next_state t rest r) = st_idle st)
    by (unfold next_state; cbn [st_idle set_threads]; exact Hid).
  assert (Hcidt : c_id c = t_client t) by (rewrite find_client_k in Hc; apply kfind_some in Hc; tauto).
  assert (Hok' : thread_ok (next_state t rest r) t').
  { exists c'. split.
    - rewrite Hcl', Hclt, find_client_k, upd_client_k, <- Hcidt, <- Hcid.
      eapply kfind_kupd_same. rewrite Hcid, Hcidt, <- find_client_k. exact Hc.
    - subst t'. unfold next_thread. rewrite Hstep. cbn [t_phase]. exact Logic.I. }
  split.
  - eapply (oofs_add_inv st (next_state t rest r) t t' c c' o'); eassumption.
  - intros h b. rewrite (oofs_add_holders st (next_state t rest r) t t' c c' o'); try eassumption.
    rewrite Hbal. lia.
Qed.
