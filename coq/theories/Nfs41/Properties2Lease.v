(* C18 (NFSv4.1), lease side: what the independent lease monitor of
   SpecLease.v (kinds C18:client-expired-within-lease and
   C18:client-expired-during-io, evaluated by Corr.check_case on the
   implementation's trace) relies on, proved of the model (Model.v).  The
   property theorems, and nothing else; proofs in ProofsLease41.v.

   The all-histories link

     lease_monitor_holds_on_model :
       forall cfg c0 evs, (compound labels of evs fresh) ->
         lease_case cfg c0 (model_hsteps cfg c0 evs) = None

   is NOT proved (it needs the simulation invariant between the monitor's
   bookkeeping and the model state - heard <= lastSeen for idle clients,
   lm_fly = compounds in flight - through the sorted dump; see
   docs/areas/Nfs41.md).  Proved instead: the per-critical-section facts
   the induction would use, the two all-histories facts about the model
   itself ([reachable_expiry_only_after_lease_partial],
   [inflight_compound_pins_client]), and the monitor on a concrete model
   trace (accepting) and two doctored traces (rejecting). *)
From VF Require Import Nfs41.Model Nfs41.Spec Nfs41.SpecLease Nfs41.ProofsIdle Nfs41.ProofsLease41.
Local Open Scope string_scope.
Open Scope N_scope.

(* enter(): p.now := max p.now clock; never behind the clock reading the
   critical section started with. *)
Theorem enter_clock_monotone41 : forall st,
  st_clock st <= st_now (fst (enter st)) /\ st_now st <= st_now (fst (enter st)).
Proof. exact enter_clock_monotone. Qed.
Print Assumptions enter_clock_monotone41.

(* enter() (lease expiry) discards a client incarnation only if it is on
   the idle list and lastSeen + lease < now. *)
Theorem expiry_only_after_lease41 : forall st id c, NoDup (map c_id (st_clients st)) ->
  cfind id st = Some c -> cfind id (fst (enter st)) = None ->
  In id (st_idle st) /\ c_seen c + cf_lease (st_cfg st) < st_now (fst (enter st)).
Proof. exact expiry_only_after_lease. Qed.
Print Assumptions expiry_only_after_lease41.

(* ... and leaves every other record exactly as it was. *)
Theorem enter_keeps_record41 : forall st id c c', NoDup (map c_id (st_clients st)) ->
  cfind id st = Some c -> cfind id (fst (enter st)) = Some c' -> c' = c.
Proof. exact enter_keeps_record. Qed.
Print Assumptions enter_keeps_record41.

(* An incarnation that is held is not discarded by enter(). *)
Theorem held_client_survives_enter41 : forall st id c, idle_inv st ->
  cfind id st = Some c -> c_hold c <> 0 -> cfind id (fst (enter st)) = Some c.
Proof. exact held_client_survives_enter. Qed.
Print Assumptions held_client_survives_enter41.

(* release(): dropping the last hold stamps lastSeen := now. *)
Theorem release_records_now41 : forall id st c, cfind id st = Some c -> c_hold c = 1 ->
  exists c', cfind id (release id st) = Some c' /\ c_hold c' = 0 /\ c_seen c' = st_now st
             /\ st_now (release id st) = st_now st.
Proof. exact release_records_now. Qed.
Print Assumptions release_records_now41.

(* SEQUENCE starting a new sequence on a free slot holds the session's
   client (hold count + 1, lastSeen untouched) and registers the compound. *)
Theorem sequence_pins_client41 : forall tid sess sl sq cache ops st ss s c0,
  find_session sess (st_sessions (fst (enter st))) = Some ss ->
  nth_error (ss_slots ss) (N.to_nat sl) = Some s ->
  sq <> sl_seq s -> sq = (sl_seq s + 1) mod u32 -> sl_busy s = None ->
  1 + N.of_nat (length ops) <= cf_maxops (st_cfg st) ->
  cfind (ss_client ss) (fst (enter st)) = Some c0 ->
  let st' := fst (seq_begin tid sess sl sq cache ops st) in
  (exists c', cfind (ss_client ss) st' = Some c' /\ c_hold c' = c_hold c0 + 1 /\ c_seen c' = c_seen c0)
  /\ exists t, In t (st_threads st') /\ t_id t = tid /\ t_client t = ss_client ss.
Proof. exact sequence_pins_client. Qed.
Print Assumptions sequence_pins_client41.

(* The last section of a compound renews the lease: when it drops the last
   hold, lastSeen = now >= the clock reading the section started with. *)
Theorem sequence_end_renews_lease41 : forall t st c0,
  cfind (t_client t) (fst (enter st)) = Some c0 -> c_hold c0 = 1 ->
  let st' := fst (seq_end t st) in
  exists c', cfind (t_client t) st' = Some c' /\ c_hold c' = 0
             /\ c_seen c' = st_now st' /\ st_clock st <= c_seen c'.
Proof. exact sequence_end_renews_lease. Qed.
Print Assumptions sequence_end_renews_lease41.

(* While other compounds of the client are in flight it stays held. *)
Theorem sequence_end_keeps_held41 : forall t st c0,
  cfind (t_client t) (fst (enter st)) = Some c0 -> 1 < c_hold c0 ->
  exists c', cfind (t_client t) (fst (seq_end t st)) = Some c' /\ c_hold c' = N.pred (c_hold c0).
Proof. exact sequence_end_keeps_held. Qed.
Print Assumptions sequence_end_keeps_held41.

(* CREATE_SESSION's hold + deferred release stamps an idle incarnation. *)
Theorem create_session_touch_records_now41 : forall id st c, cfind id st = Some c -> c_hold c = 0 ->
  exists c', cfind id (touch id st) = Some c' /\ c_hold c' = 0 /\ c_seen c' = st_now st.
Proof. exact touch_records_now. Qed.
Print Assumptions create_session_touch_records_now41.

(* Over all histories (every interleaving, file system result and clock
   advance): in every reachable state enter() discards only incarnations
   that are not held and whose lease has lapsed ... *)
Theorem reachable_expiry_only_after_lease_partial : forall cfg c0 evs id c,
  let st := fst (run (init cfg c0) evs) in
  cfind id st = Some c -> cfind id (fst (enter st)) = None ->
  c_hold c = 0 /\ c_seen c + cf_lease (st_cfg st) < st_now (fst (enter st)).
Proof. exact reachable_expiry_only_after_lease. Qed.
Print Assumptions reachable_expiry_only_after_lease_partial.

(* ... and the client of every compound in flight exists, is held and is
   left untouched by enter() (the model-side content of
   C18:client-expired-during-io). *)
Theorem inflight_compound_pins_client41 : forall cfg c0 evs t,
  let st := fst (run (init cfg c0) evs) in
  In t (st_threads st) ->
  exists c, cfind (t_client t) st = Some c /\ c_hold c <> 0 /\ cfind (t_client t) (fst (enter st)) = Some c.
Proof. exact inflight_compound_pins_client. Qed.
Print Assumptions inflight_compound_pins_client41.

(* p.now never runs ahead of the injected clock (every interleaving): the
   model's time base and the monitor's lm_clock agree whenever enter() runs. *)
Theorem reachable_now_le_clock41 : forall cfg c0 evs,
  st_now (fst (run (init cfg c0) evs)) <= st_clock (fst (run (init cfg c0) evs)).
Proof. exact reachable_now_le_clock. Qed.
Print Assumptions reachable_now_le_clock41.

(* Hence, over all histories: enter() discards only incarnations that are not
   held and whose lastSeen + lease lies before the reading of the injected
   clock - exactly the comparison C18:client-expired-within-lease makes with
   its own "last heard" time. *)
Theorem reachable_expiry_before_clock41 : forall cfg c0 evs id c,
  let st := fst (run (init cfg c0) evs) in
  cfind id st = Some c -> cfind id (fst (enter st)) = None ->
  c_hold c = 0 /\ c_seen c + cf_lease (st_cfg st) < st_clock st /\ st_now (fst (enter st)) = st_clock st.
Proof. exact reachable_expiry_before_clock. Qed.
Print Assumptions reachable_expiry_before_clock41.

(* The same in the monitor's own terms (membership in the dump of the verif
   hook, injected clock), over all histories: a client record of the dump of
   a reachable state that is absent from the dump after enter() was not held
   and its lastSeen + lease lies before the clock reading; the client of a
   compound in flight is still in the dump. *)
Theorem dump_expiry_before_clock41 : forall cfg c0 evs dc,
  let st := fst (run (init cfg c0) evs) in
  In dc (d_clients (dump_of st)) ->
  find_dclient (dc_id dc) (dump_of (fst (enter st))) = None ->
  dc_hold dc = 0%Z /\ dc_seen dc + cf_lease (st_cfg st) < st_clock st.
Proof. exact dump_expiry_before_clock. Qed.
Print Assumptions dump_expiry_before_clock41.

Theorem dump_inflight_client_survives41 : forall cfg c0 evs t,
  let st := fst (run (init cfg c0) evs) in
  In t (st_threads st) -> find_dclient (t_client t) (dump_of (fst (enter st))) <> None.
Proof. exact dump_inflight_client_survives. Qed.
Print Assumptions dump_inflight_client_survives41.

(* Soundness of the rule [lease_check] (the predicate Corr.v evaluates) for
   lease expiry, for every reachable model state [st] and every monitor
   state [L] in the simulation relation - clocks agree; every idle client
   was last heard of no later than its lastSeen; every compound the monitor
   believes in flight is in flight -: a step that removes no client beyond
   what enter() expires is accepted.  (What is missing for
   lease_monitor_holds_on_model: that [lease_update] maintains the relation,
   and the justification of removals by CREATE_SESSION / DESTROY_CLIENTID.) *)
Theorem lease_check_sound_for_expiry_partial : forall cfg c0 evs L s st',
  let st := fst (run (init cfg c0) evs) in
  lm_clock L = st_clock st ->
  (forall c, In c (st_clients st) -> c_hold c = 0 -> exists t, heard_of L (c_id c) = Some t /\ t <= c_seen c) ->
  (forall f, In f (lm_fly L) -> exists t, In t (st_threads st) /\ t_client t = ly_client f) ->
  (forall id, cfind id (fst (enter st)) <> None -> cfind id st' <> None) ->
  hs_dump s = dump_of st' ->
  lease_check (cf_lease (st_cfg st)) L (dump_of st) s = "".
Proof. exact lease_check_sound_for_expiry. Qed.
Print Assumptions lease_check_sound_for_expiry_partial.

(* The monitor accepts the model's trace of a client heard of only through
   SEQUENCE for 5.1 lease periods (one compound in flight for 1.4 leases);
   both clients are still registered then and expire after two leases of
   silence. *)
Theorem lease_monitor_accepts_model_trace :
  clients_after (firstn 36 lease_events) = [1; 4]
  /\ clients_after lease_events = []
  /\ lease_case lease_cfg 1000 (model_hsteps lease_cfg 1000 lease_events) = None.
Proof. exact lease_example_keeps_client. Qed.
Print Assumptions lease_monitor_accepts_model_trace.

(* Non-vacuity of the rule: an expiry within the (ten times longer) lease
   and an expiry underneath a compound in flight are reported. *)
Theorem lease_monitor_rejects_early_expiry :
  lease_from 10000 0 (lmon_init 1000) empty_dump (model_hsteps lease_cfg 1000 lease_events)
    = Some (37%nat, "C18:client-expired-within-lease")
  /\ lease_case lease_cfg 1000 doctored_during_io = Some (23%nat, "C18:client-expired-during-io").
Proof. exact lease_rule_rejects. Qed.
Print Assumptions lease_monitor_rejects_early_expiry.
