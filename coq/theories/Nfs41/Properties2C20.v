(* C20 through NFSv4.1, second round: lock-owner identity, lockCount,
   CLOSE.  The property theorems, and nothing else; proofs in Proofs2*.v.
   All statements are over every list of events from the initial state. *)
From Coq Require Import Lia.
From VF Require Import Nfs41.Proofs2Examples Nfs41.Proofs2NoPanic Nfs41.Proofs2Excl Nfs41.Proofs2Expiry Nfs41.Proofs2Lifetime.
Open Scope N_scope.

(* ---- one_owner_one_object (no hypothesis: the repaired code) -------------------------------------
   For every history: lock-owner object identities are positive, below the
   allocation counter (never reused) and belong to one client;
   lockOwnersByOwner maps a protocol-level lock-owner to at most one object
   and an object to one lock-owner; every lock-owner file refers to the
   object registered for its lock-owner; fileCount is the number of
   lock-owner files referring to the object (and positive while the object
   is registered); an open-owner file has at most one lock-owner file per
   lock-owner.  LOCK / LOCKT / LOCKU by that lock-owner therefore address
   the file's lock table with one identity (lockt_iff_lock41,
   own_locks_never_conflict41 in PropertiesC20.v). *)
Theorem one_owner_one_object : forall cfg c0 evs,
  let st := reachable cfg c0 evs in
  (forall c x, In c (st_clients st) -> In x (c_lowners c) -> 0 < lo_id x /\ lo_id x < st_nextlo st)
  /\ (forall c1 c2 x1 x2, In c1 (st_clients st) -> In c2 (st_clients st) ->
        In x1 (c_lowners c1) -> In x2 (c_lowners c2) -> lo_id x1 = lo_id x2 -> c1 = c2 /\ x1 = x2)
  /\ forall c, In c (st_clients st) ->
       NoDup (map lo_key (c_lowners c)) /\ NoDup (map lo_id (c_lowners c))
       /\ (forall o lf, In o (c_oofs c) -> In lf (of_lofs o) ->
             exists x, find_lowner_id (lf_owner lf) (c_lowners c) = Some x /\ In x (c_lowners c))
       /\ (forall x, In x (c_lowners c) ->
             Z.of_N (lo_files x) = lock_files c (lo_id x) /\ 0 < lo_files x)
       /\ (forall o, In o (c_oofs c) -> NoDup (map lf_owner (of_lofs o))).
Proof. exact one_owner_one_object_lemma. Qed.
Print Assumptions one_owner_one_object.

(* ... for the client's lifetime: across any event (from any reachable
   state), the object registered for a lock-owner name of a client is the
   one registered before, or a new one whose identity is at least the
   allocation counter before the event -- larger than every identity used
   so far (no hypothesis). *)
Theorem lock_owner_object_stable : forall cfg c0 evs e c c' x x',
  let st := reachable cfg c0 evs in
  let st' := fst (step st e) in
  In c (st_clients st) -> In c' (st_clients st') -> c_id c = c_id c' ->
  In x (c_lowners c) -> In x' (c_lowners c') -> lo_key x = lo_key x' ->
  lo_id x' = lo_id x \/ (st_nextlo st <= lo_id x' /\ lo_id x < lo_id x').
Proof. exact lock_owner_object_stable_lemma. Qed.
Print Assumptions lock_owner_object_stable.

(* ---- exclusion through the NFS layer (only the ranges need to be valid) ----------------------------
   Every lock table the NFSv4.1 program builds -- any interleaving of LOCK,
   LOCKU, CLOSE, FREE_STATEID, lease expiry, CREATE_SESSION ..., also in the
   presence of the shared-lock-owner finding -- is well formed (LockSet.wf)
   and keeps different lock-owner objects apart: entry-wise ([compatible])
   and per byte ([excl_bytes]: two different owners never both hold a byte
   unless both hold it shared).  Together with one_owner_one_object (one
   protocol-level lock-owner = one object) this is the C20 statement for
   locks taken through NFSv4.1. *)
Theorem nfs_lock_tables_exclusive : forall cfg c0 evs, Forall event_valid evs ->
  forall h, let table := pool_locks h (st_pool (reachable cfg c0 evs)) in
    LSS.wf table = true /\ LSS.compatible table = true /\ LSS.excl_bytes table.
Proof. exact tables_exclusive. Qed.
Print Assumptions nfs_lock_tables_exclusive.

(* ---- lockCount --------------------------------------------------------------------------------------
   Hypotheses (explicit): [Forall event_valid evs]: LOCK / LOCKU carry
   uint64 (offset, length) other than (2^64-1, 2^64-1), the pair for which
   offsetLengthToStartEnd yields an empty range (LockSet finding
   "empty-range-accepted"); [never_shared (init cfg c0) evs]: at no point of
   the history does one lock-owner hold lock state on one file through two
   open-owner files -- the trigger of the known finding
   "C20:shared-lock-owner" (see [shared_lock_owner_refutes] below: without
   it the statements are false of the model, as they are of the code).
   Then, in every reachable state: lockCount of a lock-owner file is the
   number of entries of its lock-owner object in the file's lock table (and
   not negative); every entry of a table belongs to a lock-owner file of a
   live open-owner file on that file handle; the tables are well formed. *)
Theorem lockcount_exact : forall cfg c0 evs,
  Forall event_valid evs -> never_shared (init cfg c0) evs ->
  let st := reachable cfg c0 evs in
  (forall c o lf, In c (st_clients st) -> In o (c_oofs c) -> In lf (of_lofs o) ->
     lf_count lf = table_entries st (of_handle o) (lf_owner lf) /\ (0 <= lf_count lf)%Z)
  /\ (forall h k, In k (pool_locks h (st_pool st)) ->
        exists c o lf, In c (st_clients st) /\ In o (c_oofs c) /\ of_live o = true /\ In lf (of_lofs o)
                       /\ of_handle o = h /\ lf_owner lf = LS.lowner k)
  /\ (forall h, LSS.wf (pool_locks h (st_pool st)) = true).
Proof. exact lockcount_exact_lemma. Qed.
Print Assumptions lockcount_exact.

(* lockcount_never_panics, as conditions on every reachable state: the
   checks behind panic("Negative lock count"), panic("Lock-owner file
   still holds locks") and the two panics of ByteRangeLockSet.Set evaluate
   to "fine" for every lock-owner file -- whatever LOCK / LOCKU / CLOSE /
   FREE_STATEID / lease expiry does next to it.  (That CLOSE as a whole
   raises no panic at all is part of [close_releases_exactly].) *)
Theorem lockcount_never_panics : forall cfg c0 evs,
  Forall event_valid evs -> never_shared (init cfg c0) evs ->
  let st := reachable cfg c0 evs in
  forall c o lf, In c (st_clients st) -> In o (c_oofs c) -> In lf (of_lofs o) ->
    let table := pool_locks (of_handle o) (st_pool st) in
    (0 <= lf_count lf)%Z
    /\ (forall q, LS.lowner q = lf_owner lf -> (0 <= lf_count lf + LS.set_delta (LS.set table q))%Z)
    /\ (if (0 <? lf_count lf)%Z then (lf_count lf + LS.set_delta (LS.set table (unlock_q (lf_owner lf))))%Z = 0%Z
        else lf_count lf = 0%Z)
    /\ (forall q, qvalid q -> LS.set_panic (LS.set table q) = false).
Proof. exact lockcount_checks. Qed.
Print Assumptions lockcount_never_panics.

(* ... and as a theorem over histories: under the two hypotheses NO panic
   that the model tracks is reachable at all -- lockCount ("Negative lock
   count", "Lock-owner file still holds locks"), fileCount, share counts
   (referenceCount), hold count ("release" of an idle incarnation), removal
   of an incarnation that still has state or sessions, useCount of the
   pool, a busy slot without its compound, ByteRangeLockSet.Set -- for any
   interleaving of CLOSE, LOCK, LOCKU, FREE_STATEID, OPEN, OPEN_DOWNGRADE,
   I/O in flight, lease expiry, CREATE_SESSION / DESTROY_* . *)
Theorem no_panic : forall cfg c0 evs,
  Forall event_valid evs -> never_shared (init cfg c0) evs -> st_panic (reachable cfg c0 evs) = false.
Proof. exact no_panic_reachable. Qed.
Print Assumptions no_panic.

(* close_releases_exactly: CLOSE with a state ID that resolves to the
   open-owner file [o] answers NFS4_OK, raises no panic, removes from the
   lock table of o's file exactly the entries of the lock-owner objects
   that have a lock-owner file on [o] -- all other entries of that table,
   in the same order, and every other table are unchanged. *)
Theorem close_releases_exactly : forall cfg c0 evs,
  Forall event_valid evs -> never_shared (init cfg c0) evs ->
  let st := reachable cfg c0 evs in
  forall c s cfh sfh o,
    find_client (c_id c) (st_clients st) = Some c ->
    get_oofs c cfh s true = (Some o, NFS4_OK) ->
    let r := op_close s c st cfh sfh in
    sr_step r = Done (RStatus OP_CLOSE NFS4_OK)
    /\ st_panic (sr_st r) = st_panic st
    /\ forall h', pool_locks h' (st_pool (sr_st r))
                  = if h' =? of_handle o then filter (not_of (of_lofs o)) (pool_locks h' (st_pool st))
                    else pool_locks h' (st_pool st).
Proof. exact close_exact. Qed.
Print Assumptions close_releases_exactly.

(* The same for the removal of one open-owner file wherever it happens
   (CLOSE, lease expiry, CREATE_SESSION replacing an incarnation), from a
   reachable state. *)
Theorem remove_releases_exactly : forall cfg c0 evs,
  Forall event_valid evs -> never_shared (init cfg c0) evs ->
  let st := reachable cfg c0 evs in
  forall c o c1 pool1 outs pn,
    In c (st_clients st) -> In o (c_oofs c) -> of_live o = true ->
    oofs_remove o c (st_pool st) = (c1, pool1, outs, pn) ->
    pn = false
    /\ forall h', pool_locks h' pool1
                  = if h' =? of_handle o then filter (not_of (of_lofs o)) (pool_locks h' (st_pool st))
                    else pool_locks h' (st_pool st).
Proof. exact oofs_remove_exact. Qed.
Print Assumptions remove_releases_exactly.

(* Lease expiry / CREATE_SESSION replacing an incarnation
   (clientIncarnationState.emptyAndRemove of client [c]): every lock table
   loses exactly the entries of the lock-owner objects of [c]; all other
   entries stay, in the same order.  (The same holds from every state that
   satisfies the invariants -- the intermediate states of enter()'s loop
   over several expired clients: empty_and_remove_tables_inv.) *)
Theorem expiry_releases_exactly : forall cfg c0 evs,
  Forall event_valid evs -> never_shared (init cfg c0) evs ->
  let st := reachable cfg c0 evs in
  forall id c, find_client id (st_clients st) = Some c ->
  forall h, pool_locks h (st_pool (fst (empty_and_remove id st)))
            = filter (not_of_client c) (pool_locks h (st_pool st)).
Proof. exact empty_and_remove_tables. Qed.
Print Assumptions expiry_releases_exactly.

(* FREE_STATEID releases nothing: it never touches a lock table (it is
   gated by lockCount: free_stateid_locks_held_gate in PropertiesC20.v). *)
Theorem free_stateid_releases_nothing : forall cfg c0 evs s c cfh sfh,
  st_pool (sr_st (op_free_stateid s c (reachable cfg c0 evs) cfh sfh)) = st_pool (reachable cfg c0 evs).
Proof. exact free_stateid_pool. Qed.
Print Assumptions free_stateid_releases_nothing.

(* LOCKU through a lock state ID that resolves to the lock-owner file [lf]
   of the open-owner file [o]: no check fires, and per byte the lock table
   of o's file loses exactly the bytes of lf's lock-owner in [s0,e0) -- every
   other byte of every owner keeps its lock ([LSS.kind_at]: LockSet's
   per-byte reading of a table).  The other tables are untouched
   ([locku_other_tables]). *)
Theorem locku_releases_exactly : forall cfg c0 evs,
  Forall event_valid evs -> never_shared (init cfg c0) evs ->
  let st := reachable cfg c0 evs in
  forall c s off len cfh sfh o lf s0 e0,
    find_client (c_id c) (st_clients st) = Some c ->
    get_lofs c cfh s = (Some (o, lf), NFS4_OK) ->
    req_valid off len ->
    LS.offset_length_to_start_end off len = Some (s0, e0) ->
    let r := op_locku s off len c st cfh sfh in
    st_panic (sr_st r) = st_panic st
    /\ forall ow b, LSS.kind_at (pool_locks (of_handle o) (st_pool (sr_st r))) ow b
                    = if (ow =? lf_owner lf) && (s0 <=? b) && (b <? e0) then None
                      else LSS.kind_at (pool_locks (of_handle o) (st_pool st)) ow b.
Proof. exact locku_exact. Qed.
Print Assumptions locku_releases_exactly.

Theorem locku_other_tables : forall cfg c0 evs,
  let st := reachable cfg c0 evs in
  forall c s off len cfh sfh o lf s0 e0,
    find_client (c_id c) (st_clients st) = Some c ->
    get_lofs c cfh s = (Some (o, lf), NFS4_OK) ->
    LS.offset_length_to_start_end off len = Some (s0, e0) ->
    let r := op_locku s off len c st cfh sfh in
    let q := LS.mkLock s0 e0 (lf_owner lf) LS.Unlocked in
    forall h', pool_locks h' (st_pool (sr_st r))
               = if h' =? of_handle o then LS.set_list (LS.set (pool_locks h' (st_pool st)) q)
                 else pool_locks h' (st_pool st).
Proof. exact locku_table. Qed.
Print Assumptions locku_other_tables.

(* ==== the hypothesis is needed, and satisfiable (histories: Proofs2Examples.v) ====================== *)
(* lockcount_exact and close_releases_exactly without [never_shared] are
   false: the CLOSE releases the ranges locked through the other open-owner
   and its lockCount check fires (the known finding; replayed on the code:
   corpus/C20/shared_lock_owner_panic.json). *)
Theorem shared_lock_owner_refutes :
  Forall event_valid shared_events
  /\ never_shared_b (init cfg3 1000) shared_events = false
  /\ st_panic (reachable cfg3 1000 shared_events) = true.
Proof. exact shared_refutes. Qed.
Print Assumptions shared_lock_owner_refutes.

(* The hypotheses hold of ordinary histories: one open-owner, lock, a
   second lock-owner, unlock, close. *)
Definition plain_events : list event :=
  [ ESolo 1 (SExchangeId 0 10); ESolo 2 (SCreateSession 1 3) ]
  ++ open_lock 3 1 0 0 ++
  [ ESeqBegin 4 3 0 2 true [OPutFH 1; OLock 1 20 10 (LockerNew (mkSid 0 1 0) 2); OLockU sid_current 22 3];
    ESection 4 FsOk; ESection 4 FsOk; ESection 4 FsOk; ESection 4 FsOk ].
Definition plain_events_end : list event :=
  plain_events ++
  [ ESeqBegin 5 3 0 3 true [OPutFH 1; OClose (mkSid 0 1 0)];
    ESection 5 FsOk; ESection 5 FsOk; ESection 5 FsOk ].

Example plain_history_satisfies_hypotheses :
  Forall event_valid plain_events_end /\ never_shared (init cfg3 1000) plain_events_end.
Proof.
  split; [|apply never_shared_b_iff; vm_compute; reflexivity].
  unfold plain_events_end, plain_events, open_lock. cbn [app]. solve_valid.
Qed.

Example plain_history_tables :
  let st := reachable cfg3 1000 plain_events in
  map (fun p => (pf_handle p, map (fun k => (LS.lstart k, LS.lend k, LS.lowner k)) (pf_locks p))) (st_pool st)
  = [(1, [(0, 10, 1); (20, 22, 2); (25, 30, 2)])]
  /\ map (fun c => map (fun o => map (fun lf => (lf_owner lf, lf_count lf)) (of_lofs o)) (c_oofs c)) (st_clients st)
     = [[[(1, 1%Z); (2, 2%Z)]]]
  /\ st_pool (reachable cfg3 1000 plain_events_end) = [] /\ st_panic (reachable cfg3 1000 plain_events_end) = false.
Proof. vm_compute. repeat split; reflexivity. Qed.
