(* Facts about ByteRangeLockSet.Set (VF.LockSet.Model) needed for the
   lockCount bookkeeping of the NFSv4.1 program: Set only touches the
   entries of the requesting owner, the returned delta is the change of the
   number of that owner's entries, UnlockAll removes all of them, and
   entries never end beyond 2^64-1. *)
From Coq Require Import Lia ZifyBool ZifyN.
From VF Require Import LockSet.Model LockSet.Spec LockSet.ProofsBase LockSet.ProofsSet.
From VF Require Export Nfs41.Proofs2View.
Open Scope N_scope.

Module LSS := VF.LockSet.Spec.
Module LSB := VF.LockSet.ProofsBase.

Definition other (id : N) (k : LS.lock) : bool := negb (LS.lowner k =? id).
Definition mine (id : N) (k : LS.lock) : bool := LS.lowner k =? id.

Ltac brk :=
  repeat match goal with
  | |- context [if ?c then _ else _] => destruct c eqn:?
  end.

(* ---- only the requester's entries change -------------------------------------------- *)
Lemma filter_other_otl : forall id tr, (forall t, tr = Some t -> LS.lowner t = id) -> filter (other id) (LSB.otl tr) = [].
Proof.
  intros id tr H. destruct tr as [t|]; [|reflexivity]. cbn. unfold other. rewrite (H t eq_refl), N.eqb_refl. reflexivity.
Qed.

Lemma fin_post_other : forall l nw tr,
  (forall t, tr = Some t -> LS.lowner t = LS.lowner nw) ->
  filter (other (LS.lowner nw)) (LSB.fin_post l nw tr) = filter (other (LS.lowner nw)) l.
Proof.
  induction l as [|s tl IH]; intros nw tr Htr; cbn [LSB.fin_post].
  - apply filter_other_otl. exact Htr.
  - destruct (LS.lend nw <? LS.lstart s).
    + rewrite filter_app, filter_other_otl by exact Htr. reflexivity.
    + destruct (LS.lowner s =? LS.lowner nw) eqn:Eo.
      * assert (Hs : other (LS.lowner nw) s = false) by (unfold other; rewrite Eo; reflexivity).
        cbn [filter]. rewrite Hs.
        destruct (LS.lend s <=? LS.lend nw); [apply IH; exact Htr|].
        destruct (LS.ltype_eqb (LS.ltyp nw) (LS.ltyp s)).
        -- apply (IH (LS.with_end nw (LS.lend s)) tr). exact Htr.
        -- apply IH. intros t Ht. inversion Ht; subst. cbn. apply N.eqb_eq. exact Eo.
      * assert (Hs : other (LS.lowner nw) s = true) by (unfold other; rewrite Eo; reflexivity).
        cbn [filter]. rewrite Hs. f_equal. apply IH. exact Htr.
Qed.

Lemma fin_new_owner : forall l nw, LS.lowner (LSB.fin_new l nw) = LS.lowner nw.
Proof.
  induction l as [|s tl IH]; intros nw; cbn [LSB.fin_new]; [reflexivity|].
  brk; try reflexivity; try apply IH. rewrite IH. reflexivity.
Qed.

Lemma done_other : forall l nw tr,
  (forall t, tr = Some t -> LS.lowner t = LS.lowner nw) ->
  filter (other (LS.lowner nw)) (LSB.done l nw tr) = filter (other (LS.lowner nw)) l.
Proof.
  intros l nw tr Htr. unfold LSB.done. rewrite filter_app, fin_post_other by exact Htr.
  assert (E : filter (other (LS.lowner nw)) (LSB.ins (LS.ltyp nw) (LSB.fin_new l nw)) = []).
  { unfold LSB.ins. destruct (LS.ltyp nw); cbn; try reflexivity; unfold other; rewrite fin_new_owner, N.eqb_refl; reflexivity. }
  rewrite E. reflexivity.
Qed.

Lemma setl_other : forall l nw tr,
  (forall t, tr = Some t -> LS.lowner t = LS.lowner nw) ->
  filter (other (LS.lowner nw)) (LSB.setl l nw tr) = filter (other (LS.lowner nw)) l.
Proof.
  induction l as [|s tl IH]; intros nw tr Htr; cbn [LSB.setl]; [apply done_other; exact Htr|].
  destruct (LS.lstart nw <=? LS.lstart s); [apply done_other; exact Htr|].
  destruct (LS.lowner s =? LS.lowner nw) eqn:Eo.
  - assert (Hs : other (LS.lowner nw) s = false) by (unfold other; rewrite Eo; reflexivity).
    destruct (LS.ltype_eqb (LS.ltyp nw) (LS.ltyp s)).
    + destruct (LS.lstart nw <=? LS.lend s).
      * apply (done_other (s :: tl) (LS.with_start nw (LS.lstart s)) tr). exact Htr.
      * cbn [filter]. rewrite Hs. apply IH. exact Htr.
    + destruct (LS.lstart nw <? LS.lend s).
      * assert (Hs' : other (LS.lowner nw) (LS.with_end s (LS.lstart nw)) = false) by (unfold other; cbn; rewrite Eo; reflexivity).
        destruct (LS.lend nw <? LS.lend s); cbn [filter]; rewrite Hs, Hs'.
        -- apply IH. intros t Ht. inversion Ht; subst. cbn. apply N.eqb_eq. exact Eo.
        -- apply IH. exact Htr.
      * cbn [filter]. rewrite Hs. apply IH. exact Htr.
  - assert (Hs : other (LS.lowner nw) s = true) by (unfold other; rewrite Eo; reflexivity).
    cbn [filter]. rewrite Hs. f_equal. apply IH. exact Htr.
Qed.

Theorem set_other_entries : forall l q,
  filter (other (LS.lowner q)) (LS.set_list (LS.set l q)) = filter (other (LS.lowner q)) l.
Proof. intros. rewrite LSB.set_list_setl. apply setl_other. intros t Ht. discriminate. Qed.

(* ---- counting ---------------------------------------------------------------------------- *)
Definition tcnt (id : N) (l : list LS.lock) : Z := countz (mine id) l.

Lemma tcnt_filter_other : forall id id' l, id' <> id -> tcnt id' (filter (other id) l) = tcnt id' l.
Proof.
  intros id id' l Hne. unfold tcnt. induction l as [|k l IH]; [reflexivity|]. cbn [filter].
  destruct (other id k) eqn:E.
  - rewrite !countz_cons, IH. reflexivity.
  - rewrite countz_cons, IH. unfold other in E. apply Bool.negb_false_iff, N.eqb_eq in E.
    unfold mine. assert (E2 : LS.lowner k =? id' = false) by (apply N.eqb_neq; congruence). rewrite E2. cbn. lia.
Qed.

Lemma length_split : forall id l, Z.of_nat (length l) = (tcnt id l + Z.of_nat (length (filter (other id) l)))%Z.
Proof.
  intros id l. unfold tcnt. induction l as [|k l IH]; [reflexivity|].
  rewrite countz_cons. cbn [filter length]. unfold other at 1, mine at 1.
  destruct (LS.lowner k =? id); cbn [negb b2z length]; lia.
Qed.

Theorem set_count_other : forall l q id', id' <> LS.lowner q ->
  tcnt id' (LS.set_list (LS.set l q)) = tcnt id' l.
Proof.
  intros l q id' Hne.
  rewrite <- (tcnt_filter_other (LS.lowner q) id' (LS.set_list (LS.set l q)) Hne), set_other_entries.
  apply tcnt_filter_other. exact Hne.
Qed.

Theorem set_count_mine : forall l q,
  tcnt (LS.lowner q) (LS.set_list (LS.set l q)) = (tcnt (LS.lowner q) l + LS.set_delta (LS.set l q))%Z.
Proof.
  intros l q. rewrite LSB.set_delta_length.
  rewrite (length_split (LS.lowner q) (LS.set_list (LS.set l q))), (length_split (LS.lowner q) l), set_other_entries. lia.
Qed.

(* ---- entries never end beyond 2^64-1 -------------------------------------------------------- *)
Definition bnd (k : LS.lock) : Prop := LS.lend k <= u64max.
Definition obnd (tr : option LS.lock) : Prop := forall t, tr = Some t -> bnd t.

Lemma fin_new_bnd : forall l nw, (forall k, In k l -> bnd k) -> bnd nw -> bnd (LSB.fin_new l nw).
Proof.
  induction l as [|s tl IH]; intros nw Hl Hn; cbn [LSB.fin_new]; [exact Hn|].
  assert (Hs : bnd s) by (apply Hl; left; reflexivity).
  assert (Htl : forall k, In k tl -> bnd k) by (intros k Hk; apply Hl; right; exact Hk).
  brk; auto; apply IH; try exact Htl; unfold bnd in *; cbn; auto.
Qed.

Lemma fin_post_bnd : forall l nw tr x, (forall k, In k l -> bnd k) -> obnd tr ->
  In x (LSB.fin_post l nw tr) -> bnd x.
Proof.
  induction l as [|s tl IH]; intros nw tr x Hl Ht; cbn [LSB.fin_post].
  - destruct tr as [t|]; cbn; [intros [<-|[]]; apply Ht; reflexivity|intros []].
  - assert (Hs : bnd s) by (apply Hl; left; reflexivity).
    assert (Htl : forall k, In k tl -> bnd k) by (intros k Hk; apply Hl; right; exact Hk).
    brk.
    + intros H. apply in_app_or in H. destruct H as [H|H]; [|apply Hl; exact H].
      destruct tr as [t|]; cbn in H; [destruct H as [<-|[]]; apply Ht; reflexivity|destruct H].
    + apply IH; assumption.
    + apply IH; assumption.
    + apply IH; [exact Htl|]. intros t E. inversion E; subst. unfold bnd in *. cbn. exact Hs.
    + intros [<-|H]; [exact Hs|]. eapply IH; eauto.
Qed.

Lemma done_bnd : forall l nw tr x, (forall k, In k l -> bnd k) -> bnd nw -> obnd tr ->
  In x (LSB.done l nw tr) -> bnd x.
Proof.
  intros l nw tr x Hl Hn Ht H. unfold LSB.done in H. apply in_app_or in H. destruct H as [H|H].
  - unfold LSB.ins in H. destruct (LS.ltyp nw); cbn in H; try (destruct H as [<-|[]]; apply fin_new_bnd; assumption); destruct H.
  - eapply fin_post_bnd; eauto.
Qed.

Lemma setl_bnd : forall l nw tr x, (forall k, In k l -> bnd k) -> bnd nw -> obnd tr ->
  In x (LSB.setl l nw tr) -> bnd x.
Proof.
  induction l as [|s tl IH]; intros nw tr x Hl Hn Ht; cbn [LSB.setl]; [apply done_bnd; assumption|].
  assert (Hs : bnd s) by (apply Hl; left; reflexivity).
  assert (Htl : forall k, In k tl -> bnd k) by (intros k Hk; apply Hl; right; exact Hk).
  brk; try (apply done_bnd; assumption);
    (intros [<-|Hx];
     [first [exact Hs | (unfold bnd in *; cbn; lia)]
     |eapply IH; [exact Htl|exact Hn| |exact Hx];
      first [exact Ht | (intros t E; inversion E; subst; unfold bnd in *; cbn; exact Hs)]]).
Qed.

Theorem set_bounded : forall l q x, (forall k, In k l -> bnd k) -> bnd q ->
  In x (LS.set_list (LS.set l q)) -> bnd x.
Proof. intros l q x Hl Hq H. rewrite LSB.set_list_setl in H. eapply setl_bnd; eauto. intros t E. discriminate. Qed.

(* ---- UnlockAll ------------------------------------------------------------------------------ *)
Definition unlock_q (id : N) : LS.lock := LS.mkLock 0 u64max id LS.Unlocked.

Lemma fin_post_unlock_all : forall l id,
  (forall k, In k l -> LS.lstart k <= u64max /\ LS.lend k <= u64max) ->
  LSB.fin_post l (unlock_q id) None = filter (other id) l.
Proof.
  induction l as [|s tl IH]; intros id Hl; cbn [LSB.fin_post]; [reflexivity|].
  destruct (Hl s (or_introl eq_refl)) as [B1 B2].
  assert (Htl : forall k, In k tl -> LS.lstart k <= u64max /\ LS.lend k <= u64max) by (intros k Hk; apply Hl; right; exact Hk).
  cbn [unlock_q LS.lend LS.lowner].
  assert (E1 : u64max <? LS.lstart s = false) by (apply N.ltb_ge; exact B1). rewrite E1.
  cbn [filter]. unfold other at 1. destruct (LS.lowner s =? id); cbn [negb].
  - assert (E2 : LS.lend s <=? u64max = true) by (apply N.leb_le; exact B2). rewrite E2. apply IH. exact Htl.
  - f_equal. apply IH. exact Htl.
Qed.

Theorem unlock_all_list : forall l id,
  (forall k, In k l -> LS.lstart k <= u64max /\ LS.lend k <= u64max) ->
  LS.set_list (LS.set l (unlock_q id)) = filter (other id) l.
Proof.
  intros l id Hl. rewrite LSB.set_list_setl. destruct l as [|s tl]; [reflexivity|].
  cbn [LSB.setl unlock_q LS.lstart].
  assert (E0 : 0 <=? LS.lstart s = true) by (apply N.leb_le; lia). rewrite E0.
  unfold LSB.done. cbn [LS.ltyp LSB.ins app]. apply (fin_post_unlock_all (s :: tl) id Hl).
Qed.

Lemma tcnt_filter_other_same : forall id l, tcnt id (filter (other id) l) = 0%Z.
Proof.
  intros id l. unfold tcnt. apply countz_false. intros k Hk. apply filter_In in Hk. destruct Hk as [_ Hk].
  unfold other in Hk. unfold mine. apply Bool.negb_true_iff in Hk. exact Hk.
Qed.

(* Well-formed entries start before they end. *)
Lemma wf_bounds : forall l, LSS.wf l = true -> (forall k, In k l -> bnd k) ->
  forall k, In k l -> LS.lstart k <= u64max /\ LS.lend k <= u64max.
Proof.
  intros l Hwf Hb k Hk. pose proof (wf_entry l k Hwf Hk) as He. specialize (Hb k Hk). unfold bnd in Hb.
  unfold LSS.entry_ok in He. apply Bool.andb_true_iff in He. destruct He as [He _]. apply N.ltb_lt in He. lia.
Qed.
