(* Facts about the monitor itself (Spec.v): the owner encoding used when
   LockSet's table predicates are applied to dumped tables is injective,
   so distinct lock-owners are never confused. *)
From VF Require Import Nfs41.Spec.
From Coq Require Import Lia.
Open Scope N_scope.

Lemma tri_succ : forall n, tri (n + 1) = tri n + (n + 1).
Proof.
  intros n. unfold tri.
  replace ((n + 1) * (n + 1 + 1)) with (n * (n + 1) + (n + 1) * 2) by lia.
  rewrite N.div_add by lia. reflexivity.
Qed.

Lemma tri_mono : forall a b, a <= b -> tri a <= tri b.
Proof.
  intros a b H. unfold tri. apply N.div_le_mono; [lia|]. apply N.mul_le_mono; lia.
Qed.

Lemma cpair_sum : forall a b c d, cpair a b = cpair c d -> a + b = c + d.
Proof.
  intros a b c d H. unfold cpair in H.
  destruct (N.lt_trichotomy (a + b) (c + d)) as [L|[E|L]]; [|exact E|]; exfalso.
  - assert (tri (a + b + 1) <= tri (c + d)) by (apply tri_mono; lia). rewrite tri_succ in H0. lia.
  - assert (tri (c + d + 1) <= tri (a + b)) by (apply tri_mono; lia). rewrite tri_succ in H0. lia.
Qed.

Lemma cpair_inj : forall a b c d, cpair a b = cpair c d -> a = c /\ b = d.
Proof.
  intros a b c d H. pose proof (cpair_sum a b c d H) as S. unfold cpair in H. rewrite S in H. lia.
Qed.

Lemma owner_code_inj : forall c1 k1 t1 c2 k2 t2,
  (-1 <= t1)%Z -> (-1 <= t2)%Z ->
  owner_code c1 k1 t1 = owner_code c2 k2 t2 -> c1 = c2 /\ k1 = k2 /\ t1 = t2.
Proof.
  intros c1 k1 t1 c2 k2 t2 H1 H2 H. unfold owner_code in H.
  apply cpair_inj in H. destruct H as [H Ht]. apply cpair_inj in H. destruct H as [Hc Hk].
  repeat split; try assumption. lia.
Qed.
