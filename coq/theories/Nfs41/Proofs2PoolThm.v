(* C18, opened-files pool: the theorems over all histories. *)
From VF Require Export Nfs41.Proofs2Pool Nfs41.Proofs2Refine3 Nfs41.ProofsTheorems.
Open Scope N_scope.

Definition QT (q : LS.lock) : Prop := True.

Lemma threads_ok_QT : forall st, threads_ok QT st.
Proof.
  intros st t _. apply Forall_forall. intros o _. destruct o; cbn; try exact Logic.I; intros s1 e1 oid ty _; exact Logic.I.
Qed.

(* An invariant of views closed under the steps of the view holds in
   every reachable state of the model. *)
Lemma run_view_inv : forall (P : vstate -> Prop),
  (forall a b, vwf a -> P a -> vstep QT a b -> P b) ->
  forall evs st, full_inv st -> P (view st) -> P (view (fst (run st evs))).
Proof.
  intros P HP. induction evs as [|e tl IH]; intros st F Pst; cbn [run]; [exact Pst|].
  pose proof (step_view QT st e F (threads_ok_QT st)) as V.
  destruct (step_full st e F) as [F1 _].
  destruct (step st e) as [st1 o1]. cbn [fst] in *.
  specialize (IH st1 F1 (HP _ _ (acct_vwf st (proj1 F)) Pst V)).
  destruct (run st1 tl) as [st2 o2]. exact IH.
Qed.

Lemma init_pool_ok : forall cfg c0, pool_ok (view (init cfg c0)).
Proof. intros. split; cbn; [constructor|]. intros h. split; [reflexivity|discriminate]. Qed.

Theorem reachable_pool_ok : forall cfg c0 evs, pool_ok (view (reachable cfg c0 evs)).
Proof.
  intros. unfold reachable. apply (run_view_inv pool_ok).
  - intros a b W P V. exact (proj1 (vstep_pool_ok QT a b W P V)).
  - apply init_full.
  - apply init_pool_ok.
Qed.

(* ---- stated on the model state -------------------------------------------------------- *)
(* Number of live open-owner files, of all clients, on file handle [h]. *)
Definition live_opens (st : state) (h : N) : Z :=
  sumz (fun c => countz (fun o => of_live o && (of_handle o =? h)) (c_oofs c)) (st_clients st).

Lemma v_use_live_opens : forall st h, v_use (v_cls (view st)) h = live_opens st h.
Proof.
  intros. unfold v_use, live_opens. cbn [view v_cls]. rewrite sumz_map. apply sumz_ext. intros c _.
  unfold v_live_on. cbn [vc vc_oofs]. rewrite countz_map. reflexivity.
Qed.

Lemma pool_usecount_is_exact : forall cfg c0 evs h,
  let st := reachable cfg c0 evs in
  match find_pfile h (st_pool st) with
  | Some p => Z.of_N (pf_use p) = live_opens st h /\ (0 < live_opens st h)%Z
  | None => live_opens st h = 0%Z
  end.
Proof.
  intros cfg c0 evs h st. destruct (reachable_pool_ok cfg c0 evs) as [_ P]. fold st in P.
  destruct (P h) as [U1 U2]. rewrite v_use_live_opens in U1. unfold puse, pmem in *. cbn [view v_pool] in *.
  destruct (find_pfile h (st_pool st)) as [p|].
  - split; [exact U1|]. specialize (U2 eq_refl). lia.
  - cbn in U1. lia.
Qed.

Lemma pool_handles_unique : forall cfg c0 evs, NoDup (map pf_handle (st_pool (reachable cfg c0 evs))).
Proof. intros. exact (proj1 (reachable_pool_ok cfg c0 evs)). Qed.

Lemma live_opens_pos : forall st c o, In c (st_clients st) -> In o (c_oofs c) -> of_live o = true ->
  (0 < live_opens st (of_handle o))%Z.
Proof.
  intros st c o Hc Ho Hl. unfold live_opens.
  set (f := fun c0 : client => countz (fun o0 => of_live o0 && (of_handle o0 =? of_handle o)) (c_oofs c0)).
  assert (H1 : (f c <= sumz f (st_clients st))%Z).
  { apply (sumz_in_le f); [intros y _; apply countz_nonneg|exact Hc]. }
  assert (H2 : (1 <= f c)%Z).
  { subst f. cbn beta. eapply countz_pos_in; [exact Ho|]. rewrite Hl, N.eqb_refl. reflexivity. }
  lia.
Qed.

(* open_stays_resolvable: while an open-owner file refers to a file
   handle, the pool has an entry for it, so PUTFH of that handle succeeds
   whatever the file system would answer (for instance after REMOVE). *)
Lemma open_has_pool_entry : forall cfg c0 evs c o,
  let st := reachable cfg c0 evs in
  In c (st_clients st) -> In o (c_oofs c) -> of_live o = true ->
  exists p, find_pfile (of_handle o) (st_pool st) = Some p /\ 0 < pf_use p.
Proof.
  intros cfg c0 evs c o st Hc Ho Hl.
  pose proof (pool_usecount_is_exact cfg c0 evs (of_handle o)) as P. fold st in P. cbn zeta in P.
  pose proof (live_opens_pos st c o Hc Ho Hl) as Hp.
  destruct (find_pfile (of_handle o) (st_pool st)) as [p|]; [|lia].
  exists p. split; [reflexivity|]. lia.
Qed.

Lemma open_putfh_resolves : forall cfg c0 evs c o c' orc cfh sfh,
  let st := reachable cfg c0 evs in
  In c (st_clients st) -> In o (c_oofs c) -> of_live o = true ->
  op_section (OPutFH (of_handle o)) PhNone orc c' st cfh sfh
  = done st (mkFh (NLeaf (of_handle o)) 0 0) sfh (RStatus OP_PUTFH NFS4_OK).
Proof.
  intros cfg c0 evs c o c' orc cfh sfh st Hc Ho Hl.
  destruct (open_has_pool_entry cfg c0 evs c o Hc Ho Hl) as [p [Hp _]]. fold st in Hp.
  cbn [op_section]. rewrite Hp. reflexivity.
Qed.

(* Conversely: an entry only exists while some open-owner file refers to it. *)
Lemma pool_entry_has_open : forall cfg c0 evs p,
  let st := reachable cfg c0 evs in
  In p (st_pool st) ->
  exists c o, In c (st_clients st) /\ In o (c_oofs c) /\ of_live o = true /\ of_handle o = pf_handle p.
Proof.
  intros cfg c0 evs p st Hp.
  pose proof (pool_usecount_is_exact cfg c0 evs (pf_handle p)) as P. fold st in P. cbn zeta in P.
  pose proof (pool_handles_unique cfg c0 evs) as Hnd. fold st in Hnd.
  rewrite find_pfile_k, (kfind_in_nodup pf_handle _ p Hnd Hp) in P. destruct P as [_ Hpos].
  unfold live_opens in Hpos. apply sumz_pos_ex in Hpos. destruct Hpos as [c [Hc Hcp]].
  apply countz_pos_ex in Hcp. destruct Hcp as [o [Ho Hop]].
  apply Bool.andb_true_iff in Hop. destruct Hop as [Hl Hh]. apply N.eqb_eq in Hh.
  exists c, o. auto.
Qed.

(* ---- expiry -------------------------------------------------------------------------------- *)
Lemma pool_ok_no_clients : forall v, pool_ok v -> v_cls v = [] -> v_pool v = [].
Proof.
  intros v [_ P] Hc. destruct (v_pool v) as [|p l] eqn:Ep; [reflexivity|]. exfalso.
  destruct (P (pf_handle p)) as [U1 U2]. rewrite Hc in U1. cbn in U1.
  assert (Hm : pmem (pf_handle p) (p :: l) = true).
  { unfold pmem. cbn. rewrite N.eqb_refl. reflexivity. }
  specialize (U2 Hm). lia.
Qed.

Lemma enter_pool_ok : forall st, acct_inv st -> pool_ok (view st) -> pool_ok (view (fst (enter st))).
Proof.
  intros st I P. pose proof (enter_view QT st I) as V.
  exact (proj1 (vstep_pool_ok QT _ _ (acct_vwf st I) P (vstep_path QT _ _ V))).
Qed.

Theorem enter_after_all_leases_lapsed_full : forall cfg c0 evs,
  let st := fst (run (init cfg c0) evs) in
  st_threads st = [] ->
  (forall c, In c (st_clients st) -> c_seen c + cf_lease (st_cfg st) < N.max (st_now st) (st_clock st)) ->
  st_clients (fst (enter st)) = [] /\ st_sessions (fst (enter st)) = [] /\ st_threads (fst (enter st)) = []
  /\ st_pool (fst (enter st)) = [] /\ st_idle (fst (enter st)) = []
  /\ forall h b, balance h b (snd (run (init cfg c0) evs) ++ snd (enter st)) = 0%Z.
Proof.
  intros cfg c0 evs st Hth Hexp.
  destruct (enter_after_all_leases_lapsed cfg c0 evs Hth Hexp) as [H1 [H2 [H3 H4]]]. fold st in H1, H2, H3.
  split; [exact H1|]. split; [exact H2|]. split; [exact H3|]. split; [|split; [|exact H4]].
  - pose proof (reachable_full_inv cfg c0 evs) as [I _]. fold st in I.
    pose proof (reachable_pool_ok cfg c0 evs) as P. unfold reachable in P. fold st in P.
    pose proof (enter_pool_ok st I P) as P1.
    apply (pool_ok_no_clients _ P1). cbn [view v_cls]. rewrite H1. reflexivity.
  - pose proof (reachable_full_inv cfg c0 evs) as [I _]. fold st in I.
    destruct (enter_goal st I) as [[_ [_ [_ [_ Iok]]]] _].
    destruct (st_idle (fst (enter st))) as [|id l] eqn:Ei; [reflexivity|]. exfalso.
    destruct (Iok id (or_introl eq_refl)) as [c [Hc _]]. rewrite H1 in Hc. discriminate.
Qed.
