(* No panic: under the hypotheses of the lockCount invariant (uint64
   ranges, no shared lock-owner) no panic of nfs41_program.go /
   opened_files_pool.go / byte_range_lock_set.go that the model tracks
   (st_panic) is reachable.  Part 1: removal of open and lock state
   (CLOSE, lease expiry, CREATE_SESSION replacing an incarnation). *)
From Coq Require Import Lia ZifyBool ZifyN.
From VF Require Import LockSet.ProofsSet.
From VF Require Export Nfs41.Proofs2Close.
Open Scope N_scope.

(* shareCount = own reservation + lock-owner files + something non-negative
   (I/O in flight). *)
Definition share_ok (o : oofile) : Prop :=
  exists K : bool -> Z, (forall b, (0 <= K b)%Z)
    /\ forall b, Z.of_N (cnt b o) = (b2z (of_live o && bit b (of_share o)) + lofs_bits b (of_lofs o) + K b)%Z.

(* The record [c] of a client against a view that satisfies the invariants
   (the view of a model state, or of an intermediate point of
   emptyAndRemove). *)
Definition rc (v : vstate) (c : client) : Prop :=
  linv v /\ kfind vc_id (c_id c) (v_cls v) = Some (vc c)
  /\ NoDup (map of_other (c_oofs c)) /\ lofs_nodup c /\ forall o, In o (c_oofs c) -> share_ok o.

Lemma acct_share_ok : forall st c o, acct_inv st -> In c (st_clients st) -> In o (c_oofs c) -> share_ok o.
Proof.
  intros st c o [_ [_ [I3 _]]] Hc Ho. destruct (I3 c Hc) as [_ [N2 _]]. destruct (N2 o Ho) as [_ [S1 _]].
  exists (fun b => clones st (c_id c) (of_other o) b). split; [intros b; apply countz_nonneg|exact S1].
Qed.

Lemma acct_rc : forall st c, acct_inv st -> linv (view st) -> In c (st_clients st) -> rc (view st) c.
Proof.
  intros st c I Li Hc. split; [exact Li|]. split.
  - cbn [view v_cls]. apply vfind_client. apply in_clients_find; assumption.
  - destruct (acct_lofs_nodup st c I Hc) as [A B]. split; [exact A|]. split; [exact B|].
    intros o Ho. eapply acct_share_ok; eauto.
Qed.

Lemma oofs_remove_rc : forall v c o c1 pool1 outs pn,
  rc v c -> In o (c_oofs c) -> of_live o = true ->
  oofs_remove o c (v_pool v) = (c1, pool1, outs, pn) ->
  pn = false
  /\ rc (mkV (kupd vc_id (vc c1) (v_cls v)) pool1 (v_nextlo v)) c1
  /\ c_id c1 = c_id c /\ c_hold c1 = c_hold c
  /\ exists o3, c_oofs c1 = upd_oofs o3 (c_oofs c) /\ of_other o3 = of_other o /\ of_live o3 = false.
Proof.
  intros [cls pool nextlo] c o c1 pool1 outs pn [Li [Hfc [Hoo [Hln Hsh]]]] Ho Hlive H. cbn [v_pool v_cls v_nextlo] in *.
  pose proof Li as [W [P [L [T [Ns [E O]]]]]].
  assert (Hfo : find_oofs_any (of_other o) (c_oofs c) = Some o) by (apply in_find_oofs_any; assumption).
  (* the view *)
  destruct (oofs_remove_view qvalid cls nextlo o c pool c1 pool1 outs pn H (proj1 W) Hfc Hoo Hln Hfo Hlive)
    as [Path [Hid1 _]].
  pose proof (vpath_linv _ _ Path Li) as Li1.
  (* the share counts *)
  destruct (Hsh o Ho) as [K [HK HS]].
  assert (HS' : forall b, Z.of_N (cnt b o) = (b2z (bit b (of_share o)) + lofs_bits b (of_lofs o) + K b)%Z).
  { intros b. rewrite (HS b), Hlive. reflexivity. }
  destruct (oofs_remove_spec _ _ _ _ _ _ _ K H Hlive (Hln o Ho) HK HS')
    as [o3 [R1 [R2 [R3 [R4 [R5 [R6 [R7 [R8 [R9 [R10 _]]]]]]]]]]].
  (* no check fires *)
  assert (Epn : pn = false).
  { assert (Hvc : In (vc c) cls) by (eapply kfind_in; eauto).
    destruct L as [_ [_ [_ LL]]]. destruct (LL (vc c) Hvc) as [C1 [_ [C3 C4]]]. cbn [vc vc_lows vc_oofs] in C1, C3, C4.
    assert (Hvo : In (vo o) (map vo (c_oofs c))) by (apply in_map; exact Ho).
    assert (Hown : NoDup (map lf_owner (of_lofs o))).
    { specialize (C4 (vo o) Hvo). cbn [vo vo_lofs] in C4. rewrite map_map in C4. exact C4. }
    assert (Hreg : forall lf, In lf (of_lofs o) -> exists x, find_lowner_id (lf_owner lf) (c_lowners c) = Some x /\ 0 < lo_files x).
    { intros lf Hlf. destruct (lof_registered (vc c) (vo o) (vl lf) (LL (vc c) Hvc) Hvo) as [x [Hx _]];
        [cbn; apply in_map; exact Hlf|]. cbn [vc vc_lows vl vl_owner] in Hx. exists x. split; [exact Hx|].
      specialize (C3 (lf_owner lf)). rewrite Hx in C3. lia. }
    assert (Hcnt : forall lf, In lf (of_lofs o) -> tcnt (lf_owner lf) (pool_locks (of_handle o) pool) = lf_count lf).
    { intros lf Hlf. apply (E (c_id c) (of_other o) (lf_other lf) (of_handle o) (lf_owner lf) (lf_count lf)).
      exists (vc c), (vo o), (vl lf). cbn. repeat split; auto. apply in_map. exact Hlf. }
    assert (Hge : forall b, (lofs_bits b (of_lofs o) <= Z.of_N (cnt b o))%Z).
    { intros b. rewrite (HS' b). pose proof (b2z_01 (bit b (of_share o))). specialize (HK b). lia. }
    destruct (T (of_handle o)) as [Hwf Hbd]. cbn [v_pool] in Hwf, Hbd.
    unfold oofs_remove in H.
    destruct (lofs_remove_all true (of_lofs o) o (c_lowners c) pool) as [[[[o1 lows] pool0] outs1] pn1] eqn:Er.
    destruct (oofs_downgrade o1 (of_share o1) m0) as [[o2 outs2] pn2] eqn:Ed.
    destruct (pool_close (of_handle o) pool0) as [pool2 pn3] eqn:Ec.
    inversion H; subst. clear H.
    destruct (lofs_remove_all_close _ _ _ _ _ _ _ _ _ Er eq_refl (Hln o Ho) Hown Hge C1 Hreg Hwf Hbd Hcnt)
      as [Epn1 [_ Hpm]].
    destruct (lofs_remove_all_spec _ _ _ _ _ _ _ _ _ _ Er eq_refl (Hln o Ho) Hge) as [[_ [_ [_ [_ [I5 _]]]]] [_ [Hc1 _]]].
    assert (Hpos : forall b, bit b (m_diff (of_share o1) m0) = true -> 0 < cnt b o1).
    { intros b Hb. rewrite m_diff_m0, I5 in Hb. specialize (Hc1 b). rewrite (HS' b), Hb in Hc1. cbn [b2z] in Hc1.
      specialize (HK b). lia. }
    destruct (oofs_downgrade_spec _ _ _ _ _ _ Ed Hpos) as [Epn2 _].
    assert (Hm : pmem (of_handle o) pool = true).
    { apply (live_pmem (mkV cls pool nextlo) (vc c) (vo o) P); auto. }
    destruct (Hpm (of_handle o)) as [Hm0 Hu0].
    assert (Hupos : 0 < puse (of_handle o) pool) by (apply (proj2 P (of_handle o)); exact Hm).
    assert (Epn3 : pn3 = false).
    { unfold pool_close in Ec. unfold pmem in Hm0, Hm. unfold puse in Hu0, Hupos.
      destruct (find_pfile (of_handle o) pool0) as [p|]; [|rewrite Hm in Hm0; discriminate].
      destruct (pf_use p <=? 1); inversion Ec; [|reflexivity]. apply N.eqb_neq. rewrite Hu0. lia. }
    rewrite Epn1, Epn2, Epn3. reflexivity. }
  split; [exact Epn|]. split; [|split; [exact R2|split; [exact R3|exists o3; auto]]].
  (* the record afterwards *)
  split; [exact Li1|]. split.
  - cbn [v_cls]. change (c_id c1) with (vc_id (vc c1)). apply (kfind_kupd_same vc_id (vc c1) cls (vc c)).
    cbn [vc vc_id]. rewrite R2. exact Hfc.
  - split; [rewrite R1, upd_oofs_k, (kupd_keys of_other); exact Hoo|]. split.
    + intros o' Ho'. rewrite R1, upd_oofs_k in Ho'. apply (kupd_in of_other) in Ho'.
      destruct Ho' as [->|[Ho' _]]; [rewrite R9; constructor|apply Hln; exact Ho'].
    + intros o' Ho'. rewrite R1, upd_oofs_k in Ho'. apply (kupd_in of_other) in Ho'.
      destruct Ho' as [->|[Ho' _]]; [|apply Hsh; exact Ho'].
      exists K. split; [exact HK|]. intros b. rewrite R10, R7, R9. cbn. lia.
Qed.

Lemma oofs_remove_all_rc : forall others v c c1 pool1 outs pn,
  rc v c -> oofs_remove_all others c (v_pool v) = (c1, pool1, outs, pn) ->
  pn = false
  /\ rc (mkV (kupd vc_id (vc c1) (v_cls v)) pool1 (v_nextlo v)) c1
  /\ c_id c1 = c_id c /\ c_hold c1 = c_hold c.
Proof.
  induction others as [|x tl IH]; intros v c c1 pool1 outs pn R H.
  - cbn in H. inversion H; subst. split; [reflexivity|]. split; [|auto].
    destruct v as [cls pool nextlo]. destruct R as [Li [Hfc Rest]]. cbn [v_cls v_pool v_nextlo] in *.
    rewrite (kupd_same vc_id cls (vc c1) (proj1 (proj1 Li)) Hfc). split; [exact Li|]. split; [exact Hfc|exact Rest].
  - cbn [oofs_remove_all] in H.
    destruct (find_oofs x (c_oofs c)) as [o|] eqn:Ef; [|apply (IH v c c1 pool1 outs pn R H)].
    destruct (oofs_remove o c (v_pool v)) as [[[c2 pool2] outs1] pn1] eqn:Er.
    destruct (oofs_remove_all tl c2 pool2) as [[[c3 pool3] outs2] pn2] eqn:Er2.
    inversion H; subst c3 pool3 outs pn; clear H.
    pose proof R as [_ [_ [Hoo _]]].
    destruct (find_oofs_any_of_live _ _ _ Hoo Ef) as [Hfo Hlive].
    assert (Ho : In o (c_oofs c)) by (rewrite find_oofs_any_k in Hfo; eapply kfind_in; eauto).
    destruct (oofs_remove_rc v c o c2 pool2 outs1 pn1 R Ho Hlive Er) as [Epn1 [R2 [Hid2 [Hh2 _]]]].
    set (v2 := mkV (kupd vc_id (vc c2) (v_cls v)) pool2 (v_nextlo v)) in *.
    destruct (IH v2 c2 c1 pool1 outs2 pn2 R2 Er2) as [Epn2 [R1 [Hid1 Hh1]]].
    split; [rewrite Epn1, Epn2; reflexivity|]. split; [|split; congruence].
    subst v2. cbn [v_cls v_nextlo] in R1. rewrite (kupd_kupd vc_id) in R1 by (cbn [vc vc_id]; congruence). exact R1.
Qed.

(* ---- emptyAndRemove, enter() ---------------------------------------------------------------------- *)
Lemma existsb_filter_neg : forall {A} (p : A -> bool) l, existsb p (filter (fun x => negb (p x)) l) = false.
Proof.
  intros A p l. induction l as [|x l IH]; [reflexivity|]. cbn [filter]. destruct (p x) eqn:E; cbn [negb]; [exact IH|].
  cbn [existsb]. rewrite E, IH. reflexivity.
Qed.

Lemma empty_and_remove_np : forall st id c,
  acct_inv st -> linv (view st) -> find_client id (st_clients st) = Some c -> c_hold c = 0 ->
  st_panic (fst (empty_and_remove id st)) = st_panic st.
Proof.
  intros st id c I Li Hf Hh. unfold empty_and_remove. rewrite Hf.
  pose proof (find_client_id _ _ _ Hf) as Hcid.
  assert (Hcin : In c (st_clients st)) by (rewrite find_client_k in Hf; eapply kfind_in; eauto).
  destruct (oofs_remove_all (live_others c) c (st_pool st)) as [[[c1 pool1] outs] pn] eqn:Er. cbn [fst].
  pose proof (acct_rc st c I Li Hcin) as R.
  destruct (oofs_remove_all_rc _ (view st) c c1 pool1 outs pn R Er) as [Epn [_ [Hid1 Hh1]]]. subst pn.
  (* nothing stays live *)
  destruct (acct_lofs_nodup st c I Hcin) as [Hoo Hln].
  pose proof (acct_vwf st I) as [W1 _]. cbn [view v_cls] in W1.
  assert (Hfc : kfind vc_id (c_id c) (map vc (st_clients st)) = Some (vc c)) by (apply vfind_client; rewrite Hcid; exact Hf).
  destruct (oofs_remove_all_view qvalid _ _ (st_nextlo st) _ _ _ _ _ _ Er W1 Hfc Hoo Hln) as [_ [_ Hlv]].
  assert (Hdead : existsb of_live (c_oofs c1) = false).
  { destruct (existsb of_live (c_oofs c1)) eqn:E; [|reflexivity]. exfalso.
    apply existsb_exists in E. destruct E as [o1 [Ho1 Hl1]].
    destruct (Hlv o1 Ho1 Hl1) as [Hni [o0 [Hin0 [Hl0 Ho0]]]]. apply Hni. rewrite <- Ho0. apply live_others_all; assumption. }
  unfold client_remove. cbn [st_clients set_sessions add_panic set_pool set_clients].
  assert (Hk : find_client id (upd_client c1 (st_clients st)) = Some c1).
  { rewrite find_client_k, upd_client_k, <- Hcid, <- Hid1. eapply (kfind_kupd_same c_id).
    rewrite Hid1, Hcid, <- find_client_k. exact Hf. }
  rewrite Hk. cbn [st_panic add_panic set_idle set_clients set_sessions set_pool st_sessions].
  rewrite Hh1, Hh, Hdead. cbn [N.eqb negb orb].
  rewrite (existsb_filter_neg (fun s => ss_client s =? id)). rewrite !Bool.orb_false_r. reflexivity.
Qed.

Lemma expire_list_np : forall ids st,
  acct_inv st -> linv (view st) ->
  (forall id c, In id ids -> find_client id (st_clients st) = Some c -> c_hold c = 0) ->
  st_panic (fst (expire_list ids st)) = st_panic st.
Proof.
  induction ids as [|id tl IH]; intros st I Li Hidle; cbn [expire_list]; [reflexivity|].
  destruct (expired st id) eqn:Ex; [|reflexivity].
  unfold expired in Ex. destruct (find_client id (st_clients st)) as [c|] eqn:Ef; [|discriminate].
  assert (Hh : c_hold c = 0) by (eapply Hidle; [left; reflexivity|exact Ef]).
  pose proof (empty_and_remove_goal st id c I Ef Hh) as [I1 _].
  pose proof (empty_and_remove_view qvalid st id c I Ef) as P1.
  pose proof (empty_and_remove_np st id c I Li Ef Hh) as N1.
  pose proof (empty_and_remove_fields id st c (proj1 I) Ef) as [F1 _].
  destruct (empty_and_remove id st) as [st1 o1] eqn:Er. cbn [fst snd] in *.
  pose proof (vpath_linv _ _ P1 Li) as Li1.
  assert (Hidle1 : forall id2 c2, In id2 tl -> find_client id2 (st_clients st1) = Some c2 -> c_hold c2 = 0).
  { intros id2 c2 Hin H2. eapply Hidle; [right; exact Hin|]. rewrite F1 in H2.
    change (kfind c_id id2 (kdel c_id id (st_clients st)) = Some c2) in H2.
    destruct (N.eq_dec id2 id) as [->|Hne].
    - rewrite (kfind_kdel_same c_id) in H2. discriminate.
    - rewrite (kfind_kdel_other c_id) in H2 by exact Hne. exact H2. }
  pose proof (IH st1 I1 Li1 Hidle1) as N2. destruct (expire_list tl st1) as [st2 o2]. cbn [fst] in *. congruence.
Qed.

Lemma enter_np : forall st, acct_inv st -> linv (view st) -> st_panic (fst (enter st)) = st_panic st.
Proof.
  intros st I Li. unfold enter.
  set (st1 := if st_now st <? st_clock st then set_now st (st_clock st) else st).
  assert (G1 : st_goal st st1 []).
  { subst st1. destruct (st_now st <? st_clock st); [apply acct_ext; auto|apply st_goal_same; exact I]. }
  assert (Hv : view st1 = view st) by (subst st1; destruct (st_now st <? st_clock st); reflexivity).
  assert (Hp : st_panic st1 = st_panic st) by (subst st1; destruct (st_now st <? st_clock st); reflexivity).
  assert (Hidle : forall id c, In id (st_idle st1) -> find_client id (st_clients st1) = Some c -> c_hold c = 0).
  { intros id c Hin Hf. destruct G1 as [[_ [_ [_ [_ Iok]]]] _]. destruct (Iok id Hin) as [c2 [Hc2 Hh]]. congruence. }
  rewrite <- Hp. apply expire_list_np; [exact (proj1 G1)|rewrite Hv; exact Li|exact Hidle].
Qed.

(* What enter() leaves: the invariants again. *)
Lemma enter_keeps : forall st, acct_inv st -> linv (view st) ->
  acct_inv (fst (enter st)) /\ linv (view (fst (enter st))).
Proof.
  intros st I Li. split; [exact (proj1 (enter_goal st I))|]. exact (vpath_linv _ _ (enter_view qvalid st I) Li).
Qed.

(* ---- EXCHANGE_ID, CREATE_SESSION, DESTROY_* ---------------------------------------------------------- *)
Lemma touch_np : forall id st, st_panic (touch id st) = st_panic st.
Proof. intros. unfold touch. destruct (find_client id (st_clients st)); [|reflexivity]. destruct (c_hold c =? 0); reflexivity. Qed.

Lemma cs_finish_np : forall cid sq st, st_panic (fst (cs_finish cid sq st)) = st_panic st.
Proof.
  intros. unfold cs_finish. cbn [fst]. rewrite touch_np.
  repeat match goal with |- context [match ?x with Some _ => _ | None => _ end] => destruct x end; reflexivity.
Qed.

Lemma op_exchange_id_np : forall o v st, acct_inv st -> linv (view st) ->
  st_panic (fst (fst (op_exchange_id o v st))) = st_panic st.
Proof.
  intros o v st I Li. unfold op_exchange_id. pose proof (enter_np st I Li) as N.
  destruct (enter st) as [st1 outs]. cbn [fst] in *. destruct (find _ (st_clients st1)); cbn [fst]; exact N.
Qed.

Lemma op_create_session_np : forall cid sq st, acct_inv st -> linv (view st) ->
  st_panic (fst (fst (op_create_session cid sq st))) = st_panic st.
Proof.
  intros cid sq st I Li. unfold op_create_session.
  pose proof (enter_np st I Li) as N. destruct (enter_keeps st I Li) as [I1 Li1].
  destruct (enter st) as [st1 outs]. cbn [fst] in *.
  destruct (find_client cid (st_clients st1)) as [c|]; cbn [fst]; [|exact N].
  destruct (sq =? c_seq c); cbn [fst]; [exact N|]. destruct (sq =? _); cbn [fst]; [|exact N].
  destruct (find _ _) as [x|] eqn:Ex.
  - destruct (0 <? c_hold x) eqn:Eh; cbn [fst]; [rewrite touch_np; exact N|].
    apply find_some in Ex. destruct Ex as [Hxin _].
    assert (Hh : c_hold x = 0) by (apply N.ltb_ge in Eh; lia).
    pose proof (empty_and_remove_np st1 (c_id x) x I1 Li1 (in_clients_find st1 x I1 Hxin) Hh) as N2.
    destruct (empty_and_remove (c_id x) st1) as [st2 outs2]. cbn [fst] in *.
    pose proof (cs_finish_np cid sq st2) as N3. destruct (cs_finish cid sq st2) as [st3 r]. cbn [fst] in *. congruence.
  - pose proof (cs_finish_np cid sq st1) as N3. destruct (cs_finish cid sq st1) as [st3 r]. cbn [fst] in *. congruence.
Qed.

Lemma op_destroy_clientid_np : forall cid st, acct_inv st -> linv (view st) ->
  st_panic (fst (fst (op_destroy_clientid cid st))) = st_panic st.
Proof.
  intros cid st I Li. unfold op_destroy_clientid. pose proof (enter_np st I Li) as N.
  destruct (enter st) as [st1 outs]. cbn [fst] in *.
  destruct (find_client cid (st_clients st1)) as [c|] eqn:Ef; cbn [fst]; [|exact N].
  destruct (negb (c_hold c =? 0) || existsb of_live (c_oofs c) || existsb (fun s => ss_client s =? cid) (st_sessions st1)) eqn:Eb;
    cbn [fst]; [exact N|].
  unfold client_remove. rewrite Ef. cbn [st_panic add_panic set_idle set_clients]. rewrite Eb, Bool.orb_false_r. exact N.
Qed.

Lemma op_destroy_session_np : forall i st, acct_inv st -> linv (view st) ->
  st_panic (fst (fst (op_destroy_session i st))) = st_panic st.
Proof.
  intros i st I Li. unfold op_destroy_session. pose proof (enter_np st I Li) as N.
  destruct (enter st) as [st1 outs]. cbn [fst] in *. destruct (find_session _ _); cbn [fst]; exact N.
Qed.

Lemma op_bind_conn_np : forall i d st, acct_inv st -> linv (view st) ->
  st_panic (fst (fst (op_bind_conn i d st))) = st_panic st.
Proof.
  intros i d st I Li. unfold op_bind_conn. destruct (negb d); cbn [fst]; [reflexivity|].
  pose proof (enter_np st I Li) as N. destruct (enter st) as [st1 outs]. cbn [fst] in *. destruct (find_session _ _); exact N.
Qed.

Lemma solo_step_np : forall tid s st, acct_inv st -> linv (view st) -> st_panic (fst (solo_step tid s st)) = st_panic st.
Proof.
  intros tid s st I Li. destruct s; cbn [solo_step]; try reflexivity.
  - pose proof (op_exchange_id_np owner verifier st I Li) as G. destruct (op_exchange_id _ _ _) as [[st1 outs] r]. exact G.
  - pose proof (op_create_session_np clientid seq st I Li) as G. destruct (op_create_session _ _ _) as [[st1 outs] r]. exact G.
  - pose proof (op_destroy_session_np id st I Li) as G. destruct (op_destroy_session _ _) as [[st1 outs] r]. exact G.
  - pose proof (op_destroy_clientid_np id st I Li) as G. destruct (op_destroy_clientid _ _) as [[st1 outs] r]. exact G.
  - pose proof (op_bind_conn_np id dir_valid st I Li) as G. destruct (op_bind_conn _ _ _) as [[st1 outs] r]. exact G.
Qed.

(* ---- opSequence ----------------------------------------------------------------------------------------- *)
From VF Require Import Nfs41.ProofsThreads.

Lemma hold_np : forall id st, st_panic (hold id st) = st_panic st.
Proof. intros. unfold hold. destruct (find_client id (st_clients st)); [|reflexivity]. destruct (c_hold c =? 0); reflexivity. Qed.

Lemma seq_begin_np : forall tid sess sl sq cache ops st,
  acct_inv st -> seq_inv st -> linv (view st) ->
  st_panic (fst (seq_begin tid sess sl sq cache ops st)) = st_panic st.
Proof.
  intros tid sess sl sq cache ops st I Sq Li. unfold seq_begin.
  pose proof (enter_np st I Li) as N. pose proof (seq_inv_frame _ _ (enter_frame st) Sq) as Sq1.
  destruct (enter st) as [st1 outs]. cbn [fst] in *.
  destruct (find_session sess (st_sessions st1)) as [ss|] eqn:Es; cbn [fst]; [|exact N].
  destruct (nth_error (ss_slots ss) (N.to_nat sl)) as [s|] eqn:En; cbn [fst]; [|exact N].
  destruct (sq =? sl_seq s); cbn [fst]; [exact N|]. destruct (sq =? _); cbn [fst]; [|exact N].
  destruct (sl_busy s) as [orig|] eqn:Eb.
  - destruct Sq1 as [B _]. apply find_some in Es. destruct Es as [Hss _].
    destruct (B ss _ s orig Hss En Eb) as [t [Ht _]]. rewrite Ht. cbn [fst]. exact N.
  - destruct (cf_maxops (st_cfg st1) <? _); cbn [fst]; [exact N|].
    cbn [st_panic set_threads]. rewrite hold_np. exact N.
Qed.

Lemma seq_end_np : forall t st,
  acct_inv st -> linv (view st) -> find_thread (t_id t) (st_threads st) = Some t ->
  st_panic (fst (seq_end t st)) = st_panic st.
Proof.
  intros t st I Li Ht. unfold seq_end.
  pose proof (enter_np st I Li) as N. destruct (enter_keeps st I Li) as [I1 _].
  pose proof (enter_frame st) as [HT _].
  destruct (enter st) as [st1 outs]. cbn [fst] in *.
  assert (Hrel : st_panic (release (t_client t) st1) = st_panic st1).
  { unfold release. destruct (find_client (t_client t) (st_clients st1)) as [c|] eqn:Ef; [|reflexivity].
    assert (Hc : In c (st_clients st1) /\ c_id c = t_client t) by (rewrite find_client_k in Ef; apply (kfind_some c_id) in Ef; exact Ef).
    destruct Hc as [Hc Hcid].
    destruct I1 as [_ [_ [I3 _]]]. destruct (I3 c Hc) as [_ [_ Hhold]].
    assert (Hpos : (1 <= Z.of_N (c_hold c))%Z).
    { rewrite Hhold. eapply (countz_pos_in _ _ t); [rewrite HT; rewrite find_thread_k in Ht; eapply kfind_in; eauto|].
      rewrite Hcid. apply N.eqb_refl. }
    assert (E0 : c_hold c =? 0 = false) by (apply N.eqb_neq; lia). rewrite E0.
    destruct (c_hold c =? 1); reflexivity. }
  destruct (find_session (t_sess t) (st_sessions (release (t_client t) st1))); cbn [fst st_panic set_threads set_slot set_sessions];
    congruence.
Qed.

(* ---- the operations ------------------------------------------------------------------------------------------ *)
Lemma m_sub : forall m sh b, m_empty (m_diff m sh) = true -> bit b m = true -> bit b sh = true.
Proof. intros [r w] [r' w'] b H Hb. unfold m_empty, m_diff in H. cbn in *. destruct b, r, w, r', w'; cbn in *; congruence. Qed.

Lemma lofs_bits_in : forall b lf l, In lf l -> (b2z (bit b (lf_share lf)) <= lofs_bits b l)%Z.
Proof.
  intros b lf l Hin. unfold lofs_bits. apply (sumz_in_le (fun x => b2z (bit b (lf_share x)))); [|exact Hin].
  intros y _. apply b2z_01.
Qed.

Lemma kupd_in_new : forall {A} (key : A -> N) x' l x, In x l -> key x = key x' -> In x' (kupd key x' l).
Proof.
  intros A key x' l x Hin E. unfold kupd. apply in_map_iff. exists x. split; [|exact Hin].
  apply N.eqb_eq in E. rewrite E. reflexivity.
Qed.

Section Ops.
  Variables (st : state) (c : client).
  Hypothesis I : acct_inv st.
  Hypothesis Li : linv (view st).
  Hypothesis Hfc : find_client (c_id c) (st_clients st) = Some c.

  Let Hcin : In c (st_clients st).
  Proof. rewrite find_client_k in Hfc. eapply kfind_in; eauto. Qed.
  Let Hoo : NoDup (map of_other (c_oofs c)).
  Proof. exact (proj1 (acct_lofs_nodup st c I Hcin)). Qed.
  Let Hln : lofs_nodup c.
  Proof. exact (proj2 (acct_lofs_nodup st c I Hcin)). Qed.

  Lemma cnt_pos_share : forall o b, In o (c_oofs c) -> of_live o = true -> bit b (of_share o) = true -> 0 < cnt b o.
  Proof.
    intros o b Ho Hl Hb. destruct (acct_share_ok st c o I Hcin Ho) as [K [HK HS]]. specialize (HS b). rewrite Hl, Hb in HS.
    cbn [andb b2z] in HS. specialize (HK b). pose proof (lofs_bits_nonneg b (of_lofs o)). lia.
  Qed.

  Lemma cnt_pos_lof : forall o lf b, In o (c_oofs c) -> In lf (of_lofs o) -> bit b (lf_share lf) = true -> 0 < cnt b o.
  Proof.
    intros o lf b Ho Hlf Hb. destruct (acct_share_ok st c o I Hcin Ho) as [K [HK HS]]. specialize (HS b).
    pose proof (lofs_bits_in b lf _ Hlf) as H1. rewrite Hb in H1. cbn [b2z] in H1. specialize (HK b).
    pose proof (b2z_01 (of_live o && bit b (of_share o))). lia.
  Qed.

  Lemma io_begin_np : forall opnum m s cfh sfh, st_panic (sr_st (io_begin opnum m s c st cfh sfh)) = st_panic st.
  Proof.
    intros opnum m s cfh sfh. unfold io_begin, done.
    assert (G : forall o, (forall b, bit b m = true -> 0 < cnt b o) ->
              st_panic (sr_st (let '(rd, wr, pn) := sc_clone (of_readers o) (of_writers o) m in
                               let o' := o_set o (of_seq o) (of_share o) rd wr (of_lofs o) (of_live o) in
                               mkSec (add_panic (with_client st (c_id c) (c_set_oofs c (upd_oofs o' (c_oofs c)))) pn)
                                     cfh sfh (Pending (PhIoReg (of_other o) (of_handle o) m)) [] FsNone)) = st_panic st).
    { intros o Hpos. destruct (sc_clone _ _ _) as [[rd wr] pn] eqn:Ec.
      destruct (sc_clone_spec _ _ _ _ _ _ Ec (Hpos true) (Hpos false)) as [-> _]. cbn. apply Bool.orb_false_r. }
    destruct (get_oofs c cfh s false) as [[o|] stt] eqn:E1.
    - destruct (get_oofs_some _ _ _ _ _ _ Hoo E1) as [F1 F2].
      assert (Ho : In o (c_oofs c)) by (rewrite find_oofs_any_k in F1; eapply kfind_in; eauto).
      destruct stt as [|p].
      + destruct (m_empty _) eqn:Em; [|reflexivity]. apply G. intros b Hb. apply cnt_pos_share; auto. eapply m_sub; eauto.
      + destruct (N.pos p =? ERR_BAD_STATEID); [|reflexivity].
        destruct (get_lofs c cfh s) as [[[o2 lf]|] stt2] eqn:E2; [|reflexivity].
        destruct (get_lofs_some _ _ _ _ _ _ E2) as [G1 [G2 G3]].
        destruct stt2; [|reflexivity]. destruct (m_empty _) eqn:Em; [|reflexivity].
        apply G. intros b Hb. eapply cnt_pos_lof; eauto. eapply m_sub; eauto.
    - destruct (stt =? ERR_BAD_STATEID); [|reflexivity].
      destruct (get_lofs c cfh s) as [[[o2 lf]|] stt2] eqn:E2; [|reflexivity].
      destruct (get_lofs_some _ _ _ _ _ _ E2) as [G1 [G2 G3]].
      destruct stt2; [|reflexivity]. destruct (m_empty _) eqn:Em; [|reflexivity].
      apply G. intros b Hb. eapply cnt_pos_lof; eauto. eapply m_sub; eauto.
  Qed.

  Lemma io_end_reg_np : forall opnum other h m iost cfh sfh t,
    In t (st_threads st) -> t_client t = c_id c -> t_phase t = PhIoRegDone other h m iost ->
    st_panic (sr_st (io_end_reg opnum other h m iost c st cfh sfh)) = st_panic st.
  Proof.
    intros opnum other h m iost cfh sfh t Ht Htc Hph. unfold io_end_reg.
    pose proof I as [_ [_ [I3 [I4 _]]]]. destruct (I4 t Ht) as [c2 [Hc2 Hok]]. rewrite Hph in Hok.
    rewrite Htc, Hfc in Hc2. inversion Hc2; subst c2. destruct Hok as [_ [_ [o [Hfo _]]]].
    rewrite Hfo. destruct (oofs_downgrade o m m0) as [[o1 outs] pn] eqn:Ed. cbn [sr_st st_panic add_panic].
    assert (Ho : In o (c_oofs c) /\ of_other o = other) by (rewrite find_oofs_any_k in Hfo; apply (kfind_some of_other) in Hfo; exact Hfo).
    destruct Ho as [Ho Hoth].
    assert (Hpos : forall b, bit b (m_diff m m0) = true -> 0 < cnt b o).
    { intros b Hb. rewrite m_diff_m0 in Hb. destruct (I3 c Hcin) as [_ [N2 _]]. destruct (N2 o Ho) as [_ [S1 _]].
      specialize (S1 b).
      assert (Hcl : (1 <= clones st (c_id c) (of_other o) b)%Z).
      { unfold clones. eapply (countz_pos_in _ _ t Ht). unfold t_clones. rewrite Htc, N.eqb_refl, Hph, Hoth, N.eqb_refl, Hb. reflexivity. }
      pose proof (b2z_01 (of_live o && bit b (of_share o))). pose proof (lofs_bits_nonneg b (of_lofs o)). lia. }
    destruct (oofs_downgrade_spec _ _ _ _ _ _ Ed Hpos) as [-> _]. apply Bool.orb_false_r.
  Qed.

  Lemma op_open_downgrade_np : forall s a d cfh sfh, st_panic (sr_st (op_open_downgrade s a d c st cfh sfh)) = st_panic st.
  Proof.
    intros. unfold op_open_downgrade, done. destruct (mask_of_N a) as [m|]; [|reflexivity].
    destruct (get_oofs c cfh s true) as [[o|] stt] eqn:E1; [|reflexivity].
    destruct (get_oofs_some _ _ _ _ _ _ Hoo E1) as [F1 F2].
    assert (Ho : In o (c_oofs c)) by (rewrite find_oofs_any_k in F1; eapply kfind_in; eauto).
    destruct stt; [|reflexivity]. destruct (_ || _); [reflexivity|].
    destruct (oofs_downgrade o (of_share o) m) as [[o1 outs] pn] eqn:Ed. cbn [sr_st st_panic add_panic].
    assert (Hpos : forall b, bit b (m_diff (of_share o) m) = true -> 0 < cnt b o).
    { intros b Hb. apply cnt_pos_share; auto. destruct (of_share o) as [r w], m as [r' w'], b; cbn in *;
        apply Bool.andb_true_iff in Hb; tauto. }
    destruct (oofs_downgrade_spec _ _ _ _ _ _ Ed Hpos) as [-> _]. apply Bool.orb_false_r.
  Qed.

  Lemma op_close_np : forall s cfh sfh, st_panic (sr_st (op_close s c st cfh sfh)) = st_panic st.
  Proof.
    intros. unfold op_close, done. destruct (get_oofs c cfh s true) as [[o|] stt] eqn:E1; [|reflexivity].
    destruct (get_oofs_some _ _ _ _ _ _ Hoo E1) as [F1 F2].
    assert (Ho : In o (c_oofs c)) by (rewrite find_oofs_any_k in F1; eapply kfind_in; eauto).
    destruct stt; [|reflexivity].
    destruct (oofs_remove o c (st_pool st)) as [[[c1 pool1] outs] pn] eqn:Er.
    destruct (oofs_remove_rc (view st) c o c1 pool1 outs pn (acct_rc st c I Li Hcin) Ho F2 Er) as [-> _].
    cbn. apply Bool.orb_false_r.
  Qed.

  Lemma op_free_stateid_np : forall s cfh sfh, st_panic (sr_st (op_free_stateid s c st cfh sfh)) = st_panic st.
  Proof.
    intros. unfold op_free_stateid, done. destruct (negb (s_hi s =? 0)); [reflexivity|].
    destruct (find_lofs (s_lo s) (c_oofs c)) as [[o lf]|] eqn:Ef; [|reflexivity].
    destruct (find_lofs_some _ _ _ _ Ef) as [Ho [Hl [Hlf _]]].
    destruct (negb (_ =? NFS4_OK)); [reflexivity|]. destruct (0 <? lf_count lf)%Z eqn:Egate; [reflexivity|].
    cbn [lofs_remove_all andb].
    destruct (oofs_downgrade o (lf_share lf) m0) as [[o1 outs1] pn1] eqn:Ed.
    destruct (lowner_dec (lf_owner lf) (c_lowners c)) as [lows1 pn2] eqn:El.
    cbn [sr_st st_panic add_panic].
    (* lockCount is zero *)
    pose proof Li as [_ [_ [L [_ [_ [E _]]]]]].
    assert (Hlof : lof (view st) (c_id c) (of_other o) (lf_other lf) (of_handle o) (lf_owner lf) (lf_count lf)).
    { exists (vc c), (vo o), (vl lf). cbn. repeat split; auto; apply in_map; assumption. }
    pose proof (E _ _ _ _ _ _ Hlof) as Ec. pose proof (tcount_nonneg (of_handle o) (lf_owner lf) (v_pool (view st))) as Hnn.
    apply Z.ltb_ge in Egate. assert (Ez : (lf_count lf =? 0)%Z = true) by (apply Z.eqb_eq; lia). rewrite Ez.
    (* share count, fileCount *)
    assert (Hpos : forall b, bit b (m_diff (lf_share lf) m0) = true -> 0 < cnt b o).
    { intros b Hb. rewrite m_diff_m0 in Hb. eapply cnt_pos_lof; eauto. }
    destruct (oofs_downgrade_spec _ _ _ _ _ _ Ed Hpos) as [-> _].
    destruct L as [_ [_ [_ LL]]]. assert (Hvc : In (vc c) (v_cls (view st))) by (cbn; apply in_map; exact Hcin).
    destruct (LL (vc c) Hvc) as [C1 [_ [C3 _]]]. cbn [vc vc_lows] in C1, C3.
    destruct (lof_registered (vc c) (vo o) (vl lf) (LL (vc c) Hvc)) as [x [Hx _]]; [cbn; apply in_map; exact Ho|cbn; apply in_map; exact Hlf|].
    cbn [vc vc_lows vl vl_owner] in Hx. specialize (C3 (lf_owner lf)). rewrite Hx in C3.
    assert (Hxp : 0 < lo_files x) by lia.
    pose proof (dec_no_panic _ _ _ C1 Hx Hxp) as Hd. rewrite El in Hd. cbn [snd] in Hd. subst pn2.
    cbn. rewrite Bool.orb_false_r. reflexivity.
  Qed.

  (* LOCK / LOCKU: the new lockCount is the lockCount of a lock-owner file
     of the state afterwards, which satisfies the invariant. *)
  Lemma count_after_nonneg : forall st' c1 o2 lf1,
    linv (view st') -> In c1 (st_clients st') -> In o2 (c_oofs c1) -> In lf1 (of_lofs o2) -> (0 <= lf_count lf1)%Z.
  Proof.
    intros st' c1 o2 lf1 [_ [_ [_ [_ [_ [E _]]]]]] H1 H2 H3.
    assert (Hlof : lof (view st') (c_id c1) (of_other o2) (lf_other lf1) (of_handle o2) (lf_owner lf1) (lf_count lf1)).
    { exists (vc c1), (vo o2), (vl lf1). cbn. repeat split; auto; apply in_map; assumption. }
    rewrite <- (E _ _ _ _ _ _ Hlof). apply tcount_nonneg.
  Qed.

  Lemma set_np : forall h q, qvalid q -> LS.set_panic (LS.set (pool_locks h (st_pool st)) q) = false.
  Proof.
    intros h q [Hq _]. pose proof Li as [_ [_ [_ [T _]]]]. destruct (T h) as [Hwf _]. cbn [view v_pool] in Hwf.
    apply set_no_panic; assumption.
  Qed.

  Lemma op_locku_np : forall s off len cfh sfh, req_ok qvalid off len ->
    linv (view (sr_st (op_locku s off len c st cfh sfh))) ->
    st_panic (sr_st (op_locku s off len c st cfh sfh)) = st_panic st.
  Proof.
    intros s off len cfh sfh Hq. unfold op_locku, done.
    destruct (get_lofs c cfh s) as [[[o lf]|] stt] eqn:E; [|reflexivity].
    destruct (get_lofs_some _ _ _ _ _ _ E) as [Ho [Hl Hlf]]. destruct stt; [|reflexivity].
    destruct (LS.offset_length_to_start_end off len) as [[s0 e0]|] eqn:Eo; [|reflexivity].
    cbn [sr_st]. intros Hpost.
    set (q := LS.mkLock s0 e0 (lf_owner lf) LS.Unlocked) in *.
    set (cnt := (lf_count lf + LS.set_delta (LS.set (pool_locks (of_handle o) (st_pool st)) q))%Z) in *.
    cbn [st_panic add_panic set_pool with_client set_clients].
    rewrite (set_np (of_handle o) q (Hq s0 e0 (lf_owner lf) LS.Unlocked Eo)).
    assert (Hnn : (0 <= cnt)%Z).
    { eapply (count_after_nonneg _ _ _ (l_set lf (incr_seq (lf_seq lf)) cnt) Hpost).
      - cbn [st_clients add_panic set_pool with_client set_clients]. rewrite upd_client_k.
        eapply (kupd_in_new c_id); [exact Hcin|reflexivity].
      - cbn [c_oofs c_set_oofs]. rewrite upd_oofs_k. eapply (kupd_in_new of_other); [exact Ho|reflexivity].
      - cbn [of_lofs o_set]. eapply (kupd_in_new lf_other); [exact Hlf|reflexivity]. }
    assert (E0 : (cnt <? 0)%Z = false) by (apply Z.ltb_ge; exact Hnn). rewrite E0. apply Bool.orb_false_r.
  Qed.

  Lemma op_lock_run_np : forall lt off len cfh sfh o lfo oid reg,
    req_ok qvalid off len -> In o (c_oofs c) -> of_live o = true ->
    (forall lf, lfo = Some lf -> In lf (of_lofs o)) ->
    linv (view (sr_st (op_lock_run lt off len c st cfh sfh o lfo oid reg))) ->
    st_panic (sr_st (op_lock_run lt off len c st cfh sfh o lfo oid reg)) = st_panic st.
  Proof.
    intros lt off len cfh sfh o lfo oid reg Hq Ho Hl Hlfo. unfold op_lock_run, done.
    destruct (LS.offset_length_to_start_end off len) as [[s0 e0]|] eqn:Eo; [|reflexivity].
    destruct (lock_type lt) as [ty|] eqn:Et; [|reflexivity].
    destruct (LS.test _ _) as [cf|] eqn:Etest; [reflexivity|].
    set (q := LS.mkLock s0 e0 oid ty) in *.
    pose proof (set_np (of_handle o) q (Hq s0 e0 oid ty Eo)) as Hsp.
    destruct reg as [x|]; destruct lfo as [lf|]; cbv beta iota zeta;
      try (destruct (sc_clone (of_readers o) (of_writers o) (of_share o)) as [[rd wr] pn] eqn:Ec;
           destruct (sc_clone_spec _ _ _ _ _ _ Ec (cnt_pos_share o true Ho Hl) (cnt_pos_share o false Ho Hl)) as [-> _]);
      cbv beta iota zeta; cbn [sr_st]; intros Hpost;
      cbn [st_panic add_panic set_nextlo set_pool with_client set_clients]; rewrite Hsp;
      match goal with |- st_panic st || (false || (?cnt <? 0)%Z || false) = _ =>
        assert (Hnn : (0 <= cnt)%Z);
          [|assert (E0 : (cnt <? 0)%Z = false) by (apply Z.ltb_ge; exact Hnn); rewrite E0; apply Bool.orb_false_r]
      end.
    - (* registered now, existing file *)
      eapply (count_after_nonneg _ _ _ (l_set lf (incr_seq (lf_seq lf)) _) Hpost).
      + cbn [st_clients add_panic set_nextlo set_pool with_client set_clients]. rewrite upd_client_k.
        eapply (kupd_in_new c_id); [exact Hcin|reflexivity].
      + cbn [c_oofs c_set_oofs c_set_lowners c_set_other]. rewrite upd_oofs_k. eapply (kupd_in_new of_other); [exact Ho|reflexivity].
      + cbn [of_lofs o_set]. eapply (kupd_in_new lf_other); [exact (Hlfo lf eq_refl)|reflexivity].
    - eapply (count_after_nonneg _ _ _ (l_set (mkLof (c_other c + 1) 0 oid (of_share o) 0) _ _) Hpost).
      + cbn [st_clients add_panic set_nextlo set_pool with_client set_clients]. rewrite upd_client_k.
        eapply (kupd_in_new c_id); [exact Hcin|reflexivity].
      + cbn [c_oofs c_set_oofs c_set_lowners c_set_other]. rewrite upd_oofs_k. eapply (kupd_in_new of_other); [exact Ho|reflexivity].
      + cbn [of_lofs o_set]. eapply (kupd_in_new lf_other); [apply in_or_app; right; left; reflexivity|reflexivity].
    - eapply (count_after_nonneg _ _ _ (l_set lf (incr_seq (lf_seq lf)) _) Hpost).
      + cbn [st_clients add_panic set_nextlo set_pool with_client set_clients]. rewrite upd_client_k.
        eapply (kupd_in_new c_id); [exact Hcin|reflexivity].
      + cbn [c_oofs c_set_oofs c_set_lowners c_set_other]. rewrite upd_oofs_k. eapply (kupd_in_new of_other); [exact Ho|reflexivity].
      + cbn [of_lofs o_set]. eapply (kupd_in_new lf_other); [exact (Hlfo lf eq_refl)|reflexivity].
    - eapply (count_after_nonneg _ _ _ (l_set (mkLof (c_other c + 1) 0 oid (of_share o) 0) _ _) Hpost).
      + cbn [st_clients add_panic set_nextlo set_pool with_client set_clients]. rewrite upd_client_k.
        eapply (kupd_in_new c_id); [exact Hcin|reflexivity].
      + cbn [c_oofs c_set_oofs c_set_lowners c_set_other]. rewrite upd_oofs_k. eapply (kupd_in_new of_other); [exact Ho|reflexivity].
      + cbn [of_lofs o_set]. eapply (kupd_in_new lf_other); [apply in_or_app; right; left; reflexivity|reflexivity].
  Qed.
End Ops.

Section Ops2.
  Variables (st : state) (c : client).
  Hypothesis I : acct_inv st.
  Hypothesis Li : linv (view st).
  Hypothesis Hfc : find_client (c_id c) (st_clients st) = Some c.

  Let Hcin : In c (st_clients st).
  Proof. rewrite find_client_k in Hfc. eapply kfind_in; eauto. Qed.
  Let Hoo : NoDup (map of_other (c_oofs c)).
  Proof. exact (proj1 (acct_lofs_nodup st c I Hcin)). Qed.

  Lemma op_lock_np : forall lt off len lk cfh sfh, req_ok qvalid off len ->
    linv (view (sr_st (op_lock lt off len lk c st cfh sfh))) ->
    st_panic (sr_st (op_lock lt off len lk c st cfh sfh)) = st_panic st.
  Proof.
    intros lt off len lk cfh sfh Hq. unfold op_lock, done. destruct lk as [osid key|lsid].
    - destruct (get_oofs c cfh osid false) as [[o|] stt] eqn:E; [|reflexivity].
      destruct (get_oofs_some _ _ _ _ _ _ Hoo E) as [F1 F2].
      assert (Ho : In o (c_oofs c)) by (rewrite find_oofs_any_k in F1; eapply kfind_in; eauto).
      destruct stt; [|reflexivity].
      destruct (find_lowner_key key (c_lowners c)) as [x|].
      + apply (op_lock_run_np st c I Li Hfc); auto. intros lf Hlf. apply find_some in Hlf. tauto.
      + apply (op_lock_run_np st c I Li Hfc); auto. intros lf Hlf. discriminate.
    - destruct (get_lofs c cfh lsid) as [[[o lf]|] stt] eqn:E; [|reflexivity].
      destruct (get_lofs_some _ _ _ _ _ _ E) as [Ho [Hl Hlf]]. destruct stt; [|reflexivity].
      apply (op_lock_run_np st c I Li Hfc); auto. intros lf0 E0. inversion E0; subst. exact Hlf.
  Qed.

  Lemma op_open_end_np : forall owner cl h m cfh sfh, st_panic (sr_st (op_open_end owner cl h m c st cfh sfh)) = st_panic st.
  Proof. intros. unfold op_open_end. repeat break_match; reflexivity. Qed.

  Lemma op_section_np : forall o ph orc cfh sfh t rest,
    In t (st_threads st) -> t_client t = c_id c -> t_phase t = ph -> t_ops t = o :: rest ->
    op_ok qvalid o ->
    linv (view (sr_st (op_section o ph orc c st cfh sfh))) ->
    st_panic (sr_st (op_section o ph orc c st cfh sfh)) = st_panic st.
  Proof.
    intros o ph orc cfh sfh t rest Ht Htc Hph Hops Hok. destruct ph.
    - (* PhNone *)
      destruct o; cbn [op_section]; unfold done; intros Hpost;
        try (repeat break_match; reflexivity).
      + unfold op_open_begin, done. repeat break_match; reflexivity.
      + apply op_open_downgrade_np; assumption.
      + apply op_close_np; assumption.
      + apply op_lock_np; assumption.
      + unfold op_lockt, done. repeat break_match; reflexivity.
      + apply op_locku_np; assumption.
      + destruct (sid_special s); [repeat break_match; reflexivity|]. apply io_begin_np; assumption.
      + destruct (sid_special s); [repeat break_match; reflexivity|]. apply io_begin_np; assumption.
      + destruct (sid_special s); [repeat break_match; reflexivity|]. apply io_begin_np; assumption.
      + apply op_free_stateid_np; assumption.
      + pose proof (op_exchange_id_np owner verifier st I Li) as G. destruct (op_exchange_id _ _ _) as [[st1 outs] r]. exact G.
      + pose proof (op_create_session_np clientid seq st I Li) as G. destruct (op_create_session _ _ _) as [[st1 outs] r]. exact G.
      + pose proof (op_destroy_session_np id st I Li) as G. destruct (op_destroy_session _ _) as [[st1 outs] r]. exact G.
      + pose proof (op_destroy_clientid_np id st I Li) as G. destruct (op_destroy_clientid _ _) as [[st1 outs] r]. exact G.
    - (* PhOpened: the operation is OPEN *)
      intros _. pose proof I as [_ [_ [_ [I4 _]]]]. destruct (I4 t Ht) as [c2 [_ Hok2]]. rewrite Hph in Hok2.
      destruct Hok2 as [ow [a [d [how [cl [rest2 E]]]]]]. rewrite Hops in E. inversion E; subst.
      cbn [op_section]. apply op_open_end_np.
    - intros _. reflexivity.
    - intros _. reflexivity.
    - intros _. cbn [op_section]. eapply io_end_reg_np; eauto.
    - intros _. reflexivity.
  Qed.
End Ops2.

(* ---- events -------------------------------------------------------------------------------------------------- *)
Lemma section_np : forall tid orc st,
  full_inv st -> linv (view st) -> threads_ok qvalid st ->
  linv (view (fst (fst (section tid orc st)))) ->
  st_panic (fst (fst (section tid orc st))) = st_panic st.
Proof.
  intros tid orc st [I Sd] Li Th. unfold section.
  destruct (find_thread tid (st_threads st)) as [t|] eqn:Et; cbn [fst]; [|reflexivity].
  assert (Htin : In t (st_threads st) /\ t_id t = tid) by (rewrite find_thread_k in Et; apply (kfind_some t_id) in Et; exact Et).
  destruct Htin as [Htin Htid].
  destruct (t_ops t) as [|o rest] eqn:Eo.
  - intros _. pose proof (seq_end_np t st I Li) as G. rewrite Htid in G. specialize (G Et).
    destruct (seq_end t st). exact G.
  - pose proof I as [_ [_ [_ [I4 _]]]]. destruct (I4 t Htin) as [c [Hc _]]. rewrite Hc. cbn [fst].
    pose proof (find_client_id _ _ _ Hc) as Hcid. rewrite <- Hcid in Hc.
    assert (Hok : op_ok qvalid o) by (specialize (Th t Htin); rewrite Eo in Th; inversion Th; assumption).
    intros Hpost. cbn [st_panic set_threads].
    apply (op_section_np st c I Li Hc o (t_phase t) orc (t_cfh t) (t_sfh t) t rest); auto.
Qed.

Lemma step_np : forall st e,
  full_inv st -> seq_inv st -> linv (view st) -> threads_ok qvalid st ->
  linv (view (fst (step st e))) ->
  st_panic (fst (step st e)) = st_panic st.
Proof.
  intros st e F Sq Li Th. destruct e; cbn [step].
  - intros _. reflexivity.
  - intros _. apply solo_step_np; [exact (proj1 F)|exact Li].
  - destruct (tid_used tid st); [reflexivity|]. intros _. apply seq_begin_np; [exact (proj1 F)|exact Sq|exact Li].
  - pose proof (section_np tid orc st F Li Th) as G. destruct (section tid orc st) as [[st1 o1] u]. exact G.
Qed.

Lemma run_np : forall evs st,
  full_inv st -> seq_inv st -> linv (view st) -> threads_ok qvalid st -> Forall event_valid evs -> never_shared st evs ->
  st_panic (fst (run st evs)) = st_panic st.
Proof.
  induction evs as [|e tl IH]; intros st F Sq Li Th Hv Hn; cbn [run]; [reflexivity|].
  inversion Hv as [|? ? He Htl]; subst. destruct Hn as [Hn1 Hn2].
  pose proof (step_view qvalid st e F Th) as V.
  pose proof (step_threads_ok qvalid st e Th (event_valid_ok e He)) as Th1.
  pose proof (step_inv st e Sq) as Sq1.
  destruct (step_full st e F) as [F1 _].
  pose proof (step_np st e F Sq Li Th) as Np.
  destruct (step st e) as [st1 o1]. cbn [fst] in *.
  assert (Li1 : linv (view st1)).
  { eapply vstep_linv; eauto. apply no_sharing_ns; [exact (proj1 (proj1 F1))|exact Hn1]. }
  specialize (IH st1 F1 Sq1 Li1 Th1 Htl Hn2). destruct (run st1 tl) as [st2 o2]. cbn [fst] in *.
  rewrite IH. apply Np. exact Li1.
Qed.

Theorem no_panic_reachable : forall cfg c0 evs,
  Forall event_valid evs -> never_shared (init cfg c0) evs -> st_panic (reachable cfg c0 evs) = false.
Proof.
  intros cfg c0 evs Hv Hn. unfold reachable.
  rewrite (run_np evs (init cfg c0)); auto.
  - apply init_full.
  - apply init_inv.
  - apply init_linv.
  - intros t [].
Qed.
