(* C20: CLOSE (oofs.remove) releases exactly the ranges of the lock-owners
   that have a lock-owner file on the open-owner file being closed, and
   the lockCount / fileCount / share count / useCount checks on the way
   ("Lock-owner file still holds locks", "Negative ...") never fire --
   under the hypotheses of the lockCount invariant. *)
From Coq Require Import Lia ZifyBool ZifyN.
From VF Require Import LockSet.ProofsSet.
From VF Require Export Nfs41.Proofs2LocksThm.
Open Scope N_scope.

Lemma dec_no_panic : forall id l x, NoDup (map lo_id l) -> find_lowner_id id l = Some x -> 0 < lo_files x ->
  snd (lowner_dec id l) = false.
Proof.
  intros id l x Hnd Hf Hp. unfold lowner_dec. cbn [snd].
  destruct (existsb _ l) eqn:E; [|reflexivity]. exfalso.
  apply existsb_exists in E. destruct E as [y [Hy Hb]]. apply Bool.andb_true_iff in Hb. destruct Hb as [B1 B2].
  apply N.eqb_eq in B1, B2. apply find_lowner_id_some in Hf. destruct Hf as [Hx Hid].
  assert (y = x) by (eapply (nodup_key_eq lo_id); eauto; congruence). subst y. lia.
Qed.

Lemma tcnt_zero_filter : forall id l, tcnt id l = 0%Z -> filter (other id) l = l.
Proof.
  intros id l. unfold tcnt. induction l as [|k l IH]; intros H; [reflexivity|].
  rewrite countz_cons in H. pose proof (countz_nonneg (mine id) l) as Hn. cbn [filter].
  unfold other at 1. unfold mine at 1 in H. destruct (LS.lowner k =? id); cbn [b2z negb] in *; [lia|].
  f_equal. apply IH. lia.
Qed.

Lemma filter_filter : forall {A} (p q : A -> bool) l, filter p (filter q l) = filter (fun x => q x && p x) l.
Proof.
  intros A p q l. induction l as [|x l IH]; [reflexivity|]. cbn [filter].
  destruct (q x); cbn [filter andb]; [destruct (p x); rewrite IH; reflexivity|exact IH].
Qed.

(* Entries not owned by the lock-owner objects of [lfs]. *)
Definition not_of (lfs : list lofile) (k : LS.lock) : bool :=
  negb (existsb (fun lf => lf_owner lf =? LS.lowner k) lfs).

(* unlockAndRemove: the UnlockAll of one lock-owner file. *)
Definition unlock_step (h : N) (lf : lofile) (pool : list pfile) : Z * list pfile :=
  if true && (0 <? lf_count lf)%Z
  then ((lf_count lf + LS.set_delta (LS.set (pool_locks h pool) (unlock_q (lf_owner lf))))%Z,
        unlock_all h (lf_owner lf) pool)
  else (lf_count lf, pool).

Lemma unlock_step_spec : forall h lf pool,
  LSS.wf (pool_locks h pool) = true -> (forall k, In k (pool_locks h pool) -> bnd k) ->
  tcnt (lf_owner lf) (pool_locks h pool) = lf_count lf ->
  fst (unlock_step h lf pool) = 0%Z
  /\ pool_locks h (snd (unlock_step h lf pool)) = filter (other (lf_owner lf)) (pool_locks h pool)
  /\ (forall h', h' <> h -> pool_locks h' (snd (unlock_step h lf pool)) = pool_locks h' pool)
  /\ (forall h', pmem h' (snd (unlock_step h lf pool)) = pmem h' pool /\ puse h' (snd (unlock_step h lf pool)) = puse h' pool)
  /\ LSS.wf (pool_locks h (snd (unlock_step h lf pool))) = true
  /\ (forall k, In k (pool_locks h (snd (unlock_step h lf pool))) -> bnd k).
Proof.
  intros h lf pool Hwf Hbd Hc0. unfold unlock_step. cbn [andb]. set (l0 := pool_locks h pool) in *.
  destruct (0 <? lf_count lf)%Z eqn:Ep; cbn [fst snd].
  - apply Z.ltb_lt in Ep.
    assert (Hm : pmem h pool = true).
    { destruct (pmem h pool) eqn:Em; [reflexivity|]. exfalso.
      subst l0. rewrite (pool_locks_absent h pool Em) in Hc0. cbn in Hc0. lia. }
    pose proof (unlock_all_list l0 (lf_owner lf) (wf_bounds l0 Hwf Hbd)) as Hua.
    pose proof (set_count_mine l0 (unlock_q (lf_owner lf))) as Hcm. cbn [unlock_q LS.lowner] in Hcm.
    change (LS.mkLock 0 u64max (lf_owner lf) LS.Unlocked) with (unlock_q (lf_owner lf)) in Hcm.
    rewrite Hua, tcnt_filter_other_same in Hcm.
    assert (Hpl : pool_locks h (unlock_all h (lf_owner lf) pool) = LS.set_list (LS.set l0 (unlock_q (lf_owner lf)))).
    { unfold unlock_all. rewrite pool_locks_set_locks, N.eqb_refl, Hm. reflexivity. }
    split; [lia|]. split; [rewrite Hpl; exact Hua|]. split; [|split; [|split]].
    + intros h' Hne. unfold unlock_all. rewrite pool_locks_set_locks. apply N.eqb_neq in Hne. rewrite Hne. reflexivity.
    + intros h'. rewrite pmem_unlock_all, puse_unlock_all. auto.
    + rewrite Hpl. apply set_wf; [exact Hwf|reflexivity].
    + intros k Hk. rewrite Hpl in Hk. eapply set_bounded; [exact Hbd| |exact Hk]. unfold bnd. cbn. lia.
  - apply Z.ltb_ge in Ep. pose proof (countz_nonneg (mine (lf_owner lf)) l0) as Hn. unfold tcnt in Hc0.
    assert (Hz : lf_count lf = 0%Z) by lia.
    split; [exact Hz|]. split; [|auto].
    symmetry. apply tcnt_zero_filter. unfold tcnt. transitivity (lf_count lf); [exact Hc0|exact Hz].
Qed.

Lemma lofs_remove_all_close : forall lfs o lows pool o' lows' pool' outs pn,
  lofs_remove_all true lfs o lows pool = (o', lows', pool', outs, pn) ->
  of_lofs o = lfs -> NoDup (map lf_other lfs) -> NoDup (map lf_owner lfs) ->
  (forall b, (lofs_bits b lfs <= Z.of_N (cnt b o))%Z) ->
  NoDup (map lo_id lows) ->
  (forall lf, In lf lfs -> exists x, find_lowner_id (lf_owner lf) lows = Some x /\ 0 < lo_files x) ->
  LSS.wf (pool_locks (of_handle o) pool) = true -> (forall k, In k (pool_locks (of_handle o) pool) -> bnd k) ->
  (forall lf, In lf lfs -> tcnt (lf_owner lf) (pool_locks (of_handle o) pool) = lf_count lf) ->
  pn = false
  /\ (forall h', pool_locks h' pool' = if h' =? of_handle o then filter (not_of lfs) (pool_locks h' pool)
                                       else pool_locks h' pool)
  /\ (forall h', pmem h' pool' = pmem h' pool /\ puse h' pool' = puse h' pool).
Proof.
  induction lfs as [|lf tl IH]; intros o lows pool o' lows' pool' outs pn H Hl Hnd Hown Hge Hlows Hreg Hwf Hbd Hcnt.
  - cbn in H. inversion H; subst. split; [reflexivity|]. split; [|auto].
    intros h'. destruct (h' =? of_handle o'); [|reflexivity]. unfold not_of. cbn.
    clear. induction (pool_locks h' pool') as [|k l IH]; [reflexivity|]. cbn. f_equal. exact IH.
  - cbn [lofs_remove_all] in H.
    set (h := of_handle o) in *. set (l0 := pool_locks h pool) in *.
    assert (Hc0 : tcnt (lf_owner lf) l0 = lf_count lf) by (apply Hcnt; left; reflexivity).
    (* the unlock *)
    match type of H with context [if true && (0 <? lf_count lf)%Z then ?a else ?b] =>
      change (if true && (0 <? lf_count lf)%Z then a else b) with (unlock_step h lf pool) in H end.
    destruct (unlock_step_spec h lf pool Hwf Hbd Hc0) as [Ecnt0 [Hp1 [Hp2 [Hp3 [Hwf1 Hbd1]]]]].
    destruct (unlock_step h lf pool) as [cnt0 pool1]. cbn [fst snd] in *. subst cnt0.
    destruct (oofs_downgrade o (lf_share lf) m0) as [[o1 outs1] pn1] eqn:Ed.
    destruct (lowner_dec (lf_owner lf) lows) as [lows1 pn2] eqn:El.
    set (o2 := o_set o1 (of_seq o1) (of_share o1) (of_readers o1) (of_writers o1)
                     (del_lofs (lf_other lf) (of_lofs o1)) (of_live o1)) in *.
    destruct (lofs_remove_all true tl o2 lows1 pool1) as [[[[o3 lows2] pool2] outs2] pn3] eqn:Er.
    inversion H; subst o3 lows2 pool2 outs pn; clear H.
    (* share count *)
    assert (Hpos : forall b, bit b (m_diff (lf_share lf) m0) = true -> 0 < cnt b o).
    { intros b Hb. rewrite m_diff_m0 in Hb. specialize (Hge b). unfold lofs_bits in Hge. cbn [sumz] in Hge.
      rewrite Hb in Hge. cbn [b2z] in Hge.
      pose proof (lofs_bits_nonneg b tl) as Hn. unfold lofs_bits in Hn. lia. }
    destruct (oofs_downgrade_spec _ _ _ _ _ _ Ed Hpos) as [Epn1 [E1 [E2 [E3 [E4 [E5 [E6 [E7 [E8 E9]]]]]]]]].
    assert (Hl2 : of_lofs o2 = tl) by (subst o2; cbn [of_lofs o_set]; rewrite E6, Hl; apply del_lofs_head; exact Hnd).
    assert (Hcnt2 : forall b, cnt b o2 = cnt b o1) by (intros []; reflexivity).
    assert (Hnd2 : NoDup (map lf_other tl)) by (cbn in Hnd; inversion Hnd; assumption).
    assert (Hown2 : NoDup (map lf_owner tl)) by (cbn in Hown; inversion Hown; assumption).
    assert (Hdiff : forall lf', In lf' tl -> lf_owner lf' <> lf_owner lf).
    { intros lf' Hin E. cbn in Hown. inversion Hown as [|? ? Hni _]. apply Hni. rewrite <- E. apply in_map. exact Hin. }
    assert (Hge2 : forall b, (lofs_bits b tl <= Z.of_N (cnt b o2))%Z).
    { intros b. rewrite Hcnt2, E8, m_diff_m0. specialize (Hge b). unfold lofs_bits in *. cbn [sumz] in Hge. lia. }
    assert (Hh2 : of_handle o2 = h) by (subst o2 h; cbn; exact E4).
    (* lockOwnersByOwner *)
    destruct (Hreg lf (or_introl eq_refl)) as [x [Hx Hxp]].
    assert (Epn2 : pn2 = false).
    { pose proof (dec_no_panic _ _ _ Hlows Hx Hxp) as Hd. rewrite El in Hd. exact Hd. }
    assert (Elows1 : lows1 = fst (lowner_dec (lf_owner lf) lows)) by (rewrite El; reflexivity).
    assert (Hlows1 : NoDup (map lo_id lows1)) by (rewrite Elows1; apply dec_ids_nodup; exact Hlows).
    assert (Hreg1 : forall lf', In lf' tl -> exists x', find_lowner_id (lf_owner lf') lows1 = Some x' /\ 0 < lo_files x').
    { intros lf' Hin. rewrite Elows1, dec_find_other by (apply Hdiff; exact Hin). apply Hreg. right. exact Hin. }
    (* the tables *)
    assert (Hcnt1 : forall lf', In lf' tl -> tcnt (lf_owner lf') (pool_locks (of_handle o2) pool1) = lf_count lf').
    { intros lf' Hin. rewrite Hh2, Hp1. rewrite tcnt_filter_other by (apply Hdiff; exact Hin). apply Hcnt. right. exact Hin. }
    rewrite <- Hh2 in Hwf1, Hbd1.
    destruct (IH o2 lows1 pool1 o' lows' pool' outs2 pn3 Er Hl2 Hnd2 Hown2 Hge2 Hlows1 Hreg1 Hwf1 Hbd1 Hcnt1)
      as [Epn3 [Hpl Hpm]].
    split; [rewrite Epn1, Epn2, Epn3; reflexivity|]. split.
    + intros h'. rewrite Hpl, Hh2. destruct (h' =? h) eqn:Eh.
      * apply N.eqb_eq in Eh. subst h'. rewrite Hp1, filter_filter. apply filter_ext. intros k.
        unfold not_of, other. cbn [existsb]. rewrite Bool.negb_orb, (N.eqb_sym (lf_owner lf)). reflexivity.
      * apply Hp2. apply N.eqb_neq. exact Eh.
    + intros h'. destruct (Hpm h') as [A1 A2]. destruct (Hp3 h') as [B1 B2]. split; congruence.
Qed.

(* ---- when the pool entry goes, no other open-owner file is on the handle -------------------- *)
Lemma countz_two : forall {A} (p : A -> bool) l a b, In a l -> In b l -> a <> b -> p a = true -> p b = true ->
  (2 <= countz p l)%Z.
Proof.
  intros A p l a b. induction l as [|x l IH]; intros Ha Hb Hne Pa Pb; [destruct Ha|].
  rewrite countz_cons. pose proof (countz_nonneg p l) as Hn.
  destruct Ha as [->|Ha]; destruct Hb as [->|Hb].
  - contradiction.
  - rewrite Pa. pose proof (countz_pos_in p l b Hb Pb). cbn [b2z]. lia.
  - rewrite Pb. pose proof (countz_pos_in p l a Ha Pa). cbn [b2z]. lia.
  - specialize (IH Ha Hb Hne Pa Pb). destruct (p x); cbn [b2z]; lia.
Qed.

Lemma sumz_two : forall {A} (f : A -> Z) l a b, (forall y, In y l -> (0 <= f y)%Z) -> In a l -> In b l -> a <> b ->
  (f a + f b <= sumz f l)%Z.
Proof.
  intros A f l a b. induction l as [|x l IH]; intros Hnn Ha Hb Hne; [destruct Ha|]. cbn [sumz].
  assert (Hl : forall y, In y l -> (0 <= f y)%Z) by (intros y Hy; apply Hnn; right; exact Hy).
  assert (Hx : (0 <= f x)%Z) by (apply Hnn; left; reflexivity).
  destruct Ha as [->|Ha]; destruct Hb as [->|Hb].
  - contradiction.
  - pose proof (sumz_in_le f l b Hl Hb). lia.
  - pose proof (sumz_in_le f l a Hl Ha). lia.
  - specialize (IH Hl Ha Hb Hne). lia.
Qed.

Definition on_handle (h : N) (o : oofile) : bool := of_live o && (of_handle o =? h).

Lemma only_live_open : forall st h c o c2 o2,
  acct_inv st -> (live_opens st h <= 1)%Z ->
  In c (st_clients st) -> In o (c_oofs c) -> on_handle h o = true ->
  In c2 (st_clients st) -> In o2 (c_oofs c2) -> on_handle h o2 = true ->
  o2 = o.
Proof.
  intros st h c o c2 o2 I Hle Hc Ho Po Hc2 Ho2 Po2.
  set (f := fun c0 : client => countz (on_handle h) (c_oofs c0)).
  assert (Hf : live_opens st h = sumz f (st_clients st)) by reflexivity.
  assert (Hnn : forall y, In y (st_clients st) -> (0 <= f y)%Z) by (intros; apply countz_nonneg).
  assert (F1 : (1 <= f c)%Z) by (eapply countz_pos_in; eauto).
  assert (F2 : (1 <= f c2)%Z) by (eapply countz_pos_in; eauto).
  destruct (N.eq_dec (c_id c2) (c_id c)) as [Eid|Nid].
  - assert (c2 = c) by (eapply (nodup_key_eq c_id); [exact (proj1 I)| | |]; eauto). subst c2.
    destruct (acct_lofs_nodup st c I Hc) as [Hoo _].
    destruct (N.eq_dec (of_other o2) (of_other o)) as [Eo|No].
    + eapply (nodup_key_eq of_other); eauto.
    + exfalso. assert (o <> o2) by congruence.
      pose proof (countz_two (on_handle h) (c_oofs c) o o2 Ho Ho2 H Po Po2) as H2.
      pose proof (sumz_in_le f (st_clients st) c Hnn Hc). unfold f in H0 at 1. lia.
  - exfalso. assert (c <> c2) by congruence.
    pose proof (sumz_two f (st_clients st) c c2 Hnn Hc Hc2 H). lia.
Qed.

(* ---- oofs.remove, CLOSE ------------------------------------------------------------------------ *)
Section Close.
  Variables (cfg : config) (c0 : N) (evs : list event).
  Hypothesis Hvalid : Forall event_valid evs.
  Hypothesis Hns : never_shared (init cfg c0) evs.
  Let st := reachable cfg c0 evs.

  Lemma oofs_remove_exact : forall c o c1 pool1 outs pn,
    In c (st_clients st) -> In o (c_oofs c) -> of_live o = true ->
    oofs_remove o c (st_pool st) = (c1, pool1, outs, pn) ->
    pn = false
    /\ forall h', pool_locks h' pool1
                  = if h' =? of_handle o then filter (not_of (of_lofs o)) (pool_locks h' (st_pool st))
                    else pool_locks h' (st_pool st).
  Proof.
    intros c o c1 pool1 outs pn Hc Ho Hlive H.
    pose proof (reachable_full_inv cfg c0 evs) as [I _]. fold st in I.
    pose proof (reachable_linv cfg c0 evs Hvalid Hns) as [_ [P [_ [T _]]]]. fold st in P, T.
    destruct (lockcount_exact_lemma cfg c0 evs Hvalid Hns) as [LC [LO _]]. fold st in LC, LO.
    destruct (one_owner_one_object_lemma cfg c0 evs) as [_ [_ OO]]. fold st in OO.
    destruct (OO c Hc) as [_ [Olows [Oreg [Ofiles Oown]]]].
    assert (Iok := I). destruct Iok as [_ [_ [I3 _]]]. destruct (I3 c Hc) as [_ [N2 _]].
    destruct (N2 o Ho) as [_ [S1 [_ S3]]].
    set (h := of_handle o) in *.
    unfold oofs_remove in H.
    destruct (lofs_remove_all true (of_lofs o) o (c_lowners c) (st_pool st)) as [[[[o1 lows] pool0] outs1] pn1] eqn:Er.
    destruct (oofs_downgrade o1 (of_share o1) m0) as [[o2 outs2] pn2] eqn:Ed.
    destruct (pool_close (of_handle o) pool0) as [pool2 pn3] eqn:Ec.
    inversion H; subst c1 pool1 outs pn; clear H.
    (* the preconditions *)
    assert (Hge : forall b, (lofs_bits b (of_lofs o) <= Z.of_N (cnt b o))%Z).
    { intros b. rewrite (S1 b). pose proof (b2z_01 (of_live o && bit b (of_share o))).
      pose proof (countz_nonneg (t_clones (c_id c) (of_other o) b) (st_threads st)). unfold clones, st, reachable in *. lia. }
    assert (Hreg : forall lf, In lf (of_lofs o) -> exists x, find_lowner_id (lf_owner lf) (c_lowners c) = Some x /\ 0 < lo_files x).
    { intros lf Hlf. destruct (Oreg o lf Ho Hlf) as [x [Hx Hin]]. exists x. split; [exact Hx|]. exact (proj2 (Ofiles x Hin)). }
    assert (Hcnt : forall lf, In lf (of_lofs o) -> tcnt (lf_owner lf) (pool_locks h (st_pool st)) = lf_count lf).
    { intros lf Hlf. destruct (LC c o lf Hc Ho Hlf) as [E _]. symmetry. exact E. }
    destruct (T h) as [Hwf Hbd]. cbn [view v_pool] in Hwf, Hbd.
    destruct (lofs_remove_all_close _ _ _ _ _ _ _ _ _ Er eq_refl S3 (Oown o Ho) Hge Olows Hreg Hwf Hbd Hcnt)
      as [Epn1 [Hpl Hpm]].
    destruct (lofs_remove_all_spec _ _ _ _ _ _ _ _ _ _ Er eq_refl S3 Hge) as [[I1 [I2 [I3' [I4 [I5 I6]]]]] [Hl1 [Hc1 _]]].
    (* own share reservation *)
    assert (Hpos : forall b, bit b (m_diff (of_share o1) m0) = true -> 0 < cnt b o1).
    { intros b Hb. rewrite m_diff_m0, I5 in Hb. specialize (Hc1 b). rewrite (S1 b), Hlive, Hb in Hc1. cbn [andb b2z] in Hc1.
      pose proof (countz_nonneg (t_clones (c_id c) (of_other o) b) (st_threads st)). unfold clones, st, reachable in *. lia. }
    destruct (oofs_downgrade_spec _ _ _ _ _ _ Ed Hpos) as [Epn2 _].
    (* the pool entry *)
    assert (Hm : pmem h (st_pool st) = true).
    { apply (live_pmem (view st) (vc c) (vo o) P); cbn; [apply in_map; exact Hc|apply in_map; exact Ho|exact Hlive]. }
    destruct (Hpm h) as [Hm0 Hu0].
    assert (Hupos : 0 < puse h (st_pool st)) by (apply (proj2 P); exact Hm).
    assert (Epn3 : pn3 = false).
    { unfold pool_close in Ec. unfold pmem in Hm0, Hm. unfold puse in Hu0, Hupos. fold h in Ec.
      destruct (find_pfile h pool0) as [p|]; [|rewrite Hm in Hm0; discriminate].
      destruct (pf_use p <=? 1); inversion Ec; [|reflexivity]. apply N.eqb_neq. rewrite Hu0. lia. }
    split; [rewrite Epn1, Epn2, Epn3; reflexivity|].
    (* the tables *)
    intros h'. assert (Epool2 : pool2 = fst (pool_close h pool0)) by (fold h in Ec; rewrite Ec; reflexivity).
    rewrite Epool2, pool_locks_close, Hpl, Hu0. change (of_handle o) with h.
    destruct (h' =? h) eqn:Eh; cbn [andb]; [|reflexivity]. apply N.eqb_eq in Eh. subst h'.
    destruct (puse h (st_pool st) <=? 1) eqn:Eu; [|reflexivity].
    (* the entry goes: every remaining lock would belong to another open-owner file on this handle *)
    apply N.leb_le in Eu. symmetry.
    destruct (filter (not_of (of_lofs o)) (pool_locks h (st_pool st))) as [|k rest] eqn:Ef; [reflexivity|]. exfalso.
    assert (Hk : In k (filter (not_of (of_lofs o)) (pool_locks h (st_pool st)))) by (rewrite Ef; left; reflexivity).
    apply filter_In in Hk. destruct Hk as [Hk Hno].
    destruct (LO h k Hk) as [cx [ox [lfx [Hcx [Hox [Hl2 [Hlfx [Hh2 Hown2]]]]]]]].
    assert (Hone : (live_opens st h <= 1)%Z).
    { destruct (proj2 P h) as [U _]. rewrite v_use_live_opens in U. cbn [view v_pool] in U. lia. }
    assert (ox = o).
    { eapply (only_live_open st h c o cx ox I Hone Hc Ho); auto; unfold on_handle.
      - rewrite Hlive. apply N.eqb_refl.
      - rewrite Hl2, Hh2. apply N.eqb_refl. }
    subst ox. unfold not_of in Hno. apply Bool.negb_true_iff in Hno.
    assert (Hex : existsb (fun lf => lf_owner lf =? LS.lowner k) (of_lofs o) = true).
    { apply existsb_exists. exists lfx. split; [exact Hlfx|]. apply N.eqb_eq. exact Hown2. }
    congruence.
  Qed.

  (* CLOSE: the reply is NFS4_OK, no check fires, and exactly the ranges
     of the lock-owners of this open are gone from the file's lock table;
     every other table is untouched. *)
  Lemma close_exact : forall c s cfh sfh o,
    find_client (c_id c) (st_clients st) = Some c ->
    get_oofs c cfh s true = (Some o, NFS4_OK) ->
    let r := op_close s c st cfh sfh in
    sr_step r = Done (RStatus OP_CLOSE NFS4_OK)
    /\ st_panic (sr_st r) = st_panic st
    /\ forall h', pool_locks h' (st_pool (sr_st r))
                  = if h' =? of_handle o then filter (not_of (of_lofs o)) (pool_locks h' (st_pool st))
                    else pool_locks h' (st_pool st).
  Proof.
    intros c s cfh sfh o Hfc Hg r.
    pose proof (reachable_full_inv cfg c0 evs) as [I _]. fold st in I.
    assert (Hc : In c (st_clients st)) by (rewrite find_client_k in Hfc; eapply kfind_in; eauto).
    destruct (acct_lofs_nodup st c I Hc) as [Hoo _].
    destruct (get_oofs_some _ _ _ _ _ _ Hoo Hg) as [Hfo Hlive].
    assert (Ho : In o (c_oofs c)) by (rewrite find_oofs_any_k in Hfo; eapply kfind_in; eauto).
    subst r. unfold op_close. rewrite Hg. change (NFS4_OK) with 0.
    destruct (oofs_remove o c (st_pool st)) as [[[c1 pool1] outs] pn] eqn:Er.
    destruct (oofs_remove_exact c o c1 pool1 outs pn Hc Ho Hlive Er) as [Epn Hpl]. subst pn.
    cbn [sr_step sr_st st_panic add_panic st_pool set_pool]. split; [reflexivity|]. split; [apply Bool.orb_false_r|exact Hpl].
  Qed.
End Close.

(* ---- the lockCount checks, on every reachable state ------------------------------------------ *)
Lemma lockcount_checks : forall cfg c0 evs,
  Forall event_valid evs -> never_shared (init cfg c0) evs ->
  let st := reachable cfg c0 evs in
  forall c o lf, In c (st_clients st) -> In o (c_oofs c) -> In lf (of_lofs o) ->
    let table := pool_locks (of_handle o) (st_pool st) in
    (* "Negative lock count" *)
    (0 <= lf_count lf)%Z
    /\ (forall q, LS.lowner q = lf_owner lf -> (0 <= lf_count lf + LS.set_delta (LS.set table q))%Z)
    (* "Lock-owner file still holds locks": lofs.remove after unlockAndRemove's UnlockAll *)
    /\ (if (0 <? lf_count lf)%Z then (lf_count lf + LS.set_delta (LS.set table (unlock_q (lf_owner lf))))%Z = 0%Z
        else lf_count lf = 0%Z)
    (* the two panics of ByteRangeLockSet.Set *)
    /\ (forall q, qvalid q -> LS.set_panic (LS.set table q) = false).
Proof.
  intros cfg c0 evs Hv Hn st c o lf Hc Ho Hlf table.
  destruct (lockcount_exact_lemma cfg c0 evs Hv Hn) as [LC [_ LW]]. fold st in LC, LW.
  destruct (LC c o lf Hc Ho Hlf) as [Ec Hnn]. unfold table_entries in Ec. fold table in Ec.
  pose proof (reachable_linv cfg c0 evs Hv Hn) as [_ [_ [_ [T _]]]]. fold st in T.
  destruct (T (of_handle o)) as [Hwf Hbd]. cbn [view v_pool] in Hwf, Hbd. fold table in Hwf, Hbd.
  split; [exact Hnn|]. split; [|split].
  - intros q Hq. pose proof (set_count_mine table q) as Hm. rewrite Hq in Hm. unfold tcnt, mine in Hm.
    pose proof (countz_nonneg (fun k => LS.lowner k =? lf_owner lf) (LS.set_list (LS.set table q))). lia.
  - destruct (0 <? lf_count lf)%Z eqn:Ep; [|apply Z.ltb_ge in Ep; lia].
    pose proof (set_count_mine table (unlock_q (lf_owner lf))) as Hm. cbn [unlock_q LS.lowner] in Hm.
    change (LS.mkLock 0 u64max (lf_owner lf) LS.Unlocked) with (unlock_q (lf_owner lf)) in Hm.
    rewrite (unlock_all_list table (lf_owner lf) (wf_bounds table Hwf Hbd)), tcnt_filter_other_same in Hm.
    unfold tcnt, mine in Hm. lia.
  - intros q [Hq _]. apply set_no_panic; assumption.
Qed.

(* ---- decidable form of the hypothesis (for examples) ------------------------------------------- *)
Fixpoint never_shared_b (st : state) (evs : list event) : bool :=
  match evs with
  | [] => true
  | e :: tl => forallb (fun c => negb (shares c)) (st_clients (fst (step st e))) && never_shared_b (fst (step st e)) tl
  end.

Lemma never_shared_b_iff : forall evs st, never_shared st evs <-> never_shared_b st evs = true.
Proof.
  induction evs as [|e tl IH]; intros st; cbn [never_shared never_shared_b]; [tauto|].
  rewrite Bool.andb_true_iff, <- IH. unfold no_sharing. tauto.
Qed.

(* ---- LOCKU, FREE_STATEID ------------------------------------------------------------------------- *)
Section Unlock.
  Variables (cfg : config) (c0 : N) (evs : list event).
  Let st := reachable cfg c0 evs.

  (* FREE_STATEID never touches a lock table (it is gated by lockCount). *)
  Lemma free_stateid_pool : forall s c cfh sfh, st_pool (sr_st (op_free_stateid s c st cfh sfh)) = st_pool st.
  Proof.
    intros. unfold op_free_stateid, done. destruct (negb (s_hi s =? 0)); [reflexivity|].
    destruct (find_lofs (s_lo s) (c_oofs c)) as [[o lf]|]; [|reflexivity].
    destruct (negb (_ =? NFS4_OK)); [reflexivity|]. destruct (0 <? lf_count lf)%Z; [reflexivity|].
    cbn [lofs_remove_all andb]. destruct (oofs_downgrade o (lf_share lf) m0) as [[o1 outs1] pn1].
    destruct (lowner_dec (lf_owner lf) (c_lowners c)) as [lows1 pn2]. reflexivity.
  Qed.

  (* LOCKU: the table of the file becomes Set(table, [s,e) Unlocked by the
     lock-owner object of the state ID); every other table is unchanged. *)
  Lemma locku_table : forall c s off len cfh sfh o lf s0 e0,
    find_client (c_id c) (st_clients st) = Some c ->
    get_lofs c cfh s = (Some (o, lf), NFS4_OK) ->
    LS.offset_length_to_start_end off len = Some (s0, e0) ->
    let r := op_locku s off len c st cfh sfh in
    let q := LS.mkLock s0 e0 (lf_owner lf) LS.Unlocked in
    forall h', pool_locks h' (st_pool (sr_st r))
               = if h' =? of_handle o then LS.set_list (LS.set (pool_locks h' (st_pool st)) q)
                 else pool_locks h' (st_pool st).
  Proof.
    intros c s off len cfh sfh o lf s0 e0 Hfc Hg Ho r q h'.
    pose proof (reachable_full_inv cfg c0 evs) as [I _]. fold st in I.
    pose proof (reachable_pool_ok cfg c0 evs) as P. fold st in P.
    assert (Hc : In c (st_clients st)) by (rewrite find_client_k in Hfc; eapply kfind_in; eauto).
    destruct (get_lofs_some _ _ _ _ _ _ Hg) as [Hin [Hlive Hlf]].
    assert (Hm : pmem (of_handle o) (st_pool st) = true).
    { apply (live_pmem (view st) (vc c) (vo o) P); cbn; [apply in_map; exact Hc|apply in_map; exact Hin|exact Hlive]. }
    subst r. unfold op_locku. rewrite Hg, Ho. change NFS4_OK with 0. cbn [sr_st st_pool add_panic set_pool].
    rewrite pool_locks_set_locks, Hm. destruct (h' =? of_handle o) eqn:E; [|reflexivity].
    apply N.eqb_eq in E. subst h'. reflexivity.
  Qed.

  Hypothesis Hvalid : Forall event_valid evs.
  Hypothesis Hns : never_shared (init cfg c0) evs.

  (* ... which, the tables being well formed, means per byte: the bytes of
     that lock-owner in [s,e) are released, every other byte of every owner
     keeps its lock (LockSet: set_refines_bytes); no check fires. *)
  Lemma locku_exact : forall c s off len cfh sfh o lf s0 e0,
    find_client (c_id c) (st_clients st) = Some c ->
    get_lofs c cfh s = (Some (o, lf), NFS4_OK) ->
    req_valid off len ->
    LS.offset_length_to_start_end off len = Some (s0, e0) ->
    let r := op_locku s off len c st cfh sfh in
    st_panic (sr_st r) = st_panic st
    /\ forall ow b, LSS.kind_at (pool_locks (of_handle o) (st_pool (sr_st r))) ow b
                    = if (ow =? lf_owner lf) && (s0 <=? b) && (b <? e0) then None
                      else LSS.kind_at (pool_locks (of_handle o) (st_pool st)) ow b.
  Proof.
    intros c s off len cfh sfh o lf s0 e0 Hfc Hg Hrv Ho r.
    assert (Hc : In c (st_clients st)) by (rewrite find_client_k in Hfc; eapply kfind_in; eauto).
    destruct (get_lofs_some _ _ _ _ _ _ Hg) as [Hin [Hlive Hlf]].
    destruct (lockcount_checks cfg c0 evs Hvalid Hns c o lf Hc Hin Hlf) as [_ [K2 [_ K4]]]. fold st in K2, K4.
    destruct (lockcount_exact_lemma cfg c0 evs Hvalid Hns) as [_ [_ LW]]. fold st in LW.
    pose proof (req_valid_ok off len Hrv s0 e0 (lf_owner lf) LS.Unlocked Ho) as Hq.
    split.
    - subst r. unfold op_locku. rewrite Hg, Ho. change NFS4_OK with 0. cbn [sr_st st_panic add_panic].
      set (q := LS.mkLock s0 e0 (lf_owner lf) LS.Unlocked) in *.
      specialize (K2 q eq_refl). specialize (K4 q Hq).
      rewrite K4. assert (E : (lf_count lf + LS.set_delta (LS.set (pool_locks (of_handle o) (st_pool st)) q) <? 0)%Z = false)
        by (apply Z.ltb_ge; exact K2).
      rewrite E. apply Bool.orb_false_r.
    - intros ow b. rewrite (locku_table c s off len cfh sfh o lf s0 e0 Hfc Hg Ho), N.eqb_refl.
      pose proof (LockSet.ProofsHist.unlock_bytes (pool_locks (of_handle o) (st_pool st)) (lf_owner lf) s0 e0 ow b
                    (LW (of_handle o)) (proj1 Hq)) as Hb.
      exact Hb.
  Qed.
End Unlock.
