(* Lease expiry (C18): the idle list is exactly the set of incarnations
   without compounds in flight, without duplicates; after all leases have
   lapsed one enter() removes every client record. *)
From VF Require Import Nfs41.ProofsBase.
Open Scope N_scope.

Definition hold_of (id : N) (st : state) : option N :=
  match find_client id (st_clients st) with Some c => Some (c_hold c) | None => None end.

Definition idle_inv (st : state) : Prop :=
  NoDup (st_idle st)
  /\ (forall id, hold_of id st = Some 0 <-> In id (st_idle st))
  /\ NoDup (map c_id (st_clients st)).

(* States that agree on the idle list and on every hold count. *)
Definition hi_frame (st st' : state) : Prop :=
  st_idle st' = st_idle st /\ (forall id, hold_of id st' = hold_of id st)
  /\ map c_id (st_clients st') = map c_id (st_clients st).

Lemma hi_frame_refl : forall st, hi_frame st st.
Proof. intros. repeat split. Qed.

Lemma hi_frame_trans : forall a b c, hi_frame a b -> hi_frame b c -> hi_frame a c.
Proof.
  intros a b c [A1 [A2 A3]] [B1 [B2 B3]]. split; [congruence|]. split; [|congruence].
  intros id. rewrite B2. apply A2.
Qed.

Lemma idle_inv_frame : forall st st', hi_frame st st' -> idle_inv st -> idle_inv st'.
Proof.
  intros st st' [F1 [F2 F3]] [I1 [I2 I3]]. split; [rewrite F1; exact I1|]. split; [|rewrite F3; exact I3].
  intros id. rewrite F1, F2. apply I2.
Qed.

(* Replacing the record of client [c] by one with the same hold count. *)
Lemma hold_of_upd : forall st c c1 id,
  NoDup (map c_id (st_clients st)) -> find_client (c_id c) (st_clients st) = Some c ->
  c_id c1 = c_id c -> c_hold c1 = c_hold c ->
  match find_client id (upd_client c1 (st_clients st)) with Some x => Some (c_hold x) | None => None end
  = hold_of id st.
Proof.
  intros st c c1 id Hnd Hf E1 E2. unfold hold_of.
  change (match kfind c_id id (kupd c_id c1 (st_clients st)) with Some x => Some (c_hold x) | None => None end
          = match kfind c_id id (st_clients st) with Some c0 => Some (c_hold c0) | None => None end).
  destruct (N.eq_dec id (c_id c1)) as [->|Hne].
  - assert (K : kfind c_id (c_id c1) (st_clients st) = Some c) by (rewrite E1; exact Hf).
    rewrite (kfind_kupd_same c_id c1 _ c K), K. congruence.
  - rewrite kfind_kupd_other by exact Hne. reflexivity.
Qed.

Lemma upd_hi : forall st c X c1,
  NoDup (map c_id (st_clients st)) -> find_client (c_id c) (st_clients st) = Some c ->
  st_idle X = st_idle st -> st_clients X = upd_client c1 (st_clients st) ->
  c_id c1 = c_id c -> c_hold c1 = c_hold c ->
  hi_frame st X.
Proof.
  intros st c X c1 Hnd Hf Hi Hc E1 E2. split; [exact Hi|]. split.
  - intros id. unfold hold_of at 1. rewrite Hc. apply (hold_of_upd st c c1 id); assumption.
  - rewrite Hc, upd_client_k, kupd_keys. reflexivity.
Qed.

(* Fields other than clients and the idle list do not matter. *)
Lemma hi_same : forall st st', st_idle st' = st_idle st -> st_clients st' = st_clients st -> hi_frame st st'.
Proof. intros st st' H1 H2. split; [exact H1|]. split; [intros id; unfold hold_of; rewrite H2; reflexivity|rewrite H2; reflexivity]. Qed.

Lemma oofs_remove_id_hold : forall o c pool c1 pool1 outs pn,
  oofs_remove o c pool = (c1, pool1, outs, pn) -> c_id c1 = c_id c /\ c_hold c1 = c_hold c.
Proof.
  intros o c pool c1 pool1 outs pn H. unfold oofs_remove in H.
  destruct (lofs_remove_all _ _ _ _ _) as [[[[o1 lows] pool0] outs1] pn1].
  destruct (oofs_downgrade _ _ _) as [[o2 outs2] pn2].
  destruct (pool_close _ _) as [pool2 pn3]. inversion H; subst. split; reflexivity.
Qed.

(* ---- operations under cis.lock ------------------------------------------------------------ *)
Section CisLock.
  Variables (st : state) (c : client).
  Hypothesis Hnd : NoDup (map c_id (st_clients st)).
  Hypothesis Hf : find_client (c_id c) (st_clients st) = Some c.

  Ltac hi_leaf :=
    first
      [ apply hi_frame_refl
      | apply hi_same; reflexivity
      | eapply (upd_hi st c); [exact Hnd|exact Hf|reflexivity|reflexivity|reflexivity|reflexivity]
      | match goal with
        | H : oofs_remove _ c _ = (?c0, _, _, _) |- _ =>
          eapply (upd_hi st c _ c0);
          [exact Hnd|exact Hf|reflexivity|reflexivity
          |exact (proj1 (oofs_remove_id_hold _ _ _ _ _ _ _ H))|exact (proj2 (oofs_remove_id_hold _ _ _ _ _ _ _ H))]
        end ].

  Ltac hi_leaves := repeat break_match; cbn [sr_st]; hi_leaf.

  Lemma op_section_hi : forall o ph orc cfh sfh,
    match o with
    | OExchangeId _ _ | OCreateSession _ _ | ODestroySession _ | ODestroyClientid _ => ph <> PhNone
    | _ => True
    end ->
    hi_frame st (sr_st (op_section o ph orc c st cfh sfh)).
  Proof.
    intros o ph orc cfh sfh Hs. destruct ph.
    - destruct o; cbn [op_section]; try (exfalso; apply Hs; reflexivity);
        unfold op_open_begin, op_open_downgrade, op_close, op_lock, op_lock_run, op_lockt, op_locku,
               io_begin, op_free_stateid, done; hi_leaves.
    - cbn [op_section]. destruct o; try (unfold done; cbn [sr_st]; hi_leaf). unfold op_open_end. hi_leaves.
    - cbn [op_section sr_st]. hi_leaf.
    - cbn [op_section sr_st]. hi_leaf.
    - cbn [op_section]. unfold io_end_reg. hi_leaves.
    - cbn [op_section sr_st]. hi_leaf.
  Qed.
End CisLock.

(* ---- hold, release, touch, adding and removing clients ------------------------------------ *)
Lemma hold_of_found : forall id st c, find_client id (st_clients st) = Some c -> hold_of id st = Some (c_hold c).
Proof. intros id st c H. unfold hold_of. rewrite H. reflexivity. Qed.

Lemma idle_remove_in : forall id x l, In x (idle_remove id l) <-> In x l /\ x <> id.
Proof.
  intros id x l. unfold idle_remove. rewrite filter_In, Bool.negb_true_iff, N.eqb_neq. tauto.
Qed.

Lemma idle_remove_nodup : forall id l, NoDup l -> NoDup (idle_remove id l).
Proof. intros id l H. unfold idle_remove. apply NoDup_filter. exact H. Qed.

(* Replacing the record of [c] by one with hold count [h]. *)
Lemma hold_of_set : forall st c c1 id,
  NoDup (map c_id (st_clients st)) -> find_client (c_id c) (st_clients st) = Some c -> c_id c1 = c_id c ->
  match find_client id (upd_client c1 (st_clients st)) with Some x => Some (c_hold x) | None => None end
  = if id =? c_id c then Some (c_hold c1) else hold_of id st.
Proof.
  intros st c c1 id Hnd Hf E1. unfold hold_of.
  change (match kfind c_id id (kupd c_id c1 (st_clients st)) with Some x => Some (c_hold x) | None => None end
          = if id =? c_id c then Some (c_hold c1)
            else match kfind c_id id (st_clients st) with Some c0 => Some (c_hold c0) | None => None end).
  destruct (id =? c_id c) eqn:E.
  - apply N.eqb_eq in E. subst id. rewrite <- E1.
    assert (K : kfind c_id (c_id c1) (st_clients st) = Some c) by (rewrite E1; exact Hf).
    rewrite (kfind_kupd_same c_id c1 _ c K). reflexivity.
  - apply N.eqb_neq in E. rewrite kfind_kupd_other by (rewrite E1; exact E). reflexivity.
Qed.

Lemma hold_idle : forall id st, idle_inv st -> idle_inv (hold id st).
Proof.
  intros id st [I1 [I2 I3]]. unfold hold. destruct (find_client id (st_clients st)) as [c|] eqn:Ef; [|repeat split; auto; apply I2].
  assert (Hcid : c_id c = id) by (rewrite find_client_k in Ef; apply kfind_some in Ef; tauto).
  assert (Hf : find_client (c_id c) (st_clients st) = Some c) by (rewrite Hcid; exact Ef).
  set (c1 := c_set_hold c (c_hold c + 1) (c_seen c)).
  assert (Hho : forall s0, st_clients s0 = st_clients st ->
            forall id2, match find_client id2 (upd_client c1 (st_clients s0)) with Some x => Some (c_hold x) | None => None end
                        = if id2 =? id then Some (c_hold c + 1) else hold_of id2 st).
  { intros s0 Hs id2. rewrite Hs. rewrite (hold_of_set st c c1 id2 I3 Hf eq_refl). rewrite Hcid. reflexivity. }
  destruct (c_hold c =? 0) eqn:E0.
  - split; [cbn; apply idle_remove_nodup; exact I1|]. split.
    + intros id2. unfold hold_of. cbn [st_clients st_idle set_clients set_idle]. rewrite (Hho st eq_refl).
      rewrite idle_remove_in. destruct (id2 =? id) eqn:E.
      * apply N.eqb_eq in E. split; [intros H; inversion H; lia|intros [_ H]; contradiction].
      * apply N.eqb_neq in E. rewrite I2. tauto.
    + cbn [st_clients set_clients set_idle add_panic]. rewrite upd_client_k, kupd_keys. exact I3.
  - split; [exact I1|]. split.
    + intros id2. unfold hold_of. cbn [st_clients st_idle set_clients]. rewrite (Hho st eq_refl).
      destruct (id2 =? id) eqn:E.
      * apply N.eqb_eq in E. subst id2. split; [intros H; inversion H; lia|].
        intros Hin. apply I2 in Hin. rewrite (hold_of_found _ _ _ Ef) in Hin. inversion Hin. apply N.eqb_neq in E0. contradiction.
      * apply I2.
    + cbn [st_clients set_clients set_idle add_panic]. rewrite upd_client_k, kupd_keys. exact I3.
Qed.

Lemma release_idle : forall id st, idle_inv st -> idle_inv (release id st).
Proof.
  intros id st [I1 [I2 I3]]. unfold release. destruct (find_client id (st_clients st)) as [c|] eqn:Ef; [|repeat split; auto; apply I2].
  assert (Hcid : c_id c = id) by (rewrite find_client_k in Ef; apply kfind_some in Ef; tauto).
  assert (Hf : find_client (c_id c) (st_clients st) = Some c) by (rewrite Hcid; exact Ef).
  destruct (c_hold c =? 0) eqn:E0; [repeat split; auto; apply I2|].
  apply N.eqb_neq in E0.
  destruct (c_hold c =? 1) eqn:E1.
  - apply N.eqb_eq in E1.
    assert (Hni : ~ In id (st_idle st)).
    { intros Hin. apply I2 in Hin. rewrite (hold_of_found _ _ _ Ef) in Hin. inversion Hin. contradiction. }
    split; [cbn; apply NoDup_snoc; assumption|]. split.
    + intros id2. unfold hold_of. cbn [st_clients st_idle set_clients set_idle].
      rewrite (hold_of_set st c (c_set_hold c 0 (st_now st)) id2 I3 Hf eq_refl). rewrite Hcid. cbn [c_hold c_set_hold].
      rewrite in_app_iff. destruct (id2 =? id) eqn:E.
      * apply N.eqb_eq in E. subst id2. split; [intros _; right; left; reflexivity|reflexivity].
      * apply N.eqb_neq in E. rewrite I2. split; [auto|]. intros [H|[H|[]]]; [exact H|congruence].
    + cbn [st_clients set_clients set_idle add_panic]. rewrite upd_client_k, kupd_keys. exact I3.
  - apply N.eqb_neq in E1. split; [exact I1|]. split.
    + intros id2. unfold hold_of. cbn [st_clients st_idle set_clients].
      rewrite (hold_of_set st c (c_set_hold c (N.pred (c_hold c)) (c_seen c)) id2 I3 Hf eq_refl). rewrite Hcid. cbn [c_hold c_set_hold].
      destruct (id2 =? id) eqn:E.
      * apply N.eqb_eq in E. subst id2. split; [intros H; inversion H; lia|].
        intros Hin. apply I2 in Hin. rewrite (hold_of_found _ _ _ Ef) in Hin. inversion Hin. contradiction.
      * apply I2.
    + cbn [st_clients set_clients set_idle add_panic]. rewrite upd_client_k, kupd_keys. exact I3.
Qed.

Lemma touch_idle : forall id st, idle_inv st -> idle_inv (touch id st).
Proof.
  intros id st [I1 [I2 I3]]. unfold touch. destruct (find_client id (st_clients st)) as [c|] eqn:Ef; [|repeat split; auto; apply I2].
  assert (Hcid : c_id c = id) by (rewrite find_client_k in Ef; apply kfind_some in Ef; tauto).
  assert (Hf : find_client (c_id c) (st_clients st) = Some c) by (rewrite Hcid; exact Ef).
  destruct (c_hold c =? 0) eqn:E0; [|repeat split; auto; apply I2].
  apply N.eqb_eq in E0.
  split.
  { cbn. apply NoDup_snoc; [apply idle_remove_nodup; exact I1|]. rewrite idle_remove_in. tauto. }
  split.
  - intros id2. unfold hold_of. cbn [st_clients st_idle set_clients set_idle].
    rewrite (hold_of_set st c (c_set_hold c 0 (st_now st)) id2 I3 Hf eq_refl). rewrite Hcid. cbn [c_hold c_set_hold].
    rewrite in_app_iff, idle_remove_in. destruct (id2 =? id) eqn:E.
    + apply N.eqb_eq in E. subst id2. split; [intros _; right; left; reflexivity|reflexivity].
    + apply N.eqb_neq in E. rewrite I2. split; [auto|]. intros [[H _]|[H|[]]]; [exact H|congruence].
  - cbn [st_clients set_clients set_idle add_panic]. rewrite upd_client_k, kupd_keys. exact I3.
Qed.

Lemma client_remove_idle : forall id st, idle_inv st -> idle_inv (client_remove id st).
Proof.
  intros id st [I1 [I2 I3]]. unfold client_remove. destruct (find_client id (st_clients st)) as [c|] eqn:Ef; [|repeat split; auto; apply I2].
  split; [cbn; apply idle_remove_nodup; exact I1|]. split.
  - intros id2. unfold hold_of. cbn [st_clients st_idle set_clients set_idle add_panic].
    change (match kfind c_id id2 (kdel c_id id (st_clients st)) with Some c0 => Some (c_hold c0) | None => None end = Some 0
            <-> In id2 (idle_remove id (st_idle st))).
    rewrite idle_remove_in. destruct (N.eq_dec id2 id) as [->|Hne].
    + rewrite kfind_kdel_same. split; [discriminate|intros [_ H]; contradiction].
    + rewrite kfind_kdel_other by exact Hne. specialize (I2 id2). unfold hold_of in I2. rewrite find_client_k in I2. tauto.
  - cbn. apply (kdel_nodup c_id). exact I3.
Qed.

Lemma oofs_remove_all_id_hold : forall others c pool c1 pool1 outs pn,
  oofs_remove_all others c pool = (c1, pool1, outs, pn) -> c_id c1 = c_id c /\ c_hold c1 = c_hold c.
Proof.
  induction others as [|x tl IH]; intros c pool c1 pool1 outs pn H; cbn in H.
  - inversion H; subst. auto.
  - destruct (find_oofs x (c_oofs c)); [|eapply IH; eauto].
    destruct (oofs_remove o c pool) as [[[c2 pool2] outs1] pn1] eqn:E1.
    destruct (oofs_remove_all tl c2 pool2) as [[[c3 pool3] outs2] pn2] eqn:E2.
    inversion H; subst. destruct (oofs_remove_id_hold _ _ _ _ _ _ _ E1) as [A1 A2].
    destruct (IH _ _ _ _ _ _ E2) as [B1 B2]. split; congruence.
Qed.

(* The fields of the state after emptyAndRemove. *)
Lemma empty_and_remove_fields : forall id st c,
  NoDup (map c_id (st_clients st)) -> find_client id (st_clients st) = Some c ->
  let st' := fst (empty_and_remove id st) in
  st_clients st' = del_client id (st_clients st) /\ st_idle st' = idle_remove id (st_idle st)
  /\ st_now st' = st_now st /\ st_cfg st' = st_cfg st /\ st_threads st' = st_threads st
  /\ st_sessions st' = filter (fun s => negb (ss_client s =? id)) (st_sessions st).
Proof.
  intros id st c Hnd Hf. unfold empty_and_remove. rewrite Hf.
  destruct (oofs_remove_all (live_others c) c (st_pool st)) as [[[c1 pool1] outs] pn] eqn:Er. cbn [fst].
  destruct (oofs_remove_all_id_hold _ _ _ _ _ _ _ Er) as [E1 _].
  assert (Hcid : c_id c = id) by (rewrite find_client_k in Hf; apply kfind_some in Hf; tauto).
  unfold client_remove. cbn [st_clients set_sessions add_panic set_pool set_clients].
  assert (Hk : find_client id (upd_client c1 (st_clients st)) = Some c1).
  { change (kfind c_id id (kupd c_id c1 (st_clients st)) = Some c1). rewrite <- Hcid, <- E1.
    eapply kfind_kupd_same. rewrite E1, Hcid. exact Hf. }
  rewrite Hk. cbn.
  split; [|repeat split].
  change (kdel c_id id (kupd c_id c1 (st_clients st)) = kdel c_id id (st_clients st)).
  rewrite <- Hcid, <- E1.
  clear. unfold kdel, kupd. induction (st_clients st) as [|y l IH]; [reflexivity|]. cbn.
  destruct (c_id y =? c_id c1) eqn:E; cbn.
  - rewrite N.eqb_refl. cbn. exact IH.
  - rewrite E. cbn. f_equal. exact IH.
Qed.

Lemma empty_and_remove_idle : forall id st, idle_inv st -> idle_inv (fst (empty_and_remove id st)).
Proof.
  intros id st I. destruct (find_client id (st_clients st)) as [c|] eqn:Ef.
  - destruct I as [I1 [I2 I3]]. destruct (empty_and_remove_fields id st c I3 Ef) as [F1 [F2 _]].
    split; [rewrite F2; apply idle_remove_nodup; exact I1|]. split.
    + intros id2. unfold hold_of. rewrite F1, F2.
      change (match kfind c_id id2 (kdel c_id id (st_clients st)) with Some c0 => Some (c_hold c0) | None => None end = Some 0
              <-> In id2 (idle_remove id (st_idle st))).
      rewrite idle_remove_in. destruct (N.eq_dec id2 id) as [->|Hne].
      * rewrite kfind_kdel_same. split; [discriminate|intros [_ H]; contradiction].
      * rewrite kfind_kdel_other by exact Hne. specialize (I2 id2). unfold hold_of in I2. rewrite find_client_k in I2. tauto.
    + rewrite F1. apply (kdel_nodup c_id). exact I3.
  - unfold empty_and_remove. rewrite Ef. exact I.
Qed.

Lemma expire_list_idle : forall ids st, idle_inv st -> idle_inv (fst (expire_list ids st)).
Proof.
  induction ids as [|id tl IH]; intros st I; cbn; [exact I|].
  destruct (expired st id); [|exact I].
  pose proof (empty_and_remove_idle id st I) as I1. destruct (empty_and_remove id st) as [st1 o1]. cbn [fst] in I1.
  pose proof (IH st1 I1) as I2. destruct (expire_list tl st1) as [st2 o2]. exact I2.
Qed.

Lemma enter_idle : forall st, idle_inv st -> idle_inv (fst (enter st)).
Proof.
  intros st I. unfold enter. apply expire_list_idle.
  destruct (st_now st <? st_clock st); [|exact I]. eapply idle_inv_frame; [|exact I]. apply hi_same; reflexivity.
Qed.
