(* C18, accounting: the invariant and the holders of a leaf. *)
From VF Require Export Nfs41.ProofsAcct.
Open Scope N_scope.

Definition countz {A} (p : A -> bool) (l : list A) : Z := sumz (fun x => b2z (p x)) l.

(* Compound [t] (of client [cid]) has cloned the share reservation of the
   open-owner file [other] for access bit [b]. *)
Definition t_clones (cid other : N) (b : bool) (t : thread) : bool :=
  (t_client t =? cid) &&
  match t_phase t with
  | PhIoReg o _ m | PhIoRegDone o _ m _ => (o =? other) && bit b m
  | _ => false
  end.

(* Compound [t] has itself opened leaf [h] for access bit [b]. *)
Definition t_opens (h : N) (b : bool) (t : thread) : bool :=
  match t_phase t with
  | PhOpened h' m | PhIoAnon h' m | PhIoAnonDone h' m _ => (h' =? h) && bit b m
  | _ => false
  end.

Definition clones (st : state) (cid other : N) (b : bool) : Z :=
  countz (t_clones cid other b) (st_threads st).

Definition lofs_bits (b : bool) (l : list lofile) : Z := sumz (fun lf => b2z (bit b (lf_share lf))) l.

(* shareCount = own share reservation + lock-owner files + I/O in flight *)
Definition oofs_ok (st : state) (cid : N) (o : oofile) : Prop :=
  (forall b, Z.of_N (cnt b o) = (b2z (of_live o && bit b (of_share o)) + lofs_bits b (of_lofs o)
                                 + clones st cid (of_other o) b)%Z)
  /\ (of_live o = false -> of_share o = m0 /\ of_lofs o = [])
  /\ NoDup (map lf_other (of_lofs o)).

(* State ID "other" fields are allocated from the client's counter. *)
Definition oofs_bounds (c : client) (o : oofile) : Prop :=
  of_other o <= c_other c /\ forall lf, In lf (of_lofs o) -> lf_other lf <= c_other c.

Definition client_ok (st : state) (c : client) : Prop :=
  NoDup (map of_other (c_oofs c))
  /\ (forall o, In o (c_oofs c) -> oofs_bounds c o /\ oofs_ok st (c_id c) o)
  /\ Z.of_N (c_hold c) = countz (fun t => t_client t =? c_id c) (st_threads st).

Definition thread_ok (st : state) (t : thread) : Prop :=
  exists c, find_client (t_client t) (st_clients st) = Some c /\
  match t_phase t with
  | PhNone => True
  | PhOpened _ _ => exists ow a d how cl rest, t_ops t = OOpen ow a d how cl :: rest
  | PhIoReg other h m | PhIoRegDone other h m _ =>
    t_ops t <> [] /\ m_empty m = false
    /\ exists o, find_oofs_any other (c_oofs c) = Some o /\ of_handle o = h
  | PhIoAnon _ _ | PhIoAnonDone _ _ _ => t_ops t <> []
  end.

Definition acct_inv (st : state) : Prop :=
  NoDup (map c_id (st_clients st))
  /\ NoDup (map t_id (st_threads st))
  /\ (forall c, In c (st_clients st) -> client_ok st c)
  /\ (forall t, In t (st_threads st) -> thread_ok st t)
  /\ (forall id, In id (st_idle st) ->
        exists c, find_client id (st_clients st) = Some c /\ c_hold c = 0).

(* How often leaf [h] is held open for bit [b]. *)
Definition cl_ind (h : N) (b : bool) (c : client) : Z :=
  sumz (fun o => if of_handle o =? h then ind b o else 0%Z) (c_oofs c).
Definition holders (st : state) (h : N) (b : bool) : Z :=
  (sumz (cl_ind h b) (st_clients st) + countz (t_opens h b) (st_threads st))%Z.

(* Change of the indicator of one open-owner file, as seen by leaf [h]. *)
Definition dind (h : N) (b : bool) (o o' : oofile) : Z :=
  if of_handle o =? h then (ind b o' - ind b o)%Z else 0%Z.

Definition hind (h : N) (b : bool) (o : oofile) : Z :=
  if of_handle o =? h then ind b o else 0%Z.

(* ---- small facts ---------------------------------------------------------- *)
Lemma countz_nonneg : forall {A} (p : A -> bool) l, (0 <= countz p l)%Z.
Proof. intros. apply sumz_nonneg. intros x _. destruct (p x); cbn; lia. Qed.

Lemma ind_01 : forall b o, (0 <= ind b o <= 1)%Z.
Proof. intros. unfold ind. apply b2z_01. Qed.

Lemma cl_ind_nonneg : forall h b c, (0 <= cl_ind h b c)%Z.
Proof.
  intros. apply sumz_nonneg. intros o _. destruct (of_handle o =? h); [apply ind_01|lia].
Qed.

Lemma holders_nonneg : forall st h b, (0 <= holders st h b)%Z.
Proof.
  intros. unfold holders.
  assert (0 <= sumz (cl_ind h b) (st_clients st))%Z by (apply sumz_nonneg; intros; apply cl_ind_nonneg).
  pose proof (countz_nonneg (t_opens h b) (st_threads st)). lia.
Qed.

Lemma countz_kupd : forall {A} (key : A -> N) (p : A -> bool) x' l x,
  NoDup (map key l) -> kfind key (key x') l = Some x ->
  countz p (kupd key x' l) = (countz p l - b2z (p x) + b2z (p x'))%Z.
Proof. intros. unfold countz. erewrite sumz_kupd; eauto. Qed.

Lemma countz_app : forall {A} (p : A -> bool) l1 l2, countz p (l1 ++ l2) = (countz p l1 + countz p l2)%Z.
Proof. intros. unfold countz. apply sumz_app. Qed.

Lemma countz_ext : forall {A} (p q : A -> bool) l, (forall x, In x l -> p x = q x) -> countz p l = countz q l.
Proof. intros. unfold countz. apply sumz_ext. intros x Hx. rewrite H by exact Hx. reflexivity. Qed.

Lemma countz_zero_none : forall {A} (p : A -> bool) l, countz p l = 0%Z -> forall x, In x l -> p x = false.
Proof.
  intros A p l. induction l as [|y l IH]; intros H x Hin; [contradiction|].
  assert (Hc : countz p (y :: l) = (b2z (p y) + countz p l)%Z) by reflexivity.
  rewrite Hc in H. pose proof (countz_nonneg p l) as Hn. pose proof (b2z_01 (p y)) as Hy.
  destruct Hin as [Heq|Hin].
  - subst y. destruct (p x); [cbn [b2z] in H; lia|reflexivity].
  - apply IH; [lia|exact Hin].
Qed.

Lemma countz_pos_in : forall {A} (p : A -> bool) l x, In x l -> p x = true -> (1 <= countz p l)%Z.
Proof.
  intros A p l x Hin Hp. unfold countz.
  assert (b2z (p x) <= sumz (fun y => b2z (p y)) l)%Z.
  { apply (sumz_in_le (fun y => b2z (p y))); [|exact Hin]. intros y _. destruct (p y); cbn; lia. }
  rewrite Hp in H. cbn in H. exact H.
Qed.
