(* Observations of the NFSv4.1 program: the canonical state dump produced
   by the verif hook VerifDump41, per-leaf open/close counters of the
   instrumented file system, and what compounds in flight hold.
   [dump_of] computes the same dump from a model state. *)
From VF Require Export Nfs41.Model.
Open Scope N_scope.

Record d_lofs := mkDLofs {
  dl_other : N; dl_seq : N; dl_key : N; dl_tag : Z; dl_share : N; dl_count : Z }.
Record d_oofs := mkDOofs {
  do_other : N; do_seq : N; do_owner : N; do_handle : N; do_share : N;
  do_readers : Z; do_writers : Z; do_lofs : list d_lofs }.
Record d_client := mkDClient {
  dc_id : N; dc_owner : N; dc_verifier : N; dc_confirmed : bool;
  dc_hold : Z; dc_seen : N;            (* dc_seen is 0 while held *)
  dc_seq : N; dc_other : N;
  dc_nowners : N;                      (* len(openOwnersByOwner) *)
  dc_nlofs : N;                        (* len(lockOwnerFilesByOther) *)
  dc_oofs : list d_oofs;               (* openOwnerFilesByOther, by other *)
  dc_lowners : list (N * Z) }.         (* lockOwnersByOwner: key, fileCount *)
Record d_slot := mkDSlot {
  ds_seq : N; ds_status : N; ds_nres : N; ds_busy : bool; ds_waiters : N }.
Record d_session := mkDSession { dss_id : N; dss_client : N; dss_slots : list d_slot }.
Record d_lock := mkDLock {
  dk_start : N; dk_end : N; dk_client : N; dk_key : N; dk_tag : Z; dk_type : LS.ltype }.
Record d_pfile := mkDPfile { dp_handle : N; dp_use : Z; dp_locks : list d_lock }.
Record dump := mkDump {
  d_now : N; d_clients : list d_client; d_idle : list N;
  d_sessions : list d_session; d_pool : list d_pfile }.

(* Cumulative calls seen by a leaf. *)
Record leafcnt := mkLeafCnt { lc_h : N; lc_or : Z; lc_ow : Z; lc_cr : Z; lc_cw : Z }.

(* What a compound in flight holds: a leaf it opened itself (OPEN between
   its halves, I/O with a special state ID), or a share reservation cloned
   for I/O with a regular state ID. *)
Inductive flight := FlOpen (h : N) (m : mask) | FlReg (h : N) (m : mask).

(* ---- sorting ------------------------------------------------------------ *)
Section Sort.
  Context {A : Type} (key : A -> N).
  Fixpoint insert (x : A) (l : list A) : list A :=
    match l with
    | [] => [x]
    | y :: tl => if key x <=? key y then x :: l else y :: insert x tl
    end.
  Definition sort_by (l : list A) : list A := fold_right insert [] l.
End Sort.

(* ---- dump of a model state ---------------------------------------------- *)
Definition dump_lofs (c : client) (lf : lofile) : d_lofs :=
  match find_lowner_id (lf_owner lf) (c_lowners c) with
  | Some x => mkDLofs (lf_other lf) (lf_seq lf) (lo_key x) 0 (mask_to_N (lf_share lf)) (lf_count lf)
  | None => mkDLofs (lf_other lf) (lf_seq lf) 0 1 (mask_to_N (lf_share lf)) (lf_count lf)
  end.

Definition dump_oofs (c : client) (o : oofile) : d_oofs :=
  mkDOofs (of_other o) (of_seq o) (of_owner o) (of_handle o) (mask_to_N (of_share o))
          (Z.of_N (of_readers o)) (Z.of_N (of_writers o))
          (sort_by dl_other (map (dump_lofs c) (of_lofs o))).

Fixpoint dedup (l : list N) : list N :=
  match l with
  | [] => []
  | x :: tl => if existsb (N.eqb x) tl then dedup tl else x :: dedup tl
  end.

Definition live_oofs (c : client) : list oofile := filter of_live (c_oofs c).

Definition dump_client (c : client) : d_client :=
  let live := live_oofs c in
  mkDClient (c_id c) (c_owner c) (c_verifier c) (c_confirmed c) (Z.of_N (c_hold c))
            (if c_hold c =? 0 then c_seen c else 0) (c_seq c) (c_other c)
            (N.of_nat (length (dedup (map of_owner live))))
            (N.of_nat (length (flat_map of_lofs live)))
            (sort_by do_other (map (dump_oofs c) live))
            (sort_by fst (map (fun x => (lo_key x, Z.of_N (lo_files x))) (c_lowners c))).

Definition dump_slot (st : state) (s : slot) : d_slot :=
  mkDSlot (sl_seq s) (cr_status (sl_res s)) (N.of_nat (length (cr_res (sl_res s))))
          (match sl_busy s with Some _ => true | None => false end)
          (match sl_busy s with
           | Some tid => match find_thread tid (st_threads st) with
                         | Some t => N.of_nat (length (t_waiters t))
                         | None => 0
                         end
           | None => 0
           end).

Definition dump_lock (st : state) (l : LS.lock) : d_lock :=
  match lowner_name (LS.lowner l) (st_clients st) with
  | Some (cid, key) => mkDLock (LS.lstart l) (LS.lend l) cid key 0 (LS.ltyp l)
  | None => mkDLock (LS.lstart l) (LS.lend l) 0 0 (-1) (LS.ltyp l)
  end.

Definition dump_of (st : state) : dump :=
  mkDump (st_now st)
         (sort_by dc_id (map dump_client (st_clients st)))
         (st_idle st)
         (sort_by dss_id (map (fun s => mkDSession (ss_id s) (ss_client s)
                                          (map (dump_slot st) (ss_slots s))) (st_sessions st)))
         (sort_by dp_handle (map (fun p => mkDPfile (pf_handle p) (Z.of_N (pf_use p))
                                             (map (dump_lock st) (pf_locks p))) (st_pool st))).

(* What the in-flight compounds of the model hold. *)
Definition flight_of (st : state) : list flight :=
  flat_map (fun t => match t_phase t with
                     | PhNone => []
                     | PhOpened h m => [FlOpen h m]
                     | PhIoReg _ h m | PhIoRegDone _ h m _ => [FlReg h m]
                     | PhIoAnon h m | PhIoAnonDone h m _ => [FlOpen h m]
                     end) (st_threads st).

(* ---- equality ----------------------------------------------------------- *)
Fixpoint list_eqb {A} (eqb : A -> A -> bool) (a b : list A) : bool :=
  match a, b with
  | [], [] => true
  | x :: a', y :: b' => eqb x y && list_eqb eqb a' b'
  | _, _ => false
  end.

Definition d_lofs_eqb (a b : d_lofs) :=
  (dl_other a =? dl_other b) && (dl_seq a =? dl_seq b) && (dl_key a =? dl_key b)
  && (dl_tag a =? dl_tag b)%Z && (dl_share a =? dl_share b) && (dl_count a =? dl_count b)%Z.
Definition d_oofs_eqb (a b : d_oofs) :=
  (do_other a =? do_other b) && (do_seq a =? do_seq b) && (do_owner a =? do_owner b)
  && (do_handle a =? do_handle b) && (do_share a =? do_share b)
  && (do_readers a =? do_readers b)%Z && (do_writers a =? do_writers b)%Z
  && list_eqb d_lofs_eqb (do_lofs a) (do_lofs b).
Definition pairNZ_eqb (a b : N * Z) := (fst a =? fst b) && (snd a =? snd b)%Z.
Definition d_client_eqb (a b : d_client) :=
  (dc_id a =? dc_id b) && (dc_owner a =? dc_owner b) && (dc_verifier a =? dc_verifier b)
  && Bool.eqb (dc_confirmed a) (dc_confirmed b) && (dc_hold a =? dc_hold b)%Z
  && (dc_seen a =? dc_seen b) && (dc_seq a =? dc_seq b) && (dc_other a =? dc_other b)
  && (dc_nowners a =? dc_nowners b) && (dc_nlofs a =? dc_nlofs b)
  && list_eqb d_oofs_eqb (dc_oofs a) (dc_oofs b)
  && list_eqb pairNZ_eqb (dc_lowners a) (dc_lowners b).
Definition d_slot_eqb (a b : d_slot) :=
  (ds_seq a =? ds_seq b) && (ds_status a =? ds_status b) && (ds_nres a =? ds_nres b)
  && Bool.eqb (ds_busy a) (ds_busy b) && (ds_waiters a =? ds_waiters b).
Definition d_session_eqb (a b : d_session) :=
  (dss_id a =? dss_id b) && (dss_client a =? dss_client b)
  && list_eqb d_slot_eqb (dss_slots a) (dss_slots b).
Definition d_lock_eqb (a b : d_lock) :=
  (dk_start a =? dk_start b) && (dk_end a =? dk_end b) && (dk_client a =? dk_client b)
  && (dk_key a =? dk_key b) && (dk_tag a =? dk_tag b)%Z && LS.ltype_eqb (dk_type a) (dk_type b).
Definition d_pfile_eqb (a b : d_pfile) :=
  (dp_handle a =? dp_handle b) && (dp_use a =? dp_use b)%Z
  && list_eqb d_lock_eqb (dp_locks a) (dp_locks b).

Definition mask_N_eqb := N.eqb.

Definition opres_eqb (a b : opres) : bool :=
  match a, b with
  | RStatus o1 s1, RStatus o2 s2 => (o1 =? o2) && (s1 =? s2)
  | RSequenceOk a1 b1 c1 d1, RSequenceOk a2 b2 c2 d2 => (a1 =? a2) && (b1 =? b2) && (c1 =? c2) && (d1 =? d2)
  | RGetFH h1, RGetFH h2 => h1 =? h2
  | RStateid o1 s1 x1, RStateid o2 s2 x2 => (o1 =? o2) && (s1 =? s2) && (x1 =? x2)
  | RDenied o1 a1 b1 c1 d1 e1, RDenied o2 a2 b2 c2 d2 e2 =>
    (o1 =? o2) && (a1 =? a2) && (b1 =? b2) && (c1 =? c2) && (d1 =? d2) && (e1 =? e2)
  | RTestStateid l1, RTestStateid l2 => list_eqb N.eqb l1 l2
  | RExchangeId a1 b1 c1, RExchangeId a2 b2 c2 => (a1 =? a2) && (b1 =? b2) && Bool.eqb c1 c2
  | RCreateSession a1 b1, RCreateSession a2 b2 => (a1 =? a2) && (b1 =? b2)
  | _, _ => false
  end.
Definition creply_eqb (a b : creply) :=
  (cr_status a =? cr_status b) && list_eqb opres_eqb (cr_res a) (cr_res b).

(* ---- harness-level steps ------------------------------------------------ *)
(* A harness step lets one goroutine run until it returns, parks in the
   file system (according to its plan: one boolean per file system call
   that receives the compound's context) or blocks.  It is a sequence of
   model events of one compound. *)
Inductive hop :=
| HAdvance (d : N)
| HSolo (tid : N) (s : solo)
| HSeq (tid sess slot seq : N) (cache : bool) (ops : list op) (plan : list bool)
| HResume (tid : N).

(* What the harness observed during / after one step. *)
Record hstep := mkHStep {
  hs_op : hop;
  hs_orcs : list fsres;               (* results of the file system calls made, in order *)
  hs_replies : list (N * creply);     (* compounds that returned, by tid *)
  hs_panics : list N;                 (* compounds that panicked *)
  hs_blocked : list N;                (* compounds waiting in opSequence for an original *)
  hs_hung : list N;                   (* compounds that neither returned, parked nor wait for a live original *)
  hs_leaves : list leafcnt;           (* cumulative calls per leaf *)
  hs_flight : list flight;            (* what parked compounds hold *)
  hs_dump : dump }.

(* The harness writes observations incrementally: a component that did
   not change since the previous step is not repeated, lists keyed by an
   identifier are patched.  [expand] rebuilds the full observations. *)
Inductive delta (A : Type) :=
| DSame
| DFull (l : list A)
| DPatch (changed : list A) (removed : list N).
Arguments DSame {A}.
Arguments DFull {A} l.
Arguments DPatch {A} changed removed.

Definition patch {A} (key : A -> N) (old : list A) (d : delta A) : list A :=
  match d with
  | DSame => old
  | DFull l => l
  | DPatch ch rm =>
    sort_by key (filter (fun x => negb (existsb (N.eqb (key x)) rm)
                                  && negb (existsb (fun y => key y =? key x) ch)) old ++ ch)
  end.

Record rstep := mkRStep {
  rs_op : hop;
  rs_orcs : list fsres;
  rs_replies : list (N * creply);
  rs_panics : list N;
  rs_blocked : list N;
  rs_hung : list N;
  rs_leaves : delta leafcnt;
  rs_flight : list flight;
  rs_now : N;
  rs_clients : delta d_client;
  rs_idle : option (list N);
  rs_sessions : delta d_session;
  rs_pool : delta d_pfile }.

Fixpoint expand_from (lv : list leafcnt) (d : dump) (l : list rstep) : list hstep :=
  match l with
  | [] => []
  | r :: tl =>
    let lv' := patch lc_h lv (rs_leaves r) in
    let d' := mkDump (rs_now r)
                     (patch dc_id (d_clients d) (rs_clients r))
                     (match rs_idle r with Some x => x | None => d_idle d end)
                     (patch dss_id (d_sessions d) (rs_sessions r))
                     (patch dp_handle (d_pool d) (rs_pool r)) in
    mkHStep (rs_op r) (rs_orcs r) (rs_replies r) (rs_panics r) (rs_blocked r) (rs_hung r)
            lv' (rs_flight r) d' :: expand_from lv' d' tl
  end.
Definition expand (l : list rstep) : list hstep := expand_from [] (mkDump 0 [] [] [] []) l.

Record case := mkCase { cs_cfg : config; cs_clock0 : N; cs_raw : list rstep }.
Definition cs_steps (c : case) : list hstep := expand (cs_raw c).
