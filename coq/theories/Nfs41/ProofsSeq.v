(* C19 for the NFSv4.1 model: what opSequence does with a retransmission, a
   misordered request, a request whose original is still in flight, and
   how the original's result reaches the requests waiting for it. *)
From VF Require Import Nfs41.Model.
From Coq Require Import Lia.
Open Scope N_scope.

(* ---- the first section of opSequence, case by case ----------------------- *)

(* Retransmission: the reply is computed from the slot's cache, nothing is
   executed, the state is the one enter() left. *)
Lemma seq_begin_replay : forall tid sess sl sq cache ops st st' outs ss s,
  enter st = (st', outs) ->
  find_session sess (st_sessions st') = Some ss ->
  nth_error (ss_slots ss) (N.to_nat sl) = Some s ->
  sq = sl_seq s ->
  seq_begin tid sess sl sq cache ops st
  = (st', outs ++ [OReply tid (replay_reply (sl_res s) ops)]).
Proof.
  intros tid sess sl sq cache ops st st' outs ss s Hent Hss Hsl Hsq.
  unfold seq_begin. rewrite Hent, Hss, Hsl. subst sq. rewrite N.eqb_refl. reflexivity.
Qed.

(* Out of order: rejected, nothing is executed. *)
Lemma seq_begin_misordered : forall tid sess sl sq cache ops st st' outs ss s,
  enter st = (st', outs) ->
  find_session sess (st_sessions st') = Some ss ->
  nth_error (ss_slots ss) (N.to_nat sl) = Some s ->
  sq <> sl_seq s -> sq <> (sl_seq s + 1) mod u32 ->
  seq_begin tid sess sl sq cache ops st
  = (st', outs ++ [OReply tid (seq_error ERR_SEQ_MISORDERED)]).
Proof.
  intros tid sess sl sq cache ops st st' outs ss s Hent Hss Hsl H1 H2.
  unfold seq_begin. rewrite Hent, Hss, Hsl.
  apply N.eqb_neq in H1. apply N.eqb_neq in H2. rewrite H1, H2. reflexivity.
Qed.

(* The original is still in flight: the request is registered with it and
   gets no reply yet. *)
Lemma seq_begin_duplicate_waits : forall tid sess sl sq cache ops st st' outs ss s orig t,
  enter st = (st', outs) ->
  find_session sess (st_sessions st') = Some ss ->
  nth_error (ss_slots ss) (N.to_nat sl) = Some s ->
  sq <> sl_seq s -> sq = (sl_seq s + 1) mod u32 ->
  sl_busy s = Some orig ->
  find_thread orig (st_threads st') = Some t ->
  seq_begin tid sess sl sq cache ops st
  = (set_threads st' (upd_thread
       (mkThread (t_id t) (t_sess t) (t_slot t) (t_seq t) (t_cache t) (t_client t) (t_ops t)
                 (t_res t) (t_status t) (t_cfh t) (t_sfh t) (t_phase t) (t_waiters t ++ [tid]))
       (st_threads st')), outs).
Proof.
  intros tid sess sl sq cache ops st st' outs ss s orig t Hent Hss Hsl H1 H2 Hb Ht.
  unfold seq_begin. rewrite Hent, Hss, Hsl.
  apply N.eqb_neq in H1. rewrite H1. subst sq. rewrite N.eqb_refl, Hb, Ht. reflexivity.
Qed.

(* ---- replay_reply -------------------------------------------------------- *)

Lemma replay_reply_cases : forall r ops,
  replay_reply r ops = r \/ replay_reply r ops = seq_error ERR_SEQ_FALSE_RETRY.
Proof.
  intros r ops. unfold replay_reply.
  destruct (_ || _); [right; reflexivity|].
  destruct (shape_ok _ _); [left|right]; reflexivity.
Qed.

(* A retransmission with fewer operations than were executed is a false retry. *)
Lemma false_retry_fewer_ops : forall r ops,
  (length ops < length (tl (cr_res r)))%nat ->
  replay_reply r ops = seq_error ERR_SEQ_FALSE_RETRY.
Proof.
  intros r ops H. unfold replay_reply.
  apply Nat.ltb_lt in H. rewrite H. reflexivity.
Qed.

(* A retransmission of a successful compound with another number of
   operations is a false retry. *)
Lemma false_retry_other_length : forall r ops,
  cr_status r = NFS4_OK -> length (tl (cr_res r)) <> length ops ->
  replay_reply r ops = seq_error ERR_SEQ_FALSE_RETRY.
Proof.
  intros r ops Hs H. unfold replay_reply. rewrite Hs.
  apply Nat.eqb_neq in H. rewrite H. cbn. rewrite Bool.orb_true_r. reflexivity.
Qed.

Lemma shape_ok_nth : forall cached args i r a,
  shape_ok cached args = true ->
  nth_error cached i = Some r -> nth_error args i = Some a ->
  resop r = argop a \/ resop r = OP_ILLEGAL.
Proof.
  induction cached as [|c ctl IH]; intros args i r a Hs Hr Ha.
  - destruct i; discriminate.
  - destruct args as [|a0 atl]; [discriminate|]. cbn in Hs.
    apply Bool.andb_true_iff in Hs. destruct Hs as [Hh Ht].
    destruct i as [|i].
    + cbn in Hr, Ha. inversion Hr; inversion Ha; subst.
      apply Bool.orb_true_iff in Hh. destruct Hh as [Hh|Hh]; apply N.eqb_eq in Hh; auto.
    + cbn in Hr, Ha. eapply IH; eauto.
Qed.

(* A retransmission that has another operation at a position that was
   executed is a false retry: it is never answered with the cached reply
   of the other request. *)
Theorem false_retry_other_operation : forall r ops i res a,
  nth_error (tl (cr_res r)) i = Some res -> nth_error ops i = Some a ->
  resop res <> argop a -> resop res <> OP_ILLEGAL ->
  replay_reply r ops = seq_error ERR_SEQ_FALSE_RETRY.
Proof.
  intros r ops i res a Hr Ha H1 H2. unfold replay_reply.
  destruct (_ || _); [reflexivity|].
  destruct (shape_ok (tl (cr_res r)) ops) eqn:Hs; [|reflexivity].
  destruct (shape_ok_nth _ _ _ _ _ Hs Hr Ha); contradiction.
Qed.

Lemma shape_ok_self : forall (res : list opres) (ops : list op),
  Forall2 (fun r o => resop r = argop o) res (firstn (length res) ops) ->
  (length res <= length ops)%nat ->
  shape_ok res ops = true.
Proof.
  induction res as [|r rtl IH]; intros ops HF Hl; [reflexivity|].
  destruct ops as [|o otl]; [cbn in Hl; lia|].
  cbn in HF. inversion HF as [|? ? ? ? Hh Ht]; subst. cbn.
  rewrite Hh, N.eqb_refl. cbn. apply IH; [assumption|cbn in Hl; lia].
Qed.

(* The reply cached at the end of a compound, looked up by a retransmission
   with the same operations. *)
Theorem replay_of_cached : forall cache res status ops,
  (* [res]: SEQUENCE result followed by one result per executed operation *)
  (1 <= length res)%nat ->
  Forall2 (fun r o => resop r = argop o) (tl res) (firstn (length (tl res)) ops) ->
  (length (tl res) <= length ops)%nat ->
  (status = NFS4_OK -> length (tl res) = length ops) ->
  (* cached in full *)
  (cache = true \/ (length res < 2)%nat \/ (length res = 2%nat /\ status <> NFS4_OK)) ->
  replay_reply (cached_reply cache res status) ops = mkReply status res.
Proof.
  intros cache res status ops Hlen HF Hle Hok Hc.
  assert (Hcr : cached_reply cache res status = mkReply status res).
  { unfold cached_reply. destruct Hc as [Hc|[Hc|[Hc1 Hc2]]].
    - subst cache. reflexivity.
    - apply Nat.ltb_lt in Hc. rewrite Hc. rewrite Bool.orb_true_r. reflexivity.
    - rewrite Hc1. apply N.eqb_neq in Hc2. rewrite Hc2. cbn.
      rewrite !Bool.orb_true_r. reflexivity. }
  rewrite Hcr. unfold replay_reply. cbn [cr_res cr_status].
  assert (H1 : (length ops <? length (tl res))%nat = false) by (apply Nat.ltb_ge; lia).
  rewrite H1. cbn [orb].
  destruct (status =? NFS4_OK) eqn:Hst.
  - apply N.eqb_eq in Hst. rewrite (Hok Hst), Nat.eqb_refl. cbn.
    rewrite shape_ok_self; auto.
  - cbn. rewrite shape_ok_self; auto.
Qed.

(* When the client did not ask for caching and the reply is long, the
   retransmission is answered NFS4ERR_RETRY_UNCACHED_REP on the first
   operation; the original is not executed again either. *)
Theorem replay_of_uncached : forall r0 r1 rest status ops o otl,
  ops = o :: otl -> resop r1 = argop o ->
  (rest <> [] \/ status = NFS4_OK) ->
  replay_reply (cached_reply false (r0 :: r1 :: rest) status) ops
  = mkReply ERR_RETRY_UNCACHED_REP [r0; RStatus (resop r1) ERR_RETRY_UNCACHED_REP].
Proof.
  intros r0 r1 rest status ops o otl Hops Hr Hc. subst ops.
  assert (Hcr : cached_reply false (r0 :: r1 :: rest) status
                = mkReply ERR_RETRY_UNCACHED_REP [r0; RStatus (resop r1) ERR_RETRY_UNCACHED_REP]).
  { unfold cached_reply. cbn [orb length].
    destruct rest as [|r2 rest].
    - destruct Hc as [Hc|Hc]; [contradiction|]. subst status. reflexivity.
    - reflexivity. }
  rewrite Hcr. unfold replay_reply. cbn [cr_res cr_status tl length].
  cbn. rewrite Hr, N.eqb_refl. reflexivity.
Qed.

(* ---- the last section: delivery ------------------------------------------ *)

(* The original's result goes, unchanged, to the original and to every
   request that waited for it, exactly once each. *)
Theorem seq_end_delivers : forall t st st' outs,
  enter st = (st', outs) ->
  snd (seq_end t st)
  = outs ++ OReply (t_id t) (mkReply (t_status t) (t_res t))
       :: map (fun w => OReply w (mkReply (t_status t) (t_res t))) (t_waiters t).
Proof.
  intros t st st' outs Hent. unfold seq_end. rewrite Hent. reflexivity.
Qed.

(* ... and the compound is gone afterwards: nothing is delivered twice. *)
Lemma del_thread_not_found : forall id l, find_thread id (del_thread id l) = None.
Proof.
  intros id l. unfold find_thread, del_thread. induction l as [|x l IH]; [reflexivity|].
  cbn. destruct (t_id x =? id) eqn:E; cbn; [assumption|]. rewrite E. assumption.
Qed.

Theorem seq_end_removes : forall t st, find_thread (t_id t) (st_threads (fst (seq_end t st))) = None.
Proof.
  intros t st. unfold seq_end. destruct (enter st) as [st1 outs]. cbn [fst].
  destruct (find_session _ _); cbn; apply del_thread_not_found.
Qed.

(* A compound with no operation left finishes at its next section. *)
Theorem section_finishes : forall tid orc st t,
  find_thread tid (st_threads st) = Some t -> t_ops t = [] ->
  section tid orc st = (fst (seq_end t st), snd (seq_end t st), FsNone).
Proof.
  intros tid orc st t Ht Hops. unfold section. rewrite Ht, Hops.
  destruct (seq_end t st). reflexivity.
Qed.
