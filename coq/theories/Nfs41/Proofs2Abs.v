(* The transitions of the view (Proofs2View.v): what the NFSv4.1 model can
   do to open-owner files, lock-owner files, lockOwnersByOwner, the
   opened-files pool and the lock tables.  Proofs2Refine*.v show that every
   event of the model is a sequence of these; the invariants of
   Proofs2Pool/Owners/Locks.v are proved closed under them. *)
From VF Require Export Nfs41.Proofs2View.
Open Scope N_scope.

Definition cput (c : vcl) (o' : voof) : vcl :=
  mkVC (vc_id c) (kupd vo_other o' (vc_oofs c)) (vc_lows c).
Definition oput (o : voof) (l' : vlof) : voof :=
  mkVO (vo_other o) (vo_handle o) (vo_live o) (kupd vl_other l' (vo_lofs o)).
Definition vput (v : vstate) (c' : vcl) (pool : list pfile) (nextlo : N) : vstate :=
  mkV (kupd vc_id c' (v_cls v)) pool nextlo.

(* OpenedFile.UnlockAll for one lock-owner object. *)
Definition unlock_all (h owner : N) (pool : list pfile) : list pfile :=
  pool_set_locks h (LS.set_list (LS.set (pool_locks h pool) (LS.mkLock 0 u64max owner LS.Unlocked))) pool.

Definition reg_list (reg : option lowner) : list lowner := match reg with Some x => [x] | None => [] end.
Definition reg_n (reg : option lowner) : N := match reg with Some _ => 1 | None => 0 end.

Section Trans.
  (* What is known about the ranges of LOCK / LOCKU requests. *)
  Variable Q : LS.lock -> Prop.

  Inductive vtr : vstate -> vstate -> Prop :=
  (* EXCHANGE_ID creates an incarnation *)
  | vt_add : forall v id,
      (forall c, In c (v_cls v) -> vc_id c <> id) ->
      vtr v (mkV (v_cls v ++ [mkVC id [] []]) (v_pool v) (v_nextlo v))
  (* clientIncarnationState.remove, once nothing is open *)
  | vt_del : forall v c,
      kfind vc_id (vc_id c) (v_cls v) = Some c ->
      (forall o, In o (vc_oofs c) -> vo_live o = false) ->
      vtr v (mkV (kdel vc_id (vc_id c) (v_cls v)) (v_pool v) (v_nextlo v))
  (* OPEN creating an open-owner file *)
  | vt_open : forall v c other h,
      kfind vc_id (vc_id c) (v_cls v) = Some c ->
      (forall o, In o (vc_oofs c) -> vo_other o <> other) ->
      vtr v (vput v (mkVC (vc_id c) (vc_oofs c ++ [mkVO other h true []]) (vc_lows c))
                  (pool_open h (v_pool v)) (v_nextlo v))
  (* lofs.remove / unlockAndRemove of one lock-owner file *)
  | vt_rmlof : forall v c o lf (unlock : bool),
      kfind vc_id (vc_id c) (v_cls v) = Some c ->
      kfind vo_other (vo_other o) (vc_oofs c) = Some o -> vo_live o = true ->
      kfind vl_other (vl_other lf) (vo_lofs o) = Some lf ->
      (unlock = false -> (vl_count lf <= 0)%Z) ->       (* FREE_STATEID: gated by lockCount *)
      vtr v (vput v (mkVC (vc_id c)
                          (kupd vo_other (mkVO (vo_other o) (vo_handle o) true
                                               (kdel vl_other (vl_other lf) (vo_lofs o))) (vc_oofs c))
                          (fst (lowner_dec (vl_owner lf) (vc_lows c))))
                  (if unlock && (0 <? vl_count lf)%Z then unlock_all (vo_handle o) (vl_owner lf) (v_pool v)
                   else v_pool v)
                  (v_nextlo v))
  (* oofs.remove once its lock-owner files are gone *)
  | vt_close : forall v c o,
      kfind vc_id (vc_id c) (v_cls v) = Some c ->
      kfind vo_other (vo_other o) (vc_oofs c) = Some o -> vo_live o = true -> vo_lofs o = [] ->
      vtr v (vput v (cput c (mkVO (vo_other o) (vo_handle o) false []))
                  (fst (pool_close (vo_handle o) (v_pool v))) (v_nextlo v))
  (* LOCK through an existing lock-owner file, LOCKU *)
  | vt_set : forall v c o lf q,
      kfind vc_id (vc_id c) (v_cls v) = Some c ->
      kfind vo_other (vo_other o) (vc_oofs c) = Some o -> vo_live o = true ->
      kfind vl_other (vl_other lf) (vo_lofs o) = Some lf ->
      LS.lowner q = vl_owner lf -> Q q ->
      (LS.ltyp q <> LS.Unlocked -> LS.test (pool_locks (vo_handle o) (v_pool v)) q = None) ->
      vtr v (vput v (cput c (oput o (mkVL (vl_other lf) (vl_owner lf)
                                          (vl_count lf + LS.set_delta (LS.set (pool_locks (vo_handle o) (v_pool v)) q)))))
                  (pool_set_locks (vo_handle o)
                                  (LS.set_list (LS.set (pool_locks (vo_handle o) (v_pool v)) q)) (v_pool v))
                  (v_nextlo v)).

  (* LOCK creating a lock-owner file (and, if the lock-owner is not yet
     known, registering a new lock-owner object). *)
  Inductive vlocknew : vstate -> vstate -> Prop :=
  | vt_locknew : forall v c o lother oid reg q,
      kfind vc_id (vc_id c) (v_cls v) = Some c ->
      kfind vo_other (vo_other o) (vc_oofs c) = Some o -> vo_live o = true ->
      (forall l, In l (vo_lofs o) -> vl_other l <> lother) ->
      (reg = None -> forall l, In l (vo_lofs o) -> vl_owner l <> oid) ->
      match reg with
      | Some x => lo_id x = v_nextlo v /\ oid = v_nextlo v /\ lo_files x = 0
                  /\ find_lowner_key (lo_key x) (vc_lows c) = None
      | None => exists x, In x (vc_lows c) /\ lo_id x = oid
      end ->
      LS.lowner q = oid -> Q q -> LS.ltyp q <> LS.Unlocked ->
      LS.test (pool_locks (vo_handle o) (v_pool v)) q = None ->
      vlocknew v (vput v (mkVC (vc_id c)
                               (kupd vo_other
                                  (mkVO (vo_other o) (vo_handle o) true
                                        (vo_lofs o ++ [mkVL lother oid
                                           (0 + LS.set_delta (LS.set (pool_locks (vo_handle o) (v_pool v)) q))]))
                                  (vc_oofs c))
                               (lowner_inc oid (vc_lows c ++ reg_list reg)))
                         (pool_set_locks (vo_handle o)
                            (LS.set_list (LS.set (pool_locks (vo_handle o) (v_pool v)) q)) (v_pool v))
                         (v_nextlo v + reg_n reg)).

  Inductive vpath : vstate -> vstate -> Prop :=
  | vp_refl : forall v, vpath v v
  | vp_step : forall a b c, vtr a b -> vpath b c -> vpath a c.

  Lemma vpath_trans : forall a b c, vpath a b -> vpath b c -> vpath a c.
  Proof. intros a b c H. induction H; intros H2; [exact H2|]. eapply vp_step; eauto. Qed.

  Lemma vpath_one : forall a b, vtr a b -> vpath a b.
  Proof. intros a b H. eapply vp_step; [exact H|apply vp_refl]. Qed.

  Lemma vpath_eq : forall a b, a = b -> vpath a b.
  Proof. intros a b ->. apply vp_refl. Qed.

  (* One event: removals and at most one of the other transitions, then
     possibly one LOCK that creates a lock-owner file. *)
  Definition vstep (a c : vstate) : Prop :=
    exists b, vpath a b /\ (b = c \/ vlocknew b c).

  Lemma vstep_path : forall a b, vpath a b -> vstep a b.
  Proof. intros a b H. exists b. auto. Qed.

  Lemma vstep_pre : forall a b c, vpath a b -> vstep b c -> vstep a c.
  Proof. intros a b c H [m [H1 H2]]. exists m. split; [eapply vpath_trans; eauto|exact H2]. Qed.

  (* An invariant closed under the transitions holds along paths. *)
  Lemma vpath_inv : forall (P : vstate -> Prop),
    (forall a b, P a -> vtr a b -> P b) -> forall a b, vpath a b -> P a -> P b.
  Proof. intros P H a b Hp. induction Hp; intros Pa; [exact Pa|]. apply IHHp. eapply H; eauto. Qed.
End Trans.

(* Monotonicity in what is known about the requests. *)
Lemma vtr_mono : forall (Q Q' : LS.lock -> Prop), (forall q, Q q -> Q' q) -> forall a b, vtr Q a b -> vtr Q' a b.
Proof. intros Q Q' H a b T. destruct T; econstructor; eauto. Qed.
