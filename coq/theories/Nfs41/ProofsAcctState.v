(* C18, accounting: the critical sections under clientsLock (enter, lease
   expiry, EXCHANGE_ID, CREATE_SESSION, DESTROY_SESSION, DESTROY_CLIENTID)
   and the first and last section of opSequence. *)
From VF Require Export Nfs41.ProofsAcctSec.
Open Scope N_scope.

Definition st_goal (st st' : state) (outs : list out) : Prop :=
  acct_inv st' /\ forall h b, holders st' h b = (holders st h b + balance h b outs)%Z.

Lemma st_goal_trans : forall a b c o1 o2, st_goal a b o1 -> st_goal b c o2 -> st_goal a c (o1 ++ o2).
Proof.
  intros a b c o1 o2 [I1 H1] [I2 H2]. split; [exact I2|].
  intros h bb. rewrite H2, H1, balance_app. lia.
Qed.

(* The invariant and the holders only depend on clients, compounds and the idle list. *)
Lemma acct_ext : forall st st',
  st_clients st' = st_clients st -> st_threads st' = st_threads st -> st_idle st' = st_idle st ->
  acct_inv st -> st_goal st st' [].
Proof.
  intros st st' Hc Ht Hi I. split.
  - destruct I as [Cn [Tn [Cok [Tok Iok]]]].
    unfold acct_inv. rewrite Hc, Ht, Hi. split; [exact Cn|]. split; [exact Tn|]. split; [|split].
    + intros c Hin. destruct (Cok c Hin) as [N1 [O1 H1]]. split; [exact N1|]. split.
      * intros o Ho. destruct (O1 o Ho) as [B [S1 S2]]. split; [exact B|]. split; [|exact S2].
        intros b. unfold clones. rewrite Ht. apply S1.
      * rewrite Ht. exact H1.
    + intros t Hin. destruct (Tok t Hin) as [c [Hf Hp]]. exists c. rewrite Hc. auto.
    + exact Iok.
  - intros h b. unfold holders. rewrite Hc, Ht. cbn. lia.
Qed.

Lemma st_goal_same : forall st, acct_inv st -> st_goal st st [].
Proof. intros st I. apply acct_ext; auto. Qed.

(* ---- a client without compounds in flight --------------------------------------- *)
Lemma no_threads_of : forall st c, acct_inv st -> In c (st_clients st) -> c_hold c = 0 ->
  forall t, In t (st_threads st) -> (t_client t =? c_id c) = false.
Proof.
  intros st c I Hin Hh t Ht. destruct I as [_ [_ [Cok _]]]. destruct (Cok c Hin) as [_ [_ H1]].
  rewrite Hh in H1. cbn in H1. symmetry in H1.
  exact (countz_zero_none _ _ H1 t Ht).
Qed.

Lemma no_clones_of : forall st c, acct_inv st -> In c (st_clients st) -> c_hold c = 0 ->
  forall other b, clones st (c_id c) other b = 0%Z.
Proof.
  intros st c I Hin Hh other b. unfold clones, countz.
  rewrite (sumz_ext _ (fun _ => 0%Z)).
  - induction (st_threads st); cbn; lia.
  - intros t Ht. unfold t_clones. rewrite (no_threads_of st c I Hin Hh t Ht). reflexivity.
Qed.

(* What is known of the open-owner files of such a client. *)
Definition quiet_oofs (o : oofile) : Prop :=
  (forall b, Z.of_N (cnt b o) = (b2z (of_live o && bit b (of_share o)) + lofs_bits b (of_lofs o))%Z)
  /\ (of_live o = false -> of_share o = m0 /\ of_lofs o = [])
  /\ NoDup (map lf_other (of_lofs o)).
Definition quiet_client (c : client) : Prop :=
  NoDup (map of_other (c_oofs c)) /\ forall o, In o (c_oofs c) -> quiet_oofs o.

Lemma quiet_of_inv : forall st c, acct_inv st -> In c (st_clients st) -> c_hold c = 0 -> quiet_client c.
Proof.
  intros st c I Hin Hh. pose proof (no_clones_of st c I Hin Hh) as Hz.
  destruct I as [_ [_ [Cok _]]]. destruct (Cok c Hin) as [N1 [O1 _]].
  split; [exact N1|]. intros o Ho. destruct (O1 o Ho) as [_ [S1 [S2 S3]]].
  split; [|split; assumption]. intros b. rewrite (S1 b), Hz. lia.
Qed.

Lemma quiet_dead_ind : forall o h b, quiet_oofs o -> of_live o = false -> hind h b o = 0%Z.
Proof.
  intros o h b [S1 [S2 _]] Hd. destruct (S2 Hd) as [Hs Hl]. specialize (S1 b).
  rewrite Hd, Hl in S1. cbn in S1. unfold hind, ind.
  assert (E : 0 <? cnt b o = false) by (apply N.ltb_ge; lia). rewrite E. cbn. destruct (of_handle o =? h); reflexivity.
Qed.

Lemma cl_ind_hind : forall h b c, cl_ind h b c = sumz (hind h b) (c_oofs c).
Proof. reflexivity. Qed.

(* oofs_remove_all on a quiet client: every open-owner file in the list
   ends up dead, and the closes match the change of the indicators. *)
Lemma oofs_remove_all_quiet : forall others c pool c1 pool1 outs pn,
  oofs_remove_all others c pool = (c1, pool1, outs, pn) ->
  quiet_client c ->
  quiet_client c1 /\ c_id c1 = c_id c
  /\ (forall h b, balance h b outs = (cl_ind h b c1 - cl_ind h b c)%Z)
  /\ (forall o1, In o1 (c_oofs c1) -> of_live o1 = true ->
        exists o, In o (c_oofs c) /\ of_live o = true /\ of_other o = of_other o1 /\ ~ In (of_other o1) others).
Proof.
  induction others as [|x tl IH]; intros c pool c1 pool1 outs pn H Q.
  - cbn in H. inversion H; subst. split; [exact Q|]. split; [reflexivity|]. split.
    + intros h b. cbn. lia.
    + intros o1 Hin Hl. exists o1. auto.
  - cbn [oofs_remove_all] in H.
    destruct (find_oofs x (c_oofs c)) as [o|] eqn:Ef.
    + destruct (oofs_remove o c pool) as [[[c2 pool2] outs1] pn1] eqn:Er.
      destruct (oofs_remove_all tl c2 pool2) as [[[c3 pool3] outs2] pn2] eqn:Er2.
      inversion H; subst c3 pool3 outs pn; clear H.
      destruct Q as [N1 Q1].
      destruct (find_oofs_any_of_live _ _ _ N1 Ef) as [Hfo Hlive].
      assert (Hoin : In o (c_oofs c) /\ of_other o = x) by (rewrite find_oofs_any_k in Hfo; apply kfind_some in Hfo; exact Hfo).
      destruct Hoin as [Hoin Hox].
      destruct (Q1 o Hoin) as [S1 [S2 S3]].
      assert (HS0 : forall b, Z.of_N (cnt b o) = (b2z (bit b (of_share o)) + lofs_bits b (of_lofs o) + 0)%Z).
      { intros b. rewrite (S1 b), Hlive. cbn [andb]. lia. }
      destruct (oofs_remove_spec _ _ _ _ _ _ _ (fun _ => 0%Z) Er Hlive S3 (fun _ => Z.le_refl 0) HS0)
        as [o3 [R1 [R2 [R3 [R4 [R5 [R6 [R7 [R8 [R9 [R10 R11]]]]]]]]]]].
      assert (Q2 : quiet_client c2).
      { split; [rewrite R1, upd_oofs_k, kupd_keys; exact N1|].
        intros o2 Ho2. rewrite R1, upd_oofs_k in Ho2. apply kupd_in in Ho2. destruct Ho2 as [->|[Ho2 _]].
        - split; [|split].
          + intros b. rewrite R10, R7, R9. cbn. lia.
          + auto.
          + rewrite R9. constructor.
        - apply Q1. exact Ho2. }
      destruct (IH c2 pool2 c1 pool1 outs2 pn2 Er2 Q2) as [Q3 [Hid [Hb Hlv]]].
      split; [exact Q3|]. split; [congruence|]. split.
      * intros h b. rewrite balance_app, R11, Hb.
        assert (Hd : cl_ind h b c2 = (cl_ind h b c + dind h b o o3)%Z).
        { unfold cl_ind, dind. rewrite R1, upd_oofs_k.
          rewrite (sumz_kupd of_other _ o3 _ o N1); [|rewrite R5, Hox, <- find_oofs_any_k; exact Hfo].
          rewrite R6. destruct (of_handle o =? h); lia. }
        rewrite Hd. lia.
      * intros o1 Hin1 Hl1. destruct (Hlv o1 Hin1 Hl1) as [o2 [Hin2 [Hl2 [Ho2 Hni]]]].
        rewrite R1, upd_oofs_k in Hin2. apply kupd_in in Hin2. destruct Hin2 as [->|[Hin2 Hne]].
        -- rewrite R7 in Hl2. discriminate.
        -- exists o2. split; [exact Hin2|]. split; [exact Hl2|]. split; [exact Ho2|].
           intros [Hx|Hx]; [|contradiction]. apply Hne. rewrite R5, Hox, Hx. exact Ho2.
    + destruct (IH c pool c1 pool1 outs pn H Q) as [Q3 [Hid [Hb Hlv]]].
      split; [exact Q3|]. split; [exact Hid|]. split; [exact Hb|].
      intros o1 Hin1 Hl1. destruct (Hlv o1 Hin1 Hl1) as [o2 [Hin2 [Hl2 [Ho2 Hni]]]].
      exists o2. split; [exact Hin2|]. split; [exact Hl2|]. split; [exact Ho2|].
      intros [Hx|Hx]; [|contradiction].
      (* o2 is live with other = x, so the lookup would have found it *)
      destruct Q as [N1 _]. pose proof (in_find_oofs_any c o2 N1 Hin2) as Hfa.
      assert (Hf : find_oofs x (c_oofs c) <> None).
      { unfold find_oofs. intros Hn. eapply find_none in Hn; [|exact Hin2]. cbn in Hn.
        rewrite Hl2, Ho2, <- Hx, N.eqb_refl in Hn. discriminate. }
      contradiction.
Qed.

Lemma live_others_all : forall c o, In o (c_oofs c) -> of_live o = true -> In (of_other o) (live_others c).
Proof.
  intros c o Hin Hl. unfold live_others. apply in_map. apply filter_In. auto.
Qed.

(* After all live open-owner files of a quiet client are removed nothing holds a leaf. *)
Lemma sumz_zero : forall {A} (l : list A), sumz (fun _ => 0%Z) l = 0%Z.
Proof. intros A l. induction l as [|x l IH]; [reflexivity|]. cbn [sumz]. rewrite IH. reflexivity. Qed.

Lemma quiet_all_dead_ind : forall c h b, quiet_client c ->
  (forall o, In o (c_oofs c) -> of_live o = false) -> cl_ind h b c = 0%Z.
Proof.
  intros c h b [_ Q] Hd. rewrite cl_ind_hind.
  rewrite (sumz_ext _ (fun _ => 0%Z)).
  - apply sumz_zero.
  - intros o Ho. apply quiet_dead_ind; auto.
Qed.

Lemma kdel_kupd : forall {A} (key : A -> N) x' l, kdel key (key x') (kupd key x' l) = kdel key (key x') l.
Proof.
  intros A key x' l. unfold kdel, kupd. induction l as [|y l IH]; [reflexivity|]. cbn.
  destruct (key y =? key x') eqn:E; cbn.
  - rewrite N.eqb_refl. cbn. exact IH.
  - rewrite E. cbn. f_equal. exact IH.
Qed.

(* Removing a client that holds nothing and has no compound in flight. *)
Lemma remove_client_goal : forall st st' c,
  acct_inv st -> find_client (c_id c) (st_clients st) = Some c -> c_hold c = 0 ->
  (forall h b, cl_ind h b c = 0%Z) ->
  st_clients st' = del_client (c_id c) (st_clients st) ->
  st_threads st' = st_threads st ->
  st_idle st' = idle_remove (c_id c) (st_idle st) ->
  st_goal st st' [].
Proof.
  intros st st' c I Hf Hh Hz Hcl Hth Hid.
  assert (Hcin : In c (st_clients st)) by (rewrite find_client_k in Hf; apply kfind_some in Hf; tauto).
  pose proof (no_threads_of st c I Hcin Hh) as Hnt.
  destruct I as [Cn [Tn [Cok [Tok Iok]]]].
  split.
  - unfold acct_inv. rewrite Hcl, Hth, Hid. split; [apply (kdel_nodup c_id); exact Cn|].
    split; [exact Tn|]. split; [|split].
    + intros c2 Hc2. apply (kdel_in c_id) in Hc2. destruct Hc2 as [Hc2 _].
      destruct (Cok c2 Hc2) as [N1 [O1 H1]]. split; [exact N1|]. split.
      * intros o Ho. destruct (O1 o Ho) as [B [S1 S2]]. split; [exact B|]. split; [|exact S2].
        intros b. unfold clones. rewrite Hth. apply S1.
      * rewrite Hth. exact H1.
    + intros t Ht. destruct (Tok t Ht) as [c2 [Hc2 Hp]]. exists c2. split; [|exact Hp].
      rewrite Hcl. change (kfind c_id (t_client t) (kdel c_id (c_id c) (st_clients st)) = Some c2).
      rewrite kfind_kdel_other; [exact Hc2|].
      intros E. specialize (Hnt t Ht). rewrite E, N.eqb_refl in Hnt. discriminate.
    + intros id Hin. unfold idle_remove in Hin. apply filter_In in Hin. destruct Hin as [Hin Hne].
      destruct (Iok id Hin) as [c2 [Hc2 Hh2]]. exists c2. split; [|exact Hh2].
      change (kfind c_id id (kdel c_id (c_id c) (st_clients st)) = Some c2).
      rewrite kfind_kdel_other; [exact Hc2|].
      apply Bool.negb_true_iff, N.eqb_neq in Hne. exact Hne.
  - intros h b. unfold holders. rewrite Hcl, Hth, del_client_k.
    rewrite (sumz_kdel c_id (cl_ind h b) (c_id c) _ c Cn); [|rewrite <- find_client_k; exact Hf].
    rewrite Hz. cbn. lia.
Qed.

Lemma client_remove_fields : forall id s c0,
  find_client id (st_clients s) = Some c0 ->
  st_clients (client_remove id s) = del_client id (st_clients s)
  /\ st_threads (client_remove id s) = st_threads s
  /\ st_idle (client_remove id s) = idle_remove id (st_idle s).
Proof. intros id s c0 H. unfold client_remove. rewrite H. auto. Qed.

(* clientIncarnationState.emptyAndRemove for an idle incarnation. *)
Lemma empty_and_remove_goal : forall st id c,
  acct_inv st -> find_client id (st_clients st) = Some c -> c_hold c = 0 ->
  st_goal st (fst (empty_and_remove id st)) (snd (empty_and_remove id st)).
Proof.
  intros st id c I Hf Hh. unfold empty_and_remove. rewrite Hf.
  assert (Hcin : In c (st_clients st) /\ c_id c = id) by (rewrite find_client_k in Hf; apply kfind_some in Hf; exact Hf).
  destruct Hcin as [Hcin Hcid].
  destruct (oofs_remove_all (live_others c) c (st_pool st)) as [[[c1 pool1] outs] pn] eqn:Er.
  cbn [fst snd].
  pose proof (quiet_of_inv st c I Hcin Hh) as Q.
  destruct (oofs_remove_all_quiet _ _ _ _ _ _ _ Er Q) as [Q1 [Hid1 [Hb Hlv]]].
  assert (Hdead : forall o, In o (c_oofs c1) -> of_live o = false).
  { intros o Ho. destruct (of_live o) eqn:El; [|reflexivity]. exfalso.
    destruct (Hlv o Ho El) as [o0 [Hin0 [Hl0 [Ho0 Hni]]]]. apply Hni. rewrite <- Ho0.
    apply live_others_all; assumption. }
  (* the final state: the client is gone *)
  match goal with |- st_goal _ (client_remove id ?s0) _ => set (s2 := s0) end.
  assert (Hk : find_client id (st_clients s2) = Some c1).
  { subst s2. cbn [st_clients set_sessions add_panic set_pool set_clients].
    rewrite find_client_k, upd_client_k, <- Hcid, <- Hid1. eapply kfind_kupd_same.
    rewrite Hid1, Hcid, <- find_client_k. exact Hf. }
  destruct (client_remove_fields id s2 c1 Hk) as [Hcl0 [Hth0 Hidl0]].
  set (st' := client_remove id s2) in *.
  assert (Hcl : st_clients st' = del_client (c_id c) (st_clients st)).
  { rewrite Hcl0. subst s2. cbn [st_clients set_sessions add_panic set_pool set_clients].
    rewrite del_client_k, upd_client_k, <- Hcid, <- Hid1, kdel_kupd. reflexivity. }
  assert (Hth : st_threads st' = st_threads st) by (rewrite Hth0; reflexivity).
  assert (Hidl : st_idle st' = idle_remove (c_id c) (st_idle st)) by (rewrite Hidl0, Hcid; reflexivity).
  (* holders: the client's share disappears; the closes account for it *)
  destruct I as [Cn [Tn [Cok [Tok Iok]]]].
  pose proof (no_threads_of st c (conj Cn (conj Tn (conj Cok (conj Tok Iok)))) Hcin Hh) as Hnt.
  split.
  - unfold acct_inv. rewrite Hcl, Hth, Hidl. split; [apply (kdel_nodup c_id); exact Cn|].
    split; [exact Tn|]. split; [|split].
    + intros c2 Hc2. apply (kdel_in c_id) in Hc2. destruct Hc2 as [Hc2 _].
      destruct (Cok c2 Hc2) as [N1 [O1 H1]]. split; [exact N1|]. split.
      * intros o Ho. destruct (O1 o Ho) as [B [S1 S2]]. split; [exact B|]. split; [|exact S2].
        intros b. unfold clones. rewrite Hth. apply S1.
      * rewrite Hth. exact H1.
    + intros t Ht. destruct (Tok t Ht) as [c2 [Hc2 Hp]]. exists c2. split; [|exact Hp].
      rewrite Hcl. change (kfind c_id (t_client t) (kdel c_id (c_id c) (st_clients st)) = Some c2).
      rewrite kfind_kdel_other; [exact Hc2|].
      intros E. specialize (Hnt t Ht). rewrite E, N.eqb_refl in Hnt. discriminate.
    + intros id2 Hin. unfold idle_remove in Hin. apply filter_In in Hin. destruct Hin as [Hin Hne].
      destruct (Iok id2 Hin) as [c2 [Hc2 Hh2]]. exists c2. split; [|exact Hh2].
      change (kfind c_id id2 (kdel c_id (c_id c) (st_clients st)) = Some c2).
      rewrite kfind_kdel_other; [exact Hc2|].
      apply Bool.negb_true_iff, N.eqb_neq in Hne. exact Hne.
  - intros h b. unfold holders. rewrite Hcl, Hth, del_client_k.
    rewrite (sumz_kdel c_id (cl_ind h b) (c_id c) _ c Cn); [|rewrite Hcid, <- find_client_k; exact Hf].
    rewrite Hb. rewrite (quiet_all_dead_ind c1 h b Q1 Hdead). lia.
Qed.

(* ---- enter() ---------------------------------------------------------------------- *)
Lemma expire_list_goal : forall ids st,
  acct_inv st ->
  (forall id c, In id ids -> find_client id (st_clients st) = Some c -> c_hold c = 0) ->
  st_goal st (fst (expire_list ids st)) (snd (expire_list ids st)).
Proof.
  induction ids as [|id tl IH]; intros st I Hidle; cbn [expire_list].
  - cbn. apply st_goal_same. exact I.
  - destruct (expired st id) eqn:Ex; [|cbn; apply st_goal_same; exact I].
    unfold expired in Ex. destruct (find_client id (st_clients st)) as [c|] eqn:Ef; [|discriminate].
    assert (Hh : c_hold c = 0) by (eapply Hidle; [left; reflexivity|exact Ef]).
    pose proof (empty_and_remove_goal st id c I Ef Hh) as G1.
    destruct (empty_and_remove id st) as [st1 o1] eqn:Er. cbn [fst snd] in G1.
    assert (Hcl1 : forall id2 c2, find_client id2 (st_clients st1) = Some c2 -> find_client id2 (st_clients st) = Some c2).
    { intros id2 c2 H2. unfold empty_and_remove in Er. rewrite Ef in Er.
      destruct (oofs_remove_all _ _ _) as [[[c1 pool1] outs] pn] eqn:Ea.
      assert (Hid1 : c_id c1 = c_id c).
      { assert (Hcin : In c (st_clients st)) by (rewrite find_client_k in Ef; apply kfind_some in Ef; tauto).
        pose proof (quiet_of_inv st c I Hcin Hh) as Q.
        exact (proj1 (proj2 (oofs_remove_all_quiet _ _ _ _ _ _ _ Ea Q))). }
      injection Er as <- _.
      match type of H2 with find_client _ (st_clients (client_remove id ?s0)) = _ => set (s2 := s0) in * end.
      assert (Hk : find_client id (st_clients s2) = Some c1).
      { subst s2. cbn [st_clients set_sessions add_panic set_pool set_clients].
        assert (Hcid : c_id c = id) by (rewrite find_client_k in Ef; apply kfind_some in Ef; tauto).
        rewrite find_client_k, upd_client_k, <- Hcid, <- Hid1. eapply kfind_kupd_same.
        rewrite Hid1, Hcid, <- find_client_k. exact Ef. }
      destruct (client_remove_fields id s2 c1 Hk) as [Hcl0 _]. rewrite Hcl0 in H2.
      subst s2. cbn [st_clients set_sessions add_panic set_pool set_clients] in H2.
      assert (Hcid : c_id c = id) by (rewrite find_client_k in Ef; apply kfind_some in Ef; tauto).
      change (kfind c_id id2 (kdel c_id id (kupd c_id c1 (st_clients st))) = Some c2) in H2.
      rewrite <- Hcid, <- Hid1, kdel_kupd in H2.
      destruct (N.eq_dec id2 (c_id c1)) as [->|Hne].
      - rewrite kfind_kdel_same in H2. discriminate.
      - rewrite kfind_kdel_other in H2 by exact Hne. exact H2. }
    destruct G1 as [I1 H1].
    assert (Hidle1 : forall id2 c2, In id2 tl -> find_client id2 (st_clients st1) = Some c2 -> c_hold c2 = 0).
    { intros id2 c2 Hin H2. eapply Hidle; [right; exact Hin|]. apply Hcl1. exact H2. }
    pose proof (IH st1 I1 Hidle1) as G2. destruct (expire_list tl st1) as [st2 o2]. cbn [fst snd] in *.
    eapply st_goal_trans; [split; [exact I1|exact H1]|exact G2].
Qed.

Lemma enter_goal : forall st, acct_inv st -> st_goal st (fst (enter st)) (snd (enter st)).
Proof.
  intros st I. unfold enter.
  set (st1 := if st_now st <? st_clock st then set_now st (st_clock st) else st).
  assert (G1 : st_goal st st1 []).
  { subst st1. destruct (st_now st <? st_clock st); [apply acct_ext; auto|apply st_goal_same; exact I]. }
  assert (Hidle : forall id c, In id (st_idle st1) -> find_client id (st_clients st1) = Some c -> c_hold c = 0).
  { intros id c Hin Hf. destruct G1 as [[_ [_ [_ [_ Iok]]]] _]. destruct (Iok id Hin) as [c2 [Hc2 Hh]]. congruence. }
  pose proof (expire_list_goal (st_idle st1) st1 (proj1 G1) Hidle) as G2.
  destruct (expire_list (st_idle st1) st1) as [st2 o2]. cbn [fst snd] in *.
  exact (st_goal_trans _ _ _ _ _ G1 G2).
Qed.

Lemma enter_goal' : forall st st' outs, acct_inv st -> enter st = (st', outs) -> st_goal st st' outs.
Proof. intros st st' outs I H. pose proof (enter_goal st I) as G. rewrite H in G. exact G. Qed.

(* ---- changes of a client that do not concern the accounting ---------------------- *)
(* [c'] is [c] with other values for confirmed / lastSeen / sequence fields. *)
Lemma client_fields_goal : forall st st' c c',
  acct_inv st -> find_client (c_id c') (st_clients st) = Some c ->
  c_id c' = c_id c -> c_hold c' = c_hold c -> c_oofs c' = c_oofs c -> c_other c' = c_other c ->
  st_clients st' = upd_client c' (st_clients st) ->
  st_threads st' = st_threads st ->
  (forall id, In id (st_idle st') -> In id (st_idle st) \/ (id = c_id c' /\ c_hold c' = 0)) ->
  st_goal st st' [].
Proof.
  intros st st' c c' I Hf E1 E2 E3 E4 Hcl Hth Hidl.
  assert (Hcin : In c (st_clients st)) by (rewrite find_client_k in Hf; apply kfind_some in Hf; tauto).
  destruct I as [Cn [Tn [Cok [Tok Iok]]]].
  assert (Hfind : forall id c2, find_client id (st_clients st) = Some c2 ->
            exists c3, find_client id (st_clients st') = Some c3 /\ c_hold c3 = c_hold c2 /\ c_oofs c3 = c_oofs c2).
  { intros id c2 H2. rewrite Hcl, find_client_k, upd_client_k.
    destruct (N.eq_dec id (c_id c')) as [->|Hne].
    - exists c'. split; [eapply kfind_kupd_same; rewrite <- find_client_k; exact Hf|].
      assert (c2 = c) by congruence. subst c2. auto.
    - exists c2. rewrite kfind_kupd_other by exact Hne. rewrite <- find_client_k. auto. }
  split.
  - unfold acct_inv. rewrite Hcl, Hth. split; [rewrite upd_client_k, kupd_keys; exact Cn|].
    split; [exact Tn|]. split; [|split].
    + intros c2 Hc2. rewrite upd_client_k in Hc2. apply kupd_in in Hc2. destruct Hc2 as [->|[Hc2 _]].
      * destruct (Cok c Hcin) as [N1 [O1 H1]]. split; [rewrite E3; exact N1|]. split.
        -- intros o Ho. rewrite E3 in Ho. destruct (O1 o Ho) as [[B1 B2] [S1 S2]]. split.
           ++ split; [rewrite E4; exact B1|]. intros lf Hlf. rewrite E4. auto.
           ++ split; [|exact S2]. intros b. unfold clones. rewrite Hth, E1. apply S1.
        -- rewrite E2, E1, Hth. exact H1.
      * destruct (Cok c2 Hc2) as [N1 [O1 H1]]. split; [exact N1|]. split.
        -- intros o Ho. destruct (O1 o Ho) as [B [S1 S2]]. split; [exact B|]. split; [|exact S2].
           intros b. unfold clones. rewrite Hth. apply S1.
        -- rewrite Hth. exact H1.
    + intros t Ht. destruct (Tok t Ht) as [c2 [Hc2 Hp]].
      destruct (Hfind _ _ Hc2) as [c3 [Hc3 [_ Ho3]]]. exists c3. split; [exact Hc3|].
      rewrite Ho3. exact Hp.
    + intros id Hin. destruct (Hidl id Hin) as [Hold|[-> Hh0]].
      * destruct (Iok id Hold) as [c2 [Hc2 Hh2]].
        destruct (Hfind _ _ Hc2) as [c3 [Hc3 [Hh3 _]]]. exists c3. split; [rewrite <- Hcl; exact Hc3|congruence].
      * exists c'. split; [|exact Hh0]. rewrite upd_client_k, find_client_k.
        eapply kfind_kupd_same. rewrite <- find_client_k. exact Hf.
  - intros h b. unfold holders. rewrite Hcl, Hth, upd_client_k.
    rewrite (sumz_kupd c_id (cl_ind h b) c' _ c Cn); [|rewrite <- find_client_k; exact Hf].
    unfold cl_ind. rewrite E3. cbn. lia.
Qed.

Lemma touch_goal : forall st id, acct_inv st -> st_goal st (touch id st) [].
Proof.
  intros st id I. unfold touch. destruct (find_client id (st_clients st)) as [c|] eqn:Ef; [|apply st_goal_same; exact I].
  destruct (c_hold c =? 0) eqn:Eh; [|apply st_goal_same; exact I].
  apply N.eqb_eq in Eh.
  assert (Hcid : c_id c = id) by (rewrite find_client_k in Ef; apply kfind_some in Ef; tauto).
  set (c' := c_set_hold c 0 (st_now st)).
  assert (Hf' : find_client (c_id c') (st_clients st) = Some c) by (subst c'; cbn; rewrite Hcid; exact Ef).
  assert (E2 : c_hold c' = c_hold c) by (subst c'; cbn; symmetry; exact Eh).
  match goal with |- st_goal _ ?s _ => set (st' := s) end.
  assert (Hidl : forall id2, In id2 (st_idle st') -> In id2 (st_idle st) \/ (id2 = c_id c' /\ c_hold c' = 0)).
  { intros id2 Hin. subst st'. cbn [st_idle set_idle] in Hin. apply in_app_or in Hin. destruct Hin as [Hin|[<-|[]]].
    - left. unfold idle_remove in Hin. apply filter_In in Hin. tauto.
    - right. subst c'. cbn. auto. }
  exact (client_fields_goal st st' c c' I Hf' eq_refl E2 eq_refl eq_refl eq_refl eq_refl Hidl).
Qed.
