(* C18, lease side of the NFSv4.1 model: the facts on which the lease
   monitor of SpecLease.v (a client leaves the tables only when nothing was
   heard of it for a lease period, never while one of its compounds is in
   flight) rests:
     - enter() sets now := max now clock and discards an incarnation only
       if it is idle and lastSeen + lease < now; survivors are untouched;
     - an incarnation that is held is not discarded by enter();
     - SEQUENCE starting a new sequence holds the client (hold count + 1)
       and registers the compound;
     - release() stamps lastSeen := now when the last hold is dropped; the
       last section of a compound therefore leaves lastSeen = now >= the
       clock reading it started with;
     - CREATE_SESSION's hold + release (touch) does the same for an idle
       incarnation.
   Statements about one critical section in an arbitrary state (some under
   the invariant idle_inv, which holds in every reachable state:
   ProofsExpiry.reachable_idle_inv). *)
From VF Require Import Nfs41.ProofsBase Nfs41.ProofsIdle Nfs41.ProofsExpiry.
From Coq Require Import Lia ZifyBool ZifyN.
Open Scope N_scope.

(* ---- enter(): clock ------------------------------------------------------- *)
Lemma empty_and_remove_scalars : forall id st,
  let st' := fst (empty_and_remove id st) in
  st_now st' = st_now st /\ st_cfg st' = st_cfg st /\ st_clock st' = st_clock st.
Proof.
  intros id st. unfold empty_and_remove. destruct (find_client id (st_clients st)) as [c|]; [|cbn; tauto].
  destruct (oofs_remove_all (live_others c) c (st_pool st)) as [[[c1 pool1] outs] pn]. cbn [fst].
  unfold client_remove. cbn [st_clients set_sessions add_panic set_pool set_clients].
  destruct (find_client id _); cbn; tauto.
Qed.

Lemma expire_list_scalars : forall ids st,
  let st' := fst (expire_list ids st) in
  st_now st' = st_now st /\ st_cfg st' = st_cfg st /\ st_clock st' = st_clock st.
Proof.
  induction ids as [|id tl IH]; intros st; cbn [expire_list]; [cbn; tauto|].
  destruct (expired st id); [|cbn; tauto].
  pose proof (empty_and_remove_scalars id st) as E. destruct (empty_and_remove id st) as [st1 o1]. cbn [fst] in E.
  pose proof (IH st1) as E2. destruct (expire_list tl st1) as [st2 o2]. cbn [fst] in *.
  destruct E as [A [B C]]. destruct E2 as [A2 [B2 C2]]. repeat split; congruence.
Qed.

Lemma enter_now : forall st, st_now (fst (enter st)) = N.max (st_now st) (st_clock st).
Proof.
  intros st. unfold enter. destruct (expire_list_scalars (st_idle (if st_now st <? st_clock st then set_now st (st_clock st) else st))
                                                         (if st_now st <? st_clock st then set_now st (st_clock st) else st)) as [A _].
  rewrite A. destruct (st_now st <? st_clock st) eqn:E; cbn; lia.
Qed.

Lemma enter_cfg : forall st, st_cfg (fst (enter st)) = st_cfg st.
Proof.
  intros st. unfold enter. destruct (expire_list_scalars (st_idle (if st_now st <? st_clock st then set_now st (st_clock st) else st))
                                                         (if st_now st <? st_clock st then set_now st (st_clock st) else st)) as [_ [B _]].
  rewrite B. destruct (st_now st <? st_clock st); reflexivity.
Qed.

(* now never runs behind the clock reading the critical section started with *)
Lemma enter_clock_monotone : forall st,
  st_clock st <= st_now (fst (enter st)) /\ st_now st <= st_now (fst (enter st)).
Proof. intros st. rewrite enter_now. lia. Qed.

(* ---- enter(): who is discarded -------------------------------------------- *)
Definition cfind (id : N) (st : state) := find_client id (st_clients st).

Lemma expire_list_spec : forall ids st, NoDup (map c_id (st_clients st)) ->
  let st' := fst (expire_list ids st) in
  (forall id, cfind id st = None -> cfind id st' = None)
  /\ forall id c, cfind id st = Some c ->
       cfind id st' = Some c
       \/ (cfind id st' = None /\ In id ids /\ c_seen c + cf_lease (st_cfg st) < st_now st).
Proof.
  induction ids as [|id0 tl IH]; intros st Hnd; cbn [expire_list].
  - cbn [fst]. split; [tauto|]. intros id c H. left. exact H.
  - destruct (expired st id0) eqn:Ex; [|cbn [fst]; split; [tauto|intros id c H; left; exact H]].
    unfold expired in Ex. destruct (find_client id0 (st_clients st)) as [c0|] eqn:Ef0; [|discriminate].
    pose proof (empty_and_remove_fields id0 st c0 Hnd Ef0) as F.
    pose proof (empty_and_remove_scalars id0 st) as Sc.
    destruct (empty_and_remove id0 st) as [st1 o1]. cbn [fst] in F, Sc.
    destruct F as [F1 _]. destruct Sc as [S1 [S2 _]].
    assert (Hnd1 : NoDup (map c_id (st_clients st1))) by (rewrite F1; apply (kdel_nodup c_id); exact Hnd).
    pose proof (IH st1 Hnd1) as I. destruct (expire_list tl st1) as [st2 o2]. cbn [fst] in *.
    destruct I as [I1 I2].
    assert (Hother : forall id, id <> id0 -> cfind id st1 = cfind id st).
    { intros id Hne. unfold cfind. rewrite F1. apply (kfind_kdel_other c_id). exact Hne. }
    assert (Hsame : cfind id0 st1 = None).
    { unfold cfind. rewrite F1. apply (kfind_kdel_same c_id). }
    split.
    + intros id Hn. apply I1. destruct (N.eq_dec id id0) as [->|Hne]; [exact Hsame|]. rewrite Hother by exact Hne. exact Hn.
    + intros id c Hc. destruct (N.eq_dec id id0) as [->|Hne].
      * right. split; [apply I1; exact Hsame|]. split; [left; reflexivity|].
        unfold cfind in Hc. rewrite Ef0 in Hc. inversion Hc; subst c. lia.
      * rewrite <- Hother in Hc by exact Hne. destruct (I2 id c Hc) as [K|[K1 [K2 K3]]]; [left; exact K|].
        right. split; [exact K1|]. split; [right; exact K2|]. rewrite S1, S2 in K3. exact K3.
Qed.

Lemma enter_spec : forall st, NoDup (map c_id (st_clients st)) ->
  let st' := fst (enter st) in
  forall id c, cfind id st = Some c ->
    cfind id st' = Some c
    \/ (cfind id st' = None /\ In id (st_idle st) /\ c_seen c + cf_lease (st_cfg st) < st_now st').
Proof.
  intros st Hnd st' id c Hc. subst st'. rewrite enter_now. unfold enter.
  set (st1 := if st_now st <? st_clock st then set_now st (st_clock st) else st).
  assert (E1 : st_clients st1 = st_clients st) by (unfold st1; destruct (st_now st <? st_clock st); reflexivity).
  assert (E2 : st_idle st1 = st_idle st) by (unfold st1; destruct (st_now st <? st_clock st); reflexivity).
  assert (E3 : st_cfg st1 = st_cfg st) by (unfold st1; destruct (st_now st <? st_clock st); reflexivity).
  assert (E4 : st_now st1 = N.max (st_now st) (st_clock st)).
  { unfold st1. destruct (st_now st <? st_clock st) eqn:E; cbn; lia. }
  assert (Hnd1 : NoDup (map c_id (st_clients st1))) by (rewrite E1; exact Hnd).
  destruct (expire_list_spec (st_idle st1) st1 Hnd1) as [_ S].
  assert (Hc1 : cfind id st1 = Some c) by (unfold cfind; rewrite E1; exact Hc).
  destruct (S id c Hc1) as [K|[K1 [K2 K3]]]; [left; exact K|].
  right. split; [exact K1|]. split; [rewrite <- E2; exact K2|]. rewrite <- E3, <- E4. exact K3.
Qed.

(* enter() discards an incarnation only if it is idle and its lease has lapsed *)
Lemma expiry_only_after_lease : forall st id c, NoDup (map c_id (st_clients st)) ->
  cfind id st = Some c -> cfind id (fst (enter st)) = None ->
  In id (st_idle st) /\ c_seen c + cf_lease (st_cfg st) < st_now (fst (enter st)).
Proof.
  intros st id c Hnd Hc Hgone. destruct (enter_spec st Hnd id c Hc) as [K|[_ K]]; [congruence|exact K].
Qed.

(* ... and leaves the record of every other incarnation as it was *)
Lemma enter_keeps_record : forall st id c c', NoDup (map c_id (st_clients st)) ->
  cfind id st = Some c -> cfind id (fst (enter st)) = Some c' -> c' = c.
Proof.
  intros st id c c' Hnd Hc Hc'. destruct (enter_spec st Hnd id c Hc) as [K|[K _]]; congruence.
Qed.

(* an incarnation that is held (a compound in flight) survives enter() *)
Lemma held_client_survives_enter : forall st id c, idle_inv st ->
  cfind id st = Some c -> c_hold c <> 0 -> cfind id (fst (enter st)) = Some c.
Proof.
  intros st id c [_ [I2 I3]] Hc Hh. destruct (enter_spec st I3 id c Hc) as [K|[_ [K _]]]; [exact K|].
  apply I2 in K. unfold hold_of in K. unfold cfind in Hc. rewrite Hc in K. inversion K. contradiction.
Qed.

(* ---- hold / release -------------------------------------------------------- *)
Lemma cfind_id : forall id st c, cfind id st = Some c -> c_id c = id.
Proof. intros id st c H. unfold cfind in H. rewrite find_client_k in H. apply kfind_some in H. tauto. Qed.

Lemma find_upd_same : forall (l : list client) id c c1,
  find_client id l = Some c -> c_id c1 = id -> find_client id (upd_client c1 l) = Some c1.
Proof.
  intros l id c c1 H E. subst id. rewrite find_client_k, upd_client_k. eapply kfind_kupd_same.
  rewrite <- find_client_k. exact H.
Qed.

Lemma hold_counts : forall id st c, cfind id st = Some c ->
  exists c', cfind id (hold id st) = Some c' /\ c_hold c' = c_hold c + 1 /\ c_seen c' = c_seen c.
Proof.
  intros id st c Hc. pose proof (cfind_id _ _ _ Hc) as Hid. unfold hold. unfold cfind in Hc. rewrite Hc.
  eexists. split.
  - unfold cfind. destruct (c_hold c =? 0); cbn [st_clients set_clients set_idle];
      (eapply find_upd_same; [exact Hc|exact Hid]).
  - split; reflexivity.
Qed.

(* dropping the last hold stamps lastSeen with now *)
Lemma release_records_now : forall id st c, cfind id st = Some c -> c_hold c = 1 ->
  exists c', cfind id (release id st) = Some c' /\ c_hold c' = 0 /\ c_seen c' = st_now st
             /\ st_now (release id st) = st_now st.
Proof.
  intros id st c Hc Hh. pose proof (cfind_id _ _ _ Hc) as Hid. unfold release. unfold cfind in Hc. rewrite Hc, Hh.
  cbn [N.eqb Pos.eqb]. eexists. split.
  - unfold cfind. cbn [st_clients set_clients set_idle].
    eapply find_upd_same; [exact Hc|exact Hid].
  - repeat split.
Qed.

(* a hold that is not the last one changes nothing but the count *)
Lemma release_keeps_when_held : forall id st c, cfind id st = Some c -> 1 < c_hold c ->
  exists c', cfind id (release id st) = Some c' /\ c_hold c' = N.pred (c_hold c) /\ c_seen c' = c_seen c.
Proof.
  intros id st c Hc Hh. pose proof (cfind_id _ _ _ Hc) as Hid. unfold release. unfold cfind in Hc. rewrite Hc.
  destruct (c_hold c =? 0) eqn:E0; [lia|]. destruct (c_hold c =? 1) eqn:E1; [lia|].
  eexists. split.
  - unfold cfind. cbn [st_clients set_clients].
    eapply find_upd_same; [exact Hc|exact Hid].
  - split; reflexivity.
Qed.

(* ---- SEQUENCE -------------------------------------------------------------- *)
(* A SEQUENCE that starts a new sequence on a free slot holds the client of
   the session for the compound and registers the compound. *)
Lemma sequence_pins_client : forall tid sess sl sq cache ops st ss s c0,
  find_session sess (st_sessions (fst (enter st))) = Some ss ->
  nth_error (ss_slots ss) (N.to_nat sl) = Some s ->
  sq <> sl_seq s -> sq = (sl_seq s + 1) mod u32 -> sl_busy s = None ->
  1 + N.of_nat (length ops) <= cf_maxops (st_cfg st) ->
  cfind (ss_client ss) (fst (enter st)) = Some c0 ->
  let st' := fst (seq_begin tid sess sl sq cache ops st) in
  (exists c', cfind (ss_client ss) st' = Some c' /\ c_hold c' = c_hold c0 + 1 /\ c_seen c' = c_seen c0)
  /\ exists t, In t (st_threads st') /\ t_id t = tid /\ t_client t = ss_client ss.
Proof.
  intros tid sess sl sq cache ops st ss s c0 Hs Hn Hne Hsq Hb Hm Hc st'. subst st'.
  unfold seq_begin. pose proof (enter_cfg st) as Ecfg. destruct (enter st) as [st1 outs]. cbn [fst] in *.
  rewrite Hs, Hn. destruct (sq =? sl_seq s) eqn:E1; [apply N.eqb_eq in E1; contradiction|].
  destruct (sq =? (sl_seq s + 1) mod u32) eqn:E2; [|apply N.eqb_neq in E2; contradiction].
  rewrite Hb. rewrite Ecfg. destruct (cf_maxops (st_cfg st) <? 1 + N.of_nat (length ops)) eqn:E3; [lia|].
  cbn [fst].
  match goal with |- context [hold ?i ?x] => set (st2 := x) end.
  assert (Hc2 : cfind (ss_client ss) st2 = Some c0) by exact Hc.
  destruct (hold_counts _ _ _ Hc2) as [c' [K1 [K2 K3]]].
  split.
  - exists c'. split; [exact K1|]. split; assumption.
  - eexists. split; [cbn [st_threads set_threads]; apply in_or_app; right; left; reflexivity|]. split; reflexivity.
Qed.

(* The last section of a compound: release() after enter().  When it drops
   the last hold the client is left with lastSeen = now, which is not
   earlier than the clock reading the section started with. *)
Lemma sequence_end_renews_lease : forall t st c0,
  cfind (t_client t) (fst (enter st)) = Some c0 -> c_hold c0 = 1 ->
  let st' := fst (seq_end t st) in
  exists c', cfind (t_client t) st' = Some c' /\ c_hold c' = 0
             /\ c_seen c' = st_now st' /\ st_clock st <= c_seen c'.
Proof.
  intros t st c0 Hc Hh st'. subst st'. unfold seq_end.
  pose proof (enter_clock_monotone st) as [Hclk _]. destruct (enter st) as [st1 outs]. cbn [fst] in *.
  destruct (release_records_now _ _ _ Hc Hh) as [c' [K1 [K2 [K3 K4]]]].
  exists c'.
  assert (Hcl : forall X, st_clients (match find_session (t_sess t) (st_sessions X) with
                                     | Some ss => set_slot X ss (t_slot t) (fun _ => mkSlot (t_seq t) (cached_reply (t_cache t) (t_res t) (t_status t)) None)
                                     | None => X end) = st_clients X
                          /\ st_now (match find_session (t_sess t) (st_sessions X) with
                                     | Some ss => set_slot X ss (t_slot t) (fun _ => mkSlot (t_seq t) (cached_reply (t_cache t) (t_res t) (t_status t)) None)
                                     | None => X end) = st_now X).
  { intros X. destruct (find_session (t_sess t) (st_sessions X)); split; reflexivity. }
  destruct (Hcl (release (t_client t) st1)) as [A B].
  unfold cfind. cbn [fst st_clients set_threads st_now]. rewrite A, B.
  split; [exact K1|]. split; [exact K2|]. split; [congruence|]. rewrite K3. exact Hclk.
Qed.

(* While other compounds of the client are still in flight the last section
   only lowers the hold count: the client stays held. *)
Lemma sequence_end_keeps_held : forall t st c0,
  cfind (t_client t) (fst (enter st)) = Some c0 -> 1 < c_hold c0 ->
  exists c', cfind (t_client t) (fst (seq_end t st)) = Some c' /\ c_hold c' = N.pred (c_hold c0).
Proof.
  intros t st c0 Hc Hh. unfold seq_end. destruct (enter st) as [st1 outs]. cbn [fst] in *.
  destruct (release_keeps_when_held _ _ _ Hc Hh) as [c' [K1 [K2 _]]]. exists c'.
  unfold cfind. cbn [fst st_clients set_threads].
  destruct (find_session (t_sess t) (st_sessions (release (t_client t) st1))); split; try exact K1; exact K2.
Qed.

(* ---- CREATE_SESSION -------------------------------------------------------- *)
(* hold + deferred release in one critical section: an idle incarnation is
   stamped with now. *)
Lemma touch_records_now : forall id st c, cfind id st = Some c -> c_hold c = 0 ->
  exists c', cfind id (touch id st) = Some c' /\ c_hold c' = 0 /\ c_seen c' = st_now st.
Proof.
  intros id st c Hc Hh. pose proof (cfind_id _ _ _ Hc) as Hid. unfold touch. unfold cfind in Hc. rewrite Hc, Hh.
  cbn [N.eqb]. eexists. split.
  - unfold cfind. cbn [st_clients set_clients set_idle].
    eapply find_upd_same; [exact Hc|exact Hid].
  - split; reflexivity.
Qed.

(* ---- over all histories ---------------------------------------------------- *)
(* In every reachable state: enter() discards only idle incarnations whose
   lease has lapsed, never one with a compound in flight. *)
Lemma reachable_expiry_only_after_lease : forall cfg c0 evs id c,
  let st := fst (run (init cfg c0) evs) in
  cfind id st = Some c -> cfind id (fst (enter st)) = None ->
  c_hold c = 0 /\ c_seen c + cf_lease (st_cfg st) < st_now (fst (enter st)).
Proof.
  intros cfg c0 evs id c st Hc Hgone. pose proof (reachable_idle_inv cfg c0 evs) as I. fold st in I.
  destruct I as [I1 [I2 I3]]. destruct (expiry_only_after_lease st id c I3 Hc Hgone) as [K1 K2].
  split; [|exact K2]. apply I2 in K1. unfold hold_of in K1. unfold cfind in Hc. rewrite Hc in K1. inversion K1. reflexivity.
Qed.

(* ---- the monitor of SpecLease.v on traces of the model ---------------------- *)
From VF Require Import Nfs41.SpecLease.

(* The model's own observations, one harness step per event (a compound
   "parks" after every section): request, replies, waiting duplicates and
   the dump of the state reached. *)
Definition hop_of (e : event) : hop :=
  match e with
  | EAdvance d => HAdvance d
  | ESolo t s => HSolo t s
  | ESeqBegin t se sl sq c ops => HSeq t se sl sq c ops []
  | ESection t _ => HResume t
  end.
Definition replies_of (outs : list out) : list (N * creply) :=
  flat_map (fun o => match o with OReply t r => [(t, r)] | _ => [] end) outs.
Definition hstep_of (x : state * event * list out * state) : hstep :=
  let '(st, e, outs, st') := x in
  mkHStep (hop_of e) [] (replies_of outs) [] (flat_map t_waiters (st_threads st')) [] [] [] (dump_of st').
Definition model_hsteps (cfg : config) (c0 : N) (evs : list event) : list hstep :=
  map hstep_of (trace (init cfg c0) evs).

(* Client 1 (owner 0) registers, opens nothing and is then heard of only
   through SEQUENCE compounds, one every 0.7 lease, for 4.2 lease periods,
   the last of them in flight for 1.4 leases while client 2 (owner 1) keeps
   running enter(); then silence for two leases. *)
Definition lease_cfg := mkConfig 1000 2 6.
Definition lease_events : list event :=
  [ESolo 1 (SExchangeId 0 10); ESolo 2 (SCreateSession 1 3);
   ESolo 3 (SExchangeId 1 20); ESolo 4 (SCreateSession 4 6);
   EAdvance 700; ESeqBegin 5 3 0 1 false []; ESection 5 FsOk; ESeqBegin 6 6 0 1 false []; ESection 6 FsOk;
   EAdvance 700; ESeqBegin 7 3 0 2 false []; ESection 7 FsOk; ESeqBegin 8 6 0 2 false []; ESection 8 FsOk;
   EAdvance 700; ESeqBegin 9 3 0 3 false []; ESection 9 FsOk; ESeqBegin 10 6 0 3 false []; ESection 10 FsOk;
   EAdvance 700; ESeqBegin 11 3 0 4 false [OGetattr]; ESeqBegin 12 6 0 4 false []; ESection 12 FsOk;
   EAdvance 700; ESeqBegin 13 6 0 5 false []; ESection 13 FsOk;
   EAdvance 700; ESeqBegin 17 6 0 6 false []; ESection 17 FsOk;
   ESection 11 FsOk; ESection 11 FsOk;
   EAdvance 900; ESeqBegin 14 6 0 7 false []; ESection 14 FsOk;
   ESeqBegin 15 3 0 5 false []; ESection 15 FsOk;
   EAdvance 2001; ESolo 16 (SBindConn 99 true)].

Definition clients_after (evs : list event) : list N :=
  map c_id (st_clients (fst (run (init lease_cfg 1000) evs))).

Lemma lease_example_keeps_client :
  clients_after (firstn 36 lease_events) = [1; 4]          (* both still registered after 5.1 leases *)
  /\ clients_after lease_events = []                        (* silence: both expire *)
  /\ lease_case lease_cfg 1000 (model_hsteps lease_cfg 1000 lease_events) = None.
Proof. vm_compute. repeat split. Qed.

(* The rule is not vacuous: judged with a lease ten times as long the same
   trace expires client 1 within the lease; a trace in which the tables are
   empty while compound 11 is in flight is "expired during I/O". *)
Definition with_dump (s : hstep) (d : dump) : hstep :=
  mkHStep (hs_op s) (hs_orcs s) (hs_replies s) (hs_panics s) (hs_blocked s) (hs_hung s) (hs_leaves s) (hs_flight s) d.
Definition doctored_during_io : list hstep :=
  let tr := model_hsteps lease_cfg 1000 lease_events in
  firstn 23 tr ++ [with_dump (nth 23 tr empty_obs) (with_now empty_dump 4500)].

Lemma lease_rule_rejects :
  lease_from 10000 0 (lmon_init 1000) empty_dump (model_hsteps lease_cfg 1000 lease_events)
    = Some (37%nat, "C18:client-expired-within-lease"%string)
  /\ lease_case lease_cfg 1000 doctored_during_io = Some (23%nat, "C18:client-expired-during-io"%string).
Proof. vm_compute. split; reflexivity. Qed.

(* ---- over all histories: a compound in flight pins its client --------------- *)
From VF Require Import Nfs41.ProofsAcctDefs Nfs41.ProofsAcctMain.

Lemma countz_pos : forall {A} (p : A -> bool) (l : list A) x, In x l -> p x = true -> (1 <= countz p l)%Z.
Proof.
  intros A p l x. induction l as [|y tl IH]; intros Hin Hp; [destruct Hin|].
  unfold countz in *. cbn [sumz]. destruct Hin as [->|Hin].
  - rewrite Hp. pose proof (countz_nonneg p tl) as Hn. unfold countz in Hn. cbn [b2z]. lia.
  - specialize (IH Hin Hp). destruct (p y); cbn [b2z]; lia.
Qed.

(* In every reachable state the client of a compound in flight exists, is
   held, and is left untouched by enter(): lease expiry never takes a client
   away underneath a running compound. *)
Lemma inflight_compound_pins_client : forall cfg c0 evs t,
  let st := fst (run (init cfg c0) evs) in
  In t (st_threads st) ->
  exists c, cfind (t_client t) st = Some c /\ c_hold c <> 0 /\ cfind (t_client t) (fst (enter st)) = Some c.
Proof.
  intros cfg c0 evs t st Ht. pose proof (reachable_full_inv cfg c0 evs) as [A _]. fold st in A.
  pose proof (reachable_idle_inv cfg c0 evs) as I. fold st in I.
  destruct A as [A1 [A2 [A3 [A4 A5]]]]. destruct (A4 t Ht) as [c [Hc _]].
  assert (Hin : In c (st_clients st) /\ c_id c = t_client t).
  { rewrite find_client_k in Hc. apply kfind_some in Hc. exact Hc. }
  destruct Hin as [Hin Hid]. destruct (A3 c Hin) as [_ [_ Hh]].
  assert (Hpos : (1 <= countz (fun t0 => (t_client t0 =? c_id c)%N) (st_threads st))%Z).
  { apply (countz_pos _ _ t Ht). rewrite Hid. apply N.eqb_refl. }
  assert (Hne : c_hold c <> 0) by lia.
  exists c. split; [exact Hc|]. split; [exact Hne|]. apply held_client_survives_enter; assumption.
Qed.

(* ---- over all histories: p.now never runs ahead of the injected clock ------- *)
(* clock, now and configuration: what the operations under cis.lock leave alone *)
Definition scal (st : state) := (st_clock st, st_now st, st_cfg st).

Lemma op_section_scal : forall o ph orc c st cfh sfh,
  match o with
  | OExchangeId _ _ | OCreateSession _ _ | ODestroySession _ | ODestroyClientid _ => ph <> PhNone
  | _ => True
  end ->
  scal (sr_st (op_section o ph orc c st cfh sfh)) = scal st.
Proof.
  intros o ph orc c st cfh sfh Hs. destruct ph.
  - destruct o; cbn [op_section]; try (exfalso; apply Hs; reflexivity);
      unfold op_open_begin, op_open_downgrade, op_close, op_lock, op_lock_run, op_lockt, op_locku,
             io_begin, op_free_stateid, done; repeat break_match; cbn [sr_st]; reflexivity.
  - cbn [op_section]. destruct o; try (unfold done; cbn [sr_st]; reflexivity). unfold op_open_end. repeat break_match; cbn [sr_st]; reflexivity.
  - cbn [op_section sr_st]. reflexivity.
  - cbn [op_section sr_st]. reflexivity.
  - cbn [op_section]. unfold io_end_reg. repeat break_match; cbn [sr_st]; reflexivity.
  - cbn [op_section sr_st]. reflexivity.
Qed.

Lemma enter_scal : forall st,
  scal (fst (enter st)) = (st_clock st, N.max (st_now st) (st_clock st), st_cfg st).
Proof.
  intros st. unfold scal. rewrite enter_now, enter_cfg. unfold enter.
  destruct (expire_list_scalars (st_idle (if st_now st <? st_clock st then set_now st (st_clock st) else st))
                                (if st_now st <? st_clock st then set_now st (st_clock st) else st)) as [_ [_ C]].
  rewrite C. destruct (st_now st <? st_clock st); reflexivity.
Qed.

Lemma empty_and_remove_scal : forall id st, scal (fst (empty_and_remove id st)) = scal st.
Proof. intros id st. destruct (empty_and_remove_scalars id st) as [A [B C]]. unfold scal. congruence. Qed.

Lemma cs_finish_scal : forall cid sq st, scal (fst (cs_finish cid sq st)) = scal st.
Proof. intros. unfold cs_finish, touch. repeat break_match; reflexivity. Qed.

Lemma touch_scal : forall id st, scal (touch id st) = scal st.
Proof. intros. unfold touch. repeat break_match; reflexivity. Qed.

Lemma op_exchange_id_scal : forall o v st, scal (fst (fst (op_exchange_id o v st))) = scal (fst (enter st)).
Proof. intros. unfold op_exchange_id. destruct (enter st) as [st1 outs]. cbn [fst]. repeat break_match; reflexivity. Qed.

Lemma op_create_session_scal : forall c s st, scal (fst (fst (op_create_session c s st))) = scal (fst (enter st)).
Proof.
  intros. unfold op_create_session. destruct (enter st) as [st1 outs]. cbn [fst].
  destruct (find_client c (st_clients st1)) as [cl|]; [|reflexivity].
  destruct (s =? c_seq cl); [reflexivity|]. destruct (s =? (c_seq cl + 1) mod u32); [|reflexivity].
  destruct (find _ (st_clients st1)) as [x|].
  - destruct (0 <? c_hold x); [cbn [fst]; apply touch_scal|].
    pose proof (empty_and_remove_scal (c_id x) st1) as E. destruct (empty_and_remove (c_id x) st1) as [st2 outs2]. cbn [fst] in E.
    pose proof (cs_finish_scal c s st2) as F. destruct (cs_finish c s st2) as [st3 r]. cbn [fst] in *. congruence.
  - pose proof (cs_finish_scal c s st1) as F. destruct (cs_finish c s st1) as [st3 r]. cbn [fst] in *. exact F.
Qed.

Lemma op_destroy_clientid_scal : forall c st, scal (fst (fst (op_destroy_clientid c st))) = scal (fst (enter st)).
Proof. intros. unfold op_destroy_clientid, client_remove. destruct (enter st) as [st1 outs]. cbn [fst]. repeat break_match; reflexivity. Qed.

Lemma op_destroy_session_scal : forall i st, scal (fst (fst (op_destroy_session i st))) = scal (fst (enter st)).
Proof. intros. unfold op_destroy_session. destruct (enter st) as [st1 outs]. cbn [fst]. repeat break_match; reflexivity. Qed.

Definition now_le_clock (st : state) : Prop := st_now st <= st_clock st.

Lemma scal_inv : forall st st', scal st' = scal st -> now_le_clock st -> now_le_clock st'.
Proof. intros st st' E H. unfold scal in E. inversion E. unfold now_le_clock in *. lia. Qed.

Lemma after_enter_inv : forall st st', scal st' = scal (fst (enter st)) -> now_le_clock st -> now_le_clock st'.
Proof.
  intros st st' E H. rewrite enter_scal in E. unfold scal in E. inversion E. unfold now_le_clock in *. lia.
Qed.

Lemma solo_step_clock : forall tid s st, now_le_clock st -> now_le_clock (fst (solo_step tid s st)).
Proof.
  intros tid s st H. destruct s; cbn [solo_step]; try exact H.
  - pose proof (op_exchange_id_scal owner verifier st) as E. destruct (op_exchange_id owner verifier st) as [[st1 o1] r]. cbn [fst] in *. eapply after_enter_inv; eauto.
  - pose proof (op_create_session_scal clientid seq st) as E. destruct (op_create_session clientid seq st) as [[st1 o1] r]. cbn [fst] in *. eapply after_enter_inv; eauto.
  - pose proof (op_destroy_session_scal id st) as E. destruct (op_destroy_session id st) as [[st1 o1] r]. cbn [fst] in *. eapply after_enter_inv; eauto.
  - pose proof (op_destroy_clientid_scal id st) as E. destruct (op_destroy_clientid id st) as [[st1 o1] r]. cbn [fst] in *. eapply after_enter_inv; eauto.
  - unfold op_bind_conn. destruct (negb dir_valid); cbn [fst]; [exact H|].
    pose proof (enter_scal st) as E. destruct (enter st) as [st1 o1]. cbn [fst] in *.
    destruct (find_session id (st_sessions st1)); cbn [fst]; eapply after_enter_inv; eauto; rewrite enter_scal; exact E.
Qed.

Lemma seq_begin_clock : forall tid sess sl sq cache ops st, now_le_clock st ->
  now_le_clock (fst (seq_begin tid sess sl sq cache ops st)).
Proof.
  intros tid sess sl sq cache ops st H. eapply after_enter_inv; [|exact H].
  unfold seq_begin, hold, set_slot. destruct (enter st) as [st1 outs]. cbn [fst]. repeat break_match; reflexivity.
Qed.

Lemma seq_end_clock : forall t st, now_le_clock st -> now_le_clock (fst (seq_end t st)).
Proof.
  intros t st H. eapply after_enter_inv; [|exact H].
  unfold seq_end, release, set_slot. destruct (enter st) as [st1 outs]. cbn [fst]. repeat break_match; reflexivity.
Qed.

Lemma section_clock : forall tid orc st, now_le_clock st -> now_le_clock (fst (fst (section tid orc st))).
Proof.
  intros tid orc st H. unfold section. destruct (find_thread tid (st_threads st)) as [t|]; cbn [fst]; [|exact H].
  destruct (t_ops t) as [|o rest].
  - pose proof (seq_end_clock t st H) as G. destruct (seq_end t st). exact G.
  - destruct (find_client (t_client t) (st_clients st)) as [c|]; cbn [fst]; [|exact H].
    assert (G : now_le_clock (sr_st (op_section o (t_phase t) orc c st (t_cfh t) (t_sfh t)))).
    { destruct (t_phase t) eqn:Hph;
        try (eapply scal_inv; [apply op_section_scal; destruct o; try exact Logic.I; discriminate|exact H]).
      destruct o; try (eapply scal_inv; [apply op_section_scal; exact Logic.I|exact H]); cbn [op_section].
      - pose proof (op_exchange_id_scal owner verifier st) as E. destruct (op_exchange_id _ _ _) as [[st1 o1] r]. cbn [fst sr_st] in *. eapply after_enter_inv; eauto.
      - pose proof (op_create_session_scal clientid seq st) as E. destruct (op_create_session _ _ _) as [[st1 o1] r]. cbn [fst sr_st] in *. eapply after_enter_inv; eauto.
      - pose proof (op_destroy_session_scal id st) as E. destruct (op_destroy_session _ _) as [[st1 o1] r]. cbn [fst sr_st] in *. eapply after_enter_inv; eauto.
      - pose proof (op_destroy_clientid_scal id st) as E. destruct (op_destroy_clientid _ _) as [[st1 o1] r]. cbn [fst sr_st] in *. eapply after_enter_inv; eauto. }
    eapply scal_inv; [|exact G]. reflexivity.
Qed.

Lemma step_clock : forall st e, now_le_clock st -> now_le_clock (fst (step st e)).
Proof.
  intros st e H. destruct e; cbn [step].
  - unfold now_le_clock in *. cbn. lia.
  - apply solo_step_clock; exact H.
  - destruct (tid_used tid st); [exact H|apply seq_begin_clock; exact H].
  - pose proof (section_clock tid orc st H) as G. destruct (section tid orc st) as [[st1 o1] u]. exact G.
Qed.

Theorem reachable_now_le_clock : forall cfg c0 evs, now_le_clock (fst (run (init cfg c0) evs)).
Proof.
  intros cfg c0 evs.
  assert (G : forall evs st, now_le_clock st -> now_le_clock (fst (run st evs))).
  { induction evs0 as [|e tl IH]; intros st H; cbn [run]; [exact H|].
    pose proof (step_clock st e H) as H1. destruct (step st e) as [st1 o1]. cbn [fst] in H1.
    pose proof (IH st1 H1) as H2. destruct (run st1 tl) as [st2 o2]. exact H2. }
  apply G. unfold now_le_clock. cbn. lia.
Qed.

(* In every reachable state enter() discards only incarnations that are not
   held and whose lastSeen + lease lies before the reading of the INJECTED
   CLOCK - the time base of the lease monitor (lm_clock). *)
Theorem reachable_expiry_before_clock : forall cfg c0 evs id c,
  let st := fst (run (init cfg c0) evs) in
  cfind id st = Some c -> cfind id (fst (enter st)) = None ->
  c_hold c = 0 /\ c_seen c + cf_lease (st_cfg st) < st_clock st /\ st_now (fst (enter st)) = st_clock st.
Proof.
  intros cfg c0 evs id c st Hc Hg. destruct (reachable_expiry_only_after_lease cfg c0 evs id c Hc Hg) as [A B].
  pose proof (reachable_now_le_clock cfg c0 evs) as N. fold st in N, B. unfold now_le_clock in N.
  rewrite enter_now in *. split; [exact A|]. split; lia.
Qed.

From VF Require Import Nfs41.Proofs2Monitor.

(* ---- the same, on the dump the monitor sees ---------------------------------- *)
Lemma find_dclient_none : forall id st, find_dclient id (dump_of st) = None -> cfind id st = None.
Proof.
  intros id st H. destruct (cfind id st) as [c|] eqn:Hc; [exfalso|reflexivity].
  assert (Hid : c_id c = id) by (eapply cfind_id; exact Hc).
  assert (Hin : In c (st_clients st)).
  { unfold cfind in Hc. rewrite find_client_k in Hc. apply kfind_some in Hc. tauto. }
  revert H. unfold find_dclient. apply find_some_iff. exists (dump_client c). split.
  - cbn [d_clients dump_of]. apply sort_in. apply in_map. exact Hin.
  - cbn [dc_id dump_client]. apply N.eqb_eq. exact Hid.
Qed.

(* Over all histories, in the monitor's own terms (membership in the dump,
   injected clock): a client record of the dump of a reachable state that is
   absent from the dump after enter() was not held and lastSeen + lease lies
   before the clock reading. *)
Lemma dump_expiry_before_clock : forall cfg c0 evs dc,
  let st := fst (run (init cfg c0) evs) in
  In dc (d_clients (dump_of st)) ->
  find_dclient (dc_id dc) (dump_of (fst (enter st))) = None ->
  dc_hold dc = 0%Z /\ dc_seen dc + cf_lease (st_cfg st) < st_clock st.
Proof.
  intros cfg c0 evs dc st Hin Hgone. cbn [d_clients dump_of] in Hin. apply sort_in in Hin.
  apply in_map_iff in Hin. destruct Hin as [c [Hdc Hc]]. subst dc.
  pose proof (reachable_idle_inv cfg c0 evs) as [_ [_ Hnd]]. fold st in Hnd.
  assert (Hf : cfind (c_id c) st = Some c).
  { unfold cfind. rewrite find_client_k. apply kfind_in_nodup; assumption. }
  apply find_dclient_none in Hgone. cbn [dc_id dump_client] in Hgone.
  destruct (reachable_expiry_before_clock cfg c0 evs (c_id c) c Hf Hgone) as [A [B _]].
  cbn [dc_hold dc_seen dump_client]. rewrite A. cbn. split; [reflexivity|exact B].
Qed.

Lemma find_dclient_some : forall id st c, cfind id st = Some c -> find_dclient id (dump_of st) <> None.
Proof.
  intros id st c Hc H. apply find_dclient_none in H. congruence.
Qed.

(* ... and the client of a compound in flight is still in the dump after
   enter(): nothing the monitor would report as expired during I/O. *)
Lemma dump_inflight_client_survives : forall cfg c0 evs t,
  let st := fst (run (init cfg c0) evs) in
  In t (st_threads st) -> find_dclient (t_client t) (dump_of (fst (enter st))) <> None.
Proof.
  intros cfg c0 evs t st Ht. destruct (inflight_compound_pins_client cfg c0 evs t Ht) as [c [_ [_ K]]].
  eapply find_dclient_some. exact K.
Qed.


(* Soundness of the rule for lease expiry, under the simulation relation
   between the monitor's bookkeeping and a reachable model state:
     the clocks agree; every idle client was last heard of no later than its
     lastSeen; every compound the monitor believes in flight is in flight.
   Then a step that removes no client beyond what enter() expires (any
   request that does not itself destroy / replace a client, e.g. SEQUENCE,
   BIND_CONN_TO_SESSION, a clock advance) is accepted by [lease_check]. *)
Lemma lease_check_sound_for_expiry : forall cfg c0 evs L s st',
  let st := fst (run (init cfg c0) evs) in
  lm_clock L = st_clock st ->
  (forall c, In c (st_clients st) -> c_hold c = 0 -> exists t, heard_of L (c_id c) = Some t /\ t <= c_seen c) ->
  (forall f, In f (lm_fly L) -> exists t, In t (st_threads st) /\ t_client t = ly_client f) ->
  (forall id, cfind id (fst (enter st)) <> None -> cfind id st' <> None) ->
  hs_dump s = dump_of st' ->
  lease_check (cf_lease (st_cfg st)) L (dump_of st) s = ""%string.
Proof.
  intros cfg c0 evs L s st' st Hclk Hheard Hfly Hkeep Hd. unfold lease_check. apply all_ok_ok. intros dc Hin.
  destruct (find_dclient (dc_id dc) (hs_dump s)) eqn:E; [reflexivity|]. rewrite Hd in E.
  cbn [d_clients dump_of] in Hin. apply sort_in in Hin. apply in_map_iff in Hin. destruct Hin as [c [Hdc Hc]]. subst dc.
  cbn [dc_id dc_owner dump_client] in *. apply find_dclient_none in E.
  pose proof (reachable_idle_inv cfg c0 evs) as [_ [_ Hnd]]. fold st in Hnd.
  assert (Hf : cfind (c_id c) st = Some c) by (unfold cfind; rewrite find_client_k; apply kfind_in_nodup; assumption).
  assert (Hgone : cfind (c_id c) (fst (enter st)) = None).
  { destruct (cfind (c_id c) (fst (enter st))) eqn:G; [|reflexivity]. exfalso. apply (Hkeep (c_id c)); [congruence|exact E]. }
  destruct (reachable_expiry_before_clock cfg c0 evs (c_id c) c Hf Hgone) as [A [B _]]. fold st in B.
  destruct (in_flight_of L (c_id c)) eqn:Efl.
  - exfalso. unfold in_flight_of in Efl. apply existsb_exists in Efl. destruct Efl as [f [Hfin Hfc]]. apply N.eqb_eq in Hfc.
    destruct (Hfly f Hfin) as [t [Ht Htc]].
    destruct (inflight_compound_pins_client cfg c0 evs t Ht) as [c1 [_ [_ K]]]. fold st in K. rewrite Htc, Hfc in K. congruence.
  - destruct (mentions_client _ _ _ _); [reflexivity|].
    destruct (Hheard c Hc A) as [t [Ht Hle]]. rewrite Ht. unfold check.
    destruct (t + cf_lease (st_cfg st) <? clock_after L (hs_op s)) eqn:Ecmp; [reflexivity|exfalso].
    apply N.ltb_ge in Ecmp. unfold clock_after in Ecmp. destruct (hs_op s); lia.
Qed.
