(* Identifier invariants of the NFSv4.1 model: client IDs come from the
   injected generator (never reused), every session belongs to a client. *)
From VF Require Import Nfs41.ProofsBase.
Open Scope N_scope.

Definition has_client (id : N) (st : state) : Prop := In id (map c_id (st_clients st)).

Definition side_inv (st : state) : Prop :=
  (forall c, In c (st_clients st) -> c_id c <= st_rng st)
  /\ (forall ss, In ss (st_sessions st) -> has_client (ss_client ss) st).

Lemma has_client_find : forall id st, has_client id st <-> exists c, find_client id (st_clients st) = Some c.
Proof.
  intros id st. unfold has_client. split.
  - intros H. apply in_map_iff in H. destruct H as [c [E Hin]].
    destruct (find_client id (st_clients st)) as [c2|] eqn:Ef; [eauto|].
    exfalso. rewrite find_client_k in Ef. eapply kfind_none in Ef; eauto.
  - intros [c H]. rewrite find_client_k in H. apply kfind_some in H. destruct H as [Hin <-].
    apply in_map. exact Hin.
Qed.

(* ---- states with the same client IDs, sessions and generator ---------------------- *)
Definition ids_frame (st st' : state) : Prop :=
  st_rng st' = st_rng st /\ st_sessions st' = st_sessions st
  /\ map c_id (st_clients st') = map c_id (st_clients st).

Lemma ids_frame_refl : forall st, ids_frame st st.
Proof. intros. repeat split. Qed.

Lemma ids_frame_trans : forall a b c, ids_frame a b -> ids_frame b c -> ids_frame a c.
Proof. intros a b c [A1 [A2 A3]] [B1 [B2 B3]]. repeat split; congruence. Qed.

Lemma side_inv_frame : forall st st', ids_frame st st' -> side_inv st -> side_inv st'.
Proof.
  intros st st' [F1 [F2 F3]] [S1 S2]. split.
  - intros c Hin. rewrite F1.
    assert (In (c_id c) (map c_id (st_clients st))) by (rewrite <- F3; apply in_map; exact Hin).
    apply in_map_iff in H. destruct H as [c0 [E H0]]. rewrite <- E. auto.
  - intros ss Hin. rewrite F2 in Hin. unfold has_client. rewrite F3. apply S2. exact Hin.
Qed.

Ltac ids_same := repeat split;
  cbn [sr_st st_rng st_sessions st_clients set_clients set_idle set_pool set_threads set_sessions set_now
       set_clock set_rng set_nextlo add_panic with_client];
  rewrite ?upd_client_k, ?kupd_keys; reflexivity.

Lemma hold_ids : forall id st, ids_frame st (hold id st).
Proof.
  intros id st. unfold hold. destruct (find_client _ _); [|apply ids_frame_refl].
  destruct (c_hold c =? 0); ids_same.
Qed.

Lemma release_ids : forall id st, ids_frame st (release id st).
Proof.
  intros id st. unfold release. destruct (find_client _ _); [|apply ids_frame_refl].
  destruct (c_hold c =? 0); [ids_same|]. destruct (c_hold c =? 1); ids_same.
Qed.

Lemma touch_ids : forall id st, ids_frame st (touch id st).
Proof.
  intros id st. unfold touch. destruct (find_client _ _); [|apply ids_frame_refl].
  destruct (c_hold c =? 0); [ids_same|apply ids_frame_refl].
Qed.

(* ---- removal of a client together with its sessions ------------------------------- *)
Lemma in_kdel_ids : forall id id2 (l : list client),
  In id2 (map c_id (del_client id l)) <-> In id2 (map c_id l) /\ id2 <> id.
Proof.
  intros id id2 l. rewrite !in_map_iff. split.
  - intros [c [E Hin]]. rewrite del_client_k in Hin. apply (kdel_in c_id) in Hin. destruct Hin as [Hin Hne].
    split; [exists c; auto|congruence].
  - intros [[c [E Hin]] Hne]. exists c. split; [exact E|]. rewrite del_client_k. apply (kdel_in c_id).
    split; [exact Hin|congruence].
Qed.

Lemma client_remove_side : forall id st,
  side_inv st -> (forall ss, In ss (st_sessions st) -> ss_client ss <> id) ->
  side_inv (client_remove id st).
Proof.
  intros id st [S1 S2] Hns. unfold client_remove. destruct (find_client id (st_clients st)); [|split; assumption].
  split.
  - intros c2 Hin. cbn in Hin. rewrite del_client_k in Hin. apply (kdel_in c_id) in Hin. cbn. apply S1. tauto.
  - intros ss Hin. cbn in Hin. unfold has_client. cbn [st_clients set_idle set_clients add_panic].
    apply in_kdel_ids. split; [apply S2; exact Hin|apply Hns; exact Hin].
Qed.

Lemma empty_and_remove_side : forall id st, side_inv st -> side_inv (fst (empty_and_remove id st)).
Proof.
  intros id st S. unfold empty_and_remove. destruct (find_client id (st_clients st)); [|exact S].
  destruct (oofs_remove_all _ _ _) as [[[c1 pool1] outs] pn]. cbn [fst].
  apply client_remove_side.
  - destruct S as [S1 S2]. split.
    + intros c2 Hin. cbn in Hin. cbn.
      assert (In (c_id c2) (map c_id (st_clients st))).
      { rewrite <- (kupd_keys c_id c1). rewrite <- upd_client_k. apply in_map. exact Hin. }
      apply in_map_iff in H. destruct H as [c0 [E H0]]. rewrite <- E. auto.
    + intros ss Hin. cbn in Hin. apply filter_In in Hin. destruct Hin as [Hin _].
      unfold has_client. cbn. rewrite upd_client_k, kupd_keys. apply S2. exact Hin.
  - intros ss Hin. cbn in Hin. apply filter_In in Hin. destruct Hin as [_ Hne].
    apply Bool.negb_true_iff, N.eqb_neq in Hne. exact Hne.
Qed.

Lemma expire_list_side : forall ids st, side_inv st -> side_inv (fst (expire_list ids st)).
Proof.
  induction ids as [|id tl IH]; intros st S; cbn; [exact S|].
  destruct (expired st id); [|exact S].
  pose proof (empty_and_remove_side id st S) as S1. destruct (empty_and_remove id st) as [st1 o1]. cbn [fst] in S1.
  pose proof (IH st1 S1) as S2. destruct (expire_list tl st1) as [st2 o2]. exact S2.
Qed.

Lemma enter_side : forall st, side_inv st -> side_inv (fst (enter st)).
Proof.
  intros st S. unfold enter. apply expire_list_side.
  destruct (st_now st <? st_clock st); [|exact S]. eapply side_inv_frame; [|exact S]. ids_same.
Qed.

Lemma enter_rng : forall st, st_rng (fst (enter st)) = st_rng st.
Proof.
  intros st. unfold enter.
  assert (H : forall ids s, st_rng (fst (expire_list ids s)) = st_rng s).
  { induction ids as [|id tl IH]; intros s; cbn; [reflexivity|].
    destruct (expired s id); [|reflexivity].
    assert (E : st_rng (fst (empty_and_remove id s)) = st_rng s).
    { unfold empty_and_remove. destruct (find_client id (st_clients s)); [|reflexivity].
      destruct (oofs_remove_all _ _ _) as [[[c1 pool1] outs] pn]. cbn [fst].
      unfold client_remove. destruct (find_client _ _); reflexivity. }
    destruct (empty_and_remove id s) as [s1 o1]. cbn [fst] in E. specialize (IH s1).
    destruct (expire_list tl s1) as [s2 o2]. cbn [fst] in *. congruence. }
  rewrite H. destruct (st_now st <? st_clock st); reflexivity.
Qed.

(* ---- EXCHANGE_ID, CREATE_SESSION, DESTROY_* --------------------------------------- *)
Lemma op_exchange_id_side : forall o v st, side_inv st -> side_inv (fst (fst (op_exchange_id o v st))).
Proof.
  intros o v st S. unfold op_exchange_id.
  pose proof (enter_side st S) as S1. destruct (enter st) as [st1 outs]. cbn [fst] in S1.
  destruct (find _ _); cbn [fst]; [exact S1|].
  destruct S1 as [A1 A2]. split.
  - intros c Hin. cbn in Hin. cbn. apply in_app_or in Hin. destruct Hin as [Hin|[<-|[]]].
    + specialize (A1 c Hin). lia.
    + cbn. lia.
  - intros ss Hin. cbn in Hin. unfold has_client. cbn. rewrite map_app. apply in_or_app. left. apply A2. exact Hin.
Qed.

Lemma cs_finish_side : forall cid sq st, side_inv st -> has_client cid st -> side_inv (fst (cs_finish cid sq st)).
Proof.
  intros cid sq st [A1 A2] Hc. unfold cs_finish. cbn [fst].
  eapply side_inv_frame; [apply touch_ids|].
  set (st3 := match find_client cid (st_clients st) with
              | Some c2 => set_clients st (upd_client (c_set_confirmed c2 true) (st_clients st))
              | None => st end).
  assert (F3 : ids_frame st st3) by (subst st3; destruct (find_client _ _); [ids_same|apply ids_frame_refl]).
  assert (S3 : side_inv st3) by (eapply side_inv_frame; [exact F3|split; assumption]).
  assert (Hc3 : has_client cid st3) by (unfold has_client; destruct F3 as [_ [_ F]]; rewrite F; exact Hc).
  destruct S3 as [B1 B2].
  set (st4 := set_sessions (set_rng st3 (st_rng st3 + 1))
                (mkSession (st_rng st3 + 1) cid (fresh_slots (cf_slots (st_cfg st3))) :: st_sessions st3)).
  assert (S4 : side_inv st4).
  { split.
    - intros c Hin. cbn in Hin. cbn. specialize (B1 c Hin). lia.
    - intros ss Hin. cbn in Hin. unfold has_client. cbn [st_clients set_sessions set_rng].
      destruct Hin as [<-|Hin]; [exact Hc3|apply B2; exact Hin]. }
  match goal with |- side_inv (match ?x with _ => _ end) => destruct x end.
  - eapply side_inv_frame; [|exact S4]. ids_same.
  - exact S4.
Qed.

Lemma op_create_session_side : forall c s st, side_inv st -> side_inv (fst (fst (op_create_session c s st))).
Proof.
  intros c s st S. unfold op_create_session.
  pose proof (enter_side st S) as S1. destruct (enter st) as [st1 outs]. cbn [fst] in S1.
  destruct (find_client c (st_clients st1)) as [cl|] eqn:Ef; cbn [fst]; [|exact S1].
  destruct (s =? c_seq cl); cbn [fst]; [exact S1|].
  destruct (s =? _); cbn [fst]; [|exact S1].
  assert (Hc : has_client c st1) by (apply has_client_find; eauto).
  destruct (find _ _) as [x|] eqn:Ex.
  - destruct (0 <? c_hold x); cbn [fst].
    + eapply side_inv_frame; [apply touch_ids|exact S1].
    + pose proof (empty_and_remove_side (c_id x) st1 S1) as S2.
      assert (Hc2 : has_client c (fst (empty_and_remove (c_id x) st1))).
      { apply find_some in Ex. destruct Ex as [Hxin Hp]. apply Bool.andb_true_iff in Hp. destruct Hp as [_ Hne].
        apply Bool.negb_true_iff, N.eqb_neq in Hne.
        unfold empty_and_remove. destruct (find_client (c_id x) (st_clients st1)) as [cx|] eqn:Efx; [|exact Hc].
        destruct (oofs_remove_all _ _ _) as [[[c1 pool1] o1] pn]. cbn [fst].
        unfold client_remove. cbn [st_clients set_sessions add_panic set_pool set_clients].
        destruct (find_client (c_id x) (upd_client c1 (st_clients st1))).
        - unfold has_client. cbn [st_clients set_idle set_clients add_panic]. apply in_kdel_ids.
          split; [rewrite upd_client_k, kupd_keys; exact Hc|congruence].
        - unfold has_client. cbn. rewrite upd_client_k, kupd_keys. exact Hc. }
      destruct (empty_and_remove (c_id x) st1) as [st2 o2]. cbn [fst] in *.
      pose proof (cs_finish_side c s st2 S2 Hc2) as S3. destruct (cs_finish c s st2) as [st3 r]. exact S3.
  - pose proof (cs_finish_side c s st1 S1 Hc) as S3. destruct (cs_finish c s st1) as [st3 r]. exact S3.
Qed.

Lemma op_destroy_clientid_side : forall c st, side_inv st -> side_inv (fst (fst (op_destroy_clientid c st))).
Proof.
  intros c st S. unfold op_destroy_clientid.
  pose proof (enter_side st S) as S1. destruct (enter st) as [st1 outs]. cbn [fst] in S1.
  destruct (find_client _ _); cbn [fst]; [|exact S1].
  destruct (negb (c_hold c0 =? 0) || existsb of_live (c_oofs c0)) eqn:E1; cbn [orb fst]; [exact S1|].
  destruct (existsb (fun s => ss_client s =? c) (st_sessions st1)) eqn:E2; cbn [fst]; [exact S1|].
  apply client_remove_side; [exact S1|].
  intros ss Hin Heq. assert (existsb (fun s => ss_client s =? c) (st_sessions st1) = true).
  { apply existsb_exists. exists ss. split; [exact Hin|]. apply N.eqb_eq. exact Heq. }
  congruence.
Qed.

Lemma op_destroy_session_side : forall i st, side_inv st -> side_inv (fst (fst (op_destroy_session i st))).
Proof.
  intros i st S. unfold op_destroy_session.
  pose proof (enter_side st S) as S1. destruct (enter st) as [st1 outs]. cbn [fst] in S1.
  destruct (find_session _ _); cbn [fst]; [|exact S1].
  destruct S1 as [A1 A2]. split; [exact A1|].
  intros ss Hin. cbn in Hin. unfold del_session in Hin. apply filter_In in Hin. destruct Hin as [Hin _].
  exact (A2 ss Hin).
Qed.

Lemma op_bind_conn_side : forall i d st, side_inv st -> side_inv (fst (fst (op_bind_conn i d st))).
Proof.
  intros i d st S. unfold op_bind_conn. destruct (negb d); cbn [fst]; [exact S|].
  pose proof (enter_side st S) as S1. destruct (enter st) as [st1 outs]. cbn [fst] in S1.
  destruct (find_session _ _); exact S1.
Qed.

Lemma solo_step_side : forall tid s st, side_inv st -> side_inv (fst (solo_step tid s st)).
Proof.
  intros tid s st S. destruct s; cbn [solo_step]; try exact S.
  - pose proof (op_exchange_id_side owner verifier st S) as F. destruct (op_exchange_id _ _ _) as [[st1 outs] r]. exact F.
  - pose proof (op_create_session_side clientid seq st S) as F. destruct (op_create_session _ _ _) as [[st1 outs] r]. exact F.
  - pose proof (op_destroy_session_side id st S) as F. destruct (op_destroy_session _ _) as [[st1 outs] r]. exact F.
  - pose proof (op_destroy_clientid_side id st S) as F. destruct (op_destroy_clientid _ _) as [[st1 outs] r]. exact F.
  - pose proof (op_bind_conn_side id dir_valid st S) as F. destruct (op_bind_conn _ _ _) as [[st1 outs] r]. exact F.
Qed.

(* ---- operations under cis.lock: IDs, sessions and generator untouched ------------- *)
Ltac ids_leaves := repeat break_match; try ids_same; try apply ids_frame_refl.

Lemma op_section_ids : forall o ph orc c st cfh sfh,
  match o with
  | OExchangeId _ _ | OCreateSession _ _ | ODestroySession _ | ODestroyClientid _ => ph <> PhNone
  | _ => True
  end ->
  ids_frame st (sr_st (op_section o ph orc c st cfh sfh)).
Proof.
  intros o ph orc c st cfh sfh Hs. destruct ph.
  - destruct o; cbn [op_section]; try (exfalso; apply Hs; reflexivity);
      unfold op_open_begin, op_open_downgrade, op_close, op_lock, op_lock_run, op_lockt, op_locku,
             io_begin, op_free_stateid, done; ids_leaves.
  - cbn [op_section]. destruct o; try (unfold done; ids_same). unfold op_open_end. ids_leaves.
  - cbn [op_section]. ids_same.
  - cbn [op_section]. ids_same.
  - cbn [op_section]. unfold io_end_reg. ids_leaves.
  - cbn [op_section]. ids_same.
Qed.
