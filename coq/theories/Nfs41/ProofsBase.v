(* Tactics and list lemmas shared by the proofs about the NFSv4.1 model. *)
From VF Require Export Nfs41.Model.
From Coq Require Export Lia.
Open Scope N_scope.

(* Destruct the scrutinee of the first match / if / let-pattern in the goal. *)
Ltac break_match :=
  match goal with
  | |- context [match ?x with _ => _ end] =>
    lazymatch x with
    | context [match _ with _ => _ end] => fail
    | _ => destruct x eqn:?
    end
  end.

Ltac break_match_hyp H :=
  match type of H with
  | context [match ?x with _ => _ end] =>
    lazymatch x with
    | context [match _ with _ => _ end] => fail
    | _ => destruct x eqn:?
    end
  end.

Ltac inv H := inversion H; subst; clear H.

(* ---- find / map / filter on keyed lists ---------------------------------- *)
Section Keyed.
  Context {A : Type} (key : A -> N).

  Definition kfind (k : N) (l : list A) := find (fun x => key x =? k) l.
  Definition kupd (x' : A) (l : list A) := map (fun x => if key x =? key x' then x' else x) l.
  Definition kdel (k : N) (l : list A) := filter (fun x => negb (key x =? k)) l.

  Lemma kfind_some : forall k l x, kfind k l = Some x -> In x l /\ key x = k.
  Proof.
    intros k l x H. unfold kfind in H. apply find_some in H. destruct H as [H1 H2].
    apply N.eqb_eq in H2. auto.
  Qed.

  Lemma kfind_none : forall k l, kfind k l = None -> forall x, In x l -> key x <> k.
  Proof.
    intros k l H x Hin Hk. unfold kfind in H.
    eapply find_none in H; eauto. cbn in H. apply N.eqb_neq in H. contradiction.
  Qed.

  Lemma kfind_app : forall k l1 l2,
    kfind k (l1 ++ l2) = match kfind k l1 with Some x => Some x | None => kfind k l2 end.
  Proof.
    intros k l1 l2. unfold kfind. induction l1 as [|x l1 IH]; [reflexivity|].
    cbn. destruct (key x =? k); [reflexivity|exact IH].
  Qed.

  Lemma kfind_in_nodup : forall l x, NoDup (map key l) -> In x l -> kfind (key x) l = Some x.
  Proof.
    induction l as [|y l IH]; intros x Hnd Hin; [contradiction|].
    cbn in Hnd. inversion Hnd as [|? ? Hni Hnd']; subst.
    unfold kfind. cbn. destruct Hin as [->|Hin].
    - rewrite N.eqb_refl. reflexivity.
    - destruct (key y =? key x) eqn:E.
      + apply N.eqb_eq in E. exfalso. apply Hni. rewrite E. apply in_map. exact Hin.
      + apply IH; assumption.
  Qed.

  Lemma kupd_keys : forall x' l, map key (kupd x' l) = map key l.
  Proof.
    intros x' l. unfold kupd. induction l as [|x l IH]; [reflexivity|].
    cbn. rewrite IH. destruct (key x =? key x') eqn:E; [|reflexivity].
    apply N.eqb_eq in E. rewrite E. reflexivity.
  Qed.

  Lemma kfind_kupd_same : forall x' l x, kfind (key x') l = Some x -> kfind (key x') (kupd x' l) = Some x'.
  Proof.
    intros x' l x. unfold kfind, kupd. induction l as [|y l IH]; intros H; [discriminate|].
    cbn in *. destruct (key y =? key x') eqn:E.
    - rewrite N.eqb_refl. reflexivity.
    - rewrite E. apply IH. exact H.
  Qed.

  Lemma kfind_kupd_other : forall x' l k, k <> key x' -> kfind k (kupd x' l) = kfind k l.
  Proof.
    intros x' l k Hk. unfold kfind, kupd. induction l as [|y l IH]; [reflexivity|].
    cbn. destruct (key y =? key x') eqn:E.
    - apply N.eqb_eq in E. assert (key x' =? k = false) by (apply N.eqb_neq; congruence).
      assert (key y =? k = false) by (apply N.eqb_neq; congruence).
      rewrite H, H0. exact IH.
    - destruct (key y =? k); [reflexivity|exact IH].
  Qed.

  Lemma kupd_in : forall x' l y, In y (kupd x' l) -> y = x' \/ (In y l /\ key y <> key x').
  Proof.
    intros x' l y. unfold kupd. rewrite in_map_iff. intros [x [Hx Hin]].
    destruct (key x =? key x') eqn:E.
    - left. auto.
    - right. subst y. split; [exact Hin|]. apply N.eqb_neq. exact E.
  Qed.

  Lemma kdel_in : forall k l y, In y (kdel k l) <-> In y l /\ key y <> k.
  Proof.
    intros k l y. unfold kdel. rewrite filter_In. rewrite Bool.negb_true_iff, N.eqb_neq. tauto.
  Qed.

  Lemma kfind_kdel_same : forall k l, kfind k (kdel k l) = None.
  Proof.
    intros k l. unfold kfind, kdel. induction l as [|x l IH]; [reflexivity|].
    cbn. destruct (key x =? k) eqn:E; cbn; [exact IH|]. rewrite E. exact IH.
  Qed.

  Lemma kfind_kdel_other : forall k k' l, k <> k' -> kfind k (kdel k' l) = kfind k l.
  Proof.
    intros k k' l Hk. unfold kfind, kdel. induction l as [|x l IH]; [reflexivity|].
    cbn. destruct (key x =? k') eqn:E; cbn.
    - apply N.eqb_eq in E. assert (key x =? k = false) by (apply N.eqb_neq; congruence).
      rewrite H. exact IH.
    - destruct (key x =? k); [reflexivity|exact IH].
  Qed.

  Lemma kdel_nodup : forall k l, NoDup (map key l) -> NoDup (map key (kdel k l)).
  Proof.
    intros k l. unfold kdel. induction l as [|x l IH]; intros H; [constructor|].
    cbn in H. inversion H as [|? ? Hni Hnd]; subst. cbn.
    destruct (negb (key x =? k)); [|auto]. cbn. constructor; [|auto].
    intros Hin. apply Hni. apply in_map_iff in Hin. destruct Hin as [y [Hy Hin]].
    apply filter_In in Hin. rewrite <- Hy. apply in_map. tauto.
  Qed.
End Keyed.

(* The model's lookup functions are instances. *)
Lemma find_client_k : forall id l, find_client id l = kfind c_id id l. Proof. reflexivity. Qed.
Lemma upd_client_k : forall c l, upd_client c l = kupd c_id c l. Proof. reflexivity. Qed.
Lemma del_client_k : forall id l, del_client id l = kdel c_id id l. Proof. reflexivity. Qed.
Lemma find_thread_k : forall id l, find_thread id l = kfind t_id id l. Proof. reflexivity. Qed.
Lemma upd_thread_k : forall t l, upd_thread t l = kupd t_id t l. Proof. reflexivity. Qed.
Lemma del_thread_k : forall id l, del_thread id l = kdel t_id id l. Proof. reflexivity. Qed.
Lemma find_session_k : forall id l, find_session id l = kfind ss_id id l. Proof. reflexivity. Qed.
Lemma upd_session_k : forall s l, upd_session s l = kupd ss_id s l. Proof. reflexivity. Qed.
Lemma del_session_k : forall id l, del_session id l = kdel ss_id id l. Proof. reflexivity. Qed.
Lemma find_pfile_k : forall h l, find_pfile h l = kfind pf_handle h l. Proof. reflexivity. Qed.
Lemma upd_pfile_k : forall p l, upd_pfile p l = kupd pf_handle p l. Proof. reflexivity. Qed.
Lemma del_pfile_k : forall h l, del_pfile h l = kdel pf_handle h l. Proof. reflexivity. Qed.

Lemma NoDup_snoc : forall {A} (l : list A) x, NoDup l -> ~ In x l -> NoDup (l ++ [x]).
Proof.
  intros A l x Hnd Hni. induction l as [|y l IH]; cbn.
  - constructor; [intros []|constructor].
  - inversion Hnd as [|? ? Hy Hl]; subst. constructor.
    + intros Hin. apply in_app_or in Hin. destruct Hin as [Hin|[<-|[]]]; [contradiction|].
      apply Hni. left. reflexivity.
    + apply IH; [exact Hl|]. intros Hin. apply Hni. right. exact Hin.
Qed.
