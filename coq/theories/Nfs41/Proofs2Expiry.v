(* C20: lease expiry / CREATE_SESSION replacing an incarnation
   (clientIncarnationState.emptyAndRemove) releases exactly the ranges of
   the lock-owner objects of that client, on every file -- all other entries
   of every lock table stay, in the same order. *)
From Coq Require Import Lia ZifyBool ZifyN.
From VF Require Export Nfs41.Proofs2NoPanic.
Open Scope N_scope.

(* ---- one live open-owner file per handle when useCount <= 1 (views) ------------------------------ *)
Lemma only_live_voof : forall cls h c1 o1 c2 o2,
  NoDup (map vc_id cls) -> (forall c, In c cls -> NoDup (map vo_other (vc_oofs c))) ->
  (v_use cls h <= 1)%Z ->
  In c1 cls -> In o1 (vc_oofs c1) -> lh h o1 = true ->
  In c2 cls -> In o2 (vc_oofs c2) -> lh h o2 = true ->
  c2 = c1 /\ o2 = o1.
Proof.
  intros cls h c1 o1 c2 o2 Hnd Hoo Hle H1 Ho1 P1 H2 Ho2 P2.
  assert (Hnn : forall y, In y cls -> (0 <= v_live_on h y)%Z) by (intros; apply countz_nonneg).
  assert (F1 : (1 <= v_live_on h c1)%Z) by (eapply countz_pos_in; eauto).
  assert (F2 : (1 <= v_live_on h c2)%Z) by (eapply countz_pos_in; eauto).
  destruct (N.eq_dec (vc_id c2) (vc_id c1)) as [Eid|Nid].
  - assert (c2 = c1) by (eapply (nodup_key_eq vc_id); eauto). subst c2. split; [reflexivity|].
    destruct (N.eq_dec (vo_other o2) (vo_other o1)) as [Eo|No].
    + eapply (nodup_key_eq vo_other); [apply Hoo; exact H1| | |]; eauto.
    + exfalso. assert (o1 <> o2) by congruence.
      pose proof (countz_two (lh h) (vc_oofs c1) o1 o2 Ho1 Ho2 H P1 P2) as H3.
      pose proof (sumz_in_le (v_live_on h) cls c1 Hnn H1). unfold v_use in Hle. unfold v_live_on in H0 at 1. lia.
  - exfalso. assert (c1 <> c2) by congruence.
    pose proof (sumz_two (v_live_on h) cls c1 c2 Hnn H1 H2 H). unfold v_use in Hle. lia.
Qed.

(* ---- oofs.remove against a view: the tables ---------------------------------------------------------- *)
Lemma oofs_remove_rc_tables : forall v c o c1 pool1 outs pn,
  rc v c -> In o (c_oofs c) -> of_live o = true ->
  oofs_remove o c (v_pool v) = (c1, pool1, outs, pn) ->
  forall h', pool_locks h' pool1
             = if h' =? of_handle o then filter (not_of (of_lofs o)) (pool_locks h' (v_pool v))
               else pool_locks h' (v_pool v).
Proof.
  intros [cls pool nextlo] c o c1 pool1 outs pn [Li [Hfc [Hoo [Hln Hsh]]]] Ho Hlive H. cbn [v_pool v_cls v_nextlo] in *.
  pose proof Li as [W [P [L [T [Ns [E O]]]]]].
  assert (Hvc : In (vc c) cls) by (eapply kfind_in; eauto).
  assert (Hvo : In (vo o) (map vo (c_oofs c))) by (apply in_map; exact Ho).
  destruct (Hsh o Ho) as [K [HK HS]].
  assert (HS' : forall b, Z.of_N (cnt b o) = (b2z (bit b (of_share o)) + lofs_bits b (of_lofs o) + K b)%Z).
  { intros b. rewrite (HS b), Hlive. reflexivity. }
  pose proof L as [_ [_ [_ LL]]]. destruct (LL (vc c) Hvc) as [C1 [_ [C3 C4]]]. cbn [vc vc_lows vc_oofs] in C1, C3, C4.
  assert (Hown : NoDup (map lf_owner (of_lofs o))).
  { specialize (C4 (vo o) Hvo). cbn [vo vo_lofs] in C4. rewrite map_map in C4. exact C4. }
  assert (Hreg : forall lf, In lf (of_lofs o) -> exists x, find_lowner_id (lf_owner lf) (c_lowners c) = Some x /\ 0 < lo_files x).
  { intros lf Hlf. destruct (lof_registered (vc c) (vo o) (vl lf) (LL (vc c) Hvc) Hvo) as [x [Hx _]];
      [cbn; apply in_map; exact Hlf|]. cbn [vc vc_lows vl vl_owner] in Hx. exists x. split; [exact Hx|].
    specialize (C3 (lf_owner lf)). rewrite Hx in C3. lia. }
  assert (Hcnt : forall lf, In lf (of_lofs o) -> tcnt (lf_owner lf) (pool_locks (of_handle o) pool) = lf_count lf).
  { intros lf Hlf. apply (E (c_id c) (of_other o) (lf_other lf) (of_handle o) (lf_owner lf) (lf_count lf)).
    exists (vc c), (vo o), (vl lf). cbn. repeat split; auto. apply in_map. exact Hlf. }
  assert (Hge : forall b, (lofs_bits b (of_lofs o) <= Z.of_N (cnt b o))%Z).
  { intros b. rewrite (HS' b). pose proof (b2z_01 (bit b (of_share o))). specialize (HK b). lia. }
  destruct (T (of_handle o)) as [Hwf Hbd]. cbn [v_pool] in Hwf, Hbd.
  set (h := of_handle o) in *.
  unfold oofs_remove in H.
  destruct (lofs_remove_all true (of_lofs o) o (c_lowners c) pool) as [[[[o1 lows] pool0] outs1] pn1] eqn:Er.
  destruct (oofs_downgrade o1 (of_share o1) m0) as [[o2 outs2] pn2] eqn:Ed.
  destruct (pool_close (of_handle o) pool0) as [pool2 pn3] eqn:Ec.
  inversion H; subst. clear H.
  destruct (lofs_remove_all_close _ _ _ _ _ _ _ _ _ Er eq_refl (Hln o Ho) Hown Hge C1 Hreg Hwf Hbd Hcnt) as [_ [Hpl Hpm]].
  intros h'. assert (Epool2 : pool1 = fst (pool_close h pool0)) by (fold h in Ec; rewrite Ec; reflexivity).
  destruct (Hpm h) as [_ Hu0].
  rewrite Epool2, pool_locks_close, Hpl, Hu0. change (of_handle o) with h.
  destruct (h' =? h) eqn:Eh; cbn [andb]; [|reflexivity]. apply N.eqb_eq in Eh. subst h'.
  destruct (puse h pool <=? 1) eqn:Eu; [|reflexivity].
  apply N.leb_le in Eu. symmetry.
  destruct (filter (not_of (of_lofs o)) (pool_locks h pool)) as [|k rest] eqn:Ef; [reflexivity|]. exfalso.
  assert (Hk : In k (filter (not_of (of_lofs o)) (pool_locks h pool))) by (rewrite Ef; left; reflexivity).
  apply filter_In in Hk. destruct Hk as [Hk Hno].
  assert (Hp : (0 < tcount h (LS.lowner k) pool)%Z).
  { unfold tcount, tcnt. pose proof (countz_pos_in (mine (LS.lowner k)) _ k Hk) as H1. unfold mine in H1 at 1.
    rewrite N.eqb_refl in H1. specialize (H1 eq_refl). lia. }
  destruct (O h (LS.lowner k) Hp) as [cid [oo [lo [cnt0 [cx [ox [lx [A1 [A2 [A3 [A4 [A5 [A6 [A7 [A8 A9]]]]]]]]]]]]]]].
  cbn [v_cls] in A1.
  assert (Hlx : vo_live ox = true).
  { destruct W as [_ W2]. destruct (W2 cx A1) as [_ N2]. destruct (N2 ox A2) as [_ D].
    destruct (vo_live ox); [reflexivity|]. rewrite (D eq_refl) in A3. destruct A3. }
  assert (Hone : (v_use cls h <= 1)%Z) by (destruct (proj2 P h) as [U _]; cbn [v_cls v_pool] in U; lia).
  destruct (only_live_voof cls h (vc c) (vo o) cx ox (proj1 W) (fun c' Hc' => proj1 (proj2 W c' Hc')) Hone Hvc Hvo) as [-> ->]; auto.
  - unfold lh. cbn [vo vo_live vo_handle]. rewrite Hlive. apply N.eqb_refl.
  - unfold lh. rewrite Hlx, A7. apply N.eqb_refl.
  - cbn [vo vo_lofs] in A3. apply in_map_iff in A3. destruct A3 as [lf0 [<- Hlf0]]. cbn [vl vl_owner] in A8.
    unfold not_of in Hno. apply Bool.negb_true_iff in Hno.
    assert (Hex : existsb (fun lf => lf_owner lf =? LS.lowner k) (of_lofs o) = true).
    { apply existsb_exists. exists lf0. split; [exact Hlf0|]. apply N.eqb_eq. exact A8. }
    congruence.
Qed.

(* ---- all open-owner files of a client ------------------------------------------------------------------ *)
(* Lock-owner objects whose lock-owner files sit on live open-owner files of
   [c] on handle [h] among those named in [others]. *)
Definition removed_on (c : client) (others : list N) (h : N) : list N :=
  flat_map (fun o => if of_live o && (of_handle o =? h) && existsb (N.eqb (of_other o)) others
                     then map lf_owner (of_lofs o) else []) (c_oofs c).
Definition not_owned (ids : list N) (k : LS.lock) : bool := negb (existsb (N.eqb (LS.lowner k)) ids).

Lemma removed_on_in : forall c others h id,
  In id (removed_on c others h) <->
  exists o lf, In o (c_oofs c) /\ of_live o = true /\ of_handle o = h /\ In (of_other o) others
               /\ In lf (of_lofs o) /\ lf_owner lf = id.
Proof.
  intros c others h id. unfold removed_on. rewrite in_flat_map. split.
  - intros [o [Ho Hin]]. destruct (of_live o && (of_handle o =? h) && existsb (N.eqb (of_other o)) others) eqn:E; [|destruct Hin].
    apply Bool.andb_true_iff in E. destruct E as [E E3]. apply Bool.andb_true_iff in E. destruct E as [E1 E2].
    apply N.eqb_eq in E2. apply existsb_exists in E3. destruct E3 as [y [Hy Ey]]. apply N.eqb_eq in Ey. subst y.
    apply in_map_iff in Hin. destruct Hin as [lf [El Hlf]]. exists o, lf. repeat split; assumption.
  - intros [o [lf [Ho [Hl [Hh [Hot [Hlf El]]]]]]]. exists o. split; [exact Ho|].
    assert (E : of_live o && (of_handle o =? h) && existsb (N.eqb (of_other o)) others = true).
    { rewrite Hl. apply N.eqb_eq in Hh. rewrite Hh. cbn [andb]. apply existsb_exists. exists (of_other o).
      split; [exact Hot|apply N.eqb_refl]. }
    rewrite E. apply in_map_iff. exists lf. auto.
Qed.

Lemma not_owned_ext : forall ids ids' k, (forall id, In id ids <-> In id ids') -> not_owned ids k = not_owned ids' k.
Proof.
  intros ids ids' k H. unfold not_owned. f_equal. apply Bool.eq_iff_eq_true. rewrite !existsb_exists. split.
  - intros [y [Hy E]]. exists y. split; [apply H; exact Hy|exact E].
  - intros [y [Hy E]]. exists y. split; [apply H; exact Hy|exact E].
Qed.

Lemma not_owned_in : forall ids k, not_owned ids k = false <-> In (LS.lowner k) ids.
Proof.
  intros ids k. unfold not_owned. rewrite Bool.negb_false_iff, existsb_exists. split.
  - intros [y [Hy E]]. apply N.eqb_eq in E. subst y. exact Hy.
  - intros H. exists (LS.lowner k). split; [exact H|apply N.eqb_refl].
Qed.

Lemma oofs_remove_all_tables : forall others v c c1 pool1 outs pn,
  rc v c -> oofs_remove_all others c (v_pool v) = (c1, pool1, outs, pn) ->
  forall h, pool_locks h pool1 = filter (not_owned (removed_on c others h)) (pool_locks h (v_pool v)).
Proof.
  induction others as [|x tl IH]; intros v c c1 pool1 outs pn R H h.
  - cbn in H. inversion H; subst. symmetry.
    assert (Hnil : removed_on c1 [] h = []).
    { destruct (removed_on c1 [] h) as [|id l] eqn:E; [reflexivity|]. exfalso.
      assert (Hin : In id (removed_on c1 [] h)) by (rewrite E; left; reflexivity).
      apply removed_on_in in Hin. destruct Hin as [o [lf [_ [_ [_ [[] _]]]]]]. }
    rewrite Hnil. clear. induction (pool_locks h (v_pool v)) as [|k l IHl]; [reflexivity|]. cbn. f_equal. exact IHl.
  - cbn [oofs_remove_all] in H. pose proof R as [_ [_ [Hoo _]]].
    destruct (find_oofs x (c_oofs c)) as [o|] eqn:Ef.
    + destruct (oofs_remove o c (v_pool v)) as [[[c2 pool2] outs1] pn1] eqn:Er.
      destruct (oofs_remove_all tl c2 pool2) as [[[c3 pool3] outs2] pn2] eqn:Er2.
      inversion H; subst c3 pool3 outs pn; clear H.
      destruct (find_oofs_any_of_live _ _ _ Hoo Ef) as [Hfo Hlive].
      assert (Ho : In o (c_oofs c)) by (rewrite find_oofs_any_k in Hfo; eapply kfind_in; eauto).
      assert (Hox : of_other o = x) by (rewrite find_oofs_any_k in Hfo; eapply kfind_key; eauto).
      destruct (oofs_remove_rc v c o c2 pool2 outs1 pn1 R Ho Hlive Er) as [_ [R2 [_ [_ [o3 [Q1 [Q2 Q3]]]]]]].
      pose proof (oofs_remove_rc_tables v c o c2 pool2 outs1 pn1 R Ho Hlive Er h) as Ht.
      set (v2 := mkV (kupd vc_id (vc c2) (v_cls v)) pool2 (v_nextlo v)) in *.
      rewrite (IH v2 c2 c1 pool1 outs2 pn2 R2 Er2 h). cbn [v2 v_pool]. rewrite Ht.
      (* membership in the removed set *)
      assert (Hmem : forall id, In id (removed_on c (x :: tl) h) <->
                ((of_handle o = h /\ exists lf, In lf (of_lofs o) /\ lf_owner lf = id) \/ In id (removed_on c2 tl h))).
      { intros id. rewrite !removed_on_in. split.
        - intros [o' [lf [Ho' [Hl' [Hh' [Hot [Hlf El]]]]]]].
          destruct (N.eq_dec (of_other o') x) as [Ex|Nx].
          + assert (o' = o) by (eapply (nodup_key_eq of_other); eauto; congruence). subst o'. left. eauto.
          + right. exists o', lf. destruct Hot as [Hx|Hot]; [congruence|].
            repeat split; auto. rewrite Q1, upd_oofs_k. unfold kupd. apply in_map_iff. exists o'. split; [|exact Ho'].
            assert (E : of_other o' =? of_other o3 = false) by (apply N.eqb_neq; congruence). rewrite E. reflexivity.
        - intros [[Hh' [lf [Hlf El]]]|[o' [lf [Ho' [Hl' [Hh' [Hot [Hlf El]]]]]]]].
          + exists o, lf. repeat split; auto. left. auto.
          + rewrite Q1, upd_oofs_k in Ho'. apply (kupd_in of_other) in Ho'. destruct Ho' as [->|[Ho' _]]; [congruence|].
            exists o', lf. repeat split; auto. right. exact Hot. }
      destruct (h =? of_handle o) eqn:Eh.
      * apply N.eqb_eq in Eh. rewrite filter_filter. apply filter_ext. intros k.
        destruct (not_owned (removed_on c (x :: tl) h) k) eqn:E1.
        -- apply Bool.andb_true_iff. split.
           ++ unfold not_of. apply Bool.negb_true_iff. destruct (existsb _ (of_lofs o)) eqn:E2; [|reflexivity]. exfalso.
              apply existsb_exists in E2. destruct E2 as [lf [Hlf El]]. apply N.eqb_eq in El.
              assert (Hin : In (LS.lowner k) (removed_on c (x :: tl) h)) by (apply Hmem; left; split; [congruence|eauto]).
              apply not_owned_in in Hin. congruence.
           ++ destruct (not_owned (removed_on c2 tl h) k) eqn:E2; [reflexivity|]. exfalso.
              apply not_owned_in in E2. assert (Hin : In (LS.lowner k) (removed_on c (x :: tl) h)) by (apply Hmem; right; exact E2).
              apply not_owned_in in Hin. congruence.
        -- apply not_owned_in in E1. apply Hmem in E1. destruct E1 as [[_ [lf [Hlf El]]]|E1].
           ++ assert (E2 : not_of (of_lofs o) k = false).
              { unfold not_of. apply Bool.negb_false_iff. apply existsb_exists. exists lf. split; [exact Hlf|]. apply N.eqb_eq. exact El. }
              rewrite E2. reflexivity.
           ++ apply not_owned_in in E1. rewrite E1. apply Bool.andb_false_r.
      * apply filter_ext. intros k. apply not_owned_ext. intros id. rewrite Hmem. apply N.eqb_neq in Eh. split.
        -- intros H1. right. exact H1.
        -- intros [[Hh' _]|H1]; [congruence|exact H1].
    + rewrite (IH v c c1 pool1 outs pn R H h). apply filter_ext. intros k. apply not_owned_ext. intros id.
      rewrite !removed_on_in. split.
      * intros [o' [lf [Ho' [Hl' [Hh' [Hot [Hlf El]]]]]]]. exists o', lf. repeat split; auto. right. exact Hot.
      * intros [o' [lf [Ho' [Hl' [Hh' [Hot [Hlf El]]]]]]]. exists o', lf. repeat split; auto.
        destruct Hot as [Hx|Hot]; [|exact Hot]. exfalso.
        unfold find_oofs in Ef. eapply find_none in Ef; [|exact Ho']. cbn in Ef. rewrite Hl', <- Hx, N.eqb_refl in Ef. discriminate.
Qed.

(* ---- emptyAndRemove ---------------------------------------------------------------------------------------- *)
(* Entries not owned by a lock-owner object of client [c]. *)
Definition not_of_client (c : client) (k : LS.lock) : bool :=
  negb (existsb (fun x => lo_id x =? LS.lowner k) (c_lowners c)).

Lemma client_remove_pool : forall id s, st_pool (client_remove id s) = st_pool s.
Proof. intros. unfold client_remove. destruct (find_client id (st_clients s)); reflexivity. Qed.

Lemma empty_and_remove_tables_inv : forall st, acct_inv st -> linv (view st) ->
  forall id c, find_client id (st_clients st) = Some c ->
  forall h, pool_locks h (st_pool (fst (empty_and_remove id st)))
            = filter (not_of_client c) (pool_locks h (st_pool st)).
Proof.
  intros st I Li id c Hf h.
  assert (Hcin : In c (st_clients st)) by (rewrite find_client_k in Hf; eapply kfind_in; eauto).
  pose proof (find_client_id _ _ _ Hf) as Hcid.
  unfold empty_and_remove. rewrite Hf.
  destruct (oofs_remove_all (live_others c) c (st_pool st)) as [[[c1 pool1] outs] pn] eqn:Er. cbn [fst].
  pose proof (oofs_remove_all_tables _ (view st) c c1 pool1 outs pn (acct_rc st c I Li Hcin) Er h) as Ht.
  cbn [view v_pool] in Ht.
  rewrite client_remove_pool. cbn [st_pool set_sessions add_panic set_pool].
  rewrite Ht. apply filter_ext_in. intros k Hk.
  (* owned by the client <-> by one of its lock-owner files on this handle *)
  pose proof Li as [W [P [L [T [Ns [E O]]]]]].
  pose proof L as [_ [_ [LG LL]]].
  assert (Hvc : In (vc c) (v_cls (view st))) by (cbn; apply in_map; exact Hcin).
  unfold not_of_client. destruct (not_owned (removed_on c (live_others c) h) k) eqn:E1; symmetry.
  - apply Bool.negb_true_iff. destruct (existsb _ (c_lowners c)) eqn:E2; [|reflexivity]. exfalso.
    apply existsb_exists in E2. destruct E2 as [x [Hx Ex]]. apply N.eqb_eq in Ex.
    assert (Hp : (0 < tcount h (LS.lowner k) (v_pool (view st)))%Z).
    { unfold tcount, tcnt. cbn [view v_pool]. pose proof (countz_pos_in (mine (LS.lowner k)) _ k Hk) as H1.
      unfold mine in H1 at 1. rewrite N.eqb_refl in H1. specialize (H1 eq_refl). lia. }
    destruct (O h (LS.lowner k) Hp) as [cid [oo [lo [cnt0 [cx [ox [lx [A1 [A2 [A3 [A4 [A5 [A6 [A7 [A8 A9]]]]]]]]]]]]]]].
    destruct (lof_registered cx ox lx (LL cx A1) A2 A3) as [x2 [_ [Hx2 Ex2]]].
    assert (Eid : vc_id cx = vc_id (vc c)) by (apply (LG cx (vc c) x2 x A1 Hvc Hx2 Hx); congruence).
    assert (cx = vc c) by (eapply (nodup_key_eq vc_id); [exact (proj1 W)| | |]; eauto). subst cx.
    cbn [vc vc_oofs] in A2. apply in_map_iff in A2. destruct A2 as [o0 [<- Ho0]].
    cbn [vo vo_lofs vo_handle] in *. apply in_map_iff in A3. destruct A3 as [lf0 [<- Hlf0]]. cbn [vl vl_owner] in A8.
    assert (Hl0 : of_live o0 = true).
    { destruct I as [_ [_ [I3 _]]]. destruct (I3 c Hcin) as [_ [N2 _]]. destruct (N2 o0 Ho0) as [_ [_ [D _]]].
      destruct (of_live o0); [reflexivity|]. destruct (D eq_refl) as [_ Dn]. rewrite Dn in Hlf0. destruct Hlf0. }
    assert (Hin : In (LS.lowner k) (removed_on c (live_others c) h)).
    { apply removed_on_in. exists o0, lf0. repeat split; auto. apply live_others_all; assumption. }
    apply not_owned_in in Hin. congruence.
  - apply Bool.negb_false_iff. apply not_owned_in in E1. apply removed_on_in in E1.
    destruct E1 as [o0 [lf0 [Ho0 [Hl0 [Hh0 [_ [Hlf0 El]]]]]]].
    destruct (lof_registered (vc c) (vo o0) (vl lf0) (LL (vc c) Hvc)) as [x [_ [Hx Ex]]];
      [cbn; apply in_map; exact Ho0|cbn; apply in_map; exact Hlf0|].
    cbn [vc vc_lows vl vl_owner] in Hx, Ex. apply existsb_exists. exists x. split; [exact Hx|]. apply N.eqb_eq. congruence.
Qed.

Lemma empty_and_remove_tables : forall cfg c0 evs,
  Forall event_valid evs -> never_shared (init cfg c0) evs ->
  let st := reachable cfg c0 evs in
  forall id c, find_client id (st_clients st) = Some c ->
  forall h, pool_locks h (st_pool (fst (empty_and_remove id st)))
            = filter (not_of_client c) (pool_locks h (st_pool st)).
Proof.
  intros cfg c0 evs Hv Hn st id c Hf h.
  apply empty_and_remove_tables_inv; [exact (proj1 (reachable_full_inv cfg c0 evs))|exact (reachable_linv cfg c0 evs Hv Hn)|exact Hf].
Qed.
