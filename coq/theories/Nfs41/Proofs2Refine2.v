(* Refinement, part 2: EXCHANGE_ID, CREATE_SESSION, DESTROY_*, and the
   first and last section of opSequence. *)
From VF Require Export Nfs41.Proofs2Refine.
Open Scope N_scope.

Lemma upd_found_view : forall st cid (f : client -> client),
  NoDup (map c_id (st_clients st)) ->
  (forall c, c_id (f c) = c_id c /\ c_oofs (f c) = c_oofs c /\ c_lowners (f c) = c_lowners c) ->
  forall st', st' = match find_client cid (st_clients st) with
                    | Some c2 => set_clients st (upd_client (f c2) (st_clients st))
                    | None => st end ->
  view st' = view st /\ NoDup (map c_id (st_clients st')).
Proof.
  intros st cid f Hnd Hf st' ->. destruct (find_client cid (st_clients st)) as [c2|] eqn:E; [|auto].
  destruct (Hf c2) as [F1 [F2 F3]]. split.
  - eapply (view_fields st _ c2 (f c2)); try reflexivity; auto.
    rewrite (find_client_id _ _ _ E). exact E.
  - cbn [st_clients set_clients]. rewrite upd_client_k, (kupd_keys c_id). exact Hnd.
Qed.

Lemma cs_finish_view : forall cid sq st, NoDup (map c_id (st_clients st)) -> view (fst (cs_finish cid sq st)) = view st.
Proof.
  intros cid sq st Hnd. unfold cs_finish. cbn [fst].
  set (st3 := match find_client cid (st_clients st) with
              | Some c2 => set_clients st (upd_client (c_set_confirmed c2 true) (st_clients st))
              | None => st end).
  destruct (upd_found_view st cid (fun c => c_set_confirmed c true) Hnd (fun c => conj eq_refl (conj eq_refl eq_refl)) st3 eq_refl)
    as [V3 N3].
  set (st4 := set_sessions (set_rng st3 (st_rng st3 + 1))
                (mkSession (st_rng st3 + 1) cid (fresh_slots (cf_slots (st_cfg st3))) :: st_sessions st3)).
  assert (N4 : NoDup (map c_id (st_clients st4))) by exact N3.
  set (st5 := match find_client cid (st_clients st4) with
              | Some c2 => set_clients st4 (upd_client (c_set_cs c2 sq (Some (st_rng st3 + 1, sq))) (st_clients st4))
              | None => st4 end).
  destruct (upd_found_view st4 cid (fun c => c_set_cs c sq (Some (st_rng st3 + 1, sq))) N4
              (fun c => conj eq_refl (conj eq_refl eq_refl)) st5 eq_refl) as [V5 N5].
  rewrite (touch_view cid st5 N5), V5. exact V3.
Qed.

Section Refine2.
  Variable Q : LS.lock -> Prop.

  Lemma op_exchange_id_view : forall o v st, acct_inv st -> side_inv st ->
    vpath Q (view st) (view (fst (fst (op_exchange_id o v st)))).
  Proof.
    intros o v st I Sd. unfold op_exchange_id.
    pose proof (enter_view Q st I) as P. pose proof (enter_side st Sd) as S1.
    destruct (enter st) as [st1 outs]. cbn [fst] in *.
    destruct (find _ (st_clients st1)) as [c|]; cbn [fst]; [exact P|].
    eapply vpath_trans; [exact P|]. apply vpath_one.
    pose proof (vt_add Q (view st1) (st_rng st1 + 1)) as T.
    assert (Hfresh : forall c, In c (v_cls (view st1)) -> vc_id c <> st_rng st1 + 1).
    { intros c Hc. cbn [view v_cls] in Hc. apply in_map_iff in Hc. destruct Hc as [c0 [<- Hc0]]. cbn [vc vc_id].
      destruct S1 as [B1 _]. specialize (B1 c0 Hc0). lia. }
    specialize (T Hfresh).
    match goal with |- vtr _ _ ?b => replace b with (mkV (v_cls (view st1) ++ [mkVC (st_rng st1 + 1) [] []]) (v_pool (view st1)) (v_nextlo (view st1))); [exact T|] end.
    unfold view. cbn [st_clients st_pool st_nextlo set_idle set_clients set_rng v_cls v_pool v_nextlo].
    rewrite map_app. reflexivity.
  Qed.

  Lemma op_create_session_view : forall cid sq st, acct_inv st ->
    vpath Q (view st) (view (fst (fst (op_create_session cid sq st)))).
  Proof.
    intros cid sq st I. unfold op_create_session.
    pose proof (enter_view Q st I) as P. pose proof (enter_goal st I) as G.
    destruct (enter st) as [st1 outs]. cbn [fst snd] in *. destruct G as [I1 _].
    destruct (find_client cid (st_clients st1)) as [c|]; cbn [fst]; [|exact P].
    destruct (sq =? c_seq c); cbn [fst]; [exact P|].
    destruct (sq =? _); cbn [fst]; [|exact P].
    destruct (find _ _) as [x|] eqn:Ex.
    - destruct (0 <? c_hold x) eqn:Eh; cbn [fst].
      + rewrite (touch_view cid st1 (proj1 I1)). exact P.
      + apply find_some in Ex. destruct Ex as [Hxin _].
        pose proof (in_clients_find st1 x I1 Hxin) as Hfx.
        pose proof (empty_and_remove_view Q st1 (c_id x) x I1 Hfx) as P2.
        pose proof (empty_and_remove_fields (c_id x) st1 x (proj1 I1) Hfx) as [F1 _].
        destruct (empty_and_remove (c_id x) st1) as [st2 outs2]. cbn [fst] in *.
        assert (N2 : NoDup (map c_id (st_clients st2))) by (rewrite F1; apply (kdel_nodup c_id); exact (proj1 I1)).
        pose proof (cs_finish_view cid sq st2 N2) as V3.
        destruct (cs_finish cid sq st2) as [st3 r]. cbn [fst] in *. rewrite V3.
        eapply vpath_trans; eauto.
    - pose proof (cs_finish_view cid sq st1 (proj1 I1)) as V3.
      destruct (cs_finish cid sq st1) as [st3 r]. cbn [fst] in *. rewrite V3. exact P.
  Qed.

  Lemma op_destroy_clientid_view : forall cid st, acct_inv st ->
    vpath Q (view st) (view (fst (fst (op_destroy_clientid cid st)))).
  Proof.
    intros cid st I. unfold op_destroy_clientid.
    pose proof (enter_view Q st I) as P. pose proof (enter_goal st I) as G.
    destruct (enter st) as [st1 outs]. cbn [fst snd] in *. destruct G as [I1 _].
    destruct (find_client cid (st_clients st1)) as [c|] eqn:Ef; cbn [fst]; [|exact P].
    destruct (negb (c_hold c =? 0) || existsb of_live (c_oofs c) || existsb (fun s => ss_client s =? cid) (st_sessions st1)) eqn:Eb;
      cbn [fst]; [exact P|].
    apply Bool.orb_false_iff in Eb. destruct Eb as [Eb _]. apply Bool.orb_false_iff in Eb. destruct Eb as [_ El].
    eapply vpath_trans; [exact P|]. apply vpath_one.
    pose proof (find_client_id _ _ _ Ef) as Hcid.
    pose proof (vt_del Q (view st1) (vc c)) as T. cbn [vc vc_id] in T.
    assert (Hk : kfind vc_id (c_id c) (v_cls (view st1)) = Some (vc c)).
    { cbn [view v_cls]. apply vfind_client. rewrite Hcid. exact Ef. }
    assert (Hdead : forall o, In o (vc_oofs (vc c)) -> vo_live o = false).
    { intros o Ho. cbn [vc vc_oofs] in Ho. apply in_map_iff in Ho. destruct Ho as [o0 [<- Ho0]]. cbn [vo vo_live].
      destruct (of_live o0) eqn:E; [|reflexivity].
      assert (existsb of_live (c_oofs c) = true) by (apply existsb_exists; eauto). congruence. }
    specialize (T Hk Hdead). unfold client_remove. rewrite Ef.
    match goal with |- vtr _ _ ?b => replace b with (mkV (kdel vc_id (c_id c) (v_cls (view st1))) (v_pool (view st1)) (v_nextlo (view st1))); [exact T|] end.
    unfold view. cbn [st_clients st_pool st_nextlo set_idle set_clients add_panic v_cls v_pool v_nextlo].
    rewrite vc_del_client, Hcid. reflexivity.
  Qed.

  Lemma op_destroy_session_view : forall i st, acct_inv st ->
    vpath Q (view st) (view (fst (fst (op_destroy_session i st)))).
  Proof.
    intros i st I. unfold op_destroy_session.
    pose proof (enter_view Q st I) as P. destruct (enter st) as [st1 outs]. cbn [fst] in *.
    destruct (find_session _ _); cbn [fst]; exact P.
  Qed.

  Lemma op_bind_conn_view : forall i d st, acct_inv st ->
    vpath Q (view st) (view (fst (fst (op_bind_conn i d st)))).
  Proof.
    intros i d st I. unfold op_bind_conn. destruct (negb d); cbn [fst]; [apply vp_refl|].
    pose proof (enter_view Q st I) as P. destruct (enter st) as [st1 outs]. cbn [fst] in *.
    destruct (find_session _ _); exact P.
  Qed.

  Lemma solo_step_view : forall tid s st, acct_inv st -> side_inv st ->
    vpath Q (view st) (view (fst (solo_step tid s st))).
  Proof.
    intros tid s st I Sd. destruct s; cbn [solo_step]; try apply vp_refl.
    - pose proof (op_exchange_id_view owner verifier st I Sd) as G.
      destruct (op_exchange_id _ _ _) as [[st1 outs] r]. exact G.
    - pose proof (op_create_session_view clientid seq st I) as G.
      destruct (op_create_session _ _ _) as [[st1 outs] r]. exact G.
    - pose proof (op_destroy_session_view id st I) as G.
      destruct (op_destroy_session _ _) as [[st1 outs] r]. exact G.
    - pose proof (op_destroy_clientid_view id st I) as G.
      destruct (op_destroy_clientid _ _) as [[st1 outs] r]. exact G.
    - pose proof (op_bind_conn_view id dir_valid st I) as G.
      destruct (op_bind_conn _ _ _) as [[st1 outs] r]. exact G.
  Qed.

  (* ---- opSequence -------------------------------------------------------------------- *)
  Lemma seq_begin_view : forall tid sess sl sq cache ops st, acct_inv st ->
    vpath Q (view st) (view (fst (seq_begin tid sess sl sq cache ops st))).
  Proof.
    intros tid sess sl sq cache ops st I. unfold seq_begin.
    pose proof (enter_view Q st I) as P. pose proof (enter_goal st I) as G.
    destruct (enter st) as [st1 outs]. cbn [fst snd] in *. destruct G as [I1 _].
    destruct (find_session sess (st_sessions st1)) as [ss|]; cbn [fst]; [|exact P].
    destruct (nth_error (ss_slots ss) (N.to_nat sl)) as [s|]; cbn [fst]; [|exact P].
    destruct (sq =? sl_seq s); cbn [fst]; [exact P|].
    destruct (sq =? _); cbn [fst]; [|exact P].
    destruct (sl_busy s) as [orig|].
    - destruct (find_thread orig (st_threads st1)); cbn [fst]; exact P.
    - destruct (cf_maxops (st_cfg st1) <? _); cbn [fst]; [exact P|].
      match goal with |- vpath _ _ (view (set_threads (hold ?i ?s0) _)) =>
        change (vpath Q (view st) (view (hold i s0))); rewrite (hold_view i s0) by exact (proj1 I1) end.
      exact P.
  Qed.

  Lemma seq_end_view : forall t st, acct_inv st -> vpath Q (view st) (view (fst (seq_end t st))).
  Proof.
    intros t st I. unfold seq_end.
    pose proof (enter_view Q st I) as P. pose proof (enter_goal st I) as G.
    destruct (enter st) as [st1 outs]. cbn [fst snd] in *. destruct G as [I1 _].
    pose proof (release_view (t_client t) st1 (proj1 I1)) as V.
    destruct (find_session (t_sess t) (st_sessions (release (t_client t) st1))); cbn [fst];
      (match goal with |- vpath _ _ (view (set_threads ?s0 _)) => change (vpath Q (view st) (view s0)) end);
      rewrite ?set_slot_view, V; exact P.
  Qed.
End Refine2.
