(* C20, lock-owner identity over time: across any event, every lock-owner
   object registered afterwards is an object that was registered before for
   the same client under the same lock-owner name, or a fresh one (identity
   at least the allocation counter before the event).  With
   one_owner_one_object: the object of a protocol-level lock-owner never
   changes while it is registered, and a re-registered lock-owner gets an
   identity that was never used before. *)
From Coq Require Import Lia.
From VF Require Export Nfs41.Proofs2LocksThm.
Open Scope N_scope.

Definition evolve (a b : vstate) : Prop :=
  v_nextlo a <= v_nextlo b
  /\ forall c' x', In c' (v_cls b) -> In x' (vc_lows c') ->
       (exists c x, In c (v_cls a) /\ vc_id c = vc_id c' /\ In x (vc_lows c) /\ lo_id x = lo_id x' /\ lo_key x = lo_key x')
       \/ v_nextlo a <= lo_id x'.

Lemma evolve_refl : forall a, evolve a a.
Proof. intros a. split; [lia|]. intros c' x' Hc Hx. left. exists c', x'. auto. Qed.

Lemma evolve_trans : forall a b c, evolve a b -> evolve b c -> evolve a c.
Proof.
  intros a b c [N1 E1] [N2 E2]. split; [lia|]. intros c' x' Hc Hx.
  destruct (E2 c' x' Hc Hx) as [[cb [xb [Hcb [Eid [Hxb [Ei Ek]]]]]]|Hf]; [|right; lia].
  destruct (E1 cb xb Hcb Hxb) as [[ca [xa [Hca [Eid2 [Hxa [Ei2 Ek2]]]]]]|Hf]; [|right; lia].
  left. exists ca, xa. repeat split; auto; congruence.
Qed.

(* The record of one client is replaced. *)
Lemma evolve_put : forall v c c' pool nextlo',
  kfind vc_id (vc_id c) (v_cls v) = Some c -> vc_id c' = vc_id c -> v_nextlo v <= nextlo' ->
  (forall x', In x' (vc_lows c') ->
     (exists x, In x (vc_lows c) /\ lo_id x = lo_id x' /\ lo_key x = lo_key x') \/ v_nextlo v <= lo_id x') ->
  evolve v (vput v c' pool nextlo').
Proof.
  intros v c c' pool nextlo' Hf Hid Hn Hx. split; [exact Hn|]. intros c2 x2 Hc2 Hx2. cbn [vput v_cls] in Hc2.
  assert (Hcin : In c (v_cls v)) by (eapply kfind_in; eauto).
  apply (kupd_in vc_id) in Hc2. destruct Hc2 as [->|[Hc2 _]].
  - destruct (Hx x2 Hx2) as [[x [H1 [H2 H3]]]|H1]; [|right; exact H1]. left. exists c, x. repeat split; auto.
  - left. exists c2, x2. auto.
Qed.

Lemma vtr_evolve : forall Q a b, vtr Q a b -> evolve a b.
Proof.
  intros Q a b T. destruct T.
  - split; [cbn; lia|]. intros c' x' Hc Hx. cbn [v_cls] in Hc. apply in_app_or in Hc.
    destruct Hc as [Hc|[<-|[]]]; [left; exists c', x'; auto|destruct Hx].
  - split; [cbn; lia|]. intros c' x' Hc Hx. cbn [v_cls] in Hc. apply (kdel_in vc_id) in Hc. left. exists c', x'. tauto.
  - eapply evolve_put; [exact H|reflexivity|cbn; lia|]. intros x' Hx. left. exists x'. auto.
  - eapply evolve_put; [exact H|reflexivity|cbn; lia|]. cbn [vc_lows]. intros x' Hx. left.
    destruct (dec_in _ _ _ Hx) as [x [Hx0 [E1 E2]]]. exists x. auto.
  - eapply evolve_put; [exact H|reflexivity|cbn; lia|]. intros x' Hx. left. exists x'. auto.
  - eapply evolve_put; [exact H|reflexivity|cbn; lia|]. intros x' Hx. left. exists x'. auto.
Qed.

Lemma vlocknew_evolve : forall Q a b, vlocknew Q a b -> evolve a b.
Proof.
  intros Q a b T. destruct T. eapply evolve_put; [exact H|reflexivity|destruct reg; cbn [reg_n]; lia|].
  cbn [vc_lows]. intros x' Hx. destruct (inc_in _ _ _ Hx) as [x0 [Hx0 [E1 E2]]]. apply in_app_or in Hx0.
  destruct Hx0 as [Hx0|Hx0]; [left; exists x0; auto|].
  destruct reg as [x|]; [|destruct Hx0]. destruct Hx0 as [<-|[]]. right. destruct H4 as [E _]. lia.
Qed.

Lemma vstep_evolve : forall Q a b, vstep Q a b -> evolve a b.
Proof.
  intros Q a b [m [Hp Hl]].
  assert (Em : evolve a m).
  { clear Hl. induction Hp; [apply evolve_refl|]. eapply evolve_trans; [eapply vtr_evolve; eauto|exact IHHp]. }
  destruct Hl as [<-|Hl]; [exact Em|]. eapply evolve_trans; [exact Em|eapply vlocknew_evolve; eauto].
Qed.

Theorem lock_owner_objects_evolve : forall cfg c0 evs e,
  let st := reachable cfg c0 evs in
  let st' := fst (step st e) in
  st_nextlo st <= st_nextlo st'
  /\ forall c' x', In c' (st_clients st') -> In x' (c_lowners c') ->
       (exists c x, In c (st_clients st) /\ c_id c = c_id c' /\ In x (c_lowners c)
                    /\ lo_id x = lo_id x' /\ lo_key x = lo_key x')
       \/ st_nextlo st <= lo_id x'.
Proof.
  intros cfg c0 evs e st st'.
  pose proof (reachable_full_inv cfg c0 evs) as F. fold st in F.
  pose proof (vstep_evolve _ _ _ (step_view QT st e F (threads_ok_QT st))) as [N1 E1]. fold st' in N1, E1.
  split; [exact N1|]. intros c' x' Hc Hx.
  destruct (E1 (vc c') x' (in_map vc _ _ Hc) Hx) as [[cv [x [Hcv [Eid [Hxv [Ei Ek]]]]]]|Hf]; [|right; exact Hf].
  cbn [view v_cls] in Hcv. apply in_map_iff in Hcv. destruct Hcv as [c [<- Hc0]]. left. exists c, x. auto.
Qed.

(* The object of a lock-owner name of a client: unchanged across the event,
   or replaced by one whose identity was never used before. *)
Theorem lock_owner_object_stable_lemma : forall cfg c0 evs e c c' x x',
  let st := reachable cfg c0 evs in
  let st' := fst (step st e) in
  In c (st_clients st) -> In c' (st_clients st') -> c_id c = c_id c' ->
  In x (c_lowners c) -> In x' (c_lowners c') -> lo_key x = lo_key x' ->
  lo_id x' = lo_id x \/ (st_nextlo st <= lo_id x' /\ lo_id x < lo_id x').
Proof.
  intros cfg c0 evs e c c' x x' st st' Hc Hc' Eid Hx Hx' Ek.
  destruct (lock_owner_objects_evolve cfg c0 evs e) as [_ E]. fold st st' in E.
  destruct (one_owner_one_object_lemma cfg c0 evs) as [OA [_ OO]]. fold st in OA, OO.
  pose proof (reachable_full_inv cfg c0 evs) as [I _]. fold st in I.
  destruct (E c' x' Hc' Hx') as [[c2 [x2 [Hc2 [Eid2 [Hx2 [Ei2 Ek2]]]]]]|Hf].
  - left. assert (c2 = c) by (eapply (nodup_key_eq c_id); [exact (proj1 I)| | |]; eauto; congruence). subst c2.
    destruct (OO c Hc) as [Hkeys _].
    assert (x2 = x) by (eapply (nodup_key_eq lo_key); eauto; congruence). subst x2. congruence.
  - right. split; [exact Hf|]. destruct (OA c x Hc Hx) as [_ A2]. lia.
Qed.
