(* C20, lockCount: as long as no lock-owner holds lock state on one file
   through two open-owner files (the trigger of the known finding
   "shared lock-owner"), lockCount of a lock-owner file = number of entries
   of its lock-owner object in the file's lock table, and every entry
   belongs to a lock-owner file.  Invariant on views, closed under the view
   transitions. *)
From VF Require Export Nfs41.Proofs2Owners Nfs41.Proofs2LockSet.
Open Scope N_scope.

(* Ranges as LOCK / LOCKU produce them for uint64 (offset, length) other
   than (2^64-1, 2^64-1). *)
Definition qvalid (q : LS.lock) : Prop := LS.lstart q < LS.lend q /\ LS.lend q <= u64max.

Definition tcount (h id : N) (pool : list pfile) : Z := tcnt id (pool_locks h pool).

(* Every lock table is well formed (LockSet) and bounded. *)
Definition tbl_ok (v : vstate) : Prop :=
  forall h, LSS.wf (pool_locks h (v_pool v)) = true /\ forall k, In k (pool_locks h (v_pool v)) -> bnd k.

(* A lock-owner file, flattened: client, open-owner file, own "other",
   file handle, lock-owner object, lockCount. *)
Definition lof (v : vstate) (cid oo lo h own : N) (cnt : Z) : Prop :=
  exists c o l, In c (v_cls v) /\ In o (vc_oofs c) /\ In l (vo_lofs o)
    /\ vc_id c = cid /\ vo_other o = oo /\ vl_other l = lo /\ vo_handle o = h /\ vl_owner l = own /\ vl_count l = cnt.

(* No sharing: a lock-owner object has lock state on a file through at
   most one open-owner file. *)
Definition ns (v : vstate) : Prop :=
  forall cid oo1 lo1 oo2 lo2 h own c1 c2,
    lof v cid oo1 lo1 h own c1 -> lof v cid oo2 lo2 h own c2 -> oo1 = oo2.

Definition lock_ok (v : vstate) : Prop :=
  (forall cid oo lo h own cnt, lof v cid oo lo h own cnt -> tcount h own (v_pool v) = cnt)
  /\ (forall h id, (0 < tcount h id (v_pool v))%Z -> exists cid oo lo cnt, lof v cid oo lo h id cnt).

(* ---- generic ---------------------------------------------------------------------------- *)
Lemma nodup_key_eq : forall {A} (key : A -> N) l a b, NoDup (map key l) -> In a l -> In b l -> key a = key b -> a = b.
Proof.
  intros A key l a b Hnd Ha Hb E.
  pose proof (kfind_in_nodup key l a Hnd Ha) as Fa. pose proof (kfind_in_nodup key l b Hnd Hb) as Fb.
  rewrite E in Fa. congruence.
Qed.

Lemma kupd_in_iff : forall {A} (key : A -> N) x' l x y, kfind key (key x') l = Some x ->
  (In y (kupd key x' l) <-> y = x' \/ (In y l /\ key y <> key x')).
Proof.
  intros A key x' l x y Hf. split; [apply (kupd_in key)|].
  intros [->|[Hin Hne]].
  - eapply (kfind_in key). apply (kfind_kupd_same key x' l x Hf).
  - unfold kupd. apply in_map_iff. exists y. split; [|exact Hin].
    apply N.eqb_neq in Hne. rewrite Hne. reflexivity.
Qed.

(* ---- lock tables under the pool primitives ------------------------------------------------ *)
Lemma pool_locks_open : forall h' h pool, pool_locks h' (pool_open h pool) = pool_locks h' pool.
Proof.
  intros. unfold pool_locks at 1. rewrite find_pfile_open. destruct (h' =? h) eqn:E; [|reflexivity].
  apply N.eqb_eq in E. subst h'. reflexivity.
Qed.

Lemma pool_locks_close : forall h' h pool,
  pool_locks h' (fst (pool_close h pool))
  = if (h' =? h) && (puse h pool <=? 1) then [] else pool_locks h' pool.
Proof.
  intros. unfold pool_locks at 1. rewrite find_pfile_close. destruct (h' =? h) eqn:E; [|reflexivity].
  apply N.eqb_eq in E. subst h'. cbn [andb]. destruct (puse h pool <=? 1); reflexivity.
Qed.

Lemma pool_locks_absent : forall h pool, pmem h pool = false -> pool_locks h pool = [].
Proof. intros h pool H. unfold pmem in H. unfold pool_locks. destruct (find_pfile h pool); [discriminate|reflexivity]. Qed.

(* ---- lock-owner files of a view after one open-owner file was replaced ---------------------- *)
Lemma lof_put : forall v c o o' lows' pool nextlo cid oo lo h own cnt,
  vwf v -> kfind vc_id (vc_id c) (v_cls v) = Some c -> kfind vo_other (vo_other o) (vc_oofs c) = Some o ->
  vo_other o' = vo_other o ->
  (lof (vput v (mkVC (vc_id c) (kupd vo_other o' (vc_oofs c)) lows') pool nextlo) cid oo lo h own cnt
   <-> (lof v cid oo lo h own cnt /\ ~ (cid = vc_id c /\ oo = vo_other o))
       \/ (cid = vc_id c /\ oo = vo_other o /\ h = vo_handle o'
           /\ exists l, In l (vo_lofs o') /\ vl_other l = lo /\ vl_owner l = own /\ vl_count l = cnt)).
Proof.
  intros v c o o' lows' pool nextlo cid oo lo h own cnt W Hc Ho Eo.
  set (c' := mkVC (vc_id c) (kupd vo_other o' (vc_oofs c)) lows').
  assert (Hc' : kfind vc_id (vc_id c') (v_cls v) = Some c) by exact Hc.
  assert (Ho' : kfind vo_other (vo_other o') (vc_oofs c) = Some o) by (rewrite Eo; exact Ho).
  destruct (vwf_client _ _ W Hc) as [N1 _]. destruct W as [W1 _].
  assert (Hcin : In c (v_cls v)) by (eapply kfind_in; eauto).
  unfold lof. cbn [vput v_cls]. split.
  - intros [c2 [o2 [l [H1 [H2 [H3 [E1 [E2 [E3 [E4 [E5 E6]]]]]]]]]]].
    apply (kupd_in_iff vc_id c' _ c c2 Hc') in H1. destruct H1 as [->|[H1 Hne]].
    + cbn [c' vc_oofs vc_id] in H2, E1. apply (kupd_in_iff vo_other o' _ o o2 Ho') in H2. destruct H2 as [->|[H2 Hne2]].
      * right. split; [auto|]. split; [congruence|]. split; [auto|]. exists l. auto.
      * left. split; [exists c, o2, l; repeat split; auto|]. intros [_ E]. apply Hne2. congruence.
    + left. split; [exists c2, o2, l; repeat split; auto|]. intros [E _]. apply Hne. cbn [c' vc_id]. congruence.
  - intros [[[c2 [o2 [l [H1 [H2 [H3 [E1 [E2 [E3 [E4 [E5 E6]]]]]]]]]]] Hnot]|[E1 [E2 [E4 [l [H3 [E3 [E5 E6]]]]]]]].
    + destruct (N.eq_dec (vc_id c2) (vc_id c)) as [Eid|Nid].
      * assert (c2 = c) by (eapply (nodup_key_eq vc_id); eauto). subst c2.
        exists c', o2, l. split; [apply (kupd_in_iff vc_id c' _ c c' Hc'); left; reflexivity|].
        split; [|repeat split; auto].
        cbn [c' vc_oofs]. apply (kupd_in_iff vo_other o' _ o o2 Ho'). right. split; [exact H2|].
        intros E. apply Hnot. split; congruence.
      * exists c2, o2, l. split; [apply (kupd_in_iff vc_id c' _ c c2 Hc'); right; split; auto|]. repeat split; auto.
    + exists c', o', l. split; [apply (kupd_in_iff vc_id c' _ c c' Hc'); left; reflexivity|].
      split; [cbn [c' vc_oofs]; apply (kupd_in_iff vo_other o' _ o o' Ho'); left; reflexivity|].
      repeat split; auto; congruence.
Qed.

(* The lock-owner file is determined by file handle and lock-owner object. *)
Lemma lof_unique : forall v cid1 oo1 lo1 cid2 oo2 lo2 h own c1 c2,
  vwf v -> low_ok v -> ns v ->
  lof v cid1 oo1 lo1 h own c1 -> lof v cid2 oo2 lo2 h own c2 ->
  cid1 = cid2 /\ oo1 = oo2 /\ lo1 = lo2 /\ c1 = c2.
Proof.
  intros v cid1 oo1 lo1 cid2 oo2 lo2 h own c1 c2 W L Hns H1 H2.
  assert (Hcid : cid1 = cid2).
  { destruct H1 as [a1 [o1 [l1 [A1 [A2 [A3 [A4 [A5 [A6 [A7 [A8 A9]]]]]]]]]]].
    destruct H2 as [a2 [o2 [l2 [B1 [B2 [B3 [B4 [B5 [B6 [B7 [B8 B9]]]]]]]]]]].
    destruct L as [_ [_ [LG LL]]].
    destruct (lof_registered a1 o1 l1 (LL a1 A1) A2 A3) as [x1 [_ [X1 X2]]].
    destruct (lof_registered a2 o2 l2 (LL a2 B1) B2 B3) as [x2 [_ [Y1 Y2]]].
    rewrite <- A4, <- B4. apply (LG a1 a2 x1 x2); auto. congruence. }
  subst cid2.
  assert (Hoo : oo1 = oo2) by (eapply Hns; eauto). subst oo2.
  destruct H1 as [a1 [o1 [l1 [A1 [A2 [A3 [A4 [A5 [A6 [A7 [A8 A9]]]]]]]]]]].
  destruct H2 as [a2 [o2 [l2 [B1 [B2 [B3 [B4 [B5 [B6 [B7 [B8 B9]]]]]]]]]]].
  assert (a2 = a1) by (eapply (nodup_key_eq vc_id); [exact (proj1 W)| | |]; auto; congruence). subst a2.
  destruct W as [W1 W2]. destruct (W2 a1 A1) as [N1 _].
  assert (o2 = o1) by (eapply (nodup_key_eq vo_other); [exact N1| | |]; auto; congruence). subst o2.
  destruct L as [_ [_ [_ LL]]]. destruct (LL a1 A1) as [_ [_ [_ C4]]].
  assert (l2 = l1).
  { pose proof (C4 o1 A2) as Hnd. assert (Eown : vl_owner l1 = vl_owner l2) by congruence. clear - Hnd A3 B3 Eown.
    induction (vo_lofs o1) as [|x l IH]; [destruct A3|]. cbn in Hnd. inversion Hnd as [|? ? Hni Hnd']; subst.
    destruct A3 as [->|A3]; destruct B3 as [->|B3]; auto.
    - exfalso. apply Hni. rewrite Eown. apply in_map. exact B3.
    - exfalso. apply Hni. rewrite <- Eown. apply in_map. exact A3. }
  subst l2. repeat split; congruence.
Qed.

(* ---- more about the pool ---------------------------------------------------------------------- *)
Lemma live_use_pos : forall cls c o, In c cls -> In o (vc_oofs c) -> vo_live o = true ->
  (1 <= v_use cls (vo_handle o))%Z.
Proof.
  intros cls c o Hc Ho Hl. unfold v_use.
  assert (H1 : (v_live_on (vo_handle o) c <= sumz (v_live_on (vo_handle o)) cls)%Z).
  { apply (sumz_in_le (v_live_on (vo_handle o))); [intros y _; apply countz_nonneg|exact Hc]. }
  assert (H2 : (1 <= v_live_on (vo_handle o) c)%Z).
  { unfold v_live_on. eapply countz_pos_in; [exact Ho|]. unfold lh. rewrite Hl, N.eqb_refl. reflexivity. }
  lia.
Qed.

Lemma live_pmem : forall v c o, pool_ok v -> In c (v_cls v) -> In o (vc_oofs c) -> vo_live o = true ->
  pmem (vo_handle o) (v_pool v) = true.
Proof.
  intros v c o [_ P] Hc Ho Hl. destruct (P (vo_handle o)) as [U _].
  pose proof (live_use_pos _ c o Hc Ho Hl) as Hp. unfold puse, pmem in *.
  destruct (find_pfile (vo_handle o) (v_pool v)); [reflexivity|]. cbn in U. lia.
Qed.

Lemma tcount_nonneg : forall h id pool, (0 <= tcount h id pool)%Z.
Proof. intros. apply countz_nonneg. Qed.

(* The table of [h] after Set by owner [own]. *)
Lemma tcount_set : forall h own pool q h' id',
  pmem h pool = true -> LS.lowner q = own ->
  tcount h' id' (pool_set_locks h (LS.set_list (LS.set (pool_locks h pool) q)) pool)
  = if (h' =? h) && (id' =? own)
    then (tcount h' id' pool + LS.set_delta (LS.set (pool_locks h pool) q))%Z
    else tcount h' id' pool.
Proof.
  intros h own pool q h' id' Hm Hq. unfold tcount. rewrite pool_locks_set_locks, Hm.
  destruct (h' =? h) eqn:E1; cbn [andb]; [|reflexivity]. apply N.eqb_eq in E1. subst h'.
  destruct (id' =? own) eqn:E2.
  - apply N.eqb_eq in E2. subst id' own. apply set_count_mine.
  - apply N.eqb_neq in E2. apply set_count_other. congruence.
Qed.

Lemma tcount_unlock_all : forall h own pool h' id',
  (LSS.wf (pool_locks h pool) = true /\ forall k, In k (pool_locks h pool) -> bnd k) ->
  tcount h' id' (unlock_all h own pool)
  = if (h' =? h) && (id' =? own) then 0%Z else tcount h' id' pool.
Proof.
  intros h own pool h' id' [Hwf Hb]. unfold tcount, unlock_all. rewrite pool_locks_set_locks.
  destruct (h' =? h) eqn:E1; cbn [andb]; [|reflexivity]. apply N.eqb_eq in E1. subst h'.
  destruct (pmem h pool) eqn:Hm.
  - change (LS.mkLock 0 u64max own LS.Unlocked) with (unlock_q own).
    rewrite (unlock_all_list _ own (wf_bounds _ Hwf Hb)).
    destruct (id' =? own) eqn:E2.
    + apply N.eqb_eq in E2. subst id'. apply tcnt_filter_other_same.
    + apply N.eqb_neq in E2. apply tcnt_filter_other. exact E2.
  - rewrite (pool_locks_absent h pool Hm). destruct (id' =? own); reflexivity.
Qed.

(* ---- the tables stay well formed and bounded ---------------------------------------------------- *)
Lemma tbl_ok_set : forall v h q cls nextlo,
  tbl_ok v -> LS.lstart q < LS.lend q -> bnd q ->
  tbl_ok (mkV cls (pool_set_locks h (LS.set_list (LS.set (pool_locks h (v_pool v)) q)) (v_pool v)) nextlo).
Proof.
  intros v h q cls nextlo T Hq Hb h'. cbn [v_pool]. rewrite pool_locks_set_locks.
  destruct ((h' =? h) && pmem h (v_pool v)); [|apply T].
  destruct (T h) as [Hwf Hbd]. split.
  - apply LockSet.ProofsSet.set_wf; assumption.
  - intros k Hk. eapply set_bounded; eauto.
Qed.

Lemma u64max_pos : 0 < u64max. Proof. reflexivity. Qed.

Lemma vtr_tbl_ok : forall a b, tbl_ok a -> vtr qvalid a b -> tbl_ok b.
Proof.
  intros a b T Tr. destruct Tr.
  - exact T.
  - exact T.
  - intros h'. unfold vput. cbn [v_pool]. rewrite pool_locks_open. apply T.
  - destruct (unlock && (0 <? vl_count lf)%Z).
    + apply (tbl_ok_set v (vo_handle o) (unlock_q (vl_owner lf))); [exact T|exact u64max_pos|unfold bnd; cbn; lia].
    + exact T.
  - intros h'. unfold vput. cbn [v_pool]. rewrite pool_locks_close.
    destruct (_ && _); [split; [reflexivity|intros k []]|apply T].
  - destruct H4 as [Q1 Q2]. apply (tbl_ok_set v (vo_handle o) q); assumption.
Qed.

Lemma vlocknew_tbl_ok : forall a b, tbl_ok a -> vlocknew qvalid a b -> tbl_ok b.
Proof. intros a b T Tr. destruct Tr. destruct H6 as [Q1 Q2]. apply (tbl_ok_set v (vo_handle o) q); assumption. Qed.

(* ---- lock-owner files before and after a transition ---------------------------------------------- *)
Lemma lof_mk : forall v c o l, In c (v_cls v) -> In o (vc_oofs c) -> In l (vo_lofs o) ->
  lof v (vc_id c) (vo_other o) (vl_other l) (vo_handle o) (vl_owner l) (vl_count l).
Proof. intros v c o l H1 H2 H3. exists c, o, l. repeat split; auto. Qed.

(* With unique keys the components are determined by the identifiers. *)
Lemma lof_at : forall v c o cid oo lo h own cnt,
  vwf v -> kfind vc_id (vc_id c) (v_cls v) = Some c -> kfind vo_other (vo_other o) (vc_oofs c) = Some o ->
  lof v cid oo lo h own cnt -> cid = vc_id c -> oo = vo_other o ->
  h = vo_handle o /\ exists l, In l (vo_lofs o) /\ vl_other l = lo /\ vl_owner l = own /\ vl_count l = cnt.
Proof.
  intros v c o cid oo lo h own cnt W Hc Ho [c2 [o2 [l [H1 [H2 [H3 [E1 [E2 [E3 [E4 [E5 E6]]]]]]]]]]] Ec Eo.
  destruct (vwf_client _ _ W Hc) as [N1 _].
  assert (c2 = c) by (eapply (nodup_key_eq vc_id); [exact (proj1 W)| |eapply kfind_in; eauto|congruence]; auto). subst c2.
  assert (o2 = o) by (eapply (nodup_key_eq vo_other); [exact N1| |eapply kfind_in; eauto|congruence]; auto). subst o2.
  split; [congruence|]. exists l. auto.
Qed.

Section OneOofs.
  Variables (v : vstate) (c : vcl) (o : voof).
  Hypothesis W : vwf v.
  Hypothesis Hc : kfind vc_id (vc_id c) (v_cls v) = Some c.
  Hypothesis Ho : kfind vo_other (vo_other o) (vc_oofs c) = Some o.

  Let N3 : NoDup (map vl_other (vo_lofs o)).
  Proof. destruct (vwf_client _ _ W Hc) as [_ N2]. exact (proj1 (N2 o (kfind_in _ _ _ _ Ho))). Qed.

  (* one lock-owner file removed *)
  Lemma lof_rm : forall lf lows' pool nextlo cid oo lo h own cnt,
    kfind vl_other (vl_other lf) (vo_lofs o) = Some lf ->
    (lof (vput v (mkVC (vc_id c) (kupd vo_other (mkVO (vo_other o) (vo_handle o) true
                                    (kdel vl_other (vl_other lf) (vo_lofs o))) (vc_oofs c)) lows') pool nextlo)
         cid oo lo h own cnt
     <-> lof v cid oo lo h own cnt /\ ~ (cid = vc_id c /\ oo = vo_other o /\ lo = vl_other lf)).
  Proof.
    intros lf lows' pool nextlo cid oo lo h own cnt Hlf.
    rewrite (lof_put v c o (mkVO (vo_other o) (vo_handle o) true (kdel vl_other (vl_other lf) (vo_lofs o)))
               lows' pool nextlo cid oo lo h own cnt W Hc Ho eq_refl). cbn [vo_handle vo_lofs]. split.
    - intros [[H Hn]|[E1 [E2 [E4 [l [H3 [E3 [E5 E6]]]]]]]].
      + split; [exact H|]. intros [A [B _]]. apply Hn. auto.
      + apply (kdel_in vl_other) in H3. destruct H3 as [H3 Hne]. split.
        * subst. exists c, o, l. repeat split; auto; eapply kfind_in; eauto.
        * intros [_ [_ E]]. apply Hne. congruence.
    - intros [H Hn].
      destruct (N.eq_dec cid (vc_id c)) as [Ec|Nc]; [|left; split; [exact H|intros [A _]; contradiction]].
      destruct (N.eq_dec oo (vo_other o)) as [Eo|No]; [|left; split; [exact H|intros [_ A]; contradiction]].
      right. destruct (lof_at v c o _ _ _ _ _ _ W Hc Ho H Ec Eo) as [Eh [l [H3 [E3 [E5 E6]]]]].
      split; [exact Ec|]. split; [exact Eo|]. split; [exact Eh|]. exists l. split; [|auto].
      apply (kdel_in vl_other). split; [exact H3|]. intros E. apply Hn. repeat split; auto. congruence.
  Qed.

  (* the count of one lock-owner file changed *)
  Lemma lof_upd : forall lf newcnt lows' pool nextlo cid oo lo h own cnt,
    kfind vl_other (vl_other lf) (vo_lofs o) = Some lf ->
    (lof (vput v (mkVC (vc_id c) (kupd vo_other (oput o (mkVL (vl_other lf) (vl_owner lf) newcnt)) (vc_oofs c)) lows')
               pool nextlo) cid oo lo h own cnt
     <-> (lof v cid oo lo h own cnt /\ ~ (cid = vc_id c /\ oo = vo_other o /\ lo = vl_other lf))
         \/ (cid = vc_id c /\ oo = vo_other o /\ lo = vl_other lf /\ h = vo_handle o /\ own = vl_owner lf /\ cnt = newcnt)).
  Proof.
    intros lf newcnt lows' pool nextlo cid oo lo h own cnt Hlf.
    set (nl := mkVL (vl_other lf) (vl_owner lf) newcnt).
    assert (Hlf' : kfind vl_other (vl_other nl) (vo_lofs o) = Some lf) by exact Hlf.
    rewrite (lof_put v c o (oput o nl) lows' pool nextlo cid oo lo h own cnt W Hc Ho eq_refl).
    unfold oput. cbn [vo_handle vo_lofs]. split.
    - intros [[H Hn]|[E1 [E2 [E4 [l [H3 [E3 [E5 E6]]]]]]]].
      + left. split; [exact H|]. intros [A [B _]]. apply Hn. auto.
      + apply (kupd_in_iff vl_other nl _ lf l Hlf') in H3. destruct H3 as [->|[H3 Hne]].
        * right. cbn in E3, E5, E6. repeat split; congruence.
        * left. split.
          -- subst. exists c, o, l. repeat split; auto; eapply kfind_in; eauto.
          -- intros [_ [_ E]]. apply Hne. cbn. congruence.
    - intros [[H Hn]|[E1 [E2 [E3 [E4 [E5 E6]]]]]].
      + destruct (N.eq_dec cid (vc_id c)) as [Ec|Nc]; [|left; split; [exact H|intros [A _]; contradiction]].
        destruct (N.eq_dec oo (vo_other o)) as [Eo|No]; [|left; split; [exact H|intros [_ A]; contradiction]].
        right. destruct (lof_at v c o _ _ _ _ _ _ W Hc Ho H Ec Eo) as [Eh [l [H3 [E3 [E5 E6]]]]].
        split; [exact Ec|]. split; [exact Eo|]. split; [exact Eh|]. exists l. split; [|auto].
        apply (kupd_in_iff vl_other nl _ lf l Hlf'). right. split; [exact H3|]. intros E. apply Hn. repeat split; auto. cbn in E. congruence.
      + right. split; [exact E1|]. split; [exact E2|]. split; [exact E4|]. exists nl. split.
        * apply (kupd_in_iff vl_other nl _ lf nl Hlf'). left. reflexivity.
        * cbn. repeat split; congruence.
  Qed.

  (* a lock-owner file added *)
  Lemma lof_new : forall nl lows' pool nextlo cid oo lo h own cnt,
    vo_live o = true ->
    (forall l, In l (vo_lofs o) -> vl_other l <> vl_other nl) ->
    (lof (vput v (mkVC (vc_id c) (kupd vo_other (mkVO (vo_other o) (vo_handle o) true (vo_lofs o ++ [nl])) (vc_oofs c)) lows')
               pool nextlo) cid oo lo h own cnt
     <-> lof v cid oo lo h own cnt
         \/ (cid = vc_id c /\ oo = vo_other o /\ lo = vl_other nl /\ h = vo_handle o /\ own = vl_owner nl /\ cnt = vl_count nl)).
  Proof.
    intros nl lows' pool nextlo cid oo lo h own cnt Hlive Hfresh.
    rewrite (lof_put v c o (mkVO (vo_other o) (vo_handle o) true (vo_lofs o ++ [nl]))
               lows' pool nextlo cid oo lo h own cnt W Hc Ho eq_refl). cbn [vo_handle vo_lofs]. split.
    - intros [[H Hn]|[E1 [E2 [E4 [l [H3 [E3 [E5 E6]]]]]]]]; [left; exact H|].
      apply in_app_or in H3. destruct H3 as [H3|[<-|[]]].
      + left. subst. exists c, o, l. repeat split; auto; eapply kfind_in; eauto.
      + right. repeat split; congruence.
    - intros [H|[E1 [E2 [E3 [E4 [E5 E6]]]]]].
      + destruct (N.eq_dec cid (vc_id c)) as [Ec|Nc]; [|left; split; [exact H|intros [A _]; contradiction]].
        destruct (N.eq_dec oo (vo_other o)) as [Eo|No]; [|left; split; [exact H|intros [_ A]; contradiction]].
        right. destruct (lof_at v c o _ _ _ _ _ _ W Hc Ho H Ec Eo) as [Eh [l [H3 [E3 [E5 E6]]]]].
        split; [exact Ec|]. split; [exact Eo|]. split; [exact Eh|]. exists l. split; [apply in_or_app; left; exact H3|auto].
      + right. split; [exact E1|]. split; [exact E2|]. split; [exact E4|]. exists nl.
        split; [apply in_or_app; right; left; reflexivity|]. repeat split; congruence.
  Qed.

  (* the open-owner file, without lock-owner files, is marked dead *)
  Lemma lof_dead : forall lows' pool nextlo cid oo lo h own cnt,
    vo_lofs o = [] ->
    (lof (vput v (mkVC (vc_id c) (kupd vo_other (mkVO (vo_other o) (vo_handle o) false []) (vc_oofs c)) lows')
               pool nextlo) cid oo lo h own cnt
     <-> lof v cid oo lo h own cnt).
  Proof.
    intros lows' pool nextlo cid oo lo h own cnt Hnil.
    rewrite (lof_put v c o (mkVO (vo_other o) (vo_handle o) false [])
               lows' pool nextlo cid oo lo h own cnt W Hc Ho eq_refl). cbn [vo_handle vo_lofs]. split.
    - intros [[H _]|[_ [_ [_ [l [[] _]]]]]]. exact H.
    - intros H. left. split; [exact H|]. intros [Ec Eo].
      destruct (lof_at v c o _ _ _ _ _ _ W Hc Ho H Ec Eo) as [_ [l [H3 _]]]. rewrite Hnil in H3. destruct H3.
  Qed.
End OneOofs.

(* ---- transitions that do not touch lock-owner files --------------------------------------------- *)
Lemma lof_add : forall v id cid oo lo h own cnt,
  lof (mkV (v_cls v ++ [mkVC id [] []]) (v_pool v) (v_nextlo v)) cid oo lo h own cnt <-> lof v cid oo lo h own cnt.
Proof.
  intros. unfold lof. cbn [v_cls]. split; intros [c2 [o2 [l [H1 H]]]].
  - apply in_app_or in H1. destruct H1 as [H1|[<-|[]]]; [exists c2, o2, l; auto|]. destruct H as [[] _].
  - exists c2, o2, l. split; [apply in_or_app; left; exact H1|exact H].
Qed.

Lemma lof_del : forall v c cid oo lo h own cnt,
  vwf v -> kfind vc_id (vc_id c) (v_cls v) = Some c -> (forall o, In o (vc_oofs c) -> vo_live o = false) ->
  (lof (mkV (kdel vc_id (vc_id c) (v_cls v)) (v_pool v) (v_nextlo v)) cid oo lo h own cnt <-> lof v cid oo lo h own cnt).
Proof.
  intros v c cid oo lo h own cnt W Hc Hdead. unfold lof. cbn [v_cls]. split; intros [c2 [o2 [l [H1 [H2 [H3 H]]]]]].
  - apply (kdel_in vc_id) in H1. exists c2, o2, l. tauto.
  - exists c2, o2, l. split; [|auto]. apply (kdel_in vc_id). split; [exact H1|]. intros E.
    assert (c2 = c) by (eapply (nodup_key_eq vc_id); [exact (proj1 W)| |eapply kfind_in; eauto|]; auto). subst c2.
    destruct (vwf_client _ _ W Hc) as [_ N2]. destruct (N2 o2 H2) as [_ D]. rewrite (D (Hdead o2 H2)) in H3. destruct H3.
Qed.

Lemma lof_open : forall v c other h0 pool nextlo cid oo lo h own cnt,
  vwf v -> kfind vc_id (vc_id c) (v_cls v) = Some c ->
  (lof (vput v (mkVC (vc_id c) (vc_oofs c ++ [mkVO other h0 true []]) (vc_lows c)) pool nextlo) cid oo lo h own cnt
   <-> lof v cid oo lo h own cnt).
Proof.
  intros v c other h0 pool nextlo cid oo lo h own cnt W Hc.
  set (c' := mkVC (vc_id c) (vc_oofs c ++ [mkVO other h0 true []]) (vc_lows c)).
  assert (Hc' : kfind vc_id (vc_id c') (v_cls v) = Some c) by exact Hc.
  assert (Hcin : In c (v_cls v)) by (eapply kfind_in; eauto).
  unfold lof. cbn [vput v_cls]. split; intros [c2 [o2 [l [H1 [H2 [H3 H]]]]]].
  - apply (kupd_in_iff vc_id c' _ c c2 Hc') in H1. destruct H1 as [->|[H1 _]]; [|exists c2, o2, l; auto].
    cbn [c' vc_oofs] in H2. apply in_app_or in H2. destruct H2 as [H2|[<-|[]]]; [|destruct H3].
    exists c, o2, l. cbn [c' vc_id] in H. auto.
  - destruct (N.eq_dec (vc_id c2) (vc_id c)) as [Eid|Nid].
    + assert (c2 = c) by (eapply (nodup_key_eq vc_id); [exact (proj1 W)| | |]; eauto). subst c2.
      exists c', o2, l. split; [apply (kupd_in_iff vc_id c' _ c c' Hc'); left; reflexivity|].
      split; [cbn [c' vc_oofs]; apply in_or_app; left; exact H2|]. split; [exact H3|exact H].
    + exists c2, o2, l. split; [apply (kupd_in_iff vc_id c' _ c c2 Hc'); right; split; auto|auto].
Qed.

(* ---- the invariant ---------------------------------------------------------------------------------- *)
Definition linv (v : vstate) : Prop := vwf v /\ pool_ok v /\ low_ok v /\ tbl_ok v /\ ns v /\ lock_ok v.

(* ns and lock_ok only depend on the lock-owner files and the tables. *)
Lemma ns_sub : forall a b,
  (forall cid oo lo h own cnt, lof b cid oo lo h own cnt -> exists cnt', lof a cid oo lo h own cnt') -> ns a -> ns b.
Proof.
  intros a b Hsub Na cid oo1 lo1 oo2 lo2 h own c1 c2 H1 H2.
  destruct (Hsub _ _ _ _ _ _ H1) as [d1 G1]. destruct (Hsub _ _ _ _ _ _ H2) as [d2 G2]. eapply Na; eauto.
Qed.

Lemma lock_ok_same : forall a b,
  (forall cid oo lo h own cnt, lof b cid oo lo h own cnt <-> lof a cid oo lo h own cnt) ->
  (forall h id, tcount h id (v_pool b) = tcount h id (v_pool a)) -> lock_ok a -> lock_ok b.
Proof.
  intros a b Hl Ht [E O]. split.
  - intros cid oo lo h own cnt H. rewrite Ht. eapply E. apply Hl. exact H.
  - intros h id Hp. rewrite Ht in Hp. destruct (O h id Hp) as [cid [oo [lo [cnt H]]]]. exists cid, oo, lo, cnt. apply Hl. exact H.
Qed.

Lemma vtr_linv : forall a b, linv a -> vtr qvalid a b -> linv b.
Proof.
  intros a b [W [P [L [T [Nsa [E O]]]]]] Tr.
  pose proof (vtr_vwf _ _ _ W Tr) as Wb. pose proof (vtr_pool_ok _ _ _ W P Tr) as Pb.
  pose proof (vtr_low_ok _ _ _ W L Tr) as Lb. pose proof (vtr_tbl_ok _ _ T Tr) as Tb.
  split; [exact Wb|]. split; [exact Pb|]. split; [exact Lb|]. split; [exact Tb|].
  destruct Tr.
  - (* add *) split.
    + eapply ns_sub; [|exact Nsa]. intros cid oo lo h own cnt Hb. exists cnt. apply -> lof_add in Hb. exact Hb.
    + apply (lock_ok_same v); [intros; apply lof_add|reflexivity|split; assumption].
  - (* del *) split.
    + eapply ns_sub; [|exact Nsa]. intros cid oo lo h own cnt Hb. exists cnt. apply -> (lof_del v c) in Hb; auto.
    + apply (lock_ok_same v); [intros; apply (lof_del v c); auto|reflexivity|split; assumption].
  - (* open *) split.
    + eapply ns_sub; [|exact Nsa]. intros cid oo lo h1 own cnt Hb. exists cnt. apply -> (lof_open v c) in Hb; auto.
    + apply (lock_ok_same v); [intros; apply (lof_open v c); auto| |split; assumption].
      intros h0 id. unfold vput, tcount. cbn [v_pool]. rewrite pool_locks_open. reflexivity.
  - (* rmlof *)
    assert (Htarget : lof v (vc_id c) (vo_other o) (vl_other lf) (vo_handle o) (vl_owner lf) (vl_count lf)).
    { apply lof_mk; eapply kfind_in; eauto. }
    split.
    + eapply ns_sub; [|exact Nsa]. intros cid oo lo h own cnt Hb. exists cnt.
      apply -> (lof_rm v c o W H H0 lf) in Hb; [tauto|exact H2].
    + (* the table *)
      set (pool' := if unlock && (0 <? vl_count lf)%Z then unlock_all (vo_handle o) (vl_owner lf) (v_pool v) else v_pool v) in *.
      assert (Htc : forall h' id', tcount h' id' pool'
                = if unlock && (0 <? vl_count lf)%Z && (h' =? vo_handle o) && (id' =? vl_owner lf) then 0%Z
                  else tcount h' id' (v_pool v)).
      { intros h' id'. subst pool'. destruct (unlock && (0 <? vl_count lf)%Z); cbn [andb]; [|reflexivity].
        apply tcount_unlock_all. apply T. }
      assert (Hnot : forall cid oo lo h own cnt, lof v cid oo lo h own cnt ->
                ~ (cid = vc_id c /\ oo = vo_other o /\ lo = vl_other lf) -> ~ (h = vo_handle o /\ own = vl_owner lf)).
      { intros cid oo lo h own cnt Hx Hne [E1 E2]. subst h own.
        destruct (lof_unique v _ _ _ _ _ _ _ _ _ _ W L Nsa Hx Htarget) as [A1 [A2 [A3 _]]]. apply Hne. auto. }
      split; unfold vput; cbn [v_pool].
      * intros cid oo lo h own cnt Hb. apply -> (lof_rm v c o W H H0 lf) in Hb; [|exact H2]. destruct Hb as [Ha Hne].
        rewrite Htc. pose proof (Hnot _ _ _ _ _ _ Ha Hne) as Hn.
        destruct (unlock && (0 <? vl_count lf)%Z && (h =? vo_handle o) && (own =? vl_owner lf)) eqn:Eb; [|exact (E _ _ _ _ _ _ Ha)].
        exfalso. apply Hn. apply Bool.andb_true_iff in Eb. destruct Eb as [Eb E2]. apply Bool.andb_true_iff in Eb. destruct Eb as [_ E1].
        apply N.eqb_eq in E1, E2. auto.
      * intros h id Hp. rewrite Htc in Hp.
        destruct (unlock && (0 <? vl_count lf)%Z && (h =? vo_handle o) && (id =? vl_owner lf)) eqn:Eb; [lia|].
        destruct (O h id Hp) as [cid [oo [lo [cnt Ha]]]]. exists cid, oo, lo, cnt.
        apply <- (lof_rm v c o W H H0 lf); [|exact H2]. split; [exact Ha|]. intros [A1 [A2 A3]]. subst cid oo lo.
        (* then it is the removed file, whose count is not positive or whose entries were just unlocked *)
        assert (Eh : h = vo_handle o /\ id = vl_owner lf).
        { destruct (lof_at v c o _ _ _ _ _ _ W H H0 Ha eq_refl eq_refl) as [Eh [l [Hl [El [Eo _]]]]].
          split; [exact Eh|].
          assert (l = lf).
          { destruct (vwf_client _ _ W H) as [_ N2]. destruct (N2 o (kfind_in _ _ _ _ H0)) as [N3 _].
            eapply (nodup_key_eq vl_other); [exact N3|exact Hl|eapply kfind_in; eauto|exact El]. }
          subst l. congruence. }
        destruct Eh as [-> ->]. pose proof (E _ _ _ _ _ _ Htarget) as Ecnt. rewrite !N.eqb_refl in Eb.
        rewrite !Bool.andb_true_r in Eb. destruct unlock.
        -- cbn [andb] in Eb. apply Z.ltb_ge in Eb. lia.
        -- specialize (H3 eq_refl). lia.
  - (* close *) split.
    + eapply ns_sub; [|exact Nsa]. intros cid oo lo h own cnt Hb. exists cnt. apply -> (lof_dead v c o W H H0) in Hb; auto.
    + split; unfold vput, cput; cbn [v_pool].
      * intros cid oo lo h own cnt Hb.
        pose proof Hb as Ha. apply -> (lof_dead v c o W H H0) in Ha; [|exact H2].
        unfold tcount. rewrite pool_locks_close.
        destruct ((h =? vo_handle o) && (puse (vo_handle o) (v_pool v) <=? 1)) eqn:Eb; [|exact (E _ _ _ _ _ _ Ha)].
        (* the entry is gone, so no live open-owner file is left on this handle *)
        exfalso. apply Bool.andb_true_iff in Eb. destruct Eb as [E1 E2]. apply N.eqb_eq in E1. subst h.
        destruct Hb as [c2 [o2 [l [B1 [B2 [B3 [_ [_ [_ [B7 _]]]]]]]]]].
        assert (Hlive2 : vo_live o2 = true).
        { destruct Wb as [_ W2]. destruct (W2 c2 B1) as [_ N2]. destruct (N2 o2 B2) as [_ D].
          destruct (vo_live o2); [reflexivity|]. rewrite (D eq_refl) in B3. destruct B3. }
        pose proof (live_pmem _ c2 o2 Pb B1 B2 Hlive2) as Hm. rewrite B7 in Hm.
        unfold pmem, vput, cput in Hm. cbn [v_pool] in Hm. rewrite find_pfile_close, N.eqb_refl, E2 in Hm. discriminate.
      * intros h id Hp. unfold tcount in Hp. rewrite pool_locks_close in Hp.
        destruct ((h =? vo_handle o) && (puse (vo_handle o) (v_pool v) <=? 1)); [cbn in Hp; lia|].
        destruct (O h id Hp) as [cid [oo [lo [cnt Ha]]]]. exists cid, oo, lo, cnt. apply <- (lof_dead v c o W H H0); auto.
  - (* set *)
    assert (Htarget : lof v (vc_id c) (vo_other o) (vl_other lf) (vo_handle o) (vl_owner lf) (vl_count lf)).
    { apply lof_mk; eapply kfind_in; eauto. }
    set (dl := LS.set_delta (LS.set (pool_locks (vo_handle o) (v_pool v)) q)) in *.
    assert (Hm : pmem (vo_handle o) (v_pool v) = true).
    { eapply live_pmem; eauto; eapply kfind_in; eauto. }
    assert (Htc : forall h' id', tcount h' id' (pool_set_locks (vo_handle o) (LS.set_list (LS.set (pool_locks (vo_handle o) (v_pool v)) q)) (v_pool v))
              = if (h' =? vo_handle o) && (id' =? vl_owner lf) then (tcount h' id' (v_pool v) + dl)%Z else tcount h' id' (v_pool v)).
    { intros. apply tcount_set; assumption. }
    split.
    + eapply ns_sub; [|exact Nsa]. intros cid oo lo h own cnt Hb. unfold cput in Hb.
      apply -> (lof_upd v c o W H H0 lf) in Hb; [|exact H2]. destruct Hb as [[Ha _]|[E1 [E2 [E3 [E4 [E5 _]]]]]]; [eauto|].
      subst. eauto.
    + split; unfold vput, cput; cbn [v_pool].
      * intros cid oo lo h own cnt Hb. apply -> (lof_upd v c o W H H0 lf) in Hb; [|exact H2]. rewrite Htc.
        destruct Hb as [[Ha Hne]|[E1 [E2 [E3 [E4 [E5 E6]]]]]].
        -- destruct ((h =? vo_handle o) && (own =? vl_owner lf)) eqn:Eb; [|exact (E _ _ _ _ _ _ Ha)].
           exfalso. apply Bool.andb_true_iff in Eb. destruct Eb as [E1 E2]. apply N.eqb_eq in E1, E2. subst h own.
           destruct (lof_unique v _ _ _ _ _ _ _ _ _ _ W L Nsa Ha Htarget) as [A1 [A2 [A3 _]]]. apply Hne. auto.
        -- subst. rewrite !N.eqb_refl. cbn [andb]. rewrite (E _ _ _ _ _ _ Htarget). reflexivity.
      * intros h id Hp. rewrite Htc in Hp.
        destruct ((h =? vo_handle o) && (id =? vl_owner lf)) eqn:Eb.
        -- apply Bool.andb_true_iff in Eb. destruct Eb as [E1 E2]. apply N.eqb_eq in E1, E2. subst h id.
           exists (vc_id c), (vo_other o), (vl_other lf), (vl_count lf + dl)%Z.
           apply <- (lof_upd v c o W H H0 lf); [|exact H2]. right. repeat split; reflexivity.
        -- destruct (O h id Hp) as [cid [oo [lo [cnt Ha]]]]. exists cid, oo, lo, cnt.
           apply <- (lof_upd v c o W H H0 lf); [|exact H2]. left. split; [exact Ha|].
           intros [A1 [A2 A3]]. subst cid oo lo.
           destruct (lof_at v c o _ _ _ _ _ _ W H H0 Ha eq_refl eq_refl) as [Eh [l [Hl [El [Eo _]]]]].
           assert (l = lf).
           { destruct (vwf_client _ _ W H) as [_ N2]. destruct (N2 o (kfind_in _ _ _ _ H0)) as [N3 _].
             eapply (nodup_key_eq vl_other); [exact N3|exact Hl|eapply kfind_in; eauto|exact El]. }
           subst l h id. rewrite !N.eqb_refl in Eb. discriminate.
Qed.

Lemma vlocknew_linv : forall a b, linv a -> vlocknew qvalid a b -> ns b -> linv b.
Proof.
  intros a b [W [P [L [T [Nsa [E O]]]]]] Tr Nsb.
  pose proof (vlocknew_vwf _ _ _ W Tr) as Wb. pose proof (vlocknew_pool_ok _ _ _ W P Tr) as Pb.
  pose proof (vlocknew_low_ok _ _ _ W L Tr) as Lb. pose proof (vlocknew_tbl_ok _ _ T Tr) as Tb.
  split; [exact Wb|]. split; [exact Pb|]. split; [exact Lb|]. split; [exact Tb|]. split; [exact Nsb|].
  destruct Tr.
  set (dl := LS.set_delta (LS.set (pool_locks (vo_handle o) (v_pool v)) q)) in *.
  set (nl := mkVL lother oid (0 + dl)) in *.
  assert (Hm : pmem (vo_handle o) (v_pool v) = true).
  { eapply live_pmem; eauto; eapply kfind_in; eauto. }
  assert (Htc : forall h' id', tcount h' id' (pool_set_locks (vo_handle o) (LS.set_list (LS.set (pool_locks (vo_handle o) (v_pool v)) q)) (v_pool v))
            = if (h' =? vo_handle o) && (id' =? oid) then (tcount h' id' (v_pool v) + dl)%Z else tcount h' id' (v_pool v)).
  { intros. apply tcount_set; assumption. }
  assert (Hfresh : forall l, In l (vo_lofs o) -> vl_other l <> vl_other nl) by (intros l Hl; cbn; apply H2; exact Hl).
  match type of Nsb with ns ?b0 => set (b := b0) in * end.
  assert (Hnew : lof b (vc_id c) (vo_other o) lother (vo_handle o) oid (0 + dl)).
  { refine (proj2 (lof_new v c o W H H0 nl _ _ _ _ _ _ _ _ _ H1 Hfresh) _). right. repeat split; reflexivity. }
  (* no lock-owner file of the view before has this lock-owner object on this file *)
  assert (Hnone : forall cid oo lo cnt, ~ lof v cid oo lo (vo_handle o) oid cnt).
  { intros cid oo lo cnt Ha.
    assert (Hb : lof b cid oo lo (vo_handle o) oid cnt) by (refine (proj2 (lof_new v c o W H H0 nl _ _ _ _ _ _ _ _ _ H1 Hfresh) _); left; exact Ha).
    destruct (lof_unique b _ _ _ _ _ _ _ _ _ _ Wb Lb Nsb Hb Hnew) as [A1 [A2 [A3 _]]]. subst cid oo lo.
    destruct (lof_at v c o _ _ _ _ _ _ W H H0 Ha eq_refl eq_refl) as [_ [l [Hl [El _]]]].
    exact (H2 l Hl El). }
  assert (Hzero : tcount (vo_handle o) oid (v_pool v) = 0%Z).
  { pose proof (tcount_nonneg (vo_handle o) oid (v_pool v)) as Hn.
    destruct (Z_lt_le_dec 0 (tcount (vo_handle o) oid (v_pool v))) as [Hp|Hp]; [|lia].
    destruct (O _ _ Hp) as [cid [oo [lo [cnt Ha]]]]. exfalso. exact (Hnone _ _ _ _ Ha). }
  split; subst b; unfold vput; cbn [v_pool].
  - intros cid oo lo h own cnt Hb. apply (proj1 (lof_new v c o W H H0 nl _ _ _ _ _ _ _ _ _ H1 Hfresh)) in Hb. rewrite Htc.
    destruct Hb as [Ha|[E1 [E2 [E3 [E4 [E5 E6]]]]]].
    + destruct ((h =? vo_handle o) && (own =? oid)) eqn:Eb; [|exact (E _ _ _ _ _ _ Ha)].
      exfalso. apply Bool.andb_true_iff in Eb. destruct Eb as [E1 E2]. apply N.eqb_eq in E1, E2. subst h own.
      exact (Hnone _ _ _ _ Ha).
    + subst. cbn [nl vl_owner vl_count]. rewrite !N.eqb_refl. cbn [andb]. rewrite Hzero. reflexivity.
  - intros h id Hp. rewrite Htc in Hp.
    destruct ((h =? vo_handle o) && (id =? oid)) eqn:Eb.
    + apply Bool.andb_true_iff in Eb. destruct Eb as [E1 E2]. apply N.eqb_eq in E1, E2. subst h id.
      exists (vc_id c), (vo_other o), lother, (0 + dl)%Z. exact Hnew.
    + destruct (O h id Hp) as [cid [oo [lo [cnt Ha]]]]. exists cid, oo, lo, cnt.
      refine (proj2 (lof_new v c o W H H0 nl _ _ _ _ _ _ _ _ _ H1 Hfresh) _). left. exact Ha.
Qed.

(* no-sharing is preserved along paths (nothing but a LOCK creating a lock-owner file can break it) *)
Lemma vpath_linv : forall a b, vpath qvalid a b -> linv a -> linv b.
Proof. apply (vpath_inv qvalid linv). intros a b I T. eapply vtr_linv; eauto. Qed.

Lemma vstep_linv : forall a b, linv a -> vstep qvalid a b -> ns b -> linv b.
Proof.
  intros a b I [m [Hp Hl]] Nsb. pose proof (vpath_linv _ _ Hp I) as Im.
  destruct Hl as [<-|Hl]; [exact Im|]. eapply vlocknew_linv; eauto.
Qed.
