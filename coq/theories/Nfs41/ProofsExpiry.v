(* Lease expiry (C18): the idle-list invariant over all histories, and
   expiry_leaves_nothing. *)
From VF Require Export Nfs41.ProofsIdle Nfs41.ProofsAcctMain.
Open Scope N_scope.

(* ---- EXCHANGE_ID, CREATE_SESSION, DESTROY_* --------------------------------------------- *)
Lemma op_exchange_id_idle : forall o v st, idle_inv st -> side_inv st ->
  idle_inv (fst (fst (op_exchange_id o v st))).
Proof.
  intros o v st I S. unfold op_exchange_id.
  pose proof (enter_idle st I) as I1. pose proof (enter_side st S) as S1.
  destruct (enter st) as [st1 outs]. cbn [fst] in *.
  destruct (find _ _); cbn [fst]; [exact I1|].
  destruct I1 as [A1 [A2 A3]]. destruct S1 as [B1 _].
  set (cid := st_rng st1 + 1).
  assert (Hfresh : forall c2, In c2 (st_clients st1) -> c_id c2 <> cid).
  { intros c2 Hin E. specialize (B1 c2 Hin). subst cid. lia. }
  assert (Hnone : kfind c_id cid (st_clients st1) = None).
  { destruct (kfind c_id cid (st_clients st1)) eqn:E; [|reflexivity]. apply kfind_some in E. destruct E as [Hin E].
    exfalso. eapply Hfresh; eauto. }
  assert (Hni : ~ In cid (st_idle st1)).
  { intros Hin. apply A2 in Hin. unfold hold_of in Hin. rewrite find_client_k, Hnone in Hin. discriminate. }
  split; [cbn; apply NoDup_snoc; assumption|]. split.
  - intros id. unfold hold_of. cbn [st_clients st_idle set_idle set_clients set_rng].
    rewrite find_client_k, kfind_app, in_app_iff.
    specialize (A2 id). unfold hold_of in A2. rewrite find_client_k in A2.
    destruct (kfind c_id id (st_clients st1)) as [c2|] eqn:Ek.
    + rewrite A2. split; [auto|]. intros [H|[H|[]]]; [exact H|].
      subst id. rewrite Hnone in Ek. discriminate.
    + unfold kfind. cbn. destruct (cid =? id) eqn:E.
      * apply N.eqb_eq in E. split; [intros _; right; left; exact E|reflexivity].
      * apply N.eqb_neq in E. split; [discriminate|]. intros [H|[H|[]]]; [|contradiction].
        apply A2 in H. discriminate.
  - cbn. rewrite map_app. cbn. apply NoDup_snoc; [exact A3|]. intros Hin. apply in_map_iff in Hin.
    destruct Hin as [c2 [E Hin]]. eapply Hfresh; eauto.
Qed.

Lemma client_fields_idle : forall st c c1 X,
  idle_inv st -> find_client (c_id c) (st_clients st) = Some c -> c_id c1 = c_id c -> c_hold c1 = c_hold c ->
  st_idle X = st_idle st -> st_clients X = upd_client c1 (st_clients st) -> idle_inv X.
Proof.
  intros st c c1 X I Hf E1 E2 Hi Hc. eapply idle_inv_frame; [|exact I].
  destruct I as [_ [_ I3]]. exact (upd_hi st c X c1 I3 Hf Hi Hc E1 E2).
Qed.

Lemma cs_finish_idle : forall cid sq st, idle_inv st -> idle_inv (fst (cs_finish cid sq st)).
Proof.
  intros cid sq st I. unfold cs_finish. cbn [fst]. apply touch_idle.
  set (st3 := match find_client cid (st_clients st) with
              | Some c2 => set_clients st (upd_client (c_set_confirmed c2 true) (st_clients st))
              | None => st end).
  assert (I3 : idle_inv st3).
  { subst st3. destruct (find_client cid (st_clients st)) as [c2|] eqn:Ef; [|exact I].
    assert (Hcid : c_id c2 = cid) by (rewrite find_client_k in Ef; apply kfind_some in Ef; tauto).
    eapply (client_fields_idle st c2 (c_set_confirmed c2 true)); try reflexivity; auto. rewrite Hcid. exact Ef. }
  set (st4 := set_sessions (set_rng st3 (st_rng st3 + 1)) _).
  assert (I4 : idle_inv st4) by (eapply idle_inv_frame; [|exact I3]; apply hi_same; reflexivity).
  destruct (find_client cid (st_clients st4)) as [c2|] eqn:Ef; [|exact I4].
  assert (Hcid : c_id c2 = cid) by (rewrite find_client_k in Ef; apply kfind_some in Ef; tauto).
  eapply (client_fields_idle st4 c2 (c_set_cs c2 sq _)); try reflexivity; auto. rewrite Hcid. exact Ef.
Qed.

Lemma op_create_session_idle : forall c s st, idle_inv st -> idle_inv (fst (fst (op_create_session c s st))).
Proof.
  intros c s st I. unfold op_create_session.
  pose proof (enter_idle st I) as I1. destruct (enter st) as [st1 outs]. cbn [fst] in I1.
  destruct (find_client _ _); cbn [fst]; [|exact I1].
  destruct (s =? c_seq c0); cbn [fst]; [exact I1|].
  destruct (s =? _); cbn [fst]; [|exact I1].
  destruct (find _ _) as [x|].
  - destruct (0 <? c_hold x); cbn [fst]; [apply touch_idle; exact I1|].
    pose proof (empty_and_remove_idle (c_id x) st1 I1) as I2. destruct (empty_and_remove _ _) as [st2 o2]. cbn [fst] in I2.
    pose proof (cs_finish_idle c s st2 I2) as I3. destruct (cs_finish c s st2). exact I3.
  - pose proof (cs_finish_idle c s st1 I1) as I3. destruct (cs_finish c s st1). exact I3.
Qed.

Lemma op_destroy_clientid_idle : forall c st, idle_inv st -> idle_inv (fst (fst (op_destroy_clientid c st))).
Proof.
  intros c st I. unfold op_destroy_clientid.
  pose proof (enter_idle st I) as I1. destruct (enter st) as [st1 outs]. cbn [fst] in I1.
  destruct (find_client _ _); cbn [fst]; [|exact I1].
  match goal with |- idle_inv (fst (fst (if ?b then _ else _))) => destruct b end; cbn [fst];
    [exact I1|apply client_remove_idle; exact I1].
Qed.

Lemma op_destroy_session_idle : forall i st, idle_inv st -> idle_inv (fst (fst (op_destroy_session i st))).
Proof.
  intros i st I. unfold op_destroy_session.
  pose proof (enter_idle st I) as I1. destruct (enter st) as [st1 outs]. cbn [fst] in I1.
  destruct (find_session _ _); cbn [fst]; [|exact I1].
  eapply idle_inv_frame; [|exact I1]. apply hi_same; reflexivity.
Qed.

Lemma op_bind_conn_idle : forall i d st, idle_inv st -> idle_inv (fst (fst (op_bind_conn i d st))).
Proof.
  intros i d st I. unfold op_bind_conn. destruct (negb d); cbn [fst]; [exact I|].
  pose proof (enter_idle st I) as I1. destruct (enter st) as [st1 outs]. cbn [fst] in I1.
  destruct (find_session _ _); exact I1.
Qed.

Lemma solo_step_idle : forall tid s st, idle_inv st -> side_inv st -> idle_inv (fst (solo_step tid s st)).
Proof.
  intros tid s st I S. destruct s; cbn [solo_step]; try exact I.
  - pose proof (op_exchange_id_idle owner verifier st I S) as F. destruct (op_exchange_id _ _ _) as [[st1 outs] r]. exact F.
  - pose proof (op_create_session_idle clientid seq st I) as F. destruct (op_create_session _ _ _) as [[st1 outs] r]. exact F.
  - pose proof (op_destroy_session_idle id st I) as F. destruct (op_destroy_session _ _) as [[st1 outs] r]. exact F.
  - pose proof (op_destroy_clientid_idle id st I) as F. destruct (op_destroy_clientid _ _) as [[st1 outs] r]. exact F.
  - pose proof (op_bind_conn_idle id dir_valid st I) as F. destruct (op_bind_conn _ _ _) as [[st1 outs] r]. exact F.
Qed.

(* ---- opSequence ------------------------------------------------------------------------------ *)
Lemma same_hi_idle : forall st st', idle_inv st -> st_idle st' = st_idle st -> st_clients st' = st_clients st -> idle_inv st'.
Proof. intros st st' I H1 H2. exact (idle_inv_frame st st' (hi_same st st' H1 H2) I). Qed.

Lemma seq_begin_idle : forall tid sess sl sq cache ops st, idle_inv st ->
  idle_inv (fst (seq_begin tid sess sl sq cache ops st)).
Proof.
  intros tid sess sl sq cache ops st I. unfold seq_begin.
  pose proof (enter_idle st I) as I1. destruct (enter st) as [st1 outs]. cbn [fst] in I1.
  destruct (find_session _ _) as [ss|]; cbn [fst]; [|exact I1].
  destruct (nth_error _ _); cbn [fst]; [|exact I1].
  destruct (sq =? sl_seq s); cbn [fst]; [exact I1|].
  destruct (sq =? _); cbn [fst]; [|exact I1].
  destruct (sl_busy s).
  - destruct (find_thread _ _); cbn [fst]; eapply same_hi_idle; try exact I1; reflexivity.
  - destruct (_ <? _); cbn [fst]; [eapply same_hi_idle; try exact I1; reflexivity|].
    match goal with |- idle_inv (set_threads (hold ?i ?s2) _) =>
      assert (I2 : idle_inv s2) by (eapply same_hi_idle; [exact I1|reflexivity|reflexivity]);
      pose proof (hold_idle i s2 I2) as I3 end.
    eapply same_hi_idle; [exact I3|reflexivity|reflexivity].
Qed.

Lemma seq_end_idle : forall t st, idle_inv st -> idle_inv (fst (seq_end t st)).
Proof.
  intros t st I. unfold seq_end.
  pose proof (enter_idle st I) as I1. destruct (enter st) as [st1 outs]. cbn [fst] in *.
  pose proof (release_idle (t_client t) st1 I1) as I2.
  eapply same_hi_idle; [exact I2| |]; destruct (find_session _ _); reflexivity.
Qed.

Lemma section_idle : forall tid orc st, idle_inv st -> side_inv st -> idle_inv (fst (fst (section tid orc st))).
Proof.
  intros tid orc st I S. unfold section.
  destruct (find_thread tid (st_threads st)) as [t|]; cbn [fst]; [|exact I].
  destruct (t_ops t) as [|o rest].
  - pose proof (seq_end_idle t st I) as G. destruct (seq_end t st). exact G.
  - destruct (find_client (t_client t) (st_clients st)) as [c|] eqn:Ec; cbn [fst];
      [|eapply same_hi_idle; [exact I|reflexivity|reflexivity]].
    eapply same_hi_idle; [|reflexivity|reflexivity].
    assert (Hcid : c_id c = t_client t) by (rewrite find_client_k in Ec; apply kfind_some in Ec; tauto).
    assert (Hf : find_client (c_id c) (st_clients st) = Some c) by (rewrite Hcid; exact Ec).
    destruct I as [I1 [I2 I3]].
    destruct (t_phase t) eqn:Hph;
      try (eapply idle_inv_frame; [apply (op_section_hi st c I3 Hf); destruct o; try exact Logic.I; discriminate|repeat split; auto; apply I2]).
    destruct o; try (eapply idle_inv_frame; [apply (op_section_hi st c I3 Hf); exact Logic.I|repeat split; auto; apply I2]); cbn [op_section].
    + pose proof (op_exchange_id_idle owner verifier st (conj I1 (conj I2 I3)) S) as G. destruct (op_exchange_id _ _ _) as [[st1 outs] r]. exact G.
    + pose proof (op_create_session_idle clientid seq st (conj I1 (conj I2 I3))) as G. destruct (op_create_session _ _ _) as [[st1 outs] r]. exact G.
    + pose proof (op_destroy_session_idle id st (conj I1 (conj I2 I3))) as G. destruct (op_destroy_session _ _) as [[st1 outs] r]. exact G.
    + pose proof (op_destroy_clientid_idle id st (conj I1 (conj I2 I3))) as G. destruct (op_destroy_clientid _ _) as [[st1 outs] r]. exact G.
Qed.

Lemma step_idle : forall st e, idle_inv st -> side_inv st -> idle_inv (fst (step st e)).
Proof.
  intros st e I S. destruct e; cbn [step].
  - eapply same_hi_idle; [exact I|reflexivity|reflexivity].
  - apply solo_step_idle; assumption.
  - destruct (tid_used tid st); [exact I|apply seq_begin_idle; exact I].
  - pose proof (section_idle tid orc st I S) as G. destruct (section tid orc st) as [[st1 o1] u]. exact G.
Qed.

Theorem reachable_idle_inv : forall cfg c0 evs, idle_inv (fst (run (init cfg c0) evs)).
Proof.
  intros cfg c0 evs.
  assert (H : forall evs st, idle_inv st -> full_inv st -> idle_inv (fst (run st evs))).
  { induction evs0 as [|e tl IH]; intros st I F; cbn [run]; [exact I|].
    pose proof (step_idle st e I (proj2 F)) as I1. destruct (step_full st e F) as [F1 _].
    destruct (step st e) as [st1 o1]. cbn [fst] in *.
    specialize (IH st1 I1 F1). destruct (run st1 tl) as [st2 o2]. exact IH. }
  apply H; [|apply init_full].
  split; [constructor|]. split; [|constructor].
  intros id. unfold hold_of. cbn. split; [discriminate|intros []].
Qed.

(* ---- expiry -------------------------------------------------------------------------------- *)
(* Every incarnation in [ids] is present and its lease has lapsed: all are removed. *)
Lemma expire_all : forall ids st,
  NoDup ids -> NoDup (map c_id (st_clients st)) ->
  (forall id, In id ids -> exists c, find_client id (st_clients st) = Some c
                                     /\ c_seen c + cf_lease (st_cfg st) < st_now st) ->
  forall c', In c' (st_clients (fst (expire_list ids st))) -> In c' (st_clients st) /\ ~ In (c_id c') ids.
Proof.
  induction ids as [|id tl IH]; intros st Hnd Hcn Hall c' Hin; cbn [expire_list] in Hin.
  - cbn in Hin. auto.
  - destruct (Hall id (or_introl eq_refl)) as [c [Hf Hexp]].
    assert (Ex : expired st id = true) by (unfold expired; rewrite Hf; apply N.ltb_lt; exact Hexp).
    rewrite Ex in Hin.
    destruct (empty_and_remove_fields id st c Hcn Hf) as [F1 [F2 [F3 [F4 _]]]].
    destruct (empty_and_remove id st) as [st1 o1]. cbn [fst] in *.
    destruct (expire_list tl st1) as [st2 o2] eqn:E2. cbn [fst] in Hin.
    inversion Hnd as [|? ? Hni Hnd']; subst.
    assert (Hcn1 : NoDup (map c_id (st_clients st1))) by (rewrite F1; apply (kdel_nodup c_id); exact Hcn).
    assert (Hall1 : forall id2, In id2 tl -> exists c2, find_client id2 (st_clients st1) = Some c2
                                                       /\ c_seen c2 + cf_lease (st_cfg st1) < st_now st1).
    { intros id2 Hin2. destruct (Hall id2 (or_intror Hin2)) as [c2 [Hf2 He2]]. exists c2. rewrite F1, F3, F4.
      split; [|exact He2].
      change (kfind c_id id2 (kdel c_id id (st_clients st)) = Some c2).
      rewrite kfind_kdel_other; [exact Hf2|]. intros ->. contradiction. }
    pose proof (IH st1 Hnd' Hcn1 Hall1 c') as H. rewrite E2 in H. cbn [fst] in H.
    destruct (H Hin) as [Hin1 Hnt]. rewrite F1 in Hin1. apply (kdel_in c_id) in Hin1. destruct Hin1 as [Hin0 Hne].
    split; [exact Hin0|]. intros [E|E]; [congruence|contradiction].
Qed.

Theorem enter_after_all_leases_lapsed : forall cfg c0 evs,
  let st := fst (run (init cfg c0) evs) in
  st_threads st = [] ->
  (forall c, In c (st_clients st) -> c_seen c + cf_lease (st_cfg st) < N.max (st_now st) (st_clock st)) ->
  st_clients (fst (enter st)) = [] /\ st_sessions (fst (enter st)) = [] /\ st_threads (fst (enter st)) = []
  /\ forall h b, balance h b (snd (run (init cfg c0) evs) ++ snd (enter st)) = 0%Z.
Proof.
  intros cfg c0 evs st Hth Hexp.
  pose proof (reachable_full_inv cfg c0 evs) as [I S]. fold st in I, S.
  pose proof (reachable_idle_inv cfg c0 evs) as Id. fold st in Id.
  assert (Hcl : st_clients (fst (enter st)) = []).
  { unfold enter.
    set (st1 := if st_now st <? st_clock st then set_now st (st_clock st) else st).
    assert (Hnow : st_now st1 = N.max (st_now st) (st_clock st)).
    { subst st1. destruct (st_now st <? st_clock st) eqn:E; cbn.
      - apply N.ltb_lt in E. lia.
      - apply N.ltb_ge in E. lia. }
    assert (Hc1 : st_clients st1 = st_clients st) by (subst st1; destruct (st_now st <? st_clock st); reflexivity).
    assert (Hi1 : st_idle st1 = st_idle st) by (subst st1; destruct (st_now st <? st_clock st); reflexivity).
    assert (Hg1 : st_cfg st1 = st_cfg st) by (subst st1; destruct (st_now st <? st_clock st); reflexivity).
    destruct Id as [A1 [A2 A3]].
    destruct (st_clients (fst (expire_list (st_idle st1) st1))) as [|c' rest] eqn:Ec; [reflexivity|]. exfalso.
    assert (Hall : forall id, In id (st_idle st1) -> exists c, find_client id (st_clients st1) = Some c
                                                       /\ c_seen c + cf_lease (st_cfg st1) < st_now st1).
    { intros id Hin. rewrite Hi1 in Hin. apply A2 in Hin. unfold hold_of in Hin.
      destruct (find_client id (st_clients st)) as [c|] eqn:Ef; [|discriminate].
      exists c. rewrite Hc1, Hg1, Hnow. split; [exact Ef|]. apply Hexp.
      rewrite find_client_k in Ef. apply kfind_some in Ef. tauto. }
    assert (Hin' : In c' (st_clients (fst (expire_list (st_idle st1) st1)))) by (rewrite Ec; left; reflexivity).
    destruct (expire_all (st_idle st1) st1 (eq_ind_r (fun l => NoDup l) A1 Hi1)
                (eq_ind_r (fun l => NoDup (map c_id l)) A3 Hc1) Hall c' Hin') as [Hin0 Hni].
    apply Hni. rewrite Hi1. apply A2. rewrite Hc1 in Hin0.
    unfold hold_of. rewrite (in_clients_find st c' I Hin0).
    (* no compound in flight: nobody is held *)
    destruct I as [_ [_ [Cok _]]]. destruct (Cok c' Hin0) as [_ [_ H1]]. rewrite Hth in H1. cbn in H1.
    f_equal. lia. }
  pose proof (enter_side st S) as S1. pose proof (enter_frame st) as [HT _].
  pose proof (enter_goal st I) as [I1 H1].
  split; [exact Hcl|]. split.
  - destruct (st_sessions (fst (enter st))) as [|ss l] eqn:Es; [reflexivity|]. exfalso.
    destruct S1 as [_ B2]. specialize (B2 ss). rewrite Es in B2. specialize (B2 (or_introl eq_refl)).
    unfold has_client in B2. rewrite Hcl in B2. exact B2.
  - split; [rewrite HT; exact Hth|].
    intros h b. rewrite balance_app, balance_is_holders. fold st. rewrite <- H1.
    unfold holders. rewrite Hcl, HT, Hth. reflexivity.
Qed.
