(* C18 / C19 (NFSv4.1): the property theorems, and nothing else. *)
From VF Require Import Nfs41.Model Nfs41.Dump Nfs41.Spec Nfs41.Proofs.
Open Scope N_scope.

Example demo_reaches_open_lock_and_waiter :
  let st := fst (run (init cfg0 1000) demo_events) in
  length (st_pool st) = 1%nat /\ length (st_threads st) = 1%nat
  /\ map t_waiters (st_threads st) = [[4]] /\ st_panic st = false.
Proof. vm_compute. repeat split; reflexivity. Qed.
