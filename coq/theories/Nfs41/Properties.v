(* C18 / C19 (NFSv4.1): the property theorems, and nothing else.

   Model: Model.v (one event = one critical section of nfs41_program.go;
   [run] executes an arbitrary list of events, i.e. an arbitrary
   interleaving of compounds of any number of clients, with arbitrary
   file system results and clock advances).  [balance h b outs] = opens
   minus closes of access bit [b] seen by leaf [h]; [holders st h b] =
   open-owner files on [h] whose share count for [b] is positive + leaves
   opened by requests in flight.  The predicates evaluated on the
   implementation are in Spec.v. *)
From VF Require Import Nfs41.Proofs.
Open Scope N_scope.

(* ==== C18: open and lock state is accounted for and fully reclaimed ======== *)

(* At every point of every history the leaf is open, per access bit,
   exactly as often as there are holders: closes never exceed opens, no
   close while anything still entitles to the access, nothing left open. *)
Theorem open_close_balanced : forall cfg c0 evs h b,
  balance h b (snd (run (init cfg c0) evs)) = holders (fst (run (init cfg c0) evs)) h b.
Proof. exact balance_is_holders. Qed.
Print Assumptions open_close_balanced.

Theorem closes_never_exceed_opens : forall cfg c0 evs h b,
  (0 <= balance h b (outputs cfg c0 evs))%Z.
Proof. exact closes_le_opens. Qed.
Print Assumptions closes_never_exceed_opens.

(* shareCount = own share reservation + lock-owner files + I/O in flight. *)
Theorem share_count_is_exact : forall cfg c0 evs c o b,
  In c (st_clients (reachable cfg c0 evs)) -> In o (c_oofs c) ->
  Z.of_N (cnt b o) = (b2z (of_live o && bit b (of_share o)) + lofs_bits b (of_lofs o)
                      + clones (reachable cfg c0 evs) (c_id c) (of_other o) b)%Z.
Proof. exact share_count_exact. Qed.
Print Assumptions share_count_is_exact.

Theorem no_close_while_entitled : forall cfg c0 evs c o b,
  In c (st_clients (reachable cfg c0 evs)) -> In o (c_oofs c) ->
  of_live o = true -> bit b (of_share o) = true ->
  (1 <= balance (of_handle o) b (outputs cfg c0 evs))%Z.
Proof. exact open_while_entitled. Qed.
Print Assumptions no_close_while_entitled.

Theorem no_close_while_lock_state : forall cfg c0 evs c o lf b,
  In c (st_clients (reachable cfg c0 evs)) -> In o (c_oofs c) -> In lf (of_lofs o) ->
  bit b (lf_share lf) = true ->
  (1 <= balance (of_handle o) b (outputs cfg c0 evs))%Z.
Proof. exact open_while_lock_state. Qed.
Print Assumptions no_close_while_lock_state.

Theorem no_close_while_io_in_flight : forall cfg c0 evs t h b,
  In t (st_threads (reachable cfg c0 evs)) -> t_opens h b t = true ->
  (1 <= balance h b (outputs cfg c0 evs))%Z.
Proof. exact open_while_in_flight. Qed.
Print Assumptions no_close_while_io_in_flight.

(* Completely reclaimed: when no share count is positive any more (the
   files were closed, their state freed, the client re-registered or
   expired) and no request is in flight, every leaf is closed. *)
Theorem everything_closed_when_nothing_held : forall cfg c0 evs,
  (forall c o, In c (st_clients (reachable cfg c0 evs)) -> In o (c_oofs c) ->
               of_readers o = 0 /\ of_writers o = 0) ->
  st_threads (reachable cfg c0 evs) = [] ->
  forall h b, balance h b (outputs cfg c0 evs) = 0%Z.
Proof. exact all_closed_when_nothing_held. Qed.
Print Assumptions everything_closed_when_nothing_held.

Theorem no_records_no_open_leaf : forall cfg c0 evs,
  st_clients (reachable cfg c0 evs) = [] -> st_threads (reachable cfg c0 evs) = [] ->
  forall h b, balance h b (outputs cfg c0 evs) = 0%Z.
Proof. exact no_state_all_closed. Qed.
Print Assumptions no_records_no_open_leaf.

(* The bookkeeping invariant itself (unique IDs, share counts, hold
   counts = requests in flight, idle clients are not held, requests in
   flight refer to existing clients and open-owner files). *)
Theorem accounting_invariant : forall cfg c0 evs, full_inv (fst (run (init cfg c0) evs)).
Proof. exact reachable_full_inv. Qed.
Print Assumptions accounting_invariant.

(* The idle list is exactly the set of incarnations without requests in
   flight, without duplicates. *)
Theorem idle_list_invariant : forall cfg c0 evs, idle_inv (fst (run (init cfg c0) evs)).
Proof. exact reachable_idle_inv. Qed.
Print Assumptions idle_list_invariant.

(* expiry_leaves_nothing: when no request is in flight and every lease has
   lapsed, one enter() (the first thing every request does) leaves no
   client, no session, no request, and every leaf closed.  (That the
   opened-files pool is empty too is monitored, not proved: partial.) *)
Theorem expiry_leaves_nothing_partial : forall cfg c0 evs,
  let st := fst (run (init cfg c0) evs) in
  st_threads st = [] ->
  (forall c, In c (st_clients st) -> c_seen c + cf_lease (st_cfg st) < N.max (st_now st) (st_clock st)) ->
  st_clients (fst (enter st)) = [] /\ st_sessions (fst (enter st)) = [] /\ st_threads (fst (enter st)) = []
  /\ forall h b, balance h b (snd (run (init cfg c0) evs) ++ snd (enter st)) = 0%Z.
Proof. exact enter_after_all_leases_lapsed. Qed.
Print Assumptions expiry_leaves_nothing_partial.

(* State IDs are honoured only for the client, the file handle and the
   sequence number they were issued for. *)
Theorem stateid_scope_open : forall c cfh s w o,
  NoDup (map of_other (c_oofs c)) ->
  get_oofs c cfh s w = (Some o, NFS4_OK) ->
  In o (c_oofs c) /\ of_live o = true
  /\ ((s = sid_current /\ f_other cfh = of_other o /\ (w = true -> f_seq cfh = of_seq o))
      \/ (s_hi s = 0 /\ s_lo s = of_other o /\ fh_handle cfh = of_handle o
          /\ (s_seq s = 0 \/ s_seq s = of_seq o))).
Proof. exact open_stateid_scope. Qed.
Print Assumptions stateid_scope_open.

Theorem stateid_scope_lock : forall c cfh s o lf,
  get_lofs c cfh s = (Some (o, lf), NFS4_OK) ->
  In o (c_oofs c) /\ of_live o = true /\ In lf (of_lofs o)
  /\ ((s = sid_current /\ f_other cfh = lf_other lf)
      \/ (s_hi s = 0 /\ s_lo s = lf_other lf /\ fh_handle cfh = of_handle o
          /\ (s_seq s = 0 \/ s_seq s = lf_seq lf))).
Proof. exact lock_stateid_scope. Qed.
Print Assumptions stateid_scope_lock.

(* ==== C19: retransmitted requests execute once and get the same reply ====== *)

(* Same slot + same sequence ID: the reply comes from the slot's cache,
   nothing is executed, the state is the one enter() left ... *)
Theorem replay_answered_from_cache : forall tid sess sl sq cache ops st st' outs ss s,
  enter st = (st', outs) ->
  find_session sess (st_sessions st') = Some ss ->
  nth_error (ss_slots ss) (N.to_nat sl) = Some s ->
  sq = sl_seq s ->
  seq_begin tid sess sl sq cache ops st
  = (st', outs ++ [OReply tid (replay_reply (sl_res s) ops)]).
Proof. exact seq_begin_replay. Qed.
Print Assumptions replay_answered_from_cache.

(* ... and the cached reply of a compound that asked for caching (or is
   short) is the reply it got the first time. *)
Theorem replay_same_reply41 : forall cache res status ops,
  (1 <= length res)%nat ->
  Forall2 (fun r o => resop r = argop o) (tl res) (firstn (length (tl res)) ops) ->
  (length (tl res) <= length ops)%nat ->
  (status = NFS4_OK -> length (tl res) = length ops) ->
  (cache = true \/ (length res < 2)%nat \/ (length res = 2%nat /\ status <> NFS4_OK)) ->
  replay_reply (cached_reply cache res status) ops = mkReply status res.
Proof. exact replay_of_cached. Qed.
Print Assumptions replay_same_reply41.

(* Without caching the retransmission is told so; it is still not executed. *)
Theorem replay_uncached_not_reexecuted : forall r0 r1 rest status ops o otl,
  ops = o :: otl -> resop r1 = argop o ->
  (rest <> [] \/ status = NFS4_OK) ->
  replay_reply (cached_reply false (r0 :: r1 :: rest) status) ops
  = mkReply ERR_RETRY_UNCACHED_REP [r0; RStatus (resop r1) ERR_RETRY_UNCACHED_REP].
Proof. exact replay_of_uncached. Qed.
Print Assumptions replay_uncached_not_reexecuted.

(* The end of a compound stores exactly that in its slot. *)
Theorem misordered_no_effect : forall tid sess sl sq cache ops st st' outs ss s,
  enter st = (st', outs) ->
  find_session sess (st_sessions st') = Some ss ->
  nth_error (ss_slots ss) (N.to_nat sl) = Some s ->
  sq <> sl_seq s -> sq <> (sl_seq s + 1) mod u32 ->
  seq_begin tid sess sl sq cache ops st
  = (st', outs ++ [OReply tid (seq_error ERR_SEQ_MISORDERED)]).
Proof. exact seq_begin_misordered. Qed.
Print Assumptions misordered_no_effect.

(* A retransmission whose operations differ from the original's is never
   answered with the original's reply. *)
Theorem false_retry_detected : forall r ops i res a,
  nth_error (tl (cr_res r)) i = Some res -> nth_error ops i = Some a ->
  resop res <> argop a -> resop res <> OP_ILLEGAL ->
  replay_reply r ops = seq_error ERR_SEQ_FALSE_RETRY.
Proof. exact false_retry_other_operation. Qed.
Print Assumptions false_retry_detected.

Theorem false_retry_detected_fewer_ops : forall r ops,
  (length ops < length (tl (cr_res r)))%nat ->
  replay_reply r ops = seq_error ERR_SEQ_FALSE_RETRY.
Proof. exact false_retry_fewer_ops. Qed.
Print Assumptions false_retry_detected_fewer_ops.

Theorem false_retry_detected_other_length : forall r ops,
  cr_status r = NFS4_OK -> length (tl (cr_res r)) <> length ops ->
  replay_reply r ops = seq_error ERR_SEQ_FALSE_RETRY.
Proof. exact false_retry_other_length. Qed.
Print Assumptions false_retry_detected_other_length.

(* In every reachable state a busy slot has its compound in flight (with
   that slot and sequence ID), and compound identifiers are unique ... *)
Theorem busy_slot_has_compound : forall cfg c0 evs, seq_inv (fst (run (init cfg c0) evs)).
Proof. exact run_inv. Qed.
Print Assumptions busy_slot_has_compound.

(* ... so a duplicate that arrives meanwhile is registered with it: it is
   neither answered, nor lost, nor executed (enabledness) ... *)
Theorem inflight_duplicate_registered : forall cfg c0 evs st tid sess sl sq cache ops st1 outs ss s orig,
  st = fst (run (init cfg c0) evs) ->
  enter st = (st1, outs) ->
  find_session sess (st_sessions st1) = Some ss ->
  nth_error (ss_slots ss) (N.to_nat sl) = Some s ->
  sl_busy s = Some orig -> sq = (sl_seq s + 1) mod u32 -> sq <> sl_seq s ->
  exists t, find_thread orig (st_threads st1) = Some t /\ t_seq t = sq /\ t_sess t = sess /\ t_slot t = sl
    /\ seq_begin tid sess sl sq cache ops st
       = (set_threads st1 (upd_thread
            (mkThread (t_id t) (t_sess t) (t_slot t) (t_seq t) (t_cache t) (t_client t) (t_ops t)
                      (t_res t) (t_status t) (t_cfh t) (t_sfh t) (t_phase t) (t_waiters t ++ [tid]))
            (st_threads st1)), outs).
Proof. exact ProofsThreads.inflight_duplicate_registered. Qed.
Print Assumptions inflight_duplicate_registered.

(* ... and when the original completes, its result goes, unchanged, to the
   original and to every waiter, once each; a compound with no operation
   left completes at its next section (progress). *)
Theorem inflight_duplicate_gets_result : forall t st st' outs,
  enter st = (st', outs) ->
  snd (seq_end t st)
  = outs ++ OReply (t_id t) (mkReply (t_status t) (t_res t))
       :: map (fun w => OReply w (mkReply (t_status t) (t_res t))) (t_waiters t).
Proof. exact seq_end_delivers. Qed.
Print Assumptions inflight_duplicate_gets_result.

Theorem result_delivered_once : forall t st, find_thread (t_id t) (st_threads (fst (seq_end t st))) = None.
Proof. exact seq_end_removes. Qed.
Print Assumptions result_delivered_once.

Theorem finished_compound_completes : forall tid orc st t,
  find_thread tid (st_threads st) = Some t -> t_ops t = [] ->
  section tid orc st = (fst (seq_end t st), snd (seq_end t st), FsNone).
Proof. exact section_finishes. Qed.
Print Assumptions finished_compound_completes.

(* ==== non-vacuity ========================================================== *)
Example demo_reaches_open_lock_io_and_waiter :
  let st := fst (run (init cfg0 1000) demo_events) in
  length (st_pool st) = 1%nat
  /\ map t_phase (st_threads st) = [PhIoReg 1 1 mR]
  /\ map t_waiters (st_threads st) = [[4]]
  /\ holders st 1 true = 1%Z /\ holders st 1 false = 1%Z
  /\ st_panic st = false.
Proof. vm_compute. repeat split; reflexivity. Qed.

(* The predicates evaluated on the implementation hold of the model's own
   observation of that state, and of the final state (everything closed,
   every table empty). *)
Example monitor_holds_on_demo :
  let r := run (init cfg0 1000) demo_events in
  p_inv 2000 [] (obs_of (fst r) (snd r)) = ""%string.
Proof. vm_compute. reflexivity. Qed.

Example demo_end_leaves_nothing :
  let r := run (init cfg0 1000) demo_events_end in
  st_clients (fst r) = [] /\ st_sessions (fst r) = [] /\ st_pool (fst r) = [] /\ st_threads (fst r) = []
  /\ balance 1 true (snd r) = 0%Z /\ balance 1 false (snd r) = 0%Z
  /\ p_inv 2000 [] (obs_of (fst r) (snd r)) = ""%string.
Proof. vm_compute. repeat split; reflexivity. Qed.
