(* C18, leases: the idle list is ordered by lastSeen (so that enter() may
   stop at the first incarnation whose lease has not lapsed), and after
   every event no idle incarnation has a lapsed lease: now <= lastSeen +
   lease.  Then: the monitor predicate p_lease on the dump of every
   reachable state. *)
From Coq Require Import Lia.
From VF Require Export Nfs41.ProofsExpiry Nfs41.ProofsTheorems.
Open Scope N_scope.

Definition seen_of (st : state) (id : N) : N :=
  match find_client id (st_clients st) with Some c => c_seen c | None => 0 end.

Fixpoint sorted_by_f (f : N -> N) (l : list N) : Prop :=
  match l with
  | [] => True
  | a :: tl => (forall b, In b tl -> f a <= f b) /\ sorted_by_f f tl
  end.

(* sorted by lastSeen, nobody seen in the future *)
Definition lease_pre (st : state) : Prop :=
  sorted_by_f (seen_of st) (st_idle st) /\ forall id, In id (st_idle st) -> seen_of st id <= st_now st.
(* ... and nobody idle whose lease has lapsed *)
Definition lease_inv (st : state) : Prop :=
  lease_pre st /\ forall id, In id (st_idle st) -> st_now st <= seen_of st id + cf_lease (st_cfg st).

(* ---- sorted lists ----------------------------------------------------------------------------------------- *)
Lemma sorted_ext : forall f g l, (forall x, In x l -> f x = g x) -> sorted_by_f f l -> sorted_by_f g l.
Proof.
  intros f g l. induction l as [|a tl IH]; intros H S; [exact I|]. destruct S as [S1 S2]. split.
  - intros b Hb. rewrite <- (H a (or_introl eq_refl)), <- (H b (or_intror Hb)). apply S1. exact Hb.
  - apply IH; [intros x Hx; apply H; right; exact Hx|exact S2].
Qed.

Lemma sorted_filter : forall f p l, sorted_by_f f l -> sorted_by_f f (filter p l).
Proof.
  intros f p l. induction l as [|a tl IH]; intros S; [exact I|]. destruct S as [S1 S2]. cbn [filter].
  destruct (p a); [|apply IH; exact S2]. split; [|apply IH; exact S2].
  intros b Hb. apply filter_In in Hb. apply S1. tauto.
Qed.

Lemma sorted_snoc : forall f l x, sorted_by_f f l -> (forall a, In a l -> f a <= f x) -> sorted_by_f f (l ++ [x]).
Proof.
  intros f l x. induction l as [|a tl IH]; intros S H; cbn [app]; [split; [intros b []|exact I]|].
  destruct S as [S1 S2]. split.
  - intros b Hb. apply in_app_or in Hb. destruct Hb as [Hb|[<-|[]]]; [apply S1; exact Hb|apply H; left; reflexivity].
  - apply IH; [exact S2|intros a' Ha'; apply H; right; exact Ha'].
Qed.

(* ---- frames -------------------------------------------------------------------------------------------------- *)
Definition lframe (st st' : state) : Prop :=
  st_idle st' = st_idle st /\ st_now st' = st_now st /\ st_cfg st' = st_cfg st
  /\ forall id, seen_of st' id = seen_of st id.

Lemma lframe_refl : forall st, lframe st st.
Proof. intros. repeat split. Qed.

Lemma lframe_trans : forall a b c, lframe a b -> lframe b c -> lframe a c.
Proof.
  intros a b c [A1 [A2 [A3 A4]]] [B1 [B2 [B3 B4]]]. split; [congruence|]. split; [congruence|]. split; [congruence|].
  intros id. rewrite B4. apply A4.
Qed.

Lemma lease_pre_frame : forall st st', lframe st st' -> lease_pre st -> lease_pre st'.
Proof.
  intros st st' [F1 [F2 [F3 F4]]] [S B]. split.
  - rewrite F1. eapply sorted_ext; [|exact S]. intros x _. symmetry. apply F4.
  - intros id Hid. rewrite F1 in Hid. rewrite F2, F4. apply B. exact Hid.
Qed.

Lemma lease_inv_frame : forall st st', lframe st st' -> lease_inv st -> lease_inv st'.
Proof.
  intros st st' F [P E]. split; [eapply lease_pre_frame; eauto|]. destruct F as [F1 [F2 [F3 F4]]].
  intros id Hid. rewrite F1 in Hid. rewrite F2, F3, F4. apply E. exact Hid.
Qed.

Lemma lsame : forall st st', st_idle st' = st_idle st -> st_now st' = st_now st -> st_cfg st' = st_cfg st ->
  st_clients st' = st_clients st -> lframe st st'.
Proof. intros st st' H1 H2 H3 H4. repeat split; auto. intros id. unfold seen_of. rewrite H4. reflexivity. Qed.

(* Replacing the record of [c] by one with the same lastSeen. *)
Lemma seen_of_upd : forall st c c1 id,
  NoDup (map c_id (st_clients st)) -> find_client (c_id c) (st_clients st) = Some c -> c_id c1 = c_id c ->
  match find_client id (upd_client c1 (st_clients st)) with Some x => c_seen x | None => 0 end
  = if id =? c_id c then c_seen c1 else seen_of st id.
Proof.
  intros st c c1 id Hnd Hf E1. unfold seen_of.
  change (match kfind c_id id (kupd c_id c1 (st_clients st)) with Some x => c_seen x | None => 0 end
          = if id =? c_id c then c_seen c1 else match kfind c_id id (st_clients st) with Some c0 => c_seen c0 | None => 0 end).
  destruct (id =? c_id c) eqn:E.
  - apply N.eqb_eq in E. subst id. rewrite <- E1.
    assert (K : kfind c_id (c_id c1) (st_clients st) = Some c) by (rewrite E1; exact Hf).
    rewrite (kfind_kupd_same c_id c1 _ c K). reflexivity.
  - apply N.eqb_neq in E. rewrite (kfind_kupd_other c_id) by (rewrite E1; exact E). reflexivity.
Qed.

Lemma upd_lframe : forall st c X c1,
  NoDup (map c_id (st_clients st)) -> find_client (c_id c) (st_clients st) = Some c ->
  st_idle X = st_idle st -> st_now X = st_now st -> st_cfg X = st_cfg st -> st_clients X = upd_client c1 (st_clients st) ->
  c_id c1 = c_id c -> c_seen c1 = c_seen c -> lframe st X.
Proof.
  intros st c X c1 Hnd Hf H1 H2 H3 H4 E1 E2. repeat split; auto. intros id. unfold seen_of at 1. rewrite H4.
  rewrite (seen_of_upd st c c1 id Hnd Hf E1). destruct (id =? c_id c) eqn:E; [|reflexivity].
  apply N.eqb_eq in E. subst id. unfold seen_of. rewrite Hf. exact E2.
Qed.

Lemma oofs_remove_seen : forall o c pool c1 pool1 outs pn,
  oofs_remove o c pool = (c1, pool1, outs, pn) -> c_id c1 = c_id c /\ c_seen c1 = c_seen c.
Proof.
  intros o c pool c1 pool1 outs pn H. unfold oofs_remove in H.
  destruct (lofs_remove_all _ _ _ _ _) as [[[[o1 lows] pool0] outs1] pn1].
  destruct (oofs_downgrade _ _ _) as [[o2 outs2] pn2].
  destruct (pool_close _ _) as [pool2 pn3]. inversion H; subst. split; reflexivity.
Qed.

(* ---- operations under cis.lock leave idle list, clock and lastSeen alone -------------------------------- *)
Section CisLock.
  Variables (st : state) (c : client).
  Hypothesis Hnd : NoDup (map c_id (st_clients st)).
  Hypothesis Hf : find_client (c_id c) (st_clients st) = Some c.

  Ltac lf_leaf :=
    first
      [ apply lframe_refl
      | apply lsame; reflexivity
      | eapply (upd_lframe st c); [exact Hnd|exact Hf|reflexivity|reflexivity|reflexivity|reflexivity|reflexivity|reflexivity]
      | match goal with
        | H : oofs_remove _ c _ = (?c0, _, _, _) |- _ =>
          eapply (upd_lframe st c _ c0);
          [exact Hnd|exact Hf|reflexivity|reflexivity|reflexivity|reflexivity
          |exact (proj1 (oofs_remove_seen _ _ _ _ _ _ _ H))|exact (proj2 (oofs_remove_seen _ _ _ _ _ _ _ H))]
        end ].

  Ltac lf_leaves := repeat break_match; cbn [sr_st]; lf_leaf.

  Lemma op_section_lframe : forall o ph orc cfh sfh,
    match o with
    | OExchangeId _ _ | OCreateSession _ _ | ODestroySession _ | ODestroyClientid _ => ph <> PhNone
    | _ => True
    end ->
    lframe st (sr_st (op_section o ph orc c st cfh sfh)).
  Proof.
    intros o ph orc cfh sfh Hs. destruct ph.
    - destruct o; cbn [op_section]; try (exfalso; apply Hs; reflexivity);
        unfold op_open_begin, op_open_downgrade, op_close, op_lock, op_lock_run, op_lockt, op_locku,
               io_begin, op_free_stateid, done; lf_leaves.
    - cbn [op_section]. destruct o; try (unfold done; cbn [sr_st]; lf_leaf). unfold op_open_end. lf_leaves.
    - cbn [op_section sr_st]. lf_leaf.
    - cbn [op_section sr_st]. lf_leaf.
    - cbn [op_section]. unfold io_end_reg. lf_leaves.
    - cbn [op_section sr_st]. lf_leaf.
  Qed.
End CisLock.

(* ---- moving an incarnation to the tail with lastSeen = now; dropping incarnations ------------------------ *)
Lemma lease_sub : forall st st' (p : N -> bool),
  st_idle st' = filter p (st_idle st) -> st_now st' = st_now st -> st_cfg st' = st_cfg st ->
  (forall x, In x (st_idle st') -> seen_of st' x = seen_of st x) ->
  (lease_pre st -> lease_pre st') /\ (lease_inv st -> lease_inv st').
Proof.
  intros st st' p H1 H2 H3 H4.
  assert (P : lease_pre st -> lease_pre st').
  { intros [S B]. split.
    - eapply sorted_ext; [|rewrite H1; apply sorted_filter; exact S]. intros x Hx. symmetry. apply H4. exact Hx.
    - intros id Hid. rewrite H2, (H4 id Hid). apply B. rewrite H1 in Hid. apply filter_In in Hid. tauto. }
  split; [exact P|]. intros [Pr E]. split; [apply P; exact Pr|].
  intros id Hid. rewrite H2, H3, (H4 id Hid). apply E. rewrite H1 in Hid. apply filter_In in Hid. tauto.
Qed.

Lemma lease_move : forall st st' id,
  st_idle st' = idle_remove id (st_idle st) ++ [id] -> st_now st' = st_now st -> st_cfg st' = st_cfg st ->
  seen_of st' id = st_now st ->
  (forall x, x <> id -> In x (st_idle st) -> seen_of st' x = seen_of st x) ->
  lease_inv st -> lease_inv st'.
Proof.
  intros st st' id H1 H2 H3 H4 H5 [[S B] E].
  assert (Hold : forall x, In x (idle_remove id (st_idle st)) -> In x (st_idle st) /\ x <> id).
  { intros x Hx. unfold idle_remove in Hx. apply filter_In in Hx. destruct Hx as [Hx Hne].
    apply Bool.negb_true_iff, N.eqb_neq in Hne. auto. }
  assert (Hin : forall x, In x (st_idle st') -> (In x (st_idle st) /\ x <> id) \/ x = id).
  { intros x Hx. rewrite H1 in Hx. apply in_app_or in Hx. destruct Hx as [Hx|[<-|[]]]; [left; apply Hold; exact Hx|right; reflexivity]. }
  split; [split|].
  - rewrite H1. apply sorted_snoc.
    + eapply sorted_ext; [|apply sorted_filter; exact S]. intros x Hx. destruct (Hold x Hx) as [A1 A2]. symmetry. apply H5; assumption.
    + intros a Ha. destruct (Hold a Ha) as [A1 A2]. rewrite (H5 a A2 A1), H4. apply B. exact A1.
  - intros x Hx. rewrite H2. destruct (Hin x Hx) as [[A1 A2]| ->]; [rewrite (H5 x A2 A1); apply B; exact A1|rewrite H4; lia].
  - intros x Hx. rewrite H2, H3. destruct (Hin x Hx) as [[A1 A2]| ->]; [rewrite (H5 x A2 A1); apply E; exact A1|rewrite H4; lia].
Qed.

Lemma idle_remove_notin : forall id l, ~ In id l -> idle_remove id l = l.
Proof.
  intros id l H. unfold idle_remove. induction l as [|x l IH]; [reflexivity|]. cbn.
  destruct (x =? id) eqn:E; [apply N.eqb_eq in E; exfalso; apply H; left; exact E|].
  cbn. f_equal. apply IH. intros Hin. apply H. right. exact Hin.
Qed.

(* ---- hold, release, touch, removal ----------------------------------------------------------------------------- *)
Lemma idle_is_client : forall st id, idle_inv st -> In id (st_idle st) -> exists c, find_client id (st_clients st) = Some c /\ c_hold c = 0.
Proof.
  intros st id [_ [I2 _]] Hin. apply I2 in Hin. unfold hold_of in Hin.
  destruct (find_client id (st_clients st)) as [c|]; [|discriminate]. exists c. split; [reflexivity|]. congruence.
Qed.

Lemma hold_lease : forall id st, NoDup (map c_id (st_clients st)) -> lease_inv st -> lease_inv (hold id st).
Proof.
  intros id st I3 L. unfold hold. destruct (find_client id (st_clients st)) as [c|] eqn:Ef; [|exact L].
  pose proof (find_client_id' := fun (H : find_client id (st_clients st) = Some c) => H). clear find_client_id'.
  assert (Hcid : c_id c = id) by (rewrite find_client_k in Ef; apply (kfind_some c_id) in Ef; tauto).
  assert (Hf : find_client (c_id c) (st_clients st) = Some c) by (rewrite Hcid; exact Ef).
  assert (Hs : forall X, st_clients X = upd_client (c_set_hold c (c_hold c + 1) (c_seen c)) (st_clients st) ->
            forall x, seen_of X x = seen_of st x).
  { intros X HX x. unfold seen_of at 1. rewrite HX, (seen_of_upd st c (c_set_hold c (c_hold c + 1) (c_seen c)) x I3 Hf eq_refl).
    destruct (x =? c_id c) eqn:E; [|reflexivity]. apply N.eqb_eq in E. subst x. unfold seen_of. rewrite Hf. reflexivity. }
  destruct (c_hold c =? 0).
  - refine (proj2 (lease_sub st _ (fun x => negb (x =? id)) _ _ _ _) L); try reflexivity.
    intros x _. apply Hs. reflexivity.
  - eapply lease_inv_frame; [|exact L]. repeat split; try reflexivity. intros x. apply Hs. reflexivity.
Qed.

Lemma release_lease : forall id st, idle_inv st -> lease_inv st -> lease_inv (release id st).
Proof.
  intros id st Id L. unfold release. destruct (find_client id (st_clients st)) as [c|] eqn:Ef; [|exact L].
  assert (Hcid : c_id c = id) by (rewrite find_client_k in Ef; apply (kfind_some c_id) in Ef; tauto).
  assert (Hf : find_client (c_id c) (st_clients st) = Some c) by (rewrite Hcid; exact Ef).
  pose proof Id as [_ [I2 I3]].
  destruct (c_hold c =? 0) eqn:E0; [eapply lease_inv_frame; [|exact L]; apply lsame; reflexivity|].
  destruct (c_hold c =? 1).
  - assert (Hni : ~ In id (st_idle st)).
    { intros Hin. apply I2 in Hin. unfold hold_of in Hin. rewrite Ef in Hin. inversion Hin as [H0]. rewrite H0 in E0. discriminate. }
    apply (lease_move st _ id); try reflexivity.
    + cbn [st_idle set_idle]. rewrite (idle_remove_notin id _ Hni). reflexivity.
    + unfold seen_of. cbn [st_clients set_idle set_clients]. rewrite (seen_of_upd st c (c_set_hold c 0 (st_now st)) id I3 Hf eq_refl).
      rewrite <- Hcid, N.eqb_refl. reflexivity.
    + intros x Hne _. unfold seen_of at 1. cbn [st_clients set_idle set_clients]. rewrite (seen_of_upd st c (c_set_hold c 0 (st_now st)) x I3 Hf eq_refl).
      assert (E : x =? c_id c = false) by (apply N.eqb_neq; congruence). rewrite E. reflexivity.
    + exact L.
  - eapply lease_inv_frame; [|exact L].
    eapply (upd_lframe st c _ (c_set_hold c (N.pred (c_hold c)) (c_seen c))); try reflexivity; assumption.
Qed.

Lemma touch_lease : forall id st, NoDup (map c_id (st_clients st)) -> lease_inv st -> lease_inv (touch id st).
Proof.
  intros id st I3 L. unfold touch. destruct (find_client id (st_clients st)) as [c|] eqn:Ef; [|exact L].
  assert (Hcid : c_id c = id) by (rewrite find_client_k in Ef; apply (kfind_some c_id) in Ef; tauto).
  assert (Hf : find_client (c_id c) (st_clients st) = Some c) by (rewrite Hcid; exact Ef).
  destruct (c_hold c =? 0); [|exact L].
  apply (lease_move st _ id); try reflexivity.
  - unfold seen_of. cbn [st_clients set_idle set_clients]. rewrite (seen_of_upd st c (c_set_hold c 0 (st_now st)) id I3 Hf eq_refl).
    rewrite <- Hcid, N.eqb_refl. reflexivity.
  - intros x Hne _. unfold seen_of at 1. cbn [st_clients set_idle set_clients]. rewrite (seen_of_upd st c (c_set_hold c 0 (st_now st)) x I3 Hf eq_refl).
    assert (E : x =? c_id c = false) by (apply N.eqb_neq; congruence). rewrite E. reflexivity.
  - exact L.
Qed.

Lemma del_seen : forall st st' id, st_clients st' = del_client id (st_clients st) ->
  forall x, x <> id -> seen_of st' x = seen_of st x.
Proof.
  intros st st' id H x Hne. unfold seen_of. rewrite H.
  change (find_client x (del_client id (st_clients st))) with (kfind c_id x (kdel c_id id (st_clients st))).
  rewrite (kfind_kdel_other c_id) by exact Hne. reflexivity.
Qed.

Lemma removed_lease : forall st st' id,
  st_clients st' = del_client id (st_clients st) -> st_idle st' = idle_remove id (st_idle st) ->
  st_now st' = st_now st -> st_cfg st' = st_cfg st ->
  (lease_pre st -> lease_pre st') /\ (lease_inv st -> lease_inv st').
Proof.
  intros st st' id H1 H2 H3 H4. apply (lease_sub st st' (fun x => negb (x =? id))); auto.
  intros x Hx. apply (del_seen st st' id H1). rewrite H2 in Hx. unfold idle_remove in Hx. apply filter_In in Hx.
  destruct Hx as [_ Hne]. apply Bool.negb_true_iff, N.eqb_neq in Hne. exact Hne.
Qed.

Lemma client_remove_lease : forall id st, lease_inv st -> lease_inv (client_remove id st).
Proof.
  intros id st L. unfold client_remove. destruct (find_client id (st_clients st)); [|exact L].
  refine (proj2 (removed_lease st _ id _ _ _ _) L); reflexivity.
Qed.

Lemma empty_and_remove_lease : forall id st c, NoDup (map c_id (st_clients st)) -> find_client id (st_clients st) = Some c ->
  (lease_pre st -> lease_pre (fst (empty_and_remove id st))) /\ (lease_inv st -> lease_inv (fst (empty_and_remove id st))).
Proof.
  intros id st c Hnd Hf. destruct (empty_and_remove_fields id st c Hnd Hf) as [F1 [F2 [F3 [F4 _]]]].
  apply (removed_lease st _ id); assumption.
Qed.

(* ---- enter() ---------------------------------------------------------------------------------------------------- *)
Lemma expire_list_lease : forall ids st,
  idle_inv st -> st_idle st = ids -> lease_pre st -> lease_inv (fst (expire_list ids st)).
Proof.
  induction ids as [|id tl IH]; intros st Id Hids P; cbn [expire_list].
  - cbn [fst]. split; [exact P|]. intros x Hx. rewrite Hids in Hx. destruct Hx.
  - assert (Hin : In id (st_idle st)) by (rewrite Hids; left; reflexivity).
    destruct (idle_is_client st id Id Hin) as [c [Hf _]].
    destruct (expired st id) eqn:Ex.
    + pose proof (empty_and_remove_idle id st Id) as Id1.
      destruct (empty_and_remove_lease id st c (proj2 (proj2 Id)) Hf) as [P1 _]. specialize (P1 P).
      destruct (empty_and_remove_fields id st c (proj2 (proj2 Id)) Hf) as [_ [F2 _]].
      destruct (empty_and_remove id st) as [st1 o1]. cbn [fst] in *.
      assert (Hids1 : st_idle st1 = tl).
      { rewrite F2, Hids. destruct Id as [I1 _]. rewrite Hids in I1. inversion I1 as [|? ? Hni _]; subst.
        unfold idle_remove. cbn [filter]. rewrite N.eqb_refl. cbn [negb]. apply (idle_remove_notin id tl Hni). }
      specialize (IH st1 Id1 Hids1 P1). destruct (expire_list tl st1) as [st2 o2]. exact IH.
    + cbn [fst]. split; [exact P|]. unfold expired in Ex. rewrite Hf in Ex. apply N.ltb_ge in Ex.
      destruct P as [S B]. rewrite Hids in S. destruct S as [S1 _].
      assert (Hsid : seen_of st id = c_seen c) by (unfold seen_of; rewrite Hf; reflexivity).
      intros x Hx. rewrite Hids in Hx. destruct Hx as [<-|Hx]; [lia|]. specialize (S1 x Hx). lia.
Qed.

Lemma enter_lease : forall st, idle_inv st -> lease_pre st -> lease_inv (fst (enter st)).
Proof.
  intros st Id [S B]. unfold enter.
  set (st1 := if st_now st <? st_clock st then set_now st (st_clock st) else st).
  assert (Hi : st_idle st1 = st_idle st) by (subst st1; destruct (st_now st <? st_clock st); reflexivity).
  assert (Hc : st_clients st1 = st_clients st) by (subst st1; destruct (st_now st <? st_clock st); reflexivity).
  assert (Hn : st_now st <= st_now st1).
  { subst st1. destruct (st_now st <? st_clock st) eqn:E; cbn; [apply N.ltb_lt in E|]; lia. }
  assert (Id1 : idle_inv st1) by (eapply same_hi_idle; eauto).
  apply expire_list_lease; [exact Id1|reflexivity|]. split.
  - rewrite Hi. eapply sorted_ext; [|exact S]. intros x _. unfold seen_of. rewrite Hc. reflexivity.
  - intros id Hid. rewrite Hi in Hid. specialize (B id Hid). unfold seen_of in *. rewrite Hc. lia.
Qed.

(* ---- EXCHANGE_ID, CREATE_SESSION, DESTROY_* ---------------------------------------------------------------------- *)
Lemma op_exchange_id_lease : forall o v st, idle_inv st -> side_inv st -> lease_pre st ->
  lease_inv (fst (fst (op_exchange_id o v st))).
Proof.
  intros o v st Id Sd P. unfold op_exchange_id.
  pose proof (enter_lease st Id P) as L1. pose proof (enter_idle st Id) as Id1. pose proof (enter_side st Sd) as S1.
  destruct (enter st) as [st1 outs]. cbn [fst] in *.
  destruct (find _ (st_clients st1)) as [c|]; cbn [fst]; [exact L1|].
  set (cid := st_rng st1 + 1).
  assert (Hfresh : forall c', In c' (st_clients st1) -> c_id c' <> cid).
  { intros c' Hc'. destruct S1 as [B1 _]. specialize (B1 c' Hc'). subst cid. lia. }
  assert (Hni : ~ In cid (st_idle st1)).
  { intros Hin. destruct (idle_is_client st1 cid Id1 Hin) as [c' [Hf' _]].
    rewrite find_client_k in Hf'. apply (kfind_some c_id) in Hf'. destruct Hf' as [Hc' E]. exact (Hfresh c' Hc' E). }
  assert (Hnone : find_client cid (st_clients st1) = None).
  { destruct (find_client cid (st_clients st1)) as [c'|] eqn:E; [|reflexivity]. exfalso.
    rewrite find_client_k in E. apply (kfind_some c_id) in E. destruct E as [Hc' E]. exact (Hfresh c' Hc' E). }
  apply (lease_move st1 _ cid); try reflexivity.
  - cbn [st_idle set_idle]. rewrite (idle_remove_notin cid _ Hni). reflexivity.
  - unfold seen_of. cbn [st_clients set_idle set_clients set_rng]. rewrite find_client_k, (kfind_app c_id), <- find_client_k, Hnone.
    unfold kfind. cbn. rewrite N.eqb_refl. reflexivity.
  - intros x Hne Hx. unfold seen_of. cbn [st_clients set_idle set_clients set_rng].
    destruct (idle_is_client st1 x Id1 Hx) as [c' [Hf' _]].
    rewrite find_client_k, (kfind_app c_id), <- find_client_k, Hf'. reflexivity.
  - exact L1.
Qed.

Lemma upd_found_lframe : forall st cid (f : client -> client),
  NoDup (map c_id (st_clients st)) ->
  (forall c, c_id (f c) = c_id c /\ c_seen (f c) = c_seen c) ->
  forall st', st' = match find_client cid (st_clients st) with
                    | Some c2 => set_clients st (upd_client (f c2) (st_clients st))
                    | None => st end ->
  lframe st st' /\ NoDup (map c_id (st_clients st')).
Proof.
  intros st cid f Hnd Hf st' ->. destruct (find_client cid (st_clients st)) as [c2|] eqn:E; [|split; [apply lframe_refl|exact Hnd]].
  destruct (Hf c2) as [F1 F2]. assert (Hcid : c_id c2 = cid) by (rewrite find_client_k in E; apply (kfind_some c_id) in E; tauto).
  split.
  - eapply (upd_lframe st c2 _ (f c2)); try reflexivity; auto. rewrite Hcid. exact E.
  - cbn [st_clients set_clients]. rewrite upd_client_k, (kupd_keys c_id). exact Hnd.
Qed.

Lemma cs_finish_lease : forall cid sq st, NoDup (map c_id (st_clients st)) -> lease_inv st -> lease_inv (fst (cs_finish cid sq st)).
Proof.
  intros cid sq st Hnd L. unfold cs_finish. cbn [fst].
  set (st3 := match find_client cid (st_clients st) with
              | Some c2 => set_clients st (upd_client (c_set_confirmed c2 true) (st_clients st))
              | None => st end).
  destruct (upd_found_lframe st cid (fun c => c_set_confirmed c true) Hnd (fun c => conj eq_refl eq_refl) st3 eq_refl) as [F3 N3].
  set (st4 := set_sessions (set_rng st3 (st_rng st3 + 1))
                (mkSession (st_rng st3 + 1) cid (fresh_slots (cf_slots (st_cfg st3))) :: st_sessions st3)).
  assert (F4 : lframe st3 st4) by (apply lsame; reflexivity).
  assert (N4 : NoDup (map c_id (st_clients st4))) by exact N3.
  set (st5 := match find_client cid (st_clients st4) with
              | Some c2 => set_clients st4 (upd_client (c_set_cs c2 sq (Some (st_rng st3 + 1, sq))) (st_clients st4))
              | None => st4 end).
  destruct (upd_found_lframe st4 cid (fun c => c_set_cs c sq (Some (st_rng st3 + 1, sq))) N4
              (fun c => conj eq_refl eq_refl) st5 eq_refl) as [F5 N5].
  apply touch_lease; [exact N5|]. eapply lease_inv_frame; [|exact L].
  eapply lframe_trans; [exact F3|]. eapply lframe_trans; [exact F4|exact F5].
Qed.

Lemma op_create_session_lease : forall cid sq st, idle_inv st -> lease_pre st ->
  lease_inv (fst (fst (op_create_session cid sq st))).
Proof.
  intros cid sq st Id P. unfold op_create_session.
  pose proof (enter_lease st Id P) as L1. pose proof (enter_idle st Id) as Id1.
  destruct (enter st) as [st1 outs]. cbn [fst] in *.
  destruct (find_client cid (st_clients st1)) as [c|]; cbn [fst]; [|exact L1].
  destruct (sq =? c_seq c); cbn [fst]; [exact L1|]. destruct (sq =? _); cbn [fst]; [|exact L1].
  destruct (find _ _) as [x|] eqn:Ex.
  - destruct (0 <? c_hold x); cbn [fst]; [apply touch_lease; [exact (proj2 (proj2 Id1))|exact L1]|].
    apply find_some in Ex. destruct Ex as [Hxin _].
    assert (Hfx : find_client (c_id x) (st_clients st1) = Some x).
    { rewrite find_client_k. apply (kfind_in_nodup c_id); [exact (proj2 (proj2 Id1))|exact Hxin]. }
    destruct (empty_and_remove_lease (c_id x) st1 x (proj2 (proj2 Id1)) Hfx) as [_ L2]. specialize (L2 L1).
    pose proof (empty_and_remove_idle (c_id x) st1 Id1) as Id2.
    destruct (empty_and_remove (c_id x) st1) as [st2 outs2]. cbn [fst] in *.
    pose proof (cs_finish_lease cid sq st2 (proj2 (proj2 Id2)) L2) as L3.
    destruct (cs_finish cid sq st2) as [st3 r]. exact L3.
  - pose proof (cs_finish_lease cid sq st1 (proj2 (proj2 Id1)) L1) as L3.
    destruct (cs_finish cid sq st1) as [st3 r]. exact L3.
Qed.

Lemma op_destroy_clientid_lease : forall cid st, idle_inv st -> lease_pre st ->
  lease_inv (fst (fst (op_destroy_clientid cid st))).
Proof.
  intros cid st Id P. unfold op_destroy_clientid. pose proof (enter_lease st Id P) as L1.
  destruct (enter st) as [st1 outs]. cbn [fst] in *.
  destruct (find_client cid (st_clients st1)) as [c|]; cbn [fst]; [|exact L1].
  destruct (_ || _); cbn [fst]; [exact L1|]. apply client_remove_lease. exact L1.
Qed.

Lemma op_destroy_session_lease : forall i st, idle_inv st -> lease_pre st -> lease_inv (fst (fst (op_destroy_session i st))).
Proof.
  intros i st Id P. unfold op_destroy_session. pose proof (enter_lease st Id P) as L1.
  destruct (enter st) as [st1 outs]. cbn [fst] in *. destruct (find_session _ _); cbn [fst]; [|exact L1].
  eapply lease_inv_frame; [|exact L1]. apply lsame; reflexivity.
Qed.

Lemma op_bind_conn_lease : forall i d st, idle_inv st -> lease_inv st -> lease_inv (fst (fst (op_bind_conn i d st))).
Proof.
  intros i d st Id L. unfold op_bind_conn. destruct (negb d); cbn [fst]; [exact L|].
  pose proof (enter_lease st Id (proj1 L)) as L1. destruct (enter st) as [st1 outs]. cbn [fst] in *. destruct (find_session _ _); exact L1.
Qed.

Lemma solo_step_lease : forall tid s st, idle_inv st -> side_inv st -> lease_inv st -> lease_inv (fst (solo_step tid s st)).
Proof.
  intros tid s st Id Sd L. destruct s; cbn [solo_step]; try exact L.
  - pose proof (op_exchange_id_lease owner verifier st Id Sd (proj1 L)) as G. destruct (op_exchange_id _ _ _) as [[st1 outs] r]. exact G.
  - pose proof (op_create_session_lease clientid seq st Id (proj1 L)) as G. destruct (op_create_session _ _ _) as [[st1 outs] r]. exact G.
  - pose proof (op_destroy_session_lease id st Id (proj1 L)) as G. destruct (op_destroy_session _ _) as [[st1 outs] r]. exact G.
  - pose proof (op_destroy_clientid_lease id st Id (proj1 L)) as G. destruct (op_destroy_clientid _ _) as [[st1 outs] r]. exact G.
  - pose proof (op_bind_conn_lease id dir_valid st Id L) as G. destruct (op_bind_conn _ _ _) as [[st1 outs] r]. exact G.
Qed.

(* ---- opSequence, sections, events --------------------------------------------------------------------------------- *)
Lemma seq_begin_lease : forall tid sess sl sq cache ops st, idle_inv st -> lease_pre st ->
  lease_inv (fst (seq_begin tid sess sl sq cache ops st)).
Proof.
  intros tid sess sl sq cache ops st Id P. unfold seq_begin.
  pose proof (enter_lease st Id P) as L1. pose proof (enter_idle st Id) as Id1.
  destruct (enter st) as [st1 outs]. cbn [fst] in *.
  destruct (find_session sess (st_sessions st1)) as [ss|]; cbn [fst]; [|exact L1].
  destruct (nth_error (ss_slots ss) (N.to_nat sl)) as [s|]; cbn [fst]; [|exact L1].
  destruct (sq =? sl_seq s); cbn [fst]; [exact L1|]. destruct (sq =? _); cbn [fst]; [|exact L1].
  destruct (sl_busy s) as [orig|].
  - destruct (find_thread orig (st_threads st1)); cbn [fst]; (eapply lease_inv_frame; [|exact L1]); apply lsame; reflexivity.
  - destruct (cf_maxops (st_cfg st1) <? _); cbn [fst]; [eapply lease_inv_frame; [|exact L1]; apply lsame; reflexivity|].
    match goal with |- lease_inv (set_threads (hold ?i ?s0) _) =>
      assert (G : lease_inv (hold i s0));
        [apply hold_lease; [exact (proj2 (proj2 Id1))|eapply lease_inv_frame; [|exact L1]; apply lsame; reflexivity]
        |eapply lease_inv_frame; [|exact G]; apply lsame; reflexivity] end.
Qed.

Lemma seq_end_lease : forall t st, idle_inv st -> lease_pre st -> lease_inv (fst (seq_end t st)).
Proof.
  intros t st Id P. unfold seq_end.
  pose proof (enter_lease st Id P) as L1. pose proof (enter_idle st Id) as Id1.
  destruct (enter st) as [st1 outs]. cbn [fst] in *.
  pose proof (release_lease (t_client t) st1 Id1 L1) as L2.
  destruct (find_session (t_sess t) (st_sessions (release (t_client t) st1))); cbn [fst];
    (eapply lease_inv_frame; [|exact L2]); apply lsame; reflexivity.
Qed.

Lemma section_lease : forall tid orc st, idle_inv st -> side_inv st -> lease_inv st -> lease_inv (fst (fst (section tid orc st))).
Proof.
  intros tid orc st Id Sd L. unfold section.
  destruct (find_thread tid (st_threads st)) as [t|]; cbn [fst]; [|exact L].
  destruct (t_ops t) as [|o rest].
  - pose proof (seq_end_lease t st Id (proj1 L)) as G. destruct (seq_end t st). exact G.
  - destruct (find_client (t_client t) (st_clients st)) as [c|] eqn:Ec; cbn [fst];
      [|eapply lease_inv_frame; [|exact L]; apply lsame; reflexivity].
    assert (Hcid : c_id c = t_client t) by (rewrite find_client_k in Ec; apply (kfind_some c_id) in Ec; tauto).
    assert (Hf : find_client (c_id c) (st_clients st) = Some c) by (rewrite Hcid; exact Ec).
    assert (G : lease_inv (sr_st (op_section o (t_phase t) orc c st (t_cfh t) (t_sfh t)))).
    { destruct (t_phase t) eqn:Hph;
        try (eapply lease_inv_frame; [apply (op_section_lframe st c (proj2 (proj2 Id)) Hf); destruct o; try exact Logic.I; discriminate|exact L]).
      destruct o; try (eapply lease_inv_frame; [apply (op_section_lframe st c (proj2 (proj2 Id)) Hf); exact Logic.I|exact L]); cbn [op_section].
      - pose proof (op_exchange_id_lease owner verifier st Id Sd (proj1 L)) as G. destruct (op_exchange_id _ _ _) as [[st1 outs] r]. exact G.
      - pose proof (op_create_session_lease clientid seq st Id (proj1 L)) as G. destruct (op_create_session _ _ _) as [[st1 outs] r]. exact G.
      - pose proof (op_destroy_session_lease id st Id (proj1 L)) as G. destruct (op_destroy_session _ _) as [[st1 outs] r]. exact G.
      - pose proof (op_destroy_clientid_lease id st Id (proj1 L)) as G. destruct (op_destroy_clientid _ _) as [[st1 outs] r]. exact G. }
    eapply lease_inv_frame; [|exact G]. apply lsame; reflexivity.
Qed.

Lemma step_lease : forall st e, idle_inv st -> side_inv st -> lease_inv st -> lease_inv (fst (step st e)).
Proof.
  intros st e Id Sd L. destruct e; cbn [step].
  - eapply lease_inv_frame; [|exact L]. apply lsame; reflexivity.
  - apply solo_step_lease; assumption.
  - destruct (tid_used tid st); [exact L|apply seq_begin_lease; [exact Id|exact (proj1 L)]].
  - pose proof (section_lease tid orc st Id Sd L) as G. destruct (section tid orc st) as [[st1 o1] u]. exact G.
Qed.

Theorem reachable_lease_inv : forall cfg c0 evs, lease_inv (fst (run (init cfg c0) evs)).
Proof.
  intros cfg c0 evs.
  assert (H : forall evs st, lease_inv st -> idle_inv st -> full_inv st -> lease_inv (fst (run st evs))).
  { induction evs0 as [|e tl IH]; intros st L Id F; cbn [run]; [exact L|].
    pose proof (step_lease st e Id (proj2 F) L) as L1. pose proof (step_idle st e Id (proj2 F)) as Id1.
    destruct (step_full st e F) as [F1 _].
    destruct (step st e) as [st1 o1]. cbn [fst] in *.
    specialize (IH st1 L1 Id1 F1). destruct (run st1 tl) as [st2 o2]. exact IH. }
  apply H; [| |apply init_full].
  - split; [split; [exact I|intros id []]|intros id []].
  - split; [constructor|]. split; [|constructor]. intros id. unfold hold_of. cbn. split; [discriminate|intros []].
Qed.

(* stated on the model state *)
Lemma no_lapsed_idle : forall cfg c0 evs c,
  let st := reachable cfg c0 evs in
  In c (st_clients st) -> c_hold c = 0 -> st_now st <= c_seen c + cf_lease (st_cfg st).
Proof.
  intros cfg c0 evs c st Hc Hh.
  pose proof (reachable_lease_inv cfg c0 evs) as [_ E]. pose proof (reachable_idle_inv cfg c0 evs) as [_ [I2 I3]].
  fold (reachable cfg c0 evs) in E, I2, I3. fold st in E, I2, I3.
  assert (Hf : find_client (c_id c) (st_clients st) = Some c) by (rewrite find_client_k; apply (kfind_in_nodup c_id); assumption).
  assert (Hin : In (c_id c) (st_idle st)) by (apply I2; unfold hold_of; rewrite Hf, Hh; reflexivity).
  specialize (E (c_id c) Hin). unfold seen_of in E. rewrite Hf in E. exact E.
Qed.

