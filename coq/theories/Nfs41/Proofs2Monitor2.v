(* Monitor link, C20 state predicates: p_owner and p_locks of Spec.v hold on
   the dump of every reachable state of the model (p_owner's lock-table
   part and p_locks under the hypotheses of the lockCount invariant). *)
From Coq Require Import Lia.
From VF Require Import Nfs41.Spec Nfs41.ProofsMonitor.
From VF Require Export Nfs41.Proofs2Monitor Nfs41.Proofs2Excl.
Local Open Scope string_scope.
Open Scope N_scope.

Lemma check_true : forall b k, b = true -> check b k = "".
Proof. intros b k ->. reflexivity. Qed.

(* ---- sums with one non-zero term --------------------------------------------------------------------- *)
Lemma sumz_single : forall {A} (key : A -> N) (f : A -> Z) l x,
  NoDup (map key l) -> In x l -> (forall y, In y l -> key y <> key x -> f y = 0%Z) -> sumz f l = f x.
Proof.
  intros A key f l x. induction l as [|y l IH]; intros Hnd Hin Hz; [destruct Hin|].
  cbn in Hnd. inversion Hnd as [|? ? Hni Hnd']; subst. cbn [sumz]. destruct Hin as [->|Hin].
  - rewrite (sumz_const0 f l); [lia|]. intros z Hz'. apply Hz; [right; exact Hz'|].
    intros E. apply Hni. rewrite <- E. apply in_map. exact Hz'.
  - rewrite (Hz y (or_introl eq_refl)).
    + rewrite IH; auto. intros z Hz' Hne. apply Hz; [right; exact Hz'|exact Hne].
    + intros E. apply Hni. rewrite E. apply in_map. exact Hin.
Qed.

Lemma sumZ_filter : forall {A} (g : A -> Z) (p : A -> bool) l,
  sumZ (map g (filter p l)) = sumz (fun x => if p x then g x else 0%Z) l.
Proof.
  intros A g p l. induction l as [|x l IH]; [reflexivity|]. cbn [filter sumz].
  destruct (p x); cbn [map sumZ]; rewrite IH; lia.
Qed.

Lemma length_sort : forall {A} (key : A -> N) (l : list A), length (sort_by key l) = length l.
Proof.
  intros A key l. unfold sort_by. induction l as [|x l IH]; [reflexivity|]. cbn [fold_right].
  assert (H : forall y l0, length (insert key y l0) = Datatypes.S (length l0)).
  { intros y l0. induction l0 as [|z l0 IH0]; [reflexivity|]. cbn [insert]. destruct (key y <=? key z); cbn [length]; [reflexivity|].
    rewrite IH0. reflexivity. }
  rewrite H, IH. reflexivity.
Qed.

(* ---- find in a sorted list with unique keys ------------------------------------------------------------ *)
Lemma find_unique : forall {A} (p : A -> bool) l x,
  In x l -> p x = true -> (forall y, In y l -> p y = true -> y = x) -> find p l = Some x.
Proof.
  intros A p l x Hin Hp Hu. destruct (find p l) as [y|] eqn:E.
  - apply find_some in E. destruct E as [Hy Py]. f_equal. apply Hu; assumption.
  - eapply find_none in E; eauto. congruence.
Qed.

(* ---- the lock-owner files of a dump ------------------------------------------------------------------- *)
Lemma all_oofs_iff : forall st co, In co (all_oofs (dump_of st)) <->
  exists c o, In c (st_clients st) /\ In o (c_oofs c) /\ of_live o = true /\ co = (dump_client c, dump_oofs c o).
Proof.
  intros st co. unfold all_oofs. rewrite in_flat_map. cbn [dump_of d_clients]. split.
  - intros [dc [Hdc Hco]]. apply sort_in in Hdc. apply in_map_iff in Hdc. destruct Hdc as [c [<- Hc]].
    apply in_map_iff in Hco. destruct Hco as [dof [<- Hd]]. cbn [dump_client dc_oofs] in Hd.
    apply sort_in in Hd. apply in_map_iff in Hd. destruct Hd as [o [<- Ho]]. unfold live_oofs in Ho.
    apply filter_In in Ho. destruct Ho as [Ho Hl]. exists c, o. auto.
  - intros [c [o [Hc [Ho [Hl ->]]]]]. exists (dump_client c). split; [apply sort_in; apply in_map; exact Hc|].
    apply in_map. cbn [dump_client dc_oofs]. apply sort_in. apply in_map. unfold live_oofs. apply filter_In. auto.
Qed.

Lemma all_lofs_iff : forall st col, In col (all_lofs (dump_of st)) <->
  exists c o lf, In c (st_clients st) /\ In o (c_oofs c) /\ of_live o = true /\ In lf (of_lofs o)
                 /\ col = (dump_client c, dump_oofs c o, dump_lofs c lf).
Proof.
  intros st col. unfold all_lofs. rewrite in_flat_map. split.
  - intros [co [Hco Hcol]]. apply all_oofs_iff in Hco. destruct Hco as [c [o [Hc [Ho [Hl ->]]]]].
    apply in_map_iff in Hcol. destruct Hcol as [dl [<- Hd]]. cbn [snd dump_oofs do_lofs] in Hd.
    apply sort_in in Hd. apply in_map_iff in Hd. destruct Hd as [lf [<- Hlf]]. exists c, o, lf. auto.
  - intros [c [o [lf [Hc [Ho [Hl [Hlf ->]]]]]]]. exists (dump_client c, dump_oofs c o). split.
    + apply all_oofs_iff. exists c, o. auto.
    + apply in_map. cbn [snd dump_oofs do_lofs]. apply sort_in. apply in_map. exact Hlf.
Qed.

Lemma all_lofs_sum : forall st (g : d_client * d_oofs * d_lofs -> Z),
  sumz g (all_lofs (dump_of st))
  = sumz (fun c => sumz (fun o => sumz (fun lf => g (dump_client c, dump_oofs c o, dump_lofs c lf)) (of_lofs o))
                        (live_oofs c)) (st_clients st).
Proof.
  intros st g. unfold all_lofs, all_oofs. rewrite sumz_flat_map, sumz_flat_map. cbn [dump_of d_clients].
  rewrite sort_sumz, sumz_map. apply sumz_ext. intros c _.
  rewrite sumz_map. cbn [dump_client dc_oofs]. rewrite sort_sumz, sumz_map. apply sumz_ext. intros o _.
  rewrite sumz_map. cbn [snd dump_oofs do_lofs]. rewrite sort_sumz, sumz_map. reflexivity.
Qed.

(* ---- who owns a lock-owner object ------------------------------------------------------------------------ *)
Section Names.
  Variables (cfg : config) (c0 : N) (evs : list event).
  Let st := reachable cfg c0 evs.

  Lemma lowner_name_registered : forall c x, In c (st_clients st) -> In x (c_lowners c) ->
    lowner_name (lo_id x) (st_clients st) = Some (c_id c, lo_key x).
  Proof.
    intros c x Hc Hx. destruct (one_owner_one_object_lemma cfg c0 evs) as [_ [OG OO]]. fold st in OG, OO.
    assert (G : forall l, (forall c', In c' l -> In c' (st_clients st)) -> In c l ->
              lowner_name (lo_id x) l = Some (c_id c, lo_key x)).
    { induction l as [|c1 l IH]; intros Hsub Hin; [destruct Hin|]. cbn [lowner_name].
      destruct (find_lowner_id (lo_id x) (c_lowners c1)) as [x1|] eqn:E.
      - apply find_lowner_id_some in E. destruct E as [Hx1 E1].
        destruct (OG c1 c x1 x (Hsub c1 (or_introl eq_refl)) Hc Hx1 Hx E1) as [-> ->]. reflexivity.
      - destruct Hin as [->|Hin].
        + exfalso. destruct (OO c Hc) as [_ [Hids _]]. rewrite (find_lowner_id_in _ x Hids Hx) in E. discriminate.
        + apply IH; [intros c' Hc'; apply Hsub; right; exact Hc'|exact Hin]. }
    apply G; auto.
  Qed.

  Lemma dump_lofs_registered : forall c o lf, In c (st_clients st) -> In o (c_oofs c) -> In lf (of_lofs o) ->
    exists x, In x (c_lowners c) /\ lo_id x = lf_owner lf
              /\ dump_lofs c lf = mkDLofs (lf_other lf) (lf_seq lf) (lo_key x) 0 (mask_to_N (lf_share lf)) (lf_count lf).
  Proof.
    intros c o lf Hc Ho Hlf. destruct (one_owner_one_object_lemma cfg c0 evs) as [_ [_ OO]]. fold st in OO.
    destruct (OO c Hc) as [_ [_ [Oreg _]]]. destruct (Oreg o lf Ho Hlf) as [x [Hx Hin]].
    exists x. split; [exact Hin|]. split; [apply find_lowner_id_some in Hx; tauto|]. unfold dump_lofs. rewrite Hx. reflexivity.
  Qed.

  (* the table of a handle in the dump *)
  Lemma dpool_locks_dump : forall h,
    dpool_locks h (dump_of st) = map (dump_lock st) (pool_locks h (st_pool st)).
  Proof.
    intros h. unfold dpool_locks, pool_locks, find_dpfile.
    pose proof (pool_handles_unique cfg c0 evs) as Hnd. fold st in Hnd.
    destruct (find_pfile h (st_pool st)) as [p|] eqn:E.
    - assert (Hp : In p (st_pool st) /\ pf_handle p = h) by (rewrite find_pfile_k in E; apply (kfind_some pf_handle) in E; exact E).
      destruct Hp as [Hp Hh].
      set (dp := mkDPfile (pf_handle p) (Z.of_N (pf_use p)) (map (dump_lock st) (pf_locks p))).
      rewrite (find_unique _ _ dp); [reflexivity| | |].
      + cbn [dump_of d_pool]. apply sort_in. apply in_map_iff. exists p. auto.
      + cbn. apply N.eqb_eq. exact Hh.
      + intros y Hy Py. cbn [dump_of d_pool] in Hy. apply sort_in in Hy. apply in_map_iff in Hy. destruct Hy as [p2 [<- Hp2]].
        cbn in Py. apply N.eqb_eq in Py.
        assert (p2 = p) by (eapply (nodup_key_eq pf_handle); eauto; congruence). subst p2. reflexivity.
    - destruct (find _ (d_pool (dump_of st))) as [dp|] eqn:E2; [|reflexivity]. exfalso.
      apply find_some in E2. destruct E2 as [Hy Py]. cbn [dump_of d_pool] in Hy. apply sort_in in Hy.
      apply in_map_iff in Hy. destruct Hy as [p2 [<- Hp2]]. cbn in Py. apply N.eqb_eq in Py.
      unfold find_pfile in E. eapply find_none in E; eauto. cbn in E. apply N.eqb_neq in E. contradiction.
  Qed.
End Names.

(* ---- p_owner ---------------------------------------------------------------------------------------------- *)
Lemma countz_one : forall {A} (key : A -> N) l x, NoDup (map key l) -> In x l ->
  countz (fun y => key y =? key x) l = 1%Z.
Proof.
  intros A key l x Hnd Hin. unfold countz.
  rewrite (sumz_single key (fun y => b2z (key y =? key x)) l x Hnd Hin).
  - rewrite N.eqb_refl. reflexivity.
  - intros y _ Hne. apply N.eqb_neq in Hne. rewrite Hne. reflexivity.
Qed.

Lemma length_flat_map_insert : forall {A B} (key : A -> N) (g : A -> list B) x l,
  length (flat_map g (insert key x l)) = (length (g x) + length (flat_map g l))%nat.
Proof.
  intros A B key g x l. induction l as [|z l IH]; cbn [insert flat_map]; [rewrite app_length; reflexivity|].
  destruct (key x <=? key z); cbn [flat_map]; rewrite !app_length; [reflexivity|]. rewrite IH. lia.
Qed.

Lemma length_flat_map_sort : forall {A B} (key : A -> N) (g : A -> list B) l,
  length (flat_map g (sort_by key l)) = length (flat_map g l).
Proof.
  intros A B key g l. unfold sort_by. induction l as [|x l IH]; [reflexivity|]. cbn [fold_right flat_map].
  rewrite length_flat_map_insert, app_length, IH. reflexivity.
Qed.

Section Owner.
  Variables (cfg : config) (c0 : N) (evs : list event).
  Let st := reachable cfg c0 evs.

  (* every lock-owner file refers to the registered object *)
  Lemma p_owner_lofs : all_ok (fun col => check (dl_tag (snd col) =? 0)%Z "C20:owner-not-registered") (all_lofs (dump_of st)) = "".
  Proof.
    apply all_ok_ok. intros col Hcol. apply check_true. apply all_lofs_iff in Hcol.
    destruct Hcol as [c [o [lf [Hc [Ho [_ [Hlf ->]]]]]]].
    destruct (dump_lofs_registered cfg c0 evs c o lf Hc Ho Hlf) as [x [_ [_ E]]]. cbn [snd]. fold st. rewrite E. reflexivity.
  Qed.

  (* fileCount *)
  Lemma p_owner_filecount :
    all_ok (fun c => all_ok (fun kf =>
       check ((0 <? snd kf)%Z
              && Z.eqb (snd kf) (countb (fun col => (dc_id (fst (fst col)) =? dc_id c) && (dl_key (snd col) =? fst kf)) (all_lofs (dump_of st)))
              && Z.eqb (countb (fun kf' => fst kf' =? fst kf) (dc_lowners c)) 1) "C20:owner-filecount") (dc_lowners c))
      (d_clients (dump_of st)) = "".
  Proof.
    apply all_ok_ok. intros dc Hdc. apply all_ok_ok. intros kf Hkf. apply check_true.
    cbn [dump_of d_clients] in Hdc. apply sort_in in Hdc. apply in_map_iff in Hdc. destruct Hdc as [c [<- Hc]].
    cbn [dump_client dc_lowners dc_id] in *. apply sort_in in Hkf. apply in_map_iff in Hkf. destruct Hkf as [x [<- Hx]].
    cbn [fst snd].
    destruct (one_owner_one_object_lemma cfg c0 evs) as [_ [_ OO]]. fold st in OO.
    destruct (OO c Hc) as [Hkeys [Hids [Oreg [Ofiles Oown]]]]. destruct (Ofiles x Hx) as [Ef Hfp].
    pose proof (reachable_full_inv cfg c0 evs) as [I _]. fold st in I.
    apply Bool.andb_true_iff. split; [apply Bool.andb_true_iff; split|].
    - apply Z.ltb_lt. lia.
    - apply Z.eqb_eq. rewrite Ef, countb_countz. unfold countz at 1. rewrite all_lofs_sum.
      rewrite (sumz_single c_id _ (st_clients st) c (proj1 I) Hc).
      + unfold lock_files. cbn [fst snd dump_client dc_id]. rewrite N.eqb_refl. unfold live_oofs.
        rewrite sumz_filter_zero.
        * apply sumz_ext. intros o Ho. unfold countz. apply sumz_ext. intros lf Hlf. f_equal. cbn [andb].
          destruct (dump_lofs_registered cfg c0 evs c o lf Hc Ho Hlf) as [x2 [Hx2 [Ei E]]]. fold st. rewrite E. cbn [dl_key].
          apply Bool.eq_iff_eq_true. rewrite !N.eqb_eq. split.
          -- intros Eo. assert (x2 = x) by (eapply (nodup_key_eq lo_id); eauto; congruence). subst x2. reflexivity.
          -- intros Ek. assert (x2 = x) by (eapply (nodup_key_eq lo_key); eauto). subst x2. congruence.
        * intros o Ho Hl. destruct I as [_ [_ [I3 _]]]. destruct (I3 c Hc) as [_ [N2 _]]. destruct (N2 o Ho) as [_ [_ [D _]]].
          destruct (D Hl) as [_ ->]. reflexivity.
      + intros c2 Hc2 Hne. apply sumz_const0. intros o _. apply sumz_const0. intros lf _.
        cbn [fst snd dump_client dc_id]. apply N.eqb_neq in Hne. rewrite Hne. reflexivity.
    - apply Z.eqb_eq. rewrite countb_countz, sort_countz, countz_map. cbn [fst]. apply (countz_one lo_key); assumption.
  Qed.

  Lemma p_owner_nlofs :
    all_ok (fun c => check (dc_nlofs c =? N.of_nat (length (flat_map do_lofs (dc_oofs c)))) "C20:lock-owner-file-maps")
      (d_clients (dump_of st)) = "".
  Proof.
    apply all_ok_ok. intros dc Hdc. apply check_true.
    cbn [dump_of d_clients] in Hdc. apply sort_in in Hdc. apply in_map_iff in Hdc. destruct Hdc as [c [<- Hc]].
    cbn [dump_client dc_nlofs dc_oofs]. apply N.eqb_eq. f_equal. rewrite length_flat_map_sort.
    induction (live_oofs c) as [|o l IH]; [reflexivity|]. cbn [map flat_map]. rewrite !app_length, IH. f_equal.
    cbn [dump_oofs do_lofs]. rewrite length_sort, map_length. reflexivity.
  Qed.

  Hypothesis Hvalid : Forall event_valid evs.
  Hypothesis Hns : never_shared (init cfg c0) evs.

  (* the owner of every lock is a registered object *)
  Lemma lock_owner_named : forall h k, In k (pool_locks h (st_pool st)) ->
    exists c o lf x, In c (st_clients st) /\ In o (c_oofs c) /\ of_live o = true /\ In lf (of_lofs o) /\ of_handle o = h
                     /\ In x (c_lowners c) /\ lo_id x = LS.lowner k /\ lf_owner lf = LS.lowner k
                     /\ dump_lock st k = mkDLock (LS.lstart k) (LS.lend k) (c_id c) (lo_key x) 0 (LS.ltyp k).
  Proof.
    intros h k Hk. destruct (lockcount_exact_lemma cfg c0 evs Hvalid Hns) as [_ [LO _]]. fold st in LO.
    destruct (LO h k Hk) as [c [o [lf [Hc [Ho [Hl [Hlf [Hh Eo]]]]]]]].
    destruct (dump_lofs_registered cfg c0 evs c o lf Hc Ho Hlf) as [x [Hx [Ei _]]].
    exists c, o, lf, x. repeat split; auto; try congruence.
    unfold dump_lock. assert (E : LS.lowner k = lo_id x) by congruence. rewrite E.
    unfold st. rewrite (lowner_name_registered cfg c0 evs c x Hc Hx). reflexivity.
  Qed.

  Lemma pool_locks_of_entry : forall p, In p (st_pool st) -> pf_locks p = pool_locks (pf_handle p) (st_pool st).
  Proof.
    intros p Hp. unfold pool_locks. pose proof (pool_handles_unique cfg c0 evs) as Hnd. fold st in Hnd.
    rewrite find_pfile_k, (kfind_in_nodup pf_handle _ p Hnd Hp). reflexivity.
  Qed.

  Lemma p_owner_locks :
    all_ok (fun p => all_ok (fun l => check (dk_tag l =? 0)%Z "C20:owner-not-registered") (dp_locks p)) (d_pool (dump_of st)) = "".
  Proof.
    apply all_ok_ok. intros dp Hdp. apply all_ok_ok. intros l Hl. apply check_true.
    cbn [dump_of d_pool] in Hdp. apply sort_in in Hdp. apply in_map_iff in Hdp. destruct Hdp as [p [<- Hp]].
    cbn [dp_locks] in Hl. apply in_map_iff in Hl. destruct Hl as [k [<- Hk]].
    rewrite (pool_locks_of_entry p Hp) in Hk.
    destruct (lock_owner_named _ k Hk) as [c [o [lf [x [_ [_ [_ [_ [_ [_ [_ [_ E]]]]]]]]]]]]. rewrite E. reflexivity.
  Qed.

  Theorem p_owner_reachable : p_owner (dump_of st) = "".
  Proof.
    unfold p_owner. apply orelse_ok. split; [exact p_owner_lofs|]. apply orelse_ok. split; [exact p_owner_locks|].
    apply orelse_ok. split; [exact p_owner_filecount|exact p_owner_nlofs].
  Qed.
End Owner.

(* ---- renaming the owners of a table injectively ------------------------------------------------------- *)
Definition recode (f : LS.lock -> N) (k : LS.lock) : LS.lock := LS.mkLock (LS.lstart k) (LS.lend k) (f k) (LS.ltyp k).

Lemma forallb_map : forall {A B} (g : A -> B) (p : B -> bool) l, forallb p (map g l) = forallb (fun x => p (g x)) l.
Proof. intros A B g p l. induction l as [|x l IH]; [reflexivity|]. cbn. rewrite IH. reflexivity. Qed.

Lemma forallb_ext_in : forall {A} (p q : A -> bool) l, (forall x, In x l -> p x = q x) -> forallb p l = forallb q l.
Proof.
  intros A p q l H. induction l as [|x l IH]; [reflexivity|]. cbn. rewrite (H x (or_introl eq_refl)), IH; [reflexivity|].
  intros y Hy. apply H. right. exact Hy.
Qed.

Lemma wf_recode : forall f l,
  (forall a b, In a l -> In b l -> (f a =? f b) = (LS.lowner a =? LS.lowner b)) ->
  LSS.wf (map (recode f) l) = LSS.wf l.
Proof.
  intros f l. induction l as [|s tl IH]; intros H; [reflexivity|]. cbn [map LSS.wf].
  rewrite IH by (intros a b Ha Hb; apply H; right; assumption).
  rewrite forallb_map. f_equal. f_equal.
  apply forallb_ext_in. intros t Ht. unfold LSS.apart, recode. cbn [LS.lstart LS.lend LS.lowner LS.ltyp].
  rewrite (H s t (or_introl eq_refl) (or_intror Ht)). reflexivity.
Qed.

Lemma compatible_recode : forall f l,
  (forall a b, In a l -> In b l -> (f a =? f b) = (LS.lowner a =? LS.lowner b)) ->
  LSS.compatible (map (recode f) l) = LSS.compatible l.
Proof.
  intros f l. induction l as [|s tl IH]; intros H; [reflexivity|]. cbn [map LSS.compatible].
  rewrite IH by (intros a b Ha Hb; apply H; right; assumption).
  rewrite forallb_map. f_equal.
  apply forallb_ext_in. intros t Ht. unfold LSS.conflicts, LSS.overlaps, recode. cbn [LS.lstart LS.lend LS.lowner LS.ltyp].
  rewrite (H s t (or_introl eq_refl) (or_intror Ht)). reflexivity.
Qed.

(* ---- p_locks ------------------------------------------------------------------------------------------------ *)
Section LocksMon.
  Variables (cfg : config) (c0 : N) (evs : list event).
  Let st := reachable cfg c0 evs.
  Hypothesis Hvalid : Forall event_valid evs.
  Hypothesis Hns : never_shared (init cfg c0) evs.

  Definition code_of (k : LS.lock) : N :=
    owner_code (dk_client (dump_lock st k)) (dk_key (dump_lock st k)) (dk_tag (dump_lock st k)).

  Lemma to_lslock_dump : forall l, map to_lslock (map (dump_lock st) l) = map (recode code_of) l.
  Proof.
    intros l. rewrite map_map. apply map_ext. intros k. unfold to_lslock, recode, code_of, dump_lock.
    destruct (lowner_name (LS.lowner k) (st_clients st)) as [[cid key]|]; reflexivity.
  Qed.

  Lemma code_of_inj : forall h a b, In a (pool_locks h (st_pool st)) -> In b (pool_locks h (st_pool st)) ->
    (code_of a =? code_of b) = (LS.lowner a =? LS.lowner b).
  Proof.
    intros h a b Ha Hb. apply Bool.eq_iff_eq_true. rewrite !N.eqb_eq. split.
    - intros E. unfold code_of in E.
      destruct (lock_owner_named cfg c0 evs Hvalid Hns h a Ha) as [ca [_ [_ [xa [Hca [_ [_ [_ [_ [Hxa [Eia [_ Eda]]]]]]]]]]]].
      destruct (lock_owner_named cfg c0 evs Hvalid Hns h b Hb) as [cb [_ [_ [xb [Hcb [_ [_ [_ [_ [Hxb [Eib [_ Edb]]]]]]]]]]]].
      fold st in Eda, Edb, Hca, Hcb. rewrite Eda, Edb in E. cbn [dk_client dk_key dk_tag] in E.
      apply owner_code_inj in E; [|lia|lia]. destruct E as [Ec [Ek _]].
      pose proof (reachable_full_inv cfg c0 evs) as [I _]. fold st in I.
      assert (cb = ca) by (eapply (nodup_key_eq c_id); [exact (proj1 I)| | |]; eauto). subst cb.
      destruct (one_owner_one_object_lemma cfg c0 evs) as [_ [_ OO]]. fold st in OO. destruct (OO ca Hca) as [Hkeys _].
      assert (xb = xa) by (eapply (nodup_key_eq lo_key); eauto). subst xb. congruence.
    - intros E. unfold code_of, dump_lock. rewrite E.
      destruct (lowner_name (LS.lowner b) (st_clients st)) as [[cid key]|]; reflexivity.
  Qed.

  Theorem p_locks_reachable : forall T, p_locks T (dump_of st) = "".
  Proof.
    intros T. unfold p_locks. apply orelse_ok.
    pose proof (reachable_full_inv cfg c0 evs) as [I _]. fold st in I.
    destruct (lockcount_exact_lemma cfg c0 evs Hvalid Hns) as [LC [LO LW]]. fold st in LC, LO, LW.
    destruct (one_owner_one_object_lemma cfg c0 evs) as [_ [OG OO]]. fold st in OG, OO.
    pose proof (reachable_linv cfg c0 evs Hvalid Hns) as [_ [_ [_ [_ [Nsv _]]]]]. fold st in Nsv.
    split; apply all_ok_ok.
    - (* lockCount = entries *)
      intros col Hcol. apply all_lofs_iff in Hcol. destruct Hcol as [c [o [lf [Hc [Ho [Hl [Hlf ->]]]]]]].
      destruct (dump_lofs_registered cfg c0 evs c o lf Hc Ho Hlf) as [x [Hx [Eix Edl]]]. fold st in Edl.
      destruct (OO c Hc) as [Hkeys [Hids [_ [_ Oown]]]].
      destruct (LC c o lf Hc Ho Hlf) as [Ecnt Hnn].
      apply orelse_ok. split; apply check_true.
      + apply Z.eqb_eq. cbn [dump_client dc_id dump_oofs do_handle].
        (* the table side *)
        rewrite countb_countz. unfold st at 2. rewrite (dpool_locks_dump cfg c0 evs). fold st. rewrite countz_map.
        assert (Hright : countz (fun k => (dk_client (dump_lock st k) =? c_id c) && (dk_key (dump_lock st k) =? dl_key (dump_lofs c lf))
                                          && (dk_tag (dump_lock st k) =? dl_tag (dump_lofs c lf))%Z)
                                (pool_locks (of_handle o) (st_pool st)) = lf_count lf).
        { rewrite Ecnt. unfold table_entries. apply countz_ext. intros k Hk. rewrite Edl. cbn [dl_key dl_tag].
          destruct (lock_owner_named cfg c0 evs Hvalid Hns _ k Hk) as [ck [_ [_ [xk [Hck [_ [_ [_ [_ [Hxk [Eik [_ Edk]]]]]]]]]]]].
          fold st in Edk, Hck. rewrite Edk. cbn [dk_client dk_key dk_tag]. rewrite Bool.andb_true_r.
          apply Bool.eq_iff_eq_true. rewrite Bool.andb_true_iff, !N.eqb_eq. split.
          - intros [Ec Ek]. assert (ck = c) by (eapply (nodup_key_eq c_id); [exact (proj1 I)| | |]; eauto). subst ck.
            assert (xk = x) by (eapply (nodup_key_eq lo_key); eauto). subst xk. congruence.
          - intros Eo. assert (E2 : lo_id xk = lo_id x) by congruence.
            destruct (OG ck c xk x Hck Hc Hxk Hx E2) as [-> ->]. auto. }
        rewrite Hright.
        (* the lock-owner file side: it is the only one with this client, lock-owner, handle *)
        rewrite sumZ_filter, all_lofs_sum.
        rewrite (sumz_single c_id _ (st_clients st) c (proj1 I) Hc).
        * assert (Hlive : In o (live_oofs c)) by (unfold live_oofs; apply filter_In; auto).
          assert (Hndl : NoDup (map of_other (live_oofs c))).
          { unfold live_oofs. apply nodup_map_filter. exact (proj1 (acct_lofs_nodup st c I Hc)). }
          rewrite (sumz_single of_other _ (live_oofs c) o Hndl Hlive).
          -- rewrite (sumz_single lf_other _ (of_lofs o) lf (proj2 (acct_lofs_nodup st c I Hc) o Ho) Hlf).
             ++ cbn [snd fst dump_client dc_id dump_oofs do_handle]. rewrite !N.eqb_refl, Z.eqb_refl. cbn [andb].
                rewrite Edl. reflexivity.
             ++ intros lf2 Hlf2 Hne. cbn [snd fst dump_client dc_id dump_oofs do_handle].
                destruct (dump_lofs_registered cfg c0 evs c o lf2 Hc Ho Hlf2) as [x2 [Hx2 [Eix2 Edl2]]]. fold st in Edl2.
                rewrite Edl, Edl2. cbn [dl_key dl_tag].
                destruct (lo_key x2 =? lo_key x) eqn:Ek; [|rewrite Bool.andb_false_r; reflexivity]. exfalso.
                apply N.eqb_eq in Ek. assert (x2 = x) by (eapply (nodup_key_eq lo_key); eauto). subst x2.
                apply Hne. f_equal.
                assert (Eo : lf_owner lf2 = lf_owner lf) by congruence.
                pose proof (Oown o Ho) as Hnd. clear - Hnd Hlf Hlf2 Eo.
                induction (of_lofs o) as [|y l IH]; [destruct Hlf|]. cbn in Hnd. inversion Hnd as [|? ? Hni Hnd']; subst.
                destruct Hlf as [->|Hlf]; destruct Hlf2 as [->|Hlf2]; auto.
                ** exfalso. apply Hni. rewrite <- Eo. apply in_map. exact Hlf2.
                ** exfalso. apply Hni. rewrite Eo. apply in_map. exact Hlf.
          -- intros o2 Ho2 Hne. apply sumz_const0. intros lf2 Hlf2.
             unfold live_oofs in Ho2. apply filter_In in Ho2. destruct Ho2 as [Ho2 Hl2].
             cbn [snd fst dump_client dc_id dump_oofs do_handle].
             destruct (dump_lofs_registered cfg c0 evs c o2 lf2 Hc Ho2 Hlf2) as [x2 [Hx2 [Eix2 Edl2]]]. fold st in Edl2.
             rewrite Edl, Edl2. cbn [dl_key dl_tag].
             destruct ((c_id c =? c_id c) && (lo_key x2 =? lo_key x) && (0 =? 0)%Z && (of_handle o2 =? of_handle o)) eqn:Eb; [|reflexivity].
             exfalso. apply Bool.andb_true_iff in Eb. destruct Eb as [Eb Eh]. apply Bool.andb_true_iff in Eb. destruct Eb as [Eb _].
             apply Bool.andb_true_iff in Eb. destruct Eb as [_ Ek]. apply N.eqb_eq in Eh, Ek.
             assert (x2 = x) by (eapply (nodup_key_eq lo_key); eauto). subst x2.
             apply Hne. symmetry.
             apply (Nsv (c_id c) (of_other o) (lf_other lf) (of_other o2) (lf_other lf2) (of_handle o) (lf_owner lf) (lf_count lf) (lf_count lf2)).
             ++ exists (vc c), (vo o), (vl lf). cbn. repeat split; auto; apply in_map; assumption.
             ++ exists (vc c), (vo o2), (vl lf2). cbn. repeat split; auto; try (apply in_map; assumption); congruence.
        * intros c2 Hc2 Hne. apply sumz_const0. intros o2 _. apply sumz_const0. intros lf2 _.
          cbn [snd fst dump_client dc_id]. apply N.eqb_neq in Hne. rewrite Hne. reflexivity.
      + rewrite Edl. cbn [snd dl_count]. apply Z.leb_le. exact Hnn.
    - (* every lock has its lock-owner file; the tables *)
      intros dp Hdp. cbn [dump_of d_pool] in Hdp. apply sort_in in Hdp. apply in_map_iff in Hdp. destruct Hdp as [p [<- Hp]].
      cbn [dp_locks dp_handle]. rewrite (pool_locks_of_entry cfg c0 evs p Hp). fold st.
      apply orelse_ok. split; [|apply orelse_ok; split].
      + apply all_ok_ok. intros l Hl. apply check_true. apply in_map_iff in Hl. destruct Hl as [k [<- Hk]].
        destruct (lock_owner_named cfg c0 evs Hvalid Hns _ k Hk) as [c [o [lf [x [Hc [Ho [Hlv [Hlf [Hh [Hx [Eix [Eo Edk]]]]]]]]]]]].
        fold st in Edk, Hc. apply existsb_exists. exists (dump_client c, dump_oofs c o, dump_lofs c lf). split.
        * apply all_lofs_iff. exists c, o, lf. auto.
        * destruct (dump_lofs_registered cfg c0 evs c o lf Hc Ho Hlf) as [x2 [Hx2 [Eix2 Edl2]]]. fold st in Edl2.
          assert (x2 = x) by (destruct (OO c Hc) as [_ [Hids _]]; eapply (nodup_key_eq lo_id); eauto; congruence). subst x2.
          rewrite Edk, Edl2. cbn [dump_oofs do_handle dump_client dc_id dk_client dk_key dk_tag dl_key dl_tag].
          rewrite Hh, !N.eqb_refl. reflexivity.
      + apply check_true. rewrite to_lslock_dump, wf_recode; [apply LW|]. intros a b. apply code_of_inj.
      + apply check_true. rewrite to_lslock_dump, compatible_recode; [|intros a b; apply code_of_inj].
        exact (proj1 (proj2 (tables_exclusive cfg c0 evs Hvalid (pf_handle p)))).
  Qed.
End LocksMon.
