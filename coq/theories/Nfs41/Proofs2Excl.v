(* C20 through NFSv4.1, the core statement: every lock table the NFSv4.1
   program builds (through LOCK, LOCKU, CLOSE, lease expiry, ... in any
   interleaving) is well formed and keeps different owners apart -- two
   different lock-owner objects never both hold a byte unless both hold it
   shared.  Needs only the validity of the ranges; in particular it holds in
   the presence of the "shared lock-owner" finding. *)
From Coq Require Import Lia.
From VF Require LockSet.Properties.
From VF Require Export Nfs41.Proofs2LocksThm.
Open Scope N_scope.

Module LSP := VF.LockSet.Properties.

Definition tx_ok (v : vstate) : Prop :=
  forall h, LSS.wf (pool_locks h (v_pool v)) = true
            /\ (forall k, In k (pool_locks h (v_pool v)) -> bnd k)
            /\ LSS.excl_bytes (pool_locks h (v_pool v)).

Lemma excl_nil : LSS.excl_bytes [].
Proof. intros o1 o2 b k1 k2 _ H. cbn in H. discriminate. Qed.

Lemma tx_set : forall v h q cls nextlo,
  tx_ok v -> qvalid q ->
  (LS.ltyp q <> LS.Unlocked -> LS.test (pool_locks h (v_pool v)) q = None) ->
  tx_ok (mkV cls (pool_set_locks h (LS.set_list (LS.set (pool_locks h (v_pool v)) q)) (v_pool v)) nextlo).
Proof.
  intros v h q cls nextlo T [Hq Hb] Ht h'. cbn [v_pool]. rewrite pool_locks_set_locks.
  destruct ((h' =? h) && pmem h (v_pool v)); [|apply T].
  destruct (T h) as [Hwf [Hbd Hex]]. split; [|split].
  - apply LSP.wf_preserved; assumption.
  - intros k Hk. eapply set_bounded; eauto.
  - apply LSP.set_preserves_exclusion; auto.
    intros Hne c Hc. specialize (Ht Hne). apply (LSP.test_iff_no_conflict _ q Hwf) in Ht.
    rewrite forallb_forall in Ht. specialize (Ht c Hc). apply Bool.negb_true_iff in Ht. exact Ht.
Qed.

Lemma vtr_tx_ok : forall a b, tx_ok a -> vtr qvalid a b -> tx_ok b.
Proof.
  intros a b T Tr. destruct Tr.
  - exact T.
  - exact T.
  - intros h'. unfold vput. cbn [v_pool]. rewrite pool_locks_open. apply T.
  - destruct (unlock && (0 <? vl_count lf)%Z); [|exact T].
    apply (tx_set v (vo_handle o) (unlock_q (vl_owner lf))); [exact T|split; [reflexivity|cbn; lia]|].
    intros Hne. exfalso. apply Hne. reflexivity.
  - intros h'. unfold vput. cbn [v_pool]. rewrite pool_locks_close.
    destruct (_ && _); [split; [reflexivity|split; [intros k []|exact excl_nil]]|apply T].
  - apply (tx_set v (vo_handle o) q); assumption.
Qed.

Lemma vlocknew_tx_ok : forall a b, tx_ok a -> vlocknew qvalid a b -> tx_ok b.
Proof. intros a b T Tr. destruct Tr. apply (tx_set v (vo_handle o) q); auto. Qed.

Lemma vstep_tx_ok : forall a b, tx_ok a -> vstep qvalid a b -> tx_ok b.
Proof.
  intros a b T [m [Hp Hl]].
  assert (Tm : tx_ok m) by exact (vpath_inv qvalid tx_ok (fun x y Tx Tr => vtr_tx_ok x y Tx Tr) a m Hp T).
  destruct Hl as [<-|Hl]; [exact Tm|eapply vlocknew_tx_ok; eauto].
Qed.

Lemma run_tx_ok : forall evs st,
  full_inv st -> tx_ok (view st) -> threads_ok qvalid st -> Forall event_valid evs ->
  tx_ok (view (fst (run st evs))).
Proof.
  induction evs as [|e tl IH]; intros st F T Th Hv; cbn [run]; [exact T|].
  inversion Hv as [|? ? He Htl]; subst.
  pose proof (step_view qvalid st e F Th) as V.
  pose proof (step_threads_ok qvalid st e Th (event_valid_ok e He)) as Th1.
  destruct (step_full st e F) as [F1 _].
  destruct (step st e) as [st1 o1]. cbn [fst] in *.
  specialize (IH st1 F1 (vstep_tx_ok _ _ T V) Th1 Htl). destruct (run st1 tl) as [st2 o2]. exact IH.
Qed.

Theorem tables_exclusive : forall cfg c0 evs, Forall event_valid evs ->
  forall h, let table := pool_locks h (st_pool (reachable cfg c0 evs)) in
    LSS.wf table = true /\ LSS.compatible table = true /\ LSS.excl_bytes table.
Proof.
  intros cfg c0 evs Hv h table.
  assert (T : tx_ok (view (reachable cfg c0 evs))).
  { unfold reachable. apply run_tx_ok; auto.
    - apply init_full.
    - intros h'. cbn. split; [reflexivity|split; [intros k []|exact excl_nil]].
    - intros t []. }
  destruct (T h) as [Hwf [_ Hex]]. cbn [view v_pool] in Hwf, Hex. fold table in Hwf, Hex.
  split; [exact Hwf|]. split; [|exact Hex]. apply (LSP.compatible_iff_excl_bytes table Hwf). exact Hex.
Qed.
