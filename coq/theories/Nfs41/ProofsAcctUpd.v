(* C18, accounting: how the invariant and the holders change when one
   compound advances and at most one open-owner file of its client changes. *)
From VF Require Export Nfs41.ProofsAcctDefs.
Open Scope N_scope.

Lemma find_oofs_any_k : forall other l, find_oofs_any other l = kfind of_other other l.
Proof. reflexivity. Qed.
Lemma upd_oofs_k : forall o l, upd_oofs o l = kupd of_other o l.
Proof. reflexivity. Qed.

(* With unique [other]s the live lookup agrees with the plain lookup. *)
Lemma find_oofs_any_of_live : forall other l o,
  NoDup (map of_other l) -> find_oofs other l = Some o ->
  find_oofs_any other l = Some o /\ of_live o = true.
Proof.
  intros other l o Hnd H. unfold find_oofs in H. apply find_some in H. destruct H as [Hin Hp].
  apply Bool.andb_true_iff in Hp. destruct Hp as [Hl Ho]. apply N.eqb_eq in Ho.
  split; [|exact Hl]. rewrite find_oofs_any_k. rewrite <- Ho. apply kfind_in_nodup; assumption.
Qed.

(* ---- only the compound changes -------------------------------------------- *)
Section ThreadOnly.
  Variables (st st' : state) (t t' : thread).
  Hypothesis I : acct_inv st.
  Hypothesis Ht : find_thread (t_id t') (st_threads st) = Some t.
  Hypothesis Hcl : t_client t' = t_client t.
  Hypothesis Hclients : st_clients st' = st_clients st.
  Hypothesis Hthreads : st_threads st' = upd_thread t' (st_threads st).
  Hypothesis Hidle : st_idle st' = st_idle st.
  Hypothesis Hclone : forall cid other b, t_clones cid other b t' = t_clones cid other b t.
  Hypothesis Hok : thread_ok st' t'.

  Lemma thread_only_clones : forall cid other b, clones st' cid other b = clones st cid other b.
  Proof.
    intros cid other b. destruct I as [_ [Tn _]]. unfold clones. rewrite Hthreads, upd_thread_k.
    rewrite (countz_kupd t_id _ t' _ t Tn Ht). rewrite Hclone. lia.
  Qed.

  Lemma thread_only_inv : acct_inv st'.
  Proof.
    destruct I as [Cn [Tn [Cok [Tok Iok]]]].
    split; [rewrite Hclients; exact Cn|].
    split; [rewrite Hthreads, upd_thread_k, kupd_keys; exact Tn|].
    split; [|split].
    - intros c Hc. rewrite Hclients in Hc. destruct (Cok c Hc) as [N1 [O1 H1]].
      split; [exact N1|]. split.
      + intros o Ho. destruct (O1 o Ho) as [Hb [S1 [S2 S3]]]. split; [exact Hb|].
        split; [|split; assumption]. intros b. rewrite thread_only_clones. apply S1.
      + rewrite H1. rewrite Hthreads, upd_thread_k.
        rewrite (countz_kupd t_id _ t' _ t Tn Ht). rewrite Hcl. lia.
    - intros t2 Ht2. rewrite Hthreads, upd_thread_k in Ht2. apply kupd_in in Ht2.
      destruct Ht2 as [->|[Ht2 _]]; [exact Hok|].
      destruct (Tok t2 Ht2) as [c [Hc Hph]]. exists c. rewrite Hclients. auto.
    - intros id Hid. rewrite Hidle in Hid. rewrite Hclients. apply Iok. exact Hid.
  Qed.

  Lemma thread_only_holders : forall h b,
    holders st' h b = (holders st h b - b2z (t_opens h b t) + b2z (t_opens h b t'))%Z.
  Proof.
    intros h b. destruct I as [_ [Tn _]]. unfold holders. rewrite Hclients, Hthreads, upd_thread_k.
    rewrite (countz_kupd t_id _ t' _ t Tn Ht). lia.
  Qed.
End ThreadOnly.

(* ---- the compound changes one open-owner file of its client --------------- *)
Section OofsUpd.
  Variables (st st' : state) (t t' : thread) (c c' : client) (o o' : oofile).
  Hypothesis I : acct_inv st.
  Hypothesis Ht : find_thread (t_id t') (st_threads st) = Some t.
  Hypothesis Hcl : t_client t' = t_client t.
  Hypothesis Hc : find_client (t_client t) (st_clients st) = Some c.
  Hypothesis Hcid : c_id c' = c_id c.
  Hypothesis Hchold : c_hold c' = c_hold c.
  Hypothesis Hcother : c_other c <= c_other c'.
  Hypothesis Ho : find_oofs_any (of_other o') (c_oofs c) = Some o.
  Hypothesis Hoofs : c_oofs c' = upd_oofs o' (c_oofs c).
  Hypothesis Hclients : st_clients st' = upd_client c' (st_clients st).
  Hypothesis Hthreads : st_threads st' = upd_thread t' (st_threads st).
  Hypothesis Hidle : st_idle st' = st_idle st.
  Hypothesis Hhandle : of_handle o' = of_handle o.
  Hypothesis Hlb : forall lf, In lf (of_lofs o') -> lf_other lf <= c_other c'.
  Hypothesis Hclone_other : forall other2 b, other2 <> of_other o' ->
    t_clones (c_id c) other2 b t' = t_clones (c_id c) other2 b t.
  Hypothesis HS : forall b,
    Z.of_N (cnt b o') = (b2z (of_live o' && bit b (of_share o')) + lofs_bits b (of_lofs o')
                         + clones st (c_id c) (of_other o') b
                         - b2z (t_clones (c_id c) (of_other o') b t)
                         + b2z (t_clones (c_id c) (of_other o') b t'))%Z.
  Hypothesis Hdead : of_live o' = false -> of_share o' = m0 /\ of_lofs o' = [].
  Hypothesis Hnd : NoDup (map lf_other (of_lofs o')).
  Hypothesis Hok : thread_ok st' t'.

  Let Hcidt : c_id c = t_client t.
  Proof. rewrite find_client_k in Hc. apply kfind_some in Hc. tauto. Qed.

  Lemma oofs_upd_clones : forall cid other b,
    clones st' cid other b
    = (clones st cid other b - b2z (t_clones cid other b t) + b2z (t_clones cid other b t'))%Z.
  Proof.
    intros cid other b. destruct I as [_ [Tn _]]. unfold clones. rewrite Hthreads, upd_thread_k.
    rewrite (countz_kupd t_id _ t' _ t Tn Ht). reflexivity.
  Qed.

  Lemma oofs_upd_clones_other_client : forall cid other b, cid <> c_id c ->
    clones st' cid other b = clones st cid other b.
  Proof.
    intros cid other b Hne. rewrite oofs_upd_clones. unfold t_clones. rewrite Hcl.
    assert (E : t_client t =? cid = false) by (apply N.eqb_neq; congruence). rewrite E. cbn. lia.
  Qed.

  Lemma oofs_upd_inv : acct_inv st'.
  Proof.
    destruct I as [Cn [Tn [Cok [Tok Iok]]]].
    assert (Hcin : In c (st_clients st)) by (rewrite find_client_k in Hc; apply kfind_some in Hc; tauto).
    assert (Hfc' : find_client (c_id c') (st_clients st) = Some c) by (rewrite Hcid, Hcidt; exact Hc).
    destruct (Cok c Hcin) as [N1 [O1 H1]].
    assert (Hoin : In o (c_oofs c) /\ of_other o = of_other o').
    { rewrite find_oofs_any_k in Ho. apply kfind_some in Ho. exact Ho. }
    split; [rewrite Hclients, upd_client_k, kupd_keys; exact Cn|].
    split; [rewrite Hthreads, upd_thread_k, kupd_keys; exact Tn|].
    split; [|split].
    - (* clients *)
      intros c2 Hc2. rewrite Hclients, upd_client_k in Hc2. apply kupd_in in Hc2.
      destruct Hc2 as [->|[Hc2 Hne]].
      + (* the client of the compound *)
        split; [rewrite Hoofs, upd_oofs_k, kupd_keys; exact N1|]. split.
        * intros o2 Ho2. rewrite Hoofs, upd_oofs_k in Ho2. apply kupd_in in Ho2.
          destruct Ho2 as [->|[Ho2 Hne2]].
          -- split.
             ++ split; [|exact Hlb]. destruct (O1 o (proj1 Hoin)) as [[Hb _] _].
                rewrite <- (proj2 Hoin). lia.
             ++ split; [|split; assumption]. intros b. rewrite oofs_upd_clones, Hcid. rewrite (HS b). lia.
          -- destruct (O1 o2 Ho2) as [[Hb1 Hb2] [S1 [S2 S3]]]. split.
             ++ split; [lia|]. intros lf Hlf. specialize (Hb2 lf Hlf). lia.
             ++ split; [|split; assumption]. intros b. rewrite oofs_upd_clones, Hcid.
                rewrite Hclone_other by exact Hne2. rewrite S1. lia.
        * rewrite Hchold, H1, Hcid. rewrite Hthreads, upd_thread_k.
          rewrite (countz_kupd t_id _ t' _ t Tn Ht). rewrite Hcl. lia.
      + (* other clients *)
        destruct (Cok c2 Hc2) as [N2 [O2 H2]]. rewrite Hcid in Hne.
        split; [exact N2|]. split.
        * intros o2 Ho2. destruct (O2 o2 Ho2) as [Hb [S1 [S2 S3]]]. split; [exact Hb|].
          split; [|split; assumption]. intros b. rewrite oofs_upd_clones_other_client by exact Hne. apply S1.
        * rewrite H2. rewrite Hthreads, upd_thread_k.
          rewrite (countz_kupd t_id _ t' _ t Tn Ht). rewrite Hcl. lia.
    - (* compounds *)
      intros t2 Ht2. rewrite Hthreads, upd_thread_k in Ht2. apply kupd_in in Ht2.
      destruct Ht2 as [->|[Ht2 _]]; [exact Hok|].
      destruct (Tok t2 Ht2) as [c2 [Hc2 Hph]].
      destruct (N.eq_dec (t_client t2) (c_id c')) as [E|E].
      + exists c'. split.
        * rewrite Hclients, find_client_k, upd_client_k, E. eapply kfind_kupd_same.
          rewrite <- find_client_k. exact Hfc'.
        * assert (c2 = c) by (rewrite E in Hc2; congruence). subst c2.
          destruct (t_phase t2); auto.
          -- destruct Hph as [P1 [P2 [o2 [P3 P4]]]]. split; [exact P1|]. split; [exact P2|].
             rewrite Hoofs, find_oofs_any_k, upd_oofs_k.
             destruct (N.eq_dec other (of_other o')) as [->|Hne].
             ++ exists o'. split; [eapply kfind_kupd_same; rewrite <- find_oofs_any_k; exact Ho|].
                rewrite Ho in P3. injection P3 as <-. congruence.
             ++ exists o2. split; [rewrite kfind_kupd_other by exact Hne; exact P3|exact P4].
          -- destruct Hph as [P1 [P2 [o2 [P3 P4]]]]. split; [exact P1|]. split; [exact P2|].
             rewrite Hoofs, find_oofs_any_k, upd_oofs_k.
             destruct (N.eq_dec other (of_other o')) as [->|Hne].
             ++ exists o'. split; [eapply kfind_kupd_same; rewrite <- find_oofs_any_k; exact Ho|].
                rewrite Ho in P3. injection P3 as <-. congruence.
             ++ exists o2. split; [rewrite kfind_kupd_other by exact Hne; exact P3|exact P4].
      + exists c2. split; [|exact Hph].
        rewrite Hclients, find_client_k, upd_client_k, kfind_kupd_other by exact E. exact Hc2.
    - (* idle list *)
      intros id Hid. rewrite Hidle in Hid. destruct (Iok id Hid) as [c2 [Hc2 Hh]].
      destruct (N.eq_dec id (c_id c')) as [->|E].
      + exists c'. split.
        * rewrite Hclients, find_client_k, upd_client_k. eapply kfind_kupd_same.
          rewrite <- find_client_k. exact Hfc'.
        * assert (c2 = c) by congruence. subst c2. congruence.
      + exists c2. split; [|exact Hh].
        rewrite Hclients, find_client_k, upd_client_k, kfind_kupd_other by exact E. exact Hc2.
  Qed.

  Lemma oofs_upd_holders : forall h b,
    holders st' h b
    = (holders st h b + dind h b o o' - b2z (t_opens h b t) + b2z (t_opens h b t'))%Z.
  Proof.
    intros h b. destruct I as [Cn [Tn [Cok _]]].
    assert (Hcin : In c (st_clients st)) by (rewrite find_client_k in Hc; apply kfind_some in Hc; tauto).
    destruct (Cok c Hcin) as [N1 _].
    unfold holders. rewrite Hclients, Hthreads, upd_client_k, upd_thread_k.
    rewrite (countz_kupd t_id _ t' _ t Tn Ht).
    assert (Hfc' : kfind c_id (c_id c') (st_clients st) = Some c).
    { rewrite Hcid, Hcidt. rewrite <- find_client_k. exact Hc. }
    rewrite (sumz_kupd c_id (cl_ind h b) c' _ c Cn Hfc').
    assert (Hcl' : cl_ind h b c' = (cl_ind h b c + dind h b o o')%Z).
    { unfold cl_ind, dind. rewrite Hoofs, upd_oofs_k.
      rewrite (sumz_kupd of_other _ o' _ o N1); [|rewrite <- find_oofs_any_k; exact Ho].
      rewrite Hhandle. destruct (of_handle o =? h); lia. }
    rewrite Hcl'. lia.
  Qed.
End OofsUpd.

(* ---- the compound adds an open-owner file to its client ------------------- *)
Section OofsAdd.
  Variables (st st' : state) (t t' : thread) (c c' : client) (o' : oofile).
  Hypothesis I : acct_inv st.
  Hypothesis Ht : find_thread (t_id t') (st_threads st) = Some t.
  Hypothesis Hcl : t_client t' = t_client t.
  Hypothesis Hc : find_client (t_client t) (st_clients st) = Some c.
  Hypothesis Hcid : c_id c' = c_id c.
  Hypothesis Hchold : c_hold c' = c_hold c.
  Hypothesis Hcother : c_other c' = c_other c + 1.
  Hypothesis Hoother : of_other o' = c_other c + 1.
  Hypothesis Hoofs : c_oofs c' = c_oofs c ++ [o'].
  Hypothesis Hclients : st_clients st' = upd_client c' (st_clients st).
  Hypothesis Hthreads : st_threads st' = upd_thread t' (st_threads st).
  Hypothesis Hidle : st_idle st' = st_idle st.
  Hypothesis Hclone : forall cid other b, t_clones cid other b t' = t_clones cid other b t.
  Hypothesis Hlive : of_live o' = true.
  Hypothesis Hlofs : of_lofs o' = [].
  Hypothesis HS : forall b, Z.of_N (cnt b o') = b2z (bit b (of_share o')).
  Hypothesis Hok : thread_ok st' t'.

  Let Hcidt : c_id c = t_client t.
  Proof. rewrite find_client_k in Hc. apply kfind_some in Hc. tauto. Qed.

  Lemma oofs_add_clones : forall cid other b, clones st' cid other b = clones st cid other b.
  Proof.
    intros cid other b. destruct I as [_ [Tn _]]. unfold clones. rewrite Hthreads, upd_thread_k.
    rewrite (countz_kupd t_id _ t' _ t Tn Ht). rewrite Hclone. lia.
  Qed.

  (* Nobody has cloned a share reservation of a file that does not exist yet. *)
  Lemma fresh_no_clones : forall b, clones st (c_id c) (c_other c + 1) b = 0%Z.
  Proof.
    intros b. destruct I as [Cn [Tn [Cok [Tok Iok]]]].
    assert (Hcin : In c (st_clients st)) by (rewrite find_client_k in Hc; apply kfind_some in Hc; tauto).
    destruct (Cok c Hcin) as [N1 [O1 H1]].
    unfold clones, countz.
    assert (E : forall x, In x (st_threads st) -> b2z (t_clones (c_id c) (c_other c + 1) b x) = 0%Z).
    { intros x Hx. destruct (t_clones (c_id c) (c_other c + 1) b x) eqn:Ec; [|reflexivity]. exfalso.
      unfold t_clones in Ec. apply Bool.andb_true_iff in Ec. destruct Ec as [E1 E2]. apply N.eqb_eq in E1.
      destruct (Tok x Hx) as [c2 [Hc2 Hph]]. rewrite E1 in Hc2.
      assert (c2 = c).
      { rewrite find_client_k in Hc2.
        pose proof (kfind_in_nodup c_id _ c Cn Hcin) as K. rewrite K in Hc2. congruence. }
      subst c2.
      destruct (t_phase x); try discriminate.
      - apply Bool.andb_true_iff in E2. destruct E2 as [E2 _]. apply N.eqb_eq in E2. subst other.
        destruct Hph as [_ [_ [o2 [P3 _]]]]. rewrite find_oofs_any_k in P3. apply kfind_some in P3.
        destruct P3 as [Pin Pk]. destruct (O1 o2 Pin) as [[Hb _] _]. lia.
      - apply Bool.andb_true_iff in E2. destruct E2 as [E2 _]. apply N.eqb_eq in E2. subst other.
        destruct Hph as [_ [_ [o2 [P3 _]]]]. rewrite find_oofs_any_k in P3. apply kfind_some in P3.
        destruct P3 as [Pin Pk]. destruct (O1 o2 Pin) as [[Hb _] _]. lia. }
    rewrite (sumz_ext _ (fun _ => 0%Z) _ E). clear. induction (st_threads st); cbn; lia.
  Qed.

  Lemma oofs_add_inv : acct_inv st'.
  Proof.
    pose proof fresh_no_clones as Hfresh.
    destruct I as [Cn [Tn [Cok [Tok Iok]]]].
    assert (Hcin : In c (st_clients st)) by (rewrite find_client_k in Hc; apply kfind_some in Hc; tauto).
    assert (Hfc' : find_client (c_id c') (st_clients st) = Some c) by (rewrite Hcid, Hcidt; exact Hc).
    destruct (Cok c Hcin) as [N1 [O1 H1]].
    split; [rewrite Hclients, upd_client_k, kupd_keys; exact Cn|].
    split; [rewrite Hthreads, upd_thread_k, kupd_keys; exact Tn|].
    split; [|split].
    - intros c2 Hc2. rewrite Hclients, upd_client_k in Hc2. apply kupd_in in Hc2.
      destruct Hc2 as [->|[Hc2 Hne]].
      + split.
        * rewrite Hoofs, map_app. cbn. apply NoDup_snoc; [exact N1|].
          intros Hin. apply in_map_iff in Hin. destruct Hin as [o2 [E Hin]].
          destruct (O1 o2 Hin) as [[Hb _] _]. lia.
        * split.
          -- intros o2 Ho2. rewrite Hoofs in Ho2. apply in_app_or in Ho2. destruct Ho2 as [Ho2|[<-|[]]].
             ++ destruct (O1 o2 Ho2) as [[Hb1 Hb2] [S1 [S2 S3]]]. split.
                ** split; [lia|]. intros lf Hlf. specialize (Hb2 lf Hlf). lia.
                ** split; [|split; assumption]. intros b. rewrite oofs_add_clones, Hcid. apply S1.
             ++ split.
                ** split; [lia|]. rewrite Hlofs. intros lf [].
                ** split; [|split].
                   --- intros b. rewrite oofs_add_clones, Hcid, Hoother, Hfresh, Hlive, Hlofs, (HS b).
                       cbn. lia.
                   --- rewrite Hlive. discriminate.
                   --- rewrite Hlofs. constructor.
          -- rewrite Hchold, H1, Hcid. rewrite Hthreads, upd_thread_k.
             rewrite (countz_kupd t_id _ t' _ t Tn Ht). rewrite Hcl. lia.
      + destruct (Cok c2 Hc2) as [N2 [O2 H2]].
        split; [exact N2|]. split.
        * intros o2 Ho2. destruct (O2 o2 Ho2) as [Hb [S1 [S2 S3]]]. split; [exact Hb|].
          split; [|split; assumption]. intros b. rewrite oofs_add_clones. apply S1.
        * rewrite H2. rewrite Hthreads, upd_thread_k.
          rewrite (countz_kupd t_id _ t' _ t Tn Ht). rewrite Hcl. lia.
    - intros t2 Ht2. rewrite Hthreads, upd_thread_k in Ht2. apply kupd_in in Ht2.
      destruct Ht2 as [->|[Ht2 _]]; [exact Hok|].
      destruct (Tok t2 Ht2) as [c2 [Hc2 Hph]].
      destruct (N.eq_dec (t_client t2) (c_id c')) as [E|E].
      + exists c'. split.
        * rewrite Hclients, find_client_k, upd_client_k, E. eapply kfind_kupd_same.
          rewrite <- find_client_k. exact Hfc'.
        * assert (c2 = c) by (rewrite E in Hc2; congruence). subst c2.
          destruct (t_phase t2); auto.
          -- destruct Hph as [P1 [P2 [o2 [P3 P4]]]]. split; [exact P1|]. split; [exact P2|].
             exists o2. split; [|exact P4]. rewrite Hoofs, find_oofs_any_k, kfind_app.
             rewrite <- find_oofs_any_k, P3. reflexivity.
          -- destruct Hph as [P1 [P2 [o2 [P3 P4]]]]. split; [exact P1|]. split; [exact P2|].
             exists o2. split; [|exact P4]. rewrite Hoofs, find_oofs_any_k, kfind_app.
             rewrite <- find_oofs_any_k, P3. reflexivity.
      + exists c2. split; [|exact Hph].
        rewrite Hclients, find_client_k, upd_client_k, kfind_kupd_other by exact E. exact Hc2.
    - intros id Hid. rewrite Hidle in Hid. destruct (Iok id Hid) as [c2 [Hc2 Hh]].
      destruct (N.eq_dec id (c_id c')) as [->|E].
      + exists c'. split.
        * rewrite Hclients, find_client_k, upd_client_k. eapply kfind_kupd_same.
          rewrite <- find_client_k. exact Hfc'.
        * assert (c2 = c) by congruence. subst c2. congruence.
      + exists c2. split; [|exact Hh].
        rewrite Hclients, find_client_k, upd_client_k, kfind_kupd_other by exact E. exact Hc2.
  Qed.

  Lemma oofs_add_holders : forall h b,
    holders st' h b
    = (holders st h b + hind h b o' - b2z (t_opens h b t) + b2z (t_opens h b t'))%Z.
  Proof.
    intros h b. destruct I as [Cn [Tn [Cok _]]].
    unfold holders. rewrite Hclients, Hthreads, upd_client_k, upd_thread_k.
    rewrite (countz_kupd t_id _ t' _ t Tn Ht).
    assert (Hfc' : kfind c_id (c_id c') (st_clients st) = Some c).
    { rewrite Hcid, Hcidt. rewrite <- find_client_k. exact Hc. }
    rewrite (sumz_kupd c_id (cl_ind h b) c' _ c Cn Hfc').
    assert (Hcl' : cl_ind h b c' = (cl_ind h b c + hind h b o')%Z).
    { unfold cl_ind, hind. rewrite Hoofs, sumz_app. cbn [sumz]. lia. }
    rewrite Hcl'. lia.
  Qed.
End OofsAdd.
