(* C18, accounting: definitions of the holders of a leaf, the balance of a
   list of outputs, and the effect of the share count primitives. *)
From VF Require Export Nfs41.ProofsBase.
Open Scope N_scope.

Definition bit (b : bool) (m : mask) : bool := if b then mr m else mw m.
Definition cnt (b : bool) (o : oofile) : N := if b then of_readers o else of_writers o.
Definition b2z (x : bool) : Z := if x then 1%Z else 0%Z.
(* The open-owner file keeps the leaf open for this access bit. *)
Definition ind (b : bool) (o : oofile) : Z := b2z (0 <? cnt b o).

(* ---- balance of outputs: opens minus closes seen by leaf h for bit b ------ *)
Definition out_bal (h : N) (b : bool) (o : out) : Z :=
  match o with
  | OLeafOpen h' m => b2z ((h' =? h) && bit b m)
  | OLeafClose h' m => Z.opp (b2z ((h' =? h) && bit b m))
  | OReply _ _ => 0%Z
  end.
Fixpoint balance (h : N) (b : bool) (l : list out) : Z :=
  match l with
  | [] => 0%Z
  | o :: tl => (out_bal h b o + balance h b tl)%Z
  end.

Lemma balance_app : forall h b l1 l2, balance h b (l1 ++ l2) = (balance h b l1 + balance h b l2)%Z.
Proof. intros h b l1 l2. induction l1 as [|o l1 IH]; cbn; [reflexivity|]. rewrite IH. lia. Qed.

Lemma balance_close_out : forall h b h' m,
  balance h b (close_out h' m) = Z.opp (b2z ((h' =? h) && bit b m)).
Proof.
  intros h b h' m. unfold close_out. destruct (m_empty m) eqn:E; cbn.
  - unfold m_empty in E. destruct m as [r w]. cbn in E.
    destruct r, w; try discriminate. destruct b; cbn; rewrite Bool.andb_false_r; reflexivity.
  - lia.
Qed.

(* ---- sums over lists ------------------------------------------------------ *)
Fixpoint sumz {A} (f : A -> Z) (l : list A) : Z :=
  match l with
  | [] => 0%Z
  | x :: tl => (f x + sumz f tl)%Z
  end.

Lemma sumz_app : forall {A} (f : A -> Z) l1 l2, sumz f (l1 ++ l2) = (sumz f l1 + sumz f l2)%Z.
Proof. intros A f l1 l2. induction l1 as [|x l1 IH]; cbn; [reflexivity|]. rewrite IH. lia. Qed.

Lemma sumz_ext : forall {A} (f g : A -> Z) l, (forall x, In x l -> f x = g x) -> sumz f l = sumz g l.
Proof.
  intros A f g l H. induction l as [|x l IH]; cbn; [reflexivity|].
  rewrite H by (left; reflexivity). rewrite IH; [reflexivity|]. intros y Hy. apply H. right. exact Hy.
Qed.

Lemma sumz_nonneg : forall {A} (f : A -> Z) l, (forall x, In x l -> (0 <= f x)%Z) -> (0 <= sumz f l)%Z.
Proof.
  intros A f l H. induction l as [|x l IH]; cbn; [lia|].
  assert (0 <= f x)%Z by (apply H; left; reflexivity).
  assert (0 <= sumz f l)%Z by (apply IH; intros y Hy; apply H; right; exact Hy). lia.
Qed.

Lemma sumz_in_le : forall {A} (f : A -> Z) l x,
  (forall y, In y l -> (0 <= f y)%Z) -> In x l -> (f x <= sumz f l)%Z.
Proof.
  intros A f l x Hnn Hin. induction l as [|y l IH]; [contradiction|]. cbn.
  assert (0 <= f y)%Z by (apply Hnn; left; reflexivity).
  assert (0 <= sumz f l)%Z by (apply sumz_nonneg; intros z Hz; apply Hnn; right; exact Hz).
  destruct Hin as [->|Hin]; [lia|].
  assert (f x <= sumz f l)%Z by (apply IH; [intros z Hz; apply Hnn; right; exact Hz|exact Hin]). lia.
Qed.

Lemma sumz_filter_zero : forall {A} (f : A -> Z) (p : A -> bool) l,
  (forall x, In x l -> p x = false -> f x = 0%Z) -> sumz f (filter p l) = sumz f l.
Proof.
  intros A f p l H. induction l as [|x l IH]; cbn; [reflexivity|].
  assert (IH' : sumz f (filter p l) = sumz f l) by (apply IH; intros y Hy; apply H; right; exact Hy).
  destruct (p x) eqn:E; cbn; [lia|]. rewrite (H x) by (auto; left; reflexivity). lia.
Qed.

Section KeyedSum.
  Context {A : Type} (key : A -> N).

  Lemma sumz_kupd : forall (f : A -> Z) x' l x,
    NoDup (map key l) -> kfind key (key x') l = Some x ->
    sumz f (kupd key x' l) = (sumz f l - f x + f x')%Z.
  Proof.
    intros f x' l x. unfold kfind, kupd. induction l as [|y l IH]; intros Hnd Hf; [discriminate|].
    cbn in Hnd. inversion Hnd as [|? ? Hni Hnd']; subst. cbn in *.
    destruct (key y =? key x') eqn:E.
    - injection Hf as ->. apply N.eqb_eq in E.
      assert (Hrest : map (fun x0 => if key x0 =? key x' then x' else x0) l = l).
      { clear IH Hnd Hnd'. induction l as [|z l IHl]; [reflexivity|]. cbn.
        destruct (key z =? key x') eqn:Ez.
        - exfalso. apply Hni. apply N.eqb_eq in Ez. left. congruence.
        - f_equal. apply IHl. intros Hin. apply Hni. right. exact Hin. }
      rewrite Hrest. lia.
    - rewrite IH by assumption. lia.
  Qed.

  Lemma sumz_kupd_absent : forall (f : A -> Z) x' l,
    kfind key (key x') l = None -> sumz f (kupd key x' l) = sumz f l.
  Proof.
    intros f x' l. unfold kfind, kupd. induction l as [|y l IH]; intros Hf; [reflexivity|].
    cbn in *. destruct (key y =? key x'); [discriminate|]. rewrite IH by assumption. reflexivity.
  Qed.

  Lemma sumz_kdel : forall (f : A -> Z) k l x,
    NoDup (map key l) -> kfind key k l = Some x ->
    sumz f (kdel key k l) = (sumz f l - f x)%Z.
  Proof.
    intros f k l x. unfold kfind, kdel. induction l as [|y l IH]; intros Hnd Hf; [discriminate|].
    cbn in Hnd. inversion Hnd as [|? ? Hni Hnd']; subst. cbn in *.
    destruct (key y =? k) eqn:E; cbn.
    - injection Hf as ->. apply N.eqb_eq in E.
      assert (Hrest : filter (fun x0 => negb (key x0 =? k)) l = l).
      { clear IH Hnd Hnd'. induction l as [|z l IHl]; [reflexivity|]. cbn.
        destruct (key z =? k) eqn:Ez; cbn.
        - exfalso. apply Hni. apply N.eqb_eq in Ez. left. congruence.
        - f_equal. apply IHl. intros Hin. apply Hni. right. exact Hin. }
      rewrite Hrest. lia.
    - rewrite IH by assumption. lia.
  Qed.
End KeyedSum.

(* ---- the share count primitives ------------------------------------------- *)
Lemma b2z_01 : forall x, (0 <= b2z x <= 1)%Z. Proof. destruct x; cbn; lia. Qed.

Lemma pred_ind : forall n, 0 < n ->
  Z.sub (b2z (0 <? N.pred n)) (b2z (0 <? n)) = Z.opp (b2z (N.pred n =? 0)).
Proof.
  intros n Hn. assert (H1 : 0 <? n = true) by (apply N.ltb_lt; exact Hn). rewrite H1.
  destruct (N.pred n =? 0) eqn:E0.
  - apply N.eqb_eq in E0. assert (H : 0 <? N.pred n = false) by (apply N.ltb_ge; lia). rewrite H. reflexivity.
  - apply N.eqb_neq in E0. assert (H : 0 <? N.pred n = true) by (apply N.ltb_lt; lia). rewrite H. reflexivity.
Qed.

(* oofs_downgrade: the holder with mask [sa] keeps [nsa]. *)
Lemma oofs_downgrade_spec : forall o sa nsa o' outs pn,
  oofs_downgrade o sa nsa = (o', outs, pn) ->
  (forall b, bit b (m_diff sa nsa) = true -> 0 < cnt b o) ->
  pn = false
  /\ of_other o' = of_other o /\ of_seq o' = of_seq o /\ of_owner o' = of_owner o
  /\ of_handle o' = of_handle o /\ of_share o' = of_share o /\ of_lofs o' = of_lofs o
  /\ of_live o' = of_live o
  /\ (forall b, Z.of_N (cnt b o') = (Z.of_N (cnt b o) - b2z (bit b (m_diff sa nsa)))%Z)
  /\ (forall h b, balance h b outs = if of_handle o =? h then (ind b o' - ind b o)%Z else 0%Z).
Proof.
  intros o sa nsa o' outs pn H Hpos. unfold oofs_downgrade, sc_downgrade in H.
  pose proof (Hpos true) as Hr. pose proof (Hpos false) as Hw. cbn [bit cnt] in Hr, Hw.
  remember (m_diff sa nsa) as cl eqn:Ecl. clear Ecl Hpos.
  injection H as <- <- <-.
  assert (Er : mr cl && (of_readers o =? 0) = false).
  { destruct (mr cl); [|reflexivity]. cbn. apply N.eqb_neq. specialize (Hr eq_refl). lia. }
  assert (Ew : mw cl && (of_writers o =? 0) = false).
  { destruct (mw cl); [|reflexivity]. cbn. apply N.eqb_neq. specialize (Hw eq_refl). lia. }
  split; [rewrite Er, Ew; reflexivity|].
  repeat split; try reflexivity.
  - intros b. destruct b; cbn [cnt o_set of_readers of_writers bit].
    + destruct (mr cl); cbn [b2z]; [specialize (Hr eq_refl); lia|lia].
    + destruct (mw cl); cbn [b2z]; [specialize (Hw eq_refl); lia|lia].
  - intros h b. rewrite balance_close_out. cbn [of_handle o_set].
    destruct (of_handle o =? h); cbn [andb b2z Z.opp]; [|reflexivity].
    unfold ind. destruct b; cbn [cnt o_set of_readers of_writers bit mr mw].
    + destruct (mr cl) eqn:E; cbn [andb].
      * rewrite pred_ind by (apply Hr; reflexivity). reflexivity.
      * cbn [b2z Z.opp]. lia.
    + destruct (mw cl) eqn:E; cbn [andb].
      * rewrite pred_ind by (apply Hw; reflexivity). reflexivity.
      * cbn [b2z Z.opp]. lia.
Qed.

(* sc_upgrade *)
Lemma sc_upgrade_spec : forall sa rd wr nw sa' rd' wr' ov,
  sc_upgrade sa rd wr nw = (sa', rd', wr', ov) ->
  sa' = m_or sa nw
  /\ rd' = (if mr nw && negb (mr sa) then rd + 1 else rd)
  /\ wr' = (if mw nw && negb (mw sa) then wr + 1 else wr)
  /\ ov = mkMask (mr nw && (0 <? rd)) (mw nw && (0 <? wr)).
Proof. intros. unfold sc_upgrade in H. injection H as <- <- <- <-. auto. Qed.

(* sc_clone *)
Lemma sc_clone_spec : forall rd wr m rd' wr' pn,
  sc_clone rd wr m = (rd', wr', pn) ->
  (mr m = true -> 0 < rd) -> (mw m = true -> 0 < wr) ->
  pn = false /\ rd' = (if mr m then rd + 1 else rd) /\ wr' = (if mw m then wr + 1 else wr).
Proof.
  intros rd wr m rd' wr' pn H Hr Hw. unfold sc_clone in H. injection H as <- <- <-.
  split; [|auto].
  destruct (mr m); cbn.
  - specialize (Hr eq_refl). assert (rd =? 0 = false) by (apply N.eqb_neq; lia). rewrite H. cbn.
    destruct (mw m); cbn; [|reflexivity]. specialize (Hw eq_refl). apply N.eqb_neq. lia.
  - destruct (mw m); cbn; [|reflexivity]. specialize (Hw eq_refl). apply N.eqb_neq. lia.
Qed.
