(* Monitor link: p_lease (C18:expired-client-retained, C18:idle-list,
   C18:orphan-session) holds on the dump of every reachable state. *)
From Coq Require Import Lia.
From VF Require Import Nfs41.Spec.
From VF Require Export Nfs41.Proofs2Monitor Nfs41.Proofs2Lease.
Local Open Scope string_scope.
Open Scope N_scope.

Lemma find_dclient_some : forall st id, find_dclient id (dump_of st) <> None <-> find_client id (st_clients st) <> None.
Proof.
  intros st id. unfold find_dclient, find_client. rewrite <- !find_some_iff. cbn [dump_of d_clients]. split.
  - intros [dc [Hdc E]]. apply sort_in in Hdc. apply in_map_iff in Hdc. destruct Hdc as [c [<- Hc]]. exists c. auto.
  - intros [c [Hc E]]. exists (dump_client c). split; [apply sort_in; apply in_map; exact Hc|exact E].
Qed.

Theorem p_lease_reachable : forall cfg c0 evs,
  let st := reachable cfg c0 evs in p_lease (cf_lease (st_cfg st)) (dump_of st) = "".
Proof.
  intros cfg c0 evs st. unfold p_lease.
  pose proof (reachable_idle_inv cfg c0 evs) as Id. fold (reachable cfg c0 evs) in Id. fold st in Id.
  pose proof (reachable_full_inv cfg c0 evs) as [I Sd]. fold (reachable cfg c0 evs) in I, Sd. fold st in I, Sd.
  apply orelse_ok. split; [|apply orelse_ok; split]; apply all_ok_ok.
  - intros dc Hdc. cbn [dump_of d_clients] in Hdc. apply sort_in in Hdc. apply in_map_iff in Hdc. destruct Hdc as [c [<- Hc]].
    cbn [dump_client dc_hold dc_seen dc_id dump_of d_now d_idle].
    assert (Ez : (Z.of_N (c_hold c) =? 0)%Z = (c_hold c =? 0)).
    { destruct (c_hold c =? 0) eqn:E; [apply N.eqb_eq in E; rewrite E; reflexivity|apply N.eqb_neq in E; apply Z.eqb_neq; lia]. }
    rewrite Ez. apply orelse_ok. split; apply check_ok; try discriminate.
    + destruct (c_hold c =? 0) eqn:E; [|reflexivity]. cbn [negb orb]. apply N.eqb_eq in E. apply N.leb_le.
      exact (no_lapsed_idle cfg c0 evs c Hc E).
    + destruct Id as [_ [I2 I3]].
      assert (Hf : find_client (c_id c) (st_clients st) = Some c) by (rewrite find_client_k; apply (kfind_in_nodup c_id); assumption).
      apply Bool.eqb_true_iff. apply Bool.eq_iff_eq_true. rewrite N.eqb_eq, existsb_exists. split.
      * intros E. exists (c_id c). split; [|apply N.eqb_refl]. apply I2. unfold hold_of. rewrite Hf, E. reflexivity.
      * intros [y [Hy Ey]]. apply N.eqb_eq in Ey. subst y. apply I2 in Hy. unfold hold_of in Hy. rewrite Hf in Hy. congruence.
  - intros id Hid. cbn [dump_of d_idle] in Hid. apply check_ok; [discriminate|].
    destruct (idle_is_client st id Id Hid) as [c [Hf _]].
    assert (Hn : find_dclient id (dump_of st) <> None) by (apply find_dclient_some; congruence).
    destruct (find_dclient id (dump_of st)); [reflexivity|contradiction].
  - intros ds Hds. cbn [dump_of d_sessions] in Hds. apply sort_in in Hds. apply in_map_iff in Hds. destruct Hds as [ss [<- Hss]].
    cbn [dss_client]. apply check_ok; [discriminate|].
    destruct Sd as [_ S2]. specialize (S2 ss Hss). apply has_client_find in S2. destruct S2 as [c Hf].
    assert (Hn : find_dclient (ss_client ss) (dump_of st) <> None) by (apply find_dclient_some; congruence).
    destruct (find_dclient (ss_client ss) (dump_of st)); [reflexivity|contradiction].
Qed.
