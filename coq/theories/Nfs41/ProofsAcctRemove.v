(* C18, accounting: removal of lock-owner files and open-owner files. *)
From VF Require Export Nfs41.ProofsAcctOps.
Open Scope N_scope.

Lemma lofs_bits_nonneg : forall b l, (0 <= lofs_bits b l)%Z.
Proof. intros. apply sumz_nonneg. intros. apply b2z_01. Qed.

Lemma m_diff_m0 : forall m b, bit b (m_diff m m0) = bit b m.
Proof. intros [r w] []; cbn; apply Bool.andb_true_r. Qed.

Lemma del_lofs_head : forall lf tl,
  NoDup (map lf_other (lf :: tl)) -> del_lofs (lf_other lf) (lf :: tl) = tl.
Proof.
  intros lf tl H. cbn in H. inversion H as [|? ? Hni Hnd]; subst.
  unfold del_lofs. cbn. rewrite N.eqb_refl. cbn.
  clear H Hnd. induction tl as [|x tl IH]; [reflexivity|]. cbn.
  destruct (lf_other x =? lf_other lf) eqn:E.
  - exfalso. apply Hni. apply N.eqb_eq in E. left. exact E.
  - cbn. f_equal. apply IH. intros Hin. apply Hni. right. exact Hin.
Qed.

(* The fields that lock-owner file removal leaves alone. *)
Definition same_id (o o' : oofile) : Prop :=
  of_other o' = of_other o /\ of_seq o' = of_seq o /\ of_owner o' = of_owner o
  /\ of_handle o' = of_handle o /\ of_share o' = of_share o /\ of_live o' = of_live o.

Lemma same_id_refl : forall o, same_id o o.
Proof. intros o. repeat split. Qed.
Lemma same_id_trans : forall a b c, same_id a b -> same_id b c -> same_id a c.
Proof.
  intros a b c [A1 [A2 [A3 [A4 [A5 A6]]]]] [B1 [B2 [B3 [B4 [B5 B6]]]]].
  repeat split; congruence.
Qed.

Lemma dind_trans : forall h b o1 o2 o3, of_handle o2 = of_handle o1 ->
  (dind h b o1 o2 + dind h b o2 o3)%Z = dind h b o1 o3.
Proof. intros h b o1 o2 o3 H. unfold dind. rewrite H. destruct (of_handle o1 =? h); lia. Qed.

(* All lock-owner files of [o] are removed. *)
Lemma lofs_remove_all_spec : forall unlock lfs o lows pool o' lows' pool' outs pn,
  lofs_remove_all unlock lfs o lows pool = (o', lows', pool', outs, pn) ->
  of_lofs o = lfs ->
  NoDup (map lf_other lfs) ->
  (forall b, (lofs_bits b lfs <= Z.of_N (cnt b o))%Z) ->
  same_id o o' /\ of_lofs o' = []
  /\ (forall b, Z.of_N (cnt b o') = (Z.of_N (cnt b o) - lofs_bits b lfs)%Z)
  /\ (forall h b, balance h b outs = dind h b o o').
Proof.
  intros unlock lfs. induction lfs as [|lf tl IH]; intros o lows pool o' lows' pool' outs pn H Hl Hnd Hge.
  - cbn in H. inversion H; subst. split; [apply same_id_refl|]. split; [exact Hl|].
    split; [intros b; cbn; lia|]. intros h b. unfold dind. cbn. destruct (of_handle o' =? h); lia.
  - cbn [lofs_remove_all] in H.
    destruct (if unlock && (0 <? lf_count lf)%Z then _ else _) as [cnt0 pool1].
    destruct (oofs_downgrade o (lf_share lf) m0) as [[o1 outs1] pn1] eqn:Ed.
    destruct (lowner_dec (lf_owner lf) lows) as [lows1 pn2].
    set (o2 := o_set o1 (of_seq o1) (of_share o1) (of_readers o1) (of_writers o1)
                     (del_lofs (lf_other lf) (of_lofs o1)) (of_live o1)) in *.
    destruct (lofs_remove_all unlock tl o2 lows1 pool1) as [[[[o3 lows2] pool2] outs2] pn3] eqn:Er.
    inversion H; subst o3 lows2 pool2 outs pn; clear H.
    assert (Hpos : forall b, bit b (m_diff (lf_share lf) m0) = true -> 0 < cnt b o).
    { intros b Hb. rewrite m_diff_m0 in Hb. specialize (Hge b). unfold lofs_bits in Hge. cbn [sumz] in Hge.
      rewrite Hb in Hge. cbn [b2z] in Hge.
      pose proof (lofs_bits_nonneg b tl) as Hn. unfold lofs_bits in Hn. lia. }
    destruct (oofs_downgrade_spec _ _ _ _ _ _ Ed Hpos) as [_ [E1 [E2 [E3 [E4 [E5 [E6 [E7 [E8 E9]]]]]]]]].
    assert (Hl2 : of_lofs o2 = tl).
    { subst o2. cbn [of_lofs o_set]. rewrite E6, Hl. apply del_lofs_head. exact Hnd. }
    assert (Hcnt2 : forall b, cnt b o2 = cnt b o1) by (intros []; reflexivity).
    assert (Hnd2 : NoDup (map lf_other tl)) by (cbn in Hnd; inversion Hnd; assumption).
    assert (Hge2 : forall b, (lofs_bits b tl <= Z.of_N (cnt b o2))%Z).
    { intros b. rewrite Hcnt2, E8, m_diff_m0. specialize (Hge b). unfold lofs_bits in *. cbn [sumz] in Hge. lia. }
    destruct (IH o2 lows1 pool1 o' lows' pool' outs2 pn3 Er Hl2 Hnd2 Hge2) as [Sid [Hlofs [Hcnt Hbal]]].
    assert (Sid12 : same_id o o2) by (subst o2; repeat split; cbn; assumption).
    split; [eapply same_id_trans; eauto|]. split; [exact Hlofs|]. split.
    + intros b. rewrite Hcnt, Hcnt2, E8, m_diff_m0. unfold lofs_bits. cbn [sumz]. lia.
    + intros h b. rewrite balance_app, E9, Hbal.
      assert (Hd : (if of_handle o =? h then (ind b o1 - ind b o)%Z else 0%Z) = dind h b o o2).
      { unfold dind. assert (ind b o2 = ind b o1) by (unfold ind; rewrite Hcnt2; reflexivity). rewrite H. reflexivity. }
      rewrite Hd. apply dind_trans. destruct Sid12 as [_ [_ [_ [Hh _]]]]. exact Hh.
Qed.

(* One lock-owner file of [o] is removed (FREE_STATEID). *)
Lemma lofs_bits_del : forall b lf l, NoDup (map lf_other l) -> In lf l ->
  lofs_bits b (del_lofs (lf_other lf) l) = (lofs_bits b l - b2z (bit b (lf_share lf)))%Z.
Proof.
  intros b lf l. unfold lofs_bits, del_lofs. induction l as [|x l IH]; intros Hnd Hin; [contradiction|].
  cbn in Hnd. inversion Hnd as [|? ? Hni Hnd']; subst. cbn.
  destruct Hin as [->|Hin].
  - rewrite N.eqb_refl. cbn.
    assert (Hrest : filter (fun lf0 => negb (lf_other lf0 =? lf_other lf)) l = l).
    { clear IH Hnd Hnd'. induction l as [|y l IHl]; [reflexivity|]. cbn.
      destruct (lf_other y =? lf_other lf) eqn:E.
      - exfalso. apply Hni. apply N.eqb_eq in E. left. exact E.
      - cbn. f_equal. apply IHl. intros Hi. apply Hni. right. exact Hi. }
    rewrite Hrest. lia.
  - destruct (lf_other x =? lf_other lf) eqn:E.
    + exfalso. apply Hni. apply N.eqb_eq in E. rewrite E. apply in_map. exact Hin.
    + cbn. rewrite IH by assumption. lia.
Qed.

Lemma del_lofs_nodup : forall k l, NoDup (map lf_other l) -> NoDup (map lf_other (del_lofs k l)).
Proof. intros k l H. exact (kdel_nodup lf_other k l H). Qed.

Lemma del_lofs_in : forall k l x, In x (del_lofs k l) -> In x l.
Proof. intros k l x H. unfold del_lofs in H. apply filter_In in H. tauto. Qed.

Lemma lofs_remove_one_spec : forall unlock lf o lows pool o' lows' pool' outs pn,
  lofs_remove_all unlock [lf] o lows pool = (o', lows', pool', outs, pn) ->
  In lf (of_lofs o) -> NoDup (map lf_other (of_lofs o)) ->
  (forall b, bit b (lf_share lf) = true -> 0 < cnt b o) ->
  same_id o o' /\ of_lofs o' = del_lofs (lf_other lf) (of_lofs o)
  /\ (forall b, Z.of_N (cnt b o') = (Z.of_N (cnt b o) - b2z (bit b (lf_share lf)))%Z)
  /\ (forall h b, balance h b outs = dind h b o o').
Proof.
  intros unlock lf o lows pool o' lows' pool' outs pn H Hin Hnd Hpos0.
  cbn [lofs_remove_all] in H.
  destruct (if unlock && (0 <? lf_count lf)%Z then _ else _) as [cnt0 pool1].
  destruct (oofs_downgrade o (lf_share lf) m0) as [[o1 outs1] pn1] eqn:Ed.
  destruct (lowner_dec (lf_owner lf) lows) as [lows1 pn2].
  inversion H; subst; clear H.
  assert (Hpos : forall b, bit b (m_diff (lf_share lf) m0) = true -> 0 < cnt b o).
  { intros b Hb. rewrite m_diff_m0 in Hb. auto. }
  destruct (oofs_downgrade_spec _ _ _ _ _ _ Ed Hpos) as [_ [E1 [E2 [E3 [E4 [E5 [E6 [E7 [E8 E9]]]]]]]]].
  split; [repeat split; cbn; assumption|]. split; [cbn; rewrite E6; reflexivity|]. split.
  - intros b. assert (Hc : forall x, cnt b (o_set o1 (of_seq o1) (of_share o1) (of_readers o1) (of_writers o1) x (of_live o1)) = cnt b o1) by (intros; destruct b; reflexivity).
    rewrite Hc, E8, m_diff_m0. reflexivity.
  - intros h b. rewrite app_nil_r, E9. unfold dind.
    assert (Hi : forall x, ind b (o_set o1 (of_seq o1) (of_share o1) (of_readers o1) (of_writers o1) x (of_live o1)) = ind b o1)
      by (intros; unfold ind; destruct b; reflexivity).
    rewrite Hi. reflexivity.
Qed.

(* nfs41OpenOwnerFileState.remove: what is left of the open-owner file
   only keeps the leaf open for I/O in flight ([K]). *)
Lemma oofs_remove_spec : forall o c pool c1 pool1 outs pn K,
  oofs_remove o c pool = (c1, pool1, outs, pn) ->
  of_live o = true ->
  NoDup (map lf_other (of_lofs o)) ->
  (forall b, (0 <= K b)%Z) ->
  (forall b, Z.of_N (cnt b o) = (b2z (bit b (of_share o)) + lofs_bits b (of_lofs o) + K b)%Z) ->
  exists o3,
    c_oofs c1 = upd_oofs o3 (c_oofs c) /\ c_id c1 = c_id c /\ c_hold c1 = c_hold c /\ c_other c1 = c_other c
    /\ of_other o3 = of_other o /\ of_handle o3 = of_handle o
    /\ of_live o3 = false /\ of_share o3 = m0 /\ of_lofs o3 = []
    /\ (forall b, Z.of_N (cnt b o3) = K b)
    /\ (forall h b, balance h b outs = dind h b o o3).
Proof.
  intros o c pool c1 pool1 outs pn K H Hlive Hnd HK HS. unfold oofs_remove in H.
  destruct (lofs_remove_all true (of_lofs o) o (c_lowners c) pool) as [[[[o1 lows] pool0] outs1] pn1] eqn:Er.
  destruct (oofs_downgrade o1 (of_share o1) m0) as [[o2 outs2] pn2] eqn:Ed.
  destruct (pool_close (of_handle o) pool0) as [pool2 pn3].
  inversion H; subst c1 pool1 outs pn; clear H.
  assert (Hge : forall b, (lofs_bits b (of_lofs o) <= Z.of_N (cnt b o))%Z).
  { intros b. rewrite HS. pose proof (b2z_01 (bit b (of_share o))). specialize (HK b). lia. }
  destruct (lofs_remove_all_spec _ _ _ _ _ _ _ _ _ _ Er eq_refl Hnd Hge) as [[I1 [I2 [I3 [I4 [I5 I6]]]]] [Hl1 [Hc1 Hb1]]].
  assert (Hpos : forall b, bit b (m_diff (of_share o1) m0) = true -> 0 < cnt b o1).
  { intros b Hb. rewrite m_diff_m0, I5 in Hb. specialize (Hc1 b). rewrite HS in Hc1. rewrite Hb in Hc1.
    cbn [b2z] in Hc1. specialize (HK b). lia. }
  destruct (oofs_downgrade_spec _ _ _ _ _ _ Ed Hpos) as [_ [E1 [E2 [E3 [E4 [E5 [E6 [E7 [E8 E9]]]]]]]]].
  set (o3 := o_set o2 (of_seq o2) m0 (of_readers o2) (of_writers o2) [] false).
  exists o3. cbn [c_oofs c_set_oofs c_set_lowners c_id c_hold c_other].
  assert (Hcnt3 : forall b, cnt b o3 = cnt b o2) by (intros []; reflexivity).
  repeat split; try reflexivity.
  - subst o3. cbn. congruence.
  - subst o3. cbn. congruence.
  - intros b. rewrite Hcnt3, E8, m_diff_m0, I5, Hc1, HS. lia.
  - intros h b. rewrite balance_app, Hb1, E9.
    assert (Hd : (if of_handle o1 =? h then (ind b o2 - ind b o1)%Z else 0%Z) = dind h b o1 o3).
    { unfold dind. assert (Hi : ind b o3 = ind b o2) by (unfold ind; rewrite Hcnt3; reflexivity). rewrite Hi. reflexivity. }
    rewrite Hd. apply dind_trans. exact I4.
Qed.
